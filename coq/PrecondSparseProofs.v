(* PrecondSparseProofs.v -- the sparse transcription of RuizEquilibration (PrecondSparse.v) computes, on the dense view
   [to_dense], exactly what the dense model of PrecondDense.v computes with sparse_quirk := true.
   Contents: A  dense view of CSC matrices (mbuild / csc_get facts, pattern-only predicates)
             B  scaling kernels (pre/post_mult_diagonal, csc_scale) on the dense view
             C  well-formed sparse data; sp_apply_scaling = the dense reuse / unscale block
             D  suprema: the column-norm loops on CSC storage = the dense infinity norms
             E  one Ruiz iteration, the loop, scale_data (fresh), final theorems *)
From PIQP Require Import Base Data CSC C14LemmasProofs CSCProofs PrecondDense PrecondProofs PrecondSparse.
From RecordUpdate Require Import RecordSet.
Import RecordSetNotations.
Local Open Scope Qc_scope.
Ltac vlia := unfold Vec, Mat, F in *; lia.

(* ================================================================== *)
(** * A. dense view                                                     *)
(* ================================================================== *)

Lemma bind_ok_inv {A B} (x : res A) (f : A -> res B) y : bind x f = Ok y -> exists a, x = Ok a /\ f a = Ok y.
Proof. destruct x; simpl; intros H; [eauto|discriminate]. Qed.

Lemma length_mbuild r c f : length (mbuild r c f) = c.
Proof. unfold mbuild. now rewrite map_length, seq_length. Qed.
Lemma col_mbuild r c f j : (j < c)%nat -> nth j (mbuild r c f) [] = map (fun i => f i j) (seq 0 r).
Proof.
  intros H. unfold mbuild. rewrite (nth_map' _ _ _ 0%nat) by (rewrite seq_length; exact H).
  now rewrite seq_nth by exact H.
Qed.
Lemma length_col_mbuild r c f j : (j < c)%nat -> length (nth j (mbuild r c f) []) = r.
Proof. intros H. rewrite col_mbuild by exact H. now rewrite map_length, seq_length. Qed.
Lemma mentry_mbuild r c f i j : (i < r)%nat -> (j < c)%nat -> mentry (mbuild r c f) i j = f i j.
Proof.
  intros Hi Hj. unfold mentry. rewrite col_mbuild by exact Hj.
  rewrite (nth_map' _ _ _ 0%nat) by (rewrite seq_length; exact Hi). now rewrite seq_nth by exact Hi.
Qed.
Lemma wf_mat_mbuild r c f : wf_mat r c (mbuild r c f).
Proof.
  split; [apply length_mbuild|]. apply Forall_forall. intros col Hin.
  unfold mbuild in Hin. apply in_map_iff in Hin. destruct Hin as (j & <- & _). now rewrite map_length, seq_length.
Qed.
Lemma mbuild_ext r c f g : (forall i j, (i < r)%nat -> (j < c)%nat -> f i j = g i j) -> mbuild r c f = mbuild r c g.
Proof.
  intros H. unfold mbuild. apply map_ext_in. intros j Hj. apply in_seq in Hj.
  apply map_ext_in. intros i Hi. apply in_seq in Hi. apply H; lia.
Qed.
(* a well-shaped matrix is the table of its entries *)
Lemma mat_eq_mbuild r c (M : Mat) f : wf_mat r c M ->
  (forall i j, (i < r)%nat -> (j < c)%nat -> mentry M i j = f i j) -> M = mbuild r c f.
Proof.
  intros [L C] H. apply mat_ext.
  - now rewrite length_mbuild.
  - intros j Hj. rewrite length_col_mbuild by lia. rewrite Forall_forall in C. apply C. apply nth_In; exact Hj.
  - intros i j Hj Hi. rewrite Forall_forall in C. rewrite (C (nth j M [])) in Hi by (apply nth_In; exact Hj).
    rewrite mentry_mbuild by lia. apply H; lia.
Qed.

(* ---------- pattern-only predicates ---------- *)
Definition col_lo {V} (A : csc V) j := nth j (colptr A) 0%nat.
Definition col_hi {V} (A : csc V) j := nth (S j) (colptr A) 0%nat.
Definition col_rows {V} (A : csc V) (j : nat) : list nat :=
  map (fun p => nth p (rowind A) 0%nat) (seq (col_lo A j) (col_hi A j - col_lo A j)).
Fixpoint nodupb (l : list nat) : bool :=
  match l with [] => true | a :: t => negb (existsb (Nat.eqb a) t) && nodupb t end.
(* no row index is stored twice in a column *)
Definition csc_nodupb {V} (A : csc V) : bool := forallb (fun j => nodupb (col_rows A j)) (seq 0 (ncols A)).

Lemma nodupb_NoDup l : nodupb l = true -> NoDup l.
Proof.
  induction l as [|a t IH]; simpl; intros H; [constructor|].
  apply andb_true_iff in H. destruct H as [H1 H2]. constructor; [|auto].
  intros Hin. apply negb_true_iff in H1. assert (existsb (Nat.eqb a) t = true); [|congruence].
  apply existsb_exists. exists a. split; auto. apply Nat.eqb_refl.
Qed.
Lemma NoDup_map_inj {A B} (f : A -> B) l : NoDup (map f l) -> forall x y, In x l -> In y l -> f x = f y -> x = y.
Proof.
  induction l as [|a t IH]; simpl; intros H x y Hx Hy E; [contradiction|].
  inversion H as [|? ? Hn Hd]; subst.
  destruct Hx as [<-|Hx], Hy as [<-|Hy]; auto.
  - exfalso. apply Hn. rewrite E. now apply in_map.
  - exfalso. apply Hn. rewrite <- E. now apply in_map.
Qed.
Lemma csc_nodup_inj {V} (A : csc V) j p q : csc_nodupb A = true -> (j < ncols A)%nat ->
  (col_lo A j <= p < col_hi A j)%nat -> (col_lo A j <= q < col_hi A j)%nat ->
  nth p (rowind A) 0%nat = nth q (rowind A) 0%nat -> p = q.
Proof.
  intros H Hj Hp Hq E. unfold csc_nodupb in H. rewrite forallb_forall in H.
  specialize (H j). rewrite in_seq in H. specialize (H ltac:(lia)). apply nodupb_NoDup in H.
  eapply (NoDup_map_inj _ _ H); [apply in_seq; lia|apply in_seq; lia|exact E].
Qed.
Lemma upper_only_le {V} (A : csc V) j p : upper_only A = true -> (j < ncols A)%nat ->
  (col_lo A j <= p < col_hi A j)%nat -> (nth p (rowind A) 0 <= j)%nat.
Proof.
  intros H Hj Hp. unfold upper_only in H. rewrite forallb_forall in H. specialize (H j). rewrite in_seq in H.
  specialize (H ltac:(lia)). rewrite forallb_forall in H. apply Nat.leb_le. apply H. apply in_seq.
  unfold col_lo, col_hi in Hp. lia.
Qed.

(* same pattern *)
Definition same_pattern {V} (A B : csc V) : Prop :=
  nrows B = nrows A /\ ncols B = ncols A /\ colptr B = colptr A /\ rowind B = rowind A /\ length (vals B) = length (vals A).
Lemma same_pattern_refl {V} (A : csc V) : same_pattern A A.
Proof. repeat split. Qed.
Lemma same_pattern_trans {V} (A B C : csc V) : same_pattern A B -> same_pattern B C -> same_pattern A C.
Proof. unfold same_pattern. intuition congruence. Qed.
Lemma same_pattern_wf {V} (A B : csc V) : same_pattern A B -> wf_csc B = wf_csc A.
Proof. intros (H1 & H2 & H3 & H4 & H5). unfold wf_csc. now rewrite H1, H2, H3, H4, H5. Qed.
Lemma same_pattern_nodup {V} (A B : csc V) : same_pattern A B -> csc_nodupb B = csc_nodupb A.
Proof. intros (H1 & H2 & H3 & H4 & H5). unfold csc_nodupb, col_rows, col_lo, col_hi. now rewrite H2, H3, H4. Qed.
Lemma same_pattern_upper {V} (A B : csc V) : same_pattern A B -> upper_only B = upper_only A.
Proof. intros (H1 & H2 & H3 & H4 & H5). unfold upper_only. now rewrite H2, H3, H4. Qed.

(* ---------- csc_get under no-duplicates ---------- *)
Section Get.
Variable A : csc F.
Hypothesis Hwf : wf_csc A = true.
Hypothesis Hnd : csc_nodupb A = true.

Lemma qsum_single (g : nat -> F) l p : NoDup l -> In p l -> (forall q, In q l -> q <> p -> g q = 0) -> qsum (map g l) = g p.
Proof.
  induction l as [|a t IH]; simpl; intros Hd Hin Hz; [contradiction|].
  inversion Hd as [|? ? Hn Hd']; subst. destruct Hin as [->|Hin].
  - rewrite qsum_map_zero; [fring|]. intros q Hq. apply Hz; auto. intros ->. contradiction.
  - rewrite IH; auto. rewrite (Hz a); [fring|auto|]. intros ->. contradiction.
Qed.

Lemma csc_get_stored i j p : (j < ncols A)%nat -> (col_lo A j <= p < col_hi A j)%nat ->
  nth p (rowind A) 0%nat = i -> csc_get A i j = nth p (vals A) 0.
Proof.
  intros Hj Hp Ei. unfold csc_get. fold (col_lo A j) (col_hi A j).
  rewrite (qsum_single _ _ p).
  - now rewrite Ei, Nat.eqb_refl.
  - apply seq_NoDup.
  - apply in_seq. lia.
  - intros q Hq Hne. apply in_seq in Hq. destruct (Nat.eqb_spec (nth q (rowind A) 0%nat) i); auto.
    exfalso. apply Hne. apply (csc_nodup_inj A j); auto; try lia; congruence.
Qed.
Lemma csc_get_absent i j : (forall p, (col_lo A j <= p < col_hi A j)%nat -> nth p (rowind A) 0%nat <> i) -> csc_get A i j = 0.
Proof.
  intros H. unfold csc_get. fold (col_lo A j) (col_hi A j). apply qsum_map_zero. intros p Hp. apply in_seq in Hp.
  destruct (Nat.eqb_spec (nth p (rowind A) 0%nat) i); auto. exfalso. apply (H p); auto. lia.
Qed.
(* every entry of the dense view is a stored value or an (unstored) zero *)
Lemma csc_get_cases i j : (j < ncols A)%nat ->
  (exists p, (col_lo A j <= p < col_hi A j)%nat /\ nth p (rowind A) 0%nat = i /\ csc_get A i j = nth p (vals A) 0) \/
  ((forall p, (col_lo A j <= p < col_hi A j)%nat -> nth p (rowind A) 0%nat <> i) /\ csc_get A i j = 0).
Proof.
  intros Hj.
  destruct (in_dec Nat.eq_dec i (col_rows A j)) as [Hin|Hn].
  - left. unfold col_rows in Hin. apply in_map_iff in Hin. destruct Hin as (p & E & Hp). apply in_seq in Hp.
    exists p. split; [lia|]. split; auto. apply csc_get_stored; auto. lia.
  - right. assert (H : forall p, (col_lo A j <= p < col_hi A j)%nat -> nth p (rowind A) 0%nat <> i).
    { intros p Hp E. apply Hn. unfold col_rows. apply in_map_iff. exists p. split; auto. apply in_seq. lia. }
    split; auto. now apply csc_get_absent.
Qed.
Lemma csc_get_lower i j : upper_only A = true -> (j < ncols A)%nat -> (j < i)%nat -> csc_get A i j = 0.
Proof.
  intros Hu Hj Hij. apply csc_get_absent. intros p Hp E. pose proof (upper_only_le A j p Hu Hj Hp). lia.
Qed.
End Get.

(* ================================================================== *)
(** * B. scaling kernels on the dense view                              *)
(* ================================================================== *)

Lemma foldM_len {A B} (f : list A -> B -> res (list A)) l :
  (forall i s s', f s i = Ok s' -> length s' = length s) -> forall s s', foldM f l s = Ok s' -> length s' = length s.
Proof.
  intros Hf. induction l as [|a t IH]; simpl; intros s s' H; [now inversion H|].
  apply bind_ok_inv in H. destruct H as (s1 & E1 & H). apply IH in H. apply Hf in E1. congruence.
Qed.
Lemma for_range_len {A} (f : nat -> list A -> res (list A)) :
  (forall i s s', f i s = Ok s' -> length s' = length s) ->
  forall lo hi s s', for_range lo hi f s = Ok s' -> length s' = length s.
Proof. intros Hf lo hi s s'. unfold for_range. apply foldM_len. intros i t t'. apply Hf. Qed.

Lemma pre_mult_len A diag A' : pre_mult_diagonal A diag = Ok A' -> length (vals A') = length (vals A).
Proof.
  unfold pre_mult_diagonal. intros H. apply bind_ok_inv in H. destruct H as (ax & E & H). inversion H; subst; simpl.
  revert E. apply for_range_len. intros j s s' Hs.
  apply bind_ok_inv in Hs. destruct Hs as (lo & _ & Hs). apply bind_ok_inv in Hs. destruct Hs as (hi & _ & Hs).
  revert Hs. apply for_range_len. intros p t t' Ht.
  apply bind_ok_inv in Ht. destruct Ht as (? & _ & Ht). apply bind_ok_inv in Ht. destruct Ht as (? & _ & Ht).
  apply bind_ok_inv in Ht. destruct Ht as (? & _ & Ht). eapply upd_len; eauto.
Qed.
Lemma post_mult_len A diag A' : post_mult_diagonal A diag = Ok A' -> length (vals A') = length (vals A).
Proof.
  unfold post_mult_diagonal. intros H. apply bind_ok_inv in H. destruct H as (ax & E & H). inversion H; subst; simpl.
  revert E. apply for_range_len. intros j s s' Hs.
  apply bind_ok_inv in Hs. destruct Hs as (lo & _ & Hs). apply bind_ok_inv in Hs. destruct Hs as (hi & _ & Hs).
  apply bind_ok_inv in Hs. destruct Hs as (dd & _ & Hs).
  revert Hs. apply for_range_len. intros p t t' Ht.
  apply bind_ok_inv in Ht. destruct Ht as (? & _ & Ht). eapply upd_len; eauto.
Qed.

Lemma wf_mat_intro r c (M : Mat) : length M = c -> (forall j, (j < c)%nat -> length (nth j M []) = r) -> wf_mat r c M.
Proof.
  intros L H. split; auto. apply Forall_forall. intros col Hin. apply (In_nth _ _ []) in Hin.
  destruct Hin as (j & Hj & <-). apply H. rewrite <- L. exact Hj.
Qed.

(* diag(dr) * A * diag(dc) through pre_mult_diagonal; post_mult_diagonal *)
Lemma scale_rc_csc A dr dc : wf_csc A = true -> length dr = nrows A -> length dc = ncols A ->
  exists A1 A2, pre_mult_diagonal A dr = Ok A1 /\ post_mult_diagonal A1 dc = Ok A2 /\ same_pattern A A2 /\
    (forall i j, (j < ncols A)%nat -> csc_get A2 i j = nth j dc 0 * (nth i dr 0 * csc_get A i j)).
Proof.
  intros Hwf Ldr Ldc.
  destruct (pre_mult_diagonal_spec A Hwf dr Ldr) as (A1 & E1 & R1 & C1 & P1 & I1 & G1).
  pose proof (pre_mult_len _ _ _ E1) as L1.
  assert (SP1 : same_pattern A A1) by (repeat split; auto).
  assert (Hwf1 : wf_csc A1 = true) by (rewrite (same_pattern_wf _ _ SP1); exact Hwf).
  destruct (post_mult_diagonal_spec A1 Hwf1 dc ltac:(congruence)) as (A2 & E2 & R2 & C2 & P2 & I2 & G2).
  pose proof (post_mult_len _ _ _ E2) as L2.
  exists A1, A2. split; auto. split; auto. split.
  - apply (same_pattern_trans A A1 A2); auto. repeat split; auto.
  - intros i j Hj. rewrite G2 by congruence. rewrite G1 by exact Hj. fring.
Qed.

Lemma dense_scale_rc A A2 dr dc : length dr = nrows A -> length dc = ncols A -> same_pattern A A2 ->
  (forall i j, (j < ncols A)%nat -> csc_get A2 i j = nth j dc 0 * (nth i dr 0 * csc_get A i j)) ->
  csc_to_dense A2 = mscale_rc dr dc (csc_to_dense A).
Proof.
  intros Ldr Ldc (R & C & _) G. unfold csc_to_dense. rewrite R, C. symmetry. apply mat_eq_mbuild.
  - apply wf_mat_intro.
    + rewrite length_mscale_rc, length_mbuild. vlia.
    + intros j Hj. rewrite col_mscale_rc by (rewrite ?length_mbuild; vlia).
      rewrite length_vscale, length_vmul, length_col_mbuild by exact Hj. vlia.
  - intros i j Hi Hj. rewrite mentry_mscale_rc, mentry_mbuild by assumption. symmetry. now apply G.
Qed.

Lemma dense_scale_P A A2 s : wf_csc A = true -> csc_nodupb A = true -> upper_only A = true -> nrows A = ncols A ->
  same_pattern A A2 ->
  (forall i j, (j < ncols A)%nat -> csc_get A2 i j = nth j s 0 * (nth i s 0 * csc_get A i j)) ->
  csc_to_dense A2 = scale_P_utri s (csc_to_dense A).
Proof.
  intros Hwf Hnd Hu Hsq (R & C & _) G. unfold csc_to_dense. rewrite R, C. symmetry. apply mat_eq_mbuild.
  - apply wf_mat_intro.
    + now rewrite length_scale_P_utri, length_mbuild.
    + intros j Hj. now rewrite length_col_scale_P_utri, length_col_mbuild.
  - intros i j Hi Hj. rewrite mentry_scale_P_utri, mentry_mbuild by assumption. rewrite G by exact Hj.
    destruct (Nat.leb i j) eqn:E; [fring|]. apply Nat.leb_gt in E.
    rewrite (csc_get_lower A i j) by assumption. fring.
Qed.

Lemma csc_scale_pattern A g : same_pattern A (csc_scale A g).
Proof. unfold csc_scale, csc_with_vals. repeat split; simpl. now rewrite map_length. Qed.
Lemma csc_get_scale A g i j : wf_csc A = true -> (j < ncols A)%nat -> csc_get (csc_scale A g) i j = csc_get A i j * g.
Proof.
  intros Hwf Hj. unfold csc_scale, csc_with_vals.
  apply (csc_get_scaled A Hwf (map (fun v => v * g) (vals A)) (fun _ _ => g) (fun _ _ => g)); auto.
  intros p Hp. destruct (wf_col_range A Hwf j Hj) as [_ Hhi].
  pose proof (wf_vals_len A Hwf) as Lv. unfold F in *. rewrite (nth_map' (fun v : Qc => v * g) (vals A) p 0 0); [reflexivity|]. lia.
Qed.
Lemma dense_csc_scale A g : wf_csc A = true -> csc_to_dense (csc_scale A g) = mscale g (csc_to_dense A).
Proof.
  intros Hwf. unfold csc_to_dense. change (nrows (csc_scale A g)) with (nrows A). change (ncols (csc_scale A g)) with (ncols A).
  symmetry. apply mat_eq_mbuild.
  - apply wf_mat_intro.
    + now rewrite length_mscale, length_mbuild.
    + intros j Hj. now rewrite col_mscale, length_vscale, length_col_mbuild.
  - intros i j Hi Hj. rewrite mentry_mscale, mentry_mbuild by assumption. rewrite csc_get_scale by assumption. fring.
Qed.

(* ================================================================== *)
(** * C. well-formed sparse data; the reuse / unscale block             *)
(* ================================================================== *)

Record wf_csc_mat (A : csc F) (r c : nat) : Prop := mk_wf_csc_mat {
  wm_wf : wf_csc A = true;          (* compressed storage, indices in range (CSC.v) *)
  wm_nd : csc_nodupb A = true;      (* no row index twice in a column *)
  wm_r : nrows A = r; wm_c : ncols A = c }.

Record wf_spdata (d : spdata) : Prop := mk_wf_spdata {
  ws_P   : wf_csc_mat (sp_P d) (sp_n d) (sp_n d);
  ws_Pu  : upper_only (sp_P d) = true;
  ws_AT  : wf_csc_mat (sp_AT d) (sp_n d) (sp_p d);
  ws_GT  : wf_csc_mat (sp_GT d) (sp_n d) (sp_m d);
  ws_c   : length (sp_c d) = sp_n d;
  ws_b   : length (sp_b d) = sp_p d;
  ws_h   : length (sp_h d) = sp_m d;
  ws_nlb : (sp_nlb d <= sp_n d)%nat;
  ws_nub : (sp_nub d <= sp_n d)%nat;
  ws_lbl : length (sp_lb_idx d) = sp_n d;
  ws_ubl : length (sp_ub_idx d) = sp_n d;
  ws_lbi : incr_from 0 (sp_n d) (head (sp_nlb d) (sp_lb_idx d));
  ws_ubi : incr_from 0 (sp_n d) (head (sp_nub d) (sp_ub_idx d));
  ws_lbs : length (sp_lb_scaling d) = sp_n d;
  ws_ubs : length (sp_ub_scaling d) = sp_n d;
  ws_lbn : length (sp_lb_n d) = sp_n d;
  ws_ub  : length (sp_ub d) = sp_n d
}.

Lemma wf_csc_mat_pattern A B r c : wf_csc_mat A r c -> same_pattern A B -> wf_csc_mat B r c.
Proof.
  intros [H1 H2 H3 H4] SP. pose proof SP as (R & C & _). split.
  - now rewrite (same_pattern_wf _ _ SP).
  - now rewrite (same_pattern_nodup _ _ SP).
  - congruence.
  - congruence.
Qed.

Lemma nlb_to_dense d : wf_spdata d -> d_nlb (to_dense d) = sp_nlb d.
Proof. intros W. unfold d_nlb, to_dense; cbn. apply length_head. rewrite (ws_lbl d W). apply W. Qed.
Lemma nub_to_dense d : wf_spdata d -> d_nub (to_dense d) = sp_nub d.
Proof. intros W. unfold d_nub, to_dense; cbn. apply length_head. rewrite (ws_ubl d W). apply W. Qed.

Lemma wf_to_dense d : wf_spdata d -> wf_data (to_dense d).
Proof.
  intros W. pose proof (nlb_to_dense d W) as Enlb. pose proof (nub_to_dense d W) as Enub.
  destruct W as [[? ? RP CP] ? [? ? RA CA] [? ? RG CG] ? ? ? ? ? ? ? ? ? ? ? ? ?].
  split; unfold to_dense in *; cbn in *; auto.
  - unfold csc_to_dense. rewrite RP, CP. apply wf_mat_mbuild.
  - unfold csc_to_dense. rewrite RA, CA. apply wf_mat_mbuild.
  - unfold csc_to_dense. rewrite RG, CG. apply wf_mat_mbuild.
  - rewrite Enlb. apply length_head. lia.
  - rewrite Enub. apply length_head. lia.
Qed.

(* the bound update with explicit scaling vectors *)
Definition sp_bounds_gen (pc : Precond) (s slb sub : Vec) (d : spdata) : spdata :=
  let n := pc_n pc in let p := pc_p pc in let nlb := pc_nlb pc in let nub := pc_nub pc in
  d <| sp_b := vmul (sp_b d) (segment n p s) |>
    <| sp_h := vmul (sp_h d) (tail_from (n + p) s) |>
    <| sp_lb_n := set_head (vmul (head nlb (sp_lb_n d)) (head nlb slb)) (sp_lb_n d) |>
    <| sp_ub := set_head (vmul (head nub (sp_ub d)) (head nub sub)) (sp_ub d) |>.

Lemma head_set_head_vmul (a b : Vec) k : (k <= length a)%nat -> (k <= length b)%nat ->
  head k (set_head (vmul (head k a) (head k b)) a) = vmul (head k a) (head k b).
Proof.
  intros La Lb. unfold set_head, head.
  assert (L : length (vmul (firstn k a) (firstn k b)) = k).
  { rewrite length_vmul, !firstn_length. vlia. }
  rewrite firstn_app, L, Nat.sub_diag. simpl. rewrite app_nil_r. rewrite <- L at 1. apply firstn_all.
Qed.
Lemma length_set_head_vmul (a b : Vec) k : length (set_head (vmul (head k a) (head k b)) a) = length a.
Proof.
  apply length_set_head. rewrite length_vmul. unfold head. rewrite !firstn_length. vlia.
Qed.

Definition sp_frame (d d1 : spdata) : Prop :=
  sp_n d1 = sp_n d /\ sp_p d1 = sp_p d /\ sp_m d1 = sp_m d /\
  same_pattern (sp_P d) (sp_P d1) /\ same_pattern (sp_AT d) (sp_AT d1) /\ same_pattern (sp_GT d) (sp_GT d1) /\
  sp_nlb d1 = sp_nlb d /\ sp_nub d1 = sp_nub d /\ sp_lb_idx d1 = sp_lb_idx d /\ sp_ub_idx d1 = sp_ub_idx d.

Lemma sp_frame_refl d : sp_frame d d.
Proof. repeat split. Qed.
Lemma sp_frame_trans a b c : sp_frame a b -> sp_frame b c -> sp_frame a c.
Proof.
  intros (A1 & A2 & A3 & A4 & A5 & A6 & A7 & A8 & A9 & A10) (B1 & B2 & B3 & B4 & B5 & B6 & B7 & B8 & B9 & B10).
  unfold sp_frame. repeat split; try congruence; eapply same_pattern_trans; eauto.
Qed.

Lemma idx_in_range d : wf_spdata d -> forall N, (sp_n d <= N)%nat ->
  Forall (fun i => (i < N)%nat) (head (sp_nlb d) (sp_lb_idx d)) /\ Forall (fun i => (i < N)%nat) (head (sp_nub d) (sp_ub_idx d)).
Proof.
  intros W N HN. split.
  - eapply Forall_impl; [|apply (incr_from_Forall _ _ _ (ws_lbi d W))]. cbv beta. intros; lia.
  - eapply Forall_impl; [|apply (incr_from_Forall _ _ _ (ws_ubi d W))]. cbv beta. intros; lia.
Qed.

Lemma apply_scaling_dense pc cs s slb sub d :
  wf_spdata d -> pc_n pc = sp_n d -> pc_p pc = sp_p d -> pc_m pc = sp_m d ->
  pc_nlb pc = sp_nlb d -> pc_nub pc = sp_nub d ->
  length s = (sp_n d + sp_p d + sp_m d)%nat -> (sp_nlb d <= length slb)%nat -> (sp_nub d <= length sub)%nat ->
  exists d1, sp_apply_scaling pc cs s slb sub d = Ok d1 /\ wf_spdata d1 /\ sp_frame d d1 /\
    sp_b d1 = sp_b d /\ sp_h d1 = sp_h d /\ sp_lb_n d1 = sp_lb_n d /\ sp_ub d1 = sp_ub d /\
    xform (pc_n pc) (pc_p pc) (pc_nlb pc) (pc_nub pc) cs s slb sub
          (head (pc_nlb pc) (sp_lb_idx d)) (head (pc_nub pc) (sp_ub_idx d)) (to_dense d)
    = Ok (to_dense (sp_bounds_gen pc s slb sub d1)).
Proof.
  intros W En Ep Em Enlb Enub Ls Llb Lub.
  pose proof W as [[WP NP RP CP] UP [WA NA RA CA] [WG NG RG CG] Lc Lb Lh Hnlb Hnub Llbi Lubi Ilb Iub Llbs Lubs Llbn Lubn].
  unfold sp_apply_scaling, xform. rewrite En, Ep, Enlb, Enub.
  set (n := sp_n d) in *. set (p := sp_p d) in *. set (m := sp_m d) in *.
  set (sx := head n s). set (sy := segment n p s). set (sz := tail_from (n + p) s).
  assert (Lsx : length sx = n) by (apply length_head; lia).
  assert (Lsy : length sy = p) by (apply length_segment; lia).
  assert (Lsz : length sz = m) by (unfold sz; rewrite length_tail_from; lia).
  (* P *)
  pose proof (csc_scale_pattern (sp_P d) cs) as SP0.
  assert (WP0 : wf_csc (csc_scale (sp_P d) cs) = true) by (rewrite (same_pattern_wf _ _ SP0); exact WP).
  destruct (scale_rc_csc (csc_scale (sp_P d) cs) sx sx WP0) as (P1 & P2 & E1 & E2 & SP2 & G2);
    [simpl; congruence|simpl; congruence|].
  rewrite E1; cbn [bind]. rewrite E2; cbn [bind].
  destruct (scale_rc_csc (sp_AT d) sx sy WA) as (A1 & A2 & EA1 & EA2 & SA2 & GA2); [congruence|congruence|].
  rewrite EA1; cbn [bind]. rewrite EA2; cbn [bind].
  destruct (scale_rc_csc (sp_GT d) sx sz WG) as (G1 & G2' & EG1 & EG2 & SG2 & GG2); [congruence|congruence|].
  rewrite EG1; cbn [bind]. rewrite EG2; cbn [bind].
  destruct (idx_in_range d W (length s)) as [Flb Fub]; [lia|].
  cbn [to_dense d_lb_scaling d_ub_scaling d_P d_AT d_GT d_c d_b d_h d_n d_p d_m d_lb_idx d_ub_idx d_lb_n d_ub].
  set (lbs0 := set_head (vmul (head (sp_nlb d) (sp_lb_scaling d)) (head (sp_nlb d) slb)) (sp_lb_scaling d)).
  set (ubs0 := set_head (vmul (head (sp_nub d) (sp_ub_scaling d)) (head (sp_nub d) sub)) (sp_ub_scaling d)).
  destruct (mul_gather_ok lbs0 s _ Flb) as [lbs1 Elb]. rewrite Elb; cbn [bind].
  destruct (mul_gather_ok ubs0 s _ Fub) as [ubs1 Eub]. rewrite Eub; cbn [bind].
  assert (Llbs0 : length lbs0 = n) by (unfold lbs0; rewrite length_set_head_vmul; exact Llbs).
  assert (Lubs0 : length ubs0 = n) by (unfold ubs0; rewrite length_set_head_vmul; exact Lubs).
  destruct (mul_gather_spec _ _ _ _ Elb) as [Llbs1 _]; [rewrite length_head by lia; lia|].
  destruct (mul_gather_spec _ _ _ _ Eub) as [Lubs1 _]; [rewrite length_head by lia; lia|].
  assert (SPP : same_pattern (sp_P d) P2) by (eapply same_pattern_trans; eauto).
  eexists. split; [reflexivity|]. split; [|split; [|split; [|split; [|split; [|split]]]]]; try reflexivity.
  - refine (mk_wf_spdata _ _ _ _ _ _ _ _ _ _ _ _ _ _ _ _ _ _); cbn; try assumption.
    + eapply wf_csc_mat_pattern; [|exact SPP]. split; auto.
    + now rewrite (same_pattern_upper _ _ SPP).
    + eapply wf_csc_mat_pattern; [|exact SA2]. split; auto.
    + eapply wf_csc_mat_pattern; [|exact SG2]. split; auto.
    + rewrite length_vmul, length_vscale. vlia.
    + rewrite Llbs1. exact Llbs0.
    + rewrite Lubs1. exact Lubs0.
  - unfold sp_frame; cbn. do 3 (split; [reflexivity|]). split; [exact SPP|]. split; [exact SA2|]. split; [exact SG2|]. repeat split.
  - unfold to_dense, sp_bounds_gen; cbn. rewrite Enlb, Enub.
    rewrite !head_set_head_vmul by lia.
    f_equal. f_equal; try reflexivity.
    + (* P *)
      rewrite <- (dense_csc_scale (sp_P d) cs WP).
      symmetry. apply dense_scale_P; auto. simpl. congruence.
    + symmetry. apply dense_scale_rc; auto; vlia.
    + symmetry. apply dense_scale_rc; auto; vlia.
    + rewrite En, Ep. reflexivity.
    + rewrite En, Ep. reflexivity.
Qed.

Definition res_map {A B} (f : A -> B) (r : res A) : res B := match r with Ok a => Ok (f a) | Err e => Err e end.
(* the dense view of a result of scale_data *)
Definition dense_result (r : Precond * spdata) : Precond * Data := (fst r, to_dense (snd r)).

Lemma wf_pc_dims pc d : wf_pc pc (to_dense d) ->
  wf_pc_len pc /\ pc_n pc = sp_n d /\ pc_p pc = sp_p d /\ pc_m pc = sp_m d.
Proof. intros (WL & A & B & C). auto. Qed.

(* ---- reuse branch ---- *)
Lemma sparse_reuse_explicit K pc d sc it : wf_spdata d -> wf_pc pc (to_dense d) ->
  exists d1, sp_scale_data K pc d true sc it = Ok (pc <| pc_nlb := sp_nlb d |> <| pc_nub := sp_nub d |>, d1) /\
     wf_spdata d1 /\ sp_frame d d1 /\
     forall sq, ruiz_scale_data K sq pc (to_dense d) true sc it = Ok (pc <| pc_nlb := sp_nlb d |> <| pc_nub := sp_nub d |>, to_dense d1).
Proof.
  intros W WP. destruct (wf_pc_dims _ _ WP) as ([Ld Ldi Llb Llbi Lub Lubi Hnlb Hnub] & En & Ep & Em).
  unfold sp_scale_data. set (pc' := pc <| pc_nlb := sp_nlb d |> <| pc_nub := sp_nub d |>).
  destruct (apply_scaling_dense pc' (pc_c pc') (pc_delta pc') (pc_delta_lb pc') (pc_delta_ub pc') d W)
    as (d1 & E & W1 & Fr & Eb & Eh & Elbn & Eub & X); try (subst pc'; cbn; auto; fail).
  - subst pc'; cbn. vlia.
  - subst pc'; cbn. pose proof (ws_nlb d W). vlia.
  - subst pc'; cbn. pose proof (ws_nub d W). vlia.
  - rewrite E; cbn [bind]. eexists. split; [reflexivity|].
    assert (Fr2 : sp_frame d1 (sp_scale_bounds pc' d1)) by (unfold sp_frame, sp_scale_bounds; cbn; repeat split).
    split; [|split].
    + destruct W1. refine (mk_wf_spdata _ _ _ _ _ _ _ _ _ _ _ _ _ _ _ _ _ _); cbn -[vmul segment tail_from set_head head firstn skipn]; try assumption.
      * rewrite length_vmul, length_segment by (subst pc'; cbn; vlia). subst pc'; cbn. destruct Fr as (F1 & F2 & F3 & _). vlia.
      * rewrite length_vmul, length_tail_from. subst pc'; cbn. destruct Fr as (F1 & F2 & F3 & _). vlia.
      * rewrite length_set_head_vmul. assumption.
      * rewrite length_set_head_vmul. assumption.
    + eapply sp_frame_trans; eauto.
    + intros sq. rewrite scale_reuse_is_xform. rewrite (nlb_to_dense d W), (nub_to_dense d W).
      subst pc'. cbn -[xform to_dense head sp_bounds_gen] in X. cbn [to_dense d_lb_idx d_ub_idx]. rewrite X. cbn [bind]. reflexivity.
Qed.

Theorem sparse_scale_reuse_eq_dense K sq pc d sc it : wf_spdata d -> wf_pc pc (to_dense d) ->
  res_map dense_result (sp_scale_data K pc d true sc it) = ruiz_scale_data K sq pc (to_dense d) true sc it.
Proof.
  intros W WP. destruct (sparse_reuse_explicit K pc d sc it W WP) as (d1 & E & _ & _ & H).
  rewrite E, H. reflexivity.
Qed.

(* ---- unscale_data ---- *)
Lemma sparse_unscale_explicit pc d : wf_spdata d -> wf_pc pc (to_dense d) -> pc_nlb pc = sp_nlb d -> pc_nub pc = sp_nub d ->
  exists d1, sp_unscale_data pc d = Ok d1 /\ wf_spdata d1 /\ sp_frame d d1 /\ ruiz_unscale_data pc (to_dense d) = Ok (to_dense d1).
Proof.
  intros W WP Enlb Enub. destruct (wf_pc_dims _ _ WP) as ([Ld Ldi Llb Llbi Lub Lubi Hnlb Hnub] & En & Ep & Em).
  unfold sp_unscale_data.
  destruct (apply_scaling_dense pc (pc_c_inv pc) (pc_delta_inv pc) (pc_delta_lb_inv pc) (pc_delta_ub_inv pc) d W)
    as (d1 & E & W1 & Fr & Eb & Eh & Elbn & Eub & X); auto; try vlia.
  rewrite E; cbn [bind]. eexists. split; [reflexivity|].
    assert (Fr2 : sp_frame d1 (sp_unscale_bounds pc d1)) by (unfold sp_frame, sp_unscale_bounds; cbn; repeat split).
    split; [|split].
    + destruct W1. refine (mk_wf_spdata _ _ _ _ _ _ _ _ _ _ _ _ _ _ _ _ _ _); cbn -[vmul segment tail_from set_head head firstn skipn]; try assumption.
      * rewrite length_vmul, length_segment by vlia. destruct Fr as (F1 & F2 & F3 & _). vlia.
      * rewrite length_vmul, length_tail_from. destruct Fr as (F1 & F2 & F3 & _). vlia.
      * rewrite length_set_head_vmul. assumption.
      * rewrite length_set_head_vmul. assumption.
    + eapply sp_frame_trans; eauto.
    + rewrite unscale_is_xform. cbn [to_dense d_lb_idx d_ub_idx]. unfold head in *.
      rewrite !firstn_firstn, Enlb, Enub, !Nat.min_id. rewrite Enlb, Enub in X. exact X.
Qed.

Theorem sparse_unscale_eq_dense pc d : wf_spdata d -> wf_pc pc (to_dense d) -> pc_nlb pc = sp_nlb d -> pc_nub pc = sp_nub d ->
  res_map to_dense (sp_unscale_data pc d) = ruiz_unscale_data pc (to_dense d).
Proof.
  intros W WP A B. destruct (sparse_unscale_explicit pc d W WP A B) as (d1 & E & _ & _ & H). rewrite E, H. reflexivity.
Qed.

(* ---------- the sparsity pattern never changes (no hypothesis on the data: whenever the call returns) ---------- *)
Lemma pre_mult_pattern A diag A' : pre_mult_diagonal A diag = Ok A' -> same_pattern A A'.
Proof.
  intros H. pose proof (pre_mult_len _ _ _ H) as L. unfold pre_mult_diagonal in H.
  apply bind_ok_inv in H. destruct H as (ax & _ & H). inversion H; subst. repeat split. exact L.
Qed.
Lemma post_mult_pattern A diag A' : post_mult_diagonal A diag = Ok A' -> same_pattern A A'.
Proof.
  intros H. pose proof (post_mult_len _ _ _ H) as L. unfold post_mult_diagonal in H.
  apply bind_ok_inv in H. destruct H as (ax & _ & H). inversion H; subst. repeat split. exact L.
Qed.

Lemma apply_scaling_frame pc cs s slb sub d d1 : sp_apply_scaling pc cs s slb sub d = Ok d1 -> sp_frame d d1.
Proof.
  unfold sp_apply_scaling. intros H.
  apply bind_ok_inv in H. destruct H as (P1 & E1 & H). apply bind_ok_inv in H. destruct H as (P2 & E2 & H).
  apply bind_ok_inv in H. destruct H as (A1 & E3 & H). apply bind_ok_inv in H. destruct H as (A2 & E4 & H).
  apply bind_ok_inv in H. destruct H as (G1 & E5 & H). apply bind_ok_inv in H. destruct H as (G2 & E6 & H).
  apply bind_ok_inv in H. destruct H as (l1 & _ & H). apply bind_ok_inv in H. destruct H as (u1 & _ & H).
  inversion H; subst; clear H. unfold sp_frame; cbn.
  do 3 (split; [reflexivity|]).
  split. { eapply same_pattern_trans; [apply csc_scale_pattern|]. eapply same_pattern_trans; [eapply pre_mult_pattern|eapply post_mult_pattern]; eauto. }
  split. { eapply same_pattern_trans; [eapply pre_mult_pattern|eapply post_mult_pattern]; eauto. }
  split. { eapply same_pattern_trans; [eapply pre_mult_pattern|eapply post_mult_pattern]; eauto. }
  repeat split.
Qed.

Lemma ruiz_iter_frame K sc pc d pc' d' : sp_ruiz_iter K sc (pc, d) = Ok (pc', d') ->
  sp_frame d d' /\ pc_n pc' = pc_n pc /\ pc_p pc' = pc_p pc /\ pc_m pc' = pc_m pc /\ pc_nlb pc' = pc_nlb pc /\ pc_nub pc' = pc_nub pc.
Proof.
  unfold sp_ruiz_iter. cbn [fst snd]. intros H.
  do 3 (apply bind_ok_inv in H; destruct H as (? & _ & H)).
  do 2 (apply bind_ok_inv in H; destruct H as (? & _ & H)).
  do 3 (apply bind_ok_inv in H; destruct H as (? & _ & H)).
  apply bind_ok_inv in H. destruct H as (P1 & E1 & H). apply bind_ok_inv in H. destruct H as (P2 & E2 & H).
  apply bind_ok_inv in H. destruct H as (A1 & E3 & H). apply bind_ok_inv in H. destruct H as (A2 & E4 & H).
  apply bind_ok_inv in H. destruct H as (G1 & E5 & H). apply bind_ok_inv in H. destruct H as (G2 & E6 & H).
  do 2 (apply bind_ok_inv in H; destruct H as (? & _ & H)).
  apply bind_ok_inv in H. destruct H as ([[[P3 c2] cc] scr] & EC & H).
  inversion H; subst; clear H. cbn.
  assert (SP2 : same_pattern (sp_P d) P2) by (eapply same_pattern_trans; [eapply pre_mult_pattern|eapply post_mult_pattern]; eauto).
  assert (SP3 : same_pattern (sp_P d) P3).
  { destruct sc.
    - do 3 (apply bind_ok_inv in EC; destruct EC as (? & _ & EC)). inversion EC; subst.
      eapply same_pattern_trans; [exact SP2|apply csc_scale_pattern].
    - inversion EC; subst. exact SP2. }
  unfold sp_frame; cbn. repeat split; try apply SP3;
    try (eapply same_pattern_trans; [eapply pre_mult_pattern|eapply post_mult_pattern]; eauto; fail).
  all: try (destruct SP3 as (? & ? & ? & ? & ?); assumption).
  all: destruct (same_pattern_trans _ _ _ (pre_mult_pattern _ _ _ E3) (post_mult_pattern _ _ _ E4)) as (? & ? & ? & ? & ?);
       destruct (same_pattern_trans _ _ _ (pre_mult_pattern _ _ _ E5) (post_mult_pattern _ _ _ E6)) as (? & ? & ? & ? & ?); assumption.
Qed.

Lemma ruiz_loop_frame K sc fuel : forall pc d pc' d', sp_ruiz_loop K fuel sc (pc, d) = Ok (pc', d') ->
  sp_frame d d' /\ pc_n pc' = pc_n pc /\ pc_p pc' = pc_p pc /\ pc_m pc' = pc_m pc /\ pc_nlb pc' = pc_nlb pc /\ pc_nub pc' = pc_nub pc.
Proof.
  induction fuel as [|f IH]; intros pc d pc' d' H; simpl in H.
  - inversion H; subst. split; [apply sp_frame_refl|]. repeat split.
  - destruct (ruiz_continue _ _ _ _ _ _).
    + apply bind_ok_inv in H. destruct H as ([pc1 d1] & E1 & H).
      apply ruiz_iter_frame in E1. apply IH in H.
      destruct E1 as (F1 & ? & ? & ? & ? & ?), H as (F2 & ? & ? & ? & ? & ?).
      split; [eapply sp_frame_trans; eauto|]. repeat split; congruence.
    + inversion H; subst. split; [apply sp_frame_refl|]. repeat split.
Qed.

Theorem sparse_pattern_preserved K pc d reuse sc it pc' d' :
  sp_scale_data K pc d reuse sc it = Ok (pc', d') -> sp_frame d d'.
Proof.
  unfold sp_scale_data. destruct reuse; intros H.
  - apply bind_ok_inv in H. destruct H as (d1 & E & H). inversion H; subst.
    eapply sp_frame_trans; [eapply apply_scaling_frame; eauto|]. unfold sp_frame, sp_scale_bounds; cbn. repeat split.
  - apply bind_ok_inv in H. destruct H as ([pc2 d2] & E & H).
    do 4 (apply bind_ok_inv in H; destruct H as (? & _ & H)). inversion H; subst.
    apply ruiz_loop_frame in E. destruct E as (Fr & _).
    eapply sp_frame_trans; [exact Fr|]. unfold sp_frame, sp_scale_bounds; cbn. repeat split.
Qed.
Theorem sparse_unscale_pattern_preserved pc d d' : sp_unscale_data pc d = Ok d' -> sp_frame d d'.
Proof.
  unfold sp_unscale_data. intros H. apply bind_ok_inv in H. destruct H as (d1 & E & H). inversion H; subst.
  eapply sp_frame_trans; [eapply apply_scaling_frame; eauto|]. unfold sp_frame, sp_unscale_bounds; cbn. repeat split.
Qed.

(* ---------- for the concrete examples: all numbers of a result as plain fractions (the [canon] proof inside a Qc is
   irrelevant; two canonical fractions are equal iff their [this] parts are) ---------- *)
Definition qs (v : Vec) : list Q := map this v.
Definition flat_pc (pc : Precond) :=
  (pc_ident pc, [pc_n pc; pc_p pc; pc_m pc; pc_nlb pc; pc_nub pc],
   [qs [pc_c pc; pc_c_inv pc]; qs (pc_delta pc); qs (pc_delta_lb pc); qs (pc_delta_ub pc);
    qs (pc_delta_inv pc); qs (pc_delta_lb_inv pc); qs (pc_delta_ub_inv pc)]).
Definition flat_data (d : Data) :=
  ([d_n d; d_p d; d_m d], d_lb_idx d, d_ub_idx d, map qs (d_P d), map qs (d_AT d), map qs (d_GT d),
   [qs (d_c d); qs (d_b d); qs (d_h d); qs (d_lb_scaling d); qs (d_ub_scaling d); qs (d_lb_n d); qs (d_ub d)]).
Definition flat_result (r : Precond * Data) := (flat_pc (fst r), flat_data (snd r)).

(* ================================================================== *)
(** * D. suprema: the column-norm loops on CSC storage                  *)
(* ================================================================== *)

Lemma qmax_l a b : a <= qmax a b.
Proof. unfold qmax. destruct (qltb a b) eqn:E; [apply Qclt_le_weak, qltb_true_iff, E|apply Qcle_refl]. Qed.
Lemma qmax_r a b : b <= qmax a b.
Proof. unfold qmax. destruct (qltb a b) eqn:E; [apply Qcle_refl|apply qltb_false_iff, E]. Qed.
Lemma qmax_cases a b : qmax a b = a \/ qmax a b = b.
Proof. unfold qmax. destruct (qltb a b); auto. Qed.
Lemma qabs_nonneg a : 0 <= qabs a.
Proof.
  unfold qabs. destruct (qltb a 0) eqn:E.
  - apply qltb_true_iff in E. apply Qclt_le_weak in E. apply Qcopp_le_compat in E.
    assert (Z : - (0:Qc) = 0) by ring. rewrite Z in E. exact E.
  - apply qltb_false_iff in E. exact E.
Qed.

(* x is the maximum of S together with 0 *)
Definition is_sup (S : F -> Prop) (x : F) : Prop := 0 <= x /\ (x = 0 \/ S x) /\ forall y, S y -> y <= x.

Lemma is_sup_empty : is_sup (fun _ => False) 0.
Proof. split; [apply Qcle_refl|]. split; [auto|]. intros y []. Qed.
Lemma is_sup_iff (S T : F -> Prop) x : is_sup S x -> (forall y, S y <-> T y) -> is_sup T x.
Proof.
  intros (H0 & H1 & H2) E. split; auto. split.
  - destruct H1; auto. right. now apply E.
  - intros y Hy. apply H2. now apply E.
Qed.
(* equality of the sets up to the element 0 is enough *)
Lemma is_sup_ext (S T : F -> Prop) x : is_sup S x -> (forall y, S y -> y = 0 \/ T y) -> (forall y, T y -> y = 0 \/ S y) -> is_sup T x.
Proof.
  intros (H0 & H1 & H2) E1 E2. split; auto. split.
  - destruct H1 as [|H1]; auto.
  - intros y Hy. destruct (E2 _ Hy) as [->|Hs]; auto.
Qed.
Lemma is_sup_unique (S : F -> Prop) x x' : is_sup S x -> is_sup S x' -> x = x'.
Proof.
  intros (H0 & H1 & H2) (H0' & H1' & H2'). apply Qcle_antisym.
  - destruct H1 as [->|H1]; auto.
  - destruct H1' as [->|H1']; auto.
Qed.
Lemma is_sup_add (S : F -> Prop) x a : is_sup S x -> 0 <= a -> is_sup (fun y => S y \/ y = a) (qmax x a).
Proof.
  intros (H0 & H1 & H2) Ha. split; [eapply Qcle_trans; [exact H0|apply qmax_l]|]. split.
  - destruct (qmax_cases x a) as [E|E]; rewrite E.
    + destruct H1; auto.
    + right. now right.
  - intros y [Hy| ->]; [eapply Qcle_trans; [apply H2, Hy|apply qmax_l]|apply qmax_r].
Qed.
Lemma is_sup_union (S T : F -> Prop) x y : is_sup S x -> is_sup T y -> is_sup (fun z => S z \/ T z) (qmax x y).
Proof.
  intros (H0 & H1 & H2) (K0 & K1 & K2). split; [eapply Qcle_trans; [exact H0|apply qmax_l]|]. split.
  - destruct (qmax_cases x y) as [E|E]; rewrite E.
    + destruct H1; auto.
    + destruct K1; auto.
  - intros z [Hz|Hz]; [eapply Qcle_trans; [apply H2, Hz|apply qmax_l]|eapply Qcle_trans; [apply K2, Hz|apply qmax_r]].
Qed.

Lemma fold_sup l : forall acc (S : F -> Prop), is_sup S acc ->
  is_sup (fun y => S y \/ exists x, In x l /\ y = qabs x) (fold_left (fun acc x => qmax acc (qabs x)) l acc).
Proof.
  induction l as [|a t IH]; intros acc S H; simpl.
  - eapply is_sup_iff; [exact H|]. intros y. split; auto. intros [Hy|(x & [] & _)]; auto.
  - eapply is_sup_iff; [apply (IH _ _ (is_sup_add S acc (qabs a) H (qabs_nonneg a)))|].
    intros y. split.
    + intros [[Hy| ->]|(x & Hx & ->)]; auto; right; eauto.
    + intros [Hy|(x & [<-|Hx] & ->)]; auto. right. eauto.
Qed.
Lemma is_sup_norm_inf l : is_sup (fun y => exists x, In x l /\ y = qabs x) (norm_inf l).
Proof.
  unfold norm_inf. eapply is_sup_iff; [apply (fold_sup l 0 _ is_sup_empty)|].
  intros y. split; [intros [[]|H]; auto|auto].
Qed.
Lemma is_sup_norm_nth (l : Vec) : is_sup (fun y => exists i, (i < length l)%nat /\ y = qabs (nth i l 0)) (norm_inf l).
Proof.
  eapply is_sup_iff; [apply is_sup_norm_inf|]. intros y. split.
  - intros (x & Hx & ->). apply (In_nth _ _ 0) in Hx. destruct Hx as (i & Hi & <-). eauto.
  - intros (i & Hi & ->). exists (nth i l 0). split; auto. now apply nth_In.
Qed.

(* vectors of suprema *)
Definition sup_vec (S : nat -> F -> Prop) (dv : Vec) : Prop := forall t, (t < length dv)%nat -> is_sup (S t) (nth t dv 0).
Lemma sup_vec_iff (S T : nat -> F -> Prop) dv : sup_vec S dv -> (forall t y, S t y <-> T t y) -> sup_vec T dv.
Proof. intros H E t Ht. eapply is_sup_iff; [apply H, Ht|]. intros y. apply E. Qed.
Lemma sup_vec_zero N : sup_vec (fun _ _ => False) (vconst N 0).
Proof. intros t Ht. rewrite length_vconst in Ht. rewrite nth_vconst by exact Ht. apply is_sup_empty. Qed.
Lemma sup_vec_upd (S : nat -> F -> Prop) (dv : Vec) t0 a : sup_vec S dv -> (t0 < length dv)%nat -> 0 <= a ->
  sup_vec (fun t y => S t y \/ (t = t0 /\ y = a)) (lset dv t0 (qmax (nth t0 dv 0) a)).
Proof.
  intros H Ht0 Ha t Ht. rewrite lset_length in Ht. rewrite nth_lset by exact Ht0.
  destruct (Nat.eqb_spec t t0) as [->|Hne].
  - eapply is_sup_iff; [apply (is_sup_add _ _ a (H t0 Ht0) Ha)|]. intros y. split; intros [Hy|Hy]; auto. destruct Hy; auto.
  - eapply is_sup_iff; [apply (H t Ht)|]. intros y. split; auto. intros [Hy|[E _]]; auto. contradiction.
Qed.

(* a loop nest over the stored entries of a CSC matrix whose body folds |value| into the slots [touch] names *)
Section ScatterLoop.
Variable M : csc F.
Hypothesis Hwf : wf_csc M = true.
Variable L : nat.
Variable touch : nat -> nat -> nat -> Prop.      (* column, position, slot *)
Variable body : nat -> nat -> Vec -> res Vec.
Hypothesis Hbody : forall j k (dv : Vec) (S : nat -> F -> Prop),
  (j < ncols M)%nat -> (col_lo M j <= k < col_hi M j)%nat -> length dv = L -> sup_vec S dv ->
  exists dv', body j k dv = Ok dv' /\ length dv' = L /\
              sup_vec (fun t y => S t y \/ (touch j k t /\ y = qabs (nth k (vals M) 0))) dv'.

Lemma scatter_loop (S0 : nat -> F -> Prop) (dv0 : Vec) : length dv0 = L -> sup_vec S0 dv0 ->
  exists dv', for_range 0 (ncols M) (fun j dv => do lo <- get (colptr M) j ;; do hi <- get (colptr M) (S j) ;;
                                               for_range lo hi (body j) dv) dv0 = Ok dv' /\
    length dv' = L /\
    sup_vec (fun t y => S0 t y \/ exists j k, (j < ncols M)%nat /\ (col_lo M j <= k < col_hi M j)%nat /\ touch j k t /\
                                              y = qabs (nth k (vals M) 0)) dv'.
Proof.
  intros L0 H0.
  destruct (for_range_ind (fun j (dv : Vec) => length dv = L /\
      sup_vec (fun t y => S0 t y \/ exists j' k, (j' < j)%nat /\ (j' < ncols M)%nat /\ (col_lo M j' <= k < col_hi M j')%nat /\ touch j' k t /\
                                              y = qabs (nth k (vals M) 0)) dv)
      0 (ncols M) (fun j dv => do lo <- get (colptr M) j ;; do hi <- get (colptr M) (S j) ;; for_range lo hi (body j) dv) dv0)
    as (dv' & E & L' & H'); try lia.
  - split; auto. eapply sup_vec_iff; [exact H0|]. intros t y. split; auto. intros [|(j' & k & Hj' & _)]; auto. lia.
  - intros j dv [_ Hj] (Ldv & Hdv).
    rewrite (get_nth (colptr M) j 0%nat) by (rewrite (wf_cp_len M Hwf); lia). cbn [bind].
    rewrite (get_nth (colptr M) (S j) 0%nat) by (rewrite (wf_cp_len M Hwf); lia). cbn [bind].
    destruct (wf_col_range M Hwf j Hj) as [Hle _]. fold (col_lo M j) (col_hi M j) in *.
    destruct (for_range_ind (fun k (dw : Vec) => length dw = L /\
        sup_vec (fun t y => (S0 t y \/ exists j' k', (j' < j)%nat /\ (j' < ncols M)%nat /\ (col_lo M j' <= k' < col_hi M j')%nat /\ touch j' k' t /\
                                              y = qabs (nth k' (vals M) 0)) \/
                            exists k', (col_lo M j <= k' < k)%nat /\ touch j k' t /\ y = qabs (nth k' (vals M) 0)) dw)
        (col_lo M j) (col_hi M j) (body j) dv) as (dw & Ew & Lw & Hw); auto.
    + split; auto. eapply sup_vec_iff; [exact Hdv|]. intros t y. split; auto. intros [|(k' & Hk' & _)]; auto. lia.
    + intros k dw Hk (Ldw & Hdw).
      destruct (Hbody j k dw _ Hj Hk Ldw Hdw) as (dw' & Eb & Lb & Hb).
      exists dw'. split; auto. split; auto. eapply sup_vec_iff; [exact Hb|]. intros t y. split.
      * intros [[A|(k' & Hk' & B)]|(T & ->)]; auto.
        -- right. exists k'. split; [lia|auto].
        -- right. exists k. split; [lia|auto].
      * intros [A|(k' & Hk' & T & ->)]; auto.
        destruct (Nat.eq_dec k' k) as [->|Hne]; auto. left. right. exists k'. split; [lia|auto].
    + exists dw. split; auto. split; auto. eapply sup_vec_iff; [exact Hw|]. intros t y. split.
      * intros [[A|(j' & k' & Hj' & B)]|(k' & Hk' & T & ->)]; auto.
        -- right. exists j', k'. split; [lia|exact B].
        -- right. exists j, k'. repeat split; auto; lia.
      * intros [A|(j' & k' & Hj' & Hjn & Hk' & T & ->)]; auto.
        destruct (Nat.eq_dec j' j) as [->|Hne].
        -- right. exists k'. auto.
        -- left. right. exists j', k'. split; [lia|auto].
  - exists dv'. split; auto. split; auto. eapply sup_vec_iff; [exact H'|]. intros t y. split.
    + intros [A|(j' & k & _ & B)]; auto. right. exists j', k. exact B.
    + intros [A|(j' & k & Hj' & B)]; auto. right. exists j', k. auto.
Qed.
End ScatterLoop.

Lemma norm_P_sup (P : csc F) n L (S0 : nat -> F -> Prop) (dv0 : Vec) :
  wf_csc P = true -> ncols P = n -> (nrows P <= L)%nat -> (n <= L)%nat -> length dv0 = L -> sup_vec S0 dv0 ->
  exists dv', sp_norm_P P n dv0 = Ok dv' /\ length dv' = L /\
    sup_vec (fun t y => S0 t y \/ exists j k, (j < ncols P)%nat /\ (col_lo P j <= k < col_hi P j)%nat /\
                                  (t = j \/ t = nth k (rowind P) 0%nat) /\ y = qabs (nth k (vals P) 0)) dv'.
Proof.
  intros Hwf En HrL HnL L0 H0. subst n. unfold sp_norm_P.
  apply (scatter_loop P Hwf L (fun j k t => t = j \/ t = nth k (rowind P) 0%nat)); auto.
  intros j k dv S Hj Hk Ldv Hdv.
  destruct (wf_col_range P Hwf j Hj) as [_ Hhi]. fold (col_hi P j) in Hhi.
  pose proof (wf_rows P Hwf k ltac:(lia)) as Hrow.
  rewrite (get_nth (rowind P) k 0%nat) by lia. cbn [bind].
  rewrite (get_nth (A:=F) (vals P) k 0%Qc) by (rewrite (wf_vals_len P Hwf); lia). cbn [bind].
  rewrite (get_nth (A:=F) dv j 0%Qc) by lia. cbn [bind]. rewrite upd_lset by lia. cbn [bind].
  set (a := qabs (nth k (vals P) 0)). set (r := nth k (rowind P) 0%nat) in *.
  pose proof (sup_vec_upd S dv j a Hdv ltac:(lia) (qabs_nonneg _)) as H1.
  destruct (Nat.eqb_spec r j) as [E|Hne].
  - eexists. split; [reflexivity|]. split; [now rewrite lset_length|].
    eapply sup_vec_iff; [exact H1|]. intros t y. split.
    + intros [A|[-> ->]]; auto.
    + intros [A|[[->| ->] ->]]; auto.
  - set (dv1 := lset dv j (qmax (nth j dv 0) a)) in *.
    assert (L1 : length dv1 = L) by (unfold dv1; now rewrite lset_length).
    rewrite (get_nth (A:=F) dv1 r 0%Qc) by lia. cbn [bind]. rewrite upd_lset by lia.
    eexists. split; [reflexivity|]. split; [now rewrite lset_length|].
    eapply sup_vec_iff; [apply (sup_vec_upd _ dv1 r a H1 ltac:(lia) (qabs_nonneg _))|]. intros t y. split.
    + intros [[A|[-> ->]]|[-> ->]]; auto.
    + intros [A|[[->| ->] ->]]; auto.
Qed.

Lemma norm_rect_sup (M : csc F) cols off L (S0 : nat -> F -> Prop) (dv0 : Vec) :
  wf_csc M = true -> ncols M = cols -> (nrows M <= L)%nat -> (off + cols <= L)%nat -> length dv0 = L -> sup_vec S0 dv0 ->
  exists dv', sp_norm_rect M cols off dv0 = Ok dv' /\ length dv' = L /\
    sup_vec (fun t y => S0 t y \/ exists j k, (j < ncols M)%nat /\ (col_lo M j <= k < col_hi M j)%nat /\
                                  (t = nth k (rowind M) 0%nat \/ t = (off + j)%nat) /\ y = qabs (nth k (vals M) 0)) dv'.
Proof.
  intros Hwf En HrL HnL L0 H0. subst cols. unfold sp_norm_rect.
  apply (scatter_loop M Hwf L (fun j k t => t = nth k (rowind M) 0%nat \/ t = (off + j)%nat)); auto.
  intros j k dv S Hj Hk Ldv Hdv.
  destruct (wf_col_range M Hwf j Hj) as [_ Hhi]. fold (col_hi M j) in Hhi.
  pose proof (wf_rows M Hwf k ltac:(lia)) as Hrow.
  rewrite (get_nth (rowind M) k 0%nat) by lia. cbn [bind].
  rewrite (get_nth (A:=F) (vals M) k 0%Qc) by (rewrite (wf_vals_len M Hwf); lia). cbn [bind].
  set (a := qabs (nth k (vals M) 0)). set (r := nth k (rowind M) 0%nat) in *.
  rewrite (get_nth (A:=F) dv r 0%Qc) by lia. cbn [bind]. rewrite upd_lset by lia. cbn [bind].
  pose proof (sup_vec_upd S dv r a Hdv ltac:(lia) (qabs_nonneg _)) as H1.
  set (dv1 := lset dv r (qmax (nth r dv 0) a)) in *.
  assert (L1 : length dv1 = L) by (unfold dv1; now rewrite lset_length).
  rewrite (get_nth (A:=F) dv1 (off + j)%nat 0%Qc) by lia. cbn [bind]. rewrite upd_lset by lia.
  eexists. split; [reflexivity|]. split; [now rewrite lset_length|].
  eapply sup_vec_iff; [apply (sup_vec_upd _ dv1 (off + j)%nat a H1 ltac:(lia) (qabs_nonneg _))|]. intros t y. split.
  - intros [[A|[-> ->]]|[-> ->]]; auto.
  - intros [A|[[->| ->] ->]]; auto.
Qed.

(* the value sets the loops fold into slot t *)
Definition touchP (P : csc F) (t : nat) (y : F) : Prop :=
  exists j k, (j < ncols P)%nat /\ (col_lo P j <= k < col_hi P j)%nat /\
              (t = j \/ t = nth k (rowind P) 0%nat) /\ y = qabs (nth k (vals P) 0).
Definition touchR (M : csc F) (off t : nat) (y : F) : Prop :=
  exists j k, (j < ncols M)%nat /\ (col_lo M j <= k < col_hi M j)%nat /\
              (t = nth k (rowind M) 0%nat \/ t = (off + j)%nat) /\ y = qabs (nth k (vals M) 0).

Lemma qabs_0 : qabs 0 = 0.
Proof. reflexivity. Qed.

Lemma stored_row_lt (M : csc F) r c j k : wf_csc_mat M r c -> (j < ncols M)%nat -> (col_lo M j <= k < col_hi M j)%nat ->
  (nth k (rowind M) 0 < r)%nat.
Proof.
  intros [Hwf _ R _] Hj Hk. destruct (wf_col_range M Hwf j Hj) as [_ Hhi]. fold (col_hi M j) in Hhi.
  rewrite <- R. apply (wf_rows M Hwf). lia.
Qed.

Lemma touchP_dense P n t : wf_csc_mat P n n -> upper_only P = true -> (t < n)%nat ->
  (forall y, touchP P t y ->
     (exists i, (i < t)%nat /\ y = qabs (csc_get P i t)) \/ (exists j, (t <= j < n)%nat /\ y = qabs (csc_get P t j))) /\
  (forall y, (exists i, (i < t)%nat /\ y = qabs (csc_get P i t)) \/ (exists j, (t <= j < n)%nat /\ y = qabs (csc_get P t j)) ->
     y = 0 \/ touchP P t y).
Proof.
  intros W Hu Ht. pose proof W as [Hwf Hnd R C]. split.
  - intros y (j & k & Hj & Hk & T & ->).
    pose proof (upper_only_le P j k Hu Hj Hk) as Hle.
    rewrite <- (csc_get_stored P Hnd (nth k (rowind P) 0%nat) j k Hj Hk eq_refl).
    destruct T as [->| ->].
    + destruct (Nat.eq_dec (nth k (rowind P) 0%nat) j) as [E|Hne].
      * right. exists j. split; [lia|]. now rewrite E.
      * left. exists (nth k (rowind P) 0%nat). split; [lia|auto].
    + right. exists j. split; [lia|auto].
  - intros y [(i & Hi & ->)|(j & Hj & ->)].
    + destruct (csc_get_cases P Hnd i t ltac:(lia)) as [(k & Hk & Er & Eg)|[_ Eg]].
      * right. exists t, k. split; [lia|]. split; auto. split; auto. now rewrite Eg.
      * left. now rewrite Eg.
    + destruct (csc_get_cases P Hnd t j ltac:(lia)) as [(k & Hk & Er & Eg)|[_ Eg]].
      * right. exists j, k. split; [lia|]. split; auto. split; auto. now rewrite Eg.
      * left. now rewrite Eg.
Qed.
Lemma touchP_high P n t y : wf_csc_mat P n n -> (n <= t)%nat -> ~ touchP P t y.
Proof.
  intros W Ht (j & k & Hj & Hk & T & _). pose proof (stored_row_lt P n n j k W Hj Hk). destruct W as [_ _ _ C].
  destruct T; lia.
Qed.

Lemma touchR_row M r c off t : wf_csc_mat M r c -> (t < r)%nat -> (r <= off)%nat ->
  (forall y, touchR M off t y -> exists j, (j < c)%nat /\ y = qabs (csc_get M t j)) /\
  (forall y, (exists j, (j < c)%nat /\ y = qabs (csc_get M t j)) -> y = 0 \/ touchR M off t y).
Proof.
  intros W Ht Ho. pose proof W as [Hwf Hnd R C]. split.
  - intros y (j & k & Hj & Hk & T & ->). destruct T as [->|E]; [|lia].
    exists j. split; [lia|]. now rewrite (csc_get_stored M Hnd _ j k Hj Hk eq_refl).
  - intros y (j & Hj & ->).
    destruct (csc_get_cases M Hnd t j ltac:(lia)) as [(k & Hk & Er & Eg)|[_ Eg]].
    + right. exists j, k. split; [lia|]. split; auto. split; auto. now rewrite Eg.
    + left. now rewrite Eg.
Qed.
Lemma touchR_col M r c off j0 : wf_csc_mat M r c -> (r <= off)%nat -> (j0 < c)%nat ->
  (forall y, touchR M off (off + j0) y -> exists i, (i < r)%nat /\ y = qabs (csc_get M i j0)) /\
  (forall y, (exists i, (i < r)%nat /\ y = qabs (csc_get M i j0)) -> y = 0 \/ touchR M off (off + j0) y).
Proof.
  intros W Ho Hj0. pose proof W as [Hwf Hnd R C]. split.
  - intros y (j & k & Hj & Hk & T & ->). pose proof (stored_row_lt M r c j k W Hj Hk) as Hr.
    destruct T as [E|E]; [lia|]. assert (j = j0) by lia. subst j.
    exists (nth k (rowind M) 0%nat). split; auto. now rewrite (csc_get_stored M Hnd _ j0 k Hj Hk eq_refl).
  - intros y (i & Hi & ->).
    destruct (csc_get_cases M Hnd i j0 ltac:(lia)) as [(k & Hk & Er & Eg)|[_ Eg]].
    + right. exists j0, k. split; [lia|]. split; auto. split; auto. now rewrite Eg.
    + left. now rewrite Eg.
Qed.
Lemma touchR_none M r c off t y : wf_csc_mat M r c -> (r <= t)%nat -> (t < off \/ off + c <= t)%nat -> ~ touchR M off t y.
Proof.
  intros W Ht Ho (j & k & Hj & Hk & T & _). pose proof (stored_row_lt M r c j k W Hj Hk). destruct W as [_ _ _ C].
  destruct T; lia.
Qed.

(* ---------- the dense norms as suprema ---------- *)
Lemma nth_mrow (M : Mat) t j : (j < length M)%nat -> nth j (mrow M t) 0 = mentry M t j.
Proof. intros H. unfold mrow, mentry. now rewrite (nth_map' _ _ _ []) by exact H. Qed.
Lemma length_mrow (M : Mat) t : length (mrow M t) = length M.
Proof. unfold mrow. now rewrite map_length. Qed.

Lemma sup_col_head n f t : (t < n)%nat ->
  is_sup (fun y => exists i, (i < t)%nat /\ y = qabs (f i t)) (P_col_head_norm (mbuild n n f) t).
Proof.
  intros Ht. unfold P_col_head_norm. eapply is_sup_iff; [apply is_sup_norm_nth|].
  assert (L : length (firstn t (nth t (mbuild n n f) [])) = t).
  { rewrite firstn_length, length_col_mbuild by exact Ht. lia. }
  intros y. rewrite L. split; intros (i & Hi & ->); exists i; split; auto.
  - rewrite nth_firstn'. apply Nat.ltb_lt in Hi. rewrite Hi. apply Nat.ltb_lt in Hi.
    change (nth i (nth t (mbuild n n f) []) 0) with (mentry (mbuild n n f) i t). now rewrite mentry_mbuild by lia.
  - rewrite nth_firstn'. apply Nat.ltb_lt in Hi. rewrite Hi. apply Nat.ltb_lt in Hi.
    change (nth i (nth t (mbuild n n f) []) 0) with (mentry (mbuild n n f) i t). now rewrite mentry_mbuild by lia.
Qed.
Lemma sup_row_tail n f t : (t < n)%nat ->
  is_sup (fun y => exists j, (t <= j < n)%nat /\ y = qabs (f t j)) (P_row_tail_norm (mbuild n n f) t).
Proof.
  intros Ht. unfold P_row_tail_norm. eapply is_sup_iff; [apply is_sup_norm_nth|].
  assert (L : length (skipn t (mrow (mbuild n n f) t)) = (n - t)%nat).
  { now rewrite skipn_length, length_mrow, length_mbuild. }
  intros y. rewrite L. split.
  - intros (i & Hi & ->). exists (t + i)%nat. split; [lia|].
    rewrite nth_skipn', nth_mrow by (rewrite length_mbuild; lia). now rewrite mentry_mbuild by lia.
  - intros (j & Hj & ->). exists (j - t)%nat. split; [lia|].
    rewrite nth_skipn', nth_mrow by (rewrite length_mbuild; lia). rewrite mentry_mbuild by lia.
    now replace (t + (j - t))%nat with j by lia.
Qed.
Lemma sup_row r c f t : (t < r)%nat ->
  is_sup (fun y => exists j, (j < c)%nat /\ y = qabs (f t j)) (norm_inf (mrow (mbuild r c f) t)).
Proof.
  intros Ht. eapply is_sup_iff; [apply is_sup_norm_nth|]. intros y. rewrite length_mrow, length_mbuild.
  split; intros (j & Hj & ->); exists j; split; auto;
    rewrite nth_mrow by (rewrite length_mbuild; lia); now rewrite mentry_mbuild by lia.
Qed.
Lemma sup_col r c f j : (j < c)%nat ->
  is_sup (fun y => exists i, (i < r)%nat /\ y = qabs (f i j)) (norm_inf (nth j (mbuild r c f) [])).
Proof.
  intros Hj. eapply is_sup_iff; [apply is_sup_norm_nth|]. intros y. rewrite length_col_mbuild by exact Hj.
  split; intros (i & Hi & ->); exists i; split; auto;
    change (nth i (nth j (mbuild r c f) []) 0) with (mentry (mbuild r c f) i j); now rewrite mentry_mbuild by lia.
Qed.
Lemma row_norm_guard r c f t : (if Nat.ltb 0 c then norm_inf (mrow (mbuild r c f) t) else 0) = norm_inf (mrow (mbuild r c f) t).
Proof. destruct c; reflexivity. Qed.

(* the vectors the dense model computes (the expressions of PrecondDense.ruiz_iter) *)
Definition dense_x (D : Data) (k : nat) : F :=
  qmax (qmax (qmax (P_col_head_norm (d_P D) k) (P_row_tail_norm (d_P D) k))
             (if Nat.ltb 0 (d_p D) then norm_inf (mrow (d_AT D) k) else 0))
       (if Nat.ltb 0 (d_m D) then norm_inf (mrow (d_GT D) k) else 0).
Definition dense_cost (P : Mat) (n : nat) : Vec :=
  map (fun k => qmax (P_col_head_norm P k) (P_row_tail_norm P k)) (seq 0 n).

Lemma cost_norm_dense P n : wf_csc_mat P n n -> upper_only P = true ->
  sp_norm_P P n (vconst n 0) = Ok (dense_cost (csc_to_dense P) n).
Proof.
  intros W Hu. pose proof W as [Hwf Hnd R C].
  destruct (norm_P_sup P n n (fun _ _ => False) (vconst n 0) Hwf C ltac:(lia) ltac:(lia) (length_vconst n 0) (sup_vec_zero n))
    as (dv & E & Ldv & Hdv).
  rewrite E. f_equal. apply vec_ext.
  - unfold dense_cost. rewrite map_length, seq_length. exact Ldv.
  - intros t Ht. rewrite Ldv in Ht. unfold dense_cost. rewrite (nth_map' _ _ _ 0%nat) by (rewrite seq_length; exact Ht).
    rewrite seq_nth by exact Ht. cbn [plus]. unfold csc_to_dense. rewrite R, C.
    eapply is_sup_unique; [|apply is_sup_union; [apply sup_col_head, Ht|apply sup_row_tail, Ht]].
    destruct (touchP_dense P n t W Hu Ht) as [T1 T2].
    eapply is_sup_ext; [apply Hdv; lia| |].
    + intros y [[]|H]. right. apply T1. exact H.
    + intros y H. destruct (T2 y H); auto.
Qed.

Definition dense_it0 (D : Data) : Vec :=
  map (dense_x D) (seq 0 (d_n D)) ++ map norm_inf (d_AT D) ++ map norm_inf (d_GT D).

Lemma kkt_norms_dense d : wf_spdata d ->
  exists it1 it2, sp_norm_P (sp_P d) (sp_n d) (vconst (sp_n d + sp_p d + sp_m d) 0) = Ok it1 /\
     sp_norm_rect (sp_AT d) (sp_p d) (sp_n d) it1 = Ok it2 /\
     sp_norm_rect (sp_GT d) (sp_m d) (sp_n d + sp_p d) it2 = Ok (dense_it0 (to_dense d)).
Proof.
  intros W. pose proof W as [WP Hu WA WG _ _ _ _ _ _ _ _ _ _ _ _ _].
  pose proof WP as [HwfP HndP RP CP]. pose proof WA as [HwfA HndA RA CA]. pose proof WG as [HwfG HndG RG CG].
  set (n := sp_n d) in *. set (p := sp_p d) in *. set (m := sp_m d) in *. set (N := (n + p + m)%nat).
  destruct (norm_P_sup (sp_P d) n N (fun _ _ => False) (vconst N 0) HwfP CP ltac:(lia) ltac:(lia) (length_vconst N 0) (sup_vec_zero N))
    as (it1 & E1 & L1 & H1).
  destruct (norm_rect_sup (sp_AT d) p n N _ it1 HwfA CA ltac:(lia) ltac:(lia) L1 H1) as (it2 & E2 & L2 & H2).
  destruct (norm_rect_sup (sp_GT d) m (n + p)%nat N _ it2 HwfG CG ltac:(lia) ltac:(lia) L2 H2) as (it3 & E3 & L3 & H3).
  exists it1, it2. split; auto. split; auto. rewrite E3. f_equal.
  assert (LA : length (csc_to_dense (sp_AT d)) = p) by (unfold csc_to_dense; now rewrite length_mbuild).
  assert (LG : length (csc_to_dense (sp_GT d)) = m) by (unfold csc_to_dense; now rewrite length_mbuild).
  assert (Lx : length (map (dense_x (to_dense d)) (seq 0 n)) = n) by now rewrite map_length, seq_length.
  apply vec_ext.
  - unfold dense_it0. cbn [to_dense d_n d_AT d_GT]. fold n. rewrite !app_length, !map_length, seq_length, LA, LG. vlia.
  - intros t Ht. rewrite L3 in Ht. specialize (H3 t ltac:(lia)). cbv beta in H3. fold (touchP (sp_P d) t) in H3.
    fold (touchR (sp_AT d) n t) in H3. fold (touchR (sp_GT d) (n + p) t) in H3.
    unfold dense_it0. cbn [to_dense d_n d_AT d_GT]. fold n.
    destruct (Nat.lt_ge_cases t n) as [Htn|Htn].
    + rewrite app_nth1 by (rewrite Lx; exact Htn).
      rewrite (nth_map' _ _ _ 0%nat) by (rewrite seq_length; exact Htn). rewrite seq_nth by exact Htn. cbn [plus].
      unfold dense_x. cbn [to_dense d_P d_AT d_GT d_p d_m]. unfold csc_to_dense. rewrite RP, CP, RA, CA, RG, CG. fold n p m.
      rewrite !row_norm_guard.
      eapply is_sup_unique; [|apply is_sup_union; [apply is_sup_union; [apply is_sup_union;
        [apply sup_col_head, Htn|apply sup_row_tail, Htn]|apply sup_row, Htn]|apply sup_row, Htn]].
      destruct (touchP_dense (sp_P d) n t WP Hu Htn) as [TP1 TP2].
      destruct (touchR_row (sp_AT d) n p n t WA Htn ltac:(lia)) as [TA1 TA2].
      destruct (touchR_row (sp_GT d) n m (n + p)%nat t WG Htn ltac:(lia)) as [TG1 TG2].
      eapply is_sup_ext; [exact H3| |].
      * intros y [[[[]|HP]|HA]|HG]; right.
        -- left. left. apply TP1, HP.
        -- left. right. apply TA1, HA.
        -- right. apply TG1, HG.
      * intros y [[HP|HA]|HG].
        -- destruct (TP2 y HP); auto.
        -- destruct (TA2 y HA); auto.
        -- destruct (TG2 y HG); auto.
    + rewrite app_nth2 by (rewrite Lx; exact Htn). rewrite Lx.
      destruct (Nat.lt_ge_cases t (n + p)) as [Htp|Htp].
      * rewrite app_nth1 by (rewrite map_length, LA; lia).
        rewrite (nth_map' norm_inf (csc_to_dense (sp_AT d)) (t - n) [] 0) by (rewrite LA; lia). unfold csc_to_dense. rewrite RA, CA. fold n p.
        eapply is_sup_unique; [|apply sup_col; lia].
        destruct (touchR_col (sp_AT d) n p n (t - n)%nat WA ltac:(lia) ltac:(lia)) as [T1 T2].
        replace (n + (t - n))%nat with t in * by lia.
        eapply is_sup_ext; [exact H3| |].
        -- intros y [[[[]|HP]|HA]|HG].
           ++ exfalso. exact (touchP_high _ n t y WP Htn HP).
           ++ right. apply T1, HA.
           ++ exfalso. refine (touchR_none _ n m (n + p)%nat t y WG Htn _ HG). lia.
        -- intros y Hy. destruct (T2 y Hy); auto.
      * rewrite app_nth2 by (rewrite map_length, LA; lia). rewrite map_length, LA.
        rewrite (nth_map' norm_inf (csc_to_dense (sp_GT d)) (t - n - p) [] 0) by (rewrite LG; lia). unfold csc_to_dense. rewrite RG, CG. fold n m.
        eapply is_sup_unique; [|apply sup_col; lia].
        destruct (touchR_col (sp_GT d) n m (n + p)%nat (t - n - p)%nat WG ltac:(lia) ltac:(lia)) as [T1 T2].
        replace (n + p + (t - n - p))%nat with t in * by lia.
        eapply is_sup_ext; [exact H3| |].
        -- intros y [[[[]|HP]|HA]|HG].
           ++ exfalso. exact (touchP_high _ n t y WP Htn HP).
           ++ exfalso. refine (touchR_none _ n p n t y WA Htn _ HA). lia.
           ++ right. apply T1, HG.
        -- intros y Hy. destruct (T2 y Hy); auto.
Qed.

(* ================================================================== *)
(** * E. one Ruiz iteration, the loop, scale_data (fresh branch)        *)
(* ================================================================== *)

Lemma get_app_ok {A} (x r : list A) i a : get x i = Ok a -> get (x ++ r) i = Ok a.
Proof.
  unfold get. destruct (nth_error x i) eqn:E; [|discriminate]. intros H.
  rewrite nth_error_app1 by (apply nth_error_Some; congruence). now rewrite E.
Qed.
Lemma upd_app_ok {A} (x r : list A) : forall i v x', upd x i v = Ok x' -> upd (x ++ r) i v = Ok (x' ++ r).
Proof.
  induction x as [|a t IH]; intros i v x' H; simpl in H; [discriminate|].
  destruct i; simpl.
  - inversion H; reflexivity.
  - apply bind_ok_inv in H. destruct H as (t' & E & H). inversion H; subst. now rewrite (IH _ _ _ E).
Qed.
Lemma scatter_app {A B} (f : A -> B -> A) idx : forall (x : list A) (w : list B) x1 r,
  scatter_with f x idx w = Ok x1 -> scatter_with f (x ++ r) idx w = Ok (x1 ++ r).
Proof.
  induction idx as [|i idx IH]; intros x w x1 r H; simpl in *.
  - inversion H; reflexivity.
  - destruct w as [|b w]; [discriminate|].
    apply bind_ok_inv in H. destruct H as (a & Ea & H). apply bind_ok_inv in H. destruct H as (x' & Eu & H).
    rewrite (get_app_ok _ _ _ _ Ea). cbn [bind]. rewrite (upd_app_ok _ _ _ _ _ Eu). cbn [bind]. now apply IH.
Qed.
Lemma vsum_map {A} (f : A -> F) l : vsum (map f l) = fold_left (fun acc k => acc + f k) l 0.
Proof.
  unfold vsum. generalize (0:F). induction l as [|a t IH]; intros acc; simpl; auto.
Qed.
Lemma sqrt_inv_len v w : sqrt_inv v = Ok w -> length w = length v.
Proof. intros H. apply mapM_Forall2 in H. symmetry. eapply Forall2_len; eauto. Qed.
Lemma vinv_len v w : vinv v = Ok w -> length w = length v.
Proof. intros H. apply mapM_Forall2 in H. symmetry. eapply Forall2_len; eauto. Qed.

(* the relation between the state of the sparse loop (the scratch lives in the inverse members of the preconditioner) and
   the state of the dense model's loop (explicit scratch vectors; its inverse members are stale) *)
Definition pc_core (pc : Precond) :=
  (pc_ident pc, pc_n pc, pc_p pc, pc_m pc, pc_nlb pc, pc_nub pc, pc_c pc, pc_delta pc, pc_delta_lb pc, pc_delta_ub pc, pc_c_inv pc).
Record st_rel (pc : Precond) (d : spdata) (st : ruiz_st) : Prop := mk_st_rel {
  sr_d : rz_d st = to_dense d;
  sr_core : pc_core (rz_pc st) = pc_core pc;
  sr_it : rz_it st = pc_delta_inv pc;
  sr_lb : rz_it_lb st = pc_delta_lb_inv pc;
  sr_ub : rz_it_ub st = pc_delta_ub_inv pc }.
Record iter_inv (pc : Precond) (d : spdata) : Prop := mk_iter_inv {
  ii_wf : wf_spdata d;
  ii_n : pc_n pc = sp_n d; ii_p : pc_p pc = sp_p d; ii_m : pc_m pc = sp_m d;
  ii_nlb : pc_nlb pc = sp_nlb d; ii_nub : pc_nub pc = sp_nub d;
  ii_Ld : length (pc_delta pc) = (sp_n d + sp_p d + sp_m d)%nat;
  ii_Llb : length (pc_delta_lb pc) = sp_n d;
  ii_Lub : length (pc_delta_ub pc) = sp_n d;
  ii_Ldi : length (pc_delta_inv pc) = (sp_n d + sp_p d + sp_m d)%nat;
  ii_Llbi : length (pc_delta_lb_inv pc) = sp_n d;
  ii_Lubi : length (pc_delta_ub_inv pc) = sp_n d }.

Section Iter.
Variable K : Consts.

Lemma iter_rel sc pc d st : iter_inv pc d -> st_rel pc d st ->
  match sp_ruiz_iter K sc (pc, d), ruiz_iter K true sc st with
  | Ok (pc', d'), Ok st' => iter_inv pc' d' /\ st_rel pc' d' st'
  | Err e, Err e' => e = e'
  | _, _ => False
  end.
Proof.
  intros [W En Ep Em Enlb Enub Ld Llb Lub Ldi Llbi Lubi] [Sd Sc Sit Slb Sub].
  destruct st as [D pcd it itlb itub]. cbn [rz_d rz_pc rz_it rz_it_lb rz_it_ub] in *. subst D it itlb itub.
  unfold pc_core in Sc. injection Sc as Ci Cn Cp Cm Cnlb Cnub Cc Cd Cdlb Cdub Cci.
  destruct (kkt_norms_dense d W) as (it1 & it2 & E1 & E2 & E3).
  pose proof W as [WP Hu WA WG Lc Lb Lh Hnlb Hnub Llbidx Lubidx Ilb Iub Llbs Lubs Llbn Lubn].
  destruct (idx_in_range d W (sp_n d) (le_n _)) as [Flb Fub].
  unfold sp_ruiz_iter. cbn [fst snd]. rewrite En, Ep, Em, Enlb, Enub, Ldi.
  rewrite E1; cbn [bind]. rewrite E2; cbn [bind]. rewrite E3; cbn [bind].
  unfold ruiz_iter. cbn [rz_d rz_pc rz_it rz_it_lb rz_it_ub]. rewrite (nlb_to_dense d W), (nub_to_dense d W).
  unfold dense_it0, dense_x.
  cbn [to_dense d_n d_p d_m d_P d_AT d_GT d_c d_b d_h d_lb_idx d_ub_idx d_lb_scaling d_ub_scaling d_lb_n d_ub].
  rewrite Cc, Cd, Cdlb, Cdub.
  set (n := sp_n d) in *. set (p := sp_p d) in *. set (m := sp_m d) in *. set (nlb := sp_nlb d) in *. set (nub := sp_nub d) in *.
  match goal with |- context [scatter_max (?X ++ ?Y ++ ?Z) _ _] => set (itx := X); set (ity := Y); set (itz := Z) end.
  assert (Litx : length itx = n) by (unfold itx; now rewrite map_length, seq_length).
  assert (Lity : length ity = p) by (unfold ity, csc_to_dense; rewrite map_length, length_mbuild; apply WA).
  assert (Litz : length itz = m) by (unfold itz, csc_to_dense; rewrite map_length, length_mbuild; apply WG).
  unfold scatter_max.
  destruct (scatter_with_ok qmax (head nlb (sp_lb_idx d)) itx (head nlb (sp_lb_scaling d))) as [x1 Ex1].
  { rewrite Litx. exact Flb. }
  { rewrite !length_head by lia. lia. }
  rewrite Ex1, (scatter_app _ _ _ _ _ (ity ++ itz) Ex1). cbn [bind].
  pose proof (scatter_with_len _ _ _ _ _ Ex1) as Lx1.
  destruct (scatter_with_ok qmax (head nub (sp_ub_idx d)) x1 (head nub (sp_ub_scaling d))) as [x2 Ex2].
  { rewrite Lx1, Litx. exact Fub. }
  { rewrite !length_head by lia. lia. }
  rewrite Ex2, (scatter_app _ _ _ _ _ (ity ++ itz) Ex2). cbn [bind].
  pose proof (scatter_with_len _ _ _ _ _ Ex2) as Lx2.
  destruct (sqrt_inv (map (limit_scaling K) (x2 ++ ity ++ itz))) as [v|e] eqn:Ev; cbn [bind]; [|reflexivity].
  assert (Lv : length v = (n + p + m)%nat).
  { rewrite (sqrt_inv_len _ _ Ev), map_length, !app_length. vlia. }
  destruct (sqrt_inv (map (limit_scaling K) (set_head (head nlb (sp_lb_scaling d)) (pc_delta_lb_inv pc)))) as [vlb|e] eqn:Evlb;
    cbn [bind]; [|reflexivity].
  assert (Lvlb : length vlb = n).
  { rewrite (sqrt_inv_len _ _ Evlb), map_length, length_set_head; [exact Llbi|]. rewrite length_head by lia. lia. }
  destruct (sqrt_inv (map (limit_scaling K) (set_head (head nub (sp_ub_scaling d)) (pc_delta_ub_inv pc)))) as [vub|e] eqn:Evub;
    cbn [bind]; [|reflexivity].
  assert (Lvub : length vub = n).
  { rewrite (sqrt_inv_len _ _ Evub), map_length, length_set_head; [exact Lubi|]. rewrite length_head by lia. lia. }
  set (sx := head n v). set (sy := segment n p v). set (sz := tail_from (n + p) v).
  assert (Lsx : length sx = n) by (apply length_head; lia).
  assert (Lsy : length sy = p) by (apply length_segment; lia).
  assert (Lsz : length sz = m) by (unfold sz; rewrite length_tail_from; lia).
  pose proof WP as [HwfP HndP RP CP]. pose proof WA as [HwfA HndA RA CA]. pose proof WG as [HwfG HndG RG CG].
  destruct (scale_rc_csc (sp_P d) sx sx HwfP ltac:(congruence) ltac:(congruence)) as (P1 & P2 & EP1 & EP2 & SPP & GP).
  rewrite EP1; cbn [bind]. rewrite EP2; cbn [bind].
  destruct (scale_rc_csc (sp_AT d) sx sy HwfA ltac:(congruence) ltac:(congruence)) as (A1 & A2 & EA1 & EA2 & SPA & GA).
  rewrite EA1; cbn [bind]. rewrite EA2; cbn [bind].
  destruct (scale_rc_csc (sp_GT d) sx sz HwfG ltac:(congruence) ltac:(congruence)) as (G1 & G2 & EG1 & EG2 & SPG & GG).
  rewrite EG1; cbn [bind]. rewrite EG2; cbn [bind].
  assert (EDP : csc_to_dense P2 = scale_P_utri sx (csc_to_dense (sp_P d))) by (apply dense_scale_P; auto; vlia).
  assert (EDA : csc_to_dense A2 = mscale_rc sx sy (csc_to_dense (sp_AT d))) by (apply dense_scale_rc; auto; vlia).
  assert (EDG : csc_to_dense G2 = mscale_rc sx sz (csc_to_dense (sp_GT d))) by (apply dense_scale_rc; auto; vlia).
  assert (WP2 : wf_csc_mat P2 n n) by (eapply wf_csc_mat_pattern; eauto).
  assert (WA2 : wf_csc_mat A2 n p) by (eapply wf_csc_mat_pattern; eauto).
  assert (WG2 : wf_csc_mat G2 n m) by (eapply wf_csc_mat_pattern; eauto).
  assert (Hu2 : upper_only P2 = true) by (now rewrite (same_pattern_upper _ _ SPP)).
  match goal with |- context [mul_gather ?w v (head nlb (sp_lb_idx d))] => set (lbs0 := w) end.
  match goal with |- context [mul_gather ?w v (head nub (sp_ub_idx d))] => set (ubs0 := w) end.
  destruct (mul_gather lbs0 v (head nlb (sp_lb_idx d))) as [lbs1|e] eqn:Elbs; cbn [bind]; [|reflexivity].
  destruct (mul_gather ubs0 v (head nub (sp_ub_idx d))) as [ubs1|e] eqn:Eubs; cbn [bind]; [|reflexivity].
  assert (Llbs0 : length lbs0 = n) by (unfold lbs0; rewrite length_set_head_vmul; exact Llbs).
  assert (Lubs0 : length ubs0 = n) by (unfold ubs0; rewrite length_set_head_vmul; exact Lubs).
  assert (Llbs1 : length lbs1 = n).
  { destruct (mul_gather_spec _ _ _ _ Elbs) as [L _]; [rewrite Llbs0, length_head by lia; lia|rewrite L; exact Llbs0]. }
  assert (Lubs1 : length ubs1 = n).
  { destruct (mul_gather_spec _ _ _ _ Eubs) as [L _]; [rewrite Lubs0, length_head by lia; lia|rewrite L; exact Lubs0]. }
  rewrite <- EDP.
  assert (Final : forall (P3 : csc F) (c2 : Vec) (cc : F) (scr : Vec),
     same_pattern (sp_P d) P3 -> length c2 = n -> length scr = n ->
     let pc' := pc <| pc_c := cc |> <| pc_delta := vmul (pc_delta pc) v |>
                   <| pc_delta_lb := set_head (vmul (head nlb (pc_delta_lb pc)) (head nlb vlb)) (pc_delta_lb pc) |>
                   <| pc_delta_ub := set_head (vmul (head nub (pc_delta_ub pc)) (head nub vub)) (pc_delta_ub pc) |>
                   <| pc_delta_inv := v |> <| pc_delta_lb_inv := scr |> <| pc_delta_ub_inv := vub |> in
     let d' := d <| sp_P := P3 |> <| sp_c := c2 |> <| sp_AT := A2 |> <| sp_GT := G2 |>
                 <| sp_lb_scaling := lbs1 |> <| sp_ub_scaling := ubs1 |> in
     iter_inv pc' d' /\
     st_rel pc' d'
       {| rz_d := to_dense d <| d_P := csc_to_dense P3 |> <| d_c := c2 |>
                    <| d_AT := mscale_rc sx sy (csc_to_dense (sp_AT d)) |> <| d_GT := mscale_rc sx sz (csc_to_dense (sp_GT d)) |>
                    <| d_lb_scaling := lbs1 |> <| d_ub_scaling := ubs1 |>;
          rz_pc := pcd <| pc_c := cc |> <| pc_delta := vmul (pc_delta pc) v |>
                    <| pc_delta_lb := set_head (vmul (head nlb (pc_delta_lb pc)) (head nlb vlb)) (pc_delta_lb pc) |>
                    <| pc_delta_ub := set_head (vmul (head nub (pc_delta_ub pc)) (head nub vub)) (pc_delta_ub pc) |>;
          rz_it := v; rz_it_lb := scr; rz_it_ub := vub |}).
  { intros P3 c2 cc scr SP3 Lc2 Lscr pc' d'. split.
    - refine (mk_iter_inv _ _ _ _ _ _ _ _ _ _ _ _ _ _); subst pc' d'; cbn -[vmul segment tail_from set_head head firstn skipn]; try assumption.
      + refine (mk_wf_spdata _ _ _ _ _ _ _ _ _ _ _ _ _ _ _ _ _ _); cbn -[vmul segment tail_from set_head head firstn skipn]; try assumption.
        * eapply wf_csc_mat_pattern; [exact WP|exact SP3].
        * now rewrite (same_pattern_upper _ _ SP3).
      + rewrite length_vmul. vlia.
      + rewrite length_set_head_vmul. assumption.
      + rewrite length_set_head_vmul. assumption.
    - refine (mk_st_rel _ _ _ _ _ _ _ _); cbn [rz_d rz_pc rz_it rz_it_lb rz_it_ub]; subst pc' d'.
      + unfold to_dense. cbn. rewrite EDA, EDG. reflexivity.
      + unfold pc_core. cbn. rewrite Ci, Cn, Cp, Cm, Cnlb, Cnub, Cci. reflexivity.
      + reflexivity.
      + reflexivity.
      + reflexivity. }
  destruct sc.
  - rewrite Lvlb, (cost_norm_dense P2 n WP2 Hu2). cbn [bind]. unfold dense_cost. rewrite vsum_map.
    match goal with |- context [qdiv ?a ?b] => destruct (qdiv a b) as [g1|e] eqn:Eg1 end; cbn [bind]; [|reflexivity].
    match goal with |- context [qinv ?a] => destruct (qinv a) as [g|e] eqn:Eg end; cbn [bind]; [|reflexivity].
    rewrite <- (dense_csc_scale P2 g (wm_wf _ _ _ WP2)).
    apply Final.
    + eapply same_pattern_trans; [exact SPP|apply csc_scale_pattern].
    + rewrite length_vscale, length_vmul. vlia.
    + cbn [andb]. now rewrite map_length, seq_length.
  - cbn [bind andb]. apply Final; auto. rewrite length_vmul. vlia.
Qed.
End Iter.

Lemma loop_rel K sc fuel : forall pc d st, iter_inv pc d -> st_rel pc d st ->
  match sp_ruiz_loop K fuel sc (pc, d), ruiz_loop K true fuel sc st with
  | Ok (pc', d'), Ok st' => iter_inv pc' d' /\ st_rel pc' d' st'
  | Err e, Err e' => e = e'
  | _, _ => False
  end.
Proof.
  induction fuel as [|f IH]; intros pc d st I R; simpl.
  - auto.
  - cbn [fst snd].
    assert (EG : ruiz_continue K (d_nlb (rz_d st)) (d_nub (rz_d st)) (rz_it st) (rz_it_lb st) (rz_it_ub st) =
                 ruiz_continue K (pc_nlb pc) (pc_nub pc) (pc_delta_inv pc) (pc_delta_lb_inv pc) (pc_delta_ub_inv pc)).
    { destruct R as [Sd _ Sit Slb Sub]. rewrite Sd, Sit, Slb, Sub.
      rewrite (nlb_to_dense d (ii_wf _ _ I)), (nub_to_dense d (ii_wf _ _ I)), (ii_nlb _ _ I), (ii_nub _ _ I). reflexivity. }
    rewrite EG. clear EG. destruct (ruiz_continue K (pc_nlb pc) (pc_nub pc) (pc_delta_inv pc) (pc_delta_lb_inv pc) (pc_delta_ub_inv pc)); [|auto].
    pose proof (iter_rel K sc pc d st I R) as H.
    destruct (sp_ruiz_iter K sc (pc, d)) as [[pc1 d1]|e]; destruct (ruiz_iter K true sc st) as [st1|e']; cbn [bind]; try contradiction.
    + destruct H as [I1 R1]. apply IH; assumption.
    + exact H.
Qed.

Lemma pc_eq_of_core pc pc' : pc_core pc = pc_core pc' -> pc_delta_inv pc = pc_delta_inv pc' ->
  pc_delta_lb_inv pc = pc_delta_lb_inv pc' -> pc_delta_ub_inv pc = pc_delta_ub_inv pc' -> pc = pc'.
Proof.
  destruct pc, pc'. unfold pc_core. cbn. intros H A B C. injection H as. subst. reflexivity.
Qed.

Theorem sparse_scale_fresh_eq_dense K pc d sc it : wf_spdata d -> wf_pc pc (to_dense d) ->
  res_map dense_result (sp_scale_data K pc d false sc it) = ruiz_scale_data K true pc (to_dense d) false sc it.
Proof.
  intros W WP. destruct (wf_pc_dims _ _ WP) as ([Ld Ldi Llb Llbi Lub Lubi Hnlb Hnub] & En & Ep & Em).
  pose proof (nlb_to_dense d W) as Dnlb. pose proof (nub_to_dense d W) as Dnub.
  unfold sp_scale_data, ruiz_scale_data. rewrite Dnlb, Dnub.
  match goal with |- context [ruiz_loop K true _ sc ?s] => set (st0 := s) end.
  match goal with |- context [sp_ruiz_loop K _ sc (?a, d)] => set (pc1 := a) end.
  assert (I0 : iter_inv pc1 d).
  { subst pc1. refine (mk_iter_inv _ _ _ _ _ _ _ _ _ _ _ _ _ _); cbn -[vconst]; rewrite ?length_vconst; try assumption; try reflexivity; vlia. }
  assert (R0 : st_rel pc1 d st0).
  { subst pc1 st0. refine (mk_st_rel _ _ _ _ _ _ _ _); cbn [rz_d rz_pc rz_it rz_it_lb rz_it_ub].
    - reflexivity.
    - unfold pc_core. cbn. rewrite Ld, Llb, Lub. reflexivity.
    - cbn. now rewrite Ldi.
    - reflexivity.
    - reflexivity. }
  pose proof (loop_rel K sc (Z.to_nat it) pc1 d st0 I0 R0) as HL.
  destruct (sp_ruiz_loop K (Z.to_nat it) sc (pc1, d)) as [[pc2 d2]|e]; destruct (ruiz_loop K true (Z.to_nat it) sc st0) as [st2|e'];
    cbn [bind res_map]; try contradiction; [|congruence].
  destruct HL as [I2 R2]. destruct R2 as [Sd Sc Sit Slb Sub]. cbn [fst snd].
  pose proof Sc as Sc'. unfold pc_core in Sc'. injection Sc' as Ci Cn Cp Cm Cnlb Cnub Cc Cd Cdlb Cdub Cci.
  rewrite Cc, Cd, Cdlb, Cdub.
  destruct (qinv (pc_c pc2)) as [ci|e]; cbn [bind res_map]; [|reflexivity].
  destruct (vinv (pc_delta pc2)) as [di|e] eqn:Edi; cbn [bind res_map]; [|reflexivity].
  destruct (vinv (pc_delta_lb pc2)) as [dlbi|e] eqn:Edlbi; cbn [bind res_map]; [|reflexivity].
  destruct (vinv (pc_delta_ub pc2)) as [dubi|e] eqn:Edubi; cbn [bind res_map]; [|reflexivity].
  unfold dense_result. cbn [fst snd]. f_equal.
  match goal with |- (?a, _) = (?b, _) => assert (Epc : a = b) end.
  { apply pc_eq_of_core; try reflexivity. unfold pc_core in *. cbn. rewrite Ci, Cn, Cp, Cm, Cnlb, Cnub, Cc, Cd, Cdlb, Cdub. reflexivity. }
  rewrite <- Epc. f_equal.
  destruct I2 as [W2 En2 Ep2 Em2 Enlb2 Enub2 Ld2 Llb2 Lub2 _ _ _].
  rewrite Sd. unfold sp_scale_bounds, scale_bounds, to_dense.
  cbn -[vmul segment tail_from set_head head firstn skipn].
  rewrite Enlb2, Enub2. rewrite !head_set_head_vmul; try reflexivity.
  all: pose proof (ws_nlb _ W2); pose proof (ws_nub _ W2); pose proof (ws_lbn _ W2); pose proof (ws_ub _ W2); vlia.
Qed.

Theorem sparse_scale_eq_dense K pc d reuse sc it : wf_spdata d -> wf_pc pc (to_dense d) ->
  res_map dense_result (sp_scale_data K pc d reuse sc it) = ruiz_scale_data K true pc (to_dense d) reuse sc it.
Proof. destruct reuse; [apply sparse_scale_reuse_eq_dense|apply sparse_scale_fresh_eq_dense]. Qed.

(* an Ok result of the sparse code is an Ok result of the dense model on the dense view, and conversely *)
Lemma sparse_scale_ok_iff K pc d reuse sc it : wf_spdata d -> wf_pc pc (to_dense d) ->
  (forall pc' d', sp_scale_data K pc d reuse sc it = Ok (pc', d') ->
                  ruiz_scale_data K true pc (to_dense d) reuse sc it = Ok (pc', to_dense d')) /\
  (forall pc' D', ruiz_scale_data K true pc (to_dense d) reuse sc it = Ok (pc', D') ->
                  exists d', sp_scale_data K pc d reuse sc it = Ok (pc', d') /\ to_dense d' = D').
Proof.
  intros W WP. pose proof (sparse_scale_eq_dense K pc d reuse sc it W WP) as E. split.
  - intros pc' d' H. rewrite H in E. now rewrite <- E.
  - intros pc' D' H. rewrite H in E. destruct (sp_scale_data K pc d reuse sc it) as [[pc2 d2]|e]; cbn in E; [|discriminate].
    unfold dense_result in E. cbn in E. inversion E; subst. eauto.
Qed.

(* the result of scale_data is again well-formed sparse data with a matching preconditioner: the theorems chain over
   histories of unscale_data / new data / scale_data *)
Lemma sparse_fresh_wf K pc d sc it pc' d' : wf_spdata d -> wf_pc pc (to_dense d) ->
  sp_scale_data K pc d false sc it = Ok (pc', d') ->
  wf_spdata d' /\ wf_pc pc' (to_dense d') /\ pc_nlb pc' = sp_nlb d' /\ pc_nub pc' = sp_nub d'.
Proof.
  intros W WP H. destruct (wf_pc_dims _ _ WP) as ([Ld Ldi Llb Llbi Lub Lubi Hnlb Hnub] & En & Ep & Em).
  unfold sp_scale_data in H.
  match type of H with context [sp_ruiz_loop K _ sc (?a, d)] => set (pc1 := a) in * end.
  assert (I0 : iter_inv pc1 d).
  { subst pc1. refine (mk_iter_inv _ _ _ _ _ _ _ _ _ _ _ _ _ _); cbn -[vconst]; rewrite ?length_vconst; try assumption; try reflexivity; vlia. }
  pose (st0 := mkRz (to_dense d) pc1 (pc_delta_inv pc1) (pc_delta_lb_inv pc1) (pc_delta_ub_inv pc1)).
  assert (R0 : st_rel pc1 d st0) by (split; reflexivity).
  pose proof (loop_rel K sc (Z.to_nat it) pc1 d st0 I0 R0) as HL.
  apply bind_ok_inv in H. destruct H as ([pc2 d2] & EL & H). rewrite EL in HL.
  destruct (ruiz_loop K true (Z.to_nat it) sc st0) as [st2|e]; [|contradiction]. destruct HL as [I2 _].
  apply bind_ok_inv in H. destruct H as (ci & _ & H). apply bind_ok_inv in H. destruct H as (di & Edi & H).
  apply bind_ok_inv in H. destruct H as (dlbi & Edlbi & H). apply bind_ok_inv in H. destruct H as (dubi & Edubi & H).
  inversion H; subst pc' d'; clear H. cbn [fst snd] in *.
  destruct I2 as [W2 En2 Ep2 Em2 Enlb2 Enub2 Ld2 Llb2 Lub2 _ _ _].
  pose proof (vinv_len _ _ Edi). pose proof (vinv_len _ _ Edlbi). pose proof (vinv_len _ _ Edubi).
  pose proof (ws_nlb _ W2). pose proof (ws_nub _ W2).
  split; [|split; [|split]].
  - destruct W2. unfold sp_scale_bounds.
    refine (mk_wf_spdata _ _ _ _ _ _ _ _ _ _ _ _ _ _ _ _ _ _); cbn -[vmul segment tail_from set_head head firstn skipn]; try assumption.
    + rewrite length_vmul, length_segment by vlia. vlia.
    + rewrite length_vmul, length_tail_from. vlia.
    + rewrite length_set_head_vmul. assumption.
    + rewrite length_set_head_vmul. assumption.
  - split; [split|]; cbn; try vlia; repeat split; assumption.
  - cbn. assumption.
  - cbn. assumption.
Qed.

Theorem sparse_scale_wf K pc d reuse sc it pc' d' : wf_spdata d -> wf_pc pc (to_dense d) ->
  sp_scale_data K pc d reuse sc it = Ok (pc', d') ->
  wf_spdata d' /\ wf_pc pc' (to_dense d') /\ pc_nlb pc' = sp_nlb d' /\ pc_nub pc' = sp_nub d'.
Proof.
  intros W WP H. destruct reuse; [|eapply sparse_fresh_wf; eauto].
  destruct (sparse_reuse_explicit K pc d sc it W WP) as (d1 & E & W1 & F1 & _). rewrite E in H. inversion H; subst.
  destruct F1 as (f1 & f2 & f3 & _ & _ & _ & f7 & f8 & _). destruct WP as ([? ? ? ? ? ? ? ?] & a & b & c).
  pose proof (ws_nlb _ W). pose proof (ws_nub _ W).
  cbn in a, b, c. split; auto. split; [|split; cbn; congruence].
  split; [split; cbn; try assumption; vlia|]. cbn. repeat split; congruence.
Qed.
