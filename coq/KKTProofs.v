(* KKTProofs.v -- C13: the dense KKT back end (KKTDense.v) solves the full un-eliminated regularised
   Newton system exactly.  Exact arithmetic (Qc), all sizes, all data, all positive scalings.
     Part A  scalar identities (dense vs sparse formulas), order toolkit
     Part B  T1a(i): elimination algebra at the level of functions nat -> Qc and finite sums
     Part C  T3: iterative refinement never returns a solution with a larger residual
     Part D  T1b/(ii): update_kkt denotes K_red = P + rho I + G^T W G + (1/delta) A^T A + box terms
     Part E  T1a: kkt_multiply (kkt_solve rhs) = rhs on the model *)
From PIQP Require Import Base Data KKTDense LinAlg LLTProofs.
From Coq Require Import Lia Lqa.
From RecordUpdate Require Import RecordSet.
Import RecordSetNotations.
Local Open Scope Qc_scope.

(* ================================================================ Part A *)
Lemma this_plus a b : (this (a + b) == this a + this b)%Q.
Proof. unfold Qcplus. cbn [this Q2Qc]. apply Qred_correct. Qed.
Lemma this_mult a b : (this (a * b) == this a * this b)%Q.
Proof. unfold Qcmult. cbn [this Q2Qc]. apply Qred_correct. Qed.

Lemma Qc_add_pos a b : 0 < a -> 0 < b -> 0 < a + b.
Proof. unfold Qclt. rewrite this_plus. change (this 0) with 0%Q. intros. lra. Qed.
Lemma Qc_add_pos_nonneg a b : 0 < a -> 0 <= b -> 0 < a + b.
Proof. unfold Qclt, Qcle. rewrite this_plus. change (this 0) with 0%Q. intros. lra. Qed.
Lemma Qc_mul_pos a b : 0 < a -> 0 < b -> 0 < a * b.
Proof. unfold Qclt. rewrite this_mult. change (this 0) with 0%Q. intros. nra. Qed.

Lemma Qc_den_pos s zinv delta : 0 < s -> 0 < zinv -> 0 <= delta -> s * zinv + delta <> 0.
Proof. intros. apply Qclt_neq0. apply Qc_add_pos_nonneg; [apply Qc_mul_pos|]; assumption. Qed.

(* T_sparse_formulas: sparse/kkt.hpp computes delta_z_lb, delta_z_ub, delta_s, delta_s_lb, delta_s_ub with
   algebraically different formulas; they equal the dense ones.  General (non-zero denominators) form: *)
Lemma sparse_dz_lb_eq_dense_nz sc dx rz rs zinv s delta :
  zinv <> 0 -> s * zinv + delta <> 0 ->
  ((- sc * dx - rz) / zinv + rs) / (s + delta / zinv) = (- sc * dx - rz + zinv * rs) / (s * zinv + delta).
Proof. intros. field. split; assumption. Qed.

Lemma sparse_dz_ub_eq_dense_nz sc dx rz rs zinv s delta :
  zinv <> 0 -> s * zinv + delta <> 0 ->
  ((sc * dx - rz) / zinv + rs) / (s + delta / zinv) = (sc * dx - rz + zinv * rs) / (s * zinv + delta).
Proof. intros. field. split; assumption. Qed.

Lemma sparse_ds_eq_dense_nz s zinv rs dz : s <> 0 -> s * zinv * (rs / s - dz) = zinv * (rs - s * dz).
Proof. intros. field. assumption. Qed.

(* sparse: delta_z /= (s*zinv + delta)   vs dense: delta_z *= 1/(s*zinv + delta) *)
Lemma sparse_dz_div_eq_dense_nz g s zinv delta : s * zinv + delta <> 0 ->
  g / (s * zinv + delta) = g * (1 / (s * zinv + delta)).
Proof. intros. field. assumption. Qed.

Theorem sparse_dz_lb_eq_dense sc dx rz rs zinv s delta :
  0 < s -> 0 < zinv -> 0 <= delta ->
  ((- sc * dx - rz) / zinv + rs) / (s + delta / zinv) = (- sc * dx - rz + zinv * rs) / (s * zinv + delta).
Proof. intros. apply sparse_dz_lb_eq_dense_nz; [apply Qclt_neq0 | apply Qc_den_pos]; assumption. Qed.

Theorem sparse_dz_ub_eq_dense sc dx rz rs zinv s delta :
  0 < s -> 0 < zinv -> 0 <= delta ->
  ((sc * dx - rz) / zinv + rs) / (s + delta / zinv) = (sc * dx - rz + zinv * rs) / (s * zinv + delta).
Proof. intros. apply sparse_dz_ub_eq_dense_nz; [apply Qclt_neq0 | apply Qc_den_pos]; assumption. Qed.

Theorem sparse_ds_eq_dense s zinv rs dz : 0 < s -> s * zinv * (rs / s - dz) = zinv * (rs - s * dz).
Proof. intros. apply sparse_ds_eq_dense_nz. apply Qclt_neq0. assumption. Qed.

Theorem sparse_dz_div_eq_dense g s zinv delta : 0 < s -> 0 < zinv -> 0 <= delta ->
  g / (s * zinv + delta) = g * (1 / (s * zinv + delta)).
Proof. intros. apply sparse_dz_div_eq_dense_nz. apply Qc_den_pos; assumption. Qed.

(* ================================================================ Part B : elimination algebra (L2) *)
(* an L2 system: sizes, data, scalings and right-hand side as functions *)
Record L2sys := mkL2 {
  y_n : nat; y_p : nat; y_m : nat; y_nlb : nat; y_nub : nat;
  y_Psym : nat -> nat -> Qc;                 (* symmetric P, full *)
  y_AT : nat -> nat -> Qc; y_GT : nat -> nat -> Qc;   (* AT i l = A(l,i), GT i l = G(l,i);  i < n *)
  y_rho : Qc; y_delta : Qc;
  y_s : nat -> Qc; y_zinv : nat -> Qc;       (* l < m *)
  y_lbidx : nat -> nat; y_ubidx : nat -> nat;  (* k < nlb / nub; column indices (need not be distinct) *)
  y_lbs : nat -> Qc; y_ubs : nat -> Qc; y_slb : nat -> Qc; y_sub : nat -> Qc; y_zli : nat -> Qc; y_zui : nat -> Qc;
  y_rx : nat -> Qc; y_ry : nat -> Qc; y_rz : nat -> Qc; y_rzlb : nat -> Qc; y_rzub : nat -> Qc;
  y_rs : nat -> Qc; y_rslb : nat -> Qc; y_rsub : nat -> Qc   (* right-hand side blocks *)
}.

Section Algebra.
  Variable Y : L2sys.
  Variable dx : nat -> Qc.
  Local Notation n := (y_n Y). Local Notation p := (y_p Y). Local Notation m := (y_m Y).
  Local Notation nlb := (y_nlb Y). Local Notation nub := (y_nub Y).
  Local Notation Psym := (y_Psym Y). Local Notation AT := (y_AT Y). Local Notation GT := (y_GT Y).
  Local Notation rho := (y_rho Y). Local Notation delta := (y_delta Y).
  Local Notation s := (y_s Y). Local Notation zinv := (y_zinv Y).
  Local Notation lbidx := (y_lbidx Y). Local Notation ubidx := (y_ubidx Y).
  Local Notation lbs := (y_lbs Y). Local Notation ubs := (y_ubs Y).
  Local Notation slb := (y_slb Y). Local Notation sub := (y_sub Y).
  Local Notation zli := (y_zli Y). Local Notation zui := (y_zui Y).
  Local Notation rx := (y_rx Y). Local Notation ry := (y_ry Y). Local Notation rz := (y_rz Y).
  Local Notation rzlb := (y_rzlb Y). Local Notation rzub := (y_rzub Y).
  Local Notation rs := (y_rs Y). Local Notation rslb := (y_rslb Y). Local Notation rsub := (y_rsub Y).

  Hypothesis Hdelta : delta <> 0.
  Hypothesis Hzinv : forall l, (l < m)%nat -> zinv l <> 0.
  Hypothesis Hw : forall l, (l < m)%nat -> s l * zinv l + delta <> 0.
  Hypothesis Hzli : forall k, (k < nlb)%nat -> zli k <> 0.
  Hypothesis Hwlb : forall k, (k < nlb)%nat -> slb k * zli k + delta <> 0.
  Hypothesis Hzui : forall k, (k < nub)%nat -> zui k <> 0.
  Hypothesis Hwub : forall k, (k < nub)%nat -> sub k * zui k + delta <> 0.

  Definition a_dinv : Qc := 1 / delta.
  Definition a_w l : Qc := 1 / (s l * zinv l + delta).
  Definition a_wlb k : Qc := 1 / (slb k * zli k + delta).
  Definition a_wub k : Qc := 1 / (sub k * zui k + delta).
  Definition a_rzbar l : Qc := (rz l - zinv l * rs l) * a_w l.
  Definition a_tlb k : Qc := lbs k * (rzlb k - zli k * rslb k) * a_wlb k.
  Definition a_tub k : Qc := ubs k * (rzub k - zui k * rsub k) * a_wub k.
  Definition a_bdiag i : Qc :=
    sum nlb (fun k => if Nat.eqb (lbidx k) i then lbs k * lbs k * a_wlb k else 0)
    + sum nub (fun k => if Nat.eqb (ubidx k) i then ubs k * ubs k * a_wub k else 0).
  Definition a_SG i j : Qc := sum m (fun l => GT i l * a_w l * GT j l).
  Definition a_SA i j : Qc := sum p (fun l => AT i l * AT j l).
  (* reduced matrix  K_red = P + rho I + box diagonal + G^T W G + (1/delta) A^T A *)
  Definition a_Kred i j : Qc :=
    Psym i j + (if Nat.eqb i j then rho + a_bdiag i else 0) + a_SG i j + a_dinv * a_SA i j.
  (* folded right-hand side *)
  Definition a_rhs i : Qc :=
    rx i + sum m (fun l => a_rzbar l * GT i l) + a_dinv * sum p (fun l => ry l * AT i l)
    - sum nlb (fun k => if Nat.eqb (lbidx k) i then a_tlb k else 0)
    + sum nub (fun k => if Nat.eqb (ubidx k) i then a_tub k else 0).
  (* back substitution and slack recovery (dense formulas) *)
  Definition a_ATdx l : Qc := sum n (fun j => AT j l * dx j).
  Definition a_GTdx l : Qc := sum n (fun j => GT j l * dx j).
  Definition a_dy l : Qc := a_dinv * a_ATdx l - a_dinv * ry l.
  Definition a_dz l : Qc := a_GTdx l * a_w l - a_rzbar l.
  Definition a_dzlb k : Qc := (- (lbs k * dx (lbidx k)) - rzlb k + zli k * rslb k) * a_wlb k.
  Definition a_dzub k : Qc := (ubs k * dx (ubidx k) - rzub k + zui k * rsub k) * a_wub k.
  Definition a_ds l : Qc := zinv l * (rs l - s l * a_dz l).
  Definition a_dslb k : Qc := zli k * (rslb k - slb k * a_dzlb k).
  Definition a_dsub k : Qc := zui k * (rsub k - sub k * a_dzub k).

  (* the rows of the full (un-eliminated) operator, as kkt_multiply computes them *)
  Definition a_row_x i : Qc :=
    sum n (fun j => Psym i j * dx j) + rho * dx i
    + (sum p (fun l => a_dy l * AT i l) + sum m (fun l => a_dz l * GT i l))
    - sum nlb (fun k => if Nat.eqb (lbidx k) i then lbs k * a_dzlb k else 0)
    + sum nub (fun k => if Nat.eqb (ubidx k) i then ubs k * a_dzub k else 0).
  Definition a_row_y l : Qc := a_ATdx l - delta * a_dy l.
  Definition a_row_z l : Qc := a_GTdx l - delta * a_dz l + a_ds l.
  Definition a_row_zlb k : Qc := - (lbs k * dx (lbidx k)) - delta * a_dzlb k + a_dslb k.
  Definition a_row_zub k : Qc := ubs k * dx (ubidx k) - delta * a_dzub k + a_dsub k.
  Definition a_row_s l : Qc := s l * a_dz l + (1 / zinv l) * a_ds l.
  Definition a_row_slb k : Qc := slb k * a_dzlb k + (1 / zli k) * a_dslb k.
  Definition a_row_sub k : Qc := sub k * a_dzub k + (1 / zui k) * a_dsub k.

  Lemma alg_row_y l : a_row_y l = ry l.
  Proof. unfold a_row_y, a_dy, a_dinv. field. assumption. Qed.

  Lemma alg_row_z l : (l < m)%nat -> a_row_z l = rz l.
  Proof.
    intros Hl. unfold a_row_z, a_ds, a_dz, a_rzbar, a_w. field. auto.
  Qed.

  Lemma alg_row_s l : (l < m)%nat -> a_row_s l = rs l.
  Proof. intros Hl. unfold a_row_s, a_ds. field. auto. Qed.

  Lemma alg_row_zlb k : (k < nlb)%nat -> a_row_zlb k = rzlb k.
  Proof. intros Hk. unfold a_row_zlb, a_dslb, a_dzlb, a_wlb. field. auto. Qed.

  Lemma alg_row_slb k : (k < nlb)%nat -> a_row_slb k = rslb k.
  Proof. intros Hk. unfold a_row_slb, a_dslb. field. auto. Qed.

  Lemma alg_row_zub k : (k < nub)%nat -> a_row_zub k = rzub k.
  Proof. intros Hk. unfold a_row_zub, a_dsub, a_dzub, a_wub. field. auto. Qed.

  Lemma alg_row_sub k : (k < nub)%nat -> a_row_sub k = rsub k.
  Proof. intros Hk. unfold a_row_sub, a_dsub. field. auto. Qed.

  (* the three folding identities behind the x row *)
  Lemma alg_fold_A i :
    sum p (fun l => a_dy l * AT i l)
    = a_dinv * sum n (fun j => a_SA i j * dx j) - a_dinv * sum p (fun l => ry l * AT i l).
  Proof.
    unfold a_dy, a_ATdx, a_SA.
    rewrite (sum_ext p _ (fun l => a_dinv * sum n (fun j => AT i l * AT j l * dx j) - a_dinv * (ry l * AT i l))).
    2:{ intros l Hl.
        rewrite (sum_ext n (fun j => AT i l * AT j l * dx j) (fun j => AT i l * (AT j l * dx j))) by (intros; ring).
        rewrite sum_scale_l. ring. }
    rewrite sum_sub, !sum_scale_l. f_equal. f_equal.
    rewrite sum_swap. apply sum_ext. intros j Hj. rewrite <- sum_scale_r. reflexivity.
  Qed.

  Lemma alg_fold_G i :
    sum m (fun l => a_dz l * GT i l)
    = sum n (fun j => a_SG i j * dx j) - sum m (fun l => a_rzbar l * GT i l).
  Proof.
    unfold a_dz, a_GTdx, a_SG.
    rewrite (sum_ext m _ (fun l => sum n (fun j => GT i l * a_w l * GT j l * dx j) - a_rzbar l * GT i l)).
    2:{ intros l Hl.
        rewrite (sum_ext n (fun j => GT i l * a_w l * GT j l * dx j) (fun j => (GT i l * a_w l) * (GT j l * dx j)))
          by (intros; ring).
        rewrite sum_scale_l. ring. }
    rewrite sum_sub. f_equal.
    rewrite sum_swap. apply sum_ext. intros j Hj. rewrite <- sum_scale_r. reflexivity.
  Qed.

  Lemma alg_fold_lb i :
    sum nlb (fun k => if Nat.eqb (lbidx k) i then lbs k * a_dzlb k else 0)
    = - (sum nlb (fun k => if Nat.eqb (lbidx k) i then lbs k * lbs k * a_wlb k else 0) * dx i)
      - sum nlb (fun k => if Nat.eqb (lbidx k) i then a_tlb k else 0).
  Proof.
    rewrite (sum_ext nlb _ (fun k => - ((if Nat.eqb (lbidx k) i then lbs k * lbs k * a_wlb k else 0) * dx i)
                                      - (if Nat.eqb (lbidx k) i then a_tlb k else 0))).
    2:{ intros k Hk. destruct (Nat.eqb_spec (lbidx k) i) as [E|]; [|ring]. unfold a_dzlb, a_tlb. rewrite E. ring. }
    rewrite sum_sub, sum_opp, sum_scale_r. reflexivity.
  Qed.

  Lemma alg_fold_ub i :
    sum nub (fun k => if Nat.eqb (ubidx k) i then ubs k * a_dzub k else 0)
    = sum nub (fun k => if Nat.eqb (ubidx k) i then ubs k * ubs k * a_wub k else 0) * dx i
      - sum nub (fun k => if Nat.eqb (ubidx k) i then a_tub k else 0).
  Proof.
    rewrite (sum_ext nub _ (fun k => (if Nat.eqb (ubidx k) i then ubs k * ubs k * a_wub k else 0) * dx i
                                      - (if Nat.eqb (ubidx k) i then a_tub k else 0))).
    2:{ intros k Hk. destruct (Nat.eqb_spec (ubidx k) i) as [E|]; [|ring]. unfold a_dzub, a_tub. rewrite E. ring. }
    rewrite sum_sub, sum_scale_r. reflexivity.
  Qed.

  Lemma alg_Kred_mul i : (i < n)%nat ->
    sum n (fun j => a_Kred i j * dx j)
    = sum n (fun j => Psym i j * dx j) + (rho + a_bdiag i) * dx i
      + sum n (fun j => a_SG i j * dx j) + a_dinv * sum n (fun j => a_SA i j * dx j).
  Proof.
    intros Hi. unfold a_Kred.
    rewrite (sum_ext n _ (fun j => Psym i j * dx j + (if Nat.eqb i j then (rho + a_bdiag i) * dx j else 0)
                                   + a_SG i j * dx j + a_dinv * (a_SA i j * dx j))).
    2:{ intros j Hj. destruct (Nat.eqb i j); ring. }
    rewrite !sum_add, sum_scale_l. rewrite (sum_delta' n i (fun j => (rho + a_bdiag i) * dx j)) by assumption.
    reflexivity.
  Qed.

  (* T1a(i), x row: if the reduced system holds at row i, so does the full x row *)
  Theorem alg_row_x i : (i < n)%nat ->
    sum n (fun j => a_Kred i j * dx j) = a_rhs i -> a_row_x i = rx i.
  Proof.
    intros Hi H. rewrite alg_Kred_mul in H by assumption. unfold a_rhs in H. unfold a_row_x.
    rewrite alg_fold_A, alg_fold_G, alg_fold_lb, alg_fold_ub.
    unfold a_bdiag in H.
    set (X1 := sum n (fun j => Psym i j * dx j)) in *.
    set (X2 := sum n (fun j => a_SG i j * dx j)) in *.
    set (X3 := sum n (fun j => a_SA i j * dx j)) in *.
    set (X4 := sum m (fun l => a_rzbar l * GT i l)) in *.
    set (X5 := sum p (fun l => ry l * AT i l)) in *.
    set (X6 := sum nlb (fun k => if Nat.eqb (lbidx k) i then a_tlb k else 0)) in *.
    set (X7 := sum nub (fun k => if Nat.eqb (ubidx k) i then a_tub k else 0)) in *.
    set (X8 := sum nlb (fun k => if Nat.eqb (lbidx k) i then lbs k * lbs k * a_wlb k else 0)) in *.
    set (X9 := sum nub (fun k => if Nat.eqb (ubidx k) i then ubs k * ubs k * a_wub k else 0)) in *.
    assert (E : rx i = X1 + (rho + (X8 + X9)) * dx i + X2 + a_dinv * X3 - X4 - a_dinv * X5 + X6 - X7)
      by (rewrite H; ring).
    rewrite E. ring.
  Qed.

  (* the whole system at once *)
  Theorem kkt_algebra_dense :
    (forall i, (i < n)%nat -> sum n (fun j => a_Kred i j * dx j) = a_rhs i) ->
    (forall i, (i < n)%nat -> a_row_x i = rx i) /\
    (forall l, (l < p)%nat -> a_row_y l = ry l) /\
    (forall l, (l < m)%nat -> a_row_z l = rz l) /\
    (forall k, (k < nlb)%nat -> a_row_zlb k = rzlb k) /\
    (forall k, (k < nub)%nat -> a_row_zub k = rzub k) /\
    (forall l, (l < m)%nat -> a_row_s l = rs l) /\
    (forall k, (k < nlb)%nat -> a_row_slb k = rslb k) /\
    (forall k, (k < nub)%nat -> a_row_sub k = rsub k).
  Proof.
    intros H. repeat split; intros.
    - apply alg_row_x; auto.
    - apply alg_row_y.
    - apply alg_row_z; assumption.
    - apply alg_row_zlb; assumption.
    - apply alg_row_zub; assumption.
    - apply alg_row_s; assumption.
    - apply alg_row_slb; assumption.
    - apply alg_row_sub; assumption.
  Qed.
End Algebra.

(* ================================================================ Part C : iterative refinement *)
Lemma qmax_ge_l a b : a <= qmax a b.
Proof.
  unfold qmax. destruct (qltb a b) eqn:E.
  - apply qltb_lt in E. apply Qclt_le_weak. assumption.
  - apply Qcle_refl.
Qed.

Lemma fold_qmax_abs_ge l : forall acc, acc <= fold_left (fun acc x => qmax acc (qabs x)) l acc.
Proof.
  induction l as [|x l IH]; intros acc; cbn [fold_left].
  - apply Qcle_refl.
  - eapply Qcle_trans; [apply (qmax_ge_l acc (qabs x)) | apply IH].
Qed.

Lemma norm_inf_nonneg a : 0 <= norm_inf a.
Proof. unfold norm_inf. apply fold_qmax_abs_ge. Qed.

Lemma rate_ge_1 en en2 : 0 <= en2 -> en2 <> 0 -> 1 <= en / en2 -> en2 <= en.
Proof.
  intros H0 Hnz H1.
  assert (Hpos : 0 <= en2) by assumption.
  assert (E : en = (en / en2) * en2) by (field; assumption).
  rewrite E. rewrite <- (Qcmult_1_l en2) at 1. apply Qcmult_le_compat_r; assumption.
Qed.

Section Refine.
  Variable S : Settings.
  Hypothesis Hrate : 1 <= iterative_refinement_min_improvement_rate S.

  Definition kkt_residual_norm (k : KKT) (rhs sol : Vec) : F :=
    norm_inf (vsub rhs (lower_sym_mul (k_mat k) sol)).

  (* T3, for the loop as modelled, all fuel *)
  Theorem refinement_monotone_loop fuel : forall k rhs rhs_norm sol err_corr error_norm r,
    error_norm = kkt_residual_norm k rhs sol ->
    refine_loop S fuel k rhs rhs_norm sol err_corr error_norm = Ok r ->
    kkt_residual_norm k rhs r <= error_norm.
  Proof.
    induction fuel as [|fuel IH]; intros k rhs rn sol ec en r Hen H.
    - cbn in H. injection H as <-. rewrite Hen. apply Qcle_refl.
    - cbn [refine_loop] in H.
      destruct (qleb en _) eqn:Estop.
      { injection H as <-. rewrite Hen. apply Qcle_refl. }
      apply bind_ok in H as (corr & Hcorr & H).
      set (ref_sol := vadd sol corr) in *.
      set (err2 := vsub rhs (lower_sym_mul (k_mat k) ref_sol)) in *.
      assert (Hen2 : norm_inf err2 = kkt_residual_norm k rhs ref_sol) by reflexivity.
      destruct (qeqb (norm_inf err2) 0) eqn:Ez.
      + apply qeqb_eq in Ez. apply IH in H; [|assumption].
        eapply Qcle_trans; [exact H|]. rewrite Ez, Hen. apply norm_inf_nonneg.
      + apply qeqb_neq in Ez.
        apply bind_ok in H as (rate & Hrate' & H). apply qdiv_ok in Hrate' as [_ ->].
        destruct (qltb (en / norm_inf err2) _) eqn:Elt.
        * destruct (qltb 1 (en / norm_inf err2)) eqn:E1.
          -- injection H as <-. rewrite <- Hen2. apply qltb_lt in E1.
             apply rate_ge_1; [apply norm_inf_nonneg | assumption | apply Qclt_le_weak; assumption].
          -- injection H as <-. rewrite Hen. apply Qcle_refl.
        * apply qltb_ge in Elt. apply IH in H; [|assumption].
          eapply Qcle_trans; [exact H|].
          apply rate_ge_1; [apply norm_inf_nonneg | assumption | eapply Qcle_trans; eassumption].
  Qed.

  (* the refinement stage of kkt_solve: whatever [refine], the solution handed to back-substitution
     has a residual (w.r.t. the unregularised k_mat) not larger than that of the plain LLT solve *)
  Theorem refinement_monotone k refine rhs sol0 sol :
    (if refine && Z.ltb 0 (iterative_refinement_max_iter S) then
       let err := vsub rhs (lower_sym_mul (k_mat k) sol0) in
       refine_loop S (Z.to_nat (iterative_refinement_max_iter S)) k rhs (norm_inf rhs) sol0 err (norm_inf err)
     else Ok sol0) = Ok sol ->
    kkt_residual_norm k rhs sol <= kkt_residual_norm k rhs sol0.
  Proof.
    destruct (refine && _)%bool.
    - cbn zeta. intros H. apply refinement_monotone_loop in H; [exact H | reflexivity].
    - intros [= <-]. apply Qcle_refl.
  Qed.
End Refine.

(* ================================================================ Part D : assembly of the reduced matrix *)
Definition fv (v : Vec) (i : nat) : Qc := nth i v 0.
Definition fidx (l : list nat) (k : nat) : nat := nth k l O.
(* the symmetric matrix represented by P_utri (upper triangle meaningful) *)
Definition fPsym (d : Data) (i j : nat) : Qc :=
  if Nat.leb j i then mentry (d_P d) j i else mentry (d_P d) i j.

Definition sys_of (d : Data) (k : KKT) (rx ry rz rzlb rzub rs rslb rsub : Vec) : L2sys :=
  {| y_n := d_n d; y_p := d_p d; y_m := d_m d; y_nlb := d_nlb d; y_nub := d_nub d;
     y_Psym := fPsym d; y_AT := mentry (d_AT d); y_GT := mentry (d_GT d);
     y_rho := k_rho k; y_delta := k_delta k; y_s := fv (k_s k); y_zinv := fv (k_z_inv k);
     y_lbidx := fidx (d_lb_idx d); y_ubidx := fidx (d_ub_idx d);
     y_lbs := fv (d_lb_scaling d); y_ubs := fv (d_ub_scaling d);
     y_slb := fv (k_s_lb k); y_sub := fv (k_s_ub k); y_zli := fv (k_z_lb_inv k); y_zui := fv (k_z_ub_inv k);
     y_rx := fv rx; y_ry := fv ry; y_rz := fv rz; y_rzlb := fv rzlb; y_rzub := fv rzub;
     y_rs := fv rs; y_rslb := fv rslb; y_rsub := fv rsub |}.

(* K_red(d, scalings of k) = P + rho I + box diagonal + G^T W G + (1/delta) A^T A, as a function *)
Definition Kred_of (d : Data) (k : KKT) : nat -> nat -> Qc := a_Kred (sys_of d k [] [] [] [] [] [] [] []).

Definition wf_data (d : Data) : Prop :=
  length (d_P d) = d_n d /\ Forall (fun c => length c = d_n d) (d_P d) /\
  length (d_AT d) = d_p d /\ Forall (fun c => length c = d_n d) (d_AT d) /\
  length (d_GT d) = d_m d /\ Forall (fun c => length c = d_n d) (d_GT d) /\
  (d_nlb d <= length (d_lb_scaling d))%nat /\ (d_nub d <= length (d_ub_scaling d))%nat /\
  (* P_utri = P.triangularView<Upper>() : the strict lower triangle is zero *)
  (forall i j, (j < i)%nat -> (i < d_n d)%nat -> mentry (d_P d) i j = 0).

Definition wf_scal (d : Data) (k : KKT) : Prop :=
  length (k_s k) = d_m d /\ length (k_z_inv k) = d_m d /\
  (d_nlb d <= length (k_s_lb k))%nat /\ (d_nlb d <= length (k_z_lb_inv k))%nat /\
  (d_nub d <= length (k_s_ub k))%nat /\ (d_nub d <= length (k_z_ub_inv k))%nat.

Lemma lower_rows_length n g : length (lower_rows n g) = n.
Proof. unfold lower_rows. rewrite map_length, seq_length. reflexivity. Qed.

Lemma nth_lower_rows n g i : (i < n)%nat ->
  nth i (lower_rows n g) [] = map (fun j => g i j) (seq 0 (Datatypes.S i)).
Proof.
  intros H. unfold lower_rows.
  apply (nth_map_seq (fun i => map (fun j => g i j) (seq 0 (Datatypes.S i)))). assumption.
Qed.

Lemma lower_rows_wf n g : wf_lower (lower_rows n g).
Proof.
  intros i Hi. rewrite lower_rows_length in Hi. rewrite nth_lower_rows by assumption.
  rewrite map_length, seq_length. reflexivity.
Qed.

Lemma Afun_lower_rows n g i j : (j <= i)%nat -> (i < n)%nat -> Afun (lower_rows n g) i j = g i j.
Proof.
  intros Hj Hi. unfold Afun. rewrite nth_lower_rows by assumption. apply (nth_map_seq (fun j => g i j)). nlia.
Qed.

Lemma Asym_lower_rows n g i j : (i < n)%nat -> (j < n)%nat ->
  Asym (lower_rows n g) i j = if Nat.leb j i then g i j else g j i.
Proof.
  intros Hi Hj. unfold Asym. destruct (Nat.leb_spec j i); apply Afun_lower_rows; nlia.
Qed.

Lemma nth_combine {A B} (a : list A) (b : list B) k x y :
  (k < length a)%nat -> (k < length b)%nat -> nth k (combine a b) (x, y) = (nth k a x, nth k b y).
Proof.
  revert b k. induction a as [|u a IH]; intros [|v b] [|k] Ha Hb; cbn in *; try nlia; [reflexivity|].
  apply IH; nlia.
Qed.

Lemma box_diag_spec delta diag idx sc zinv s bd :
  box_diag delta diag idx sc zinv s = Ok bd ->
  (length idx <= length sc)%nat -> (length idx <= length zinv)%nat -> (length idx <= length s)%nat ->
  length bd = length diag /\
  (forall k, (k < length idx)%nat -> nth k zinv 0 * nth k s 0 + delta <> 0) /\
  forall i, nth i bd 0 = nth i diag 0
    + sum (length idx) (fun k => if Nat.eqb (nth k idx O) i
                                 then nth k sc 0 * nth k sc 0 / (nth k zinv 0 * nth k s 0 + delta) else 0).
Proof.
  intros H Hsc Hzinv Hs. unfold box_diag in H. apply bind_ok in H as (terms & Ht & H).
  apply mapM_ok in Ht as [Htl Htn]. rewrite !combine_length in Htl, Htn.
  assert (Hterm : forall k, (k < length idx)%nat ->
            nth k zinv 0 * nth k s 0 + delta <> 0 /\
            nth k terms 0 = nth k sc 0 * nth k sc 0 / (nth k zinv 0 * nth k s 0 + delta)).
  { intros k Hk. specialize (Htn k ((0, 0), 0) 0 ltac:(nlia)).
    rewrite nth_combine in Htn by (rewrite ?combine_length; nlia).
    rewrite nth_combine in Htn by nlia. cbn [fst snd] in Htn. apply qdiv_ok in Htn. exact Htn. }
  apply (scatter_with_ok Qcplus (fun x => x)) in H; [|reflexivity].
  destruct H as (H1 & H2 & H3 & H4). split; [assumption|]. split; [intros k0 Hk0; apply Hterm; assumption|].
  intros i. rewrite H4. f_equal. apply sum_ext. intros k0 Hk0.
  destruct (Nat.eqb _ i); [|reflexivity]. apply Hterm. assumption.
Qed.

Lemma w_spec delta a b w : vinv (vaddc delta (vmul a b)) = Ok w -> length a = length b ->
  length w = length a /\
  forall l, (l < length a)%nat -> nth l a 0 * nth l b 0 + delta <> 0 /\ nth l w 0 = 1 / (nth l a 0 * nth l b 0 + delta).
Proof.
  intros H Hab. apply vinv_ok in H as [Hl Hn]. rewrite vaddc_length, vmul_length, <- Hab, Nat.min_id in Hl, Hn.
  split; [assumption|]. intros l Hl'. specialize (Hn l Hl').
  rewrite nth_vaddc, nth_vmul in Hn by (rewrite vmul_length; nlia). exact Hn.
Qed.

Lemma fPsym_sym d i j : fPsym d i j = fPsym d j i.
Proof.
  unfold fPsym. destruct (Nat.leb_spec j i); destruct (Nat.leb_spec i j); try reflexivity; try nlia.
  assert (i = j) by nlia. subst. reflexivity.
Qed.

Lemma a_Kred_sym Y i j : (forall i j, y_Psym Y i j = y_Psym Y j i) -> a_Kred Y i j = a_Kred Y j i.
Proof.
  intros HP. unfold a_Kred. rewrite (HP i j). rewrite (Nat.eqb_sym j i).
  assert (E1 : a_SG Y i j = a_SG Y j i) by (unfold a_SG; apply sum_ext; intros; ring).
  assert (E2 : a_SA Y i j = a_SA Y j i) by (unfold a_SA; apply sum_ext; intros; ring).
  rewrite E1, E2. destruct (Nat.eqb_spec i j) as [->|]; reflexivity.
Qed.

Lemma set_k_mat_proj k rows :
  k_mat (k <| k_mat := rows |>) = rows /\ k_rho (k <| k_mat := rows |>) = k_rho k /\
  k_delta (k <| k_mat := rows |>) = k_delta k /\ k_s (k <| k_mat := rows |>) = k_s k /\
  k_s_lb (k <| k_mat := rows |>) = k_s_lb k /\ k_s_ub (k <| k_mat := rows |>) = k_s_ub k /\
  k_z_inv (k <| k_mat := rows |>) = k_z_inv k /\ k_z_lb_inv (k <| k_mat := rows |>) = k_z_lb_inv k /\
  k_z_ub_inv (k <| k_mat := rows |>) = k_z_ub_inv k /\ k_ATA (k <| k_mat := rows |>) = k_ATA k /\
  k_fact (k <| k_mat := rows |>) = k_fact k.
Proof. destruct k. repeat split. Qed.

Lemma set_k_fact_proj k f :
  k_mat (k <| k_fact := f |>) = k_mat k /\ k_rho (k <| k_fact := f |>) = k_rho k /\
  k_delta (k <| k_fact := f |>) = k_delta k /\ k_s (k <| k_fact := f |>) = k_s k /\
  k_s_lb (k <| k_fact := f |>) = k_s_lb k /\ k_s_ub (k <| k_fact := f |>) = k_s_ub k /\
  k_z_inv (k <| k_fact := f |>) = k_z_inv k /\ k_z_lb_inv (k <| k_fact := f |>) = k_z_lb_inv k /\
  k_z_ub_inv (k <| k_fact := f |>) = k_z_ub_inv k /\ k_ATA (k <| k_fact := f |>) = k_ATA k /\
  k_fact (k <| k_fact := f |>) = f.
Proof. destruct k. repeat split. Qed.

(* Kred_of only reads the scalings, rho and delta of the state *)
Lemma Kred_of_ext d k k' :
  k_rho k' = k_rho k -> k_delta k' = k_delta k -> k_s k' = k_s k -> k_z_inv k' = k_z_inv k ->
  k_s_lb k' = k_s_lb k -> k_s_ub k' = k_s_ub k -> k_z_lb_inv k' = k_z_lb_inv k -> k_z_ub_inv k' = k_z_ub_inv k ->
  Kred_of d k' = Kred_of d k.
Proof. intros. unfold Kred_of, sys_of. congruence. Qed.

(* T1b / (ii): what update_kkt leaves in k_mat denotes K_red (as a symmetric matrix), all sizes *)
Theorem update_kkt_denotes_Kred d k0 k :
  wf_data d -> wf_scal d k0 -> ((0 < d_p d)%nat -> k_ATA k0 = compute_ATA d) ->
  update_kkt d k0 = Ok k ->
  k = k0 <| k_mat := k_mat k |> /\ length (k_mat k) = d_n d /\ wf_lower (k_mat k) /\
  forall i j, (i < d_n d)%nat -> (j < d_n d)%nat -> Asym (k_mat k) i j = Kred_of d k0 i j.
Proof.
  intros Hd Hk HATA H.
  destruct Hd as (HP1 & HP2 & HA1 & HA2 & HG1 & HG2 & Hlbs & Hubs & HPlow).
  destruct Hk as (Hs & Hzinv & Hslb & Hzli & Hsub & Hzui).
  unfold update_kkt in H. cbv zeta in H.
  apply bind_ok in H as (w & Hw & H). apply bind_ok in H as (dinv & Hdinv & H).
  apply bind_ok in H as (bd0 & Hbd0 & H). apply bind_ok in H as (bd & Hbd & H).
  injection H as <-.
  destruct (set_k_mat_proj k0 (lower_rows (d_n d) (fun i j =>
      mentry (d_P d) j i + (if Nat.eqb i j then k_rho k0 + nth i bd 0 else 0)
      + (if Nat.ltb 0 (d_m d) then dot3 (mrow (d_GT d) i) w (mrow (d_GT d) j) else 0)
      + (if Nat.ltb 0 (d_p d) then dinv * nth j (nth i (k_ATA k0) []) 0 else 0)))) as (E & _).
  rewrite E. split; [reflexivity|]. split; [apply lower_rows_length|]. split; [apply lower_rows_wf|].
  (* the box diagonal *)
  apply box_diag_spec in Hbd0 as (Lbd0 & Nlb & Hbd0);
    [|rewrite head_length by assumption; apply Nat.le_refl | assumption | assumption].
  apply box_diag_spec in Hbd as (Lbd & Nub & Hbd);
    [|rewrite head_length by assumption; apply Nat.le_refl | assumption | assumption].
  assert (Hbdiag : forall i, nth i bd 0 = a_bdiag (sys_of d k0 [] [] [] [] [] [] [] []) i).
  { intros i. rewrite Hbd, Hbd0, nth_vconst0. unfold a_bdiag. cbn [y_nlb y_nub y_lbidx y_ubidx y_lbs y_ubs sys_of].
    rewrite Qcplus_0_l. f_equal; apply sum_ext; intros k0' Hk0'; unfold fidx, fv;
      (destruct (Nat.eqb _ i); [|reflexivity]).
    - rewrite !nth_head by assumption.
      unfold a_wlb. cbn [y_slb y_zli y_delta sys_of]. unfold fv. specialize (Nlb k0' Hk0'). qfield.
      intros E0. apply Nlb. etransitivity; [|exact E0]. qring.
    - rewrite !nth_head by assumption.
      unfold a_wub. cbn [y_sub y_zui y_delta sys_of]. unfold fv. specialize (Nub k0' Hk0'). qfield.
      intros E0. apply Nub. etransitivity; [|exact E0]. qring. }
  (* G^T W G *)
  assert (HSG : forall i j, (if Nat.ltb 0 (d_m d) then dot3 (mrow (d_GT d) i) w (mrow (d_GT d) j) else 0)
                            = a_SG (sys_of d k0 [] [] [] [] [] [] [] []) i j).
  { intros i j. unfold a_SG. cbn [y_m y_GT sys_of]. destruct (Nat.ltb_spec 0 (d_m d)) as [Hm|Hm].
    - apply w_spec in Hw as [Lw Nw]; [|nlia]. unfold dot3.
      rewrite (dot3_sum _ _ _ (d_m d)) by (rewrite !mrow_length; nlia).
      apply sum_ext. intros l Hl. rewrite !nth_mrow. destruct (Nw l ltac:(nlia)) as [Nz ->].
      unfold a_w. cbn [y_s y_zinv y_delta sys_of]. unfold fv. f_equal. f_equal. f_equal. f_equal. qring.
    - replace (d_m d) with O by nlia. reflexivity. }
  (* (1/delta) A^T A *)
  assert (HSA : forall i j, (j <= i)%nat -> (i < d_n d)%nat ->
            (if Nat.ltb 0 (d_p d) then dinv * nth j (nth i (k_ATA k0) []) 0 else 0)
            = a_dinv (sys_of d k0 [] [] [] [] [] [] [] []) * a_SA (sys_of d k0 [] [] [] [] [] [] [] []) i j).
  { intros i j Hj Hi. unfold a_SA, a_dinv. cbn [y_p y_AT y_delta sys_of].
    destruct (Nat.ltb_spec 0 (d_p d)) as [Hp|Hp].
    - rewrite (HATA Hp). unfold compute_ATA. fold (Afun (lower_rows (d_n d)
          (fun i j => dot (mrow (d_AT d) i) (mrow (d_AT d) j))) i j).
      rewrite Afun_lower_rows by assumption.
      rewrite (dot_sum _ _ (d_p d)) by (rewrite !mrow_length; nlia).
      unfold qinv in Hdinv. apply qdiv_ok in Hdinv as [_ ->]. f_equal.
      apply sum_ext. intros l Hl. rewrite !nth_mrow. reflexivity.
    - replace (d_p d) with O by nlia. cbn [sum]. qring. }
  assert (Hg : forall i j, (j <= i)%nat -> (i < d_n d)%nat ->
      mentry (d_P d) j i + (if Nat.eqb i j then k_rho k0 + nth i bd 0 else 0)
      + (if Nat.ltb 0 (d_m d) then dot3 (mrow (d_GT d) i) w (mrow (d_GT d) j) else 0)
      + (if Nat.ltb 0 (d_p d) then dinv * nth j (nth i (k_ATA k0) []) 0 else 0)
      = Kred_of d k0 i j).
  { intros i j Hj Hi. rewrite HSG, HSA, Hbdiag by assumption. unfold Kred_of, a_Kred.
    cbn [y_Psym y_rho sys_of]. unfold fPsym. destruct (Nat.leb_spec j i); [reflexivity|nlia]. }
  intros i j Hi Hj. rewrite Asym_lower_rows by assumption.
  destruct (Nat.leb_spec j i).
  - apply Hg; assumption.
  - rewrite Hg by nlia. apply a_Kred_sym. intros. apply fPsym_sym.
Qed.

(* ================================================================ Part E : multiply (solve rhs) = rhs *)
Lemma nth_Psym_mul d x i : wf_data d -> (i < d_n d)%nat ->
  nth i (Psym_mul d x) 0 = sum (d_n d) (fun j => fPsym d i j * nth j x 0).
Proof.
  intros (HP1 & HP2 & _ & _ & _ & _ & _ & _ & HPlow) Hi. unfold Psym_mul.
  rewrite nth_vadd by (rewrite mat_vec_length, map_length, seq_length by assumption; reflexivity).
  rewrite nth_mat_vec by assumption. rewrite HP1.
  rewrite nth_map_seq by assumption.
  rewrite (fold_left_ext _ (fun acc j => acc + (if Nat.ltb j i then mentry (d_P d) j i * nth j x 0 else 0))).
  2:{ intros acc j. destruct (Nat.ltb j i); ring. }
  rewrite (fold_left_seq_sum (fun j => if Nat.ltb j i then mentry (d_P d) j i * nth j x 0 else 0)).
  rewrite <- sum_add. apply sum_ext. intros j Hj. unfold fPsym.
  destruct (Nat.ltb_spec j i); destruct (Nat.leb_spec j i); try nlia.
  - rewrite (HPlow i j) by assumption. qring.
  - assert (j = i) by nlia. subst. qring.
  - qring.
Qed.

Lemma Psym_mul_length d x : wf_data d -> length (Psym_mul d x) = d_n d.
Proof.
  intros (HP1 & HP2 & _). unfold Psym_mul.
  rewrite vadd_length, mat_vec_length, map_length, seq_length by assumption. apply Nat.min_id.
Qed.

Section Exact.
  Variable d : Data.
  Variable k : KKT.
  Variables rx ry rz rzlb rzub rs rslb rsub : Vec.
  Local Notation n := (d_n d). Local Notation p := (d_p d). Local Notation m := (d_m d).
  Local Notation nlb := (d_nlb d). Local Notation nub := (d_nub d).
  Local Notation Y := (sys_of d k rx ry rz rzlb rzub rs rslb rsub).
  Local Notation lbs := (head nlb (d_lb_scaling d)). Local Notation ubs := (head nub (d_ub_scaling d)).
  Local Notation slb := (head nlb (k_s_lb k)). Local Notation sub := (head nub (k_s_ub k)).
  Local Notation zli := (head nlb (k_z_lb_inv k)). Local Notation zui := (head nub (k_z_ub_inv k)).

  Hypothesis Hd : wf_data d.
  Hypothesis Hk : wf_scal d k.
  Hypothesis Lrx : length rx = n.   Hypothesis Lry : length ry = p.   Hypothesis Lrz : length rz = m.
  Hypothesis Lrzlb : length rzlb = nlb. Hypothesis Lrzub : length rzub = nub.
  Hypothesis Lrs : length rs = m.   Hypothesis Lrslb : length rslb = nlb. Hypothesis Lrsub : length rsub = nub.

  Variable dinv : F.
  Variables w wlb wub : Vec.
  Hypothesis Hdinv : qinv (k_delta k) = Ok dinv.
  Hypothesis Hw : vinv (vaddc (k_delta k) (vmul (k_s k) (k_z_inv k))) = Ok w.
  Hypothesis Hwlb : vinv (vaddc (k_delta k) (vmul slb zli)) = Ok wlb.
  Hypothesis Hwub : vinv (vaddc (k_delta k) (vmul sub zui)) = Ok wub.
  Hypothesis Nzinv : forall l, (l < m)%nat -> nth l (k_z_inv k) 0 <> 0.
  Hypothesis Nzli : forall i, (i < nlb)%nat -> nth i (k_z_lb_inv k) 0 <> 0.
  Hypothesis Nzui : forall i, (i < nub)%nat -> nth i (k_z_ub_inv k) 0 <> 0.

  Definition e_rzbar : Vec := vmul (vsub rz (vmul (k_z_inv k) rs)) w.
  Definition e_r1 : Vec := vadd (vadd rx (mat_vec n (d_GT d) e_rzbar)) (vscale dinv (mat_vec n (d_AT d) ry)).
  Definition e_tlb : Vec := vmul (vmul lbs (vsub rzlb (vmul zli rslb))) wlb.
  Definition e_tub : Vec := vmul (vmul ubs (vsub rzub (vmul zui rsub))) wub.

  Variables r2 rhs sol xlb xub : Vec.
  Hypothesis Hr2 : scatter_with Qcminus e_r1 (d_lb_idx d) e_tlb = Ok r2.
  Hypothesis Hrhs : scatter_with Qcplus r2 (d_ub_idx d) e_tub = Ok rhs.
  Hypothesis Lsol : length sol = n.
  Hypothesis Lmat : length (k_mat k) = n.
  Hypothesis HK : forall i j, (i < n)%nat -> (j < n)%nat -> Asym (k_mat k) i j = Kred_of d k i j.
  Hypothesis Hsol : lower_sym_mul (k_mat k) sol = rhs.
  Hypothesis Hxlb : gather sol (d_lb_idx d) = Ok xlb.
  Hypothesis Hxub : gather sol (d_ub_idx d) = Ok xub.

  Definition e_dy : Vec := vsub (vscale dinv (matT_vec (d_AT d) sol)) (vscale dinv ry).
  Definition e_dz : Vec := vsub (vmul (matT_vec (d_GT d) sol) w) e_rzbar.
  Definition e_dzlb : Vec := vmul (vadd (vsub (vneg (vmul lbs xlb)) rzlb) (vmul zli rslb)) wlb.
  Definition e_dzub : Vec := vmul (vadd (vsub (vmul ubs xub) rzub) (vmul zui rsub)) wub.
  Definition e_ds : Vec := vmul (k_z_inv k) (vsub rs (vmul (k_s k) e_dz)).
  Definition e_dslb : Vec := vmul zli (vsub rslb (vmul slb e_dzlb)).
  Definition e_dsub : Vec := vmul zui (vsub rsub (vmul sub e_dzub)).
  Definition e_step : Step :=
    {| st_x := sol; st_y := e_dy; st_z := e_dz; st_z_lb := e_dzlb; st_z_ub := e_dzub;
       st_s := e_ds; st_s_lb := e_dslb; st_s_ub := e_dsub |}.

  (* --- unpacking the well-formedness hypotheses *)
  Let HP1 : length (d_P d) = n. Proof. apply Hd. Qed.
  Let HA1 : length (d_AT d) = p. Proof. apply Hd. Qed.
  Let HA2 : Forall (fun c => length c = n) (d_AT d). Proof. apply Hd. Qed.
  Let HG1 : length (d_GT d) = m. Proof. apply Hd. Qed.
  Let HG2 : Forall (fun c => length c = n) (d_GT d). Proof. apply Hd. Qed.
  Let Llbs : length lbs = nlb. Proof. apply head_length. apply Hd. Qed.
  Let Lubs : length ubs = nub. Proof. apply head_length. apply Hd. Qed.
  Let Ls : length (k_s k) = m. Proof. apply Hk. Qed.
  Let Lzinv : length (k_z_inv k) = m. Proof. apply Hk. Qed.
  Let Lslb : length slb = nlb. Proof. apply head_length. apply Hk. Qed.
  Let Lzli : length zli = nlb. Proof. apply head_length. apply Hk. Qed.
  Let Lsub : length sub = nub. Proof. apply head_length. apply Hk. Qed.
  Let Lzui : length zui = nub. Proof. apply head_length. apply Hk. Qed.

  Let Fdelta : k_delta k <> 0 /\ dinv = 1 / k_delta k.
  Proof. unfold qinv in Hdinv. apply qdiv_ok in Hdinv. exact Hdinv. Qed.

  Let Fw : length w = m /\ forall l, (l < m)%nat ->
      nth l (k_s k) 0 * nth l (k_z_inv k) 0 + k_delta k <> 0 /\
      nth l w 0 = 1 / (nth l (k_s k) 0 * nth l (k_z_inv k) 0 + k_delta k).
  Proof. destruct (w_spec _ _ _ _ Hw ltac:(nlia)) as [H1 H2]. rewrite Ls in H1, H2. split; assumption. Qed.

  Let Fwlb : length wlb = nlb /\ forall i, (i < nlb)%nat ->
      nth i (k_s_lb k) 0 * nth i (k_z_lb_inv k) 0 + k_delta k <> 0 /\
      nth i wlb 0 = 1 / (nth i (k_s_lb k) 0 * nth i (k_z_lb_inv k) 0 + k_delta k).
  Proof.
    destruct (w_spec _ _ _ _ Hwlb ltac:(nlia)) as [H1 H2]. rewrite Lslb in H1, H2. split; [assumption|].
    intros i Hi. specialize (H2 i Hi). rewrite !nth_head in H2 by assumption. exact H2.
  Qed.

  Let Fwub : length wub = nub /\ forall i, (i < nub)%nat ->
      nth i (k_s_ub k) 0 * nth i (k_z_ub_inv k) 0 + k_delta k <> 0 /\
      nth i wub 0 = 1 / (nth i (k_s_ub k) 0 * nth i (k_z_ub_inv k) 0 + k_delta k).
  Proof.
    destruct (w_spec _ _ _ _ Hwub ltac:(nlia)) as [H1 H2]. rewrite Lsub in H1, H2. split; [assumption|].
    intros i Hi. specialize (H2 i Hi). rewrite !nth_head in H2 by assumption. exact H2.
  Qed.

  Let Lw : length w = m. Proof. apply Fw. Qed.
  Let Lwlb : length wlb = nlb. Proof. apply Fwlb. Qed.
  Let Lwub : length wub = nub. Proof. apply Fwub. Qed.

  Lemma e_rzbar_length : length e_rzbar = m.
  Proof. unfold e_rzbar. rewrite !vmul_length, vsub_length, vmul_length. nlia. Qed.
  Lemma e_tlb_length : length e_tlb = nlb.
  Proof. unfold e_tlb. rewrite !vmul_length, vsub_length, vmul_length. nlia. Qed.
  Lemma e_tub_length : length e_tub = nub.
  Proof. unfold e_tub. rewrite !vmul_length, vsub_length, vmul_length. nlia. Qed.
  Lemma e_r1_length : length e_r1 = n.
  Proof.
    unfold e_r1. rewrite !vadd_length, vscale_length, !mat_vec_length by assumption. nlia.
  Qed.

  Let Fr2 := scatter_with_ok Qcminus Qcopp (fun a x => eq_refl) _ _ _ _ Hr2.
  Let Frhs := scatter_with_ok Qcplus (fun x => x) (fun a x => eq_refl) _ _ _ _ Hrhs.
  Let Fxlb := gather_ok _ _ _ Hxlb.
  Let Fxub := gather_ok _ _ _ Hxub.

  Lemma lbidx_lt i : (i < nlb)%nat -> (nth i (d_lb_idx d) O < n)%nat.
  Proof. intros Hi. destruct Fr2 as (_ & _ & H & _). rewrite <- e_r1_length. apply H. assumption. Qed.
  Lemma ubidx_lt i : (i < nub)%nat -> (nth i (d_ub_idx d) O < n)%nat.
  Proof.
    intros Hi. destruct Frhs as (_ & _ & H & _). destruct Fr2 as (L & _).
    rewrite <- e_r1_length, <- L. apply H. assumption.
  Qed.
  Lemma r2_length : length r2 = n.
  Proof. destruct Fr2 as (L & _). rewrite L. apply e_r1_length. Qed.
  Lemma rhs_length : length rhs = n.
  Proof. destruct Frhs as (L & _). rewrite L. apply r2_length. Qed.
  Lemma xlb_length : length xlb = nlb. Proof. apply Fxlb. Qed.
  Lemma xub_length : length xub = nub. Proof. apply Fxub. Qed.
  Lemma nth_xlb i : (i < nlb)%nat -> nth i xlb 0 = nth (nth i (d_lb_idx d) O) sol 0.
  Proof. intros Hi. apply Fxlb. assumption. Qed.
  Lemma nth_xub i : (i < nub)%nat -> nth i xub 0 = nth (nth i (d_ub_idx d) O) sol 0.
  Proof. intros Hi. apply Fxub. assumption. Qed.

  Lemma e_dy_length : length e_dy = p.
  Proof. unfold e_dy. rewrite vsub_length, !vscale_length, matT_vec_length. nlia. Qed.
  Lemma e_dz_length : length e_dz = m.
  Proof. unfold e_dz. rewrite vsub_length, vmul_length, matT_vec_length, e_rzbar_length. nlia. Qed.
  Lemma e_dzlb_length : length e_dzlb = nlb.
  Proof.
    unfold e_dzlb. rewrite vmul_length, vadd_length, vsub_length, vneg_length, !vmul_length, xlb_length. nlia.
  Qed.
  Lemma e_dzub_length : length e_dzub = nub.
  Proof.
    unfold e_dzub. rewrite vmul_length, vadd_length, vsub_length, !vmul_length, xub_length. nlia.
  Qed.
  Lemma e_ds_length : length e_ds = m.
  Proof. unfold e_ds. rewrite vmul_length, vsub_length, vmul_length, e_dz_length. nlia. Qed.
  Lemma e_dslb_length : length e_dslb = nlb.
  Proof. unfold e_dslb. rewrite vmul_length, vsub_length, vmul_length, e_dzlb_length. nlia. Qed.
  Lemma e_dsub_length : length e_dsub = nub.
  Proof. unfold e_dsub. rewrite vmul_length, vsub_length, vmul_length, e_dzub_length. nlia. Qed.

  (* --- denotations (L1 -> L2) *)
  Lemma nth_e_rzbar l : (l < m)%nat -> nth l e_rzbar 0 = a_rzbar Y l.
  Proof.
    intros Hl. unfold e_rzbar. rewrite nth_vmul, nth_vsub, nth_vmul by (rewrite vmul_length; nlia).
    destruct (proj2 Fw l Hl) as [_ ->]. reflexivity.
  Qed.

  Lemma nth_e_tlb i : (i < nlb)%nat -> nth i e_tlb 0 = a_tlb Y i.
  Proof.
    intros Hi. unfold e_tlb. rewrite !nth_vmul, nth_vsub, nth_vmul by (rewrite vmul_length; nlia).
    rewrite !nth_head by assumption. destruct (proj2 Fwlb i Hi) as [_ ->]. reflexivity.
  Qed.

  Lemma nth_e_tub i : (i < nub)%nat -> nth i e_tub 0 = a_tub Y i.
  Proof.
    intros Hi. unfold e_tub. rewrite !nth_vmul, nth_vsub, nth_vmul by (rewrite vmul_length; nlia).
    rewrite !nth_head by assumption. destruct (proj2 Fwub i Hi) as [_ ->]. reflexivity.
  Qed.

  Lemma dotT_sum (M : Mat) l : Forall (fun c => length c = n) M ->
    dot (nth l M []) sol = sum n (fun j => mentry M j l * nth j sol 0).
  Proof. intros HM. rewrite (dot_sum _ _ n) by nlia. reflexivity. Qed.

  Lemma nth_e_dy l : nth l e_dy 0 = a_dy Y (fv sol) l.
  Proof.
    unfold e_dy. rewrite nth_vsub, !nth_vscale, nth_matT_vec by (rewrite !vscale_length, matT_vec_length; nlia).
    rewrite dotT_sum by assumption. rewrite (proj2 Fdelta). reflexivity.
  Qed.

  Lemma nth_e_dz l : (l < m)%nat -> nth l e_dz 0 = a_dz Y (fv sol) l.
  Proof.
    intros Hl. unfold e_dz.
    rewrite nth_vsub, nth_vmul, nth_matT_vec by (rewrite vmul_length, matT_vec_length, e_rzbar_length; nlia).
    rewrite dotT_sum by assumption. rewrite nth_e_rzbar by assumption.
    destruct (proj2 Fw l Hl) as [_ ->]. reflexivity.
  Qed.

  Lemma nth_e_dzlb i : (i < nlb)%nat -> nth i e_dzlb 0 = a_dzlb Y (fv sol) i.
  Proof.
    intros Hi. unfold e_dzlb.
    rewrite nth_vmul, nth_vadd, nth_vsub, nth_vneg, !nth_vmul
      by (rewrite ?vsub_length, ?vneg_length, ?vmul_length, ?xlb_length; nlia).
    rewrite !nth_head, nth_xlb by assumption. destruct (proj2 Fwlb i Hi) as [_ ->]. reflexivity.
  Qed.

  Lemma nth_e_dzub i : (i < nub)%nat -> nth i e_dzub 0 = a_dzub Y (fv sol) i.
  Proof.
    intros Hi. unfold e_dzub.
    rewrite nth_vmul, nth_vadd, nth_vsub, !nth_vmul
      by (rewrite ?vsub_length, ?vmul_length, ?xub_length; nlia).
    rewrite !nth_head, nth_xub by assumption. destruct (proj2 Fwub i Hi) as [_ ->]. reflexivity.
  Qed.

  Lemma nth_rhs i : nth i rhs 0 = a_rhs Y i.
  Proof.
    destruct Frhs as (_ & _ & _ & H2). destruct Fr2 as (_ & _ & _ & H1). rewrite H2, H1.
    unfold e_r1. rewrite !nth_vadd, nth_vscale, !nth_mat_vec
      by first [assumption | rewrite ?vadd_length, ?vscale_length, ?mat_vec_length by assumption; nlia].
    rewrite HG1, HA1. unfold a_rhs. cbn [y_m y_p y_nlb y_nub y_rx y_ry y_GT y_AT y_lbidx y_ubidx sys_of].
    rewrite (proj2 Fdelta). unfold a_dinv. cbn [y_delta sys_of]. unfold Qcminus.
    apply (f_equal2 Qcplus); [apply (f_equal2 Qcplus); [apply (f_equal2 Qcplus); [apply (f_equal2 Qcplus); [reflexivity|] | reflexivity] | ] | ].
    - apply sum_ext. intros l Hl. rewrite nth_e_rzbar by assumption. reflexivity.
    - rewrite <- sum_opp. apply sum_ext. intros i0 Hi0. unfold fidx. destruct (Nat.eqb _ i); [|qring].
      rewrite nth_e_tlb by assumption. reflexivity.
    - apply sum_ext. intros i0 Hi0. unfold fidx. destruct (Nat.eqb _ i); [|reflexivity].
      rewrite nth_e_tub by assumption. reflexivity.
  Qed.

  (* the reduced system holds for sol, in L2 form *)
  Lemma reduced_system i : (i < n)%nat -> sum n (fun j => a_Kred Y i j * fv sol j) = a_rhs Y i.
  Proof.
    intros Hi. rewrite <- nth_rhs, <- Hsol. rewrite nth_lower_sym_mul by nlia. rewrite Lmat.
    apply sum_ext. intros j Hj. rewrite HK by assumption. reflexivity.
  Qed.

  (* --- non-zero hypotheses of the algebra section *)
  Let A_delta : y_delta Y <> 0. Proof. apply Fdelta. Qed.
  Let A_zinv : forall l, (l < y_m Y)%nat -> y_zinv Y l <> 0. Proof. exact Nzinv. Qed.
  Let A_w : forall l, (l < y_m Y)%nat -> y_s Y l * y_zinv Y l + y_delta Y <> 0.
  Proof. intros l Hl. apply (proj2 Fw l Hl). Qed.
  Let A_zli : forall i, (i < y_nlb Y)%nat -> y_zli Y i <> 0. Proof. exact Nzli. Qed.
  Let A_wlb : forall i, (i < y_nlb Y)%nat -> y_slb Y i * y_zli Y i + y_delta Y <> 0.
  Proof. intros i Hi. apply (proj2 Fwlb i Hi). Qed.
  Let A_zui : forall i, (i < y_nub Y)%nat -> y_zui Y i <> 0. Proof. exact Nzui. Qed.
  Let A_wub : forall i, (i < y_nub Y)%nat -> y_sub Y i * y_zui Y i + y_delta Y <> 0.
  Proof. intros i Hi. apply (proj2 Fwub i Hi). Qed.

  Theorem multiply_solve_core :
    kkt_multiply d k e_step
    = Ok {| st_x := rx; st_y := ry; st_z := rz; st_z_lb := rzlb; st_z_ub := rzub;
            st_s := rs; st_s_lb := rslb; st_s_ub := rsub |}.
  Proof.
    unfold kkt_multiply. cbv zeta. unfold e_step. cbn [st_x st_y st_z st_z_lb st_z_ub st_s st_s_lb st_s_ub].
    set (r0 := vadd (vadd (Psym_mul d sol) (vscale (k_rho k) sol))
                    (vadd (mat_vec n (d_AT d) e_dy) (mat_vec n (d_GT d) e_dz))).
    assert (Lr0 : length r0 = n).
    { unfold r0. rewrite !vadd_length, vscale_length, Psym_mul_length, !mat_vec_length by assumption. nlia. }
    destruct (scatter_with_exists Qcminus (d_lb_idx d) r0 (vmul lbs e_dzlb)) as [r1' Hr1'].
    { rewrite vmul_length, e_dzlb_length, Llbs. unfold d_nlb. nlia. }
    { intros i Hi. pose proof (lbidx_lt i Hi). nlia. }
    rewrite Hr1'. cbn [bind].
    pose proof (scatter_with_ok Qcminus Qcopp (fun a x => eq_refl) _ _ _ _ Hr1') as (Lr1' & _ & _ & Nr1').
    destruct (scatter_with_exists Qcplus (d_ub_idx d) r1' (vmul ubs e_dzub)) as [rx' Hrx'].
    { rewrite vmul_length, e_dzub_length, Lubs. unfold d_nub. nlia. }
    { intros i Hi. pose proof (ubidx_lt i Hi). nlia. }
    rewrite Hrx'. cbn [bind].
    pose proof (scatter_with_ok Qcplus (fun x => x) (fun a x => eq_refl) _ _ _ _ Hrx') as (Lrx' & _ & _ & Nrx').
    rewrite Hxlb, Hxub. cbn [bind].
    destruct (vinv_exists (k_z_inv k)) as [z Hz].
    { intros x Hx. apply (In_nth _ _ 0) in Hx as (l & Hl & <-). apply Nzinv. nlia. }
    destruct (vinv_exists zli) as [zlb Hzlb].
    { intros x Hx. apply (In_nth _ _ 0) in Hx as (l & Hl & <-). assert (Hl' : (l < nlb)%nat) by nlia.
      rewrite nth_head by assumption. apply Nzli. assumption. }
    destruct (vinv_exists zui) as [zub Hzub].
    { intros x Hx. apply (In_nth _ _ 0) in Hx as (l & Hl & <-). assert (Hl' : (l < nub)%nat) by nlia.
      rewrite nth_head by assumption. apply Nzui. assumption. }
    rewrite Hz, Hzlb, Hzub. cbn [bind].
    apply vinv_ok in Hz as [Lz Nz]. apply vinv_ok in Hzlb as [Lzlb Nzlb]. apply vinv_ok in Hzub as [Lzub Nzub].
    pose proof e_dy_length as Ldy. pose proof e_dz_length as Ldz. pose proof e_dzlb_length as Ldzlb.
    pose proof e_dzub_length as Ldzub. pose proof e_ds_length as Lds. pose proof e_dslb_length as Ldslb.
    pose proof e_dsub_length as Ldsub. pose proof xlb_length as Lxlb. pose proof xub_length as Lxub.
    f_equal. f_equal.
    - (* x row *)
      apply vec_ext; [nlia|]. rewrite Lrx', Lr1', Lr0. intros i Hi.
      transitivity (a_row_x Y (fv sol) i); [|exact (alg_row_x Y (fv sol) i Hi (reduced_system i Hi))].
      rewrite Nrx', Nr1'. unfold r0.
      rewrite !nth_vadd, nth_vscale, !nth_mat_vec, nth_Psym_mul
        by first [assumption | rewrite ?vadd_length, ?vscale_length, ?Psym_mul_length, ?mat_vec_length by assumption; nlia].
      rewrite HA1, HG1. unfold a_row_x.
      cbn [y_n y_p y_m y_nlb y_nub y_Psym y_rho y_AT y_GT y_lbidx y_ubidx y_lbs y_ubs sys_of].
      unfold Qcminus.
      apply (f_equal2 Qcplus); [apply (f_equal2 Qcplus); [apply (f_equal2 Qcplus); [reflexivity | apply (f_equal2 Qcplus)] | ] | ].
      + apply sum_ext. intros l Hl. rewrite nth_e_dy. reflexivity.
      + apply sum_ext. intros l Hl. rewrite nth_e_dz by assumption. reflexivity.
      + rewrite <- sum_opp. apply sum_ext. intros i0 Hi0. unfold fidx. destruct (Nat.eqb _ i); [|qring].
        rewrite nth_vmul, nth_head, nth_e_dzlb by assumption. reflexivity.
      + apply sum_ext. intros i0 Hi0. unfold fidx. destruct (Nat.eqb _ i); [|reflexivity].
        rewrite nth_vmul, nth_head, nth_e_dzub by assumption. reflexivity.
    - (* y row *)
      apply vec_ext; [rewrite vsub_length, vscale_length, matT_vec_length; nlia|].
      rewrite vsub_length, vscale_length, matT_vec_length, HA1, Ldy, Nat.min_id. intros l Hl.
      rewrite nth_vsub, nth_vscale, nth_matT_vec by (rewrite vscale_length, matT_vec_length; nlia).
      rewrite dotT_sum by assumption. rewrite nth_e_dy.
      exact (alg_row_y Y (fv sol) A_delta l).
    - (* z row *)
      apply vec_ext; [rewrite vadd_length, vsub_length, vscale_length, matT_vec_length; nlia|].
      rewrite vadd_length, vsub_length, vscale_length, matT_vec_length, HG1, Ldz, Lds, !Nat.min_id. intros l Hl.
      rewrite nth_vadd, nth_vsub, nth_vscale, nth_matT_vec
        by (rewrite ?vsub_length, ?vscale_length, ?matT_vec_length; nlia).
      rewrite dotT_sum by assumption. unfold e_ds.
      rewrite nth_vmul, nth_vsub, nth_vmul by (rewrite vmul_length; nlia).
      rewrite nth_e_dz by assumption.
      exact (alg_row_z Y (fv sol) A_w l Hl).
    - (* z_lb row *)
      apply vec_ext; [rewrite vadd_length, vsub_length, vneg_length, vscale_length, vmul_length; nlia|].
      rewrite vadd_length, vsub_length, vneg_length, vscale_length, vmul_length, Llbs, Lxlb, Ldzlb, Ldslb, !Nat.min_id.
      intros i Hi.
      rewrite nth_vadd, nth_vsub, nth_vneg, nth_vscale, nth_vmul
        by (rewrite ?vsub_length, ?vneg_length, ?vscale_length, ?vmul_length; nlia).
      unfold e_dslb. rewrite nth_vmul, nth_vsub, nth_vmul by (rewrite vmul_length; nlia).
      rewrite !nth_head, nth_xlb, nth_e_dzlb by assumption.
      exact (alg_row_zlb Y (fv sol) A_wlb i Hi).
    - (* z_ub row *)
      apply vec_ext; [rewrite vadd_length, vsub_length, vscale_length, vmul_length; nlia|].
      rewrite vadd_length, vsub_length, vscale_length, vmul_length, Lubs, Lxub, Ldzub, Ldsub, !Nat.min_id.
      intros i Hi.
      rewrite nth_vadd, nth_vsub, nth_vscale, nth_vmul
        by (rewrite ?vsub_length, ?vscale_length, ?vmul_length; nlia).
      unfold e_dsub. rewrite nth_vmul, nth_vsub, nth_vmul by (rewrite vmul_length; nlia).
      rewrite !nth_head, nth_xub, nth_e_dzub by assumption.
      exact (alg_row_zub Y (fv sol) A_wub i Hi).
    - (* s row *)
      apply vec_ext; [rewrite vadd_length, !vmul_length; nlia|].
      rewrite vadd_length, !vmul_length, Ls, Ldz, Lz, Lzinv, Lds, !Nat.min_id. intros l Hl.
      rewrite nth_vadd, !nth_vmul by (rewrite !vmul_length; nlia).
      destruct (Nz l ltac:(nlia)) as [_ ->]. unfold e_ds.
      rewrite nth_vmul, nth_vsub, nth_vmul by (rewrite vmul_length; nlia).
      rewrite nth_e_dz by assumption.
      exact (alg_row_s Y (fv sol) A_zinv l Hl).
    - (* s_lb row *)
      apply vec_ext; [rewrite vadd_length, !vmul_length; nlia|].
      rewrite vadd_length, !vmul_length, Lslb, Ldzlb, Lzlb, Lzli, Ldslb, !Nat.min_id. intros i Hi.
      rewrite nth_vadd, !nth_vmul by (rewrite !vmul_length; nlia).
      destruct (Nzlb i ltac:(nlia)) as [_ ->]. unfold e_dslb.
      rewrite nth_vmul, nth_vsub, nth_vmul by (rewrite vmul_length; nlia).
      rewrite !nth_head, nth_e_dzlb by assumption.
      exact (alg_row_slb Y (fv sol) A_zli i Hi).
    - (* s_ub row *)
      apply vec_ext; [rewrite vadd_length, !vmul_length; nlia|].
      rewrite vadd_length, !vmul_length, Lsub, Ldzub, Lzub, Lzui, Ldsub, !Nat.min_id. intros i Hi.
      rewrite nth_vadd, !nth_vmul by (rewrite !vmul_length; nlia).
      destruct (Nzub i ltac:(nlia)) as [_ ->]. unfold e_dsub.
      rewrite nth_vmul, nth_vsub, nth_vmul by (rewrite vmul_length; nlia).
      rewrite !nth_head, nth_e_dzub by assumption.
      exact (alg_row_sub Y (fv sol) A_zui i Hi).
  Qed.
End Exact.

Definition wf_rhs (d : Data) (rx ry rz rzlb rzub rs rslb rsub : Vec) : Prop :=
  length rx = d_n d /\ length ry = d_p d /\ length rz = d_m d /\
  length rzlb = d_nlb d /\ length rzub = d_nub d /\
  length rs = d_m d /\ length rslb = d_nlb d /\ length rsub = d_nub d.

(* all scalings (and delta) strictly positive; only the first n_lb / n_ub box entries are constrained *)
Definition pos_scal (d : Data) (k : KKT) : Prop :=
  0 < k_delta k /\
  (forall l, (l < d_m d)%nat -> 0 < nth l (k_s k) 0 /\ 0 < nth l (k_z_inv k) 0) /\
  (forall i, (i < d_nlb d)%nat -> 0 < nth i (k_s_lb k) 0 /\ 0 < nth i (k_z_lb_inv k) 0) /\
  (forall i, (i < d_nub d)%nat -> 0 < nth i (k_s_ub k) 0 /\ 0 < nth i (k_z_ub_inv k) 0).

(* T1a, general form: any state whose k_mat denotes K_red and whose factorisation is that of k_mat;
   only z_inv <> 0 is needed (the other denominators are checked by the model's divisions) *)
Theorem kkt_solve_exact_dense_gen (S : Settings) d k f rx ry rz rzlb rzub rs rslb rsub step :
  wf_data d -> wf_scal d k -> wf_rhs d rx ry rz rzlb rzub rs rslb rsub ->
  (forall l, (l < d_m d)%nat -> nth l (k_z_inv k) 0 <> 0) ->
  (forall i, (i < d_nlb d)%nat -> nth i (k_z_lb_inv k) 0 <> 0) ->
  (forall i, (i < d_nub d)%nat -> nth i (k_z_ub_inv k) 0 <> 0) ->
  length (k_mat k) = d_n d -> wf_lower (k_mat k) ->
  (forall i j, (i < d_n d)%nat -> (j < d_n d)%nat -> Asym (k_mat k) i j = Kred_of d k i j) ->
  llt_compute (k_mat k) = Ok (Some f) -> k_fact k = Some f ->
  kkt_solve S d k false rx ry rz rzlb rzub rs rslb rsub = Ok step ->
  kkt_multiply d k step
  = Ok {| st_x := rx; st_y := ry; st_z := rz; st_z_lb := rzlb; st_z_ub := rzub;
          st_s := rs; st_s_lb := rslb; st_s_ub := rsub |}.
Proof.
  intros Hd Hk (Lrx & Lry & Lrz & Lrzlb & Lrzub & Lrs & Lrslb & Lrsub) Nz Nzl Nzu Lmat Hwf HK Hc Hf H.
  unfold kkt_solve in H. cbv zeta in H.
  apply bind_ok in H as (dinv & Hdinv & H).
  apply bind_ok in H as (w & Hw & H).
  apply bind_ok in H as (wlb & Hwlb & H).
  apply bind_ok in H as (wub & Hwub & H).
  apply bind_ok in H as (r2 & Hr2 & H).
  apply bind_ok in H as (rhs & Hrhs & H).
  apply bind_ok in H as (sol0 & Hsol0 & H).
  cbn [andb bind] in H.
  apply bind_ok in H as (xlb & Hxlb & H).
  apply bind_ok in H as (xub & Hxub & H).
  injection H as <-.
  assert (Lrhs : length rhs = d_n d).
  { pose proof (scatter_with_ok Qcplus (fun x => x) (fun a x => eq_refl) _ _ _ _ Hrhs) as (L1 & _).
    pose proof (scatter_with_ok Qcminus Qcopp (fun a x => eq_refl) _ _ _ _ Hr2) as (L2 & _).
    eapply eq_trans; [exact L1|]. eapply eq_trans; [exact L2|]. destruct Hd as (_ & _ & _ & HA2 & _ & HG2 & _).
    rewrite !vadd_length, vscale_length, !mat_vec_length by assumption. nlia. }
  unfold solve_ldlt in Hsol0. rewrite Hf in Hsol0.
  destruct (llt_solve_correct (k_mat k) f rhs Hwf Hc ltac:(nlia)) as (x & Hx & Lx & Hmul).
  rewrite Hx in Hsol0. injection Hsol0 as ->.
  exact (multiply_solve_core d k rx ry rz rzlb rzub rs rslb rsub Hd Hk Lrx Lry Lrz Lrzlb Lrzub Lrs Lrslb Lrsub
           dinv w wlb wub Hdinv Hw Hwlb Hwub Nz Nzl Nzu r2 rhs sol0 xlb xub Hr2 Hrhs ltac:(nlia) Lmat HK Hmul Hxlb Hxub).
Qed.

(* T1a: state produced by update_kkt, factorisation = llt_compute of its matrix, positive scalings *)
Theorem kkt_solve_exact_dense (S : Settings) d k0 k f rx ry rz rzlb rzub rs rslb rsub step :
  wf_data d -> wf_scal d k0 -> pos_scal d k0 ->
  ((0 < d_p d)%nat -> k_ATA k0 = compute_ATA d) ->
  update_kkt d k0 = Ok k ->
  llt_compute (k_mat k) = Ok (Some f) ->
  wf_rhs d rx ry rz rzlb rzub rs rslb rsub ->
  kkt_solve S d (k <| k_fact := Some f |>) false rx ry rz rzlb rzub rs rslb rsub = Ok step ->
  kkt_multiply d (k <| k_fact := Some f |>) step
  = Ok {| st_x := rx; st_y := ry; st_z := rz; st_z_lb := rzlb; st_z_ub := rzub;
          st_s := rs; st_s_lb := rslb; st_s_ub := rsub |}.
Proof.
  intros Hd Hk (Pd & Pz & Pl & Pu) HATA Hupd Hc Hrhs H.
  destruct (update_kkt_denotes_Kred d k0 k Hd Hk HATA Hupd) as (Ek & Lmat & Hwf & HK).
  destruct (set_k_fact_proj k (Some f)) as (F1 & F2 & F3 & F4 & F5 & F6 & F7 & F8 & F9 & F10 & F11).
  destruct (set_k_mat_proj k0 (k_mat k)) as (M1 & M2 & M3 & M4 & M5 & M6 & M7 & M8 & M9 & M10 & M11).
  rewrite <- Ek in M2, M3, M4, M5, M6, M7, M8, M9.
  set (k' := k <| k_fact := Some f |>) in *.
  assert (Ez : k_z_inv k' = k_z_inv k0) by congruence.
  assert (Ezl : k_z_lb_inv k' = k_z_lb_inv k0) by congruence.
  assert (Ezu : k_z_ub_inv k' = k_z_ub_inv k0) by congruence.
  assert (Hk' : wf_scal d k').
  { destruct Hk as (H1 & H2 & H3 & H4 & H5 & H6). unfold wf_scal.
    rewrite F4, F5, F6, F7, F8, F9, M4, M5, M6, M7, M8, M9. repeat split; assumption. }
  assert (N1 : forall l, (l < d_m d)%nat -> nth l (k_z_inv k') 0 <> 0).
  { intros l Hl. rewrite Ez. apply Qclt_neq0. apply Pz. assumption. }
  assert (N2 : forall i, (i < d_nlb d)%nat -> nth i (k_z_lb_inv k') 0 <> 0).
  { intros i Hi. rewrite Ezl. apply Qclt_neq0. apply Pl. assumption. }
  assert (N3 : forall i, (i < d_nub d)%nat -> nth i (k_z_ub_inv k') 0 <> 0).
  { intros i Hi. rewrite Ezu. apply Qclt_neq0. apply Pu. assumption. }
  assert (HK' : forall i j, (i < d_n d)%nat -> (j < d_n d)%nat -> Asym (k_mat k') i j = Kred_of d k' i j).
  { rewrite F1. intros i j Hi Hj. rewrite HK by assumption. symmetry.
    rewrite (Kred_of_ext d k0 k') by congruence. reflexivity. }
  exact (kkt_solve_exact_dense_gen S d k' f _ _ _ _ _ _ _ _ step Hd Hk' Hrhs N1 N2 N3 Lmat Hwf HK' Hc F11 H).
Qed.

(* kkt_solve does not fail: positive scalings, bound indices in range, successful factorisation *)
Lemma pos_den_list delta a b : 0 < delta -> length a = length b ->
  (forall l, (l < length a)%nat -> 0 < nth l a 0 /\ 0 < nth l b 0) ->
  forall x, In x (vaddc delta (vmul a b)) -> x <> 0.
Proof.
  intros Hd Hab Hpos x Hx. apply (In_nth _ _ 0) in Hx as (l & Hl & <-).
  assert (Hl' : (l < length a)%nat) by (rewrite vaddc_length, vmul_length in Hl; nlia).
  rewrite nth_vaddc, nth_vmul by (rewrite vmul_length; nlia).
  apply Qclt_neq0. apply Qc_add_pos; [apply Qc_mul_pos; apply Hpos; assumption | assumption].
Qed.

Theorem kkt_solve_no_err (S : Settings) d k f rx ry rz rzlb rzub rs rslb rsub :
  wf_data d -> wf_scal d k -> wf_rhs d rx ry rz rzlb rzub rs rslb rsub -> pos_scal d k ->
  (forall i, (i < d_nlb d)%nat -> (nth i (d_lb_idx d) O < d_n d)%nat) ->
  (forall i, (i < d_nub d)%nat -> (nth i (d_ub_idx d) O < d_n d)%nat) ->
  length (k_mat k) = d_n d -> wf_lower (k_mat k) ->
  llt_compute (k_mat k) = Ok (Some f) -> k_fact k = Some f ->
  exists step, kkt_solve S d k false rx ry rz rzlb rzub rs rslb rsub = Ok step.
Proof.
  intros Hd Hk (Lrx & Lry & Lrz & Lrzlb & Lrzub & Lrs & Lrslb & Lrsub) (Pd & Pz & Pl & Pu) Ilb Iub Lmat Hwf Hc Hf.
  destruct Hd as (HP1 & HP2 & HA1 & HA2 & HG1 & HG2 & Hlbs & Hubs & HPlow).
  destruct Hk as (Ls & Lzinv & Lslb & Lzli & Lsub & Lzui).
  unfold kkt_solve. cbv zeta.
  unfold qinv at 1. rewrite qdiv_nz by (apply Qclt_neq0; assumption). cbn [bind].
  destruct (vinv_exists (vaddc (k_delta k) (vmul (k_s k) (k_z_inv k)))) as [w Hw].
  { apply pos_den_list; [assumption | nlia |]. intros l Hl. apply Pz. nlia. }
  rewrite Hw. cbn [bind]. apply vinv_ok in Hw as [Lw _].
  rewrite vaddc_length, vmul_length in Lw.
  destruct (vinv_exists (vaddc (k_delta k) (vmul (head (d_nlb d) (k_s_lb k)) (head (d_nlb d) (k_z_lb_inv k))))) as [wlb Hwlb].
  { apply pos_den_list; [assumption | rewrite !head_length by assumption; reflexivity |].
    intros l Hl. rewrite head_length in Hl by assumption. rewrite !nth_head by assumption. apply Pl. assumption. }
  rewrite Hwlb. cbn [bind]. apply vinv_ok in Hwlb as [Lwlb _].
  rewrite vaddc_length, vmul_length, !head_length in Lwlb by assumption.
  destruct (vinv_exists (vaddc (k_delta k) (vmul (head (d_nub d) (k_s_ub k)) (head (d_nub d) (k_z_ub_inv k))))) as [wub Hwub].
  { apply pos_den_list; [assumption | rewrite !head_length by assumption; reflexivity |].
    intros l Hl. rewrite head_length in Hl by assumption. rewrite !nth_head by assumption. apply Pu. assumption. }
  rewrite Hwub. cbn [bind]. apply vinv_ok in Hwub as [Lwub _].
  rewrite vaddc_length, vmul_length, !head_length in Lwub by assumption.
  match goal with |- context [scatter_with Qcminus ?r1 ?idx ?t] =>
    destruct (scatter_with_exists Qcminus idx r1 t) as [r2 Hr2] end.
  { rewrite !vmul_length, vsub_length, vmul_length, !head_length by assumption. unfold d_nlb in *. nlia. }
  { intros i Hi. rewrite !vadd_length, vscale_length, !mat_vec_length by assumption.
    specialize (Ilb i Hi). nlia. }
  rewrite Hr2. cbn [bind].
  pose proof (scatter_with_ok Qcminus Qcopp (fun a x => eq_refl) _ _ _ _ Hr2) as (Lr2 & _).
  rewrite !vadd_length, vscale_length, !mat_vec_length in Lr2 by assumption.
  match goal with |- context [scatter_with Qcplus r2 ?idx ?t] =>
    destruct (scatter_with_exists Qcplus idx r2 t) as [rhs Hrhs] end.
  { rewrite !vmul_length, vsub_length, vmul_length, !head_length by assumption. unfold d_nub in *. nlia. }
  { intros i Hi. specialize (Iub i Hi). nlia. }
  rewrite Hrhs. cbn [bind].
  pose proof (scatter_with_ok Qcplus (fun x => x) (fun a x => eq_refl) _ _ _ _ Hrhs) as (Lrhs & _).
  unfold solve_ldlt. rewrite Hf.
  destruct (llt_solve_correct (k_mat k) f rhs Hwf Hc ltac:(nlia)) as (x & Hx & Lx & _).
  rewrite Hx. cbn [andb bind].
  destruct (gather_exists x (d_lb_idx d)) as [xlb Hxlb]. { intros i Hi. specialize (Ilb i Hi). nlia. }
  destruct (gather_exists x (d_ub_idx d)) as [xub Hxub]. { intros i Hi. specialize (Iub i Hi). nlia. }
  rewrite Hxlb, Hxub. cbn [bind]. eexists. reflexivity.
Qed.

(* the same, phrased with the model's regularize_and_factorize (refinement off => rho_reg = 0, no fault) *)
Lemma map_combine_seq_id {A} (h : nat -> A -> A) (l : list A) s :
  (forall i x, h i x = x) -> map (fun p => h (fst p) (snd p)) (combine (seq s (length l)) l) = l.
Proof.
  intros Hh. revert s. induction l as [|x l IH]; intros s; cbn; [reflexivity|].
  rewrite Hh, IH. reflexivity.
Qed.

Lemma regularize_off (S : Settings) d k k' ok :
  regularize_and_factorize S d k false false = Ok (k', ok) ->
  (ok = true -> exists f, llt_compute (k_mat k) = Ok (Some f) /\ k' = k <| k_fact := Some f |>) /\
  (ok = false -> llt_compute (k_mat k) = Ok None /\ k' = k <| k_fact := None |>).
Proof.
  unfold regularize_and_factorize. cbv zeta.
  rewrite (map_combine_seq_id (fun i (row : Vec) =>
             map (fun jv => if Nat.eqb (fst jv) i then snd jv + 0 else snd jv) (combine (seq 0 (length row)) row))).
  2:{ intros i row. apply (map_combine_seq_id (fun j x => if Nat.eqb j i then x + 0 else x)).
      intros j x. destruct (Nat.eqb j i); [apply Qcplus_0_r | reflexivity]. }
  intros H. apply bind_ok in H as (o & Ho & H). destruct o as [f|]; injection H as <- <-.
  - split; [|discriminate]. intros _. exists f. split; [assumption|reflexivity].
  - split; [discriminate|]. intros _. split; [assumption|reflexivity].
Qed.

Theorem kkt_solve_exact_dense_factorized (S : Settings) d k0 k k' rx ry rz rzlb rzub rs rslb rsub step :
  wf_data d -> wf_scal d k0 -> pos_scal d k0 ->
  ((0 < d_p d)%nat -> k_ATA k0 = compute_ATA d) ->
  update_kkt d k0 = Ok k ->
  regularize_and_factorize S d k false false = Ok (k', true) ->
  wf_rhs d rx ry rz rzlb rzub rs rslb rsub ->
  kkt_solve S d k' false rx ry rz rzlb rzub rs rslb rsub = Ok step ->
  kkt_multiply d k' step
  = Ok {| st_x := rx; st_y := ry; st_z := rz; st_z_lb := rzlb; st_z_ub := rzub;
          st_s := rs; st_s_lb := rslb; st_s_ub := rsub |}.
Proof.
  intros Hd Hk Hp HATA Hupd Hfac Hrhs H.
  apply regularize_off in Hfac as [Hf _]. destruct (Hf eq_refl) as (f & Hc & ->).
  eapply kkt_solve_exact_dense; eassumption.
Qed.

(* T1a in total form: solve succeeds and multiply gives back the right-hand side *)
Theorem kkt_solve_exact_dense_total (S : Settings) d k0 k f rx ry rz rzlb rzub rs rslb rsub :
  wf_data d -> wf_scal d k0 -> pos_scal d k0 ->
  ((0 < d_p d)%nat -> k_ATA k0 = compute_ATA d) ->
  (forall i, (i < d_nlb d)%nat -> (nth i (d_lb_idx d) O < d_n d)%nat) ->
  (forall i, (i < d_nub d)%nat -> (nth i (d_ub_idx d) O < d_n d)%nat) ->
  update_kkt d k0 = Ok k ->
  llt_compute (k_mat k) = Ok (Some f) ->
  wf_rhs d rx ry rz rzlb rzub rs rslb rsub ->
  exists step,
    kkt_solve S d (k <| k_fact := Some f |>) false rx ry rz rzlb rzub rs rslb rsub = Ok step /\
    kkt_multiply d (k <| k_fact := Some f |>) step
    = Ok {| st_x := rx; st_y := ry; st_z := rz; st_z_lb := rzlb; st_z_ub := rzub;
            st_s := rs; st_s_lb := rslb; st_s_ub := rsub |}.
Proof.
  intros Hd Hk Hp HATA Ilb Iub Hupd Hc Hrhs.
  destruct (update_kkt_denotes_Kred d k0 k Hd Hk HATA Hupd) as (Ek & Lmat & Hwf & HK).
  destruct (set_k_fact_proj k (Some f)) as (F1 & F2 & F3 & F4 & F5 & F6 & F7 & F8 & F9 & F10 & F11).
  destruct (set_k_mat_proj k0 (k_mat k)) as (M1 & M2 & M3 & M4 & M5 & M6 & M7 & M8 & M9 & M10 & M11).
  rewrite <- Ek in M2, M3, M4, M5, M6, M7, M8, M9.
  assert (Hk' : wf_scal d (k <| k_fact := Some f |>)).
  { destruct Hk as (H1 & H2 & H3 & H4 & H5 & H6). unfold wf_scal.
    rewrite F4, F5, F6, F7, F8, F9, M4, M5, M6, M7, M8, M9. repeat split; assumption. }
  assert (Hp' : pos_scal d (k <| k_fact := Some f |>)).
  { unfold pos_scal. rewrite F3, F4, F5, F6, F7, F8, F9, M3, M4, M5, M6, M7, M8, M9. exact Hp. }
  destruct (kkt_solve_no_err S d (k <| k_fact := Some f |>) f rx ry rz rzlb rzub rs rslb rsub
              Hd Hk' Hrhs Hp' Ilb Iub Lmat Hwf Hc F11) as [step Hstep].
  exists step. split; [exact Hstep|].
  exact (kkt_solve_exact_dense S d k0 k f _ _ _ _ _ _ _ _ step Hd Hk Hp HATA Hupd Hc Hrhs Hstep).
Qed.

(* T2 (dense core): update_kkt rebuilds k_mat from the data, the scalings and AT*AT^T only; refreshing in place
   (kkt_update_scalings / kkt_update_data) therefore yields the matrix a fresh kkt_init would build *)
Theorem update_kkt_refresh_eq_fresh d k1 k2 :
  k_rho k1 = k_rho k2 -> k_delta k1 = k_delta k2 -> k_s k1 = k_s k2 -> k_z_inv k1 = k_z_inv k2 ->
  k_s_lb k1 = k_s_lb k2 -> k_z_lb_inv k1 = k_z_lb_inv k2 -> k_s_ub k1 = k_s_ub k2 -> k_z_ub_inv k1 = k_z_ub_inv k2 ->
  k_ATA k1 = k_ATA k2 ->
  match update_kkt d k1, update_kkt d k2 with
  | Ok r1, Ok r2 => k_mat r1 = k_mat r2
  | Err e1, Err e2 => e1 = e2
  | _, _ => False
  end.
Proof.
  intros E1 E2 E3 E4 E5 E6 E7 E8 E9. unfold update_kkt. cbv zeta.
  rewrite E1, E2, E3, E4, E5, E6, E7, E8, E9.
  destruct (if Nat.ltb 0 (d_m d) then _ else _) as [w|]; cbn [bind]; [|reflexivity].
  destruct (if Nat.ltb 0 (d_p d) then _ else _) as [dinv|]; cbn [bind]; [|reflexivity].
  destruct (box_diag _ _ (d_lb_idx d) _ _ _) as [bd0|]; cbn [bind]; [|reflexivity].
  destruct (box_diag _ _ (d_ub_idx d) _ _ _) as [bd|]; cbn [bind]; [|reflexivity].
  rewrite (proj1 (set_k_mat_proj k1 _)), (proj1 (set_k_mat_proj k2 _)). reflexivity.
Qed.

(* ================================================================ Part F : a concrete instance (non-vacuity) *)
(* boolean equality on results, to compare by vm_compute (Qc carries canonicity proofs) *)
Fixpoint veqb (a b : Vec) : bool :=
  match a, b with
  | [], [] => true
  | x :: a', y :: b' => qeqb x y && veqb a' b'
  | _, _ => false
  end.

Lemma veqb_eq a b : veqb a b = true -> a = b.
Proof.
  revert b. induction a as [|x a IH]; intros [|y b] H; cbn in H; try discriminate; [reflexivity|].
  apply andb_true_iff in H as [H1 H2]. apply qeqb_eq in H1. rewrite H1, (IH _ H2). reflexivity.
Qed.

Definition step_eqb (u v : Step) : bool :=
  veqb (st_x u) (st_x v) && veqb (st_y u) (st_y v) && veqb (st_z u) (st_z v) &&
  veqb (st_z_lb u) (st_z_lb v) && veqb (st_z_ub u) (st_z_ub v) &&
  veqb (st_s u) (st_s v) && veqb (st_s_lb u) (st_s_lb v) && veqb (st_s_ub u) (st_s_ub v).

Lemma step_eqb_eq u v : step_eqb u v = true -> u = v.
Proof.
  unfold step_eqb. rewrite !andb_true_iff. intros [[[[[[[H1 H2] H3] H4] H5] H6] H7] H8].
  destruct u, v. cbn in *. f_equal; apply veqb_eq; assumption.
Qed.

Definition ex_d : Data :=
  {| d_n := 2; d_p := 1; d_m := 1;
     d_P := [[qofZ 2; 0]; [qofZ 1; qofZ 3]];             (* P_utri, column-major: P = [[2,1],[1,3]] *)
     d_AT := [[qofZ 1; qofZ 1]]; d_GT := [[qofZ 1; qofZ (-1)]];
     d_c := []; d_b := []; d_h := [];
     d_lb_idx := [1%nat]; d_ub_idx := [];
     d_lb_scaling := [qofZ 2; qofZ 7]; d_ub_scaling := [qofZ 5; qofZ 5];   (* tails: stale values *)
     d_lb_n := []; d_ub := [] |}.

Definition ex_k0 : KKT :=
  {| k_rho := qmk 1 2; k_delta := qmk 1 3;
     k_s := [qofZ 2]; k_s_lb := [qofZ 4; qofZ 9]; k_s_ub := [qofZ 1; qofZ 1];
     k_z_inv := [qofZ 3]; k_z_lb_inv := [qmk 1 2; qofZ 9]; k_z_ub_inv := [qofZ 1; qofZ 1];
     k_mat := []; k_ATA := compute_ATA ex_d; k_fact := None |}.

Definition ex_rhs : Step :=
  {| st_x := [qofZ 1; qofZ 2]; st_y := [qofZ 3]; st_z := [qofZ 4]; st_z_lb := [qofZ 5]; st_z_ub := [];
     st_s := [qofZ 6]; st_s_lb := [qofZ 7]; st_s_ub := [] |}.

Definition ex_solve (S : Settings) (k : KKT) (refine : bool) : res Step :=
  kkt_solve S ex_d k refine (st_x ex_rhs) (st_y ex_rhs) (st_z ex_rhs) (st_z_lb ex_rhs) (st_z_ub ex_rhs)
            (st_s ex_rhs) (st_s_lb ex_rhs) (st_s_ub ex_rhs).

(* direct evaluation of the model: update_kkt; factorize; solve; multiply gives back the right-hand side *)
Example ex_multiply_solve : forall S : Settings,
  exists k k' step,
    update_kkt ex_d ex_k0 = Ok k /\
    regularize_and_factorize S ex_d k false false = Ok (k', true) /\
    ex_solve S k' false = Ok step /\
    veqb (st_x step) [0; 0] = false /\
    kkt_multiply ex_d k' step = Ok ex_rhs.
Proof.
  intros S.
  destruct (update_kkt ex_d ex_k0) as [k|] eqn:Hk; [|vm_compute in Hk; discriminate].
  destruct (regularize_and_factorize S ex_d k false false) as [[k' [|]]|] eqn:Hf.
  2,3: (injection Hk as <-; vm_compute in Hf; discriminate).
  destruct (ex_solve S k' false) as [step|] eqn:Hs.
  2:{ injection Hk as <-. vm_compute in Hf. injection Hf as <-. vm_compute in Hs. discriminate. }
  exists k, k', step. split; [reflexivity|]. split; [exact Hf|]. split; [exact Hs|]. split.
  - injection Hk as <-. vm_compute in Hf. injection Hf as <-. vm_compute in Hs. injection Hs as <-.
    vm_compute. reflexivity.
  - assert (E : (match kkt_multiply ex_d k' step with Ok u => step_eqb u ex_rhs | Err _ => false end) = true).
    { injection Hk as <-. vm_compute in Hf. injection Hf as <-. vm_compute in Hs. injection Hs as <-.
      vm_compute. reflexivity. }
    destruct (kkt_multiply ex_d k' step); [|discriminate]. f_equal. apply step_eqb_eq. exact E.
Qed.

(* the hypotheses of kkt_solve_exact_dense are satisfiable by this instance *)
Lemma ex_wf_data : wf_data ex_d.
Proof.
  unfold wf_data. cbn [ex_d d_P d_AT d_GT d_n d_p d_m d_nlb d_nub d_lb_idx d_ub_idx d_lb_scaling d_ub_scaling length].
  repeat split; try (repeat constructor); try lia.
  intros i j Hj Hi. assert (i = 1%nat) by lia. assert (j = O) by lia. subst. reflexivity.
Qed.

Lemma ex_wf_scal : wf_scal ex_d ex_k0.
Proof. unfold wf_scal. cbn. repeat split; lia. Qed.

Lemma ex_pos_scal : pos_scal ex_d ex_k0.
Proof.
  unfold pos_scal. cbn [ex_d ex_k0 d_m d_nlb d_nub d_lb_idx d_ub_idx length k_delta k_s k_z_inv k_s_lb k_z_lb_inv k_s_ub k_z_ub_inv].
  split; [reflexivity|]. repeat split; try (destruct l; [reflexivity|lia]); try (destruct i; [reflexivity|lia]); lia.
Qed.

Lemma ex_wf_rhs : wf_rhs ex_d (st_x ex_rhs) (st_y ex_rhs) (st_z ex_rhs) (st_z_lb ex_rhs) (st_z_ub ex_rhs)
                         (st_s ex_rhs) (st_s_lb ex_rhs) (st_s_ub ex_rhs).
Proof. unfold wf_rhs. cbn. repeat split. Qed.

Example ex_hypotheses_satisfiable : forall S : Settings,
  wf_data ex_d /\ wf_scal ex_d ex_k0 /\ pos_scal ex_d ex_k0 /\
  ((0 < d_p ex_d)%nat -> k_ATA ex_k0 = compute_ATA ex_d) /\
  wf_rhs ex_d (st_x ex_rhs) (st_y ex_rhs) (st_z ex_rhs) (st_z_lb ex_rhs) (st_z_ub ex_rhs)
         (st_s ex_rhs) (st_s_lb ex_rhs) (st_s_ub ex_rhs) /\
  exists k f step,
    update_kkt ex_d ex_k0 = Ok k /\ llt_compute (k_mat k) = Ok (Some f) /\
    ex_solve S (k <| k_fact := Some f |>) false = Ok step /\
    kkt_multiply ex_d (k <| k_fact := Some f |>) step = Ok ex_rhs.
Proof.
  intros S. split; [apply ex_wf_data|]. split; [apply ex_wf_scal|]. split; [apply ex_pos_scal|].
  split; [reflexivity|]. split; [apply ex_wf_rhs|].
  destruct (update_kkt ex_d ex_k0) as [k|] eqn:Hk; [|vm_compute in Hk; discriminate].
  destruct (llt_compute (k_mat k)) as [[f|]|] eqn:Hf.
  2,3: (injection Hk as <-; vm_compute in Hf; discriminate).
  destruct (ex_solve S (k <| k_fact := Some f |>) false) as [step|] eqn:Hs.
  2:{ injection Hk as <-. vm_compute in Hf. injection Hf as <-. vm_compute in Hs. discriminate. }
  exists k, f, step. split; [reflexivity|]. split; [exact Hf|]. split; [exact Hs|].
  (* here the theorem is used, not evaluation *)
  exact (kkt_solve_exact_dense S ex_d ex_k0 k f _ _ _ _ _ _ _ _ step ex_wf_data ex_wf_scal ex_pos_scal
           (fun _ => eq_refl) Hk Hf ex_wf_rhs Hs).
Qed.

(* refinement: started from a wrong solution (0,0) the loop as modelled returns a strictly better one *)
Definition ex_S : Settings :=
  {| rho_init := qmk 1 1000000; delta_init := qmk 1 10000;
     eps_abs := qmk 1 100000000; eps_rel := qmk 1 1000000000;
     check_duality_gap := true; eps_duality_gap_abs := qmk 1 100000000; eps_duality_gap_rel := qmk 1 1000000000;
     reg_lower_limit := qmk 1 10000000000; reg_finetune_lower_limit := qmk 1 10000000000000;
     reg_finetune_primal_update_threshold := 7; reg_finetune_dual_update_threshold := 5;
     max_iter := 250; max_factor_retires := 10;
     preconditioner_scale_cost := false; preconditioner_iter := 10;
     tau := qmk 99 100;
     iterative_refinement_always_enabled := false;
     iterative_refinement_eps_abs := 0; iterative_refinement_eps_rel := 0;
     iterative_refinement_max_iter := 10;
     iterative_refinement_min_improvement_rate := qofZ 5;
     iterative_refinement_static_regularization_eps := qmk 1 10000000000000;
     iterative_refinement_static_regularization_rel := qmk 1 1000000000000 |}.

Definition ex_rx : Vec := [qofZ 1; qofZ 2].
Definition ex_err (k : KKT) : Vec := vsub ex_rx (lower_sym_mul (k_mat k) [0; 0]).

Example ex_refinement :
  1 <= iterative_refinement_min_improvement_rate ex_S /\
  exists k k' r,
    update_kkt ex_d ex_k0 = Ok k /\
    regularize_and_factorize ex_S ex_d k false false = Ok (k', true) /\
    refine_loop ex_S 3 k' ex_rx (norm_inf ex_rx) [0; 0] (ex_err k') (norm_inf (ex_err k')) = Ok r /\
    qltb (kkt_residual_norm k' ex_rx r) (kkt_residual_norm k' ex_rx [0; 0]) = true.
Proof.
  split; [vm_compute; discriminate|].
  destruct (update_kkt ex_d ex_k0) as [k|] eqn:Hk; [|vm_compute in Hk; discriminate].
  destruct (regularize_and_factorize ex_S ex_d k false false) as [[k' [|]]|] eqn:Hf.
  2,3: (injection Hk as <-; vm_compute in Hf; discriminate).
  destruct (refine_loop ex_S 3 k' ex_rx (norm_inf ex_rx) [0; 0] (ex_err k') (norm_inf (ex_err k'))) as [r|] eqn:Hr.
  2:{ injection Hk as <-. vm_compute in Hf. injection Hf as <-. vm_compute in Hr. discriminate. }
  exists k, k', r. split; [reflexivity|]. split; [exact Hf|]. split; [exact Hr|].
  injection Hk as <-. vm_compute in Hf. injection Hf as <-. vm_compute in Hr. injection Hr as <-.
  vm_compute. reflexivity.
Qed.
