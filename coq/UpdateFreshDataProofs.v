(* UpdateFreshDataProofs.v -- C04-T5, part 2: update(ALL eight blocks, reuse_preconditioner = false) leaves the solver
   object with exactly the data, preconditioner and A'A a fresh setup() of the same blocks builds.

     all_steps_all_some         unscale_data, then overwriting every block = the data setup() assembles (the old data are
                                completely overwritten; the box scalings are all ones, by [rep])
     scale_fresh_forgets_pc     scale_data(reuse = false) from the old preconditioner = from precond_init (Ruiz and Identity)
     update_all_noreuse_state   the solver object after update, field by field, against the one after setup *)
From PIQP Require Import Base Data Bounds PrecondDense KKTDense IPM API.
From PIQP Require Import LinAlg LLTProofs PrecondProofs BoundsProofs Shapes ShapesProofs.
From PIQP Require Import ResidLemmas ResidSpec ResidProofs ResidLoopProofs EndToEndProofs.
From PIQP Require Import UpdateFreshRuizProofs.
From RecordUpdate Require Import RecordSet.
Import RecordSetNotations.
From Coq Require Import Lia.
Local Open Scope Qc_scope.

Local Notation pinv := PrecondProofs.pc_inverse.

(* ================================================================== *)
(** * 1. the data                                                       *)
(* ================================================================== *)
Definition all_blocks (P : Mat) (c : Vec) (A : Mat) (b : Vec) (G : Mat) (h lb ub : list ext) : Blocks :=
  mkBlocks (Some P) (Some c) (Some A) (Some b) (Some G) (Some h) (Some lb) (Some ub).

(* all eight blocks are passed *)
Definition all_some (B : Blocks) : Prop :=
  exists P c A b G h lb ub, B = all_blocks P c A b G h lb ub.

(* the (unscaled) data setup_impl assembles *)
Definition fresh_data (K : Consts) (n p m : nat) (P : Mat) (c : Vec) (A : Mat) (b : Vec) (G : Mat) (h lb ub : list ext) : Data :=
  let '(GT, hv) := disable_inf (k_inf K) (mtranspose m G) h in
  let '(lbn, lbi) := pack_lb (k_inf K) 0 lb in
  let '(ubv, ubi) := pack_ub (k_inf K) 0 ub in
  mkData n p m (upper_tri P) (mtranspose p A) GT c b hv lbi ubi (vconst n 1) (vconst n 1) lbn ubv.

Lemma setup_all_some K ident spc junk S n p m P c A b G h lb ub :
  setup K ident spc junk S n p m (all_blocks P c A b G h lb ub) =
  (let d0 := fresh_data K n p m P c A b G h lb ub in
   do '(pc, d) <- scale_data K spc (precond_init ident d0) d0 false (preconditioner_scale_cost S) (preconditioner_iter S) ;;
   do k <- kkt_init d (rho_init S) (delta_init S) junk ;;
   Ok {| sv_set := S; sv_data := d; sv_pc := pc; sv_kkt := k; sv_kkt_init_state := true; sv_setup_done := true;
         sv_refine := iterative_refinement_always_enabled S; sv_info := empty_info S; sv_out := zero_out n p m; sv_calls := 0 |}).
Proof.
  unfold setup, fresh_data, all_blocks. cbn [b_P b_c b_A b_b b_G b_h b_lb b_ub].
  destruct (disable_inf _ _ h) as [GT hv]. destruct (pack_lb _ 0 lb) as [lbn lbi]. destruct (pack_ub _ 0 ub) as [ubv ubi].
  reflexivity.
Qed.

Lemma all_steps_all_some K d0 P c A b G h lb ub :
  d_lb_scaling d0 = vconst (d_n d0) 1 -> d_ub_scaling d0 = vconst (d_n d0) 1 ->
  all_steps K (all_blocks P c A b G h lb ub) d0 = fresh_data K (d_n d0) (d_p d0) (d_m d0) P c A b G h lb ub.
Proof.
  intros El Eu. unfold all_steps, stepub, steplb, steph, stepb, stepc, stepG, stepA, stepP, fresh_data, all_blocks.
  cbn [b_P b_c b_A b_b b_G b_h b_lb b_ub].
  destruct d0 as [n p m P0 AT0 GT0 c0 b0 h0 li0 ui0 ls0 us0 ln0 uv0]. cbn in El, Eu. subst ls0 us0.
  Opaque disable_inf mtranspose upper_tri pack_lb pack_ub.
  cbn.
  destruct (pack_lb _ 0 lb) as [lbn lbi]. destruct (pack_ub _ 0 ub) as [ubv ubi].
  destruct (disable_inf (k_inf K) (mtranspose m G) h) as [GT hv].
  reflexivity.
  Transparent disable_inf mtranspose upper_tri pack_lb pack_ub.
Qed.

(* unit box scalings in ALL n slots, as lists *)
Lemma rep_box_scalings_ones U d0 : wf_data d0 -> rep U d0 ->
  d_lb_scaling d0 = vconst (d_n d0) 1 /\ d_ub_scaling d0 = vconst (d_n d0) 1.
Proof.
  intros W R. destruct R as [_ _ _ _ _ _ _ Rl Ru _ _]. unfold el in Rl, Ru. split; apply vec_ext.
  - rewrite length_vconst. apply (wfd_lbs _ W).
  - intros i Hi. rewrite (wfd_lbs _ W) in Hi. rewrite nth_vconst by exact Hi. apply Rl, Hi.
  - rewrite length_vconst. apply (wfd_ubs _ W).
  - intros i Hi. rewrite (wfd_ubs _ W) in Hi. rewrite nth_vconst by exact Hi. apply Ru, Hi.
Qed.

(* ================================================================== *)
(** * 2. the preconditioner                                              *)
(* ================================================================== *)
(* IdentityPreconditioner: every reachable state is the initial one (up to the two counters) *)
Lemma ident_pc_canonical pc d :
  pc_ident pc = true -> pc_ones pc -> pinv pc -> wf_pc pc d ->
  forall a b, pc <| pc_nlb := a |> <| pc_nub := b |> = (precond_init true d) <| pc_nlb := a |> <| pc_nub := b |>.
Proof.
  intros Hid Ho I [WL (En & Ep & Em)] a b. destruct (Ho Hid) as (E1 & E2 & E3 & E4).
  destruct I as [I1 _ I3 _ I5 _ I7 _]. destruct WL as [L1 L2 L3 L4 L5 L6 _ _].
  rewrite E1 in I1. rewrite E2 in I3. rewrite E3 in I5. rewrite E4 in I7.
  assert (Hci : pc_c_inv pc = 1) by (rewrite Qcmult_1_l in I1; exact I1).
  assert (Hall : forall N (v : Vec), length v = N -> (forall i, (i < N)%nat -> nth i (vconst N 1) 0 * nth i v 0 = 1) -> v = vconst N 1).
  { intros N v L H. apply vec_ext; [rewrite length_vconst; exact L|].
    intros i Hi. rewrite L in Hi. specialize (H i Hi). rewrite !nth_vconst in * by exact Hi.
    rewrite Qcmult_1_l in H. exact H. }
  pose proof (Hall _ _ L2 I3) as F2. pose proof (Hall _ _ L4 I5) as F4. pose proof (Hall _ _ L6 I7) as F6.
  clear Hall I1 I3 I5 I7 L1 L2 L3 L4 L5 L6 Ho.
  destruct pc as [pid pn pp pm pnl pnu pcc pdl pdlb pdub pci pdi pdlbi pdubi]. cbn in *.
  change (mkPrecond pid pn pp pm a b pcc pdl pdlb pdub pci pdi pdlbi pdubi =
          mkPrecond true (d_n d) (d_p d) (d_m d) a b 1 (vconst (d_n d + d_p d + d_m d) 1) (vconst (d_n d) 1) (vconst (d_n d) 1)
                    1 (vconst (d_n d + d_p d + d_m d) 1) (vconst (d_n d) 1) (vconst (d_n d) 1)).
  rewrite <- En, <- Ep, <- Em. f_equal; assumption.
Qed.

Theorem scale_fresh_forgets_pc K spc ident pc d sc it :
  sane_consts K -> (spc = true -> k_ruiz_eps K < 1) ->
  wf_data d -> wf_pc pc d -> pinv pc -> pc_ones pc -> pc_ident pc = ident ->
  scale_data K spc pc d false sc it = scale_data K spc (precond_init ident d) d false sc it.
Proof.
  intros SK He W WP I Ho Hid. unfold scale_data. cbn [pc_ident precond_init]. rewrite Hid.
  destruct ident.
  - rewrite (ident_pc_canonical pc d Hid Ho I WP). reflexivity.
  - destruct WP as [WL (En & Ep & Em)].
    apply (ruiz_fresh_forgets_pc K spc (precond_init false d) pc d sc it SK He W).
    + unfold dims_agree. cbn. auto.
    + unfold same_kind. cbn. auto.
Qed.

(* ================================================================== *)
(** * 3. the solver object after update(all blocks, reuse = false)       *)
(* ================================================================== *)
Record fresh_state (K : Consts) (junk : F) (sv0 sv1 sv2 : Solver) : Prop := mk_fresh_state {
  fs_set  : sv_set sv1 = sv_set sv2;
  fs_data : sv_data sv1 = sv_data sv2;
  fs_pc   : sv_pc sv1 = sv_pc sv2;
  fs_done : sv_setup_done sv1 = sv_setup_done sv2;
  fs_ATA  : k_ATA (sv_kkt sv1) = k_ATA (sv_kkt sv2);
  fs_init1 : sv_kkt_init_state sv1 = false;
  fs_init2 : sv_kkt_init_state sv2 = true;
  (* the KKT object of the fresh solver is the one kkt_init builds; the one of the updated solver has the right shape *)
  fs_kkt2 : kkt_init (sv_data sv2) (rho_init (sv_set sv2)) (delta_init (sv_set sv2)) junk = Ok (sv_kkt sv2);
  fs_wf1  : wf_solver sv1;
  fs_wf2  : wf_solver sv2;
  (* what is carried over from the history / what setup resets *)
  fs_out1 : sv_out sv1 = sv_out sv0;  fs_info1 : sv_info sv1 = sv_info sv0;
  fs_refine1 : sv_refine sv1 = sv_refine sv0;  fs_calls1 : sv_calls sv1 = sv_calls sv0;
  fs_out2 : sv_out sv2 = zero_out (d_n (sv_data sv2)) (d_p (sv_data sv2)) (d_m (sv_data sv2));
  fs_info2 : sv_info sv2 = empty_info (sv_set sv2);
  fs_refine2 : sv_refine sv2 = iterative_refinement_always_enabled (sv_set sv2);
  fs_calls2 : sv_calls sv2 = 0%nat
}.

Theorem update_all_noreuse_state K ident spc junk U sv B sv1 sv2 :
  sane_consts K -> (spc = true -> k_ruiz_eps K < 1) ->
  e2e_inv U sv -> pc_ident (sv_pc sv) = ident -> sv_setup_done sv = true ->
  all_some B -> blocks_ok (d_n (sv_data sv)) (d_p (sv_data sv)) (d_m (sv_data sv)) B ->
  update K spc sv B false = Ok sv1 ->
  setup K ident spc junk (sv_set sv) (d_n (sv_data sv)) (d_p (sv_data sv)) (d_m (sv_data sv)) B = Ok sv2 ->
  fresh_state K junk sv sv1 sv2.
Proof.
  intros SK He Inv Hid Hdone (P & c & A & b & G & h & lb & ub & ->) BO Hu Hs.
  pose proof Inv as [Ws SP TL I Ho].
  destruct (ShapesProofs.update_wf K spc sv _ false sv1 SK Ws BO Hu) as [Ws1 SD1].
  pose proof Ws as [Wd WP Nlb Nub Wk Wo].
  rewrite update_unfold in Hu.
  destruct (unscale_data (sv_pc sv) (sv_data sv)) as [d0|] eqn:E0; cbn [bind] in Hu; [|discriminate].
  destruct (unscale_data_transformed K _ _ _ Wd WP I Ho Nlb Nub E0) as (T0 & W0 & En & Ep & Em & Il & Iu).
  pose proof (scaled_transformed_rep U _ _ _ SP TL T0) as R0.
  destruct (rep_box_scalings_ones U d0 W0 R0) as [Ol Ou].
  rewrite (all_steps_all_some K d0 P c A b G h lb ub Ol Ou) in Hu.
  rewrite En, Ep, Em in Hu.
  rewrite setup_all_some in Hs. cbv zeta in Hs.
  set (d8 := fresh_data K (d_n (sv_data sv)) (d_p (sv_data sv)) (d_m (sv_data sv)) P c A b G h lb ub) in *.
  assert (W8 : wf_data d8 /\ same_dims d0 d8).
  { assert (BO0 : blocks_ok (d_n d0) (d_p d0) (d_m d0) (all_blocks P c A b G h lb ub)) by (rewrite En, Ep, Em; exact BO).
    pose proof (all_steps_wf K _ d0 W0 BO0) as H8.
    rewrite (all_steps_all_some K d0 P c A b G h lb ub Ol Ou), En, Ep, Em in H8. exact H8. }
  destruct W8 as [W8 (E8n & E8p & E8m)].
  assert (WP8 : wf_pc (sv_pc sv) d8).
  { destruct WP as [WL (A1 & A2 & A3)]. split; [exact WL|]. repeat split; congruence. }
  rewrite (scale_fresh_forgets_pc K spc ident (sv_pc sv) d8 _ _ SK He W8 WP8 I Ho Hid) in Hu.
  destruct (scale_data K spc (precond_init ident d8) d8 false _ _) as [[pc' d']|] eqn:E; cbn [bind] in Hu, Hs; [|discriminate].
  cbv zeta in Hu. unfold all_blocks in Hu. cbn [b_P b_A b_G negb orb] in Hu.
  destruct (kkt_init d' (rho_init (sv_set sv)) (delta_init (sv_set sv)) junk) as [k2|] eqn:Ek2; cbn [bind] in Hs; [|discriminate].
  injection Hs as <-.
  assert (Ws2 : wf_solver (mkSolver (sv_set sv) d' pc' k2 true true (iterative_refinement_always_enabled (sv_set sv))
                             (empty_info (sv_set sv)) (zero_out (d_n (sv_data sv)) (d_p (sv_data sv)) (d_m (sv_data sv))) 0)).
  { eapply (ShapesProofs.setup_wf K ident spc junk (sv_set sv) _ _ _ (all_blocks P c A b G h lb ub)); [exact SK| |].
    - split; [exact BO|]. unfold all_blocks; cbn. repeat split; discriminate.
    - rewrite setup_all_some. cbv zeta. fold d8. rewrite E. cbn [bind]. rewrite Ek2. reflexivity. }
  destruct (kkt_update_data d' (sv_kkt sv) true true true) as [k1|] eqn:Ek1; cbn [bind] in Hu; [|discriminate].
  injection Hu as <-.
  assert (Dims : d_n d' = d_n (sv_data sv) /\ d_p d' = d_p (sv_data sv) /\ d_m d' = d_m (sv_data sv)).
  { destruct SD1 as (S1 & S2 & S3). cbn in S1, S2, S3. auto. }
  destruct Dims as (Dn & Dp & Dm).
  constructor; try (cbn; reflexivity); try (cbn; assumption).
  - (* A'A *)
    change (k_ATA k1 = k_ATA k2).
    unfold kkt_update_data in Ek1. cbn [andb orb] in Ek1. unfold kkt_init in Ek2.
    apply JunkProofs.update_kkt_keeps in Ek1, Ek2. destruct Ek1 as [r1 ->]. destruct Ek2 as [r2 ->].
    destruct Wk as [_ _ _ _ _ _ _ WA _]. rewrite <- Dp in WA.
    destruct (Nat.ltb 0 (d_p d')); cbn; [reflexivity|exact WA].
  - cbn. rewrite Dn, Dp, Dm. reflexivity.
Qed.
