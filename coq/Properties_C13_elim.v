(* Properties_C13_elim.v -- C13 / T1b for the sparse KKT_ALL_ELIMINATED back end (model KKTSparseAll.v, tied to
   sparse::KKT<xrat, int, KKT_ALL_ELIMINATED> by tools/kktelim_stage.py: K and the raw stored PKPt, pattern and values).
   Proved so far (all sizes, all patterns): the two pieces of PIQP's own index / value code the assembly rests on --
     (1) the merge walk of create_kkt_matrix builds P_utri_to_Ki / AT_A_to_Ki / GT_G_to_Ki correctly for every sum pattern with
         strictly increasing columns that contains the (strictly increasing) columns of the three summands;
     (2) the scatter product of update_AT_A / update_GT_W_delta_inv_G computes  sum_l w_l XT(i,l) X(l,j)  on every stored entry of
         the upper product pattern, leaves tmp_scatter zeroed, and never indexes out of range;
   plus the structure of the modelled Eigen results (csc_of_cols: well formed, columns as given, entries as given).
   Composition (identity ordering):  all_create (a)+(b),  all_init establishes the static invariant,  all_update_scalings from any
   state with the static invariant reaches the canonical form (c), and the canonical form denotes a_Kred (KKTProofs.v) of the L2
   system of data and scalings.  Vocabulary (KKTSparseAllProofs.v):
     cache_ok n r XT X    X is a valid cached transpose of XT: wf_csc, outer index of the transpose, transposed values, produced by
                          transpose_no_alloc from a matrix with the pattern of XT;
     all_static d k       everything of the state except scalings and values of PKPt / GT_W_delta_inv_G: valid caches A, G, AT_A on
                          the product pattern with the exact sums, pattern of PKPt = the modelled sum pattern, the three maps correct
                          (map_ok), tmp_scatter zeroed, identity ordering;
     all_form d c k       all_static + scalings c + every stored value = Kall d c (row, col);
     all_scal_ok d c      scal_ok (KKTSparseFullProofs.v) + delta <> 0 + s_l z_inv_l + delta <> 0.
     covers_all mask ..   bit A / bit G set for a changed A / G; any change (P, box scalings included) => mask <> 0;
     cache_pat k' k       the cached transposes of k' and k have the same inner / outer indices;
     canon_caches d k     ... namely those Eigen's transposition of the current data gives (holds after init, kept by every operation);
     all_fresh d c        init followed by apply_scalings c.
   (b) complete: C13_all_init_form.  (d) / T2: C13_all_update_data_form (static invariant and, for a non-zero covering mask, the
   canonical form of the NEW data), C13_all_update_data_refresh_eq_fresh (stored matrix = fresh object, non-zero mask),
   C13_all_update_data_eq_fresh (update_data, any covering mask, followed by update_scalings: stored matrix = fresh init followed
   by the same update_scalings).
   Permuted versions (ord = Some perm), names *_partial: as in KKT_FULL mode they take the boolean check perm_addr_okb
   (KKTSparseFullPerm.v; evaluated by the stage on every tested ordering) on the pattern of the identity-ordered matrix as a
   HYPOTHESIS -- it is packaged in
     all_perm_img n perm kid kp   ordering_init perm = Ok o, permute_sym ON POSITIONS of kid's pattern = Ok (Cpos, a2c), perm_spec_okb
                                  of that result = true, and kp = (same scalings, maps, caches, products, tmp; pinv = oPinv o;
                                  pattern of Cpos; PKi = a2c; kx_p[a2c q] = kx_id[q]  (vrelA)).
   What is missing for the unconditional statement: perm_spec_okb for EVERY permutation (the all-n theorem C14_permute_sym_spec gives
   the bijection, the entry placement and the values, but not that the diagonal entry of each permuted column is stored LAST, which is
   what the diagonal addressing Kp[pinv col + 1] - 1 of this mode relies on; sortedness of the columns of permute_sym's result is not
   proved).  Under the check: C13_all_perm_init_partial (both init runs succeed, image relation), C13_all_perm_update_scalings_form_partial,
   C13_all_perm_form_denotes_partial (entries of the permuted stored matrix = a_Kred, via PermuteGenProofs.permute_sym_get and
   naturality), C13_all_perm_update_data_form_partial, C13_all_perm_update_data_eq_fresh_partial (= new permuted object).
   KKT_EQ_ELIMINATED / KKT_INEQ_ELIMINATED: see Properties_C13_eqineq.v if present (other files). *)
From PIQP Require Import Base CSC C14LemmasProofs LinAlg KKTProofs KKTSparseFull KKTSparseFullProofs KKTSparseFullPerm KKTSparseAll KKTSparseAllTrProofs KKTSparseAllProofs KKTSparseAllDataProofs KKTSparseAllPermProofs.
Local Open Scope nat_scope.

(* (1) the merge walk.  src_ok n kcols S: S is compressed with n columns, strictly increasing, each contained in the column kcols j
       of the sum;  map_ok n kcols S map: map sends every stored entry of S to the position of its row index in column j of K *)
Theorem C13_all_compute_maps_ok : forall (n : nat) (kcols : nat -> list nat) (kval : nat -> nat -> F),
  (forall j, j < n -> inc (kcols j)) ->
  forall P A G : csc F, src_ok n kcols P -> src_ok n kcols A -> src_ok n kcols G ->
  forall p0 a0 g0 : list nat, length p0 = nnz P -> length a0 = nnz A -> length g0 = nnz G ->
  exists p2k a2k g2k, compute_maps (csc_of_cols n kcols kval) P A G (p0, a0, g0) = Ok (p2k, a2k, g2k) /\
    map_ok n kcols P p2k /\ map_ok n kcols A a2k /\ map_ok n kcols G g2k.
Proof. exact compute_maps_ok. Qed.
Print Assumptions C13_all_compute_maps_ok.

(* (2) the scatter product: X (r x n) the cached transpose, XT (n x r) the data, C the n x n product pattern *)
Theorem C13_all_scatter_product_ok : forall (X XT C : csc F) (n r : nat) (wt : option (Vec * Vec * F)),
  wf_csc X = true -> wf_csc XT = true -> wf_csc C = true ->
  ncols X = n -> nrows X = r -> ncols XT = r -> nrows XT = n -> ncols C = n -> nrows C = n ->
  wt_ok r wt ->
  (forall j q e, j < n -> cp X j <= q < cp X (S j) ->
     cp XT (nth q (rowind X) 0) <= e < cp XT (S (nth q (rowind X) 0)) -> nth e (rowind XT) 0 <= j ->
     exists qc, cp C j <= qc < cp C (S j) /\ nth qc (rowind C) 0 = nth e (rowind XT) 0) ->
  (forall j q q', j < n -> cp C j <= q < cp C (S j) -> cp C j <= q' < cp C (S j) ->
     nth q (rowind C) 0 = nth q' (rowind C) 0 -> q = q') ->
  forall tmp : Vec, n <= length tmp -> (forall i, nth i tmp 0%Qc = 0%Qc) ->
  exists cx, scatter_product X XT C wt tmp = Ok (csc_set_vals C cx, tmp) /\
    length cx = nnz C /\
    forall j q, j < n -> cp C j <= q < cp C (S j) -> nth q (rowind C) 0 <= j ->
      nth q cx 0%Qc = prodval X XT r wt (nth q (rowind C) 0) j.
Proof. exact scatter_product_ok. Qed.
Print Assumptions C13_all_scatter_product_ok.

(* the hypotheses of (2) hold for the modelled product pattern prod_upper_pattern X XT (whatever the cached transpose X stores), and
   the product vanishes outside it: the cached products AT_A / GT_W_delta_inv_G therefore hold the exact upper triangle *)
Theorem C13_all_prod_pattern_ok : forall (X XT : csc F) (n r : nat),
  wf_csc X = true -> wf_csc XT = true -> ncols X = n -> nrows X = r -> ncols XT = r -> nrows XT = n ->
  wf_csc (prod_upper_pattern X XT) = true /\
  (forall j q e, j < n -> cp X j <= q < cp X (S j) ->
     cp XT (nth q (rowind X) 0) <= e < cp XT (S (nth q (rowind X) 0)) -> nth e (rowind XT) 0 <= j ->
     exists qc, cp (prod_upper_pattern X XT) j <= qc < cp (prod_upper_pattern X XT) (S j) /\
                nth qc (rowind (prod_upper_pattern X XT)) 0 = nth e (rowind XT) 0) /\
  (forall j q q', j < n -> cp (prod_upper_pattern X XT) j <= q < cp (prod_upper_pattern X XT) (S j) ->
     cp (prod_upper_pattern X XT) j <= q' < cp (prod_upper_pattern X XT) (S j) ->
     nth q (rowind (prod_upper_pattern X XT)) 0 = nth q' (rowind (prod_upper_pattern X XT)) 0 -> q = q') /\
  (forall wt i j, j < n -> i <= j -> ~ In i (prod_col X XT j) -> prodval X XT r wt i j = 0%Qc).
Proof.
  intros X XT n r HwX HwT H1 H2 H3 H4. split; [now apply (pp_wf X XT n r)|]. split; [now apply (pp_touch X XT n r)|].
  split; [now apply (pp_dist X XT n r)|]. intros wt i j. now apply (prodval_out X XT n r).
Qed.
Print Assumptions C13_all_prod_pattern_ok.

(* the modelled Eigen results: a matrix given by strictly increasing columns is well formed, has these columns and these entries *)
Theorem C13_all_of_cols_wf : forall (n : nat) (cols : nat -> list nat) (val : nat -> nat -> F),
  (forall j r, j < n -> In r (cols j) -> r < n) -> wf_csc (csc_of_cols n cols val) = true.
Proof. exact oc_wf. Qed.
Print Assumptions C13_all_of_cols_wf.
Theorem C13_all_of_cols_get : forall (n : nat) (cols : nat -> list nat) (val : nat -> nat -> F),
  (forall j, j < n -> inc (cols j)) ->
  forall j, j < n ->
    (forall i, i < length (cols j) -> csc_get (csc_of_cols n cols val) (nth i (cols j) 0) j = val (nth i (cols j) 0) j) /\
    (forall r, ~ In r (cols j) -> csc_get (csc_of_cols n cols val) r j = 0%Qc).
Proof. intros n cols val Hinc j Hj. split; [intros i Hi; now apply oc_get_in | intros r Hr; now apply oc_get_out]. Qed.
Print Assumptions C13_all_of_cols_get.

(* ===== the C14 transpose model: well-formedness of the result, and stability of the inner indices under re-transposition ===== *)
Theorem C13_all_transpose_wf : forall A C C' : csc F, transpose_no_alloc A C = Ok C' -> colptr C' = colptr C ->
  nrows C = ncols A -> wf_csc C = true -> wf_csc C' = true.
Proof. exact tr_wf. Qed.
Print Assumptions C13_all_transpose_wf.

Theorem C13_all_retranspose_rows : forall (A0 A1 : csc F) (fin : list nat),
  colptr A1 = colptr A0 -> rowind A1 = rowind A0 -> ncols A1 = ncols A0 -> length (vals A1) = length (vals A0) ->
  forall C0 A A' : csc F, transpose_no_alloc A0 C0 = Ok A -> rowind A = fin -> colptr A = colptr C0 ->
  transpose_no_alloc A1 A = Ok A' -> rowind A' = rowind A.
Proof. exact retranspose_rows. Qed.
Print Assumptions C13_all_retranspose_rows.

Theorem C13_all_cache_ok : forall (XT : csc F) (n r : nat), wf_csc XT = true -> nrows XT = n -> ncols XT = r ->
  (exists X, csc_transpose XT = Ok X /\ cache_ok n r XT X) /\
  (forall XT1 X, cache_ok n r XT X -> same_pat XT1 XT -> wf_csc XT1 = true -> nrows XT1 = n -> ncols XT1 = r ->
     exists X', transpose_no_alloc XT1 X = Ok X' /\ cache_ok n r XT1 X' /\ rowind X' = rowind X /\ colptr X' = colptr X).
Proof. intros XT n r Hw Hn Hr. split; [now apply csc_transpose_ok|]. intros XT1 X. apply retranspose_ok. Qed.
Print Assumptions C13_all_cache_ok.

(* ===== (a) + (b): init_workspace + create_kkt_matrix ===== *)
Theorem C13_all_create : forall d : sdata, wf_sdata d -> upper_only (sd_P d) = true -> sorted_colsb (sd_P d) = true ->
  forall rho delta : F, delta <> 0%Qc -> (1 + delta)%Qc <> 0%Qc ->
  exists am, all_create d rho delta = Ok am /\
    let K := am_K am in
    let kcols := kcols_all d (am_A am) (am_G am) in
    nrows K = sd_n d /\ ncols K = sd_n d /\ wf_csc K = true /\ upper_only K = true /\ diag_is_last K /\
    colptr K = colptr (csc_of_cols (sd_n d) kcols (fun _ _ => 0%Qc)) /\ rowind K = rowind (csc_of_cols (sd_n d) kcols (fun _ _ => 0%Qc)) /\
    map_ok (sd_n d) kcols (sd_P d) (am_P2K am) /\ map_ok (sd_n d) kcols (am_ATA am) (am_A2K am) /\ map_ok (sd_n d) kcols (am_GTG am) (am_G2K am) /\
    forall i j, i <= j -> j < sd_n d ->
      csc_get K i j = (csc_get (sd_P d) i j + (if i =? j then rho else 0) + 1 / delta * SAd d i j
                       + sum_n (sd_m d) (fun l => (csc_get (sd_GT d) i l * csc_get (sd_GT d) j l)%Qc) * (1 / (1 + delta)))%Qc.
Proof. exact all_create_thm. Qed.
Print Assumptions C13_all_create.

(* ===== init (identity ordering) succeeds and establishes the static invariant ===== *)
Theorem C13_all_init_static : forall d : sdata, wf_sdata d -> sorted_colsb (sd_P d) = true ->
  forall rho delta : F, delta <> 0%Qc -> (1 + delta)%Qc <> 0%Qc -> scal_ok d (unit_scal d rho delta) ->
  exists k, all_init d rho delta None = Ok k /\ all_static d k /\ ak_sc k = unit_scal d rho delta.
Proof. exact all_init_static. Qed.
Print Assumptions C13_all_init_static.

(* ===== (c): update_scalings from init or any later state; W = 1 / (s z_inv + delta) ===== *)
Theorem C13_all_update_scalings_form : forall d : sdata, wf_sdata d -> upper_only (sd_P d) = true -> sorted_colsb (sd_P d) = true ->
  forall (k : akkt) (rho delta : F) (s s_lb s_ub z z_lb z_ub zi zlbi zubi : Vec),
  all_static d k ->
  sd_nlb d <= length s_lb -> sd_nlb d <= length z_lb -> sd_nub d <= length s_ub -> sd_nub d <= length z_ub ->
  vinv z = Ok zi -> vinv (head (sd_nlb d) z_lb) = Ok zlbi -> vinv (head (sd_nub d) z_ub) = Ok zubi ->
  all_scal_ok d (new_scal d (ak_sc k) rho delta s s_lb s_ub zi zlbi zubi) ->
  exists k', all_update_scalings d k rho delta s s_lb s_ub z z_lb z_ub = Ok k' /\
             all_form d (new_scal d (ak_sc k) rho delta s s_lb s_ub zi zlbi zubi) k'.
Proof. exact all_update_scalings_form. Qed.
Print Assumptions C13_all_update_scalings_form.

(* the four refresh calls alone (what update_data runs for any non-zero mask) *)
Theorem C13_all_refresh_form : forall d : sdata, wf_sdata d -> upper_only (sd_P d) = true -> sorted_colsb (sd_P d) = true ->
  forall k : akkt, all_static d k -> all_scal_ok d (ak_sc k) -> exists k', all_refresh d k = Ok k' /\ all_form d (ak_sc k) k'.
Proof. exact all_refresh_form. Qed.
Print Assumptions C13_all_refresh_form.

(* the canonical form denotes the reduced operator K_red = P + (rho + box) I + G^T W G + (1/delta) A^T A of KKTProofs.v *)
Theorem C13_all_form_denotes : forall d : sdata, wf_sdata d -> upper_only (sd_P d) = true ->
  forall (c : scal) (k : akkt), all_form d c k ->
  let K := mkcsc (sd_n d) (sd_n d) (ak_kp k) (ak_ki k) (ak_kx k) in
  wf_csc K = true /\ upper_only K = true /\ diag_is_last K /\
  forall i j, i <= j -> j < sd_n d -> csc_get K i j = a_Kred (sys_sparse d c) i j.
Proof. exact all_form_denotes. Qed.
Print Assumptions C13_all_form_denotes.

(* ===== (b) complete: init leaves the canonical form for unit scalings, box terms included ===== *)
Theorem C13_all_init_form : forall d : sdata, wf_sdata d -> upper_only (sd_P d) = true -> sorted_colsb (sd_P d) = true ->
  forall rho delta : F, delta <> 0%Qc -> (1 + delta)%Qc <> 0%Qc -> scal_ok d (unit_scal d rho delta) ->
  exists k, all_init d rho delta None = Ok k /\ all_form d (unit_scal d rho delta) k.
Proof. exact all_init_form. Qed.
Print Assumptions C13_all_init_form.

(* ===== (d): update_data on new values of the same pattern ===== *)
Theorem C13_all_update_data_form : forall (d : sdata) (k : akkt) (mask : nat) (px ax gx lbs ubs : Vec),
  wf_sdata d -> upper_only (sd_P d) = true -> sorted_colsb (sd_P d) = true -> all_static d k ->
  length px = nnz (sd_P d) -> length ax = nnz (sd_AT d) -> length gx = nnz (sd_GT d) ->
  covers_all mask d px ax gx lbs ubs ->
  let d' := with_all d px ax gx lbs ubs in
  (mask <> 0 -> all_scal_ok d' (ak_sc k)) ->
  exists k', all_update_data d' k mask = Ok k' /\ all_static d' k' /\ ak_sc k' = ak_sc k /\ cache_pat k' k /\
             (mask <> 0 -> all_form d' (ak_sc k) k') /\ (mask = 0 -> k' = k).
Proof. exact all_update_data_form. Qed.
Print Assumptions C13_all_update_data_form.

(* the cached transposes keep the indices of Eigen's transposition: after init, along cache_pat, and under new values *)
Theorem C13_all_canon_caches :
  (forall d rho delta k, all_init d rho delta None = Ok k -> canon_caches d k) /\
  (forall d k k', canon_caches d k -> cache_pat k' k -> canon_caches d k') /\
  (forall d px ax gx lbs ubs k, wf_sdata d -> length ax = nnz (sd_AT d) -> length gx = nnz (sd_GT d) ->
     canon_caches d k -> canon_caches (with_all d px ax gx lbs ubs) k).
Proof. split; [exact canon_init|]. split; [exact canon_pat|exact canon_with_all]. Qed.
Print Assumptions C13_all_canon_caches.

(* T2, non-zero covering mask: update_data alone leaves the stored matrix of a fresh object on the new data with the same scalings *)
Theorem C13_all_update_data_refresh_eq_fresh : forall (d : sdata) (k : akkt) (mask : nat) (px ax gx lbs ubs : Vec),
  wf_sdata d -> upper_only (sd_P d) = true -> sorted_colsb (sd_P d) = true -> all_static d k -> canon_caches d k ->
  length px = nnz (sd_P d) -> length ax = nnz (sd_AT d) -> length gx = nnz (sd_GT d) ->
  covers_all mask d px ax gx lbs ubs -> mask <> 0 ->
  let d' := with_all d px ax gx lbs ubs in
  let c := ak_sc k in
  all_scal_ok d' c -> (1 + sc_delta c)%Qc <> 0%Qc -> scal_ok d' (unit_scal d' (sc_rho c) (sc_delta c)) ->
  exists k' kf, all_update_data d' k mask = Ok k' /\ all_fresh d' c = Ok kf /\
                all_form d' c k' /\ all_form d' c kf /\ canon_caches d' k' /\
                ak_kp k' = ak_kp kf /\ ak_ki k' = ak_ki kf /\ ak_kx k' = ak_kx kf.
Proof. exact all_update_data_eq_fresh. Qed.
Print Assumptions C13_all_update_data_refresh_eq_fresh.

(* T2, any covering mask: update_data followed by update_scalings reaches the canonical form of the NEW data and leaves the stored
   matrix of a fresh init on the new data followed by the same update_scalings *)
Theorem C13_all_update_data_eq_fresh : forall (d : sdata) (k : akkt) (mask : nat) (px ax gx lbs ubs : Vec)
    (rho0 delta0 rho delta : F) (s s_lb s_ub z z_lb z_ub zi zlbi zubi : Vec),
  wf_sdata d -> upper_only (sd_P d) = true -> sorted_colsb (sd_P d) = true -> all_static d k -> canon_caches d k ->
  length px = nnz (sd_P d) -> length ax = nnz (sd_AT d) -> length gx = nnz (sd_GT d) ->
  covers_all mask d px ax gx lbs ubs ->
  let d' := with_all d px ax gx lbs ubs in
  (mask <> 0 -> all_scal_ok d' (ak_sc k)) ->
  delta0 <> 0%Qc -> (1 + delta0)%Qc <> 0%Qc -> scal_ok d' (unit_scal d' rho0 delta0) ->
  sd_nlb d <= length s_lb -> sd_nlb d <= length z_lb -> sd_nub d <= length s_ub -> sd_nub d <= length z_ub ->
  vinv z = Ok zi -> vinv (head (sd_nlb d) z_lb) = Ok zlbi -> vinv (head (sd_nub d) z_ub) = Ok zubi ->
  (forall c0, all_scal_ok d' (new_scal d' c0 rho delta s s_lb s_ub zi zlbi zubi)) ->
  exists k1 k2 k0 k3,
    all_update_data d' k mask = Ok k1 /\ all_update_scalings d' k1 rho delta s s_lb s_ub z z_lb z_ub = Ok k2 /\
    all_init d' rho0 delta0 None = Ok k0 /\ all_update_scalings d' k0 rho delta s s_lb s_ub z z_lb z_ub = Ok k3 /\
    all_form d' (new_scal d' (ak_sc k) rho delta s s_lb s_ub zi zlbi zubi) k2 /\
    ak_kp k2 = ak_kp k3 /\ ak_ki k2 = ak_ki k3 /\ ak_kx k2 = ak_kx k3.
Proof. exact all_update_data_scalings_eq_fresh. Qed.
Print Assumptions C13_all_update_data_eq_fresh.

(* ================================================================ permuted versions (ord = Some perm), conditional on the check *)
(* init under an ordering that passes perm_addr_okb: both runs succeed, the identity-ordered state is canonical, the permuted state is
   its image *)
Theorem C13_all_perm_init_partial : forall (d : sdata), wf_sdata d -> upper_only (sd_P d) = true -> sorted_colsb (sd_P d) = true ->
  forall (rho delta : F) (perm : list nat) (am : allmat),
  delta <> 0%Qc -> (1 + delta)%Qc <> 0%Qc -> scal_ok d (unit_scal d rho delta) ->
  all_create d rho delta = Ok am ->
  perm_addr_okb (sd_n d) (colptr (am_K am)) (rowind (am_K am)) perm = true ->
  exists kid kp, all_init d rho delta None = Ok kid /\ all_init d rho delta (Some perm) = Ok kp /\
                 all_form d (unit_scal d rho delta) kid /\ all_perm_img (sd_n d) perm kid kp /\
                 ak_kp kid = colptr (am_K am) /\ ak_ki kid = rowind (am_K am).
Proof. exact all_init_perm. Qed.
Print Assumptions C13_all_perm_init_partial.

(* the simulation lemmas for this mode's loops: add_vals through the map a2c, diagonal += rho / box loops through the diagonal
   addressing of the permuted pattern, the four refresh calls (cost, equality, inequality incl. the weighted scatter product, box) *)
Theorem C13_all_perm_refresh_sim_partial : forall (d : sdata), wf_sdata d -> upper_only (sd_P d) = true -> sorted_colsb (sd_P d) = true ->
  forall (perm : list nat) (kid kp : akkt),
  all_static d kid -> all_scal_ok d (ak_sc kid) -> all_perm_img (sd_n d) perm kid kp ->
  exists kid' kp', all_refresh d kid = Ok kid' /\ all_refresh d kp = Ok kp' /\ all_form d (ak_sc kid) kid' /\
    ak_A kid' = ak_A kid /\ ak_G kid' = ak_G kid /\ all_perm_img (sd_n d) perm kid' kp'.
Proof. exact img_refresh. Qed.
Print Assumptions C13_all_perm_refresh_sim_partial.

(* (c), permuted *)
Theorem C13_all_perm_update_scalings_form_partial : forall (d : sdata), wf_sdata d -> upper_only (sd_P d) = true -> sorted_colsb (sd_P d) = true ->
  forall (perm : list nat) (kid kp : akkt) (rho delta : F) (s s_lb s_ub z z_lb z_ub zi zlbi zubi : Vec),
  all_static d kid -> all_perm_img (sd_n d) perm kid kp ->
  sd_nlb d <= length s_lb -> sd_nlb d <= length z_lb -> sd_nub d <= length s_ub -> sd_nub d <= length z_ub ->
  vinv z = Ok zi -> vinv (head (sd_nlb d) z_lb) = Ok zlbi -> vinv (head (sd_nub d) z_ub) = Ok zubi ->
  all_scal_ok d (new_scal d (ak_sc kid) rho delta s s_lb s_ub zi zlbi zubi) ->
  exists kid' kp', all_update_scalings d kid rho delta s s_lb s_ub z z_lb z_ub = Ok kid' /\
                   all_update_scalings d kp rho delta s s_lb s_ub z z_lb z_ub = Ok kp' /\
                   all_form d (new_scal d (ak_sc kid) rho delta s s_lb s_ub zi zlbi zubi) kid' /\
                   all_perm_img (sd_n d) perm kid' kp'.
Proof. exact all_perm_update_scalings_form. Qed.
Print Assumptions C13_all_perm_update_scalings_form_partial.

(* what the image of a canonical state denotes: K_red(data, scalings) symmetrically permuted, upper triangle, diagonal last *)
Theorem C13_all_perm_form_denotes_partial : forall (d : sdata), wf_sdata d -> upper_only (sd_P d) = true -> sorted_colsb (sd_P d) = true ->
  forall (c : scal) (perm : list nat) (kid kp : akkt), all_form d c kid -> all_perm_img (sd_n d) perm kid kp ->
  let Kp := mkcsc (sd_n d) (sd_n d) (ak_kp kp) (ak_ki kp) (ak_kx kp) in
  let pv := fun i => nth i (ak_pinv kp) 0 in
  wf_csc Kp = true /\ upper_only Kp = true /\ diag_is_last Kp /\
  length (ak_pinv kp) = sd_n d /\ (forall i, i < sd_n d -> pv i < sd_n d) /\
  (forall i i', i < sd_n d -> i' < sd_n d -> pv i = pv i' -> i = i') /\
  forall i j, i <= j -> j < sd_n d ->
    csc_get Kp (Nat.min (pv i) (pv j)) (Nat.max (pv i) (pv j)) = a_Kred (sys_sparse d c) i j.
Proof. exact all_perm_form_denotes. Qed.
Print Assumptions C13_all_perm_form_denotes_partial.

(* (d), permuted: update_data on both states *)
Theorem C13_all_perm_update_data_form_partial : forall (d : sdata) (perm : list nat) (kid kp : akkt) (mask : nat) (px ax gx lbs ubs : Vec),
  wf_sdata d -> upper_only (sd_P d) = true -> sorted_colsb (sd_P d) = true -> all_static d kid ->
  all_perm_img (sd_n d) perm kid kp ->
  length px = nnz (sd_P d) -> length ax = nnz (sd_AT d) -> length gx = nnz (sd_GT d) ->
  covers_all mask d px ax gx lbs ubs ->
  let d' := with_all d px ax gx lbs ubs in
  (mask <> 0 -> all_scal_ok d' (ak_sc kid)) ->
  exists kid' kp', all_update_data d' kid mask = Ok kid' /\ all_update_data d' kp mask = Ok kp' /\
                   all_static d' kid' /\ ak_sc kid' = ak_sc kid /\ cache_pat kid' kid /\
                   (mask <> 0 -> all_form d' (ak_sc kid) kid') /\
                   ak_kp kid' = ak_kp kid /\ ak_ki kid' = ak_ki kid /\ all_perm_img (sd_n d) perm kid' kp'.
Proof. exact all_perm_update_data_form. Qed.
Print Assumptions C13_all_perm_update_data_form_partial.

(* T2, permuted, non-zero covering mask: ordering, pattern, map and values of a new permuted object on the new data *)
Theorem C13_all_perm_update_data_eq_fresh_partial : forall (d : sdata) (perm : list nat) (kid kp : akkt) (mask : nat) (px ax gx lbs ubs : Vec),
  wf_sdata d -> upper_only (sd_P d) = true -> sorted_colsb (sd_P d) = true -> all_static d kid -> canon_caches d kid ->
  all_perm_img (sd_n d) perm kid kp ->
  length px = nnz (sd_P d) -> length ax = nnz (sd_AT d) -> length gx = nnz (sd_GT d) ->
  covers_all mask d px ax gx lbs ubs -> mask <> 0 ->
  let d' := with_all d px ax gx lbs ubs in
  let c := ak_sc kid in
  all_scal_ok d' c -> (1 + sc_delta c)%Qc <> 0%Qc -> scal_ok d' (unit_scal d' (sc_rho c) (sc_delta c)) ->
  exists kid' kp' kpf, all_update_data d' kid mask = Ok kid' /\ all_update_data d' kp mask = Ok kp' /\ all_fresh_perm d' c perm = Ok kpf /\
                all_form d' c kid' /\ all_perm_img (sd_n d) perm kid' kp' /\
                ak_pinv kp' = ak_pinv kpf /\ ak_kp kp' = ak_kp kpf /\ ak_ki kp' = ak_ki kpf /\ ak_PKi kp' = ak_PKi kpf /\ ak_kx kp' = ak_kx kpf.
Proof. exact all_perm_update_data_eq_fresh. Qed.
Print Assumptions C13_all_perm_update_data_eq_fresh_partial.

(* non-vacuity: the example of Properties_C13_full.v (P 3x3 without stored (1,1), p = m = 1): init under the identity ordering
   and under the ordering (2,0,1); the walk maps the four entries of P_utri to positions 0,1,3,4 of the 5-entry reduced matrix *)
Local Open Scope Qc_scope.
Definition exa_q (a : Z) : F := qofZ a.
Definition exa_d : sdata :=
  mksdata 3 1 1
    (mkcsc 3 3 [0; 1; 2; 4]%nat [0; 0; 1; 2]%nat [exa_q 4; exa_q 1; exa_q (-1); exa_q 3])
    (mkcsc 3 1 [0; 2]%nat [0; 2]%nat [exa_q 1; exa_q 2])
    (mkcsc 3 1 [0; 1]%nat [1]%nat [exa_q 5])
    1 1 [1; 0; 0]%nat [2; 0; 0]%nat [exa_q 2; exa_q 1; exa_q 1] [qmk 1 2; exa_q 1; exa_q 1].
Example exa_create : exists am, all_create exa_d (exa_q 10) (exa_q 7) = Ok am /\
  colptr (am_K am) = [0; 1; 3; 6]%nat /\ rowind (am_K am) = [0; 0; 1; 0; 1; 2]%nat /\ am_P2K am = [0; 1; 4; 5]%nat /\
  am_tmp am = [exa_q 0; exa_q 0; exa_q 0].
Proof. eexists. split. vm_compute. reflexivity. repeat split. Qed.
Example exa_init_perm : exists k, all_init exa_d (exa_q 10) (exa_q 7) (Some [2; 0; 1]%nat) = Ok k /\ ak_pinv k = [1; 2; 0]%nat.
Proof. eexists. split. vm_compute. reflexivity. reflexivity. Qed.

(* update_data with mask A|G (6) on new values of P, A, G and the box scalings: the stored matrix is the one of a fresh object *)
Definition exa_d' : sdata := with_all exa_d [exa_q 6; exa_q (-2); exa_q 1; exa_q 9] [exa_q 3; exa_q (-1)] [exa_q (-4)] [exa_q 3; exa_q 1; exa_q 1] [exa_q 1; exa_q 1; exa_q 1].
Example exa_update_data : exists k k1 kf,
  all_init exa_d (exa_q 10) (exa_q 7) None = Ok k /\ all_update_data exa_d' k 6 = Ok k1 /\ all_fresh exa_d' (ak_sc k) = Ok kf /\
  ak_kx k1 = ak_kx kf /\ ak_ki k1 = ak_ki kf.
Proof. eexists; eexists; eexists. split; [vm_compute; reflexivity|]. split; [vm_compute; reflexivity|]. split; [vm_compute; reflexivity|]. split; vm_compute; reflexivity. Qed.

(* the check holds on the example's reduced pattern for the ordering (2,0,1): the hypotheses of the *_partial theorems are satisfiable *)
Example exa_perm_check : perm_addr_okb 3 [0; 1; 3; 6]%nat [0; 0; 1; 0; 1; 2]%nat [2; 0; 1]%nat = true.
Proof. vm_compute. reflexivity. Qed.
Example exa_perm_fresh : exists k kp kf, all_init exa_d (exa_q 10) (exa_q 7) (Some [2; 0; 1]%nat) = Ok k /\
  all_update_data exa_d' k 6 = Ok kp /\ all_fresh_perm exa_d' (ak_sc k) [2; 0; 1]%nat = Ok kf /\ ak_kx kp = ak_kx kf /\ ak_ki kp = ak_ki kf.
Proof. eexists; eexists; eexists. split; [vm_compute; reflexivity|]. split; [vm_compute; reflexivity|]. split; [vm_compute; reflexivity|]. split; vm_compute; reflexivity. Qed.
