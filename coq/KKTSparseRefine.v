(* KKTSparseRefine.v -- the iterative-refinement half of include/piqp/sparse/kkt.hpp, for the four KKTModes:
     KKT::regularize_and_factorize(iterative_refinement)   [kkt_factorize_r]
       static_kkt_diag_max over the stored diagonal of P_utri, max over the s / z ratios (general and box rows),
       reg = eps + rel * max_diag, regularize_kkt(reg), numeric factorisation, unregularize_kkt()
     KKT::regularize_kkt / KKT::unregularize_kkt            [kkt_regularize / kkt_unregularize]
     KKT::solve(.., iterative_refinement)                    [kkt_solve_r]
       condensation of the right-hand side, ordering.perm, first LDL^T solve, the refinement loop on the permuted
       UNregularised matrix PKPt (residual through the two triangular-view products, lpNorm<Infinity>, stopping test,
       max_iter, min_improvement_rate, keep-only-if-improved), ordering.permt, recovery of the eliminated blocks
   on top of KKTSparseSolve.v (which transcribes the same functions with iterative_refinement = false and is not modified:
   [kkt_solve_with] below is the text of [kkt_solve] with the LDL^T solve replaced by a parameter, and
   kkt_solve_with (ldl_solve st) is convertible with kkt_solve -- KKTSparseRefineProofs.solve_with_plain).

   Executable Gallina; structural recursion only: the refinement loop recurses on fuel = iterative_refinement_max_iter.

   Modelling decisions (all visible to the correspondence stage tools/kktrefine_stage.py):
   * the two products  PKPt.triangularView<Upper>() * v  and  PKPt.transpose().triangularView<StrictlyLower>() * v  are
     modelled by their mathematical value ([ksym_mv]: row i gets  sum_{j >= i} K(i,j) v_j + sum_{j < i} K(j,i) v_j  with
     K(i,j) = csc_get = sum of the stored entries at (i,j)); Eigen's kernels are not PIQP code, summation order is
     immaterial in exact arithmetic.  err = rhs - U v - L v is evaluated as rhs - (U v + L v).
   * improvement_rate = prev_error_norm / error_norm with error_norm = 0:  IEEE arithmetic gives +inf (prev > 0) or NaN
     (prev = 0, possible only with a negative tolerance); both compare "not < min_improvement_rate", so the candidate is
     accepted and the loop goes on.  The model encodes exactly this ([qeqb en2 0] branch) instead of Err DivZero -- the same
     decision as coq/KKTDense.v; the exact scalar of the harness follows the IEEE rules for x / 0.
   * kkt_diag (scratch of regularize_kkt / unregularize_kkt) is not part of the state: it is created with filler 0 for every
     factorisation (every slot is written before it is read).  std::swap(sol_perm, ref_sol_perm) is modelled by passing
     the accepted candidate on; the contents of the work vectors after solve are not observable.
   * the PIQP_VERIF fault-injection hook at the top of regularize_and_factorize is not modelled (it is off in the stage).
   * iterative_refinement_max_iter is an isize: [rs_max_iter : Z]; the loop is entered iff it is > 0. *)
From PIQP Require Import Base CSC LDLSparse KKTSparseFull KKTSparseAll KKTSparseEq KKTSparseIneq KKTSparseSolve.
Local Open Scope Qc_scope.

(* the six Settings fields read by this code *)
Record rset := mkrset {
  rs_reg_eps : F;       (* iterative_refinement_static_regularization_eps *)
  rs_reg_rel : F;       (* iterative_refinement_static_regularization_rel *)
  rs_eps_abs : F;       (* iterative_refinement_eps_abs *)
  rs_eps_rel : F;       (* iterative_refinement_eps_rel *)
  rs_max_iter : Z;      (* iterative_refinement_max_iter *)
  rs_min_rate : F       (* iterative_refinement_min_improvement_rate *)
}.

Definition set_vals (K : csc F) (kx : Vec) : csc F := mkcsc (nrows K) (ncols K) (colptr K) (rowind K) kx.

(* ---------- regularize_and_factorize(true): the regularisation parameter ---------- *)
(* for col < n: if the column of P_utri is non-empty and its LAST stored entry is the diagonal: max with its value *)
Definition static_diag_max (d : sdata) : res F :=
  let P := sd_P d in
  for_range 0 (sd_n d) (fun col mx =>
    do lo <- get (colptr P) col ;; do hi <- get (colptr P) (S col) ;;
    if (lo <? hi)%nat then
      do r <- get (rowind P) (hi - 1) ;;
      if (r =? col)%nat then do v <- get (vals P) (hi - 1) ;; Ok (qmax mx v) else Ok mx
    else Ok mx) 0.

(* for i < k: max_diag = std::max(max_diag, z_inv(i) * s(i)) *)
Definition max_ratio (k : nat) (zinv s : Vec) (mx : F) : res F :=
  for_range 0 k (fun i mx => do zi <- get zinv i ;; do si <- get s i ;; Ok (qmax mx (zi * si))) mx.

Definition kkt_reg (rs : rset) (d : sdata) (c : scal) : res F :=
  do m0 <- static_diag_max d ;;
  do m1 <- max_ratio (sd_m d) (sc_z_inv c) (sc_s c) m0 ;;
  do m2 <- max_ratio (sd_nlb d) (sc_z_lb_inv c) (sc_s_lb c) m1 ;;
  do m3 <- max_ratio (sd_nub d) (sc_z_ub_inv c) (sc_s_ub c) m2 ;;
  Ok (rs_reg_eps rs + rs_reg_rel rs * m3).

(* ---------- regularize_kkt / unregularize_kkt ---------- *)
(* kkt_diag(col) = PKPt.valuePtr()[PKPt.outerIndexPtr()[col + 1] - 1], col < N *)
Definition save_diag (kp : list nat) (N : nat) (kx kd0 : Vec) : res Vec :=
  for_range 0 N (fun col kd => do e <- get kp (S col) ;; do q <- pred_chk e ;; do v <- get kx q ;; upd kd col v) kd0.

(* for col in [lo, hi): PKPt.valuePtr()[PKPt.outerIndexPtr()[ordering.inv(col) + 1] - 1] += sh   (neg: -= sh) *)
Definition shift_diag (pinv kp : list nat) (lo hi : nat) (sh : F) (neg : bool) (kx : Vec) : res Vec :=
  for_range lo hi (fun col kx =>
    do q <- dpos pinv kp col ;; do old <- get kx q ;; upd kx q (if neg then old - sh else old + sh)) kx.

(* n = data.n, N = kkt_size(), pinv = ordering.inv; returns the regularised matrix and kkt_diag *)
Definition kkt_regularize (n N : nat) (pinv : list nat) (rho delta reg : F) (K : csc F) (kd0 : Vec) : res (csc F * Vec) :=
  do kd <- save_diag (colptr K) N (vals K) kd0 ;;
  let rho_reg := qmax 0 (reg - rho) in
  do kx <- shift_diag pinv (colptr K) 0 n rho_reg false (vals K) ;;
  let delta_reg := qmax 0 (reg - delta) in
  do kx <- shift_diag pinv (colptr K) n N delta_reg true kx ;;
  Ok (set_vals K kx, kd).

(* PKPt.valuePtr()[PKPt.outerIndexPtr()[col + 1] - 1] = kkt_diag(col), col < N *)
Definition restore_diag (kp : list nat) (N : nat) (kd kx : Vec) : res Vec :=
  for_range 0 N (fun col kx => do e <- get kp (S col) ;; do q <- pred_chk e ;; do v <- get kd col ;; upd kx q v) kx.

Definition kkt_unregularize (N : nat) (K : csc F) (kd : Vec) : res (csc F) :=
  do kx <- restore_diag (colptr K) N kd (vals K) ;; Ok (set_vals K kx).

(* ---------- regularize_and_factorize(iterative_refinement) ---------- *)
(* returns the success flag, the LDL^T object and the matrix PKPt as the call leaves it *)
Definition kkt_factorize_r (rs : rset) (refine : bool) (md : kmode) (d : sdata) (c : scal) (o : ordering) (K : csc F)
    (st : ldl_i * ldl_v) : res (bool * (ldl_i * ldl_v) * csc F) :=
  if refine then
    let N := mode_N md d in
    do reg <- kkt_reg rs d c ;;
    do '(Kr, kd) <- kkt_regularize (sd_n d) N (oPinv o) (sc_rho c) (sc_delta c) reg K (repeat 0 N) ;;
    do '(r, st') <- numeric Kr st ;;
    do K' <- kkt_unregularize N Kr kd ;;
    Ok ((r =? ncols Kr)%nat, st', K')
  else
    do '(ok, st') <- kkt_factorize K st ;; Ok (ok, st', K).

(* ---------- the refinement loop ---------- *)
(* PKPt.triangularView<Upper>() * v + PKPt.transpose().triangularView<StrictlyLower>() * v *)
Definition ksym_mv (K : csc F) (v : Vec) : Vec :=
  map (fun i => fsum (ncols K) (fun j => (if (i <=? j)%nat then csc_get K i j else csc_get K j i) * nth j v 0)) (seq 0 (nrows K)).

(* err_corr_perm = rhs_perm; err_corr_perm -= U * sol; err_corr_perm -= L * sol *)
Definition kresid (K : csc F) (rhs sol : Vec) : Vec :=
  map (fun i => nth i rhs 0 - nth i (ksym_mv K sol) 0) (seq 0 (length rhs)).

(* one pass of the body of the for loop for every unit of fuel; [sol] = sol_perm, [err_corr] = err_corr_perm,
   [error_norm] = its infinity norm.  Result: the content of sol_perm after the loop *)
Fixpoint refine_loop (rs : rset) (K : csc F) (st : ldl_i * ldl_v) (rhs : Vec) (rhs_norm : F)
    (fuel : nat) (sol err_corr : Vec) (error_norm : F) : res Vec :=
  match fuel with
  | O => Ok sol
  | S f =>
    if qleb error_norm (rs_eps_abs rs + rs_eps_rel rs * rhs_norm) then Ok sol       (* break *)
    else
      do corr <- ldl_solve st err_corr ;;                                            (* solve_ldlt_in_place(err_corr_perm) *)
      let ref_sol := vadd sol corr in                                                (* ref_sol_perm = sol_perm + err_corr_perm *)
      let err2 := kresid K rhs ref_sol in
      let en2 := norm_inf err2 in
      if qeqb en2 0 then refine_loop rs K st rhs rhs_norm f ref_sol err2 en2         (* rate = +inf / NaN: accepted *)
      else
        do rate <- qdiv error_norm en2 ;;                                            (* prev_error_norm / error_norm *)
        if qltb rate (rs_min_rate rs) then
          (if qltb 1 rate then Ok ref_sol else Ok sol)                               (* swap only if improved; break *)
        else refine_loop rs K st rhs rhs_norm f ref_sol err2 en2                     (* swap, next iteration *)
  end.

(* sol_perm = rhs_perm; solve_ldlt_in_place(sol_perm); if (iterative_refinement && max_iter > 0) { .. loop .. } *)
Definition refined_solve (rs : rset) (refine : bool) (K : csc F) (st : ldl_i * ldl_v) (rhs_perm : Vec) : res Vec :=
  do sol0 <- ldl_solve st rhs_perm ;;
  if refine && (0 <? rs_max_iter rs)%Z then
    do _ <- chk_eq (length rhs_perm) sol0 ;;
    do _ <- (if (nrows K =? length rhs_perm)%nat && (ncols K =? length rhs_perm)%nat then Ok tt else Err Shape) ;;
    let err := kresid K rhs_perm sol0 in
    refine_loop rs K st rhs_perm (norm_inf rhs_perm) (Z.to_nat (rs_max_iter rs)) sol0 err (norm_inf err)
  else Ok sol0.

(* ---------- solve: the text of KKTSparseSolve.kkt_solve with the linear solve as a parameter ---------- *)
Definition kkt_solve_with (lin : Vec -> res Vec) (md : kmode) (d : sdata) (c : scal) (o : ordering) (r : step8) : res step8 :=
  let n := sd_n d in let p := sd_p d in let m := sd_m d in
  let N := mode_N md d in
  let delta := sc_delta c in
  do _ <- chk_eq n (t_x r) ;; do _ <- chk_eq p (t_y r) ;; do _ <- chk_eq m (t_z r) ;; do _ <- chk_eq m (t_s r) ;;
  do _ <- chk_eq m (sc_s c) ;; do _ <- chk_eq m (sc_z_inv c) ;;
  do zbar <- tab m (fun i => do a <- get (t_z r) i ;; do zi <- get (sc_z_inv c) i ;; do b <- get (t_s r) i ;; Ok (a - zi * b)) ;;
  do '(dinv, zbar, rhs) <-
    match md with
    | MFull => Ok (0, zbar, t_x r ++ t_y r ++ zbar)
    | MEq =>
      do dinv <- qdiv 1 delta ;;
      do hd <- tab n (fun i => do a <- get (t_x r) i ;; do b <- get (spmv (sd_AT d) (t_y r)) i ;; Ok (a + dinv * b)) ;;
      Ok (dinv, zbar, hd ++ zbar)
    | MIneq =>
      do zbar <- div_w m (sc_s c) (sc_z_inv c) delta zbar ;;
      do hd <- tab n (fun i => do a <- get (t_x r) i ;; do b <- get (spmv (sd_GT d) zbar) i ;; Ok (a + b)) ;;
      Ok (0, zbar, hd ++ t_y r)
    | MAll =>
      do dinv <- qdiv 1 delta ;;
      do zbar <- div_w m (sc_s c) (sc_z_inv c) delta zbar ;;
      do hd <- tab n (fun i => do a <- get (t_x r) i ;; do b <- get (spmv (sd_GT d) zbar) i ;;
                               do e <- get (spmv (sd_AT d) (t_y r)) i ;; Ok (a + b + dinv * e)) ;;
      Ok (dinv, zbar, hd)
    end ;;
  do rhs <- fold_box (sd_nlb d) (sd_lbidx d) (sd_lbs d) (t_zlb r) (t_slb r) (sc_z_lb_inv c) (sc_s_lb c) delta true rhs ;;
  do rhs <- fold_box (sd_nub d) (sd_ubidx d) (sd_ubs d) (t_zub r) (t_sub r) (sc_z_ub_inv c) (sc_s_ub c) delta false rhs ;;
  do rhs_perm <- ord_perm o (repeat 0 N) rhs ;;
  do sol_perm <- lin rhs_perm ;;
  do sol <- ord_permt o rhs sol_perm ;;
  let dx := head n sol in
  do '(dy, dz) <-
    match md with
    | MFull => Ok (segment n p sol, tail_from (n + p) sol)
    | MEq =>
      do dy <- tab p (fun l => do a <- get (spmtv (sd_AT d) dx) l ;; do b <- get (t_y r) l ;; Ok (dinv * a - dinv * b)) ;;
      Ok (dy, tail_from n sol)
    | MIneq =>
      do g <- div_w m (sc_s c) (sc_z_inv c) delta (spmtv (sd_GT d) dx) ;;
      do dz <- tab m (fun l => do a <- get g l ;; do b <- get zbar l ;; Ok (a - b)) ;;
      Ok (tail_from n sol, dz)
    | MAll =>
      do dy <- tab p (fun l => do a <- get (spmtv (sd_AT d) dx) l ;; do b <- get (t_y r) l ;; Ok (dinv * a - dinv * b)) ;;
      do g <- div_w m (sc_s c) (sc_z_inv c) delta (spmtv (sd_GT d) dx) ;;
      do dz <- tab m (fun l => do a <- get g l ;; do b <- get zbar l ;; Ok (a - b)) ;;
      Ok (dy, dz)
    end ;;
  do dzlb <- rec_box (sd_nlb d) (sd_lbidx d) (sd_lbs d) (t_zlb r) (t_slb r) (sc_z_lb_inv c) (sc_s_lb c) delta true dx ;;
  do dzub <- rec_box (sd_nub d) (sd_ubidx d) (sd_ubs d) (t_zub r) (t_sub r) (sc_z_ub_inv c) (sc_s_ub c) delta false dx ;;
  do ds <- rec_slack m (sc_s c) (sc_z_inv c) (t_s r) dz ;;
  do dslb <- rec_slack (sd_nlb d) (sc_s_lb c) (sc_z_lb_inv c) (t_slb r) dzlb ;;
  do dsub <- rec_slack (sd_nub d) (sc_s_ub c) (sc_z_ub_inv c) (t_sub r) dzub ;;
  Ok (mkstep8 dx dy dz dzlb dzub ds dslb dsub).

(* KKT::solve(.., iterative_refinement); K = PKPt as the last regularize_and_factorize left it *)
Definition kkt_solve_r (rs : rset) (refine : bool) (md : kmode) (d : sdata) (c : scal) (o : ordering) (K : csc F)
    (st : ldl_i * ldl_v) (r : step8) : res step8 :=
  kkt_solve_with (refined_solve rs refine K st) md d c o r.

(* ---------- observers used by the theorems (not by the code) ---------- *)
(* the permuted right-hand side handed to the linear solve, and the permuted solution the loop returns *)
Definition kres_norm (K : csc F) (rhs sol : Vec) : F := norm_inf (kresid K rhs sol).

(* number of LDL^T solves performed by the loop (same control flow as refine_loop) *)
Fixpoint refine_solves (rs : rset) (K : csc F) (st : ldl_i * ldl_v) (rhs : Vec) (rhs_norm : F)
    (fuel : nat) (sol err_corr : Vec) (error_norm : F) : res nat :=
  match fuel with
  | O => Ok O
  | S f =>
    if qleb error_norm (rs_eps_abs rs + rs_eps_rel rs * rhs_norm) then Ok O
    else
      do corr <- ldl_solve st err_corr ;;
      let ref_sol := vadd sol corr in
      let err2 := kresid K rhs ref_sol in
      let en2 := norm_inf err2 in
      if qeqb en2 0 then do k <- refine_solves rs K st rhs rhs_norm f ref_sol err2 en2 ;; Ok (S k)
      else
        do rate <- qdiv error_norm en2 ;;
        if qltb rate (rs_min_rate rs) then Ok 1%nat
        else do k <- refine_solves rs K st rhs rhs_norm f ref_sol err2 en2 ;; Ok (S k)
  end.

(* how the loop ended *)
Inductive rstop := StopTol | StopFuel | StopRate.
Fixpoint refine_stop (rs : rset) (K : csc F) (st : ldl_i * ldl_v) (rhs : Vec) (rhs_norm : F)
    (fuel : nat) (sol err_corr : Vec) (error_norm : F) : res rstop :=
  match fuel with
  | O => Ok StopFuel
  | S f =>
    if qleb error_norm (rs_eps_abs rs + rs_eps_rel rs * rhs_norm) then Ok StopTol
    else
      do corr <- ldl_solve st err_corr ;;
      let ref_sol := vadd sol corr in
      let err2 := kresid K rhs ref_sol in
      let en2 := norm_inf err2 in
      if qeqb en2 0 then refine_stop rs K st rhs rhs_norm f ref_sol err2 en2
      else
        do rate <- qdiv error_norm en2 ;;
        if qltb rate (rs_min_rate rs) then Ok StopRate
        else refine_stop rs K st rhs rhs_norm f ref_sol err2 en2
  end.
