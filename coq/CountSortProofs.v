(* CountSortProofs.v -- generic facts used by the all-sizes C14 proofs (PermuteGenProofs.v):
   nested CSC loops as one loop over positions, the column of a position, and the arithmetic of a stable
   counting sort (bucket starts, positions, injectivity / surjectivity of the position map). *)
From PIQP Require Import Base CSC C14LemmasProofs CSCProofs TransposeProofs PermuteProofs.
Require Import ZifyBool Permutation.
Local Open Scope nat_scope.

(* ---------- nested loop over the positions of a compressed structure ---------- *)
Lemma nested_ind {S} n (P : list nat) (I : nat -> S -> Prop) (outer : nat -> S -> res S) (body : nat -> nat -> S -> res S) s :
  (forall j, j < n -> nth j P 0 <= nth (Datatypes.S j) P 0) ->
  (forall j st, j < n -> outer j st = for_range (nth j P 0) (nth (Datatypes.S j) P 0) (body j) st) ->
  I (nth 0 P 0) s ->
  (forall j K s, j < n -> nth j P 0 <= K < nth (Datatypes.S j) P 0 -> I K s -> exists s', body j K s = Ok s' /\ I (Datatypes.S K) s') ->
  exists s', for_range 0 n outer s = Ok s' /\ I (nth n P 0) s'.
Proof.
  intros Hmono Hout H0 Hstep.
  destruct (for_range_ind (fun j st => I (nth j P 0) st) 0 n outer s) as (s' & E & HI).
  - lia.
  - exact H0.
  - intros j st [_ Hj] HIj. rewrite Hout by auto.
    destruct (for_range_ind I (nth j P 0) (nth (Datatypes.S j) P 0) (body j) st) as (s' & E & HI).
    + apply Hmono; auto.
    + exact HIj.
    + intros K s0 HK HIK. apply (Hstep j); auto.
    + eauto.
  - eauto.
Qed.

(* ---------- monotone pointer arrays and the column of a position ---------- *)
Section ColOf.
Variable P : list nat.
Variable n : nat.
Hypothesis Pmono : forall j, j < n -> nth j P 0 <= nth (S j) P 0.

Lemma P_le i j : i <= j -> j <= n -> nth i P 0 <= nth j P 0.
Proof. intros Hij Hj. induction Hij; auto. specialize (IHHij ltac:(lia)). specialize (Pmono m ltac:(lia)). lia. Qed.

Lemma filter_all {A} (f : A -> bool) l : (forall a, In a l -> f a = true) -> filter f l = l.
Proof. induction l; intros H; simpl; auto. rewrite (H a) by (left; auto). f_equal. apply IHl. intros; apply H; right; auto. Qed.

Lemma filter_lt_seq j m : j <= m -> filter (fun x => x <? j) (seq 0 m) = seq 0 j.
Proof.
  induction m; intros H.
  - replace j with 0 by lia. reflexivity.
  - rewrite seq_S, filter_app. simpl. destruct (Nat.ltb_spec m j).
    + replace j with (S m) by lia. rewrite seq_S. f_equal.
      apply filter_all. intros a Ha. apply in_seq in Ha. apply Nat.ltb_lt. lia.
    + rewrite app_nil_r. apply IHm. lia.
Qed.

Lemma col_of_in j q : j < n -> nth j P 0 <= q < nth (S j) P 0 -> col_of P n q = j.
Proof.
  intros Hj Hq. unfold col_of.
  rewrite (filter_ext_in _ (fun x => x <? j)).
  - rewrite filter_lt_seq by lia. apply seq_length.
  - intros a Ha. apply in_seq in Ha. destruct (Nat.leb_spec (nth (S a) P 0) q), (Nat.ltb_spec a j); auto.
    + assert (nth (S j) P 0 <= nth (S a) P 0) by (apply P_le; lia). lia.
    + assert (nth (S a) P 0 <= nth j P 0) by (apply P_le; lia). lia.
Qed.

Lemma col_unique j j' q : j < n -> j' < n -> nth j P 0 <= q < nth (S j) P 0 -> nth j' P 0 <= q < nth (S j') P 0 -> j = j'.
Proof. intros Hj Hj' H1 H2. rewrite <- (col_of_in j q Hj H1). apply col_of_in; auto. Qed.

(* every position below the last pointer lies in some column *)
Lemma col_exists q : nth 0 P 0 <= q < nth n P 0 -> exists j, j < n /\ nth j P 0 <= q < nth (S j) P 0.
Proof.
  induction n as [|m IH]; intros Hq; [lia|].
  destruct (Nat.lt_ge_cases q (nth m P 0)).
  - destruct IH as (j & Hj & Hr); auto. lia. exists j. split; auto.
  - exists m. split; auto. lia.
Qed.
End ColOf.

(* pointwise monotone => nondecb *)
Lemma nondecb_of_mono l : (forall j, S j < length l -> nth j l 0 <= nth (S j) l 0) -> nondecb l = true.
Proof.
  induction l as [|a l IH]; intros H; auto.
  destruct l as [|b l]; auto.
  change (((a <=? b) && nondecb (b :: l)) = true). apply andb_true_iff. split.
  - apply Nat.leb_le. apply (H 0). simpl; lia.
  - apply IH. intros j Hj. apply (H (S j)). simpl in *; lia.
Qed.

Lemma NoDup_map_inj_in {A B} (f : A -> B) l :
  (forall a b, In a l -> In b l -> f a = f b -> a = b) -> NoDup l -> NoDup (map f l).
Proof.
  induction l; intros Hinj Hnd; simpl. constructor.
  inversion Hnd; subst. constructor.
  - intros Hin. apply in_map_iff in Hin. destruct Hin as (b & E & Hb).
    assert (b = a) by (apply Hinj; auto; [right; auto|left; auto]). subst. contradiction.
  - apply IHl; auto. intros; apply Hinj; auto; right; auto.
Qed.

(* ---------- nsum ---------- *)
Lemma nsum_map_add {A} (f g : A -> nat) l : nsum (map (fun r => f r + g r) l) = nsum (map f l) + nsum (map g l).
Proof. induction l; simpl; lia. Qed.
Lemma nsum_map_zero {A} (f : A -> nat) l : (forall a, In a l -> f a = 0) -> nsum (map f l) = 0.
Proof. induction l; intros H; simpl; auto. rewrite (H a) by (left; auto). rewrite IHl; auto. intros; apply H; right; auto. Qed.
Lemma nsum_ind m x : x < m -> nsum (map (fun r => if x =? r then 1 else 0) (seq 0 m)) = 1.
Proof.
  induction m; intros H; [lia|]. rewrite seq_S, map_app. cbn [map]. rewrite nsum_app1. simpl.
  destruct (Nat.eqb_spec x m).
  - subst. rewrite nsum_map_zero; auto. intros a Ha. apply in_seq in Ha. destruct (Nat.eqb_spec m a); lia.
  - rewrite IHm by lia. lia.
Qed.

(* ---------- the arithmetic of a stable counting sort ---------- *)
Section CountSort.
Variable key : nat -> nat.
Variables N n : nat.
Hypothesis key_lt : forall k, k < N -> key k < n.

(* number of positions below K with key r *)
Definition cntk (K r : nat) : nat := length (filter (fun k => key k =? r) (seq 0 K)).

Lemma cntk_S K r : cntk (S K) r = cntk K r + (if key K =? r then 1 else 0).
Proof. unfold cntk. rewrite seq_S, filter_app, app_length. simpl. destruct (key K =? r); reflexivity. Qed.
Lemma cntk_le K K' r : K <= K' -> cntk K r <= cntk K' r.
Proof. intros H. induction H; auto. rewrite cntk_S. lia. Qed.
Lemma cntk_lt k K : k < K -> cntk k (key k) < cntk K (key k).
Proof. intros H. pose proof (cntk_le (S k) K (key k) H) as L. rewrite cntk_S, Nat.eqb_refl in L. lia. Qed.

Definition start (r : nat) : nat := nsum (map (cntk N) (seq 0 r)).
Lemma start_0 : start 0 = 0.
Proof. reflexivity. Qed.
Lemma start_S r : start (S r) = start r + cntk N r.
Proof. unfold start. rewrite seq_S, map_app. cbn [map]. now rewrite nsum_app1. Qed.
Lemma start_le r r' : r <= r' -> start r <= start r'.
Proof. intros H. induction H; auto. rewrite start_S. lia. Qed.

Lemma sum_cnt K : K <= N -> nsum (map (cntk K) (seq 0 n)) = K.
Proof.
  induction K; intros H.
  - apply nsum_map_zero. intros; reflexivity.
  - rewrite (map_ext _ (fun r => cntk K r + (if key K =? r then 1 else 0))) by (intros; apply cntk_S).
    rewrite nsum_map_add, IHK by lia. rewrite nsum_ind. lia. apply key_lt. lia.
Qed.
Lemma start_n : start n = N.
Proof. apply sum_cnt. lia. Qed.

(* position of entry k in the sorted order *)
Definition pos (k : nat) : nat := start (key k) + cntk k (key k).

Lemma pos_range k : k < N -> start (key k) <= pos k < start (S (key k)).
Proof. intros H. unfold pos. rewrite start_S. pose proof (cntk_lt k N H). lia. Qed.
Lemma pos_lt k : k < N -> pos k < N.
Proof.
  intros H. pose proof (pos_range k H). pose proof (key_lt k H).
  assert (start (S (key k)) <= start n) by (apply start_le; lia). rewrite start_n in *. lia.
Qed.
Lemma bucket_of_pos k r : k < N -> start r <= pos k < start (S r) -> key k = r.
Proof.
  intros H Hr. pose proof (pos_range k H).
  destruct (Nat.lt_trichotomy (key k) r) as [L|[E|G]]; auto.
  - assert (start (S (key k)) <= start r) by (apply start_le; lia). lia.
  - assert (start (S r) <= start (key k)) by (apply start_le; lia). lia.
Qed.
Lemma pos_inj_lt k k' : k < k' -> k' < N -> pos k <> pos k'.
Proof.
  intros Hk Hk' E. pose proof (pos_range k ltac:(lia)) as R. pose proof (pos_range k' Hk') as R'.
  assert (Ek : key k = key k'). { apply bucket_of_pos; [lia|]. rewrite E. auto. }
  unfold pos in E. rewrite Ek in E. pose proof (cntk_lt k k' Hk) as L. rewrite Ek in L. lia.
Qed.
Lemma pos_inj k k' : k < N -> k' < N -> pos k = pos k' -> k = k'.
Proof.
  intros Hk Hk' E. destruct (Nat.lt_trichotomy k k') as [L|[L|L]]; auto.
  - exfalso. eapply pos_inj_lt; eauto.
  - exfalso. eapply (pos_inj_lt k' k); eauto.
Qed.
Lemma pos_surj q : q < N -> exists k, k < N /\ pos k = q.
Proof.
  intros Hq.
  assert (Hnd : NoDup (map pos (seq 0 N))).
  { apply NoDup_map_inj_in; [|apply seq_NoDup].
    intros a b Ha Hb. apply in_seq in Ha, Hb. apply pos_inj; lia. }
  assert (Hin : In q (map pos (seq 0 N))).
  { apply (NoDup_length_incl Hnd (l' := seq 0 N)).
    - rewrite map_length; lia.
    - intros y Hy. apply in_map_iff in Hy. destruct Hy as (k & <- & Hk). apply in_seq in Hk. apply in_seq. pose proof (pos_lt k). lia.
    - apply in_seq; lia. }
  apply in_map_iff in Hin. destruct Hin as (k & E & Hk). apply in_seq in Hk. exists k. split; auto; lia.
Qed.
End CountSort.

(* ---------- sums are invariant under permutations ---------- *)
Lemma qsum_perm (f : nat -> F) l l' : Permutation l l' -> qsum (map f l) = qsum (map f l').
Proof.
  induction 1; simpl; auto.
  - unfold qsum in *; simpl. now rewrite IHPermutation.
  - unfold qsum; simpl. fring.
  - congruence.
Qed.

Lemma qsum_window (g : nat -> F) lo len N : lo + len <= N ->
  qsum (map g (seq lo len)) = qsum (map (fun q => if (lo <=? q) && (q <? lo + len) then g q else 0%Qc) (seq 0 N)).
Proof.
  intros H. assert (E : exists r, N = lo + (len + r)) by (exists (N - lo - len); lia). destruct E as [r ->].
  set (f := fun q => if (lo <=? q) && (q <? lo + len) then g q else 0%Qc).
  rewrite seq_app, map_app, qsum_app. rewrite seq_app, map_app, qsum_app. simpl.
  rewrite (qsum_map_zero f (seq 0 lo)).
  2:{ intros p Hp. apply in_seq in Hp. unfold f. destruct (Nat.leb_spec lo p); auto. lia. }
  rewrite (qsum_map_zero f (seq (lo + len) _)).
  2:{ intros p Hp. apply in_seq in Hp. unfold f. destruct (Nat.ltb_spec p (lo + len)); [lia|]. now rewrite andb_false_r. }
  rewrite (qsum_map_ext f g (seq lo len)).
  2:{ intros p Hp. apply in_seq in Hp. unfold f. destruct (Nat.leb_spec lo p), (Nat.ltb_spec p (lo + len)); auto; lia. }
  fring.
Qed.
