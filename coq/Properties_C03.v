(* Properties_C03.v -- C03 "Verdicts are never contradicted by exact ground truth".
   T3: the ground truth is proved, not trusted -- soundness of the exact checkers of Certs.v, for all sizes.
   T1/T2: margins -- a Farkas certificate / recession direction bounds the primal / dual residual of EVERY point from
   below, so the SOLVED test cannot pass on such a problem unless the iterate is huge.
   The heuristic half (no false infeasibility verdict) is CertsPartial.no_false_infeasible_partial: a Definition of the
   statement, not proved, decided by exploration (tools/props/c03.py). *)
From PIQP Require Import Base LinAlg Certs CertsProofs CertsExample CertsPartial.
Local Open Scope Qc_scope.

(* exact PSD test (LDL^T-style on the upper triangle, zero pivots allowed) is sound: for every size k and every matrix
   (read through its upper triangle) acceptance implies x'Mx >= 0 for the symmetric completion M, for every x *)
Theorem psd_test_sound :
  forall k (f : nat -> nat -> F), psd_fn k f = true ->
  forall x : nat -> F, 0 <= sum k (fun i => sum k (fun j => symc f i j * x i * x j)).
Proof. exact psd_fn_sound. Qed.
Print Assumptions psd_test_sound.

Theorem is_psd_is_sound :
  forall pb, is_psd pb = true -> forall x : nat -> F, 0 <= sum (q_n pb) (fun i => x i * Pmul pb x i).
Proof. exact is_psd_sound. Qed.
Print Assumptions is_psd_is_sound.

(* an accepted KKT point of a problem with accepted PSD test is feasible and a global minimiser *)
Theorem kkt_point_is_optimal :
  forall pb (x y z zl zu : Vec),
  is_kkt_point pb x y z zl zu = true -> is_psd pb = true ->
  feasible pb (el x) /\ forall x' : nat -> F, feasible pb x' -> objective pb (el x) <= objective pb x'.
Proof. exact kkt_point_is_optimal_proof. Qed.
Print Assumptions kkt_point_is_optimal.

(* an accepted Farkas certificate excludes every feasible point *)
Theorem farkas_excludes_feasible :
  forall pb (y z zl zu : Vec), is_farkas pb y z zl zu = true -> forall x : nat -> F, ~ feasible pb x.
Proof. exact farkas_excludes_feasible_proof. Qed.
Print Assumptions farkas_excludes_feasible.

(* an accepted recession direction makes every feasible problem unbounded below *)
Theorem recession_unbounded :
  forall pb (d : Vec), is_recession pb d = true ->
  forall x0 : nat -> F, feasible pb x0 -> forall M : F, exists x, feasible pb x /\ objective pb x < M.
Proof. exact recession_unbounded_proof. Qed.
Print Assumptions recession_unbounded.

(* T1: at every point x with slacks s, s_lb, s_ub >= 0 the max-norm of the primal residuals
   (Ax-b, Gx+s-h, lb-x+s_lb, x+s_ub-ub) times ||(y,z,z_lb,z_ub)||_1 is at least minus the certificate value *)
Theorem farkas_margin :
  forall pb (y z zl zu : Vec), is_farkas pb y z zl zu = true ->
  forall x s sl su : nat -> F, slacks_nonneg pb s sl su ->
  - farkas_val pb y z zl zu <= primal_resid_max pb x s sl su * farkas_norm1 pb y z zl zu.
Proof. exact farkas_margin_proof. Qed.
Print Assumptions farkas_margin.

Theorem farkas_margin_normalised :
  forall pb (y z zl zu : Vec), is_farkas pb y z zl zu = true -> farkas_val pb y z zl zu = - (1) ->
  forall x s sl su : nat -> F, slacks_nonneg pb s sl su ->
  0 < farkas_norm1 pb y z zl zu /\ 1 / farkas_norm1 pb y z zl zu <= primal_resid_max pb x s sl su.
Proof. exact farkas_margin_normalised_proof. Qed.
Print Assumptions farkas_margin_normalised.

(* ... hence the SOLVED test primal_inf < eps_abs + eps_rel * primal_rel_inf forces a huge primal_rel_inf *)
Theorem solved_excludes_farkas :
  forall pb (y z zl zu : Vec) (eps_abs eps_rel primal_rel_inf : F),
  is_farkas pb y z zl zu = true -> farkas_val pb y z zl zu = - (1) ->
  forall x s sl su : nat -> F, slacks_nonneg pb s sl su -> 0 < eps_rel ->
  primal_resid_max pb x s sl su < eps_abs + eps_rel * primal_rel_inf ->
  (1 / farkas_norm1 pb y z zl zu - eps_abs) / eps_rel < primal_rel_inf.
Proof. exact solved_excludes_farkas_proof. Qed.
Print Assumptions solved_excludes_farkas.

(* T2: at every point with sign-correct multipliers (z, z_lb, z_ub >= 0, zero on absent bounds) the max-norm of the dual
   residual Px + c + A'y + G'z - z_lb + z_ub times ||d||_1 is at least -c'd *)
Theorem recession_margin :
  forall pb (d : Vec), is_recession pb d = true ->
  forall x y z zl zu : nat -> F, mult_ok pb z zl zu = true ->
  - recession_val pb d <= dual_resid_max pb x y z zl zu * recession_norm1 pb d.
Proof. exact recession_margin_proof. Qed.
Print Assumptions recession_margin.

Theorem recession_margin_normalised :
  forall pb (d : Vec), is_recession pb d = true -> recession_val pb d = - (1) ->
  forall x y z zl zu : nat -> F, mult_ok pb z zl zu = true ->
  0 < recession_norm1 pb d /\ 1 / recession_norm1 pb d <= dual_resid_max pb x y z zl zu.
Proof. exact recession_margin_normalised_proof. Qed.
Print Assumptions recession_margin_normalised.

Theorem solved_excludes_recession :
  forall pb (d : Vec) (eps_abs eps_rel dual_rel_inf : F),
  is_recession pb d = true -> recession_val pb d = - (1) ->
  forall x y z zl zu : nat -> F, mult_ok pb z zl zu = true -> 0 < eps_rel ->
  dual_resid_max pb x y z zl zu < eps_abs + eps_rel * dual_rel_inf ->
  (1 / recession_norm1 pb d - eps_abs) / eps_rel < dual_rel_inf.
Proof. exact solved_excludes_recession_proof. Qed.
Print Assumptions solved_excludes_recession.

(* non-vacuity: concrete certified instances of each class (singular P, active bound; zero pivots in the PSD test) *)
Theorem c03_nonvacuous_kkt :
  is_kkt_point pbK [q 1; q 0] [q (-1)] [q 0] [q 0; q 1] [q 0; q 0] = true /\ is_psd pbK = true /\
  forall x' : nat -> F, feasible pbK x' -> objective pbK (el [q 1; q 0]) <= objective pbK x'.
Proof. exact (conj (proj1 pbK_certified) (conj (proj2 pbK_certified) pbK_optimal)). Qed.
Print Assumptions c03_nonvacuous_kkt.

Theorem c03_nonvacuous_farkas :
  is_farkas pbF [] [q 1] [q 1] [q 0] = true /\ farkas_val pbF [] [q 1] [q 1] [q 0] = - (1) /\
  forall x : nat -> F, ~ feasible pbF x.
Proof. exact (conj (proj1 pbF_certified) (conj (proj1 (proj2 pbF_certified)) pbF_infeasible)). Qed.
Print Assumptions c03_nonvacuous_farkas.

Theorem c03_nonvacuous_recession :
  is_recession pbR [q 1] = true /\ recession_val pbR [q 1] = - (1) /\
  forall M : F, exists x, feasible pbR x /\ objective pbR x < M.
Proof. exact (conj (proj1 pbR_certified) (conj (proj1 (proj2 pbR_certified)) pbR_unbounded)). Qed.
Print Assumptions c03_nonvacuous_recession.

Theorem c03_psd_test_discriminates :
  psd_fn 2 (ent [[q 1; q 2]; [q 0; q 1]]) = false /\
  psd_fn 2 (ent [[q 0; q 1]; [q 0; q 1]]) = false /\
  psd_fn 3 (ent [[q 1; q 1; q 0]; [q 0; q 1; q 0]; [q 0; q 0; q 0]]) = true /\
  psd_fn 2 (ent [[q 0; q 0]; [q 0; q 5]]) = true.
Proof. exact psd_examples. Qed.
Print Assumptions c03_psd_test_discriminates.

(* the heuristic half: a statement only (see CertsPartial.v) -- NOT a theorem *)
Check no_false_infeasible_partial.
