(* Properties_C14_general.v -- C14 for ALL sizes: the statements of Properties_C14.v that were proved only by complete
   enumeration up to a size bound (_n4 / _n5), proved here for every n, every pattern and all values.
   Models (unchanged): CSC.v (utils.hpp, ordering.hpp), LDLSparse.v (sparse/ldlt.hpp).
   Hypotheses on the input matrix are the ones the code needs: well-formed compressed storage, square, only the upper
   triangle stored.  Row indices inside a column may be UNSORTED and (except for C14_ldl_sparse_correct, where it is a
   stated hypothesis) may REPEAT; a stored diagonal is NOT required.
   Nothing here is partial.  Not claimed: sortedness of the columns of the permuted matrix (C14_permute_sym_spec).
   Proof files: CountSortProofs, PermuteGenProofs (T3); LDLSymbolicGenProofs, LDLFillGenProofs, LDLNumericGenProofs,
   LDLGenFinalProofs (pattern / index part, totality); LDLValuesGenProofs, LDLValuesFinalProofs (L D L^T = A). *)
From PIQP Require Import Base CSC LDLSparse C14LemmasProofs PatternsProofs CSCProofs PermuteProofs LDLSolveProofs LDLSparseProofs
  LDLSparseValuesProofs LDLSparseFinalProofs CountSortProofs PermuteGenProofs LDLSymbolicGenProofs LDLFillGenProofs LDLNumericGenProofs
  LDLGenFinalProofs LDLValuesGenProofs LDLValuesFinalProofs.
Local Open Scope nat_scope.

(* ===== T3 (general): permute_sparse_symmetric_matrix =====
   For every square upper-triangular CSC matrix and every permutation P (ordering_init computes pinv = P^-1):
   the kernel returns Ok (no out-of-range access); C is a well-formed upper-triangular CSC matrix with the same number
   of stored entries; AtoC is a bijection from the stored positions of A onto those of C; the entry at position k of A
   (row i, column j) sits at position AtoC[k] of C, in column max(pinv i, pinv j), with row index min(pinv i, pinv j)
   and the same value.  Sortedness of the columns of C is not claimed. *)
Theorem C14_permute_sym_spec :
  forall (V : Type) (d : V) (A : csc V) (P : list nat),
    wf_csc A = true -> ncols A = nrows A -> upper_only A = true -> perm_wf P -> length P = nrows A ->
    let n := nrows A in let N := length (rowind A) in
    exists o C a2c, ordering_init P = Ok o /\ oP o = P /\
      (forall i, i < n -> nth (nth i P 0) (oPinv o) 0 = i) /\
      (forall i, i < n -> nth i (oPinv o) 0 < n /\ nth (nth i (oPinv o) 0) P 0 = i) /\
      permute_sym d A (oPinv o) = Ok (C, a2c) /\
      nrows C = n /\ ncols C = n /\ wf_csc C = true /\ upper_only C = true /\
      length (rowind C) = N /\ length a2c = N /\
      (forall k, k < N -> nth k a2c 0 < N) /\
      (forall k k', k < N -> k' < N -> nth k a2c 0 = nth k' a2c 0 -> k = k') /\
      (forall j k, j < n -> nth j (colptr A) 0 <= k < nth (S j) (colptr A) 0 ->
         let i2 := nth (nth k (rowind A) 0) (oPinv o) 0 in let j2 := nth j (oPinv o) 0 in let q := nth k a2c 0 in
         nth (Nat.max i2 j2) (colptr C) 0 <= q < nth (S (Nat.max i2 j2)) (colptr C) 0 /\
         nth q (rowind C) 0 = Nat.min i2 j2 /\ nth q (vals C) d = nth k (vals A) d).
Proof. exact @permute_sym_spec_ord. Qed.
Print Assumptions C14_permute_sym_spec.

(* the same on matrix entries (csc_get sums repeated entries): C = upper triangle of A(p,p), for any injective index map *)
Theorem C14_permute_sym_entries :
  forall (d : F) (A : csc F) (pinv : list nat),
    wf_csc A = true -> ncols A = nrows A -> upper_only A = true ->
    length pinv = nrows A -> (forall i, i < nrows A -> nth i pinv 0 < nrows A) ->
    (forall i j, i < nrows A -> j < nrows A -> nth i pinv 0 = nth j pinv 0 -> i = j) ->
    exists C a2c, permute_sym d A pinv = Ok (C, a2c) /\
      nrows C = nrows A /\ ncols C = nrows A /\ wf_csc C = true /\ upper_only C = true /\
      forall i j, i <= j -> j < nrows A ->
        csc_get C (Nat.min (nth i pinv 0) (nth j pinv 0)) (Nat.max (nth i pinv 0) (nth j pinv 0)) = csc_get A i j.
Proof.
  intros d A pinv H1 H2 H3 H4 H5 H6.
  destruct (permute_sym_get d A pinv H1 H2 H3 H4 H5 H6) as (C & a2c & E & (R1 & R2 & R3 & R4 & _) & G).
  exists C, a2c. auto 10.
Qed.
Print Assumptions C14_permute_sym_entries.

(* ===== T1 (general), the specification of the pattern of L =====
   [fill n has] (LDLSparseProofs.v, the specification used by the bounded theorems) is the boolean matrix of the
   symbolic Cholesky fill: lpf has n k i = nth i (nth k (fill n has) []) false satisfies, for EVERY has and n,
       L(k,i) structurally nonzero  <->  A(i,k) stored  or  exists c < i with L(i,c) and L(k,c) nonzero.
   [fill_col n (fill n has) i] lists the rows k > i of column i in increasing order. *)
Theorem C14_ldl_fill_recurrence :
  forall (has : nat -> nat -> bool) (n k i : nat), i < k -> k < n ->
    lpf has n k i = has i k || existsb (fun c => lpf has n i c && lpf has n k c) (seq 0 i).
Proof. exact lpf_eq. Qed.
Print Assumptions C14_ldl_fill_recurrence.

(* ===== T1 (general): the symbolic phase =====
   On every well-formed square CSC matrix that stores only the upper triangle (columns may be UNSORTED and may contain
   REPEATED row indices; the diagonal need not be stored) factorize_symbolic_upper_triangular returns Ok: every index
   is in range, every flag read was written before, the walk needs at most n+1 steps.  etree[i] is the first row below
   the diagonal of column i of the fill pattern (so etree[i] > i, or none = -1), L_nnz are the column counts of the
   fill pattern, L_cols their prefix sums, and L_ind / L_vals get exactly L_cols[n] slots. *)
Theorem C14_ldl_symbolic_correct :
  forall (V : Type) (A : csc V),
    wf_csc A = true -> ncols A = nrows A -> upper_only A = true ->
    let n := nrows A in let has := has_entry (colptr A) (rowind A) in let rows := fill n has in
    exists li, symbolic_i n (colptr A) (rowind A) = Ok li /\
      length (i_etree li) = n /\ length (i_Lnnz li) = n /\ length (i_flag li) = n /\ length (i_Lcols li) = S n /\
      (forall i, i < n -> nth i (i_etree li) None = hd_error (fill_col n rows i)) /\
      (forall i p, i < n -> nth i (i_etree li) None = Some p ->
          i < p < n /\ lpf has n p i = true /\ forall k, i < k < p -> lpf has n k i = false) /\
      (forall i, i < n -> nth i (i_Lnnz li) 0 = length (fill_col n rows i)) /\
      nth 0 (i_Lcols li) 0 = 0 /\
      (forall i, i < n -> nth (S i) (i_Lcols li) 0 = nth i (i_Lcols li) 0 + length (fill_col n rows i)) /\
      i_Lind li = repeat 0 (nth n (i_Lcols li) 0) /\ i_pattern li = repeat 0 n.
Proof. exact @symbolic_correct_full. Qed.
Print Assumptions C14_ldl_symbolic_correct.

(* Liu's characterisation: row k of the fill pattern is the set of nodes below k on the elimination-tree paths that
   start at the entries of column k of A (parA A i = hd_error (fill_col ...) is the parent computed above) *)
Theorem C14_ldl_pattern_is_etree_reach :
  forall (V : Type) (A : csc V),
    wf_csc A = true -> ncols A = nrows A -> upper_only A = true ->
    forall k i, i < k -> k < nrows A ->
      (lpf (has_entry (colptr A) (rowind A)) (nrows A) k i = true <->
       exists i0, i0 <= i /\ has_entry (colptr A) (rowind A) i0 k = true /\ anc (parA A) i0 i).
Proof. exact @pattern_is_etree_reach. Qed.
Print Assumptions C14_ldl_pattern_is_etree_reach.

(* ===== T1 (general): the index part of both phases (general form of ldl_index_check) =====
   symbolic_i and numeric_i (the numeric phase on indices: flags, pattern stack, L_nnz, L_ind write positions) both
   return Ok, i.e. no index leaves its array (etree, L_nnz, L_cols, L_ind capacity, flag, pattern); the numeric phase
   restores L_nnz to the symbolic counts and writes into column i of L_ind exactly the rows of the fill pattern, in
   increasing order; the result is a well-formed strictly-lower CSC structure. *)
Theorem C14_ldl_index_general :
  forall (V : Type) (A : csc V),
    wf_csc A = true -> ncols A = nrows A -> upper_only A = true ->
    let n := nrows A in let rows := fill n (has_entry (colptr A) (rowind A)) in
    exists li li', symbolic_i n (colptr A) (rowind A) = Ok li /\ numeric_i n (colptr A) (rowind A) li = Ok li' /\
      i_etree li' = i_etree li /\ i_Lcols li' = i_Lcols li /\ i_Lnnz li' = i_Lnnz li /\
      length (i_Lind li') = nth n (i_Lcols li) 0 /\ length (i_Lind li) = nth n (i_Lcols li) 0 /\
      (forall i, i < n -> nth i (i_Lnnz li) 0 = length (fill_col n rows i)) /\
      nth 0 (i_Lcols li) 0 = 0 /\
      (forall i, i < n -> nth (S i) (i_Lcols li) 0 = nth i (i_Lcols li) 0 + length (fill_col n rows i)) /\
      (forall i u, i < n -> u < length (fill_col n rows i) ->
         nth (nth i (i_Lcols li) 0 + u) (i_Lind li') 0 = nth u (fill_col n rows i) 0) /\
      (forall vs : list F, length vs = length (i_Lind li') -> unit_lower_ok n (i_Lcols li') (i_Lind li') vs = true).
Proof. exact @index_general_full. Qed.
Print Assumptions C14_ldl_index_general.

(* the boolean check of Properties_C14.v (C14_ldl_index_check_n5), now for every size and every admissible input:
   both index runs succeed, L_nnz / L_cols / etree equal the counts / prefix sums / heads of the fill columns, the
   numeric phase restores L_nnz and L_ind is the concatenation of the fill columns *)
Theorem C14_ldl_index_check :
  forall (V : Type) (A : csc V),
    wf_csc A = true -> ncols A = nrows A -> upper_only A = true ->
    ldl_index_check (nrows A) (colptr A) (rowind A) = true.
Proof. exact @ldl_index_check_general. Qed.
Print Assumptions C14_ldl_index_check.

(* ===== T1 (general): the factorisation is total, for all sizes, patterns and values =====
   ldl_factor (symbolic + numeric phase with values) returns Ok (no out-of-range access, no division by zero): it stops
   at the first zero pivot, which it reports; on success L is a unit-lower CSC with the fill pattern and D_inv = 1/D. *)
Theorem C14_ldl_factor_total :
  forall A : csc F,
    wf_csc A = true -> ncols A = nrows A -> upper_only A = true ->
    let n := nrows A in let rows := fill n (has_entry (colptr A) (rowind A)) in
    exists r li2 lv2,
      ldl_factor A = Ok (r, (li2, lv2)) /\ r <= n /\
      (forall i, i < r -> nth i (v_D lv2) 0%Qc <> 0%Qc) /\
      (r < n -> nth r (v_D lv2) 0%Qc = 0%Qc) /\
      (r = n ->
         unit_lower_ok n (i_Lcols li2) (i_Lind li2) (v_Lvals lv2) = true /\
         nth 0 (i_Lcols li2) 0 = 0 /\
         (forall i, i < n -> nth (S i) (i_Lcols li2) 0 = nth i (i_Lcols li2) 0 + length (fill_col n rows i)) /\
         (forall i u, i < n -> u < length (fill_col n rows i) ->
            nth (nth i (i_Lcols li2) 0 + u) (i_Lind li2) 0 = nth u (fill_col n rows i) 0) /\
         length (v_D lv2) = n /\ length (v_Dinv lv2) = n /\
         forall i, i < n -> (nth i (v_D lv2) 0 * nth i (v_Dinv lv2) 0)%Qc = 1%Qc).
Proof. exact ldl_factor_total_general. Qed.
Print Assumptions C14_ldl_factor_total.

(* ===== T1 assembled (general): no zero pivot reported ==> L D L^T = A and the solve returns A^-1 b =====
   For every size, pattern and all values.  Additional hypothesis (the code comment "we assume that there are no
   duplicate entries present"): no row index occurs twice in a column -- otherwise the numeric phase keeps the last
   value while the matrix entry (csc_get) is the sum.  Columns may be unsorted; a missing diagonal entry counts as 0.
   Lm_of is the unit lower triangular matrix read back from (L_cols, L_ind, L_vals); sym_get A is the symmetric matrix
   whose upper triangle is stored in A. *)
Theorem C14_ldl_sparse_correct :
  forall (A : csc F) (b : list F),
    wf_csc A = true -> ncols A = nrows A -> upper_only A = true ->
    (forall j p1 p2, j < ncols A ->
       nth j (colptr A) 0 <= p1 < nth (S j) (colptr A) 0 -> nth j (colptr A) 0 <= p2 < nth (S j) (colptr A) 0 ->
       nth p1 (rowind A) 0 = nth p2 (rowind A) 0 -> p1 = p2) ->
    let n := nrows A in let rows := fill n (has_entry (colptr A) (rowind A)) in
    length b = n ->
    forall li lv, ldl_factor A = Ok (n, (li, lv)) ->
      unit_lower_ok n (i_Lcols li) (i_Lind li) (v_Lvals lv) = true /\
      nth 0 (i_Lcols li) 0 = 0 /\
      (forall i, i < n -> nth (S i) (i_Lcols li) 0 = nth i (i_Lcols li) 0 + length (fill_col n rows i)) /\
      (forall i u, i < n -> u < length (fill_col n rows i) ->
         nth (nth i (i_Lcols li) 0 + u) (i_Lind li) 0 = nth u (fill_col n rows i) 0) /\
      (forall i, i < n -> nth i (v_D lv) 0%Qc <> 0%Qc /\ (nth i (v_D lv) 0 * nth i (v_Dinv lv) 0)%Qc = 1%Qc) /\
      (forall i j, i <= j -> j < n ->
         sum_n (S i) (fun c => Lm_of n li lv j c * nth c (v_D lv) 0 * Lm_of n li lv i c)%Qc = csc_get A i j) /\
      exists x, ldl_solve (li, lv) b = Ok x /\ length x = n /\
        forall i, i < n -> sum_n n (fun j => sym_get A i j * nth j x 0)%Qc = nth i b 0%Qc.
Proof. exact ldl_sparse_correct_full. Qed.
Print Assumptions C14_ldl_sparse_correct.

(* ===== non-vacuity: a 6x6 instance (beyond the enumerated bound), unsorted columns, a repeated entry ===== *)
Definition gA6 : csc F :=
  (* columns: 0:{0}  1:{1,0}  2:{2}  3:{0,3,0}  4:{4,2,1}  5:{3,5} *)
  mkcsc 6 6 [0; 1; 3; 4; 7; 10; 12] [0; 1; 0; 2; 0; 3; 0; 4; 2; 1; 3; 5]
        (map qofZ [4; 5; 1; 6; 2; 7; 3; 8; 1; 2; 1; 9]%Z).
Definition gP6 : list nat := [3; 0; 5; 1; 4; 2].

Example ex_general_hyps :
  wf_csc gA6 = true /\ ncols gA6 = nrows gA6 /\ upper_only gA6 = true /\ perm_wf gP6 /\ length gP6 = nrows gA6.
Proof.
  repeat split; try (vm_compute; reflexivity).
  - repeat constructor; simpl; intuition lia.
  - simpl. intuition lia.
Qed.

Example ex_general_permute_runs :
  match ordering_init gP6 with
  | Ok o => match permute_sym 0%Qc gA6 (oPinv o) with
            | Ok (C, a2c) => wf_csc C && upper_only C && list_eqb a2c [3; 7; 6; 11; 1; 0; 2; 9; 10; 8; 4; 5] &&
                             qeqb (csc_get C 0 1) (qofZ 5)   (* A(0,3) = 2 + 3 (repeated entry); pinv 0 = 1, pinv 3 = 0 *)
            | Err _ => false end
  | Err _ => false
  end = true.
Proof. vm_compute. reflexivity. Qed.

(* the 6x6 matrix above violates none of the LDL hypotheses although its columns are unsorted and one entry is repeated:
   the general theorems apply; the run agrees with them (L_ind = the fill columns, etree = their heads, no zero pivot) *)
Example ex_general_ldl_runs :
  match ldl_factor gA6 with
  | Ok (r, (li, lv)) => (r =? 6) && unit_lower_ok 6 (i_Lcols li) (i_Lind li) (v_Lvals lv) &&
                        list_eqb (i_Lind li) (concat (map (fill_col 6 (fill 6 (has_entry (colptr gA6) (rowind gA6)))) (seq 0 6))) &&
                        forallb (fun i => oeq (nth i (i_etree li) None) (parA gA6 i)) (seq 0 6)
  | Err _ => false
  end = true.
Proof. vm_compute. reflexivity. Qed.

(* a 6x6 instance of all hypotheses of C14_ldl_sparse_correct (unsorted columns, no repeated entry, fill-in) *)
Definition gB6 : csc F :=
  (* columns: 0:{0}  1:{1,0}  2:{2}  3:{3,0}  4:{2,4,1}  5:{3,5} *)
  mkcsc 6 6 [0; 1; 3; 4; 6; 9; 11] [0; 1; 0; 2; 3; 0; 2; 4; 1; 3; 5]
        (map qofZ [4; 5; 1; 6; 7; 2; 1; 8; 2; 1; 9]%Z).

Example ex_general_sparse_correct_hyps :
  wf_csc gB6 = true /\ ncols gB6 = nrows gB6 /\ upper_only gB6 = true /\ nodup_cols gB6 /\
  match ldl_factor gB6 with Ok (r, _) => r =? nrows gB6 | Err _ => false end = true.
Proof.
  repeat split; try (vm_compute; reflexivity).
  apply nodup_colsb_ok. vm_compute. reflexivity.
Qed.
