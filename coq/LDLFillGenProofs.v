(* LDLFillGenProofs.v -- the boolean fill matrix [fill] of LDLSparseProofs.v (the specification used by the bounded
   theorems) satisfies the fill recurrence for every n:
       lpf k i = has i k || exists c < i, lpf i c && lpf k c        (i < k < n)
   so it is an instance of the abstract pattern [lp] of LDLSymbolicGenProofs.v / LDLNumericGenProofs.v. *)
From PIQP Require Import Base CSC LDLSparse C14LemmasProofs PatternsProofs LDLSparseProofs.
Local Open Scope nat_scope.

Lemma existsb_ext_in {A} (f g : A -> bool) l : (forall x, In x l -> f x = g x) -> existsb f l = existsb g l.
Proof. induction l; intros H; simpl; auto. rewrite (H a) by (left; auto). rewrite IHl; auto. intros; apply H; right; auto. Qed.

Section Fill.
Variable has : nat -> nat -> bool.

(* ---------- one row ---------- *)
Section Row.
Variable rows : list (list bool).
Variable k : nat.
Definition rstep (cur : list bool) (i : nat) : list bool :=
  cur ++ [has i k || existsb (fun c => nth c (nth i rows []) false && nth c cur false) (seq 0 i)].
Definition frow (m : nat) : list bool := fold_left rstep (seq 0 m) [].

Lemma frow_S m : frow (S m) = rstep (frow m) m.
Proof. unfold frow. rewrite seq_S, fold_left_app. reflexivity. Qed.
Lemma frow_length m : length (frow m) = m.
Proof. induction m. reflexivity. rewrite frow_S. unfold rstep. rewrite app_length, IHm. simpl. lia. Qed.
Lemma frow_stable c m m' : c < m -> m <= m' -> nth c (frow m') false = nth c (frow m) false.
Proof.
  intros Hc H. induction H; auto. rewrite frow_S. unfold rstep. rewrite app_nth1 by (rewrite frow_length; lia). auto.
Qed.
Lemma frow_nth i m : i < m ->
  nth i (frow m) false = has i k || existsb (fun c => nth c (nth i rows []) false && nth c (frow m) false) (seq 0 i).
Proof.
  intros H. rewrite (frow_stable i (S i) m) by lia. rewrite frow_S. unfold rstep.
  rewrite app_nth2 by (rewrite frow_length; lia). rewrite frow_length, Nat.sub_diag. simpl nth. f_equal.
  apply existsb_ext_in. intros c Hc. apply in_seq in Hc. f_equal. symmetry. apply frow_stable; lia.
Qed.
Lemma fill_row_frow : fill_row has rows k = frow k.
Proof. reflexivity. Qed.
End Row.

(* ---------- all rows ---------- *)
Lemma fill_S m : fill (S m) has = fill m has ++ [fill_row has (fill m has) m].
Proof. unfold fill. rewrite seq_S, fold_left_app. reflexivity. Qed.
Lemma fill_length m : length (fill m has) = m.
Proof. induction m. reflexivity. rewrite fill_S, app_length, IHm. simpl. lia. Qed.
Lemma fill_nth k m : k < m -> nth k (fill m has) [] = fill_row has (fill k has) k.
Proof.
  intros H. induction H.
  - rewrite fill_S. rewrite app_nth2 by (rewrite fill_length; lia). rewrite fill_length, Nat.sub_diag. reflexivity.
  - rewrite fill_S. rewrite app_nth1 by (rewrite fill_length; lia). auto.
Qed.

Definition lpf (n k i : nat) : bool := nth i (nth k (fill n has) []) false.

Theorem lpf_eq n k i : i < k -> k < n ->
  lpf n k i = has i k || existsb (fun c => lpf n i c && lpf n k c) (seq 0 i).
Proof.
  intros Hi Hk. unfold lpf at 1. rewrite fill_nth by auto. rewrite fill_row_frow. rewrite frow_nth by auto. f_equal.
  apply existsb_ext_in. intros c Hc. apply in_seq in Hc. unfold lpf.
  rewrite (fill_nth k n) by auto. rewrite fill_row_frow.
  rewrite (fill_nth i k) by auto. rewrite (fill_nth i n) by lia. reflexivity.
Qed.
End Fill.
