(* KKTSparseAllDataProofs.v -- KKT_ALL_ELIMINATED, identity ordering: the value clause of init (item (b) complete) and update_data
   on same-pattern new data (T2 for this mode).  Continues KKTSparseAllProofs.v. *)
From PIQP Require Import Base CSC C14LemmasProofs CSCProofs TransposeProofs LinAlg KKTProofs KKTSparseFull KKTSparseFullProofs
  KKTSparseFullPermProofs KKTSparseAll KKTSparseAllTrProofs KKTSparseAllProofs.
Local Open Scope nat_scope.

Section InitValues.
Variable d : sdata.
Hypothesis Hwf : wf_sdata d.
Local Notation n := (sd_n d). Local Notation p := (sd_p d). Local Notation m := (sd_m d).
Local Notation P := (sd_P d). Local Notation AT := (sd_AT d). Local Notation GT := (sd_GT d).
Hypothesis Hup : upper_only P = true.
Hypothesis Hsorted : sorted_colsb P = true.

(* the product G^T G scaled by 1/(1+delta), as init_workspace stores it *)
Lemma GTG_scaled_get (G : csc F) gx (w : F) i j : cache_ok n m GT G -> pvals n G GT m None gx -> i <= j -> j < n ->
  csc_get (GTG_of d G (map (fun v => (v * w)%Qc) gx)) i j = (sum_n m (fun l => (csc_get GT i l * csc_get GT j l)%Qc) * w)%Qc.
Proof.
  intros CG VG Hij Hj. pose proof Hwf as (_ & _ & _ & _ & _ & _ & HwGT & HrGT & HcGT). pose proof CG as (HwG & HnG & HrG & _).
  pose proof (LgxG d Hwf G None gx VG) as Lgx.
  assert (Lgx' : length (map (fun v => (v * w)%Qc) gx) = coff (prod_col G GT) n) by now rewrite map_length.
  unfold GTG_of.
  destruct (in_dec Nat.eq_dec i (prod_col G GT j)) as [Hin|Hout].
  - destruct (In_pos _ j i Hin) as (t & Ht & <-). rewrite ocv_get_in; auto; try (intros; apply prod_col_inc).
    rewrite (nth_indep _ 0%Qc ((fun v => (v * w)%Qc) 0%Qc)).
    2:{ rewrite Lgx'. apply (off_lt (coff (prod_col G GT)) (fun j => length (prod_col G GT j)) n); auto. }
    rewrite (map_nth (fun v => (v * w)%Qc)). cbv beta. f_equal.
    etransitivity; [symmetry; exact (ocv_get_in n (prod_col G GT) (fun j _ => prod_col_inc G GT j) gx Lgx j t Hj Ht)|].
    rewrite (pvals_get n m G GT None gx _ j) by auto. rewrite (prodval_cache n m GT G None _ j CG Hj).
    apply sum_n_ext. intros l Hl. cbn [wt_val]. fring.
  - rewrite ocv_get_out; auto.
    assert (Z : prodval G GT m None i j = 0%Qc) by (apply (prodval_out G GT n m); auto).
    rewrite (prodval_cache n m GT G None i j CG Hj) in Z.
    rewrite (sum_n_ext m _ (fun l => (wt_val None l * csc_get GT i l * csc_get GT j l)%Qc)) by (intros; cbn [wt_val]; fring).
    rewrite Z. fring.
Qed.

Lemma SGd_unit rho delta i j : SGd d (unit_scal d rho delta) i j = (sum_n m (fun l => (csc_get GT i l * csc_get GT j l)%Qc) * (1 / (1 + delta)))%Qc.
Proof.
  unfold SGd. cbn [unit_scal sc_s sc_z_inv sc_delta]. rewrite <- sum_n_scale_r. apply sum_n_ext. intros l Hl.
  unfold vconst. rewrite !(nth_indep _ 0%Qc 1%Qc) by (rewrite repeat_length; lia). rewrite !nth_repeat.
  replace (1 * 1 + delta)%Qc with (1 + delta)%Qc by fring. fring.
Qed.

(* (b), complete: init (identity ordering) leaves the canonical form for unit scalings, box terms included *)
Theorem all_init_form rho delta : delta <> 0%Qc -> (1 + delta)%Qc <> 0%Qc -> scal_ok d (unit_scal d rho delta) ->
  exists k, all_init d rho delta None = Ok k /\ all_form d (unit_scal d rho delta) k.
Proof.
  intros Hd Hd1 Hsc0. destruct (all_init_static d Hwf Hsorted rho delta Hd Hd1 Hsc0) as (k & Ek & Hst & Hsck).
  exists k. split; [exact Ek|]. split; [exact Hst|]. split; [exact Hsck|].
  destruct Hsc0 as (S1 & S2 & B1 & B2 & B3 & B4 & B5 & B6 & B7 & B8 & I1 & I2 & Z1 & Z2).
  destruct (all_create_ok d Hwf Hsorted rho delta Hd Hd1) as (A & G & ax & gx & p2k & a2k & g2k & EC & CA & CG & VA & VG & MP & MA & MG).
  cbv zeta in *. set (gx' := map (fun v => (v * (1 / (1 + delta)))%Qc) gx) in *.
  unfold all_init in Ek. rewrite EC in Ek. cbn [bind] in Ek. cbv zeta in Ek. cbn [am_K am_P2K am_A2K am_G2K am_A am_G am_ATA am_GTG am_tmp] in Ek.
  set (K := csc_of_cols n (kcols_all d A G) (kval_of d (prod_col A AT) (prod_col G GT) ax gx' rho (1 / delta)%Qc)) in *.
  assert (LK : length (vals K) = coff (kcols_all d A G) n) by (unfold K; apply ofcols_nnz).
  unfold all_box_scalings in Ek. cbn [ak_pinv ak_kp ak_sc ak_kx unit_scal sc_z_lb_inv sc_s_lb sc_delta sc_z_ub_inv sc_s_ub] in Ek.
  destruct (box_scalings_ok (seq 0 n) (colptr K) n (coff (kcols_all d A G) n) (dpA d A G) (dpos_all d A G) (dpA_lt d A G) (dpA_inj d A G)
              n (sd_nlb d) (sd_lbidx d) (sd_lbs d) (vconst (sd_nlb d) 1 ++ vconst (n - sd_nlb d) 0)%Qc (vconst (sd_nlb d) 1 ++ vconst (n - sd_nlb d) 0)%Qc delta (vals K))
    as (kx1 & E1 & L1 & H1 & H1'); auto.
  unfold Vec, F in *. rewrite E1 in Ek. cbn [bind] in Ek.
  destruct (box_scalings_ok (seq 0 n) (colptr K) n (coff (kcols_all d A G) n) (dpA d A G) (dpos_all d A G) (dpA_lt d A G) (dpA_inj d A G)
              n (sd_nub d) (sd_ubidx d) (sd_ubs d) (vconst (sd_nub d) 1 ++ vconst (n - sd_nub d) 0)%Qc (vconst (sd_nub d) 1 ++ vconst (n - sd_nub d) 0)%Qc delta kx1)
    as (kx2 & E2 & L2 & H2 & H2'); auto.
  unfold Vec, F in *. rewrite E2 in Ek. cbn [bind] in Ek. injection Ek as <-.
  cbn [ak_set_kx ak_A ak_G ak_kx]. cbv zeta.
  intros j t Hj Ht. set (i := nth t (kcols_all d A G j) 0).
  assert (Hij : i <= j) by (apply (kc_le d Hwf Hup A G); auto; apply nth_In; auto).
  assert (Lax : length ax = coff (prod_col A AT) n) by (apply (LaxA d Hwf A ax VA)).
  (* the value create_kkt_matrix stores *)
  assert (EV : nth (coff (kcols_all d A G) j + t) (vals K) 0%Qc =
               (csc_get P i j + (if i =? j then rho else 0) + 1 / delta * SAd d i j + SGd d (unit_scal d rho delta) i j)%Qc).
  { unfold K. rewrite ofcols_val by auto. fold i. unfold kval_of. fold (ATA_of d A ax). fold (GTG_of d G gx').
    rewrite (ATA_get d Hwf A CA ax i j VA Hij Hj). unfold gx'. rewrite (GTG_scaled_get G gx _ i j CG VG Hij Hj). now rewrite SGd_unit. }
  unfold Kall. cbn [unit_scal sc_rho sc_delta].
  destruct (Nat.eq_dec (S t) (length (kcols_all d A G j))) as [Ed|Nd].
  - assert (Ei : i = j) by (apply (kc_diag_iff d Hwf Hup A G j t); auto).
    assert (Eq : coff (kcols_all d A G) j + t = dpA d A G j) by (rewrite dpA_eq by auto; lia).
    rewrite Eq, H2, H1 by auto. rewrite <- Eq, EV. rewrite Ei, Nat.eqb_refl.
    rewrite <- (box_sum_a_bdiag d (unit_scal d rho delta) j). unfold box_sum. cbn [unit_scal sc_z_lb_inv sc_s_lb sc_delta sc_z_ub_inv sc_s_ub]. fring.
  - assert (Ni : i <> j) by (intros E; apply (kc_diag_iff d Hwf Hup A G j t) in E; auto).
    assert (Hnd : forall col, col < n -> dpA d A G col <> coff (kcols_all d A G) j + t).
    { intros col Hc E. rewrite dpA_eq in E by auto. pose proof (kc_pos d A G col Hc).
      apply (off_unique (coff (kcols_all d A G)) (fun j => length (kcols_all d A G j)) n) in E; auto; try lia. destruct E as [-> E]. lia. }
    rewrite H2', H1' by auto. rewrite EV. destruct (Nat.eqb_spec i j); [contradiction|]. fring.
Qed.
End InitValues.

(* ================================================================ extensionality in the column functions *)
Lemma coff_ext c1 c2 : (forall j, c1 j = c2 j) -> forall j, coff c1 j = coff c2 j.
Proof. intros H j. induction j; [reflexivity|]. cbn [coff]. now rewrite IHj, H. Qed.
Lemma csc_of_cols_ext n c1 c2 (v : nat -> nat -> F) : (forall j, c1 j = c2 j) -> csc_of_cols n c1 v = csc_of_cols n c2 v.
Proof.
  intros H. unfold csc_of_cols. f_equal.
  - f_equal. apply map_ext. intros j. now rewrite H.
  - f_equal. apply map_ext. exact H.
  - f_equal. apply map_ext. intros j. now rewrite H.
Qed.
Lemma existsb_ext_in {A} (f g : A -> bool) l : (forall a, In a l -> f a = g a) -> existsb f l = existsb g l.
Proof. induction l as [|a l IH]; intros H; [reflexivity|]. cbn [existsb]. rewrite H by (now left). rewrite IH; auto. intros; apply H; now right. Qed.

Lemma prod_col_pat (X X' XT XT' : csc F) j : colptr X' = colptr X -> rowind X' = rowind X -> colptr XT' = colptr XT -> rowind XT' = rowind XT ->
  prod_col X' XT' j = prod_col X XT j.
Proof.
  intros E1 E2 E3 E4. unfold prod_col, prod_has. rewrite (col_rows_pat X' X j E1 E2). apply filter_ext_in. intros i _.
  apply existsb_ext_in. intros k _. now rewrite (col_rows_pat XT' XT k E3 E4).
Qed.
Lemma pcm_eq n (X X' XT XT' : csc F) (z : nat -> nat -> F) : colptr X' = colptr X -> rowind X' = rowind X -> colptr XT' = colptr XT -> rowind XT' = rowind XT ->
  csc_of_cols n (prod_col X' XT') z = csc_of_cols n (prod_col X XT) z.
Proof. intros. apply csc_of_cols_ext. intros j. now apply prod_col_pat. Qed.

(* ================================================================ update_data *)
(* new values of P and of the box scalings do not touch the static invariant *)
Lemma all_static_with_P d px lbs ubs k : all_static d k -> all_static (with_P d px lbs ubs) k.
Proof. exact (fun H => H). Qed.

Lemma ak_set_A_fields k A ATA tmp : ak_A (ak_set_A k A ATA tmp) = A /\ ak_G (ak_set_A k A ATA tmp) = ak_G k /\ ak_sc (ak_set_A k A ATA tmp) = ak_sc k /\
  ak_ATA (ak_set_A k A ATA tmp) = ATA /\ ak_GTG (ak_set_A k A ATA tmp) = ak_GTG k /\ ak_pinv (ak_set_A k A ATA tmp) = ak_pinv k /\
  ak_PKi (ak_set_A k A ATA tmp) = ak_PKi k /\ ak_kp (ak_set_A k A ATA tmp) = ak_kp k /\ ak_ki (ak_set_A k A ATA tmp) = ak_ki k /\
  ak_P2K (ak_set_A k A ATA tmp) = ak_P2K k /\ ak_A2K (ak_set_A k A ATA tmp) = ak_A2K k /\ ak_G2K (ak_set_A k A ATA tmp) = ak_G2K k /\
  ak_tmp (ak_set_A k A ATA tmp) = tmp /\ ak_kx (ak_set_A k A ATA tmp) = ak_kx k.
Proof. destruct k. cbn. repeat split. Qed.
Lemma ak_set_G_fields k G : ak_A (ak_set_G k G) = ak_A k /\ ak_G (ak_set_G k G) = G /\ ak_sc (ak_set_G k G) = ak_sc k /\
  ak_ATA (ak_set_G k G) = ak_ATA k /\ ak_GTG (ak_set_G k G) = ak_GTG k /\ ak_pinv (ak_set_G k G) = ak_pinv k /\
  ak_PKi (ak_set_G k G) = ak_PKi k /\ ak_kp (ak_set_G k G) = ak_kp k /\ ak_ki (ak_set_G k G) = ak_ki k /\
  ak_P2K (ak_set_G k G) = ak_P2K k /\ ak_A2K (ak_set_G k G) = ak_A2K k /\ ak_G2K (ak_set_G k G) = ak_G2K k /\
  ak_tmp (ak_set_G k G) = ak_tmp k /\ ak_kx (ak_set_G k G) = ak_kx k.
Proof. destruct k. cbn. repeat split. Qed.

Lemma same_pat_set_vals (M : csc F) vx : wf_csc M = true -> length vx = nnz M -> same_pat (set_vals M vx) M.
Proof. intros Hw L. unfold same_pat, set_vals. cbn. repeat split; auto. rewrite L. symmetry. apply (vals_len M Hw). Qed.

(* the A branch of update_data: re-transposition of the cached A, update_AT_A *)
Lemma data_A_static d ax k : wf_sdata d -> all_static d k -> length ax = nnz (sd_AT d) ->
  exists k1,
    (do A <- transpose_no_alloc (sd_AT (with_AT d ax)) (ak_A k) ;;
     do '(ATA, tmp) <- scatter_product A (sd_AT (with_AT d ax)) (ak_ATA k) None (ak_tmp k) ;;
     Ok (ak_set_A k A ATA tmp)) = Ok k1 /\
    all_static (with_AT d ax) k1 /\ ak_sc k1 = ak_sc k /\ ak_kx k1 = ak_kx k /\
    rowind (ak_A k1) = rowind (ak_A k) /\ colptr (ak_A k1) = colptr (ak_A k) /\ ak_G k1 = ak_G k.
Proof.
  intros Hwf (ax0 & gx & CA & CG & EATA & EGTG & VA & Lgx & Epinv & Epki & Ekp & Eki & MP & MA & MG & Etmp & Lkx) Lax. cbv zeta in *.
  pose proof Hwf as (HwP & HrP & HcP & HwAT & HrAT & HcAT & HwGT & HrGT & HcGT).
  set (d1 := with_AT d ax). set (AT1 := set_vals (sd_AT d) ax). change (sd_AT d1) with AT1.
  assert (HwAT1 : wf_csc AT1 = true) by (apply wf_set_vals; auto).
  destruct (retranspose_ok (sd_AT d) AT1 (ak_A k) (sd_n d) (sd_p d) CA (same_pat_set_vals _ ax HwAT Lax) HwAT1 HrAT HcAT)
    as (A' & EA & CA' & Erow & Ecp).
  rewrite EA. cbn [bind].
  assert (EM : forall z, csc_of_cols (sd_n d) (prod_col A' AT1) z = csc_of_cols (sd_n d) (prod_col (ak_A k) (sd_AT d)) z).
  { intros z. apply pcm_eq; auto. }
  assert (Lax0 : length ax0 = nnz (prod_upper_pattern A' AT1)).
  { rewrite (LaxA d Hwf (ak_A k) ax0 VA). unfold nnz. rewrite (pp_eq A' AT1 (sd_n d) HrAT), EM. symmetry. apply (ofcols_nnz (sd_n d) _ (fun _ _ => 0%Qc)). }
  destruct (scatter_cache_ok (sd_n d) (sd_p d) AT1 A' None ax0 HwAT1 HrAT HcAT CA' I Lax0) as (cx' & ES & VS).
  assert (EC : ak_ATA k = csc_set_vals (prod_upper_pattern A' AT1) ax0).
  { rewrite EATA. unfold ATA_of. rewrite (pp_eq A' AT1 (sd_n d) HrAT), EM. reflexivity. }
  rewrite EC, Etmp. unfold Vec, F in *. rewrite ES. cbn [bind].
  eexists. split; [reflexivity|].
  destruct (ak_set_A_fields k A' (csc_set_vals (prod_upper_pattern A' AT1) cx') (repeat 0%Qc (sd_n d))) as (F1 & F2 & F3 & F4 & F5 & F6 & F7 & F8 & F9 & F10 & F11 & F12 & F13 & F14).
  unfold Vec, F in *.
  split; [|rewrite F1, F2, F3, F14; auto].
  assert (Ekc : kcols_all d1 A' (ak_G k) = kcols_all d (ak_A k) (ak_G k)).
  { unfold kcols_all, kcols_of, d1. cbn [with_AT sd_n sd_P sd_AT sd_GT]. fold AT1. now rewrite EM. }
  exists cx', gx. cbv zeta. rewrite F1, F2, F4, F5, F6, F7, F8, F9, F10, F11, F12, F13, F14. rewrite Ekc.
  split; [exact CA'|]. split; [exact CG|].
  split; [unfold ATA_of, d1; cbn [with_AT sd_n sd_AT]; fold AT1; now rewrite (pp_eq A' AT1 (sd_n d) HrAT)|].
  split; [exact EGTG|]. split; [exact VS|]. split; [exact Lgx|]. split; [exact Epinv|]. split; [exact Epki|]. split; [exact Ekp|]. split; [exact Eki|].
  split; [exact MP|].
  split; [apply (map_ok_pat d (ak_A k) (ak_G k) (ATA_of d (ak_A k) ax0)); auto;
          unfold ATA_of, d1; cbn [with_AT sd_n sd_AT csc_set_vals colptr rowind]; fold AT1; now rewrite EM|].
  split; [exact MG|]. split; [reflexivity|exact Lkx].
Qed.

(* the G branch: re-transposition of the cached G (GT_W_delta_inv_G is recomputed by the refresh) *)
Lemma data_G_static d gx k : wf_sdata d -> all_static d k -> length gx = nnz (sd_GT d) ->
  exists k1,
    (do G <- transpose_no_alloc (sd_GT (with_GT d gx)) (ak_G k) ;; Ok (ak_set_G k G)) = Ok k1 /\
    all_static (with_GT d gx) k1 /\ ak_sc k1 = ak_sc k /\ ak_kx k1 = ak_kx k /\
    rowind (ak_G k1) = rowind (ak_G k) /\ colptr (ak_G k1) = colptr (ak_G k) /\ ak_A k1 = ak_A k.
Proof.
  intros Hwf (ax0 & gxv & CA & CG & EATA & EGTG & VA & Lgx & Epinv & Epki & Ekp & Eki & MP & MA & MG & Etmp & Lkx) Lg. cbv zeta in *.
  pose proof Hwf as (HwP & HrP & HcP & HwAT & HrAT & HcAT & HwGT & HrGT & HcGT).
  set (d1 := with_GT d gx). set (GT1 := set_vals (sd_GT d) gx). change (sd_GT d1) with GT1.
  assert (HwGT1 : wf_csc GT1 = true) by (apply wf_set_vals; auto).
  destruct (retranspose_ok (sd_GT d) GT1 (ak_G k) (sd_n d) (sd_m d) CG (same_pat_set_vals _ gx HwGT Lg) HwGT1 HrGT HcGT)
    as (G' & EG & CG' & Erow & Ecp).
  rewrite EG. cbn [bind]. eexists. split; [reflexivity|].
  assert (EM : forall z, csc_of_cols (sd_n d) (prod_col G' GT1) z = csc_of_cols (sd_n d) (prod_col (ak_G k) (sd_GT d)) z).
  { intros z. apply pcm_eq; auto. }
  destruct (ak_set_G_fields k G') as (F1 & F2 & F3 & F4 & F5 & F6 & F7 & F8 & F9 & F10 & F11 & F12 & F13 & F14).
  split; [|rewrite F1, F2, F3, F14; auto].
  assert (Ekc : kcols_all d1 (ak_A k) G' = kcols_all d (ak_A k) (ak_G k)).
  { unfold kcols_all, kcols_of, d1. cbn [with_GT sd_n sd_P sd_AT sd_GT]. fold GT1. now rewrite EM. }
  exists ax0, gxv. cbv zeta. rewrite F1, F2, F4, F5, F6, F7, F8, F9, F10, F11, F12, F13, F14. rewrite Ekc.
  split; [exact CA|]. split; [exact CG'|]. split; [exact EATA|].
  split; [rewrite EGTG; unfold GTG_of, d1; cbn [with_GT sd_n sd_GT]; fold GT1; now rewrite EM|].
  split; [exact VA|].
  split; [rewrite Lgx; unfold d1; cbn [with_GT sd_n sd_GT]; fold GT1; apply coff_ext; intros j; symmetry; apply prod_col_pat; auto|].
  split; [exact Epinv|]. split; [exact Epki|]. split; [exact Ekp|]. split; [exact Eki|]. split; [exact MP|]. split; [exact MA|].
  split; [apply (map_ok_pat d (ak_A k) (ak_G k) (GTG_of d (ak_G k) gxv)); auto;
          unfold GTG_of, d1; cbn [with_GT sd_n sd_GT csc_set_vals colptr rowind]; fold GT1; now rewrite EM|].
  split; [exact Etmp|exact Lkx].
Qed.

(* the refresh does not touch the cached transposes *)
Lemma all_refresh_caches d k k' : all_refresh d k = Ok k' -> ak_A k' = ak_A k /\ ak_G k' = ak_G k.
Proof.
  unfold all_refresh. intros H. apply bind_ok in H as (kx1 & _ & H). apply bind_ok in H as (kx2 & _ & H).
  apply bind_ok in H as ([[kx3 GTG] tmp] & _ & H). apply bind_ok in H as (kx4 & _ & H). injection H as <-. destruct k. split; reflexivity.
Qed.

Definition cache_pat (k' k : akkt) : Prop :=
  rowind (ak_A k') = rowind (ak_A k) /\ colptr (ak_A k') = colptr (ak_A k) /\
  rowind (ak_G k') = rowind (ak_G k) /\ colptr (ak_G k') = colptr (ak_G k).
Lemma cache_pat_refl k : cache_pat k k. Proof. repeat split. Qed.
Lemma cache_pat_trans k1 k2 k3 : cache_pat k1 k2 -> cache_pat k2 k3 -> cache_pat k1 k3.
Proof. unfold cache_pat. intuition congruence. Qed.

(* the mask covers the changed blocks: A / G changed => their bit; anything changed (P, box scalings included) => mask <> 0 *)
Definition covers_all (mask : nat) (d : sdata) (px ax gx lbs ubs : Vec) : Prop :=
  (Nat.testbit mask 1 = false -> ax = vals (sd_AT d)) /\
  (Nat.testbit mask 2 = false -> gx = vals (sd_GT d)) /\
  (mask = 0 -> px = vals (sd_P d) /\ lbs = sd_lbs d /\ ubs = sd_ubs d).

(* (d) update_data on new values (same pattern) keeps the static invariant FOR THE NEW DATA -- so a following update_scalings
   reaches the canonical form of the new data (all_update_scalings_form) -- and with a non-zero covering mask it reaches the
   canonical form of the new data by itself *)
Theorem all_update_data_form d k mask px ax gx lbs ubs :
  wf_sdata d -> upper_only (sd_P d) = true -> sorted_colsb (sd_P d) = true -> all_static d k ->
  length px = nnz (sd_P d) -> length ax = nnz (sd_AT d) -> length gx = nnz (sd_GT d) ->
  covers_all mask d px ax gx lbs ubs ->
  let d' := with_all d px ax gx lbs ubs in
  (mask <> 0 -> all_scal_ok d' (ak_sc k)) ->
  exists k', all_update_data d' k mask = Ok k' /\ all_static d' k' /\ ak_sc k' = ak_sc k /\ cache_pat k' k /\
             (mask <> 0 -> all_form d' (ak_sc k) k') /\ (mask = 0 -> k' = k).
Proof.
  intros Hwf Hup Hsorted Hst Lp La Lg (C1 & C2 & C0) d' Hsc. unfold d', with_all in *.
  set (d0 := with_P d px lbs ubs). set (d1 := with_AT d0 ax). set (d2 := with_GT d1 gx).
  assert (Hwf0 : wf_sdata d0) by (apply wf_with_P; auto).
  assert (Hwf1 : wf_sdata d1) by (apply wf_with_AT; auto).
  assert (Hwf2 : wf_sdata d2) by (apply wf_with_GT; auto).
  unfold all_update_data.
  (* A *)
  assert (S1 : exists k1, (if Nat.testbit mask 1 then
             do A <- transpose_no_alloc (sd_AT d2) (ak_A k) ;;
             do '(ATA, tmp) <- scatter_product A (sd_AT d2) (ak_ATA k) None (ak_tmp k) ;;
             Ok (ak_set_A k A ATA tmp) else Ok k) = Ok k1 /\ all_static d1 k1 /\ ak_sc k1 = ak_sc k /\ cache_pat k1 k /\ (Nat.testbit mask 1 = false -> k1 = k)).
  { destruct (Nat.testbit mask 1) eqn:Eb.
    - change (sd_AT d2) with (sd_AT (with_AT d0 ax)).
      destruct (data_A_static d0 ax k Hwf0 (all_static_with_P d px lbs ubs k Hst) La) as (k1 & E1 & St1 & Sc1 & _ & R1 & R2 & R3).
      exists k1. split; [exact E1|]. split; [exact St1|]. split; [exact Sc1|]. split; [unfold cache_pat; rewrite R1, R2, R3; auto|discriminate].
    - exists k. split; [reflexivity|]. split; [|split; [reflexivity|split; [apply cache_pat_refl|auto]]]. unfold d1. rewrite (C1 eq_refl). change (sd_AT d) with (sd_AT d0).
      rewrite with_AT_id. apply all_static_with_P. exact Hst. }
  destruct S1 as (k1 & E1 & St1 & Sc1 & Cp1 & Id1). rewrite E1. cbn [bind].
  (* G *)
  assert (S2 : exists k2, (if Nat.testbit mask 2 then do G <- transpose_no_alloc (sd_GT d2) (ak_G k1) ;; Ok (ak_set_G k1 G) else Ok k1) = Ok k2 /\
                          all_static d2 k2 /\ ak_sc k2 = ak_sc k1 /\ cache_pat k2 k1 /\ (Nat.testbit mask 2 = false -> k2 = k1)).
  { destruct (Nat.testbit mask 2) eqn:Eb.
    - change (sd_GT d2) with (sd_GT (with_GT d1 gx)).
      destruct (data_G_static d1 gx k1 Hwf1 St1 Lg) as (k2 & E2 & St2 & Sc2 & _ & R1 & R2 & R3).
      exists k2. split; [exact E2|]. split; [exact St2|]. split; [exact Sc2|]. split; [unfold cache_pat; rewrite R1, R2, R3; auto|discriminate].
    - exists k1. split; [reflexivity|]. split; [|split; [reflexivity|split; [apply cache_pat_refl|auto]]]. unfold d2. rewrite (C2 eq_refl). change (sd_GT d) with (sd_GT d1).
      rewrite with_GT_id. exact St1. }
  destruct S2 as (k2 & E2 & St2 & Sc2 & Cp2 & Id2). rewrite E2. cbn [bind].
  pose proof (cache_pat_trans _ _ _ Cp2 Cp1) as Cp.
  destruct (Nat.eqb_spec mask 0) as [E0|N0].
  - exists k2. split; [reflexivity|]. split; [exact St2|]. split; [congruence|]. split; [exact Cp|]. split; [intros; contradiction|].
    intros _. subst mask. rewrite Id2, Id1 by reflexivity. reflexivity.
  - destruct (all_refresh_form d2 Hwf2 Hup Hsorted k2 St2) as (k' & E & Hf).
    { rewrite Sc2, Sc1. now apply Hsc. }
    exists k'. split; [exact E|]. destruct Hf as (St' & Sc' & Hv).
    split; [exact St'|]. split; [congruence|].
    split; [destruct (all_refresh_caches d2 k2 k' E) as [Ra Rg]; unfold cache_pat in *; rewrite Ra, Rg; exact Cp|]. split; [|intros; contradiction].
    intros _. split; [exact St'|]. split; [congruence|]. rewrite <- Sc1, <- Sc2. exact Hv.
Qed.

(* ================================================================ "= fresh": the stored matrix is determined by data, scalings and the cache patterns *)
Lemma all_form_matrix_eq d c c' k k' : wf_sdata d -> upper_only (sd_P d) = true ->
  all_form d c k -> all_form d c' k' -> cache_pat k' k ->
  (forall i j, i <= j -> j < sd_n d -> Kall d c i j = Kall d c' i j) ->
  ak_kp k' = ak_kp k /\ ak_ki k' = ak_ki k /\ ak_kx k' = ak_kx k.
Proof.
  intros Hwf Hup ((ax & gx & _ & _ & _ & _ & _ & _ & _ & _ & Ekp & Eki & _ & _ & _ & _ & Lkx) & _ & Hv)
         ((ax' & gx' & _ & _ & _ & _ & _ & _ & _ & _ & Ekp' & Eki' & _ & _ & _ & _ & Lkx') & _ & Hv') (R1 & R2 & R3 & R4) HK.
  cbv zeta in *.
  assert (Ekc : kcols_all d (ak_A k') (ak_G k') = kcols_all d (ak_A k) (ak_G k)).
  { unfold kcols_all, kcols_of. rewrite (pcm_eq (sd_n d) (ak_A k) (ak_A k') (sd_AT d) (sd_AT d)) by auto.
    rewrite (pcm_eq (sd_n d) (ak_G k) (ak_G k') (sd_GT d) (sd_GT d)) by auto. reflexivity. }
  rewrite Ekc in *. split; [congruence|]. split; [congruence|].
  apply (nth_ext _ _ (0%Qc : F) (0%Qc : F)); [congruence|]. intros q Hq. rewrite Lkx' in Hq.
  destruct (off_decomp (coff (kcols_all d (ak_A k) (ak_G k))) (fun j => length (kcols_all d (ak_A k) (ak_G k) j)) (sd_n d) (fun c0 _ => eq_refl) q ltac:(cbn; lia))
    as (j & t & Hj & Ht & ->).
  rewrite Hv', Hv by auto. symmetry. apply HK; auto. apply (kc_le d Hwf Hup (ak_A k) (ak_G k)); auto. apply nth_In; auto.
Qed.

(* the cached transposes have the inner / outer indices Eigen's transposition of the current data would give *)
Definition canon_caches (d : sdata) (k : akkt) : Prop :=
  exists XA XG, csc_transpose (sd_AT d) = Ok XA /\ csc_transpose (sd_GT d) = Ok XG /\
    rowind (ak_A k) = rowind XA /\ colptr (ak_A k) = colptr XA /\ rowind (ak_G k) = rowind XG /\ colptr (ak_G k) = colptr XG.

Lemma canon_pat d k k' : canon_caches d k -> cache_pat k' k -> canon_caches d k'.
Proof. intros (XA & XG & E1 & E2 & A1 & A2 & A3 & A4) (R1 & R2 & R3 & R4). exists XA, XG. repeat split; congruence. Qed.

Lemma canon_init d rho delta k : all_init d rho delta None = Ok k -> canon_caches d k.
Proof.
  unfold all_init. intros H. apply bind_ok in H as (am & Ec & H). cbn [bind] in H. apply bind_ok in H as (kx & _ & H). injection H as <-.
  unfold all_create in Ec. apply bind_ok in Ec as ([[[[A G] ATA] GTG] tmp] & Ew & Ec).
  apply bind_ok in Ec as ([[[K p2k] a2k] g2k] & _ & Ec). injection Ec as <-.
  unfold all_workspace in Ew. apply bind_ok in Ew as (A0 & EA & Ew). apply bind_ok in Ew as (G0 & EG & Ew).
  apply bind_ok in Ew as ([ATA0 tmp0] & _ & Ew). apply bind_ok in Ew as ([GTG0 tmp1] & _ & Ew). apply bind_ok in Ew as (w & _ & Ew).
  injection Ew as <- <- _ _ _. exists A0, G0. cbn. repeat split; auto.
Qed.

Lemma csc_transpose_pat (XT XT' X : csc F) n r : wf_csc XT = true -> wf_csc XT' = true -> same_pat XT' XT -> nrows XT = n -> ncols XT = r ->
  csc_transpose XT = Ok X -> exists X', csc_transpose XT' = Ok X' /\ rowind X' = rowind X /\ colptr X' = colptr X.
Proof.
  intros Hw Hw' (P1 & P2 & P3 & P4 & P5) Hn Hr E.
  destruct (csc_transpose_ok XT' n r Hw') as (X' & E' & C'); try congruence.
  destruct (csc_transpose_ok XT n r Hw Hn Hr) as (X0 & E0 & C0). rewrite E in E0. injection E0 as <-.
  exists X'. split; [exact E'|]. split.
  - unfold csc_transpose in E, E'. cbv zeta in *.
    apply (transpose_rows_same XT XT' (rowind X) P1 P2 P3 P5 _ _ X X' E eq_refl E'); cbn [colptr rowind vals].
    + apply transpose_colptr_pat; auto.
    + now rewrite P2.
    + rewrite !repeat_length. now rewrite P2.
  - destruct C' as (_ & _ & _ & Ec' & _). destruct C0 as (_ & _ & _ & Ec0 & _). rewrite Ec', Ec0. apply transpose_colptr_pat; auto.
Qed.

Lemma canon_with_all d px ax gx lbs ubs k : wf_sdata d -> length ax = nnz (sd_AT d) -> length gx = nnz (sd_GT d) ->
  canon_caches d k -> canon_caches (with_all d px ax gx lbs ubs) k.
Proof.
  intros Hwf La Lg (XA & XG & E1 & E2 & A1 & A2 & A3 & A4).
  pose proof Hwf as (_ & _ & _ & HwAT & HrAT & HcAT & HwGT & HrGT & HcGT).
  destruct (csc_transpose_pat (sd_AT d) (set_vals (sd_AT d) ax) XA _ _ HwAT (wf_set_vals _ ax HwAT La) (same_pat_set_vals _ ax HwAT La) HrAT HcAT E1) as (XA' & E1' & B1 & B2).
  destruct (csc_transpose_pat (sd_GT d) (set_vals (sd_GT d) gx) XG _ _ HwGT (wf_set_vals _ gx HwGT Lg) (same_pat_set_vals _ gx HwGT Lg) HrGT HcGT E2) as (XG' & E2' & B3 & B4).
  exists XA', XG'. split; [exact E1'|]. split; [exact E2'|]. repeat split; congruence.
Qed.

(* what a new object given the scalings c reaches *)
Definition all_fresh (d : sdata) (c : scal) : res akkt :=
  do k0 <- all_init d (sc_rho c) (sc_delta c) None ;; all_apply_scalings d k0 c.

Lemma all_fresh_form d c : wf_sdata d -> upper_only (sd_P d) = true -> sorted_colsb (sd_P d) = true ->
  all_scal_ok d c -> (1 + sc_delta c)%Qc <> 0%Qc -> scal_ok d (unit_scal d (sc_rho c) (sc_delta c)) ->
  exists kf, all_fresh d c = Ok kf /\ all_form d c kf /\ canon_caches d kf.
Proof.
  intros Hwf Hup Hs Hsc Hd1 Hu. pose proof Hsc as (_ & Hd & _).
  destruct (all_init_static d Hwf Hs (sc_rho c) (sc_delta c) Hd Hd1 Hu) as (k0 & E0 & St0 & _).
  unfold all_fresh. rewrite E0. cbn [bind]. unfold all_apply_scalings.
  destruct (ak_set_sc_fields k0 c) as (F1 & F2 & F3 & _).
  destruct (all_refresh_form d Hwf Hup Hs (ak_set_sc k0 c)) as (kf & E & Hf).
  - now apply all_static_set_sc.
  - now rewrite F3.
  - exists kf. split; [exact E|]. rewrite F3 in Hf. split; [exact Hf|].
    destruct (all_refresh_caches d _ kf E) as [Ra Rg].
    apply (canon_pat d k0); [exact (canon_init d _ _ k0 E0)|]. unfold cache_pat. rewrite Ra, Rg, F1, F2. repeat split.
Qed.

(* (d), T2 for this mode: update_data with a non-zero covering mask on new values leaves the stored matrix of a fresh object on the
   new data with the same scalings *)
Theorem all_update_data_eq_fresh d k mask px ax gx lbs ubs :
  wf_sdata d -> upper_only (sd_P d) = true -> sorted_colsb (sd_P d) = true -> all_static d k -> canon_caches d k ->
  length px = nnz (sd_P d) -> length ax = nnz (sd_AT d) -> length gx = nnz (sd_GT d) ->
  covers_all mask d px ax gx lbs ubs -> mask <> 0 ->
  let d' := with_all d px ax gx lbs ubs in
  let c := ak_sc k in
  all_scal_ok d' c -> (1 + sc_delta c)%Qc <> 0%Qc -> scal_ok d' (unit_scal d' (sc_rho c) (sc_delta c)) ->
  exists k' kf, all_update_data d' k mask = Ok k' /\ all_fresh d' c = Ok kf /\
                all_form d' c k' /\ all_form d' c kf /\ canon_caches d' k' /\
                ak_kp k' = ak_kp kf /\ ak_ki k' = ak_ki kf /\ ak_kx k' = ak_kx kf.
Proof.
  intros Hwf Hup Hs Hst Hcan Lp La Lg Hcov Hm d' c Hsc Hd1 Hu.
  destruct (all_update_data_form d k mask px ax gx lbs ubs Hwf Hup Hs Hst Lp La Lg Hcov (fun _ => Hsc)) as (k' & E & St' & Sc' & Cp & Hf & _).
  specialize (Hf Hm). fold d' c in Hf, E, St'.
  assert (Hwf' : wf_sdata d') by (unfold d', with_all; apply wf_with_GT; [apply wf_with_AT; [apply wf_with_P|]|]; auto).
  destruct (all_fresh_form d' c Hwf' Hup Hs Hsc Hd1 Hu) as (kf & Ef & Hff & Hcf).
  assert (Hc' : canon_caches d' k') by (apply (canon_pat d' k); [now apply canon_with_all|exact Cp]).
  exists k', kf. split; [exact E|]. split; [exact Ef|]. split; [exact Hf|]. split; [exact Hff|]. split; [exact Hc'|].
  apply (all_form_matrix_eq d' c c kf k' Hwf' Hup Hff Hf); auto.
  destruct Hc' as (XA & XG & E1 & E2 & A1 & A2 & A3 & A4). destruct Hcf as (XA' & XG' & E1' & E2' & B1 & B2 & B3 & B4).
  rewrite E1 in E1'. injection E1' as <-. rewrite E2 in E2'. injection E2' as <-. unfold cache_pat. repeat split; congruence.
Qed.

(* ================================================================ update_data followed by update_scalings == fresh init followed by update_scalings *)
(* the reduced operator only reads the first n_lb / n_ub entries of the box scalings: the state-dependent tails play no role *)
Lemma Kall_new_scal d c0 c0' rho delta s s_lb s_ub zi zlbi zubi i j :
  sd_nlb d <= length s_lb -> sd_nub d <= length s_ub -> length zlbi = sd_nlb d -> length zubi = sd_nub d ->
  Kall d (new_scal d c0 rho delta s s_lb s_ub zi zlbi zubi) i j = Kall d (new_scal d c0' rho delta s s_lb s_ub zi zlbi zubi) i j.
Proof.
  intros L1 L2 L3 L4.
  assert (Hb : a_bdiag (sys_sparse d (new_scal d c0 rho delta s s_lb s_ub zi zlbi zubi)) i =
               a_bdiag (sys_sparse d (new_scal d c0' rho delta s s_lb s_ub zi zlbi zubi)) i).
  { unfold a_bdiag, a_wlb, a_wub, sys_sparse, sys_sparse_gen, new_scal, fv, fidx.
    cbn [y_nlb y_nub y_lbidx y_ubidx y_lbs y_ubs y_slb y_sub y_zli y_zui y_delta sc_s_lb sc_s_ub sc_z_lb_inv sc_z_ub_inv sc_delta].
    f_equal; apply sum_ext; intros k Hk; destruct (_ =? i); try reflexivity.
    - rewrite !nth_set_head by (rewrite ?head_length; lia). reflexivity.
    - rewrite !nth_set_head by (rewrite ?head_length; lia). reflexivity. }
  unfold Kall. rewrite Hb. reflexivity.
Qed.

Lemma all_update_scalings_caches d k rho delta s s_lb s_ub z z_lb z_ub k' :
  all_update_scalings d k rho delta s s_lb s_ub z z_lb z_ub = Ok k' -> ak_A k' = ak_A k /\ ak_G k' = ak_G k.
Proof.
  unfold all_update_scalings. intros H. apply bind_ok in H as (? & _ & H). apply bind_ok in H as (? & _ & H).
  apply bind_ok in H as (? & _ & H). apply bind_ok in H as (? & _ & H). apply bind_ok in H as (zi & _ & H).
  apply bind_ok in H as (zl & _ & H). apply bind_ok in H as (zu & _ & H). cbv zeta in H. unfold all_apply_scalings in H.
  destruct (all_refresh_caches d _ k' H) as [Ra Rg]. rewrite Ra, Rg.
  match goal with |- ak_A (ak_set_sc ?kk ?cc) = _ /\ _ => destruct (ak_set_sc_fields kk cc) as (F1 & F2 & _) end. auto.
Qed.

Theorem all_update_data_scalings_eq_fresh d k mask px ax gx lbs ubs rho0 delta0 rho delta s s_lb s_ub z z_lb z_ub zi zlbi zubi :
  wf_sdata d -> upper_only (sd_P d) = true -> sorted_colsb (sd_P d) = true -> all_static d k -> canon_caches d k ->
  length px = nnz (sd_P d) -> length ax = nnz (sd_AT d) -> length gx = nnz (sd_GT d) ->
  covers_all mask d px ax gx lbs ubs ->
  let d' := with_all d px ax gx lbs ubs in
  (mask <> 0 -> all_scal_ok d' (ak_sc k)) ->
  delta0 <> 0%Qc -> (1 + delta0)%Qc <> 0%Qc -> scal_ok d' (unit_scal d' rho0 delta0) ->
  sd_nlb d <= length s_lb -> sd_nlb d <= length z_lb -> sd_nub d <= length s_ub -> sd_nub d <= length z_ub ->
  vinv z = Ok zi -> vinv (head (sd_nlb d) z_lb) = Ok zlbi -> vinv (head (sd_nub d) z_ub) = Ok zubi ->
  (forall c0, all_scal_ok d' (new_scal d' c0 rho delta s s_lb s_ub zi zlbi zubi)) ->
  exists k1 k2 k0 k3,
    all_update_data d' k mask = Ok k1 /\ all_update_scalings d' k1 rho delta s s_lb s_ub z z_lb z_ub = Ok k2 /\
    all_init d' rho0 delta0 None = Ok k0 /\ all_update_scalings d' k0 rho delta s s_lb s_ub z z_lb z_ub = Ok k3 /\
    all_form d' (new_scal d' (ak_sc k) rho delta s s_lb s_ub zi zlbi zubi) k2 /\
    ak_kp k2 = ak_kp k3 /\ ak_ki k2 = ak_ki k3 /\ ak_kx k2 = ak_kx k3.
Proof.
  intros Hwf Hup Hs Hst Hcan Lp La Lg Hcov d' Hsc Hd0 Hd01 Hu0 L1 L2 L3 L4 E1 E2 E3 Hsc2.
  destruct (all_update_data_form d k mask px ax gx lbs ubs Hwf Hup Hs Hst Lp La Lg Hcov Hsc) as (k1 & Eu & St1 & Sc1 & Cp1 & _ & _).
  fold d' in Eu, St1.
  assert (Hwf' : wf_sdata d') by (unfold d', with_all; apply wf_with_GT; [apply wf_with_AT; [apply wf_with_P|]|]; auto).
  destruct (all_update_scalings_form d' Hwf' Hup Hs k1 rho delta s s_lb s_ub z z_lb z_ub zi zlbi zubi St1 L1 L2 L3 L4 E1 E2 E3 (Hsc2 _)) as (k2 & Es2 & Hf2).
  destruct (all_init_static d' Hwf' Hs rho0 delta0 Hd0 Hd01 Hu0) as (k0 & E0 & St0 & Sc0).
  destruct (all_update_scalings_form d' Hwf' Hup Hs k0 rho delta s s_lb s_ub z z_lb z_ub zi zlbi zubi St0 L1 L2 L3 L4 E1 E2 E3 (Hsc2 _)) as (k3 & Es3 & Hf3).
  exists k1, k2, k0, k3. split; [exact Eu|]. split; [exact Es2|]. split; [exact E0|]. split; [exact Es3|].
  rewrite Sc1 in Hf2. split; [exact Hf2|].
  assert (Hc1 : canon_caches d' k1) by (apply (canon_pat d' k); [now apply canon_with_all|exact Cp1]).
  pose proof (canon_init d' rho0 delta0 k0 E0) as Hc0.
  destruct (all_update_scalings_caches d' k1 _ _ _ _ _ _ _ _ k2 Es2) as [Ra2 Rg2].
  destruct (all_update_scalings_caches d' k0 _ _ _ _ _ _ _ _ k3 Es3) as [Ra3 Rg3].
  apply (all_form_matrix_eq d' _ _ k3 k2 Hwf' Hup Hf3 Hf2).
  - destruct Hc1 as (XA & XG & X1 & X2 & A1 & A2 & A3 & A4). destruct Hc0 as (XA' & XG' & X1' & X2' & B1 & B2 & B3 & B4).
    rewrite X1 in X1'. injection X1' as <-. rewrite X2 in X2'. injection X2' as <-.
    unfold cache_pat. rewrite Ra2, Rg2, Ra3, Rg3. repeat split; congruence.
  - intros i j _ _. destruct (vinv_ok _ _ E2) as [Lz2 _]. destruct (vinv_ok _ _ E3) as [Lz3 _].
    rewrite head_length in Lz2 by auto. rewrite head_length in Lz3 by auto.
    apply Kall_new_scal; auto.
Qed.
