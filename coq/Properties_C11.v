(* Properties_C11.v -- C11 "update() and solve() do not allocate", the part that is logic.
   Statements only; proofs are in ShapesProofs.v, definitions in Shapes.v (over the model API.v of the dense solver object).

   Level: proof (partial).  PROVED here, for every problem size: after an accepted setup(), no accepted update() (any
   subset of the eight blocks, both values of reuse_preconditioner, any change of the set of finite bounds) and no solve()
   (any fault oracle of hook H1, hence every path: SOLVED, MAX_ITER_REACHED, PRIMAL/DUAL_INFEASIBLE, NUMERICS at the first
   factorisation or inside the loop, retries, refinement on/off) changes the length of any solver-owned array of the model:
   every assignment has equal-shaped sides, so Eigen's resize-on-assign is a no-op.
   NOT provable on a model (runtime part, carried by tools/props/c11.py): temporaries chosen by Eigen's expression
   evaluators.  harness/drv_alloc.cpp counts every allocator call of the real double build around update()/solve() and
   compares the size and address of every workspace member with its value after setup().
   Not formalised: DESIGN's T2 (tagging each model operation as in-place/allocating); the shape equalities below say the
   same thing about every array at the granularity of whole calls and of the main-loop invariant.

     shape_of sv        record of the lengths of all solver-owned arrays: the 12 Data arrays (matrices as the list of their
                        column lengths), the 6 preconditioner vectors, the 6 KKT scaling vectors, the rows of kkt_mat and
                        AT_A, the factorisation, the 13 result vectors
     canon_shape n p m  what init_workspace / KKT::init / preconditioner init allocate for an (n, p, m) problem
     fits sv            PACKED ARRAYS: the model stores x_lb_idx, x_ub_idx, x_lb_n, x_ub as the packed prefix of length
                        n_lb / n_ub whereas the C++ arrays have the fixed length n.  shape_of therefore reports the constant
                        n for these four (and for the n x n matrix owned by Eigen::LLT, which the model represents by an
                        option), and [fits] is the side condition that makes this sound: n_lb <= n, n_ub <= n,
                        |lb_n| = |lb_idx| = n_lb, |ub| = |ub_idx| = n_ub, the preconditioner's copies of n_lb / n_ub agree,
                        and a present factor has n rows (row i of length i) and n pivots.
     blocks_ok n p m B  the arguments have the dimensions update() accepts (present blocks only)
     setup_blocks_ok    additionally: A, b (G, h) may be absent only if p = 0 (m = 0)
     wf_solver sv       the invariant: wf_data, wf_pc (PrecondProofs.v), wf_kkt, wf_out, pc_nlb/pc_nub agree with the data
     wf_st d st         the invariant of solve_impl's state: iterate vectors have lengths n, p, m, n_lb, n_ub; KKT state
                        shaped; residual vectors shaped (or not yet computed: iter = 0)
     run_sops sv h      run the history h of updates and solves from sv (Err as soon as a call is rejected)
     spc                the sparse_pc parameter of API.v (which Ruiz variant the model follows); all statements hold for both
     sane_consts K      0 < k_min_scaling <= 1 <= k_max_scaling (holds for the translated constants: C11_ex_sane_consts) *)
From PIQP Require Import Base Data Bounds PrecondDense KKTDense IPM API PrecondProofs Shapes ShapesProofs.
From PIQP.gen Require Import Consts.

(* setup allocates the canonical shape *)
Theorem C11_setup_shape :
  forall (K : Consts) (ident spc : bool) (junk : F) (St : Settings) (n p m : nat) (B : Blocks) (sv : Solver),
  sane_consts K -> setup_blocks_ok n p m B -> setup K ident spc junk St n p m B = Ok sv ->
  shape_of sv = canon_shape n p m /\ fits sv.
Proof. exact setup_shape. Qed.
Print Assumptions C11_setup_shape.

(* ... and establishes the invariant *)
Theorem C11_setup_wf :
  forall (K : Consts) (ident spc : bool) (junk : F) (St : Settings) (n p m : nat) (B : Blocks) (sv : Solver),
  sane_consts K -> setup_blocks_ok n p m B -> setup K ident spc junk St n p m B = Ok sv ->
  wf_solver sv /\ d_n (sv_data sv) = n /\ d_p (sv_data sv) = p /\ d_m (sv_data sv) = m.
Proof. exact setup_wf. Qed.
Print Assumptions C11_setup_wf.

(* every accepted update keeps every shape: any block subset, both reuse values, bound-pattern changes *)
Theorem C11_update_shape :
  forall (K : Consts) (spc : bool) (sv : Solver) (B : Blocks) (reuse : bool) (sv' : Solver),
  sane_consts K -> wf_solver sv -> blocks_ok (d_n (sv_data sv)) (d_p (sv_data sv)) (d_m (sv_data sv)) B ->
  update K spc sv B reuse = Ok sv' -> shape_of sv' = shape_of sv /\ fits sv' /\ wf_solver sv'.
Proof. exact update_shape. Qed.
Print Assumptions C11_update_shape.

(* every solve keeps every shape: any fault oracle, any status *)
Theorem C11_solve_shape :
  forall (K : Consts) (junk : F) (cp_bits : Z) (fault : nat -> bool) (sv sv' : Solver) (status : Status),
  wf_solver sv -> solve K junk cp_bits fault sv = Ok (sv', status) ->
  shape_of sv' = shape_of sv /\ fits sv' /\ wf_solver sv'.
Proof. exact solve_shape. Qed.
Print Assumptions C11_solve_shape.

(* the invariant over the main loop (any number of passes, any fault oracle, any exit) *)
Theorem C11_main_loop_invariant :
  forall (K : Consts) (St0 : Settings) (d : Data) (pc : Precond) (fault : nat -> bool) (cp : F -> F),
  wf_data d -> forall (fuel : nat) (st st' : St),
  wf_st d st -> main_loop K St0 d pc fault cp fuel st = Ok st' -> wf_st d st'.
Proof. exact main_loop_wf. Qed.
Print Assumptions C11_main_loop_invariant.

(* one pass of the loop, whichever way it leaves (SOLVED, infeasible, retry, NUMERICS, normal step) *)
Theorem C11_loop_pass_invariant :
  forall (K : Consts) (St0 : Settings) (d : Data) (pc : Precond) (fault : nat -> bool) (cp : F -> F),
  wf_data d -> forall (st : St) (o : Outcome),
  wf_st d st -> loop_pass K St0 d pc fault cp st = Ok o -> wf_st d (out_st o).
Proof. exact loop_pass_wf. Qed.
Print Assumptions C11_loop_pass_invariant.

(* T1 shapes_invariant: all histories *)
Theorem C11_shapes_invariant :
  forall (K : Consts) (ident spc : bool) (junk : F) (cp_bits : Z) (St : Settings) (n p m : nat) (B : Blocks) (sv0 : Solver),
  sane_consts K -> setup_blocks_ok n p m B -> setup K ident spc junk St n p m B = Ok sv0 ->
  forall (h : list SOp) (sv : Solver), Forall (sop_ok n p m) h -> run_sops K spc junk cp_bits sv0 h = Ok sv ->
  shape_of sv = shape_of sv0 /\ shape_of sv = canon_shape n p m /\ fits sv.
Proof. exact shapes_invariant. Qed.
Print Assumptions C11_shapes_invariant.

(* ------------------------------------------------------------------ *)
(* non-vacuity *)
Example C11_ex_sane_consts : sane_consts consts.
Proof. repeat split; vm_compute; congruence. Qed.

Definition q (z : Z) : F := qofZ z.
Definition C11_ex_S : Settings :=
  let D := default_settings in
  mkSettings (qmk 1 256) (qmk 1 64) (qmk 1 1024) (qmk 1 1024) (check_duality_gap D) (qmk 1 1024)
    (qmk 1 1024) (qmk 1 1048576) (qmk 1 1073741824) (reg_finetune_primal_update_threshold D)
    (reg_finetune_dual_update_threshold D) 1%Z (max_factor_retires D) (preconditioner_scale_cost D) 1%Z (qmk 7 8)
    (iterative_refinement_always_enabled D) (iterative_refinement_eps_abs D) (iterative_refinement_eps_rel D)
    (iterative_refinement_max_iter D) (iterative_refinement_min_improvement_rate D)
    (iterative_refinement_static_regularization_eps D) (iterative_refinement_static_regularization_rel D).
(* n = 2, p = 1, m = 1, one finite lower and one finite upper bound *)
Definition C11_ex_B : Blocks :=
  {| b_P := Some [[q 4; q 1]; [q 1; q 3]]; b_c := Some [q 1; q (-2)]; b_A := Some [[q 1]; [q 1]]; b_b := Some [q 1];
     b_G := Some [[q 1]; [q (-1)]]; b_h := Some [Fin (q 2)];
     b_lb := Some [Fin (q (-1)); NInf]; b_ub := Some [PInf; Fin (q 3)] |}.
(* the update changes c and makes both lower bounds finite: n_lb grows from 1 to 2 *)
Definition C11_ex_U : Blocks :=
  {| b_P := None; b_c := Some [q 3; q 1]; b_A := None; b_b := None; b_G := None; b_h := None;
     b_lb := Some [Fin (q (-2)); Fin (q (-2))]; b_ub := None |}.

Example C11_ex_blocks_ok : setup_blocks_ok 2 1 1 C11_ex_B /\ blocks_ok 2 1 1 C11_ex_U.
Proof.
  split; [split|]; repeat split; cbn; try reflexivity; try discriminate; repeat constructor.
Qed.

(* solves with the fault oracle "every factorisation fails" stop with NUMERICS after max_factor_retires retries: the
   cheapest complete pass through solve() in exact arithmetic (the independent checker coqchk re-evaluates this file
   without the VM, so the examples are kept small) *)
Definition C11_ex_history : list SOp :=
  [SSolve (fun _ => true); SUpdate C11_ex_U false; SSolve (fun _ => true); SUpdate C11_ex_U true; SSolve (fun _ => true)].

(* the history is accepted call by call (so the theorem speaks about a real run: an update that changes the bound pattern
   with a fresh preconditioner, an update with reuse, solves that end in NUMERICS), n_lb really changes 1 -> 2 *)
Example C11_ex_run :
  match setup consts false false 0%Qc C11_ex_S 2 1 1 C11_ex_B with
  | Ok sv0 =>
      match run_sops consts false 0%Qc 8%Z sv0 C11_ex_history with
      | Ok sv => (Nat.eqb (d_nlb (sv_data sv0)) 1 && Nat.eqb (d_nlb (sv_data sv)) 2)%bool
      | Err _ => false
      end
  | Err _ => false
  end = true.
Proof. vm_compute. reflexivity. Qed.

Example C11_ex_shapes :
  forall sv0 sv, setup consts false false 0%Qc C11_ex_S 2 1 1 C11_ex_B = Ok sv0 ->
  run_sops consts false 0%Qc 8%Z sv0 C11_ex_history = Ok sv ->
  shape_of sv = shape_of sv0 /\ shape_of sv = canon_shape 2 1 1 /\ fits sv.
Proof.
  intros sv0 sv H0 H. eapply C11_shapes_invariant; [exact C11_ex_sane_consts|exact (proj1 C11_ex_blocks_ok)|exact H0| |exact H].
  repeat constructor; exact (proj2 C11_ex_blocks_ok).
Qed.

(* a complete interior-point solve (no injected faults, both loop branches are covered by the theorems; here the
   unconstrained one): n = 1, P = 2, c = -2, one iteration *)
Definition C11_ex_B1 : Blocks :=
  {| b_P := Some [[q 2]]; b_c := Some [q (-2)]; b_A := None; b_b := None; b_G := None; b_h := None; b_lb := None; b_ub := None |}.
Example C11_ex_full_solve :
  match setup consts true false 0%Qc C11_ex_S 1 0 0 C11_ex_B1 with
  | Ok sv0 =>
      match solve consts 0%Qc 8%Z (fun _ => false) sv0 with
      | Ok (sv, st) => match st with NUMERICS => false | _ => Nat.eqb (length (o_x (sv_out sv))) 1 end
      | Err _ => false
      end
  | Err _ => false
  end = true.
Proof. vm_compute. reflexivity. Qed.
