(* LDLSparseFinalProofs.v -- C14 T1 assembled (BOUNDED, bound in the names): for every upper pattern with full diagonal of
   size n <= 4 and ALL values, if the factorisation returns n then L*D*L^T = A and solve_inplace inverts A.
   Pieces: numeric_erase / exhaustive index check (LDLSparseProofs), symbolic evaluation (LDLSparseValuesProofs),
   general triangular solves (LDLSolveProofs). *)
From PIQP Require Import Base CSC LDLSparse C14LemmasProofs PatternsProofs LDLSolveProofs LDLSparseProofs LDLSparseValuesProofs LDLSparseValuesN4Proofs.
Local Open Scope nat_scope.

(* the symmetric matrix whose upper triangle is stored in A *)
Definition sym_get (A : csc F) (i j : nat) : F := if i <=? j then csc_get A i j else csc_get A j i.

(* index-only: the finished factor is a unit lower CSC *)
Definition unit_lower_idx_check (n : nat) (Ap Ai : list nat) : bool :=
  match symbolic_i n Ap Ai with
  | Ok li => match numeric_i n Ap Ai li with
             | Ok li' => unit_lower_ok n (i_Lcols li') (i_Lind li') (repeat 0%Qc (length (i_Lind li')))
             | Err _ => false end
  | Err _ => false
  end.
Definition unit_lower_idx_check_all (n : nat) : bool :=
  forallb (fun bs => let pat := pattern_of n (adj_of_bits n bs) in unit_lower_idx_check n (fst pat) (snd pat))
          (all_bools (length (pairs n))).
Lemma unit_lower_idx_check_all_5 : forallb unit_lower_idx_check_all (seq 0 6) = true.
Proof. vm_compute. reflexivity. Qed.

Lemma unit_lower_ok_vals n Lcols Lind (v1 v2 : list F) : length v1 = length v2 ->
  unit_lower_ok n Lcols Lind v1 = unit_lower_ok n Lcols Lind v2.
Proof. intros H. unfold unit_lower_ok. now rewrite H. Qed.

(* the factor object after a complete factorisation: sizes *)
Lemma factor_sizes (A : csc F) r li2 lv2 :
  length (vals A) = length (rowind A) ->
  (exists li li', symbolic_i (nrows A) (colptr A) (rowind A) = Ok li /\ numeric_i (nrows A) (colptr A) (rowind A) li = Ok li') ->
  ldl_factor A = Ok (r, (li2, lv2)) -> length (v_Lvals lv2) = length (i_Lind li2).
Proof.
  intros HAx (li & li' & Hs & Hn) H. unfold ldl_factor, symbolic in H. rewrite Hs in H. cbn [bind] in H.
  unfold numeric in H. cbn [fst] in H. unfold numeric_i in Hn.
  set (lv0 := mkldlv (repeat 0%Qc (length (i_Lind li))) (repeat 0%Qc (nrows A)) (repeat 0%Qc (nrows A)) (repeat 0%Qc (nrows A))) in *.
  destruct (num_loop_sim (nrows A) (colptr A) (rowind A) (vals A) (i_etree li) (i_Lcols li) HAx (nrows A) 0 li li' lv0)
    as (r' & li3 & lv3 & El & (V1 & V2 & V3 & V4) & _); auto.
  - unfold VS, lv0; simpl. rewrite !repeat_length. repeat split; auto. eapply symbolic_i_flag; eauto.
  - intros i Hi; lia.
  - change Qc with F in *. rewrite El in H. cbn [bind] in H. destruct (r' =? nrows A).
    + destruct (mapM qinv (v_D lv3)); cbn [bind] in H; inversion H; subst. exact V3.
    + inversion H; subst. exact V3.
Qed.

Theorem ldl_sparse_correct_n4 (n : nat) (adj : nat -> nat -> bool) (vs b : list F) : n <= 4 ->
  let Ap := fst (pattern_of n adj) in let Ai := snd (pattern_of n adj) in
  let A := mkcsc n n Ap Ai vs in
  length vs = length Ai -> length b = n ->
  forall li lv, ldl_factor A = Ok (n, (li, lv)) ->
    (forall i j, i <= j -> j < n ->
       sum_n (S i) (fun c => Lm_of n li lv j c * nth c (v_D lv) 0 * Lm_of n li lv i c)%Qc = csc_get A i j) /\
    exists x, ldl_solve (li, lv) b = Ok x /\ length x = n /\
      forall i, i < n -> sum_n n (fun j => sym_get A i j * nth j x 0)%Qc = nth i b 0%Qc.
Proof.
  intros Hn Ap Ai A Hv Hb li lv Hf.
  (* L D L^T = A *)
  assert (Hprod : ldl_product_ok A).
  { unfold A, Ap, Ai. apply ldl_product_n; auto.
    assert (Hcases : n = 0 \/ n = 1 \/ n = 2 \/ n = 3 \/ n = 4) by lia.
    destruct Hcases as [-> | [-> | [-> | [-> | ->]]]].
    apply ldl_product_0. apply ldl_product_1. apply ldl_product_2. apply ldl_product_3. apply ldl_product_4. }
  unfold ldl_product_ok in Hprod. rewrite Hf in Hprod. specialize (Hprod eq_refl). cbn [nrows A] in Hprod.
  assert (HP : forall i j, i <= j -> j < n ->
       sum_n (S i) (fun c => Lm_of n li lv j c * nth c (v_D lv) 0 * Lm_of n li lv i c)%Qc = csc_get A i j).
  { intros i j Hij Hj. apply (conj_list_forall _ _ Hprod (i, j)). now apply in_pairs_le. }
  split; [exact HP|].
  (* index facts and D_inv *)
  destruct (ldl_factor_total_n5 n adj vs ltac:(lia) Hv) as (r & li2 & lv2 & E & _ & _ & _ & Hfull).
  fold Ap Ai A in E. rewrite Hf in E. inversion E; subst r li2 lv2. destruct (Hfull eq_refl) as [_ HDinv].
  pose proof (ldl_index_check_n5 n adj ltac:(lia)) as Hc. fold Ap Ai in Hc. unfold ldl_index_check in Hc.
  destruct (symbolic_i n Ap Ai) as [li0|] eqn:Es; [|discriminate].
  destruct (numeric_i n Ap Ai li0) as [li'|] eqn:En; [|discriminate].
  destruct (numeric_erase A li0 li' Hv Es En) as (r & li2 & lv2 & E2 & _ & _ & _ & Hfull2).
  rewrite Hf in E2. inversion E2; subst r li2 lv2. destruct (Hfull2 eq_refl) as (-> & LDinv & LD & _).
  assert (Hul : unit_lower_ok n (i_Lcols li') (i_Lind li') (v_Lvals lv) = true).
  { pose proof unit_lower_idx_check_all_5 as H. rewrite forallb_forall in H.
    specialize (H n ltac:(apply in_seq; lia)). unfold unit_lower_idx_check_all in H. rewrite forallb_forall in H.
    destruct (pattern_enumerated n adj) as (bs & Hbs & Epat). specialize (H bs Hbs). cbv zeta in H.
    rewrite <- Epat in H. fold Ap Ai in H. unfold unit_lower_idx_check in H. rewrite Es, En in H.
    rewrite (unit_lower_ok_vals _ _ _ _ (repeat 0%Qc (length (i_Lind li')))); [exact H|].
    rewrite repeat_length. eapply (factor_sizes A); eauto. }
  destruct (solve_inplace_correct n (i_Lcols li') (i_Lind li') (v_Lvals lv) Hul (v_Dinv lv) LDinv (v_D lv) HDinv b Hb)
    as (x & Ex & Lx & Hx).
  exists x. split; [exact Ex|]. split; auto. intros i Hi. rewrite <- (Hx i Hi).
  apply sum_n_ext. intros j Hj. f_equal.
  (* (L D L^T)(i,j) over all n columns = the truncated product = A *)
  assert (Htr : forall p q, p <= q -> q < n -> LDLt n (i_Lcols li') (i_Lind li') (v_Lvals lv) (v_D lv) q p = csc_get A p q).
  { intros p q Hpq Hq. rewrite <- HP by auto. unfold LDLt.
    rewrite (sum_n_trunc n (S p)).
    - apply sum_n_ext. intros c Hc0. reflexivity.
    - lia.
    - intros c Hc1. unfold Lmat at 2. destruct (Nat.eqb_spec p c); [lia|].
      rewrite (lent_upper n _ _ _ Hul p c) by lia. fring. }
  unfold sym_get. destruct (Nat.leb_spec i j).
  - rewrite <- Htr by auto. unfold LDLt. apply sum_n_ext. intros; fring.
  - rewrite <- Htr by lia. reflexivity.
Qed.
