(* CSC.v -- compressed sparse column matrices, orderings and the kernels of include/piqp/sparse/utils.hpp and
   include/piqp/sparse/ordering.hpp, transcribed loop by loop (C14).

   Executable Gallina; every array access goes through get/upd (Err Index when out of range), so a run that
   returns Ok performed no out-of-bounds access.  The value type of a matrix is a parameter [V] because
   permute/transpose only move values around (this is what makes the "for all values" statements of
   CSCProofs.v provable from an evaluation on positions); [csc F] is the matrix type of the solver. *)
From PIQP Require Import Base.
Local Open Scope Qc_scope.

(* ---------- loops ---------- *)
(* for (i = lo; i < hi; i++) s = f i s *)
Definition for_range {S} (lo hi : nat) (f : nat -> S -> res S) (s : S) : res S :=
  foldM (fun s i => f i s) (seq lo (hi - lo)) s.
(* for (i = n - 1; i >= 0; i--) s = f i s *)
Definition for_down {S} (n : nat) (f : nat -> S -> res S) (s : S) : res S :=
  foldM (fun s i => f i s) (rev (seq 0 n)) s.

(* ---------- matrices ---------- *)
Record csc (V : Type) := mkcsc {
  nrows : nat;              (* innerSize *)
  ncols : nat;              (* outerSize *)
  colptr : list nat;        (* outerIndexPtr, ncols+1 entries *)
  rowind : list nat;        (* innerIndexPtr *)
  vals : list V             (* valuePtr *)
}.
Arguments mkcsc {V}. Arguments nrows {V}. Arguments ncols {V}. Arguments colptr {V}. Arguments rowind {V}. Arguments vals {V}.

Fixpoint nondecb (l : list nat) : bool :=
  match l with
  | a :: ((b :: _) as t) => (a <=? b)%nat && nondecb t
  | _ => true
  end.

(* compressed, in range; row indices inside a column need not be sorted or distinct *)
Definition wf_csc {V} (A : csc V) : bool :=
  (length (colptr A) =? S (ncols A))%nat &&
  (nth 0 (colptr A) 1 =? 0)%nat &&
  nondecb (colptr A) &&
  (nth (ncols A) (colptr A) 0 =? length (rowind A))%nat &&
  (length (vals A) =? length (rowind A))%nat &&
  forallb (fun i => (i <? nrows A)%nat) (rowind A).

(* semantic entry: sum of the stored values of column j with row index i *)
Definition qsum (l : list F) : F := fold_right Qcplus 0 l.
Definition csc_get (A : csc F) (i j : nat) : F :=
  let lo := nth j (colptr A) 0%nat in let hi := nth (S j) (colptr A) 0%nat in
  qsum (map (fun p => if (nth p (rowind A) 0%nat =? i)%nat then nth p (vals A) 0 else 0) (seq lo (hi - lo))).

(* column of a position *)
Definition upper_only {V} (A : csc V) : bool :=
  forallb (fun j => forallb (fun p => (nth p (rowind A) 0 <=? j)%nat)
                            (seq (nth j (colptr A) 0) (nth (S j) (colptr A) 0 - nth j (colptr A) 0)))%nat
          (seq 0 (ncols A)).

(* ---------- orderings (ordering.hpp: AMDOrdering) ---------- *)
Record ordering := mkord { oP : list nat; oPinv : list nat }.

(* the loop of AMDOrdering::init after Eigen's AMD produced P:  P_inv.resize(n); for i: P_inv[P[i]] = i
   (the freshly resized P_inv holds unspecified values: modelled by the filler [n]) *)
Definition ordering_init (P : list nat) : res ordering :=
  let n := length P in
  do pinv <- for_range 0 n (fun i pinv => do pi <- get P i ;; upd pinv pi i) (repeat n n) ;;
  Ok (mkord P pinv).

Definition ord_at (o : ordering) (i : nat) : res nat := get (oP o) i.     (* operator[] / operator() *)
Definition ord_inv (o : ordering) (i : nat) : res nat := get (oPinv o) i.  (* inv *)

(* perm: x[j] = b[P[j]];  x is given (it is overwritten entry by entry) *)
Definition ord_perm {V} (o : ordering) (x b : list V) : res (list V) :=
  for_range 0 (length x) (fun j x => do pj <- get (oP o) j ;; do v <- get b pj ;; upd x j v) x.
(* permt: x[P[j]] = b[j] *)
Definition ord_permt {V} (o : ordering) (x b : list V) : res (list V) :=
  for_range 0 (length x) (fun j x => do pj <- get (oP o) j ;; do v <- get b j ;; upd x pj v) x.

Definition is_perm (P : list nat) : bool :=
  forallb (fun i => existsb (Nat.eqb i) P) (seq 0 (length P)).

(* ---------- permute_sparse_symmetric_matrix ---------- *)
Definition incr (w : list nat) (i : nat) : res (list nat) := do c <- get w i ;; upd w i (S c).

Section Permute.
Context {V : Type}.
Variable dV : V.            (* filler for freshly allocated value storage *)

(* result: C, the returned map Ai_to_Ci; [pinv] is ordering.inv *)
Definition permute_sym (A : csc V) (pinv : list nat) : res (csc V * list nat) :=
  let n := nrows A in
  let Ap := colptr A in let Ai := rowind A in let Ax := vals A in
  (* Vec<I> w(n); w.setZero(); first counting pass *)
  do w <- for_range 0 n (fun j w =>
      do j2 <- get pinv j ;;
      do lo <- get Ap j ;; do hi <- get Ap (S j) ;;
      for_range lo hi (fun k w =>
        do i <- get Ai k ;;
        if (j <? i)%nat then Ok w else
        do i2 <- get pinv i ;;
        incr w (if (i2 <? j2)%nat then i2 else j2)) w) (repeat 0%nat n) ;;
  (* CT.resize(n, n): outer index zeroed; cumulative sums *)
  do '(sum, ctp, w) <- for_range 0 n (fun i '(sum, ctp, w) =>
      do ctp <- upd ctp i sum ;;
      do wi <- get w i ;;
      do ci <- get ctp i ;;
      do w <- upd w i ci ;;
      Ok ((sum + wi)%nat, ctp, w)) (0%nat, repeat 0%nat (S n), w) ;;
  do ctp <- upd ctp n sum ;;
  (* CT.resizeNonZeros(sum); Vec<I> CTi_to_Ai(sum) *)
  do '(w, cti, ctx, ct2a) <- for_range 0 n (fun j st =>
      do j2 <- get pinv j ;;
      do lo <- get Ap j ;; do kk <- get Ap (S j) ;;
      for_range lo kk (fun k '(w, cti, ctx, ct2a) =>
        do i <- get Ai k ;;
        if (j <? i)%nat then Ok (w, cti, ctx, ct2a) else
        do i2 <- get pinv i ;;
        let m := if (i2 <? j2)%nat then i2 else j2 in
        do q <- get w m ;; do w <- upd w m (S q) ;;
        do cti <- upd cti q (if (j2 <? i2)%nat then i2 else j2) ;;
        do v <- get Ax k ;;
        do ctx <- upd ctx q v ;;
        do ct2a <- upd ct2a q k ;;
        Ok (w, cti, ctx, ct2a)) st) (w, repeat 0%nat sum, repeat dV sum, repeat 0%nat sum) ;;
  (* C.resize(n, n): outer index zeroed; count entries per row of CT *)
  do cp <- for_range 0 n (fun j cp =>
      do lo <- get ctp j ;; do hi <- get ctp (S j) ;;
      for_range lo hi (fun k cp => do i <- get cti k ;; incr cp i) cp) (repeat 0%nat (S n)) ;;
  do '(sum2, cp, w) <- for_range 0 n (fun j '(sum2, cp, w) =>
      do tmp <- get cp j ;;
      do cp <- upd cp j sum2 ;;
      do w <- upd w j sum2 ;;
      Ok ((sum2 + tmp)%nat, cp, w)) (0%nat, cp, w) ;;
  do cp <- upd cp n sum2 ;;
  (* C.resizeNonZeros(sum); Vec<I> Ai_to_Ci(sum) *)
  do '(w, ci, cx, a2c) <- for_range 0 n (fun j st =>
      do lo <- get ctp j ;; do kk <- get ctp (S j) ;;
      for_range lo kk (fun k '(w, ci, cx, a2c) =>
        do i <- get cti k ;;
        do q <- get w i ;; do w <- upd w i (S q) ;;
        do ci <- upd ci q j ;;
        do v <- get ctx k ;;
        do cx <- upd cx q v ;;
        do src <- get ct2a k ;;
        do a2c <- upd a2c src q ;;
        Ok (w, ci, cx, a2c)) st) (w, repeat 0%nat sum2, repeat dV sum2, repeat 0%nat sum2) ;;
  Ok (mkcsc n n cp ci cx, a2c).

(* ---------- transpose_no_allocation ---------- *)
(* C must already hold the pattern of A^T (only its outer index is read); returns the new C *)
Definition transpose_no_alloc (A : csc V) (C : csc V) : res (csc V) :=
  let Ap := colptr A in let Ai := rowind A in let Ax := vals A in
  do '(cp, ci, cx) <- for_range 0 (ncols A) (fun j st =>
      do lo <- get Ap j ;; do kk <- get Ap (S j) ;;
      for_range lo kk (fun k '(cp, ci, cx) =>
        do i <- get Ai k ;;
        do q <- get cp i ;; do cp <- upd cp i (S q) ;;   (* q = C.outerIndexPtr()[i]++ *)
        do ci <- upd ci q j ;;
        do v <- get Ax k ;;
        do cx <- upd cx q v ;;
        Ok (cp, ci, cx)) st) (colptr C, rowind C, vals C) ;;
  (* revert the outer index: for (j = m-1; j > 0; j--) Cp[j] = Cp[j-1];  Cp[0] = 0 *)
  let m := nrows A in
  do cp <- foldM (fun cp j => do v <- get cp (j - 1)%nat ;; upd cp j v) (rev (seq 1 (m - 1))) cp ;;
  do cp <- upd cp 0%nat 0%nat ;;
  Ok (mkcsc (nrows C) (ncols C) cp ci cx).

End Permute.

(* the allocating transpose (what Eigen's C = A.transpose() produces): used to create the pattern handed to
   transpose_no_alloc, and as the specification of its result *)
Definition count_rows (m : nat) (Ai : list nat) : list nat :=
  map (fun i => length (filter (Nat.eqb i) Ai)) (seq 0 m).
Fixpoint cumsum (acc : nat) (l : list nat) : list nat :=
  match l with [] => [acc] | a :: t => acc :: cumsum (acc + a) t end.
Definition transpose_colptr {V} (A : csc V) : list nat := cumsum 0 (count_rows (nrows A) (rowind A)).

(* ---------- pre_mult_diagonal / post_mult_diagonal ---------- *)
Definition pre_mult_diagonal (A : csc F) (diag : list F) : res (csc F) :=
  do ax <- for_range 0 (ncols A) (fun j ax =>
      do lo <- get (colptr A) j ;; do hi <- get (colptr A) (S j) ;;
      for_range lo hi (fun p ax =>
        do r <- get (rowind A) p ;; do d <- get diag r ;; do v <- get ax p ;; upd ax p (v * d)) ax) (vals A) ;;
  Ok (mkcsc (nrows A) (ncols A) (colptr A) (rowind A) ax).

Definition post_mult_diagonal (A : csc F) (diag : list F) : res (csc F) :=
  do ax <- for_range 0 (ncols A) (fun j ax =>
      do lo <- get (colptr A) j ;; do hi <- get (colptr A) (S j) ;;
      do d <- get diag j ;;
      for_range lo hi (fun p ax => do v <- get ax p ;; upd ax p (v * d)) ax) (vals A) ;;
  Ok (mkcsc (nrows A) (ncols A) (colptr A) (rowind A) ax).
