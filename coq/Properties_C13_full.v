(* Properties_C13_full.v -- C13 / T1b (kkt_assembly_full) and T2 (kkt_refresh_eq_fresh_full) for the sparse KKT_FULL back end.
   Model: KKTSparseFull.v (create_kkt_matrix, the index maps, update_kkt_*_scalings, update_kkt_box_scalings, update_data,
   init, update_scalings), tied to sparse::KKT<xrat, int, KKT_FULL> by tools/kktfull_stage.py (exact equality of the stored matrix).
   Vocabulary (KKTSparseFullProofs.v):
     wf_sdata d          P_utri, AT, GT are compressed matrices (wf_csc) of sizes n x n, n x p, n x m;
     diag_is_last K      every column of K is non-empty and its LAST stored entry is the diagonal;
     in_col A j q        position q lies in column j of A;
     Kfull Y             [[P + rho I + box, A^T, G^T], [A, -delta I, 0], [G, 0, -(S Z^-1 + delta I)]] over the L2 system Y;
     sys_sparse d c      the L2 system (KKTProofs.v) of data d and stored scalings c (c holds 1/z);
     fresh_form d c k    canonical state: identity ordering, index maps / cached diagonal as create_kkt_matrix leaves them,
                         scalings c, values = data off the diagonal positions and the diagonal of Kfull on them;
     fresh d c           init followed by apply_scalings c (what a new object given scalings c reaches);
     with_all d ..       new values on the pattern of d;  covers mask ..  every changed block has its bit set;
     scal_ok d c         vector sizes, box indices in range, non-zero denominators zinv*s + delta of the box terms. *)
From PIQP Require Import Base CSC LinAlg KKTProofs KKTSparseFull KKTSparseFullProofs KKTSparseFullPerm KKTSparseFullPermProofs.
Local Open Scope nat_scope.

(* ===== (a) create_kkt_matrix: total, well formed, upper triangular, diagonal last, the three maps ===== *)
Theorem C13_create_kkt_full_wf : forall (d : sdata), wf_sdata d -> forall (rho delta : F),
  exists km, create_kkt_matrix d rho delta = Ok km /\
    let K := km_K km in
    let N := sd_n d + sd_p d + sd_m d in
    nrows K = N /\ ncols K = N /\ wf_csc K = true /\ diag_is_last K /\ (upper_only (sd_P d) = true -> upper_only K = true) /\
    length (km_P2K km) = nnz (sd_P d) /\ length (km_AT2K km) = nnz (sd_AT d) /\ length (km_GT2K km) = nnz (sd_GT d) /\
    (forall j k, j < sd_n d -> in_col (sd_P d) j k ->
       let q := nth k (km_P2K km) 0 in q < nnz K /\ in_col K j q /\ nth q (rowind K) 0 = nth k (rowind (sd_P d)) 0) /\
    (forall l k, l < sd_p d -> in_col (sd_AT d) l k ->
       let q := nth k (km_AT2K km) 0 in q < nnz K /\ in_col K (sd_n d + l) q /\ nth q (rowind K) 0 = nth k (rowind (sd_AT d)) 0) /\
    (forall l k, l < sd_m d -> in_col (sd_GT d) l k ->
       let q := nth k (km_GT2K km) 0 in q < nnz K /\ in_col K (sd_n d + sd_p d + l) q /\ nth q (rowind K) 0 = nth k (rowind (sd_GT d)) 0) /\
    (forall k k', k < nnz (sd_P d) -> k' < nnz (sd_P d) -> nth k (km_P2K km) 0 = nth k' (km_P2K km) 0 -> k = k') /\
    (forall k k', k < nnz (sd_AT d) -> k' < nnz (sd_AT d) -> nth k (km_AT2K km) 0 = nth k' (km_AT2K km) 0 -> k = k') /\
    (forall k k', k < nnz (sd_GT d) -> k' < nnz (sd_GT d) -> nth k (km_GT2K km) 0 = nth k' (km_GT2K km) 0 -> k = k').
Proof. exact create_kkt_full_wf_thm. Qed.
Print Assumptions C13_create_kkt_full_wf.

(* the content of freshly resized storage (KKT.resizeNonZeros, the *_to_Ki vectors) never reaches the result *)
Theorem C13_create_kkt_full_filler_free : forall (d : sdata) (fi : nat) (fx rho delta : F), wf_sdata d ->
  create_kkt_matrix_f fi fx d rho delta = create_kkt_matrix d rho delta.
Proof. exact create_kkt_filler_free. Qed.
Print Assumptions C13_create_kkt_full_filler_free.

(* ===== (b) what create_kkt_matrix builds: K_full with unit scalings, no box terms (upper triangle) ===== *)
Theorem C13_create_kkt_full_denotes : forall (d : sdata), wf_sdata d -> forall (rho delta : F) (km : kktmat),
  create_kkt_matrix d rho delta = Ok km ->
  forall i j, i <= j -> j < sd_n d + sd_p d + sd_m d ->
    csc_get (km_K km) i j = Kfull (sys_sparse_gen d 0 0 (unit_scal d rho delta)) i j.
Proof. exact create_kkt_full_denotes_thm. Qed.
Print Assumptions C13_create_kkt_full_denotes.

(* init (identity ordering) = create_kkt_matrix + update_kkt_box_scalings: K_full with unit scalings and the box terms *)
Theorem C13_init_full_denotes : forall (d : sdata), wf_sdata d -> box_ok d -> forall (rho delta : F), (0 <= delta)%Qc ->
  exists k, init d rho delta None = Ok k /\ fresh_form d (unit_scal d rho delta) k /\
    wf_csc (fk_PKPt d k) = true /\ diag_is_last (fk_PKPt d k) /\
    forall i j, i <= j -> j < sd_n d + sd_p d + sd_m d ->
      csc_get (fk_PKPt d k) i j = Kfull (sys_sparse d (unit_scal d rho delta)) i j.
Proof. exact init_full_denotes_thm. Qed.
Print Assumptions C13_init_full_denotes.

(* ===== (c) update_scalings (cost, equality, inequality, box loops) with positive scalings: K_full(rho, delta, s, 1/z, box) ===== *)
Theorem C13_update_scalings_full_denotes : forall (d : sdata), wf_sdata d -> box_ok d ->
  forall (c0 : scal) (k : skkt) (rho delta : F) (s s_lb s_ub z z_lb z_ub : Vec),
  fresh_form d c0 k ->
  length s = sd_m d -> length z = sd_m d ->
  sd_nlb d <= length s_lb -> sd_nlb d <= length z_lb -> sd_nub d <= length s_ub -> sd_nub d <= length z_ub ->
  (0 <= delta)%Qc ->
  (forall i, i < sd_m d -> (0 < nth i z 0)%Qc) ->
  (forall i, i < sd_nlb d -> (0 < nth i s_lb 0 /\ 0 < nth i z_lb 0)%Qc) ->
  (forall i, i < sd_nub d -> (0 < nth i s_ub 0 /\ 0 < nth i z_ub 0)%Qc) ->
  exists k' zi zlbi zubi,
    update_scalings d k rho delta s s_lb s_ub z z_lb z_ub = Ok k' /\
    vinv z = Ok zi /\ vinv (head (sd_nlb d) z_lb) = Ok zlbi /\ vinv (head (sd_nub d) z_ub) = Ok zubi /\
    fresh_form d (new_scal d c0 rho delta s s_lb s_ub zi zlbi zubi) k' /\
    fk_kp k' = fk_kp k /\ fk_ki k' = fk_ki k /\
    forall i j, i <= j -> j < sd_n d + sd_p d + sd_m d ->
      csc_get (fk_PKPt d k') i j = Kfull (sys_sparse d (new_scal d c0 rho delta s s_lb s_ub zi zlbi zubi)) i j.
Proof. exact update_scalings_full_denotes_thm. Qed.
Print Assumptions C13_update_scalings_full_denotes.

(* every canonical state denotes K_full of its data and scalings *)
Theorem C13_fresh_form_denotes : forall (d : sdata), wf_sdata d -> forall (c : scal) (k : skkt), fresh_form d c k ->
  wf_csc (fk_PKPt d k) = true /\ diag_is_last (fk_PKPt d k) /\ (upper_only (sd_P d) = true -> upper_only (fk_PKPt d k) = true) /\
  forall i j, i <= j -> j < sd_n d + sd_p d + sd_m d -> csc_get (fk_PKPt d k) i j = Kfull (sys_sparse d c) i j.
Proof. exact fresh_form_denotes. Qed.
Print Assumptions C13_fresh_form_denotes.

(* the canonical state of given data and scalings is unique, and it is what a new object reaches *)
Theorem C13_fresh_form_unique : forall (d : sdata) (c : scal) (k k' : skkt),
  wf_sdata d -> fresh_form d c k -> fresh_form d c k' -> k = k'.
Proof. exact fresh_form_unique. Qed.
Print Assumptions C13_fresh_form_unique.

Theorem C13_fresh_reaches_fresh_form : forall (d : sdata) (c : scal),
  wf_sdata d -> scal_ok d c -> scal_ok d (unit_scal d (sc_rho c) (sc_delta c)) ->
  exists k, fresh d c = Ok k /\ fresh_form d c k.
Proof. exact fresh_ok. Qed.
Print Assumptions C13_fresh_reaches_fresh_form.

(* ===== T2: update_scalings on a canonical state == a fresh object given the new scalings ===== *)
Theorem C13_update_scalings_full_refresh_eq_fresh : forall (d : sdata) (c0 : scal) (k : skkt) (rho delta : F)
    (s s_lb s_ub z z_lb z_ub zi zlbi zubi : Vec),
  wf_sdata d -> fresh_form d c0 k ->
  sd_nlb d <= length s_lb -> sd_nlb d <= length z_lb -> sd_nub d <= length s_ub -> sd_nub d <= length z_ub ->
  vinv z = Ok zi -> vinv (head (sd_nlb d) z_lb) = Ok zlbi -> vinv (head (sd_nub d) z_ub) = Ok zubi ->
  scal_ok d (new_scal d c0 rho delta s s_lb s_ub zi zlbi zubi) -> scal_ok d (unit_scal d rho delta) ->
  update_scalings d k rho delta s s_lb s_ub z z_lb z_ub = fresh d (new_scal d c0 rho delta s s_lb s_ub zi zlbi zubi).
Proof. exact update_scalings_full_refresh_eq_fresh_thm. Qed.
Print Assumptions C13_update_scalings_full_refresh_eq_fresh.

(* ===== (d) T2: update_data(mask) with a covering mask == create_kkt_matrix on the new data followed by the same scalings ===== *)
Theorem C13_update_data_full_refresh_eq_fresh : forall (d : sdata) (c : scal) (k : skkt) (mask : nat) (px ax gx lbs ubs : Vec),
  wf_sdata d -> diag_only_last (sd_P d) -> fresh d c = Ok k ->
  scal_ok d c -> scal_ok d (unit_scal d (sc_rho c) (sc_delta c)) ->
  length px = nnz (sd_P d) -> length ax = nnz (sd_AT d) -> length gx = nnz (sd_GT d) ->
  covers mask d px ax gx lbs ubs ->
  scal_ok (with_P d px lbs ubs) c -> scal_ok (with_P d px lbs ubs) (unit_scal d (sc_rho c) (sc_delta c)) ->
  update_data (with_all d px ax gx lbs ubs) k mask = fresh (with_all d px ax gx lbs ubs) c.
Proof. exact update_data_full_refresh_eq_fresh_thm. Qed.
Print Assumptions C13_update_data_full_refresh_eq_fresh.

(* the same from any canonical state (any history), with the denotation of the result *)
Theorem C13_update_data_full_denotes : forall (d : sdata) (c : scal) (k : skkt) (mask : nat) (px ax gx lbs ubs : Vec),
  wf_sdata d -> diag_only_last (sd_P d) -> fresh_form d c k ->
  length px = nnz (sd_P d) -> length ax = nnz (sd_AT d) -> length gx = nnz (sd_GT d) ->
  covers mask d px ax gx lbs ubs -> scal_ok (with_P d px lbs ubs) c ->
  let d' := with_all d px ax gx lbs ubs in
  exists k', update_data d' k mask = Ok k' /\ fresh_form d' c k' /\
    wf_csc (fk_PKPt d' k') = true /\ diag_is_last (fk_PKPt d' k') /\
    forall i j, i <= j -> j < sd_n d + sd_p d + sd_m d -> csc_get (fk_PKPt d' k') i j = Kfull (sys_sparse d' c) i j.
Proof. exact update_data_full_denotes_thm. Qed.
Print Assumptions C13_update_data_full_denotes.

(* the side condition on P_utri: sorted, upper triangular columns (Eigen's compressed triangularView) satisfy it *)
Theorem C13_sorted_upper_diag_only_last : forall (P : csc F),
  wf_csc P = true -> sorted_colsb P = true -> upper_only P = true -> diag_only_last P.
Proof. exact sorted_upper_diag_only_last. Qed.
Print Assumptions C13_sorted_upper_diag_only_last.

(* ===== arbitrary fill-reducing ordering.  Named _partial: they hold for every ordering on which the decidable check
   perm_addr_okb (KKTSparseFullPerm.v: the result of permute_sym ON POSITIONS is a bijection onto the entries of PKPt that sends
   entry (r, c) to row min(inv r, inv c) of column max(inv r, inv c), and the last entry of column inv(col) is the image of the last
   entry of column col) evaluates to true -- it is NOT proved that permute_sym passes the check for every input (proved for n <= 4:
   C14_permute_sym_spec_n4; evaluated by the model driver on every tested ordering).
     perm_img d perm kid kp   kp is the image of the identity-ordered state kid: ordering_init / permute_sym succeed, pass the check,
                              all other fields coincide and  PKPt.values[PKi[q]] = K.values[q]  for every stored entry q. ===== *)
Theorem C13_init_full_perm_partial : forall (d : sdata), wf_sdata d -> forall (rho delta : F) (perm : list nat) (km : kktmat),
  scal_ok d (unit_scal d rho delta) ->
  create_kkt_matrix d rho delta = Ok km ->
  perm_addr_okb (sd_n d + sd_p d + sd_m d) (colptr (km_K km)) (rowind (km_K km)) perm = true ->
  exists kid kp, init d rho delta None = Ok kid /\ init d rho delta (Some perm) = Ok kp /\
                 fresh_form d (unit_scal d rho delta) kid /\ perm_img d perm kid kp.
Proof. exact init_full_perm_partial. Qed.
Print Assumptions C13_init_full_perm_partial.

(* the permuted stored matrix denotes P K_full P^T (upper triangle), is well formed and diagonal-last *)
Theorem C13_perm_img_denotes_partial : forall (d : sdata) (c : scal) (perm : list nat) (kid kp : skkt),
  wf_sdata d -> upper_only (sd_P d) = true -> fresh_form d c kid -> perm_img d perm kid kp ->
  let N := sd_n d + sd_p d + sd_m d in
  let pv := fun i => nth i (fk_pinv kp) 0 in
  wf_csc (fk_PKPt d kp) = true /\ diag_is_last (fk_PKPt d kp) /\
  (forall i, i < N -> pv i < N) /\ (forall i i', i < N -> i' < N -> pv i = pv i' -> i = i') /\
  forall i j, i <= j -> j < N ->
    csc_get (fk_PKPt d kp) (Nat.min (pv i) (pv j)) (Nat.max (pv i) (pv j)) = Kfull (sys_sparse d c) i j.
Proof. exact perm_img_denotes_partial. Qed.
Print Assumptions C13_perm_img_denotes_partial.

(* (c), permuted: update_scalings moves both states together *)
Theorem C13_update_scalings_full_perm_partial : forall (d : sdata) (c0 : scal) (perm : list nat) (kid kp : skkt) (rho delta : F)
    (s s_lb s_ub z z_lb z_ub zi zlbi zubi : Vec),
  wf_sdata d -> fresh_form d c0 kid -> perm_img d perm kid kp ->
  sd_nlb d <= length s_lb -> sd_nlb d <= length z_lb -> sd_nub d <= length s_ub -> sd_nub d <= length z_ub ->
  vinv z = Ok zi -> vinv (head (sd_nlb d) z_lb) = Ok zlbi -> vinv (head (sd_nub d) z_ub) = Ok zubi ->
  scal_ok d (new_scal d c0 rho delta s s_lb s_ub zi zlbi zubi) ->
  exists kid' kp',
    update_scalings d kid rho delta s s_lb s_ub z z_lb z_ub = Ok kid' /\
    update_scalings d kp rho delta s s_lb s_ub z z_lb z_ub = Ok kp' /\
    fresh_form d (new_scal d c0 rho delta s s_lb s_ub zi zlbi zubi) kid' /\ perm_img d perm kid' kp'.
Proof. exact update_scalings_full_perm_partial. Qed.
Print Assumptions C13_update_scalings_full_perm_partial.

(* (d), permuted: update_data with a covering mask moves both states to the canonical state of the new data and its image *)
Theorem C13_update_data_full_perm_partial : forall (d : sdata) (c : scal) (perm : list nat) (kid kp : skkt) (mask : nat)
    (px ax gx lbs ubs : Vec),
  wf_sdata d -> diag_only_last (sd_P d) -> fresh_form d c kid -> perm_img d perm kid kp ->
  length px = nnz (sd_P d) -> length ax = nnz (sd_AT d) -> length gx = nnz (sd_GT d) ->
  covers mask d px ax gx lbs ubs -> scal_ok (with_P d px lbs ubs) c ->
  let d' := with_all d px ax gx lbs ubs in
  exists kid' kp', update_data d' kid mask = Ok kid' /\ update_data d' kp mask = Ok kp' /\
                   fresh_form d' c kid' /\ perm_img d' perm kid' kp'.
Proof. exact update_data_full_perm_partial. Qed.
Print Assumptions C13_update_data_full_perm_partial.

(* ===== non-vacuity: P 3x3 with a structurally missing diagonal entry (1,1) and a stored entry above it, p = 1, m = 1 ===== *)
Local Open Scope Qc_scope.
Definition ex_q (a : Z) : F := qofZ a.
(* P_utri = [[4, 1, 0], [., ., -1], [., ., 3]]  (no stored (1,1)); AT = (1, 0, 2)^T; GT = (0, 5, 0)^T; x1 >= ., x2 <= . *)
Definition ex_d : sdata :=
  mksdata 3 1 1
    (mkcsc 3 3 [0; 1; 2; 4]%nat [0; 0; 1; 2]%nat [ex_q 4; ex_q 1; ex_q (-1); ex_q 3])
    (mkcsc 3 1 [0; 2]%nat [0; 2]%nat [ex_q 1; ex_q 2])
    (mkcsc 3 1 [0; 1]%nat [1]%nat [ex_q 5])
    1 1 [1; 0; 0]%nat [2; 0; 0]%nat [ex_q 2; ex_q 1; ex_q 1] [qmk 1 2; ex_q 1; ex_q 1].

Example ex_wf : wf_sdata ex_d.
Proof. repeat split. Qed.
Example ex_box : box_ok ex_d.
Proof. unfold box_ok; cbn [ex_d sd_nlb sd_nub sd_lbidx sd_ubidx sd_lbs sd_ubs sd_n length]. repeat split; try lia; intros [|i] H; cbn; lia. Qed.
Example ex_upper : upper_only (sd_P ex_d) = true.
Proof. reflexivity. Qed.
Example ex_dol : diag_only_last (sd_P ex_d).
Proof. apply diag_only_lastb_ok. reflexivity. Qed.
(* column 1 has no stored diagonal and an entry above it; column 0 and column 2 end with their diagonal *)
Example ex_has_diag : map (has_diag (sd_P ex_d)) [0; 1; 2]%nat = [true; false; true].
Proof. reflexivity. Qed.

(* the assembled matrix: 5 x 5, nine stored entries of the data plus the three added diagonals; P(0,0)+rho, rho, P(2,2)+rho *)
Example ex_create :
  create_kkt_matrix ex_d (ex_q 10) (ex_q 7) =
  Ok (mkkktmat (mkcsc 5 5 [0; 1; 3; 5; 8; 10]%nat [0; 0; 1; 1; 2; 0; 2; 3; 1; 4]%nat
                      [ex_q 14; ex_q 1; ex_q 10; ex_q (-1); ex_q 13; ex_q 1; ex_q 2; ex_q (-7); ex_q 5; ex_q (-8)])
               [0; 1; 3; 4]%nat [ex_q 4; ex_q 0; ex_q 3] [5; 6]%nat [8]%nat).
Proof. vm_compute. reflexivity. Qed.

(* scalings with non-trivial values; z is stored inverted *)
Definition ex_c : scal := mkscal (ex_q 10) (ex_q 7) [ex_q 3] [ex_q 2; ex_q 0; ex_q 0] [ex_q 5; ex_q 0; ex_q 0]
                                 [qmk 1 4] [qmk 1 3; ex_q 0; ex_q 0] [qmk 1 2; ex_q 0; ex_q 0].
Example ex_scal_ok : scal_ok ex_d ex_c.
Proof.
  unfold scal_ok; cbn [ex_d ex_c sd_nlb sd_nub sd_lbidx sd_ubidx sd_lbs sd_ubs sd_n sd_m sc_s sc_z_inv sc_s_lb sc_z_lb_inv sc_s_ub sc_z_ub_inv sc_delta length].
  repeat split; try lia; intros [|i] H; try lia; cbn; try lia; intro E; discriminate E.
Qed.
Example ex_unit_ok : scal_ok ex_d (unit_scal ex_d (sc_rho ex_c) (sc_delta ex_c)).
Proof. apply scal_ok_unit. exact ex_box. discriminate. Qed.

(* a fresh object with these scalings exists; its x-diagonal carries rho, the cached P diagonal and the box terms:
   column 1: 0 + 10 + 2^2/((1/3)*2 + 7) = 10 + 12/23 *)
Example ex_fresh : exists k, fresh ex_d ex_c = Ok k /\ nth 2 (fk_kx k) 0 = ex_q 10 + qmk 12 23.
Proof. eexists. split. vm_compute. reflexivity. vm_compute. reflexivity. Qed.

(* update_data with mask P|G (5) on new P (incl. the entry above the missing diagonal), new G and new box scalings, A unchanged:
   equal to a fresh object on the new data -- the hypotheses of C13_update_data_full_refresh_eq_fresh hold for this instance *)
Definition ex_px : Vec := [ex_q 6; ex_q (-2); ex_q 1; ex_q 9].
Definition ex_gx : Vec := [ex_q (-3)].
Definition ex_lbs : Vec := [ex_q 3; ex_q 1; ex_q 1].
Definition ex_ubs : Vec := [ex_q 1; ex_q 1; ex_q 1].
Example ex_covers : covers 5 ex_d ex_px (vals (sd_AT ex_d)) ex_gx ex_lbs ex_ubs.
Proof. unfold covers. cbn. repeat split; intros; try discriminate; reflexivity. Qed.
Example ex_update_data :
  exists k, fresh ex_d ex_c = Ok k /\
    update_data (with_all ex_d ex_px (vals (sd_AT ex_d)) ex_gx ex_lbs ex_ubs) k 5
    = fresh (with_all ex_d ex_px (vals (sd_AT ex_d)) ex_gx ex_lbs ex_ubs) ex_c.
Proof. eexists. split. vm_compute. reflexivity. vm_compute. reflexivity. Qed.
(* ... and a mask that does not cover the change of P (mask = 4) leaves a different state: the side condition is needed *)
Example ex_not_covered :
  exists k, fresh ex_d ex_c = Ok k /\
    update_data (with_all ex_d ex_px (vals (sd_AT ex_d)) ex_gx ex_lbs ex_ubs) k 4
    <> fresh (with_all ex_d ex_px (vals (sd_AT ex_d)) ex_gx ex_lbs ex_ubs) ex_c.
Proof. eexists. split. vm_compute. reflexivity. vm_compute. intro E. discriminate E. Qed.

(* the permuted theorems are not vacuous: the ordering (3, 1, 4, 0, 2) passes the check on the example, init succeeds under it *)
Example ex_perm_check :
  perm_addr_okb 5 [0; 1; 3; 5; 8; 10]%nat [0; 0; 1; 1; 2; 0; 2; 3; 1; 4]%nat [3; 1; 4; 0; 2]%nat = true.
Proof. vm_compute. reflexivity. Qed.
Example ex_perm_init : exists k, init ex_d (ex_q 10) (ex_q 7) (Some [3; 1; 4; 0; 2]%nat) = Ok k /\ fk_pinv k = [3; 1; 4; 0; 2]%nat.
Proof. eexists. split. vm_compute. reflexivity. reflexivity. Qed.
