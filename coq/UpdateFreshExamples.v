(* UpdateFreshExamples.v -- C04-T5: concrete runs (vm_compute): non-vacuity of update_all_noreuse_eq_fresh[_history] and the
   refuting witnesses that show which hypotheses are needed.
   Problem: n = 1, p = 0, m = 1, Ruiz preconditioner of the SPARSE backend (sparse_pc = true), cost scaling on,
   8-bit checkpoints, max_iter = 2, max_factor_retires = 2 (cheap: the theorems do not need SOLVED). *)
From PIQP Require Import Base Data Bounds PrecondDense KKTDense IPM API.
From PIQP Require Import PrecondProofs Shapes ShapesProofs EndToEndProofs.
From PIQP Require JunkProofs.
From PIQP Require Import UpdateFreshRuizProofs UpdateFreshDataProofs UpdateFreshSolveProofs SolveCallsShiftProofs UpdateFreshProofs.
From PIQP.gen Require Consts.
From RecordUpdate Require Import RecordSet.
Import RecordSetNotations.
From Coq Require Import Lia.
Local Open Scope Qc_scope.

Definition xK : Consts := Consts.consts.
Definition xS : Settings :=
  let D := e2e_S in
  mkSettings (rho_init D) (delta_init D) (eps_abs D) (eps_rel D) (check_duality_gap D) (eps_duality_gap_abs D)
    (eps_duality_gap_rel D) (reg_lower_limit D) (reg_finetune_lower_limit D) (reg_finetune_primal_update_threshold D)
    (reg_finetune_dual_update_threshold D) 2%Z 2%Z (preconditioner_scale_cost D) (preconditioner_iter D) (tau D)
    (iterative_refinement_always_enabled D) (iterative_refinement_eps_abs D) (iterative_refinement_eps_rel D)
    (iterative_refinement_max_iter D) (iterative_refinement_min_improvement_rate D)
    (iterative_refinement_static_regularization_eps D) (iterative_refinement_static_regularization_rel D).
(* first problem: e2e_B0 of EndToEndProofs (min 64 x^2 + 64 x, x >= -3, the inequality disabled by h = +inf);
   second problem, ALL eight blocks:  min 16 x^2 - 64 x   s.t.  x <= 1  (no lower bound any more: the finite-bound pattern
   changes from {lb} to {ub}; the inequality x/2 <= +inf stays disabled; no equalities: A is 0 x 1).
   (cheap numbers on purpose: the independent checker coqchk re-evaluates the run without the VM) *)
Definition xB : Blocks :=
  all_blocks [[qmk 32 1]] [qmk (-64) 1] [[]] [] [[qmk 1 2]] [PInf] [NInf] [Fin (qmk 1 1)].
Definition nofault : nat -> bool := fun _ => false.
Definition allfault : nat -> bool := fun _ => true.

Definition veqb (a b : Vec) : bool := (length a =? length b)%nat && forallb (fun p => qeqb (fst p) (snd p)) (combine a b).
Lemma veqb_false a b : veqb a b = false -> a <> b.
Proof.
  intros H E. subst b. unfold veqb in H. rewrite Nat.eqb_refl in H. cbn in H.
  assert (T : forallb (fun p : F * F => qeqb (fst p) (snd p)) (combine a a) = true).
  { clear H. induction a as [|x a IH]; [reflexivity|]. cbn [combine forallb fst snd]. rewrite IH. unfold qeqb. rewrite Qeq_bool_refl. reflexivity. }
  congruence.
Qed.
Definition is_numerics (s : Status) : bool := match s with NUMERICS => true | _ => false end.
Definition status_eqb (a b : Status) : bool :=
  match a, b with
  | SOLVED, SOLVED | MAX_ITER_REACHED, MAX_ITER_REACHED | PRIMAL_INFEASIBLE, PRIMAL_INFEASIBLE
  | DUAL_INFEASIBLE, DUAL_INFEASIBLE | NUMERICS, NUMERICS | UNSOLVED, UNSOLVED | INVALID_SETTINGS, INVALID_SETTINGS => true
  | _, _ => false
  end.
Lemma status_eqb_eq a b : status_eqb a b = true -> a = b.
Proof. destruct a, b; cbn; congruence. Qed.

(*  setup(e2e_B0) ; solve ; update(xB, reuse = false) ; solve(f)     against     setup(xB) ; solve(f),
    for f = "no fault" and f = "every factorisation fails" (one evaluation for both) *)
Definition Tester := Solver -> Solver -> Solver -> Solver -> Status -> Status -> bool.
Definition ex_test (t t' : Tester) : bool :=
  match setup xK false true 0 xS 1 0 1 e2e_B0 with
  | Ok sv0 =>
    match solve xK 0 8 nofault sv0 with
    | Ok (sva, _) =>
      match update xK true sva xB false, setup xK false true 0 xS 1 0 1 xB with
      | Ok sv1, Ok sv2 =>
        match solve xK 0 8 nofault sv1, solve xK 0 8 nofault sv2, solve xK 0 8 allfault sv1, solve xK 0 8 allfault sv2 with
        | Ok (sv1', s1), Ok (sv2', s2), Ok (sw1', r1), Ok (sw2', r2) => t sv1 sv2 sv1' sv2' s1 s2 && t' sv1 sv2 sw1' sw2' r1 r2
        | _, _, _, _ => false
        end
      | _, _ => false
      end
    | Err _ => false
    end
  | Err _ => false
  end.

Lemma ex_test_inv t t' : ex_test t t' = true ->
  exists sv0 sva sv1 sv2,
    setup xK false true 0 xS 1 0 1 e2e_B0 = Ok sv0 /\ run_sops xK true 0 8 sv0 [SSolve nofault] = Ok sva /\
    update xK true sva xB false = Ok sv1 /\ setup xK false true 0 xS 1 0 1 xB = Ok sv2 /\
    (exists sv1' sv2' s1 s2, solve xK 0 8 nofault sv1 = Ok (sv1', s1) /\ solve xK 0 8 nofault sv2 = Ok (sv2', s2) /\
                             t sv1 sv2 sv1' sv2' s1 s2 = true) /\
    (exists sv1' sv2' s1 s2, solve xK 0 8 allfault sv1 = Ok (sv1', s1) /\ solve xK 0 8 allfault sv2 = Ok (sv2', s2) /\
                             t' sv1 sv2 sv1' sv2' s1 s2 = true).
Proof.
  unfold ex_test. destruct (setup xK false true 0 xS 1 0 1 e2e_B0) as [sv0|] eqn:E0; [|discriminate].
  destruct (solve xK 0 8 nofault sv0) as [[sva sta]|] eqn:Ea; [|discriminate].
  destruct (update xK true sva xB false) as [sv1|] eqn:E1; [|discriminate].
  destruct (setup xK false true 0 xS 1 0 1 xB) as [sv2|] eqn:E2; [|discriminate].
  destruct (solve xK 0 8 nofault sv1) as [[sv1' s1]|] eqn:E3; [|discriminate].
  destruct (solve xK 0 8 nofault sv2) as [[sv2' s2]|] eqn:E4; [|discriminate].
  destruct (solve xK 0 8 allfault sv1) as [[sw1' r1]|] eqn:E5; [|discriminate].
  destruct (solve xK 0 8 allfault sv2) as [[sw2' r2]|] eqn:E6; [|discriminate].
  intros T. apply andb_true_iff in T. destruct T as [T T'].
  exists sv0, sva, sv1, sv2.
  split; [reflexivity|]. split; [cbn [run_sops sop_step bind]; rewrite Ea; reflexivity|].
  split; [exact E1|]. split; [reflexivity|]. split.
  - exists sv1', sv2', s1, s2. auto.
  - exists sw1', sw2', r1, r2. auto.
Qed.

(* what is checked on the fault-free run: stale results ARE present in the updated object, the call counters differ,
   both solves end with the same non-NUMERICS status and the same non-zero x *)
Definition t_good (sv1 sv2 sv1' sv2' : Solver) (s1 s2 : Status) : bool :=
  status_eqb s1 s2 && negb (is_numerics s2) &&
  veqb (o_x (sv_out sv1')) (o_x (sv_out sv2')) && negb (veqb (o_x (sv_out sv1')) [0]) &&
  negb (veqb (o_x (sv_out sv1)) (o_x (sv_out sv2))) && negb (sv_calls sv1 =? sv_calls sv2)%nat &&
  Bool.eqb (sv_refine sv1) (sv_refine sv2) && negb (qeqb (pc_c (sv_pc sv1)) 1).
(* with the oracle "every factorisation fails": both solves give up (NUMERICS) and return DIFFERENT x *)
Definition t_bad (sv1 sv2 sv1' sv2' : Solver) (s1 s2 : Status) : bool :=
  is_numerics s1 && is_numerics s2 && negb (veqb (o_x (sv_out sv1')) (o_x (sv_out sv2'))) &&
  Bool.eqb (sv_refine sv1) (sv_refine sv2).

Lemma ex_test_true : ex_test t_good t_bad = true.
Proof. vm_cast_no_check (eq_refl true). Qed.   (* evaluated once, by the kernel's VM at Qed *)

Lemma xK_hyps : sane_consts xK /\ (true = true -> k_ruiz_eps xK < 1).
Proof. split; [repeat split; vm_compute; congruence|]. intros _. vm_compute. reflexivity. Qed.

Lemma xB_hyps : all_some xB /\ blocks_ok 1 0 1 xB /\ setup_blocks_ok 1 0 1 e2e_B0 /\ Forall (sop_ok 1 0 1) [SSolve nofault].
Proof.
  split; [unfold all_some, xB; do 8 eexists; reflexivity|].
  split; [unfold blocks_ok, xB, all_blocks; cbn; repeat split; repeat constructor|].
  split; [apply ex_e2e_hypotheses_proof|]. repeat constructor.
Qed.

Lemma bool_facts (a b c d e f g h : bool) : a && b && c && d && e && f && g && h = true ->
  a = true /\ b = true /\ c = true /\ d = true /\ e = true /\ f = true /\ g = true /\ h = true.
Proof. destruct a, b, c, d, e, f, g, h; cbn; intros; try discriminate; auto 10. Qed.

(* NON-VACUITY of update_all_noreuse_eq_fresh_history, second disjunct of the carry-over hypothesis: a history WITH a
   solve before the update (stale results and a non-zero call counter in the updated object), fault-free oracles *)
Lemma ex_update_all_noreuse_eq_fresh_proof :
  exists sv0 sva sv1 sv2 sv1' sv2' s1 s2,
    setup xK false true 0 xS 1 0 1 e2e_B0 = Ok sv0 /\ run_sops xK true 0 8 sv0 [SSolve nofault] = Ok sva /\
    update xK true sva xB false = Ok sv1 /\ setup xK false true 0 xS 1 0 1 xB = Ok sv2 /\
    solve xK 0 8 nofault sv1 = Ok (sv1', s1) /\ solve xK 0 8 nofault sv2 = Ok (sv2', s2) /\
    (* the hypotheses of the theorem hold ... *)
    sv_refine sv1 = sv_refine sv2 /\ (forall k, nofault (sv_calls sv1 + k)%nat = nofault (sv_calls sv2 + k)%nat) /\
    (0 < max_iter xS)%Z /\ ~ init_gives_up xK nofault sv2 /\
    (* ... non-trivially: the updated object carries the results of the earlier solve and a different call counter ... *)
    o_x (sv_out sv1) <> o_x (sv_out sv2) /\ sv_calls sv1 <> sv_calls sv2 /\ pc_c (sv_pc sv1) <> 1 /\
    (* ... and its conclusion *)
    s1 = s2 /\ s2 <> NUMERICS /\ later_eq_mod sv1' sv2' /\ sv_out sv1' = sv_out sv2' /\ sv_info sv1' = sv_info sv2' /\
    o_x (sv_out sv1') <> [0].
Proof.
  destruct (ex_test_inv _ _ ex_test_true) as (sv0 & sva & sv1 & sv2 & E0 & Ea & E1 & E2 & (sv1' & sv2' & s1 & s2 & E3 & E4 & T) & _).
  exists sv0, sva, sv1, sv2, sv1', sv2', s1, s2. do 6 (split; [assumption|]).
  unfold t_good in T. apply bool_facts in T. destruct T as (T1 & T2 & T3 & T4 & T5 & T6 & T7 & T8).
  apply status_eqb_eq in T1. apply negb_true_iff in T2, T4, T5, T6, T8. apply Bool.eqb_prop in T7.
  assert (Hn : s2 <> NUMERICS) by (intros ->; discriminate T2).
  assert (Hg : ~ init_gives_up xK nofault sv2).
  { intros G. apply Hn. exact (init_gives_up_numerics xK 0 8%Z nofault sv2 sv2' s2 G E4). }
  destruct xK_hyps as [SK He]. destruct xB_hyps as (HB & BO & BO0 & Fh).
  destruct (update_all_noreuse_eq_fresh_history xK false true 0 8 xS 1 0 1 e2e_B0 sv0 [SSolve nofault] sva xB sv1 sv2
              SK He BO0 E0 Fh Ea HB BO E1 E2) as (_ & _ & _ & _ & H).
  specialize (H nofault nofault 8%Z T7 (fun _ => eq_refl) (or_intror (conj eq_refl Hg))).
  rewrite E3, E4 in H. destruct H as (Hs & HL & _). cbn [fst snd] in Hs, HL.
  destruct (later_eq_mod_obs _ _ HL) as (_ & _ & _ & Ei & Eo & _).
  split; [exact T7|]. split; [reflexivity|]. split; [reflexivity|]. split; [exact Hg|].
  split; [apply veqb_false, T5|]. split; [apply Nat.eqb_neq, T6|].
  split; [intros E; rewrite E in T8; unfold qeqb in T8; rewrite Qeq_bool_refl in T8; discriminate T8|].
  split; [exact T1|]. split; [exact Hn|]. split; [exact HL|]. split; [exact Eo|]. split; [exact Ei|].
  apply veqb_false, T4.
Qed.

(* REFUTED without the carry-over hypothesis: same history, oracle "every factorisation fails" on both sides: every other
   hypothesis of update_all_noreuse_eq_fresh_history holds, both solves return NUMERICS before the initial point is
   computed, and the result vectors DIFFER (the updated object returns the x of the earlier solve, the fresh one 0) *)
Lemma update_all_noreuse_eq_fresh_stale_results_refuted_proof :
  exists sv0 sva sv1 sv2 sv1' sv2',
    setup xK false true 0 xS 1 0 1 e2e_B0 = Ok sv0 /\ run_sops xK true 0 8 sv0 [SSolve nofault] = Ok sva /\
    update xK true sva xB false = Ok sv1 /\ setup xK false true 0 xS 1 0 1 xB = Ok sv2 /\
    sv_refine sv1 = sv_refine sv2 /\ (forall k, allfault (sv_calls sv1 + k)%nat = allfault (sv_calls sv2 + k)%nat) /\
    (0 < max_iter xS)%Z /\
    solve xK 0 8 allfault sv1 = Ok (sv1', NUMERICS) /\ solve xK 0 8 allfault sv2 = Ok (sv2', NUMERICS) /\
    sv_out sv1' <> sv_out sv2'.
Proof.
  destruct (ex_test_inv _ _ ex_test_true) as (sv0 & sva & sv1 & sv2 & E0 & Ea & E1 & E2 & _ & (sv1' & sv2' & s1 & s2 & E3 & E4 & T)).
  exists sv0, sva, sv1, sv2, sv1', sv2'. do 4 (split; [assumption|]).
  unfold t_bad in T. apply andb_true_iff in T. destruct T as [T T4]. apply andb_true_iff in T. destruct T as [T T3].
  apply andb_true_iff in T. destruct T as [T1 T2]. apply negb_true_iff in T3. apply Bool.eqb_prop in T4.
  destruct s1; try discriminate T1. destruct s2; try discriminate T2.
  split; [exact T4|]. split; [reflexivity|]. split; [reflexivity|]. split; [exact E3|]. split; [exact E4|].
  intros E. apply (veqb_false _ _ T3). rewrite E. reflexivity.
Qed.

(* REFUTED for a loop-guard threshold >= 1 (the source has 1e-3): with the SPARSE preconditioner the first evaluation of the
   Ruiz loop guard reads the previous delta_lb_inv; if the threshold is 2, a previous inverse scaling of 4 makes the
   guard true (|1 - 4| = 3 > 2) and the loop runs, whereas from precond_init (inverse scalings 1, max(1, 0, 0) = 1 <= 2)
   it does not: the two results differ.  Data: n = 1, P = [4], one finite lower bound. *)
Definition eK : Consts :=
  let D := xK in
  mkConsts (k_inf D) (k_eps D) (k_snorm D) (k_sinit D) (k_shift D) (k_half D) (k_retry_mul D) (k_reglim_mul D) (k_prox_big D)
           (k_prox_small D) (k_improve D) (k_mu_damp D) (k_noineq_good D) (k_noineq_bad D) (k_infeas_cnt D)
           (qmk 2 1) (k_min_scaling D) (k_max_scaling D).
Definition eD : Data :=
  mkData 1 0 0 [[qmk 4 1]] [] [] [qmk 1 1] [] [] [0%nat] [] [1] [1] [qmk 1 1] [].
Definition ePc : Precond := precond_init false eD.
Definition ePc' : Precond :=
  mkPrecond false 1 0 0 1 0 1 [1] [1] [1] 1 [1] [qmk 4 1] [1].
Definition delta0_is_one (r : res (Precond * Data)) : bool :=
  match r with Ok (pc, _) => qeqb (nth 0 (pc_delta pc) 0) 1 | Err _ => false end.

Lemma ruiz_fresh_forgets_pc_eps_refuted_proof :
  sane_consts eK /\ ~ (k_ruiz_eps eK < 1) /\ wf_data eD /\ dims_agree ePc eD /\ same_kind ePc ePc' /\
  ruiz_scale_data eK true ePc' eD false false 1 <> ruiz_scale_data eK true ePc eD false false 1.
Proof.
  split; [repeat split; vm_compute; congruence|].
  split; [vm_compute; congruence|].
  split; [constructor; cbn; try reflexivity; try (split; [reflexivity|repeat constructor]); repeat split; auto with arith|].
  split; [repeat split|]. split; [repeat split|].
  intros E. apply (f_equal delta0_is_one) in E. vm_compute in E. discriminate E.
Qed.
