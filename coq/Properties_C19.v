(* Properties_C19.v -- C19 "Problem data are copied, never aliased or modified".
   Statements only; proofs are in StoreProofs.v, the model in Store.v (over API.v).

   Level: proof (partial).  Caller memory is an explicit store (buffer id -> option content; None = freed).  An API call
   (setup / update / solve of API.v) takes buffer ids, reads the store AT CALL TIME and returns the store it was given.
   Between calls the caller may apply ANY function to the store (OMutate f: overwrite, free, reallocate, ...).
   In such a value-passing model the statements below hold BY CONSTRUCTION: they formalise the claim of C19 exactly, they
   do not by themselves say anything about the C++ code.  The tie to the code is the implementation-side twin check
   harness/drv_alias.cpp (tools/props/c19.py): every caller buffer is checksummed before/after every library call, and a
   twin solver whose buffers are scribbled / freed after EVERY setup/update call must produce bit-identical results
   (C++ dense, C++ sparse in all four KKT modes, C interface dense row-major and sparse; one variant under ASan).

     agree_on ids s1 s2     the two stores have the same content in every buffer of ids
     sim s1 h1 s2 h2        h1 and h2 make the same API calls in the same order, with arbitrary caller actions in between on
                            either side, and at the time of each call the two stores agree on the buffers passed to it
     outputs s sv h         the list of results of the API calls of h started in store s with solver object sv; a result is
                            Err or (the complete solver object after the call, status of solve)
     caller_writes s h      the store obtained by applying only the caller's own actions of h to s
     only_solves h          every API call in h is solve()
     writes g ids           the caller action g determines the content of the buffers ids, whatever the store was
     flatten b l            for each step (prep, call, scribble) of l:  prep ; call ; (scribble if b) *)
From PIQP Require Import Base Data Bounds PrecondDense KKTDense IPM API Store StoreProofs.
From PIQP.gen Require Import Consts.

(* no API call changes the caller's store ... *)
Theorem C19_store_unchanged_call :
  forall (K : Consts) (ident spc : bool) (junk : F) (cp_bits : Z) (st : Store) (sv : option Solver) (c : Call),
  fst (api_call K ident spc junk cp_bits st sv c) = st.
Proof. exact store_unchanged_call. Qed.
Print Assumptions C19_store_unchanged_call.

(* ... so after any history the store is exactly what the caller's own writes made of it *)
Theorem C19_store_unchanged :
  forall (K : Consts) (ident spc : bool) (junk : F) (cp_bits : Z) (st : Store) (sv : option Solver) (h : list Op),
  final_store K ident spc junk cp_bits st sv h = caller_writes st h.
Proof. exact store_unchanged. Qed.
Print Assumptions C19_store_unchanged.

(* store independence, all histories: if two runs make the same calls and the stores agree, at the time of each call, on
   the buffers passed to that call, then every output (and the final solver object) is the same -- whatever the caller did
   to any buffer at any other time, in particular overwriting or freeing buffers after the call that received them *)
Theorem C19_store_independence :
  forall (K : Consts) (ident spc : bool) (junk : F) (cp_bits : Z) (s1 : Store) (h1 : list Op) (s2 : Store) (h2 : list Op),
  sim s1 h1 s2 h2 ->
  forall sv : option Solver,
  outputs K ident spc junk cp_bits s1 sv h1 = outputs K ident spc junk cp_bits s2 sv h2 /\
  snd (fst (run K ident spc junk cp_bits s1 sv h1)) = snd (fst (run K ident spc junk cp_bits s2 sv h2)).
Proof. exact store_independence. Qed.
Print Assumptions C19_store_independence.

(* solve() reads no caller memory: between solves the caller may do anything to its store *)
Theorem C19_solves_ignore_store :
  forall (K : Consts) (ident spc : bool) (junk : F) (cp_bits : Z) (h : list Op), only_solves h ->
  forall (s1 s2 : Store) (sv : option Solver),
  outputs K ident spc junk cp_bits s1 sv h = outputs K ident spc junk cp_bits s2 sv (erase_mutations h).
Proof. exact solves_ignore_store. Qed.
Print Assumptions C19_solves_ignore_store.

(* the twin experiment of harness/drv_alias.cpp as a theorem about the model: the caller prepares the arguments of each
   call, calls, and then (twin B) does anything at all to its memory or (twin A) nothing: same outputs, from any two
   initial stores *)
Theorem C19_scribble_twin :
  forall (K : Consts) (ident spc : bool) (junk : F) (cp_bits : Z) (l : list Step),
  Forall (fun st => writes (prep st) (call_ids (call st))) l ->
  forall (s1 s2 : Store) (sv : option Solver),
  outputs K ident spc junk cp_bits s1 sv (flatten true l) = outputs K ident spc junk cp_bits s2 sv (flatten false l).
Proof. exact scribble_twin. Qed.
Print Assumptions C19_scribble_twin.

(* (exact rationals are slow, and the independent checker coqchk re-evaluates this file without the VM: the solves of the
   example use the fault oracle "every factorisation fails" and stop with NUMERICS after max_factor_retires retries -- the
   cheapest complete pass through solve())
   ---- non-vacuity: a concrete history on a concrete store in which every call is accepted (Ok), the caller frees ALL
   its buffers after setup and again after update, and the outputs equal those of the undisturbed twin ---- *)
Definition ex_S : Settings :=
  let D := default_settings in
  mkSettings (qmk 1 256) (qmk 1 64) (qmk 1 1024) (qmk 1 1024) (check_duality_gap D) (qmk 1 1024)
    (qmk 1 1024) (qmk 1 1048576) (qmk 1 1073741824) (reg_finetune_primal_update_threshold D)
    (reg_finetune_dual_update_threshold D) 1%Z (max_factor_retires D) (preconditioner_scale_cost D) 1%Z (qmk 7 8)
    (iterative_refinement_always_enabled D) (iterative_refinement_eps_abs D) (iterative_refinement_eps_rel D)
    (iterative_refinement_max_iter D) (iterative_refinement_min_improvement_rate D)
    (iterative_refinement_static_regularization_eps D) (iterative_refinement_static_regularization_rel D).
Definition q (z : Z) : F := qofZ z.
Definition ex_store0 : Store := fun _ => None.
(* n = 2, p = 1, m = 1; buffers 0..7 = P c A b G h lb ub *)
Definition ex_prep1 : Store -> Store := fun s =>
  write_buf 0%nat (VMat [[q 4%Z; q 1%Z]; [q 1%Z; q 3%Z]]) (write_buf 1%nat (VVec [q 1%Z; q (-2)%Z])
  (write_buf 2%nat (VMat [[q 1%Z]; [q 1%Z]]) (write_buf 3%nat (VVec [q 1%Z])
  (write_buf 4%nat (VMat [[q 1%Z]; [q (-1)%Z]]) (write_buf 5%nat (VExt [Fin (q 2%Z)])
  (write_buf 6%nat (VExt [Fin (q (-1)%Z); NInf]) (write_buf 7%nat (VExt [PInf; Fin (q 3%Z)]) s))))))).
Definition ex_ids1 : BlockIds :=
  {| id_P := Some 0%nat; id_c := Some 1%nat; id_A := Some 2%nat; id_b := Some 3%nat;
     id_G := Some 4%nat; id_h := Some 5%nat; id_lb := Some 6%nat; id_ub := Some 7%nat |}.
(* update: new c and new bounds (the finite-bound pattern changes) in buffers 1, 6 *)
Definition ex_prep2 : Store -> Store := fun s =>
  write_buf 1%nat (VVec [q 3%Z; q 1%Z]) (write_buf 6%nat (VExt [Fin (q (-2)%Z); Fin (q (-2)%Z)]) s).
Definition ex_ids2 : BlockIds :=
  {| id_P := None; id_c := Some 1%nat; id_A := None; id_b := None; id_G := None; id_h := None; id_lb := Some 6%nat; id_ub := None |}.
Definition ex_steps : list Step :=
  [ {| prep := ex_prep1; call := CSetup ex_S 2%nat 1%nat 1%nat ex_ids1; scribble := free_all |};
    {| prep := fun s => s; call := CSolve (fun _ => true); scribble := free_all |};
    {| prep := ex_prep2; call := CUpdate ex_ids2 true; scribble := free_all |};
    {| prep := fun s => s; call := CSolve (fun _ => true); scribble := write_buf 1%nat (VVec []) |} ].

Lemma ex_writes : Forall (fun st => writes (prep st) (call_ids (call st))) ex_steps.
Proof.
  repeat constructor; intros s s' i Hi; cbn in Hi;
    repeat (destruct Hi as [<-|Hi]; [reflexivity|]); destruct Hi.
Qed.

Definition is_ok (o : Output) : bool := match o with Ok _ => true | Err _ => false end.

(* all four calls are accepted (so the equality below compares real results, not error codes) *)
Example C19_ex_calls_accepted :
  map is_ok (outputs consts false false 0%Qc 8%Z ex_store0 None (flatten true ex_steps)) = [true; true; true; true].
Proof. vm_compute. reflexivity. Qed.

(* the scribbled run (everything freed after every call) equals the undisturbed run *)
Example C19_ex_twin :
  outputs consts false false 0%Qc 8%Z ex_store0 None (flatten true ex_steps) =
  outputs consts false false 0%Qc 8%Z ex_store0 None (flatten false ex_steps).
Proof. apply C19_scribble_twin, ex_writes. Qed.

(* and the caller's buffers are really gone in the scribbled run *)
Example C19_ex_store_freed :
  final_store consts false false 0%Qc 8%Z ex_store0 None (flatten true ex_steps) 0%nat = None.
Proof. rewrite C19_store_unchanged. reflexivity. Qed.

(* a call that is given a freed buffer is rejected (the caller's error), it does not read stale data *)
Example C19_ex_dangling_rejected :
  map is_ok (outputs consts false false 0%Qc 8%Z ex_store0 None
               [OMutate ex_prep1; OMutate (free_buf 1%nat); OCall (CSetup ex_S 2%nat 1%nat 1%nat ex_ids1)]) = [false].
Proof. vm_compute. reflexivity. Qed.
