(* KKTSparseSolveElimProofs.v -- the solve path of sparse/kkt.hpp (model KKTSparseSolve.v, refinement off) for the three
   eliminated modes KKT_EQ_ELIMINATED, KKT_INEQ_ELIMINATED, KKT_ALL_ELIMINATED: condensation of the right-hand side, the
   reduced solve (lin_core of KKTSparseSolveProofs.v) and the recovery of the eliminated blocks give the full un-eliminated
   Newton system, for every size and every valid ordering. *)
From PIQP Require Import Base CSC LDLSparse C14LemmasProofs CSCProofs LDLValuesFinalProofs LinAlg KKTProofs
  KKTSparseFull KKTSparseFullProofs KKTSparseAll KKTSparseAllProofs KKTSparseEq KKTSparseIneq KKTSparseEqProofs KKTSparseIneqProofs
  KKTSparseSolve KKTSparseSolveProofs.
From Coq Require Import Lia.
Local Open Scope Qc_scope.

(* ================================================================ the common tail of solve *)
Lemma finish_newton8 d c r (dx dy dz : Vec) :
  solve_ok d c -> rhs_ok d r -> length dx = sd_n d -> length dy = sd_p d -> length dz = sd_m d ->
  full_rows (sysr d c r) (fv dx) (fv dy) (fv dz) ->
  exists dzlb dzub ds dslb dsub,
    rec_box (sd_nlb d) (sd_lbidx d) (sd_lbs d) (t_zlb r) (t_slb r) (sc_z_lb_inv c) (sc_s_lb c) (sc_delta c) true dx = Ok dzlb /\
    rec_box (sd_nub d) (sd_ubidx d) (sd_ubs d) (t_zub r) (t_sub r) (sc_z_ub_inv c) (sc_s_ub c) (sc_delta c) false dx = Ok dzub /\
    rec_slack (sd_m d) (sc_s c) (sc_z_inv c) (t_s r) dz = Ok ds /\
    rec_slack (sd_nlb d) (sc_s_lb c) (sc_z_lb_inv c) (t_slb r) dzlb = Ok dslb /\
    rec_slack (sd_nub d) (sc_s_ub c) (sc_z_ub_inv c) (t_sub r) dzub = Ok dsub /\
    step_ok d (mkstep8 dx dy dz dzlb dzub ds dslb dsub) /\ newton8 d c (mkstep8 dx dy dz dzlb dzub ds dslb dsub) r.
Proof.
  intros Hso Hro Ldx Ldy Ldz Hrows.
  destruct (solve_ok_alg d c r Hso) as (A1 & A2 & A3 & A4 & A5 & A6).
  destruct (recover d c r Hso Hro dx dz Ldx Ldz)
    as (dzlb & dzub & ds & dslb & dsub & F1 & F2 & F3 & F4 & F5 & G1 & G2 & G3 & G4 & G5 & H1 & H2 & H3 & H4 & H5).
  exists dzlb, dzub, ds, dslb, dsub. repeat (split; [assumption|]). split.
  { unfold step_ok. cbn [t_x t_y t_z t_s t_zlb t_slb t_zub t_sub]. repeat split; assumption. }
  unfold newton8. cbn [t_x t_y t_z t_s t_zlb t_slb t_zub t_sub].
  apply (alg_full (sysr d c r) _ _ _ _ _ _ _ _ A1 A2 A3 A4 A5 H1 H2 H3).
  { intros k Hk. rewrite (H4 k Hk). unfold a_dslb. now rewrite (H1 k Hk). }
  { intros k Hk. rewrite (H5 k Hk). unfold a_dsub. now rewrite (H2 k Hk). }
  exact Hrows.
Qed.

(* ================================================================ a bordered symmetric operator [[TL, B], [B^T, diag D]] *)
Definition Kb (n : nat) (TL B : nat -> nat -> Qc) (D : nat -> Qc) (i j : nat) : Qc :=
  if (j <? n)%nat then TL i j else if (i <? n)%nat then B i (j - n)%nat else if (i =? j)%nat then D (j - n)%nat else 0.

Section Bordered.
Variables (n q : nat) (TL B : nat -> nat -> Qc) (D : nat -> Qc).
Hypothesis TLsym : forall i j, TL i j = TL j i.
Lemma Kb_xx i j : (i < n)%nat -> (j < n)%nat -> symK (Kb n TL B D) i j = TL i j.
Proof. intros. unfold symK, Kb. kblk; auto. Qed.
Lemma Kb_xb i l : (i < n)%nat -> symK (Kb n TL B D) i (n + l) = B i l.
Proof. intros. unfold symK, Kb. kblk. replace (n + l - n)%nat with l by lia. reflexivity. Qed.
Lemma Kb_bx l j : (j < n)%nat -> symK (Kb n TL B D) (n + l) j = B j l.
Proof. intros. unfold symK, Kb. kblk. replace (n + l - n)%nat with l by lia. reflexivity. Qed.
Lemma Kb_bb l l' : symK (Kb n TL B D) (n + l) (n + l') = if Nat.eqb l l' then D l else 0.
Proof. unfold symK, Kb. kblk; try reflexivity; replace (n + l' - n)%nat with l by lia || replace (n + l - n)%nat with l by lia; reflexivity. Qed.

Lemma bord_rows (sol rhs : Vec) :
  (forall i, (i < n + q)%nat -> sum (n + q) (fun j => symK (Kb n TL B D) i j * nth j sol 0) = nth i rhs 0) ->
  (forall i, (i < n)%nat -> sum n (fun j => TL i j * nth j sol 0) + sum q (fun l => nth (n + l) sol 0 * B i l) = nth i rhs 0) /\
  (forall l, (l < q)%nat -> sum n (fun j => B j l * nth j sol 0) + D l * nth (n + l) sol 0 = nth (n + l) rhs 0).
Proof.
  intros HR. split.
  - intros i Hi. rewrite <- (HR i) by lia. rewrite sum_app. f_equal; apply sum_ext; intros j Hj.
    + rewrite Kb_xx by auto. reflexivity.
    + rewrite Kb_xb by auto. qring.
  - intros l Hl. rewrite <- (HR (n + l)%nat) by lia. rewrite sum_app. f_equal.
    + apply sum_ext; intros j Hj. rewrite Kb_bx by auto. reflexivity.
    + rewrite (sum_ext q (fun j => symK (Kb n TL B D) (n + l) (n + j) * nth (n + j) sol 0)
                         (fun l' => (if Nat.eqb l l' then D l else 0) * nth (n + l') sol 0))
        by (intros j Hj; rewrite Kb_bb; reflexivity).
      now rewrite (sum_diag q l (D l) (fun l' => nth (n + l') sol 0)) by auto.
Qed.
End Bordered.

(* ================================================================ shared steps *)
Ltac qlin_from E :=
  match type of E with ?C = ?D => match goal with |- ?A = ?B => transitivity (A - C + D); [rewrite E; unfold fv; qring | unfold fv; qring] end end.
Ltac get_spmv i := rewrite (get_nth _ i (0 : F)) by (rewrite spmv_len; lia); cbn [bind].
Ltac get_spmtv i := rewrite (get_nth _ i (0 : F)) by (rewrite spmtv_len; lia); cbn [bind].

(* rhs_z_bar as the code forms it: unscaled, then divided by s z_inv + delta *)
Definition zb_of (c : scal) (r : step8) (l : nat) : Qc := fv (t_z r) l - fv (sc_z_inv c) l * fv (t_s r) l.

Lemma zbar_scaled d c r (zbar : Vec) l :
  (forall l, (l < sd_m d)%nat -> nth l zbar 0 = zb_of c r l * (1 / (fv (sc_s c) l * fv (sc_z_inv c) l + sc_delta c))) ->
  (l < sd_m d)%nat -> fv zbar l = a_rzbar (sysr d c r) l.
Proof. intros H Hl. unfold fv at 1. rewrite (H l Hl). reflexivity. Qed.

(* ================================================================ KKT_ALL_ELIMINATED *)
Theorem all_solve_exact_s d c o K st r :
  wf_sdata d -> solve_ok d c -> sc_delta c <> 0 -> rhs_ok d r ->
  ord_ok (mode_N MAll d) o -> denotes (mode_N MAll d) o K (a_Kred (sys_sparse d c)) ->
  ldl_solves K st ->
  exists v, kkt_solve MAll d c o st r = Ok v /\ step_ok d v /\ newton8 d c v r.
Proof.
  intros Hwf Hso Hd Hro Ho Hden Hf.
  destruct Hwf as (WP & PR & PC & WA & AR & AC & WG & GR & GC).
  pose proof Hso as (S1 & S2 & _).
  pose proof Hro as (R1 & R2 & R3 & R4 & _).
  destruct (solve_ok_alg d c r Hso) as (A1 & A2 & A3 & A4 & A5 & A6).
  unfold kkt_solve. rewrite !chk_eq_ok by assumption. cbn [bind].
  set (Y := sysr d c r) in *.
  rewrite (tab_intro (sd_m d) _ (zb_of c r)) by (intros i Hi; getn; reflexivity). cbn [bind]. cbv beta iota zeta.
  rewrite qdiv_nz by exact Hd. cbn [bind].
  match goal with |- context [div_w _ _ _ _ ?X] => set (zb0 := X) end.
  assert (Lzb0 : length zb0 = sd_m d) by apply tabv_len.
  assert (Hzb0 : forall l, (l < sd_m d)%nat -> fv zb0 l = zb_of c r l) by (intros; apply tabv_nth; auto).
  destruct (div_w_spec (sd_m d) (sc_s c) (sc_z_inv c) (sc_delta c) zb0) as (zbar & Ez & Lz & Hz); try nlia.
  { intros l Hl. apply (A6 l Hl). }
  rewrite Ez. cbn [bind].
  assert (Hzbar : forall l, (l < sd_m d)%nat -> fv zbar l = a_rzbar Y l).
  { intros l Hl. apply (zbar_scaled d c r zbar l); auto. intros l' Hl'. rewrite (Hz l' Hl'). now rewrite Hzb0. }
  set (g := fun i => fv (t_x r) i + sum (sd_m d) (fun l => csc_get (sd_GT d) i l * nth l zbar 0)
                     + 1 / sc_delta c * sum (sd_p d) (fun l => csc_get (sd_AT d) i l * nth l (t_y r) 0)).
  rewrite (tab_intro (sd_n d) _ g).
  2:{ intros i Hi. getn. get_spmv i. get_spmv i. rewrite !spmv_nth by lia. rewrite GC, AC. reflexivity. }
  cbn [bind].
  match goal with |- context [fold_box _ _ _ _ _ _ _ _ true ?R] => set (rhs0 := R) end.
  assert (L0 : length rhs0 = mode_N MAll d) by apply tabv_len.
  assert (H0 : forall i, (i < sd_n d)%nat -> nth i rhs0 0 = g i) by (intros; apply tabv_nth; auto).
  destruct (cond_box d c r Hso Hro rhs0 (mode_N MAll d) L0 ltac:(cbn [mode_N]; lia)) as (rhs1 & rhs2 & E1 & E2 & L2 & Hx & _).
  rewrite E1. cbn [bind]. rewrite E2. cbn [bind].
  destruct (lin_core_s _ o K _ st rhs2 Ho Hden Hf L2) as (rp & xp & sol & Ep & Ex & Es & Ls & HR).
  rewrite Ep. cbn [bind]. rewrite Ex. cbn [bind]. rewrite Es. cbn [bind]. cbv beta iota zeta.
  cbn [mode_N] in Ls, HR.
  set (dx := head (sd_n d) sol).
  assert (Ldx : length dx = sd_n d) by (apply head_length; nlia).
  assert (Edx : forall j, (j < sd_n d)%nat -> fv dx j = nth j sol 0) by (intros j Hj; unfold fv, dx; now apply nth_head).
  set (gy := fun l => 1 / sc_delta c * sum (sd_n d) (fun j => csc_get (sd_AT d) j l * fv dx j) - 1 / sc_delta c * fv (t_y r) l).
  rewrite (tab_intro (sd_p d) _ gy).
  2:{ intros l Hl. get_spmtv l. getn. rewrite spmtv_nth by lia. rewrite AR. reflexivity. }
  cbn [bind].
  destruct (div_w_spec (sd_m d) (sc_s c) (sc_z_inv c) (sc_delta c) (spmtv (sd_GT d) dx)) as (gg & Eg & Lg & Hg); try nlia.
  { rewrite spmtv_len. lia. } { intros l Hl. apply (A6 l Hl). }
  rewrite Eg. cbn [bind].
  set (gz := fun l => fv (spmtv (sd_GT d) dx) l * (1 / (fv (sc_s c) l * fv (sc_z_inv c) l + sc_delta c)) - fv zbar l).
  rewrite (tab_intro (sd_m d) _ gz) by (intros l Hl; getn; rewrite (Hg l Hl); reflexivity).
  cbn [bind].
  match goal with |- context [rec_slack (sd_m d) _ _ _ ?Z] => set (dz := Z) end.
  match goal with |- context [mkstep8 _ ?Yv _ _ _ _ _ _] => set (dy := Yv) end.
  assert (Ldy : length dy = sd_p d) by apply tabv_len.
  assert (Ldz : length dz = sd_m d) by apply tabv_len.
  assert (Hdy : forall l, (l < sd_p d)%nat -> fv dy l = a_dy Y (fv dx) l) by (intros l Hl; unfold fv at 1, dy; rewrite tabv_nth by auto; reflexivity).
  assert (Hdz : forall l, (l < sd_m d)%nat -> fv dz l = a_dz Y (fv dx) l).
  { intros l Hl. unfold fv at 1, dz. rewrite tabv_nth by auto. unfold gz. rewrite (Hzbar l Hl). unfold fv at 1.
    rewrite spmtv_nth by lia. rewrite GR. reflexivity. }
  assert (Hrows : full_rows Y (fv dx) (fv dy) (fv dz)).
  { apply alg_all; auto. intros i Hi. change (y_n Y) with (sd_n d) in Hi. change (y_n Y) with (sd_n d).
    transitivity (nth i rhs2 0).
    - rewrite <- (HR i Hi). apply sum_ext. intros j Hj. rewrite (Edx j Hj). f_equal.
      rewrite symK_sym; [reflexivity|]. intros a b. apply a_Kred_sym. intros. apply (sysr_Psym_sym d c r).
    - rewrite (Hx i Hi), (H0 i Hi). unfold a_rhs, g, a_dinv.
      rewrite (sum_ext (sd_m d) (fun l => csc_get (sd_GT d) i l * nth l zbar 0) (fun l => a_rzbar Y l * y_GT Y i l))
        by (intros l Hl; fold (fv zbar l); rewrite (Hzbar l Hl); cbn [Y sysr y_GT]; qring).
      rewrite (sum_ext (sd_p d) (fun l => csc_get (sd_AT d) i l * nth l (t_y r) 0) (fun l => y_ry Y l * y_AT Y i l))
        by (intros l Hl; cbn [Y sysr y_AT y_ry]; unfold fv; qring).
      reflexivity. }
  destruct (finish_newton8 d c r dx dy dz Hso Hro Ldx Ldy Ldz Hrows) as (dzlb & dzub & ds & dslb & dsub & F1 & F2 & F3 & F4 & F5 & Hst & Hn).
  rewrite F1. cbn [bind]. rewrite F2. cbn [bind]. rewrite F3. cbn [bind]. rewrite F4. cbn [bind]. rewrite F5. cbn [bind].
  eexists. split; [reflexivity|]. split; assumption.
Qed.

Theorem all_solve_exact d c o K st r :
  wf_sdata d -> solve_ok d c -> sc_delta c <> 0 -> rhs_ok d r ->
  ord_ok (mode_N MAll d) o -> denotes (mode_N MAll d) o K (a_Kred (sys_sparse d c)) ->
  ldl_factor K = Ok (mode_N MAll d, st) ->
  exists v, kkt_solve MAll d c o st r = Ok v /\ step_ok d v /\ newton8 d c v r.
Proof. intros Hwf Hso Hd Hro Ho Hden Hf. apply (all_solve_exact_s d c o K st r Hwf Hso Hd Hro Ho Hden (ldl_factor_solves _ o K _ st Hden Hf)). Qed.

(* ================================================================ KKT_EQ_ELIMINATED / KKT_INEQ_ELIMINATED *)
Lemma sum_tl n (Ps : nat -> nat -> Qc) (dg cc : Qc) (S : nat -> Qc) i (f : nat -> Qc) : (i < n)%nat ->
  sum n (fun j => (Ps i j + (if Nat.eqb i j then dg else 0) + cc * S j) * f j)
  = sum n (fun j => Ps i j * f j) + dg * f i + cc * sum n (fun j => S j * f j).
Proof.
  intros Hi. rewrite (sum_ext n _ (fun j => (Ps i j + (if Nat.eqb i j then dg else 0)) * f j + cc * (S j * f j))) by (intros; ring).
  rewrite sum_add, sum_xx, sum_scale_l by auto. reflexivity.
Qed.
Lemma sum_tl1 n (Ps : nat -> nat -> Qc) (dg : Qc) (S : nat -> Qc) i (f : nat -> Qc) : (i < n)%nat ->
  sum n (fun j => (Ps i j + (if Nat.eqb i j then dg else 0) + S j) * f j)
  = sum n (fun j => Ps i j * f j) + dg * f i + sum n (fun j => S j * f j).
Proof.
  intros Hi. rewrite (sum_ext n _ (fun j => (Ps i j + (if Nat.eqb i j then dg else 0)) * f j + S j * f j)) by (intros; ring).
  rewrite sum_add, sum_xx by auto. reflexivity.
Qed.

Lemma diag_sym (f : nat -> Qc) i j : (if Nat.eqb i j then f i else 0) = (if Nat.eqb j i then f j else 0).
Proof. destruct (Nat.eqb_spec i j), (Nat.eqb_spec j i); subst; try reflexivity; congruence. Qed.
Lemma a_SA_sym Y i j : a_SA Y i j = a_SA Y j i.
Proof. unfold a_SA. apply sum_ext. intros; ring. Qed.
Lemma a_SG_sym Y i j : a_SG Y i j = a_SG Y j i.
Proof. unfold a_SG. apply sum_ext. intros; ring. Qed.

Theorem eq_solve_exact_s d c o K st r :
  wf_sdata d -> solve_ok d c -> sc_delta c <> 0 -> rhs_ok d r ->
  ord_ok (mode_N MEq d) o -> denotes (mode_N MEq d) o K (Keq (sys_sparse d c)) ->
  ldl_solves K st ->
  exists v, kkt_solve MEq d c o st r = Ok v /\ step_ok d v /\ newton8 d c v r.
Proof.
  intros Hwf Hso Hd Hro Ho Hden Hf.
  destruct Hwf as (WP & PR & PC & WA & AR & AC & WG & GR & GC).
  pose proof Hso as (S1 & S2 & _).
  pose proof Hro as (R1 & R2 & R3 & R4 & _).
  destruct (solve_ok_alg d c r Hso) as (A1 & A2 & A3 & A4 & A5 & A6).
  unfold kkt_solve. rewrite !chk_eq_ok by assumption. cbn [bind].
  set (Y := sysr d c r) in *.
  rewrite (tab_intro (sd_m d) _ (zb_of c r)) by (intros i Hi; getn; reflexivity). cbn [bind]. cbv beta iota zeta.
  rewrite qdiv_nz by exact Hd. cbn [bind].
  set (g := fun i => fv (t_x r) i + 1 / sc_delta c * sum (sd_p d) (fun l => csc_get (sd_AT d) i l * nth l (t_y r) 0)).
  rewrite (tab_intro (sd_n d) _ g).
  2:{ intros i Hi. getn. get_spmv i. rewrite !spmv_nth by lia. rewrite AC. reflexivity. }
  cbn [bind].
  match goal with |- context [fold_box _ _ _ _ _ _ _ _ true (?H ++ ?Z)] => set (hd := H); set (zb0 := Z) end.
  assert (Lhd : length hd = sd_n d) by apply tabv_len.
  assert (Lzb0 : length zb0 = sd_m d) by apply tabv_len.
  assert (Hhd : forall i, (i < sd_n d)%nat -> nth i hd 0 = g i) by (intros; apply tabv_nth; auto).
  assert (Hzb0 : forall l, (l < sd_m d)%nat -> nth l zb0 0 = zb_of c r l) by (intros; apply tabv_nth; auto).
  assert (L0 : length (hd ++ zb0) = mode_N MEq d) by (rewrite app_length; cbn [mode_N]; nlia).
  destruct (cond_box d c r Hso Hro (hd ++ zb0) (mode_N MEq d) L0 ltac:(cbn [mode_N]; lia)) as (rhs1 & rhs2 & E1 & E2 & L2 & Hx & Hrest).
  rewrite E1. cbn [bind]. rewrite E2. cbn [bind].
  destruct (lin_core_s _ o K _ st rhs2 Ho Hden Hf L2) as (rp & xp & sol & Ep & Ex & Es & Ls & HR).
  rewrite Ep. cbn [bind]. rewrite Ex. cbn [bind]. rewrite Es. cbn [bind]. cbv beta iota zeta.
  cbn [mode_N] in Ls, HR, Hrest.
  set (dx := head (sd_n d) sol). set (dz := tail_from (sd_n d) sol).
  assert (Ldx : length dx = sd_n d) by (apply head_length; nlia).
  assert (Ldz : length dz = sd_m d) by (unfold dz; rewrite len_tail_from; nlia).
  assert (Edx : forall j, (j < sd_n d)%nat -> fv dx j = nth j sol 0) by (intros j Hj; unfold fv, dx; now apply nth_head).
  assert (Edz : forall l, fv dz l = nth (sd_n d + l) sol 0) by (intros l; unfold fv, dz; apply nth_tail_from).
  set (gy := fun l => 1 / sc_delta c * sum (sd_n d) (fun j => csc_get (sd_AT d) j l * fv dx j) - 1 / sc_delta c * fv (t_y r) l).
  rewrite (tab_intro (sd_p d) _ gy).
  2:{ intros l Hl. get_spmtv l. getn. rewrite spmtv_nth by lia. rewrite AR. reflexivity. }
  cbn [bind].
  match goal with |- context [mkstep8 _ ?Yv _ _ _ _ _ _] => set (dy := Yv) end.
  assert (Ldy : length dy = sd_p d) by apply tabv_len.
  assert (Hdy : forall l, (l < sd_p d)%nat -> fv dy l = a_dy Y (fv dx) l) by (intros l Hl; unfold fv at 1, dy; rewrite tabv_nth by auto; reflexivity).
  (* the rows of the reduced system *)
  set (TL := fun i j => y_Psym Y i j + (if Nat.eqb i j then y_rho Y + a_bdiag Y i else 0) + a_dinv Y * a_SA Y i j).
  set (D := fun l => - (y_s Y l * y_zinv Y l + y_delta Y)).
  assert (TLsym : forall i j, TL i j = TL j i).
  { intros i j. unfold TL. pose proof (sysr_Psym_sym d c r i j) as HP. change (sysr d c r) with Y in HP. rewrite HP, (a_SA_sym Y i j).
    rewrite (diag_sym (fun i => y_rho Y + a_bdiag Y i) i j). reflexivity. }
  destruct (bord_rows (sd_n d) (sd_m d) TL (y_GT Y) D TLsym sol rhs2 HR) as (BX & BZ).
  assert (Hrows : full_rows Y (fv dx) (fv dy) (fv dz)).
  { apply alg_eq; auto. split.
    - intros i Hi. change (y_n Y) with (sd_n d) in *. change (y_m Y) with (sd_m d). change (y_p Y) with (sd_p d).
      pose proof (BX i Hi) as E. unfold TL in E. rewrite sum_tl in E by auto.
      rewrite (Hx i Hi) in E. rewrite app_nth1 in E by nlia. rewrite (Hhd i Hi) in E. unfold g in E.
      rewrite (sum_ext (sd_n d) (fun j => y_Psym Y i j * fv dx j) (fun j => y_Psym Y i j * nth j sol 0)) by (intros j Hj; now rewrite Edx).
      rewrite (sum_ext (sd_n d) (fun j => a_SA Y i j * fv dx j) (fun j => a_SA Y i j * nth j sol 0)) by (intros j Hj; now rewrite Edx).
      rewrite (sum_ext (sd_m d) (fun l => fv dz l * y_GT Y i l) (fun l => nth (sd_n d + l) sol 0 * y_GT Y i l)) by (intros l Hl; now rewrite Edz).
      rewrite (Edx i Hi). rewrite E. unfold a_dinv.
      rewrite (sum_ext (sd_p d) (fun l => csc_get (sd_AT d) i l * nth l (t_y r) 0) (fun l => y_ry Y l * y_AT Y i l))
        by (intros l Hl; cbn [Y sysr y_AT y_ry]; unfold fv; qring).
      reflexivity.
    - intros l Hl. change (y_n Y) with (sd_n d) in *. change (y_m Y) with (sd_m d) in Hl.
      pose proof (BZ l Hl) as E. rewrite Hrest in E by lia. assert (Eapp : nth (sd_n d + l) (hd ++ zb0) 0 = nth l zb0 0) by (rewrite <- Lhd; apply nth_app2_2).
      rewrite Eapp, (Hzb0 l Hl) in E.
      rewrite (sum_ext (sd_n d) (fun j => y_GT Y j l * fv dx j) (fun j => y_GT Y j l * nth j sol 0)) by (intros j Hj; now rewrite Edx).
      rewrite Edz. unfold D in E. unfold zb_of in E. cbn [Y sysr y_rz y_zinv y_rs y_s y_delta] in *. qlin_from E. }
  destruct (finish_newton8 d c r dx dy dz Hso Hro Ldx Ldy Ldz Hrows) as (dzlb & dzub & ds & dslb & dsub & F1 & F2 & F3 & F4 & F5 & Hst & Hn).
  rewrite F1. cbn [bind]. rewrite F2. cbn [bind]. rewrite F3. cbn [bind]. rewrite F4. cbn [bind]. rewrite F5. cbn [bind].
  eexists. split; [reflexivity|]. split; assumption.
Qed.

Theorem eq_solve_exact d c o K st r :
  wf_sdata d -> solve_ok d c -> sc_delta c <> 0 -> rhs_ok d r ->
  ord_ok (mode_N MEq d) o -> denotes (mode_N MEq d) o K (Keq (sys_sparse d c)) ->
  ldl_factor K = Ok (mode_N MEq d, st) ->
  exists v, kkt_solve MEq d c o st r = Ok v /\ step_ok d v /\ newton8 d c v r.
Proof. intros Hwf Hso Hd Hro Ho Hden Hf. apply (eq_solve_exact_s d c o K st r Hwf Hso Hd Hro Ho Hden (ldl_factor_solves _ o K _ st Hden Hf)). Qed.

Theorem ineq_solve_exact_s d c o K st r :
  wf_sdata d -> solve_ok d c -> rhs_ok d r ->
  ord_ok (mode_N MIneq d) o -> denotes (mode_N MIneq d) o K (Kineq (sys_sparse d c)) ->
  ldl_solves K st ->
  exists v, kkt_solve MIneq d c o st r = Ok v /\ step_ok d v /\ newton8 d c v r.
Proof.
  intros Hwf Hso Hro Ho Hden Hf.
  destruct Hwf as (WP & PR & PC & WA & AR & AC & WG & GR & GC).
  pose proof Hso as (S1 & S2 & _).
  pose proof Hro as (R1 & R2 & R3 & R4 & _).
  destruct (solve_ok_alg d c r Hso) as (A1 & A2 & A3 & A4 & A5 & A6).
  unfold kkt_solve. rewrite !chk_eq_ok by assumption. cbn [bind].
  set (Y := sysr d c r) in *.
  rewrite (tab_intro (sd_m d) _ (zb_of c r)) by (intros i Hi; getn; reflexivity). cbn [bind]. cbv beta iota zeta.
  match goal with |- context [div_w _ _ _ _ ?X] => set (zb0 := X) end.
  assert (Lzb0 : length zb0 = sd_m d) by apply tabv_len.
  assert (Hzb0 : forall l, (l < sd_m d)%nat -> fv zb0 l = zb_of c r l) by (intros; apply tabv_nth; auto).
  destruct (div_w_spec (sd_m d) (sc_s c) (sc_z_inv c) (sc_delta c) zb0) as (zbar & Ez & Lz & Hz); try nlia.
  { intros l Hl. apply (A6 l Hl). }
  rewrite Ez. cbn [bind].
  assert (Hzbar : forall l, (l < sd_m d)%nat -> fv zbar l = a_rzbar Y l).
  { intros l Hl. apply (zbar_scaled d c r zbar l); auto. intros l' Hl'. rewrite (Hz l' Hl'). now rewrite Hzb0. }
  set (g := fun i => fv (t_x r) i + sum (sd_m d) (fun l => csc_get (sd_GT d) i l * nth l zbar 0)).
  rewrite (tab_intro (sd_n d) _ g).
  2:{ intros i Hi. getn. get_spmv i. rewrite !spmv_nth by lia. rewrite GC. reflexivity. }
  cbn [bind].
  match goal with |- context [fold_box _ _ _ _ _ _ _ _ true (?H ++ _)] => set (hd := H) end.
  assert (Lhd : length hd = sd_n d) by apply tabv_len.
  assert (Hhd : forall i, (i < sd_n d)%nat -> nth i hd 0 = g i) by (intros; apply tabv_nth; auto).
  assert (L0 : length (hd ++ t_y r) = mode_N MIneq d) by (rewrite app_length; cbn [mode_N]; nlia).
  destruct (cond_box d c r Hso Hro (hd ++ t_y r) (mode_N MIneq d) L0 ltac:(cbn [mode_N]; lia)) as (rhs1 & rhs2 & E1 & E2 & L2 & Hx & Hrest).
  rewrite E1. cbn [bind]. rewrite E2. cbn [bind].
  destruct (lin_core_s _ o K _ st rhs2 Ho Hden Hf L2) as (rp & xp & sol & Ep & Ex & Es & Ls & HR).
  rewrite Ep. cbn [bind]. rewrite Ex. cbn [bind]. rewrite Es. cbn [bind]. cbv beta iota zeta.
  cbn [mode_N] in Ls, HR, Hrest.
  set (dx := head (sd_n d) sol). set (dy := tail_from (sd_n d) sol).
  assert (Ldx : length dx = sd_n d) by (apply head_length; nlia).
  assert (Ldy : length dy = sd_p d) by (unfold dy; rewrite len_tail_from; nlia).
  assert (Edx : forall j, (j < sd_n d)%nat -> fv dx j = nth j sol 0) by (intros j Hj; unfold fv, dx; now apply nth_head).
  assert (Edy : forall l, fv dy l = nth (sd_n d + l) sol 0) by (intros l; unfold fv, dy; apply nth_tail_from).
  destruct (div_w_spec (sd_m d) (sc_s c) (sc_z_inv c) (sc_delta c) (spmtv (sd_GT d) dx)) as (gg & Eg & Lg & Hg); try nlia.
  { rewrite spmtv_len. lia. } { intros l Hl. apply (A6 l Hl). }
  rewrite Eg. cbn [bind].
  set (gz := fun l => fv (spmtv (sd_GT d) dx) l * (1 / (fv (sc_s c) l * fv (sc_z_inv c) l + sc_delta c)) - fv zbar l).
  rewrite (tab_intro (sd_m d) _ gz) by (intros l Hl; getn; rewrite (Hg l Hl); reflexivity).
  cbn [bind].
  match goal with |- context [rec_slack (sd_m d) _ _ _ ?Z] => set (dz := Z) end.
  assert (Ldz : length dz = sd_m d) by apply tabv_len.
  assert (Hdz : forall l, (l < sd_m d)%nat -> fv dz l = a_dz Y (fv dx) l).
  { intros l Hl. unfold fv at 1, dz. rewrite tabv_nth by auto. unfold gz. rewrite (Hzbar l Hl). unfold fv at 1.
    rewrite spmtv_nth by lia. rewrite GR. reflexivity. }
  set (TL := fun i j => y_Psym Y i j + (if Nat.eqb i j then y_rho Y + a_bdiag Y i else 0) + a_SG Y i j).
  set (D := fun l : nat => - y_delta Y).
  assert (TLsym : forall i j, TL i j = TL j i).
  { intros i j. unfold TL. pose proof (sysr_Psym_sym d c r i j) as HP. change (sysr d c r) with Y in HP. rewrite HP, (a_SG_sym Y i j).
    rewrite (diag_sym (fun i => y_rho Y + a_bdiag Y i) i j). reflexivity. }
  destruct (bord_rows (sd_n d) (sd_p d) TL (y_AT Y) D TLsym sol rhs2 HR) as (BX & BY).
  assert (Hrows : full_rows Y (fv dx) (fv dy) (fv dz)).
  { apply alg_ineq; auto. split.
    - intros i Hi. change (y_n Y) with (sd_n d) in *. change (y_m Y) with (sd_m d). change (y_p Y) with (sd_p d).
      pose proof (BX i Hi) as E. unfold TL in E. rewrite sum_tl1 in E by auto.
      rewrite (Hx i Hi) in E. rewrite app_nth1 in E by nlia. rewrite (Hhd i Hi) in E. unfold g in E.
      rewrite (sum_ext (sd_n d) (fun j => y_Psym Y i j * fv dx j) (fun j => y_Psym Y i j * nth j sol 0)) by (intros j Hj; now rewrite Edx).
      rewrite (sum_ext (sd_n d) (fun j => a_SG Y i j * fv dx j) (fun j => a_SG Y i j * nth j sol 0)) by (intros j Hj; now rewrite Edx).
      rewrite (sum_ext (sd_p d) (fun l => fv dy l * y_AT Y i l) (fun l => nth (sd_n d + l) sol 0 * y_AT Y i l)) by (intros l Hl; now rewrite Edy).
      rewrite (Edx i Hi). rewrite E.
      rewrite (sum_ext (sd_m d) (fun l => csc_get (sd_GT d) i l * nth l zbar 0) (fun l => a_rzbar Y l * y_GT Y i l))
        by (intros l Hl; fold (fv zbar l); rewrite (Hzbar l Hl); cbn [Y sysr y_GT]; qring).
      reflexivity.
    - intros l Hl. change (y_n Y) with (sd_n d) in *. change (y_p Y) with (sd_p d) in Hl.
      pose proof (BY l Hl) as E. rewrite Hrest in E by lia.
      assert (Eapp : nth (sd_n d + l) (hd ++ t_y r) 0 = nth l (t_y r) 0) by (rewrite <- Lhd; apply nth_app2_2).
      rewrite Eapp in E.
      rewrite (sum_ext (sd_n d) (fun j => y_AT Y j l * fv dx j) (fun j => y_AT Y j l * nth j sol 0)) by (intros j Hj; now rewrite Edx).
      rewrite Edy. unfold D in E. cbn [Y sysr y_ry y_delta] in *. qlin_from E. }
  destruct (finish_newton8 d c r dx dy dz Hso Hro Ldx Ldy Ldz Hrows) as (dzlb & dzub & ds & dslb & dsub & F1 & F2 & F3 & F4 & F5 & Hst & Hn).
  rewrite F1. cbn [bind]. rewrite F2. cbn [bind]. rewrite F3. cbn [bind]. rewrite F4. cbn [bind]. rewrite F5. cbn [bind].
  eexists. split; [reflexivity|]. split; assumption.
Qed.

Theorem ineq_solve_exact d c o K st r :
  wf_sdata d -> solve_ok d c -> rhs_ok d r ->
  ord_ok (mode_N MIneq d) o -> denotes (mode_N MIneq d) o K (Kineq (sys_sparse d c)) ->
  ldl_factor K = Ok (mode_N MIneq d, st) ->
  exists v, kkt_solve MIneq d c o st r = Ok v /\ step_ok d v /\ newton8 d c v r.
Proof. intros Hwf Hso Hro Ho Hden Hf. apply (ineq_solve_exact_s d c o K st r Hwf Hso Hro Ho Hden (ldl_factor_solves _ o K _ st Hden Hf)). Qed.

(* ================================================================ on the assembly states (identity ordering) *)
Lemma eqF_view d X c k : eqF d X c k -> ek_sc k = c /\ ek_pinv k = seq 0 (sd_n d + sd_m d).
Proof. intros ((cx & _ & _ & _ & _ & _ & Ep & _) & Es & _). split; [exact Es|exact Ep]. Qed.
Lemma ineqF_view d X c k : ineqF d X c k -> ek_sc k = c /\ ek_pinv k = seq 0 (sd_n d + sd_p d).
Proof. intros ((cx & _ & _ & _ & _ & _ & Ep & _) & Es & _). split; [exact Es|exact Ep]. Qed.
Lemma all_form_view d c k : all_form d c k -> ak_sc k = c /\ ak_pinv k = seq 0 (sd_n d).
Proof. intros ((ax & gx & _ & _ & _ & _ & _ & _ & Ep & _) & Es & _). split; [exact Es|exact Ep]. Qed.
