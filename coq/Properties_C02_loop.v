(* Properties_C02_loop.v -- C02-T1 `convex_never_numerics`, whole-loop form, dense model (IPM.v / API.v), exact arithmetic,
   all sizes: on a convex problem, with the never-failing fault oracle (fun _ => false) and any admissible checkpoint
   function, PIQP_NUMERICS is unreachable and the iterative-refinement flag is never changed -- by a pass, by
   main_loop (any fuel) and by solve().  Statements only; proofs in ConvexLoopProofs.v, which combines PDProofs.v
   (K_red positive definite => factorisation succeeds) with the interior invariant of InteriorProofs.v.
   Definitions used (ConvexLoopProofs.v unless noted):
     ConvexInv d st     Interior d st (InteriorProofs.v: s, z, rho, delta, reg_limit > 0, shapes, mu > 0) and
                        kkt_shape d (st_kkt st) (PDProofs.v: box vectors long enough, k_ATA = compute_ATA d if p > 0)
     consts_ok K        1 < k_shift, 0 < k_half, k_sinit, k_eps, k_retry_mul, k_reglim_mul, 0 <= k_snorm
                        (true of the literals of solver.hpp: ex_consts_settings_ok)
     settings_ok S      0 < rho_init, delta_init, reg_lower_limit, reg_finetune_lower_limit, eps_abs, 0 < tau < 1
                        (verify_settings gives all but reg_finetune_lower_limit > 0 -- finding F11 -- and tau < 1 strictly)
     solver_convex sv   the data stored in the object (i.e. AFTER preconditioning) satisfy wf_data, DataShape and P_psd;
                        the KKT object has the right shape; if it has not been refreshed since setup/update
                        (sv_kkt_init_state) its matrix is positive definite and it satisfies KShape, KSign
     P_psd is preserved by the Ruiz scaling: P_psd_scaled.
     idx_err e          e = Index \/ e = Shape (errors of pure index manipulation: get / upd / gather / scatter / swap)
     solver_convex_pos  solver_convex and, for a never-refreshed KKT object, wf_scal and pos_scal (true after setup)
     fact_pos k         every pivot stored in k_fact k is non-zero
   No division by zero: C02_solve_no_divzero_convex covers EVERY division site of solve() (kkt_update_scalings / update_kkt
   (w terms, 1/delta, box terms), the LLT pivots of both factorisation modes, llt_solve, the refinement loop, both
   kkt_solve calls, the three step-length ratio loops, sigma, mu, mu_rate, the Mehrotra initial point (via
   initial_point_interior of InteriorProofs.v)): any Err of solve is Index, Shape or Fuel.
   NOT PROVED here: the convergence claim of C02 (solves_W_partial, see Properties_C02.v); absence of Index / Shape /
   Fuel errors (index ranges and fuel bounds are the subject of C06 / C12). *)
From PIQP Require Import Base Data Bounds PrecondDense KKTDense IPM API InteriorProofs.
From PIQP Require Import LinAlg LLTProofs KKTProofs PDProofs ConvexLoopProofs.
From PIQP Require InteriorExamples.
From PIQP.gen Require Import Consts.
From RecordUpdate Require Import RecordSet.
Import RecordSetNotations.
Local Open Scope Qc_scope.

Theorem C02_loop_pass_convex : forall (K : Consts) (SS : Settings) (d : Data) (pc : Precond) (cp : F -> F) (st : St) (o : Outcome),
  wf_data d -> P_psd d -> 0 <= k_eps K -> kkt_shape d (st_kkt st) ->
  0 < i_rho (st_inf st) -> 0 < i_delta (st_inf st) ->
  iter_pos d (s (st_it st)) (s_lb (st_it st)) (s_ub (st_it st)) (z (st_it st)) (z_lb (st_it st)) (z_ub (st_it st)) ->
  loop_pass K SS d pc (fun _ => false) cp st = Ok o ->
  st_refine (outcome_state o) = st_refine st /\ kkt_shape d (st_kkt (outcome_state o)) /\
  match o with
  | Stop st' => i_status (st_inf st') <> NUMERICS
  | Continue st' => True
  end.
Proof. exact loop_pass_convex. Qed.
Print Assumptions C02_loop_pass_convex.

Theorem C02_loop_pass_convex_inv : forall (K : Consts) (SS : Settings) (d : Data) (pc : Precond) (cp : F -> F),
  cp_pos cp -> 0 < tau SS -> tau SS < 1 -> 0 < reg_finetune_lower_limit SS -> 0 < eps_abs SS ->
  0 < k_eps K -> 0 < k_retry_mul K -> 0 < k_reglim_mul K ->
  DataShape d -> wf_data d -> P_psd d ->
  forall (st : St) (o : Outcome),
  ConvexInv d st -> loop_pass K SS d pc (fun _ => false) cp st = Ok o ->
  st_refine (outcome_state o) = st_refine st /\
  match o with
  | Continue st' => ConvexInv d st'
  | Stop st' => i_status (st_inf st') <> NUMERICS
  end.
Proof. exact loop_pass_convex_inv. Qed.
Print Assumptions C02_loop_pass_convex_inv.

Theorem C02_main_loop_convex : forall (K : Consts) (SS : Settings) (d : Data) (pc : Precond) (cp : F -> F),
  cp_pos cp -> 0 < tau SS -> tau SS < 1 -> 0 < reg_finetune_lower_limit SS -> 0 < eps_abs SS ->
  0 < k_eps K -> 0 < k_retry_mul K -> 0 < k_reglim_mul K ->
  DataShape d -> wf_data d -> P_psd d ->
  forall (fuel : nat) (st st' : St),
  ConvexInv d st -> main_loop K SS d pc (fun _ => false) cp fuel st = Ok st' ->
  i_status (st_inf st') <> NUMERICS /\ st_refine st' = st_refine st.
Proof. exact main_loop_convex. Qed.
Print Assumptions C02_main_loop_convex.

Theorem C02_kkt_init_convex : forall (d : Data) (rho delta junk : F) (k : KKT),
  wf_data d -> P_psd d -> 0 < rho -> 0 < delta ->
  kkt_init d rho delta junk = Ok k -> kkt_pd k /\ kkt_shape d k.
Proof. exact kkt_init_convex. Qed.
Print Assumptions C02_kkt_init_convex.

Theorem C02_setup_state_convex : forall (junk : F) (sv : Solver),
  wf_data (sv_data sv) -> DataShape (sv_data sv) -> P_psd (sv_data sv) ->
  0 < rho_init (sv_set sv) -> 0 < delta_init (sv_set sv) ->
  kkt_init (sv_data sv) (rho_init (sv_set sv)) (delta_init (sv_set sv)) junk = Ok (sv_kkt sv) ->
  solver_convex sv.
Proof. exact setup_state_convex. Qed.
Print Assumptions C02_setup_state_convex.

(* solve(): first solve after setup/update (sv_kkt_init_state = true) or any later one (scalings reset to 1) *)
Theorem C02_solve_convex_never_numerics : forall (K : Consts) (junk : F) (cp_bits : Z) (sv sv' : Solver) (status : Status),
  consts_ok K -> settings_ok (sv_set sv) -> solver_convex sv ->
  solve K junk cp_bits (fun _ => false) sv = Ok (sv', status) ->
  status <> NUMERICS /\ sv_refine sv' = sv_refine sv.
Proof. exact solve_convex_never_numerics. Qed.
Print Assumptions C02_solve_convex_never_numerics.

Theorem C02_solve_after_setup_never_numerics : forall (K : Consts) (ident spc : bool) (junk : F) (cp_bits : Z) (SS : Settings)
    (n p m : nat) (B : Blocks) (sv sv' : Solver) (status : Status),
  consts_ok K -> settings_ok SS ->
  setup K ident spc junk SS n p m B = Ok sv ->
  wf_data (sv_data sv) -> DataShape (sv_data sv) -> P_psd (sv_data sv) ->
  solve K junk cp_bits (fun _ => false) sv = Ok (sv', status) ->
  status <> NUMERICS /\ sv_refine sv' = iterative_refinement_always_enabled SS.
Proof. exact solve_after_setup_never_numerics. Qed.
Print Assumptions C02_solve_after_setup_never_numerics.

Theorem C02_P_psd_scaled : forall (d0 d : Data) (c : F) (dl : Vec),
  d_n d = d_n d0 -> 0 <= c ->
  (forall i j, (i <= j)%nat -> (j < d_n d0)%nat ->
     mentry (d_P d) i j = c * nth i dl 0 * nth j dl 0 * mentry (d_P d0) i j) ->
  P_psd d0 -> P_psd d.
Proof. exact P_psd_scaled. Qed.
Print Assumptions C02_P_psd_scaled.

(* ---------------------------------------------------------------- no division by zero *)
Theorem C02_kkt_solve_err_kind : forall (SS : Settings) (d : Data) (k : KKT) (refine : bool)
    (rx ry rz rzlb rzub rs rslb rsub : Vec) (e : err),
  wf_data d -> wf_scal d k -> pos_scal d k -> (exists f, k_fact k = Some f) -> fact_pos k ->
  kkt_solve SS d k refine rx ry rz rzlb rzub rs rslb rsub = Err e -> idx_err e.
Proof. exact kkt_solve_err_kind. Qed.
Print Assumptions C02_kkt_solve_err_kind.

Theorem C02_kkt_update_scalings_err_kind : forall (d : Data) (kk : KKT) (rho delta : F) (s s_lb s_ub z z_lb z_ub : Vec) (e : err),
  wf_data d -> kkt_shape d kk -> 0 < rho -> 0 < delta -> iter_pos d s s_lb s_ub z z_lb z_ub ->
  kkt_update_scalings d kk rho delta s s_lb s_ub z z_lb z_ub = Err e -> idx_err e.
Proof. exact kkt_update_scalings_err_kind. Qed.
Print Assumptions C02_kkt_update_scalings_err_kind.

Theorem C02_regularize_and_factorize_pd_pos : forall (SS : Settings) (d : Data) (k : KKT) (refine : bool),
  kkt_pd k -> exists f, regularize_and_factorize SS d k refine false = Ok (k <| k_fact := Some f |>, true) /\
                        forall x, In x (f_D f) -> x <> 0.
Proof. exact regularize_and_factorize_pd_pos. Qed.
Print Assumptions C02_regularize_and_factorize_pd_pos.

Theorem C02_loop_pass_err_kind : forall (K : Consts) (SS : Settings) (d : Data) (pc : Precond) (cp : F -> F),
  0 < k_eps K -> wf_data d -> P_psd d ->
  forall (st : St) (e : err),
  ConvexInv d st -> loop_pass K SS d pc (fun _ => false) cp st = Err e -> idx_err e.
Proof. intros K SS d pc cp H1 H2 H3 st e. eapply loop_pass_err_kind; eauto. Qed.
Print Assumptions C02_loop_pass_err_kind.

Theorem C02_main_loop_no_divzero : forall (K : Consts) (SS : Settings) (d : Data) (pc : Precond) (cp : F -> F),
  cp_pos cp -> 0 < tau SS -> tau SS < 1 -> 0 < reg_finetune_lower_limit SS -> 0 < eps_abs SS ->
  0 < k_eps K -> 0 < k_retry_mul K -> 0 < k_reglim_mul K ->
  DataShape d -> wf_data d -> P_psd d ->
  forall (fuel : nat) (st : St) (e : err),
  ConvexInv d st -> main_loop K SS d pc (fun _ => false) cp fuel st = Err e -> e <> DivZero.
Proof. exact main_loop_no_divzero. Qed.
Print Assumptions C02_main_loop_no_divzero.

Theorem C02_setup_state_convex_pos : forall (junk : F) (sv : Solver),
  wf_data (sv_data sv) -> DataShape (sv_data sv) -> P_psd (sv_data sv) ->
  0 < rho_init (sv_set sv) -> 0 < delta_init (sv_set sv) ->
  kkt_init (sv_data sv) (rho_init (sv_set sv)) (delta_init (sv_set sv)) junk = Ok (sv_kkt sv) ->
  solver_convex_pos sv.
Proof. exact setup_state_convex_pos. Qed.
Print Assumptions C02_setup_state_convex_pos.

(* complete (not partial): every division site of solve() is covered *)
Theorem C02_solve_no_divzero_convex : forall (K : Consts) (junk : F) (cp_bits : Z) (sv : Solver) (e : err),
  consts_ok K -> settings_ok (sv_set sv) -> solver_convex_pos sv ->
  solve K junk cp_bits (fun _ => false) sv = Err e -> e <> DivZero.
Proof. exact solve_no_divzero_convex. Qed.
Print Assumptions C02_solve_no_divzero_convex.

(* ---------------------------------------------------------------- non-vacuity: the instance of InteriorExamples.v, real constants *)
Example C02_ex_consts_settings_ok : consts_ok consts /\ settings_ok InteriorExamples.ex_settings.
Proof. exact ex_consts_settings_ok. Qed.
Print Assumptions C02_ex_consts_settings_ok.

(* setup; solve evaluated by vm_compute: SOLVED (7 iterations); all hypotheses of the theorem hold for this object *)
Example C02_ex_solve_convex :
  match InteriorExamples.ex_sv_res with
  | Ok sv =>
      consts_ok consts /\ settings_ok (sv_set sv) /\ solver_convex sv /\
      exists sv', solve consts 0 16 (fun _ => false) sv = Ok (sv', SOLVED) /\ sv_refine sv' = sv_refine sv
  | Err _ => False
  end.
Proof. exact ex_solve_convex. Qed.
Print Assumptions C02_ex_solve_convex.

Example C02_ex_solver_convex_pos :
  match InteriorExamples.ex_sv_res with Ok sv => solver_convex_pos sv | Err _ => False end.
Proof. exact ex_solver_convex_pos. Qed.
Print Assumptions C02_ex_solver_convex_pos.
