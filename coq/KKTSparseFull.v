(* KKTSparseFull.v -- sparse/kkt_full.hpp (KKTImpl<.., KKT_FULL>) and the parts of sparse/kkt.hpp that assemble and refresh the
   stored matrix PKPt (init, update_scalings, update_kkt_box_scalings, regularize_kkt / unregularize_kkt), transcribed loop by loop.

   Executable Gallina over the CSC type of CSC.v.  Every array access goes through get/upd (Err Index when out of range) and every
   "index - 1" through [pred_chk] (Err Index on 0), so a run that returns Ok performed no out-of-bounds access.  Differences of
   outer-index entries (col_nnz = Ap[j+1] - Ap[j]) are natural-number subtractions: the model speaks about compressed matrices
   with a non-decreasing outer index (wf_csc), as Eigen guarantees.

   The fill-reducing ordering (Eigen's AMD) is not modelled: [init] receives the permutation it produced ([Some perm]) and applies
   ordering_init / permute_sym of CSC.v to it; [None] is the identity ordering without the permutation pass (PKPt = KKT,
   PKi = identity), the form used by the identity-ordering theorems of KKTSparseFullProofs.v. *)
From PIQP Require Import Base CSC.
Local Open Scope Qc_scope.

Definition pred_chk (x : nat) : res nat := match x with O => Err Index | S k => Ok k end.

(* ---------- sparse::Data, the fields read by the KKT code ---------- *)
Record sdata := mksdata {
  sd_n : nat; sd_p : nat; sd_m : nat;
  sd_P : csc F;                      (* P_utri : n x n, upper triangle *)
  sd_AT : csc F;                     (* n x p *)
  sd_GT : csc F;                     (* n x m *)
  sd_nlb : nat; sd_nub : nat;
  sd_lbidx : list nat; sd_ubidx : list nat;     (* x_lb_idx, x_ub_idx: head(n_lb) / head(n_ub) meaningful *)
  sd_lbs : Vec; sd_ubs : Vec                    (* x_lb_scaling, x_ub_scaling *)
}.

(* ---------- small loops shared by the three blocks ---------- *)
(* Eigen::Map<Vec>(dst + doff, len) = Eigen::Map<const Vec>(src + soff, len) *)
Definition copy_seg {V} (dst : list V) (doff : nat) (src : list V) (soff len : nat) : res (list V) :=
  for_range 0 len (fun i dst => do v <- get src (soff + i) ;; upd dst (doff + i) v) dst.

(* isize i = 0; for (k = lo; k < kk; k++) { map[k] = k_kkt + i; i++; } *)
Definition fill_map (map : list nat) (lo kk k_kkt : nat) : res (list nat) :=
  do '(_, map) <- for_range lo kk (fun k '(i, map) => do map <- upd map k (k_kkt + i)%nat ;; Ok (S i, map)) (0%nat, map) ;;
  Ok map.

(* ---------- create_kkt_matrix: counting pass ---------- *)
(* state: (non_zeros, j_kkt, KKT.outerIndexPtr) *)
Definition count_P (P : csc F) (st : nat * nat * list nat) : res (nat * nat * list nat) :=
  for_range 0 (ncols P) (fun j '(nz, jk, kp) =>
    do lo <- get (colptr P) j ;; do hi <- get (colptr P) (S j) ;;
    let col_nnz := (hi - lo)%nat in
    do col_nnz <- (if (0 <? col_nnz)%nat then
                     do q <- pred_chk hi ;; do last <- get (rowind P) q ;;
                     Ok (if (last =? j)%nat then col_nnz else S col_nnz)
                   else Ok (S col_nnz)) ;;
    let nz := (nz + col_nnz)%nat in
    do kp <- upd kp (S jk) nz ;;
    Ok (nz, S jk, kp)) st.

Definition count_rect (M : csc F) (st : nat * nat * list nat) : res (nat * nat * list nat) :=
  for_range 0 (ncols M) (fun j '(nz, jk, kp) =>
    do lo <- get (colptr M) j ;; do hi <- get (colptr M) (S j) ;;
    let nz := S (nz + (hi - lo)) in
    do kp <- upd kp (S jk) nz ;;
    Ok (nz, S jk, kp)) st.

(* ---------- create_kkt_matrix: copying pass ---------- *)
(* state: (j_kkt, KKT.innerIndexPtr, KKT.valuePtr, P_utri_to_Ki, P_diagonal) *)
Definition fill_P (P : csc F) (rho : F) (kp : list nat) (st : nat * list nat * Vec * list nat * Vec)
  : res (nat * list nat * Vec * list nat * Vec) :=
  for_range 0 (ncols P) (fun j '(jk, ki, kx, p2k, pdiag) =>
    do k_kkt <- get kp jk ;;
    do lo <- get (colptr P) j ;; do hi <- get (colptr P) (S j) ;;
    let col_nnz := (hi - lo)%nat in
    do ki <- copy_seg ki k_kkt (rowind P) lo col_nnz ;;
    do kx <- copy_seg kx k_kkt (vals P) lo col_nnz ;;
    do e <- get kp (S jk) ;;
    let kkt_col_nnz := (e - k_kkt)%nat in
    do q <- pred_chk (k_kkt + kkt_col_nnz) ;;
    do '(ki, kx, pdiag) <-
      (if (col_nnz <? kkt_col_nnz)%nat then
         do ki <- upd ki q jk ;; do kx <- upd kx q rho ;; Ok (ki, kx, pdiag)
       else
         do h1 <- pred_chk hi ;; do v <- get (vals P) h1 ;;
         do pdiag <- upd pdiag j v ;;
         do old <- get kx q ;; do kx <- upd kx q (old + rho) ;;
         Ok (ki, kx, pdiag)) ;;
    do p2k <- fill_map p2k lo hi k_kkt ;;
    Ok (S jk, ki, kx, p2k, pdiag)) st.

(* the AT and the GT loop of the source are the same text up to the names and the diagonal value *)
Definition fill_rect (M : csc F) (dval : F) (kp : list nat) (st : nat * list nat * Vec * list nat)
  : res (nat * list nat * Vec * list nat) :=
  for_range 0 (ncols M) (fun j '(jk, ki, kx, m2k) =>
    do k_kkt <- get kp jk ;;
    do lo <- get (colptr M) j ;; do hi <- get (colptr M) (S j) ;;
    let col_nnz := (hi - lo)%nat in
    do ki <- copy_seg ki k_kkt (rowind M) lo col_nnz ;;
    do kx <- copy_seg kx k_kkt (vals M) lo col_nnz ;;
    do ki <- upd ki (k_kkt + col_nnz) jk ;;
    do kx <- upd kx (k_kkt + col_nnz) dval ;;
    do m2k <- fill_map m2k lo hi k_kkt ;;
    Ok (S jk, ki, kx, m2k)) st.

(* result of init_workspace + create_kkt_matrix *)
Record kktmat := mkkktmat {
  km_K : csc F;
  km_P2K : list nat; km_Pdiag : Vec; km_AT2K : list nat; km_GT2K : list nat
}.

Definition nnz {V} (A : csc V) : nat := length (rowind A).

(* [fi], [fx]: what freshly resized index / value storage holds (every slot is overwritten: see create_kkt_full_filler_free) *)
Definition create_kkt_matrix_f (fi : nat) (fx : F) (d : sdata) (rho delta : F) : res kktmat :=
  let N := (sd_n d + sd_p d + sd_m d)%nat in
  (* init_workspace *)
  let p2k := repeat fi (nnz (sd_P d)) in
  let pdiag := repeat 0 (sd_n d) in
  let a2k := repeat fi (nnz (sd_AT d)) in
  let g2k := repeat fi (nnz (sd_GT d)) in
  (* SparseMat KKT(n_kkt, n_kkt): outer index zeroed *)
  do '(nz, jk, kp) <- count_P (sd_P d) (0%nat, 0%nat, repeat 0%nat (S N)) ;;
  do '(nz, jk, kp) <- count_rect (sd_AT d) (nz, jk, kp) ;;
  do '(nz, jk, kp) <- count_rect (sd_GT d) (nz, jk, kp) ;;
  (* KKT.resizeNonZeros(non_zeros) *)
  do '(jk, ki, kx, p2k, pdiag) <- fill_P (sd_P d) rho kp (0%nat, repeat fi nz, repeat fx nz, p2k, pdiag) ;;
  do '(jk, ki, kx, a2k) <- fill_rect (sd_AT d) (- delta) kp (jk, ki, kx, a2k) ;;
  do '(jk, ki, kx, g2k) <- fill_rect (sd_GT d) (- (1) - delta) kp (jk, ki, kx, g2k) ;;
  Ok (mkkktmat (mkcsc N N kp ki kx) p2k pdiag a2k g2k).

Definition create_kkt_matrix := create_kkt_matrix_f 0%nat 0.

(* ---------- sparse::KKT<T, I, KKT_FULL>: the assembly state ---------- *)
Record skkt := mkskkt {
  fk_rho : F; fk_delta : F;
  fk_s : Vec; fk_s_lb : Vec; fk_s_ub : Vec;
  fk_z_inv : Vec; fk_z_lb_inv : Vec; fk_z_ub_inv : Vec;
  fk_pinv : list nat;                 (* ordering.inv *)
  fk_kp : list nat; fk_ki : list nat; (* PKPt: outer index, inner index (never change after init) *)
  fk_kx : Vec;                        (* PKPt: values *)
  fk_PKi : list nat;
  fk_P2K : list nat; fk_Pdiag : Vec; fk_AT2K : list nat; fk_GT2K : list nat
}.
(* kkt_diag (scratch storage of regularize_kkt / unregularize_kkt) is not part of the state: regularize_kkt returns it *)

Definition fk_N (d : sdata) : nat := (sd_n d + sd_p d + sd_m d)%nat.
Definition fk_PKPt (d : sdata) (k : skkt) : csc F := mkcsc (fk_N d) (fk_N d) (fk_kp k) (fk_ki k) (fk_kx k).

Definition set_kx (k : skkt) (kx : Vec) : skkt :=
  mkskkt (fk_rho k) (fk_delta k) (fk_s k) (fk_s_lb k) (fk_s_ub k) (fk_z_inv k) (fk_z_lb_inv k) (fk_z_ub_inv k)
         (fk_pinv k) (fk_kp k) (fk_ki k) kx (fk_PKi k) (fk_P2K k) (fk_Pdiag k) (fk_AT2K k) (fk_GT2K k).
Definition set_kx_pdiag (k : skkt) (kx pdiag : Vec) : skkt :=
  mkskkt (fk_rho k) (fk_delta k) (fk_s k) (fk_s_lb k) (fk_s_ub k) (fk_z_inv k) (fk_z_lb_inv k) (fk_z_ub_inv k)
         (fk_pinv k) (fk_kp k) (fk_ki k) kx (fk_PKi k) (fk_P2K k) pdiag (fk_AT2K k) (fk_GT2K k).

(* PKPt.outerIndexPtr()[ordering.inv(col) + 1] - 1 *)
Definition dpos (pinv kp : list nat) (col : nat) : res nat :=
  do c <- get pinv col ;; do e <- get kp (S c) ;; pred_chk e.

(* update_kkt_cost_scalings *)
Definition cost_scalings (pinv kp : list nat) (n : nat) (pdiag : Vec) (rho : F) (kx : Vec) : res Vec :=
  for_range 0 n (fun col kx => do q <- dpos pinv kp col ;; do pd <- get pdiag col ;; upd kx q (pd + rho)) kx.

(* update_kkt_equality_scalings *)
Definition equality_scalings (pinv kp : list nat) (n p : nat) (delta : F) (kx : Vec) : res Vec :=
  for_range n (n + p) (fun col kx => do q <- dpos pinv kp col ;; upd kx q (- delta)) kx.

(* update_kkt_inequality_scaling *)
Definition inequality_scalings (pinv kp : list nat) (n p m : nat) (s zinv : Vec) (delta : F) (kx : Vec) : res Vec :=
  do '(_, kx) <- for_range (n + p) (n + p + m) (fun col '(k, kx) =>
      do q <- dpos pinv kp col ;;
      do sk <- get s k ;; do zk <- get zinv k ;;
      do kx <- upd kx q (- sk * zk - delta) ;;
      Ok (S k, kx)) (0%nat, kx) ;;
  Ok kx.

(* one of the two loops of update_kkt_box_scalings *)
Definition box_scalings (pinv kp : list nat) (nb : nat) (idx : list nat) (sc zinv s : Vec) (delta : F) (kx : Vec) : res Vec :=
  for_range 0 nb (fun i kx =>
    do col <- get idx i ;;
    do q <- dpos pinv kp col ;;
    do sci <- get sc i ;; do zi <- get zinv i ;; do si <- get s i ;;
    do t <- qdiv (sci * sci) (zi * si + delta) ;;
    do old <- get kx q ;;
    upd kx q (old + t)) kx.

Definition update_kkt_box_scalings (d : sdata) (k : skkt) (kx : Vec) : res Vec :=
  do kx <- box_scalings (fk_pinv k) (fk_kp k) (sd_nlb d) (sd_lbidx d) (sd_lbs d) (fk_z_lb_inv k) (fk_s_lb k) (fk_delta k) kx ;;
  box_scalings (fk_pinv k) (fk_kp k) (sd_nub d) (sd_ubidx d) (sd_ubs d) (fk_z_ub_inv k) (fk_s_ub k) (fk_delta k) kx.

Definition update_kkt_cost_scalings (d : sdata) (k : skkt) (kx : Vec) : res Vec :=
  cost_scalings (fk_pinv k) (fk_kp k) (sd_n d) (fk_Pdiag k) (fk_rho k) kx.
Definition update_kkt_equality_scalings (d : sdata) (k : skkt) (kx : Vec) : res Vec :=
  equality_scalings (fk_pinv k) (fk_kp k) (sd_n d) (sd_p d) (fk_delta k) kx.
Definition update_kkt_inequality_scaling (d : sdata) (k : skkt) (kx : Vec) : res Vec :=
  inequality_scalings (fk_pinv k) (fk_kp k) (sd_n d) (sd_p d) (sd_m d) (fk_s k) (fk_z_inv k) (fk_delta k) kx.

(* the four calls at the end of update_scalings, on the scalings stored in [k] *)
Definition refresh_scalings (d : sdata) (k : skkt) : res skkt :=
  do kx <- update_kkt_cost_scalings d k (fk_kx k) ;;
  do kx <- update_kkt_equality_scalings d k kx ;;
  do kx <- update_kkt_inequality_scaling d k kx ;;
  do kx <- update_kkt_box_scalings d k kx ;;
  Ok (set_kx k kx).

(* the scalings as the object stores them: z already inverted *)
Record scal := mkscal {
  sc_rho : F; sc_delta : F; sc_s : Vec; sc_s_lb : Vec; sc_s_ub : Vec; sc_z_inv : Vec; sc_z_lb_inv : Vec; sc_z_ub_inv : Vec
}.
Definition set_scal (k : skkt) (c : scal) : skkt :=
  mkskkt (sc_rho c) (sc_delta c) (sc_s c) (sc_s_lb c) (sc_s_ub c) (sc_z_inv c) (sc_z_lb_inv c) (sc_z_ub_inv c)
         (fk_pinv k) (fk_kp k) (fk_ki k) (fk_kx k) (fk_PKi k) (fk_P2K k) (fk_Pdiag k) (fk_AT2K k) (fk_GT2K k).
Definition scal_of (k : skkt) : scal :=
  mkscal (fk_rho k) (fk_delta k) (fk_s k) (fk_s_lb k) (fk_s_ub k) (fk_z_inv k) (fk_z_lb_inv k) (fk_z_ub_inv k).
Definition unit_scal (d : sdata) (rho delta : F) : scal :=
  mkscal rho delta (vconst (sd_m d) 1)
         (vconst (sd_nlb d) 1 ++ vconst (sd_n d - sd_nlb d) 0) (vconst (sd_nub d) 1 ++ vconst (sd_n d - sd_nub d) 0)
         (vconst (sd_m d) 1)
         (vconst (sd_nlb d) 1 ++ vconst (sd_n d - sd_nlb d) 0) (vconst (sd_nub d) 1 ++ vconst (sd_n d - sd_nub d) 0).

Definition apply_scalings (d : sdata) (k : skkt) (c : scal) : res skkt := refresh_scalings d (set_scal k c).

(* KKT::update_scalings *)
Definition chk_len {A} (n : nat) (v : list A) : res unit := if (length v <? n)%nat then Err Index else Ok tt.
Definition update_scalings (d : sdata) (k : skkt) (rho delta : F) (s s_lb s_ub z z_lb z_ub : Vec) : res skkt :=
  do _ <- chk_len (sd_nlb d) s_lb ;; do _ <- chk_len (sd_nlb d) z_lb ;;
  do _ <- chk_len (sd_nub d) s_ub ;; do _ <- chk_len (sd_nub d) z_ub ;;
  do zi <- vinv z ;; do zlbi <- vinv (head (sd_nlb d) z_lb) ;; do zubi <- vinv (head (sd_nub d) z_ub) ;;
  apply_scalings d k (mkscal rho delta s
                        (set_head (head (sd_nlb d) s_lb) (fk_s_lb k)) (set_head (head (sd_nub d) s_ub) (fk_s_ub k))
                        zi
                        (set_head zlbi (fk_z_lb_inv k)) (set_head zubi (fk_z_ub_inv k))).

(* KKT::init.  [ord = None]: identity ordering, no permutation pass.  [ord = Some perm]: perm is what the ordering produced. *)
Definition init (d : sdata) (rho delta : F) (ord : option (list nat)) : res skkt :=
  let N := fk_N d in
  let c := unit_scal d rho delta in
  do km <- create_kkt_matrix d rho delta ;;
  do '(pinv, C, pki) <-
    match ord with
    | None => Ok (seq 0 N, km_K km, seq 0 (nnz (km_K km)))
    | Some perm => do o <- ordering_init perm ;;
                   do '(C, a2c) <- permute_sym 0 (km_K km) (oPinv o) ;;
                   Ok (oPinv o, C, a2c)
    end ;;
  let k := mkskkt (sc_rho c) (sc_delta c) (sc_s c) (sc_s_lb c) (sc_s_ub c) (sc_z_inv c) (sc_z_lb_inv c) (sc_z_ub_inv c)
                  pinv (colptr C) (rowind C) (vals C) pki
                  (km_P2K km) (km_Pdiag km) (km_AT2K km) (km_GT2K km) in
  do kx <- update_kkt_box_scalings d k (fk_kx k) ;;
  Ok (set_kx k kx).

(* ---------- update_data(options) ---------- *)
Definition scatter_vals (m2k pki : list nat) (src : Vec) (cnt : nat) (kx : Vec) : res Vec :=
  for_range 0 cnt (fun k kx =>
    do q0 <- get m2k k ;; do q <- get pki q0 ;; do v <- get src k ;; upd kx q v) kx.

Definition update_P_vals (P : csc F) (p2k pki : list nat) (st : Vec * Vec) : res (Vec * Vec) :=
  for_range 0 (ncols P) (fun j st =>
    do lo <- get (colptr P) j ;; do kk <- get (colptr P) (S j) ;;
    for_range lo kk (fun k '(kx, pdiag) =>
      do q0 <- get p2k k ;; do q <- get pki q0 ;; do v <- get (vals P) k ;;
      do kx <- upd kx q v ;;
      do r <- get (rowind P) k ;;
      do pdiag <- (if (j =? r)%nat then upd pdiag j v else Ok pdiag) ;;
      Ok (kx, pdiag)) st) st.

(* the three branches of update_data *)
Definition update_data_P (d : sdata) (k : skkt) : res skkt :=
  do '(kx, pdiag) <- update_P_vals (sd_P d) (fk_P2K k) (fk_PKi k) (fk_kx k, fk_Pdiag k) ;;
  let k := set_kx_pdiag k kx pdiag in
  do kx <- update_kkt_cost_scalings d k (fk_kx k) ;;
  do kx <- update_kkt_box_scalings d k kx ;;
  Ok (set_kx k kx).
Definition update_data_A (d : sdata) (k : skkt) : res skkt :=
  do kx <- scatter_vals (fk_AT2K k) (fk_PKi k) (vals (sd_AT d)) (nnz (sd_AT d)) (fk_kx k) ;; Ok (set_kx k kx).
Definition update_data_G (d : sdata) (k : skkt) : res skkt :=
  do kx <- scatter_vals (fk_GT2K k) (fk_PKi k) (vals (sd_GT d)) (nnz (sd_GT d)) (fk_kx k) ;; Ok (set_kx k kx).

(* options: KKT_UPDATE_P = 1, KKT_UPDATE_A = 2, KKT_UPDATE_G = 4 *)
Definition update_data (d : sdata) (k : skkt) (options : nat) : res skkt :=
  do k <- (if Nat.testbit options 0 then update_data_P d k else Ok k) ;;
  do k <- (if Nat.testbit options 1 then update_data_A d k else Ok k) ;;
  do k <- (if Nat.testbit options 2 then update_data_G d k else Ok k) ;;
  Ok k.

(* ---------- regularize_kkt / unregularize_kkt ---------- *)
(* [kd0]: the previous content of kkt_diag (every slot is overwritten) *)
Definition regularize_kkt (d : sdata) (k : skkt) (reg : F) (kd0 : Vec) : res (skkt * Vec) :=
  let N := fk_N d in
  do kd <- for_range 0 N (fun col kd => do e <- get (fk_kp k) (S col) ;; do q <- pred_chk e ;; do v <- get (fk_kx k) q ;; upd kd col v)
             kd0 ;;
  let rho_reg := qmax 0 (reg - fk_rho k) in
  do kx <- for_range 0 (sd_n d) (fun col kx =>
             do q <- dpos (fk_pinv k) (fk_kp k) col ;; do old <- get kx q ;; upd kx q (old + rho_reg)) (fk_kx k) ;;
  let delta_reg := qmax 0 (reg - fk_delta k) in
  do kx <- for_range (sd_n d) N (fun col kx =>
             do q <- dpos (fk_pinv k) (fk_kp k) col ;; do old <- get kx q ;; upd kx q (old - delta_reg)) kx ;;
  Ok (set_kx k kx, kd).

Definition unregularize_kkt (d : sdata) (k : skkt) (kd : Vec) : res skkt :=
  do kx <- for_range 0 (fk_N d) (fun col kx =>
             do e <- get (fk_kp k) (S col) ;; do q <- pred_chk e ;; do v <- get kd col ;; upd kx q v) (fk_kx k) ;;
  Ok (set_kx k kx).
