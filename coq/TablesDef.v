(** Types of the binding tables regenerated from /repo by tools/gen_tables.py (-> gen/Tables.v).
    Definitions only.  Used by C17 (all bindings) and the table part of C16 (C API). *)
From Coq Require Import String List ZArith Bool.
Import ListNotations.
Open Scope string_scope.

(** normalised default value of a settings field (code initialiser or documentation cell) *)
Inductive dval :=
| DBool (b : bool)
| DNum (num : Z) (den : positive)   (* exact rational value of the double/integer literal, lowest terms *)
| DEps2                             (* machine epsilon squared *)
| DNone                             (* no initialiser *)
| DOther (raw : string).            (* anything else, compared textually *)

(** a declared field: core struct member, C struct member, .pyi attribute or documentation row *)
Record cfield := { cf_name : string; cf_type : string; cf_default : dval; cf_line : nat }.

(** one assignment / registration that connects a binding-side name [w_ext] with a core field [w_core].
    [w_conv] is the normalised conversion wrapped around the value (cast, accessor, registration kind). *)
Record wire := { w_ext : string; w_core : string; w_conv : string; w_line : nat }.

Record enumv := { e_name : string; e_val : Z; e_line : nat }.

Record Tables := {
  (* core: include/piqp/settings.hpp, include/piqp/results.hpp *)
  core_settings : list cfield;
  core_info : list cfield;
  core_result : list cfield;
  core_status : list enumv;
  core_status_str : list wire;        (* status_to_string: w_ext = returned text, w_core = enumerator *)
  (* C: interfaces/c/include/piqp_typedef.h, interfaces/c/src/piqp.cpp *)
  c_settings : list cfield;
  c_info : list cfield;
  c_result : list cfield;
  c_status : list enumv;
  c_result_out : list wire;           (* piqp_update_result: result->x = solver_result.x.data() *)
  c_info_out : list wire;             (* piqp_update_result: result->info.f = solver_result.info.f *)
  c_settings_out : list wire;         (* piqp_set_default_settings *)
  c_settings_in_dense : list wire;    (* piqp_update_settings, dense branch: w_core is the assigned solver field *)
  c_settings_in_sparse : list wire;   (* piqp_update_settings, sparse branch *)
  (* pybind11: interfaces/python/src/piqp_python.cpp *)
  py_settings : list wire;
  py_info : list wire;
  py_result : list wire;
  py_status : list wire;
  (* stub: interfaces/python/piqp/__init__.pyi *)
  pyi_settings : list cfield;
  pyi_info : list cfield;
  pyi_result : list cfield;
  pyi_status_class : list enumv;
  pyi_status_members : list enumv;
  pyi_status_module : list enumv;
  (* Matlab: interfaces/matlab/piqp_mex.cpp *)
  mex_settings_fields : list string;
  mex_info_fields : list string;
  mex_result_fields : list string;
  mex_settings_out : list wire;
  mex_settings_in : list wire;
  mex_info_out : list wire;
  mex_result_out : list wire;
  (* Octave: interfaces/octave/piqp_oct.cpp *)
  oct_settings_out : list wire;
  oct_settings_in : list wire;
  oct_info_out : list wire;
  oct_result_out : list wire;
  (* documentation: docs/interfaces/settings.md, docs/_common/status_code_table.md *)
  doc_settings : list cfield;
  doc_status : list enumv
}.
