(* Properties_C14_perm_sorted.v -- order of the result of permute_sparse_symmetric_matrix (all sizes) and its consequences:
   the diagonal-last addressing used by the permuted KKT update loops, the decidable check perm_addr_okb of
   KKTSparseFullPerm.v as a THEOREM, and the permuted assembly theorems of C13 without that hypothesis.
   Proof files: PermuteSortedProofs (the kernel is two STABLE counting sorts), PermAddrProofs, PermAddrKKTProofs.
   Exact conditions: rows inside a column of the result never decrease, for every admissible input (well formed, square, upper
   triangular; unsorted / repeated entries allowed) and every permutation; they increase strictly iff no column of the input
   repeats a row index (stated as a hypothesis); entries with the same (row, column) keep their relative order.  The
   diagonal-last property and perm_addr_okb need NO no-duplicate hypothesis (stability replaces it). *)
From PIQP Require Import Base CSC C14LemmasProofs CSCProofs PermuteProofs LinAlg KKTProofs KKTSparseFull KKTSparseFullProofs KKTSparseFullPerm
  KKTSparseFullPermProofs KKTSparseAll KKTSparseAllTrProofs KKTSparseAllProofs KKTSparseAllDataProofs KKTSparseAllPermProofs
  PermuteSortedProofs PermAddrProofs PermAddrKKTProofs.
Local Open Scope nat_scope.

(* ===== C14: the columns of C = permute_sym A are sorted ===== *)
Theorem C14_permute_sym_sorted :
  forall (V : Type) (d : V) (A : csc V) (P : list nat),
    wf_csc A = true -> ncols A = nrows A -> upper_only A = true -> perm_wf P -> length P = nrows A ->
    exists o C a2c, ordering_init P = Ok o /\ permute_sym d A (oPinv o) = Ok (C, a2c) /\
      nrows C = nrows A /\ ncols C = nrows A /\ wf_csc C = true /\ upper_only C = true /\
      (forall c q1 q2, c < nrows A -> nth c (colptr C) 0 <= q1 -> q1 < q2 -> q2 < nth (S c) (colptr C) 0 ->
         nth q1 (rowind C) 0 <= nth q2 (rowind C) 0) /\
      (forall j k1 k2, j < nrows A -> nth j (colptr A) 0 <= k1 -> k1 < k2 -> k2 < nth (S j) (colptr A) 0 ->
         nth k1 (rowind A) 0 = nth k2 (rowind A) 0 -> nth k1 a2c 0 < nth k2 a2c 0) /\
      ((forall j p1 p2, j < ncols A ->
          nth j (colptr A) 0 <= p1 < nth (S j) (colptr A) 0 -> nth j (colptr A) 0 <= p2 < nth (S j) (colptr A) 0 ->
          nth p1 (rowind A) 0 = nth p2 (rowind A) 0 -> p1 = p2) ->
       forall c q1 q2, c < nrows A -> nth c (colptr C) 0 <= q1 -> q1 < q2 -> q2 < nth (S c) (colptr C) 0 ->
         nth q1 (rowind C) 0 < nth q2 (rowind C) 0).
Proof. exact @permute_sym_sorted_full. Qed.
Print Assumptions C14_permute_sym_sorted.

(* if A stores its diagonal (anywhere in the column), the LAST stored entry of every column of C is the diagonal entry *)
Theorem C14_permute_sym_diag_last :
  forall (V : Type) (d : V) (A : csc V) (P : list nat),
    wf_csc A = true -> ncols A = nrows A -> upper_only A = true -> perm_wf P -> length P = nrows A ->
    (forall j, j < nrows A -> exists k, nth j (colptr A) 0 <= k < nth (S j) (colptr A) 0 /\ nth k (rowind A) 0 = j) ->
    exists o C a2c, ordering_init P = Ok o /\ permute_sym d A (oPinv o) = Ok (C, a2c) /\ ncols C = nrows A /\ diag_is_last C.
Proof. exact @permute_sym_diag_last_full. Qed.
Print Assumptions C14_permute_sym_diag_last.

(* ===== C13: the boolean hypothesis of the permuted assembly theorems is a theorem =====
   for every well-formed square upper-triangular diagonal-last pattern (repeated entries allowed) and every permutation *)
Theorem C13_perm_addr_ok :
  forall (V : Type) (K : csc V) (perm : list nat),
    wf_csc K = true -> ncols K = nrows K -> upper_only K = true -> diag_is_last K ->
    perm_wf perm -> length perm = nrows K ->
    perm_addr_okb (nrows K) (colptr K) (rowind K) perm = true.
Proof. exact @perm_addr_ok_full. Qed.
Print Assumptions C13_perm_addr_ok.

(* ===== C13, KKT_FULL under an arbitrary ordering, WITHOUT the check (replaces C13_init_full_perm_partial; the theorems
   C13_perm_img_denotes_partial / C13_update_scalings_full_perm_partial / C13_update_data_full_perm_partial take perm_img as
   hypothesis, which this theorem now provides for every permutation) ===== *)
Theorem C13_init_full_perm : forall (d : sdata), wf_sdata d -> upper_only (sd_P d) = true ->
  forall (rho delta : F) (perm : list nat),
  scal_ok d (unit_scal d rho delta) -> perm_wf perm -> length perm = sd_n d + sd_p d + sd_m d ->
  exists kid kp, init d rho delta None = Ok kid /\ init d rho delta (Some perm) = Ok kp /\
                 fresh_form d (unit_scal d rho delta) kid /\ perm_img d perm kid kp.
Proof. exact init_full_perm. Qed.
Print Assumptions C13_init_full_perm.

Theorem C13_full_perm_denotes : forall (d : sdata), wf_sdata d -> upper_only (sd_P d) = true ->
  forall (rho delta : F) (perm : list nat),
  scal_ok d (unit_scal d rho delta) -> perm_wf perm -> length perm = sd_n d + sd_p d + sd_m d ->
  exists kp, init d rho delta (Some perm) = Ok kp /\
    let N := sd_n d + sd_p d + sd_m d in
    let pv := fun i => nth i (fk_pinv kp) 0 in
    wf_csc (fk_PKPt d kp) = true /\ diag_is_last (fk_PKPt d kp) /\
    (forall i, i < N -> pv i < N) /\ (forall i i', i < N -> i' < N -> pv i = pv i' -> i = i') /\
    forall i j, i <= j -> j < N ->
      csc_get (fk_PKPt d kp) (Nat.min (pv i) (pv j)) (Nat.max (pv i) (pv j)) = Kfull (sys_sparse d (unit_scal d rho delta)) i j.
Proof. exact init_full_perm_denotes. Qed.
Print Assumptions C13_full_perm_denotes.

(* ===== C13, KKT_ALL_ELIMINATED under an arbitrary ordering, WITHOUT the check (replaces C13_all_perm_init_partial) ===== *)
Theorem C13_all_perm_init : forall (d : sdata), wf_sdata d -> upper_only (sd_P d) = true -> sorted_colsb (sd_P d) = true ->
  forall (rho delta : F) (perm : list nat),
  delta <> 0%Qc -> (1 + delta)%Qc <> 0%Qc -> scal_ok d (unit_scal d rho delta) ->
  perm_wf perm -> length perm = sd_n d ->
  exists kid kp, all_init d rho delta None = Ok kid /\ all_init d rho delta (Some perm) = Ok kp /\
                 all_form d (unit_scal d rho delta) kid /\ all_perm_img (sd_n d) perm kid kp.
Proof. exact all_init_perm_total. Qed.
Print Assumptions C13_all_perm_init.

Theorem C13_all_perm_form_denotes : forall (d : sdata), wf_sdata d -> upper_only (sd_P d) = true -> sorted_colsb (sd_P d) = true ->
  forall (rho delta : F) (perm : list nat),
  delta <> 0%Qc -> (1 + delta)%Qc <> 0%Qc -> scal_ok d (unit_scal d rho delta) ->
  perm_wf perm -> length perm = sd_n d ->
  exists kp, all_init d rho delta (Some perm) = Ok kp /\
    let Kp := mkcsc (sd_n d) (sd_n d) (ak_kp kp) (ak_ki kp) (ak_kx kp) in
    let pv := fun i => nth i (ak_pinv kp) 0 in
    wf_csc Kp = true /\ upper_only Kp = true /\ diag_is_last Kp /\
    length (ak_pinv kp) = sd_n d /\ (forall i, i < sd_n d -> pv i < sd_n d) /\
    (forall i i', i < sd_n d -> i' < sd_n d -> pv i = pv i' -> i = i') /\
    forall i j, i <= j -> j < sd_n d ->
      csc_get Kp (Nat.min (pv i) (pv j)) (Nat.max (pv i) (pv j)) = a_Kred (sys_sparse d (unit_scal d rho delta)) i j.
Proof. exact all_init_perm_denotes. Qed.
Print Assumptions C13_all_perm_form_denotes.

(* ===== non-vacuity ===== *)
(* a 6x6 upper pattern with the diagonal stored last, unsorted rows before it, and the permutation (3,0,5,1,4,2) *)
Definition sK6 : csc nat :=
  (* columns: 0:{0}  1:{0,1}  2:{2}  3:{1,0,3}  4:{2,1,4}  5:{3,5} *)
  mkcsc 6 6 [0; 1; 3; 4; 7; 10; 12] [0; 0; 1; 2; 1; 0; 3; 2; 1; 4; 3; 5] (seq 0 12).
Definition sP6 : list nat := [3; 0; 5; 1; 4; 2].

Example ex_sorted_hyps :
  wf_csc sK6 = true /\ ncols sK6 = nrows sK6 /\ upper_only sK6 = true /\ diag_is_last sK6 /\ perm_wf sP6 /\ length sP6 = nrows sK6.
Proof.
  split; [vm_compute; reflexivity|]. split; [reflexivity|]. split; [vm_compute; reflexivity|]. split; [|split; [|reflexivity]].
  - intros j Hj. cbn [ncols sK6] in Hj. unfold cp.
    assert (Hc : j = 0 \/ j = 1 \/ j = 2 \/ j = 3 \/ j = 4 \/ j = 5) by lia.
    destruct Hc as [->|[->|[->|[->|[->| ->]]]]]; vm_compute; split; auto.
  - split. repeat constructor; simpl; intuition lia. simpl. intuition lia.
Qed.

(* the run agrees with the theorems: sorted columns, the check evaluates to true *)
Example ex_sorted_run :
  match ordering_init sP6 with
  | Ok o => match permute_sym 12 sK6 (oPinv o) with
            | Ok (C, a2c) => sorted_cols (colptr C) (rowind C) 6 && perm_addr_okb 6 (colptr sK6) (rowind sK6) sP6
            | Err _ => false end
  | Err _ => false
  end = true.
Proof. vm_compute. reflexivity. Qed.
