(** C05, SparseSolver::update: the statement order the source has NOW (gen/Events.v, regenerated from
    /repo/include/piqp/solver.hpp by tools/gen_events.py on every run) puts every rejection before every state change,
    and every rejection reports.  Decided by computation on the regenerated list; the consequence for every run of
    the interpreter follows by the general theorem T1 (Properties_C05.v). *)
From Coq Require Import String List Bool.
From PIQP Require Import Events EventsProofs.
From PIQP.gen Require Import Events.
Import ListNotations.
Open Scope string_scope.
Open Scope list_scope.

Theorem update_sparse_checks_first : call_checks_first gen_update_sparse_segments = true.
Proof. vm_compute. reflexivity. Qed.
Print Assumptions update_sparse_checks_first.

(** hence: whatever the state, the meaning of the mutations, the arguments present, the sizes and the settings (the
    oracle) and the number of loop iterations -- a rejected call returns the state it was given and has reported;
    an accepted call runs every active mutation in order *)
Theorem update_sparse_rejected_call_unchanged :
  forall (St : Type) (apply : string -> St -> St) (k : nat) (o : oracle St) (s : St),
    (rejected (run_call St apply o (unroll k gen_update_sparse_segments) s) = true ->
       state (run_call St apply o (unroll k gen_update_sparse_segments) s) = s /\
       log (run_call St apply o (unroll k gen_update_sparse_segments) s) <> []) /\
    (rejected (run_call St apply o (unroll k gen_update_sparse_segments) s) = false ->
       state (run_call St apply o (unroll k gen_update_sparse_segments) s) = exec_all St apply o (unroll k gen_update_sparse_segments) 0 s).
Proof. exact (rejected_call_unchanged gen_update_sparse_segments update_sparse_checks_first). Qed.
Print Assumptions update_sparse_rejected_call_unchanged.

(** before setup(): the first guard of the call is the set-up test (leaving the API call) and nothing executed before it
    mentions the problem data, the result, the KKT object or the preconditioner -- Data::{n,p,m,n_lb,n_ub} and Info are
    not initialised by the constructor, so nothing may be sized or indexed with them before the test.  (Textual
    condition on the regenerated list; the run-time half of this clause is the 0x5a / sanitizer run of the twin driver.) *)
Theorem update_sparse_setup_checked_first :
  exists pre id cond reps gm rest,
    unroll 1 gen_update_sparse_segments = pre ++ Guard id "setup" cond None reps gm :: rest /\ Forall harmless_before_setup pre.
Proof. apply setup_checked_first_spec. vm_compute. reflexivity. Qed.
Print Assumptions update_sparse_setup_checked_first.

(** non-vacuity: the regenerated list does contain rejections and state changes, and there is an oracle under which
    the call is rejected *)
Example update_sparse_nontrivial :
  has_guard (unroll 1 gen_update_sparse_segments) = true /\ has_mut (unroll 1 gen_update_sparse_segments) = true /\
  exists o : oracle nat, rejected (run_call nat (fun _ n => S n) o (unroll 1 gen_update_sparse_segments) 0) = true.
Proof.
  split; [vm_compute; reflexivity|]. split; [vm_compute; reflexivity|].
  exists (Build_oracle (fun _ _ => true) (fun _ _ => true)). vm_compute. reflexivity.
Qed.
