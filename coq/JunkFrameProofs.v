(* JunkFrameProofs.v -- C07: frame properties of solve() on the KKT object.
   Any property of the KKT object that is kept by kkt_update_scalings and by regularize_and_factorize is kept by
   solve(); in particular solve() never writes the box arrays beyond n_lb / n_ub and never changes their lengths. *)
From PIQP Require Import Base Data Bounds PrecondDense KKTDense IPM API InteriorProofs IPMControlProofs.
From Coq Require Import Lia.
From RecordUpdate Require Import RecordSet.
Import RecordSetNotations.
Local Open Scope Qc_scope.

Ltac wpk_step :=
  cbv beta;
  lazymatch goal with
  | |- wp (let x := ?e in @?b x) ?Q => let y := fresh x in pose (y := e); change (wp (b y) Q); cbv beta
  | |- wp (bind ?e _) _ =>
      apply wp_bind; let v := fresh "v" in let E := fresh "E" in
      destruct e as [v|] eqn:E; [apply wp_ok_intro; cbv beta | exact I]
  | |- wp (if ?c then _ else _) _ => destruct c
  | |- wp (match ?p with pair _ _ => _ end) _ => destruct p
  | |- wp (Ok _) _ => apply wp_ok_intro; cbv beta
  end.

Section KInv.
Variable K : Consts.
Variable S : Settings.
Variable d : Data.
Variable pc : Precond.
Variable fault : nat -> bool.
Variable cp : F -> F.
Variable P : KKT -> Prop.
Hypothesis P_scal : forall k rho delta s s_lb s_ub z z_lb z_ub k',
  kkt_update_scalings d k rho delta s s_lb s_ub z z_lb z_ub = Ok k' -> P k -> P k'.
Hypothesis P_fact : forall k refine flt k' ok,
  regularize_and_factorize S d k refine flt = Ok (k', ok) -> P k -> P k'.

Lemma do_update_scalings_P st st' : do_update_scalings d st = Ok st' -> P (st_kkt st) -> P (st_kkt st').
Proof.
  unfold do_update_scalings. intros E HP.
  destruct (kkt_update_scalings d (st_kkt st) _ _ _ _ _ _ _ _) as [k|] eqn:Ek; cbn [bind] in E; [|discriminate].
  injection E as <-. cbn. eapply P_scal; eauto.
Qed.

Lemma do_factorize_P st st' ok : do_factorize S d fault st = Ok (st', ok) -> P (st_kkt st) -> P (st_kkt st').
Proof.
  unfold do_factorize. intros E HP.
  destruct (regularize_and_factorize S d (st_kkt st) _ _) as [[k ok']|] eqn:Ek; cbn [bind] in E; [|discriminate].
  injection E as <- <-. cbn. eapply P_fact; eauto.
Qed.

Lemma init_factor_P fuel : forall st st' ok,
  init_factor K S d fault fuel st = Ok (st', ok) -> P (st_kkt st) -> P (st_kkt st').
Proof.
  induction fuel as [|f IH]; intros st st' ok H HP; cbn [init_factor] in H; [discriminate|].
  destruct (do_factorize S d fault st) as [[st1 ok1]|] eqn:E; cbn [bind] in H; [|discriminate].
  pose proof (do_factorize_P _ _ _ E HP) as HP1.
  destruct ok1; [injection H as <- <-; exact HP1|].
  destruct (negb (st_refine st1)); [eapply IH; [exact H|exact HP1]|].
  destruct (i_factor_retires (st_inf st1) <? max_factor_retires S)%Z.
  - destruct (do_update_scalings d _) as [st2|] eqn:E2; cbn [bind] in H; [|discriminate].
    eapply IH; [exact H|]. eapply do_update_scalings_P; [exact E2|exact HP1].
  - injection H as <- <-. exact HP1.
Qed.

Lemma initial_point_kkt st st' : initial_point K S d cp st = Ok st' -> st_kkt st' = st_kkt st.
Proof.
  intros E. apply (wp_elim _ (fun st' => st_kkt st' = st_kkt st) _) in E; [exact E|].
  cbv delta [initial_point]. repeat wpk_step. all: reflexivity.
Qed.

Lemma loop_pass_P st : P (st_kkt st) -> wp (loop_pass K S d pc fault cp st) (fun o => P (st_kkt (outcome_state o))).
Proof.
  intros HP. cbv delta [loop_pass]. cbv beta.
  repeat wpk_step.
  all: cbn [outcome_state].
  all: try exact HP.
  all: match goal with
       | E4 : do_update_scalings d _ = Ok ?v4, E5 : do_factorize S d fault ?v4 = Ok (?s5, _) |- _ =>
           pose proof (do_factorize_P _ _ _ E5 (do_update_scalings_P _ _ E4 HP)) as HP5
       end.
  all: exact HP5.
Qed.

Lemma main_loop_P fuel : forall st st',
  main_loop K S d pc fault cp fuel st = Ok st' -> P (st_kkt st) -> P (st_kkt st').
Proof.
  induction fuel as [|f IH]; intros st st' E HP; cbn [main_loop] in E; [discriminate|].
  destruct (i_iter (st_inf st) <? max_iter S)%Z.
  - destruct (loop_pass K S d pc fault cp st) as [o|] eqn:E0; cbn [bind] in E; [|discriminate].
    pose proof (wp_elim _ _ _ (loop_pass_P st HP) E0) as HP'.
    destruct o as [st1|st1]; cbn [outcome_state] in HP'.
    + eapply IH; eauto.
    + injection E as <-. exact HP'.
  - injection E as <-. exact HP.
Qed.

End KInv.

(* solve() as a whole *)
Theorem solve_kkt_P K j cp_bits fault sv sv' stt (P : KKT -> Prop) :
  (forall k rho delta s s_lb s_ub z z_lb z_ub k',
     kkt_update_scalings (sv_data sv) k rho delta s s_lb s_ub z z_lb z_ub = Ok k' -> P k -> P k') ->
  (forall k refine flt k' ok,
     regularize_and_factorize (sv_set sv) (sv_data sv) k refine flt = Ok (k', ok) -> P k -> P k') ->
  solve K j cp_bits fault sv = Ok (sv', stt) -> P (sv_kkt sv) -> P (sv_kkt sv').
Proof.
  intros P1 P2 E HP. revert E. cbv delta [solve]. cbv beta zeta.
  set (S := sv_set sv) in *. set (d := sv_data sv) in *. set (pc := sv_pc sv) in *.
  match goal with |- bind ?e1 _ = _ -> _ => set (E1 := e1) end.
  assert (U1 : forall st1, E1 = Ok st1 -> P (st_kkt st1)).
  { subst E1. intros st1 E. destruct (sv_kkt_init_state sv).
    - injection E as <-. exact HP.
    - eapply (do_update_scalings_P d P P1); [exact E|exact HP]. }
  clearbody E1. destruct E1 as [st1|]; cbn [bind]; [|discriminate]. specialize (U1 st1 eq_refl).
  destruct (init_factor K S d fault (init_fuel S) st1) as [[st2 ok]|] eqn:Est2; cbn [bind]; [|discriminate].
  pose proof (init_factor_P K S d fault P P1 P2 _ _ _ _ Est2 U1) as U2.
  destruct ok; cbn [negb]; cbv iota.
  - destruct (initial_point K S d (round_cp cp_bits) _) as [st3|] eqn:Est3; cbn [bind]; [|discriminate].
    apply initial_point_kkt in Est3. cbn in Est3.
    destruct (main_loop K S d pc fault (round_cp cp_bits) (loop_fuel S) st3) as [st4|] eqn:Est4; cbn [bind]; [|discriminate].
    pose proof (main_loop_P K S d pc fault (round_cp cp_bits) P P1 P2 _ _ _ Est4 ltac:(rewrite Est3; exact U2)) as U4.
    destruct (unscale_and_restore j sv (st_it st4)); cbn [bind]; [|discriminate].
    intros [= <- _]. exact U4.
  - destruct (unscale_and_restore j sv (st_it st2)); cbn [bind]; [|discriminate].
    intros [= <- _]. exact U2.
Qed.

(* ---- the tails of the box arrays ---- *)
Lemma skipn_skipn' {A} (l : list A) : forall a b, skipn a (skipn b l) = skipn (b + a) l.
Proof.
  induction l as [|x l IH]; intros a b; [rewrite !skipn_nil; reflexivity|].
  destruct b as [|b]; [reflexivity|]. cbn. apply IH.
Qed.

Lemma skipn_set_head {A} (w v : list A) n : (length w <= n)%nat -> skipn n (set_head w v) = skipn n v.
Proof.
  intros H. unfold set_head. rewrite skipn_app, (skipn_all2 w) by exact H. cbn.
  rewrite skipn_skipn'. f_equal. lia.
Qed.

(* the four box arrays of k have the lengths of those of k0 and the same contents beyond nlb / nub *)
Definition tail_kept (nlb nub : nat) (k0 k : KKT) : Prop :=
  (length (k_s_lb k) = length (k_s_lb k0) /\ skipn nlb (k_s_lb k) = skipn nlb (k_s_lb k0)) /\
  (length (k_z_lb_inv k) = length (k_z_lb_inv k0) /\ skipn nlb (k_z_lb_inv k) = skipn nlb (k_z_lb_inv k0)) /\
  (length (k_s_ub k) = length (k_s_ub k0) /\ skipn nub (k_s_ub k) = skipn nub (k_s_ub k0)) /\
  (length (k_z_ub_inv k) = length (k_z_ub_inv k0) /\ skipn nub (k_z_ub_inv k) = skipn nub (k_z_ub_inv k0)).

Definition box_len_ge (nlb nub : nat) (k : KKT) : Prop :=
  (nlb <= length (k_s_lb k))%nat /\ (nlb <= length (k_z_lb_inv k))%nat /\
  (nub <= length (k_s_ub k))%nat /\ (nub <= length (k_z_ub_inv k))%nat.

Lemma tail_kept_refl nlb nub k : tail_kept nlb nub k k.
Proof. repeat split. Qed.

Lemma set_head_tail {A} n (w v v0 : list A) :
  (length w <= n)%nat -> (n <= length v0)%nat ->
  length v = length v0 /\ skipn n v = skipn n v0 ->
  length (set_head w v) = length v0 /\ skipn n (set_head w v) = skipn n v0.
Proof.
  intros H1 H2 [L E]. split.
  - unfold set_head. rewrite app_length, skipn_length. lia.
  - rewrite skipn_set_head by exact H1. exact E.
Qed.

Theorem solve_tail_kept K j cp_bits fault sv sv' stt :
  box_len_ge (d_nlb (sv_data sv)) (d_nub (sv_data sv)) (sv_kkt sv) ->
  solve K j cp_bits fault sv = Ok (sv', stt) ->
  tail_kept (d_nlb (sv_data sv)) (d_nub (sv_data sv)) (sv_kkt sv) (sv_kkt sv').
Proof.
  intros (G1 & G2 & G3 & G4) E.
  apply (solve_kkt_P K j cp_bits fault sv sv' stt
           (tail_kept (d_nlb (sv_data sv)) (d_nub (sv_data sv)) (sv_kkt sv))); [| |exact E|apply tail_kept_refl].
  - intros k rho delta s s_lb s_ub z z_lb z_ub k' Ek (T1 & T2 & T3 & T4).
    unfold kkt_update_scalings in Ek.
    destruct (vinv z) as [zi|]; cbn [bind] in Ek; [|discriminate].
    destruct (vinv (head (d_nlb (sv_data sv)) z_lb)) as [zlbi|] eqn:Ezlb; cbn [bind] in Ek; [|discriminate].
    destruct (vinv (head (d_nub (sv_data sv)) z_ub)) as [zubi|] eqn:Ezub; cbn [bind] in Ek; [|discriminate].
    apply update_kkt_fields in Ek. unfold tail_kept. destruct Ek as (_ & _ & -> & -> & -> & -> & _). cbn.
    apply vinv_length in Ezlb, Ezub.
    assert (L1 : (length (head (d_nlb (sv_data sv)) s_lb) <= d_nlb (sv_data sv))%nat) by (unfold head; apply firstn_le_length).
    assert (L2 : (length zlbi <= d_nlb (sv_data sv))%nat) by (rewrite Ezlb; unfold head; apply firstn_le_length).
    assert (L3 : (length (head (d_nub (sv_data sv)) s_ub) <= d_nub (sv_data sv))%nat) by (unfold head; apply firstn_le_length).
    assert (L4 : (length zubi <= d_nub (sv_data sv))%nat) by (rewrite Ezub; unfold head; apply firstn_le_length).
    split; [|split; [|split]]; apply set_head_tail; assumption.
  - intros k refine flt k' ok Ek HT. unfold regularize_and_factorize in Ek. destruct flt.
    + injection Ek as <- _. exact HT.
    + destruct (llt_compute _) as [f|]; cbn [bind] in Ek; [|discriminate].
      destruct f; injection Ek as <- _; exact HT.
Qed.
