(* LinAlg.v -- finite sums over [nat -> Qc] (level L2) and denotation lemmas connecting the list
   primitives of Base.v (level L1) to them.  Proof helper file: no model definitions. *)
From PIQP Require Import Base.
From Coq Require Import Lia.
Local Open Scope Qc_scope.

Ltac qring := unfold F in *; ring.
Ltac qfield := unfold F in *; field.
Ltac nlia := unfold Vec, F in *; lia.
Ltac nf := unfold Mat, Vec, F in *.

(* ---------------------------------------------------------------- finite sums *)
Fixpoint sum (n : nat) (f : nat -> Qc) : Qc :=
  match n with O => 0 | S k => sum k f + f k end.

Lemma sum_S n f : sum (S n) f = sum n f + f n.
Proof. reflexivity. Qed.

Lemma sum_ext n f g : (forall i, (i < n)%nat -> f i = g i) -> sum n f = sum n g.
Proof.
  induction n; intros H; [reflexivity|].
  rewrite !sum_S, IHn, H by (intros; try apply H; lia). reflexivity.
Qed.

Lemma sum_zero n : sum n (fun _ => 0) = 0.
Proof. induction n; [reflexivity|]. rewrite sum_S, IHn. ring. Qed.

Lemma sum_zero_ext n f : (forall i, (i < n)%nat -> f i = 0) -> sum n f = 0.
Proof. intros H. rewrite (sum_ext n f (fun _ => 0) H). apply sum_zero. Qed.

Lemma sum_add n f g : sum n (fun i => f i + g i) = sum n f + sum n g.
Proof. induction n; [cbn; ring|]. rewrite !sum_S, IHn. ring. Qed.

Lemma sum_sub n f g : sum n (fun i => f i - g i) = sum n f - sum n g.
Proof. induction n; [cbn; ring|]. rewrite !sum_S, IHn. ring. Qed.

Lemma sum_opp n f : sum n (fun i => - f i) = - sum n f.
Proof. induction n; [cbn; ring|]. rewrite !sum_S, IHn. ring. Qed.

Lemma sum_scale_l c n f : sum n (fun i => c * f i) = c * sum n f.
Proof. induction n; [cbn; ring|]. rewrite !sum_S, IHn. ring. Qed.

Lemma sum_scale_r c n f : sum n (fun i => f i * c) = sum n f * c.
Proof. induction n; [cbn; ring|]. rewrite !sum_S, IHn. ring. Qed.

Lemma sum_swap n m (f : nat -> nat -> Qc) :
  sum n (fun i => sum m (fun j => f i j)) = sum m (fun j => sum n (fun i => f i j)).
Proof.
  induction n.
  - cbn. symmetry. apply sum_zero.
  - rewrite sum_S, IHn. rewrite <- sum_add. apply sum_ext. intros. reflexivity.
Qed.

Lemma sum_shift n f : sum (S n) f = f O + sum n (fun i => f (S i)).
Proof.
  induction n.
  - cbn. ring.
  - rewrite sum_S, IHn, sum_S. ring.
Qed.

Lemma sum_cut n j f : (j <= n)%nat -> (forall k, (j <= k < n)%nat -> f k = 0) -> sum n f = sum j f.
Proof.
  induction n; intros Hj H.
  - replace j with O by lia. reflexivity.
  - destruct (Nat.eq_dec j (S n)) as [->|Hne]; [reflexivity|].
    rewrite sum_S, IHn, H by (intros; try apply H; lia). ring.
Qed.

Lemma sum_extend n N f : (n <= N)%nat -> (forall k, (n <= k < N)%nat -> f k = 0) -> sum n f = sum N f.
Proof. intros. symmetry. apply sum_cut; assumption. Qed.

Lemma sum_delta n i f : (i < n)%nat -> sum n (fun j => if Nat.eqb j i then f j else 0) = f i.
Proof.
  induction n; intros Hi; [lia|].
  rewrite sum_S. destruct (Nat.eq_dec i n) as [->|Hne].
  - rewrite Nat.eqb_refl. rewrite sum_zero_ext; [ring|].
    intros k Hk. destruct (Nat.eqb_spec k n); [lia|reflexivity].
  - rewrite IHn by lia. destruct (Nat.eqb_spec n i); [lia|ring].
Qed.

Lemma sum_delta' n i f : (i < n)%nat -> sum n (fun j => if Nat.eqb i j then f j else 0) = f i.
Proof.
  intros Hi. rewrite <- (sum_delta n i f Hi). apply sum_ext. intros. rewrite Nat.eqb_sym. reflexivity.
Qed.

Lemma fold_left_sum (h : nat -> Qc) n a s :
  fold_left (fun acc j => acc + h j) (seq s n) a = a + sum n (fun j => h (s + j)%nat).
Proof.
  revert a s. induction n; intros a s.
  - cbn. ring.
  - rewrite sum_shift. cbn [seq fold_left]. rewrite IHn. rewrite Nat.add_0_r.
    rewrite (sum_ext n (fun j => h (S s + j)%nat) (fun i => h (s + S i)%nat)).
    + ring.
    + intros. f_equal. lia.
Qed.

Lemma fold_left_ext {A B} (f g : A -> B -> A) l a :
  (forall a b, f a b = g a b) -> fold_left f l a = fold_left g l a.
Proof.
  intros H. revert a. induction l as [|x l IH]; intros a; cbn [fold_left]; [reflexivity|].
  rewrite H. apply IH.
Qed.

Lemma fold_left_seq_sum (h : nat -> Qc) n :
  fold_left (fun acc j => acc + h j) (seq 0 n) 0 = sum n h.
Proof. rewrite fold_left_sum. rewrite Qcplus_0_l. apply sum_ext. intros. reflexivity. Qed.

(* ---------------------------------------------------------------- scalars *)
Lemma qeqb_eq a b : qeqb a b = true <-> a = b.
Proof.
  unfold qeqb. rewrite Qeq_bool_iff. split.
  - apply Qc_is_canon.
  - intros ->. reflexivity.
Qed.

Lemma qeqb_neq a b : qeqb a b = false <-> a <> b.
Proof.
  rewrite <- qeqb_eq. destruct (qeqb a b); split; congruence.
Qed.

Lemma qltb_lt a b : qltb a b = true <-> a < b.
Proof.
  unfold qltb, Qclt. rewrite negb_true_iff. rewrite <- not_true_iff_false, Qle_bool_iff.
  split; [apply Qnot_le_lt | apply Qlt_not_le].
Qed.

Lemma qltb_ge a b : qltb a b = false <-> b <= a.
Proof.
  unfold qltb, Qcle. rewrite negb_false_iff, Qle_bool_iff. reflexivity.
Qed.

Lemma qleb_le a b : qleb a b = true <-> a <= b.
Proof. unfold qleb, Qcle. apply Qle_bool_iff. Qed.

Lemma Qclt_neq0 a : 0 < a -> a <> 0.
Proof. intros H E. rewrite E in H. exact (Qclt_not_eq _ _ H eq_refl). Qed.

Lemma qdiv_ok a b c : qdiv a b = Ok c -> b <> 0 /\ c = a / b.
Proof.
  unfold qdiv. destruct (qeqb b 0) eqn:E; [discriminate|].
  intros [= <-]. split; [apply qeqb_neq; exact E | reflexivity].
Qed.

Lemma qdiv_nz a b : b <> 0 -> qdiv a b = Ok (a / b).
Proof. intros H. unfold qdiv. apply qeqb_neq in H. rewrite H. reflexivity. Qed.

(* ---------------------------------------------------------------- monadic maps *)
Lemma bind_ok {A B} (x : res A) (f : A -> res B) b :
  bind x f = Ok b -> exists a, x = Ok a /\ f a = Ok b.
Proof. destruct x; cbn; [eauto | discriminate]. Qed.

Lemma mapM_ok {A B} (f : A -> res B) l r :
  mapM f l = Ok r ->
  length r = length l /\ forall i dA dB, (i < length l)%nat -> f (nth i l dA) = Ok (nth i r dB).
Proof.
  revert r. induction l as [|a l IH]; intros r H.
  - cbn in H. injection H as <-. split; [reflexivity|]. cbn. intros; lia.
  - cbn [mapM] in H. apply bind_ok in H as (b & Hb & H). apply bind_ok in H as (r' & Hr & H).
    injection H as <-. destruct (IH _ Hr) as [Hl Hn]. split; [cbn; congruence|].
    intros [|i] dA dB Hi; cbn; [exact Hb|]. apply Hn. cbn in Hi. lia.
Qed.

Lemma mapM_exists {A B} (f : A -> res B) l :
  (forall a, In a l -> exists b, f a = Ok b) -> exists r, mapM f l = Ok r.
Proof.
  induction l as [|a l IH]; intros H.
  - eexists. reflexivity.
  - destruct (H a (or_introl eq_refl)) as [b Hb].
    destruct IH as [r Hr]; [intros; apply H; right; assumption|].
    exists (b :: r). cbn [mapM]. rewrite Hb. cbn. rewrite Hr. reflexivity.
Qed.

Lemma mapM_no_err_shape {A B} (f : A -> res B) l e :
  mapM f l = Err e -> exists a, In a l /\ f a = Err e.
Proof.
  induction l as [|a l IH]; [discriminate|].
  cbn [mapM]. destruct (f a) eqn:Ea; cbn.
  - destruct (mapM f l) eqn:El; cbn; [discriminate|].
    intros [= <-]. destruct (IH eq_refl) as (x & Hx & Hfx). exists x. split; [right|]; assumption.
  - intros [= <-]. exists a. split; [left; reflexivity | assumption].
Qed.

(* ---------------------------------------------------------------- vectors *)
Lemma vmap2_length f a b : length (vmap2 f a b) = Nat.min (length a) (length b).
Proof. unfold vmap2. rewrite map_length, combine_length. reflexivity. Qed.

Lemma nth_vmap2 f a b i :
  (i < length a)%nat -> (i < length b)%nat -> nth i (vmap2 f a b) 0 = f (nth i a 0) (nth i b 0).
Proof.
  unfold vmap2. revert b i. induction a as [|x a IH]; intros [|y b] [|i] Ha Hb; cbn in *; try lia.
  - reflexivity.
  - apply IH; lia.
Qed.

Lemma nth_vmap2_0 f a b i :
  f 0 0 = 0 -> length a = length b -> nth i (vmap2 f a b) 0 = f (nth i a 0) (nth i b 0).
Proof.
  intros Hf Hl. destruct (Nat.lt_ge_cases i (length a)).
  - apply nth_vmap2; lia.
  - rewrite (nth_overflow a), (nth_overflow b), nth_overflow by (rewrite ?vmap2_length; lia).
    symmetry; exact Hf.
Qed.

Lemma vadd_length a b : length (vadd a b) = Nat.min (length a) (length b).
Proof. apply vmap2_length. Qed.
Lemma vsub_length a b : length (vsub a b) = Nat.min (length a) (length b).
Proof. apply vmap2_length. Qed.
Lemma vmul_length a b : length (vmul a b) = Nat.min (length a) (length b).
Proof. apply vmap2_length. Qed.

Lemma nth_vadd a b i : length a = length b -> nth i (vadd a b) 0 = nth i a 0 + nth i b 0.
Proof. apply nth_vmap2_0. qring. Qed.
Lemma nth_vsub a b i : length a = length b -> nth i (vsub a b) 0 = nth i a 0 - nth i b 0.
Proof. apply nth_vmap2_0. qring. Qed.
Lemma nth_vmul a b i : nth i (vmul a b) 0 = nth i a 0 * nth i b 0.
Proof.
  destruct (Nat.lt_ge_cases i (length a)); [destruct (Nat.lt_ge_cases i (length b))|].
  - apply nth_vmap2; assumption.
  - rewrite (nth_overflow b) by assumption. rewrite (nth_overflow (vmul a b)) by (rewrite vmul_length; lia). qring.
  - rewrite (nth_overflow a) by assumption. rewrite (nth_overflow (vmul a b)) by (rewrite vmul_length; lia). qring.
Qed.

Lemma nth_map0 (f : F -> F) l i : f 0 = 0 -> nth i (map f l) 0 = f (nth i l 0).
Proof. intros H. rewrite <- H at 1. apply map_nth. Qed.

Lemma vscale_length c a : length (vscale c a) = length a.
Proof. apply map_length. Qed.
Lemma vneg_length a : length (vneg a) = length a.
Proof. apply map_length. Qed.
Lemma vaddc_length c a : length (vaddc c a) = length a.
Proof. apply map_length. Qed.

Lemma nth_vscale c a i : nth i (vscale c a) 0 = c * nth i a 0.
Proof. unfold vscale. apply (nth_map0 (Qcmult c)). qring. Qed.
Lemma nth_vneg a i : nth i (vneg a) 0 = - nth i a 0.
Proof. unfold vneg. apply (nth_map0 Qcopp). qring. Qed.
Lemma nth_vaddc c a i : (i < length a)%nat -> nth i (vaddc c a) 0 = nth i a 0 + c.
Proof.
  intros H. unfold vaddc. rewrite (nth_indep _ 0 ((fun x => x + c) 0)) by (rewrite map_length; exact H).
  apply (map_nth (fun x => x + c)).
Qed.

Lemma head_length {A} k (v : list A) : (k <= length v)%nat -> length (head k v) = k.
Proof. intros. unfold head. apply firstn_length_le. assumption. Qed.

Lemma nth_head {A} k (v : list A) i d : (i < k)%nat -> nth i (head k v) d = nth i v d.
Proof.
  unfold head. revert v i. induction k; intros v i H; [lia|].
  destruct v; [destruct i; reflexivity|]. destruct i; cbn; [reflexivity|]. apply IHk. lia.
Qed.

Lemma nth_map_seq {A} (f : nat -> A) n i d : (i < n)%nat -> nth i (map f (seq 0 n)) d = f i.
Proof.
  intros H. rewrite (nth_indep _ d (f O)) by (rewrite map_length, seq_length; assumption).
  rewrite map_nth, seq_nth by assumption. reflexivity.
Qed.

(* vsum *)
Lemma fold_left_plus l a : fold_left Qcplus l a = a + vsum l.
Proof.
  unfold vsum. revert a. induction l as [|x l IH]; intros a; cbn [fold_left].
  - qring.
  - rewrite IH, (IH (0 + x)). qring.
Qed.

Lemma vsum_nil : vsum [] = 0.
Proof. reflexivity. Qed.
Lemma vsum_cons x l : vsum (x :: l) = x + vsum l.
Proof. unfold vsum at 1. cbn [fold_left]. rewrite fold_left_plus. qring. Qed.

Lemma vsum_sum l : vsum l = sum (length l) (fun i => nth i l 0).
Proof.
  induction l as [|x l IH].
  - reflexivity.
  - rewrite vsum_cons. cbn [length]. rewrite sum_shift. cbn [nth]. rewrite IH. reflexivity.
Qed.

Lemma vsum_sum_ge l N : (length l <= N)%nat -> vsum l = sum N (fun i => nth i l 0).
Proof.
  intros H. rewrite vsum_sum. apply sum_extend; [assumption|].
  intros k Hk. apply nth_overflow. lia.
Qed.

Lemma dot_sum a b N : (Nat.min (length a) (length b) <= N)%nat ->
  dot a b = sum N (fun i => nth i a 0 * nth i b 0).
Proof.
  intros H. unfold dot. rewrite (vsum_sum_ge _ N) by (rewrite vmul_length; exact H).
  apply sum_ext. intros. apply nth_vmul.
Qed.

Lemma dot3_sum a b c N : (Nat.min (Nat.min (length a) (length b)) (length c) <= N)%nat ->
  vsum (vmul (vmul a b) c) = sum N (fun i => nth i a 0 * nth i b 0 * nth i c 0).
Proof.
  intros H. rewrite (vsum_sum_ge _ N) by (rewrite !vmul_length; exact H).
  apply sum_ext. intros. rewrite !nth_vmul. reflexivity.
Qed.

(* vinv / vdiv *)
Lemma vinv_ok a r : vinv a = Ok r ->
  length r = length a /\ forall i, (i < length a)%nat -> nth i a 0 <> 0 /\ nth i r 0 = 1 / nth i a 0.
Proof.
  intros H. apply mapM_ok in H as [Hl Hn]. split; [assumption|].
  intros i Hi. specialize (Hn i 0 0 Hi). unfold qinv in Hn. apply qdiv_ok in Hn. exact Hn.
Qed.

Lemma vinv_exists a : (forall x, In x a -> x <> 0) -> exists r, vinv a = Ok r.
Proof.
  intros H. apply mapM_exists. intros x Hx. eexists. unfold qinv. apply qdiv_nz. auto.
Qed.

Lemma vdiv_ok a b r : vdiv a b = Ok r -> length a = length b ->
  length r = length a /\ forall i, (i < length a)%nat -> nth i b 0 <> 0 /\ nth i r 0 = nth i a 0 / nth i b 0.
Proof.
  intros H Hab. apply mapM_ok in H as [Hl Hn]. rewrite combine_length, <- Hab, Nat.min_id in Hl.
  split; [assumption|]. intros i Hi.
  specialize (Hn i (0, 0) 0). rewrite combine_length, <- Hab, Nat.min_id in Hn. specialize (Hn Hi).
  rewrite combine_nth in Hn by assumption. cbn [fst snd] in Hn. apply qdiv_ok in Hn. exact Hn.
Qed.

Lemma vdiv_exists a b : (forall x, In x b -> x <> 0) -> exists r, vdiv a b = Ok r.
Proof.
  intros H. apply mapM_exists. intros [x y] Hxy. apply in_combine_r in Hxy.
  eexists. apply qdiv_nz. auto.
Qed.

(* list equality by entries *)
Lemma vec_ext (a b : Vec) : length a = length b ->
  (forall i, (i < length a)%nat -> nth i a 0 = nth i b 0) -> a = b.
Proof. intros. apply (nth_ext a b 0 0); assumption. Qed.

(* ---------------------------------------------------------------- matrices *)
Lemma mentry_eq M i j : mentry M i j = nth i (nth j M []) 0.
Proof. reflexivity. Qed.

Lemma nth_nil0 i : nth i (@nil F) 0 = 0.
Proof. destruct i; reflexivity. Qed.

Lemma nth_mrow M i j : nth j (mrow M i) 0 = mentry M i j.
Proof.
  unfold mrow, mentry.
  rewrite <- (nth_nil0 i) at 1. apply (map_nth (fun col => nth i col 0)).
Qed.

Lemma mrow_length (M : Mat) i : length (mrow M i) = length M.
Proof. apply map_length. Qed.

Lemma nth_matT_vec M x j : nth j (matT_vec M x) 0 = dot (nth j M []) x.
Proof.
  unfold matT_vec. change 0 with (dot [] x) at 1. apply (map_nth (fun col => dot col x)).
Qed.

Lemma matT_vec_length (M : Mat) x : length (matT_vec M x) = length M.
Proof. apply map_length. Qed.

Lemma mat_vec_fold r (M : Mat) : Forall (fun c => length c = r) M -> forall x acc, length acc = r ->
  let res := fold_left (fun acc cx => vadd acc (vscale (snd cx) (fst cx))) (combine M x) acc in
  length res = r /\
  forall i, nth i res 0 = nth i acc 0 + sum (length M) (fun j => nth j x 0 * mentry M i j).
Proof.
  induction 1 as [|c M Hc HM IH]; intros x acc Hacc; cbn zeta.
  - cbn. split; [assumption|]. intros. qring.
  - destruct x as [|xj x].
    + cbn [combine fold_left]. split; [assumption|]. intros i.
      rewrite sum_zero_ext; [qring|]. intros. rewrite nth_nil0. qring.
    + cbn [combine fold_left fst snd].
      assert (Hl : length (vadd acc (vscale xj c)) = r)
        by (rewrite vadd_length, vscale_length, Hacc, Hc; apply Nat.min_id).
      destruct (IH x _ Hl) as [IH1 IH2]. split; [exact IH1|].
      intros i. rewrite IH2. rewrite nth_vadd by (rewrite vscale_length; congruence).
      rewrite nth_vscale. cbn [length]. rewrite sum_shift. cbn [nth]. unfold mentry. cbn [nth]. qring.
Qed.

Lemma vconst_length n k : length (vconst n k) = n.
Proof. apply repeat_length. Qed.

Lemma nth_vconst0 n i : nth i (vconst n 0) 0 = 0.
Proof.
  unfold vconst. revert i. induction n; intros [|i]; cbn; auto.
Qed.

Lemma mat_vec_length r (M : Mat) x : Forall (fun c => length c = r) M -> length (mat_vec r M x) = r.
Proof. intros H. apply (mat_vec_fold r M H x (vconst r 0)). apply vconst_length. Qed.

Lemma nth_mat_vec r (M : Mat) x i : Forall (fun c => length c = r) M ->
  nth i (mat_vec r M x) 0 = sum (length M) (fun j => nth j x 0 * mentry M i j).
Proof.
  intros H. destruct (mat_vec_fold r M H x (vconst r 0) (vconst_length _ _)) as [_ H2].
  unfold mat_vec. rewrite H2, nth_vconst0. qring.
Qed.

(* ---------------------------------------------------------------- get / upd / gather / scatter *)
Lemma get_ok {A} (v : list A) i x : get v i = Ok x -> (i < length v)%nat /\ forall d, nth i v d = x.
Proof.
  unfold get. destruct (nth_error v i) eqn:E; [|discriminate]. intros [= <-].
  split; [apply nth_error_Some; congruence|]. intros d. apply nth_error_nth. assumption.
Qed.

Lemma get_lt {A} (v : list A) i d : (i < length v)%nat -> get v i = Ok (nth i v d).
Proof.
  intros H. unfold get. rewrite (nth_error_nth' v d H). reflexivity.
Qed.

Lemma get_err {A} (v : list A) i e : get v i = Err e -> (length v <= i)%nat.
Proof.
  unfold get. destruct (nth_error v i) eqn:E; [discriminate|]. intros _. apply nth_error_None. assumption.
Qed.

Lemma upd_ok {A} (v : list A) i x v' : upd v i x = Ok v' ->
  (i < length v)%nat /\ length v' = length v /\
  forall j d, nth j v' d = if Nat.eqb j i then x else nth j v d.
Proof.
  revert i v'. induction v as [|a v IH]; intros i v' H; [discriminate|].
  destruct i.
  - injection H as <-. cbn. repeat split; [lia|]. intros [|j] d; reflexivity.
  - cbn [upd] in H. apply bind_ok in H as (r & Hr & H). injection H as <-.
    destruct (IH _ _ Hr) as (H1 & H2 & H3). cbn [length]. repeat split; [lia | lia |].
    intros [|j] d; cbn; [reflexivity|]. apply H3.
Qed.

Lemma upd_lt {A} (v : list A) i x : (i < length v)%nat -> exists v', upd v i x = Ok v'.
Proof.
  revert i. induction v as [|a v IH]; intros i H; [cbn in H; lia|].
  destruct i; [eexists; reflexivity|].
  destruct (IH i) as [v' Hv']; [cbn in H; lia|]. exists (a :: v'). cbn [upd]. rewrite Hv'. reflexivity.
Qed.

Lemma gather_ok {A} (v : list A) idx r : gather v idx = Ok r ->
  length r = length idx /\
  forall k d, (k < length idx)%nat -> (nth k idx O < length v)%nat /\ nth k r d = nth (nth k idx O) v d.
Proof.
  intros H. apply mapM_ok in H as [Hl Hn]. split; [assumption|].
  intros k d Hk. specialize (Hn k O d Hk). apply get_ok in Hn as [H1 H2]. split; [assumption|].
  symmetry. apply H2.
Qed.

(* scatter with an "accumulating" combiner  f a x = a + g x *)
Lemma scatter_with_ok (f : F -> F -> F) (g : F -> F) :
  (forall a x, f a x = a + g x) ->
  forall idx v w v', scatter_with f v idx w = Ok v' ->
  length v' = length v /\
  (length idx <= length w)%nat /\
  (forall k, (k < length idx)%nat -> (nth k idx O < length v)%nat) /\
  forall i, nth i v' 0 = nth i v 0 + sum (length idx) (fun k => if Nat.eqb (nth k idx O) i then g (nth k w 0) else 0).
Proof.
  intros Hf. induction idx as [|j idx IH]; intros v w v' H.
  - cbn in H. injection H as <-. cbn. repeat split; try lia. intros; qring.
  - destruct w as [|x w]; [discriminate|]. cbn [scatter_with] in H.
    apply bind_ok in H as (a & Ha & H). apply bind_ok in H as (v1 & Hv1 & H).
    apply get_ok in Ha as [Hj Ha]. apply upd_ok in Hv1 as (_ & Hl1 & Hn1).
    destruct (IH _ _ _ H) as (L1 & L2 & L3 & L4).
    repeat split.
    + congruence.
    + cbn. lia.
    + intros [|k] Hk; cbn [nth]; [assumption|]. rewrite <- Hl1. apply L3. cbn in Hk. lia.
    + intros i. rewrite L4, Hn1. cbn [length]. rewrite sum_shift. cbn [nth].
      rewrite (Nat.eqb_sym j i). destruct (Nat.eqb_spec i j) as [->|Hne].
      * rewrite Hf, (Ha 0). qring.
      * qring.
Qed.

Lemma get_exists {A} (v : list A) i : (i < length v)%nat -> exists x, get v i = Ok x.
Proof.
  intros H. unfold get. destruct (nth_error v i) eqn:E; [eauto|].
  apply nth_error_None in E. lia.
Qed.

Lemma scatter_with_exists {A B} (f : A -> B -> A) idx : forall (v : list A) (w : list B),
  (length idx <= length w)%nat -> (forall k, (k < length idx)%nat -> (nth k idx O < length v)%nat) ->
  exists v', scatter_with f v idx w = Ok v'.
Proof.
  induction idx as [|j idx IH]; intros v w Hw Hv.
  - eexists. reflexivity.
  - destruct w as [|x w]; [cbn in Hw; lia|].
    assert (Hj : (j < length v)%nat) by (apply (Hv O); cbn; lia).
    cbn [scatter_with]. destruct (get_exists v j Hj) as [a Ha]. rewrite Ha. cbn [bind].
    destruct (upd_lt v j (f a x) Hj) as [v1 Hv1]. rewrite Hv1. cbn [bind].
    apply upd_ok in Hv1 as (_ & Hl & _).
    apply IH; [cbn in Hw; lia|]. intros k Hk. rewrite Hl. apply (Hv (S k)). cbn. lia.
Qed.

Lemma gather_exists {A} (v : list A) idx :
  (forall k, (k < length idx)%nat -> (nth k idx O < length v)%nat) -> exists r, gather v idx = Ok r.
Proof.
  intros H. apply mapM_exists. intros a Ha. apply (In_nth _ _ O) in Ha as (k & Hk & <-).
  apply get_exists. apply H. assumption.
Qed.
