(* IPMGen.v -- the Newton-step part of solver.hpp (one pass of the main loop: loop_pass of IPM.v), abstracted over the solver state
   and the KKT operations it calls.  The text is the text of IPM.loop_pass with
     st_it / st_inf / st_refine / st_res st        ->  g_it / g_inf / g_refine / g_res st        (getters)
     st <| st_f := v |>                            ->  s_f st v                                  (setters)
     do_update_scalings st                         ->  op_us st      (KKT::update_scalings with rho, delta and the iterate stored in st)
     do_factorize st                               ->  op_fac st     (regularize_and_factorize; counts the call)
     kkt_solve S d (st_kkt st) (st_refine st) rhs  ->  op_solve st rhs
     Continue / Stop                               ->  o_continue / o_stop
   split into the pass up to the factorisation, the branch on its result (after_factor) and the two step computations
   (tail_ineq: predictor + corrector; tail_noineq: no inequality).  Properties_C10_loop.v: instantiated with St and the dense KKT
   operations of KKTDense.v it IS IPM.loop_pass (C10_loop_pass_gen_dense). *)
From PIQP Require Import Base Data Bounds PrecondDense KKTDense IPM.
From RecordUpdate Require Import RecordSet.
Import RecordSetNotations.
Local Open Scope Qc_scope.

Section Gen.
Variable K : Consts.
Variable S : Settings.
Variable d : Data.
Variable pc : Precond.
Variable cp : F -> F.
Variables (ST OUT : Type).
Variables (g_it : ST -> Iterate) (g_inf : ST -> Info) (g_refine : ST -> bool) (g_res : ST -> Resid).
Variables (s_it : ST -> Iterate -> ST) (s_inf : ST -> Info -> ST) (s_refine : ST -> bool -> ST) (s_res : ST -> Resid -> ST).
Variables (op_us : ST -> res ST) (op_fac : ST -> res (ST * bool)).
Variable op_solve : ST -> Vec -> Vec -> Vec -> Vec -> Vec -> Vec -> Vec -> Vec -> res Step.
Variables (o_continue o_stop : ST -> OUT).

Definition tail_ineq (st5 : ST) (it3 : Iterate) (inf6 : Info) (rx ry rz rz_lb rz_ub : Vec) : res OUT :=
  (* predictor *)
  let rs := vneg (vmul (s it3) (z it3)) in
  let rs_lb := vneg (vmul (s_lb it3) (z_lb it3)) in
  let rs_ub := vneg (vmul (s_ub it3) (z_ub it3)) in
  do p <- op_solve st5 rx ry rz rz_lb rz_ub rs rs_lb rs_ub ;;
  do '(a_s0, a_z0) <- step_lengths it3 p ;;
  let a_s := a_s0 * tau S in let a_z := a_z0 * tau S in
  let sig0 := dot (vadd (s it3) (vscale a_s (st_s p))) (vadd (z it3) (vscale a_z (st_z p)))
            + dot (vadd (s_lb it3) (vscale a_s (st_s_lb p))) (vadd (z_lb it3) (vscale a_z (st_z_lb p)))
            + dot (vadd (s_ub it3) (vscale a_s (st_s_ub p))) (vadd (z_ub it3) (vscale a_z (st_z_ub p))) in
  do sig1 <- qdiv sig0 (i_mu inf6 * qofnat (nineq d)) ;;
  let sig2 := qmax 0 (qmin 1 sig1) in
  let sigma := sig2 * sig2 * sig2 in
  let sm := sigma * i_mu inf6 in
  (* corrector *)
  let rs' := vaddc sm (vsub rs (vmul (st_s p) (st_z p))) in
  let rs_lb' := vaddc sm (vsub rs_lb (vmul (st_s_lb p) (st_z_lb p))) in
  let rs_ub' := vaddc sm (vsub rs_ub (vmul (st_s_ub p) (st_z_ub p))) in
  do c <- op_solve st5 rx ry rz rz_lb rz_ub rs' rs_lb' rs_ub' ;;
  do '(b_s0, b_z0) <- step_lengths it3 c ;;
  let ps := b_s0 * tau S in let ds_ := b_z0 * tau S in
  let it4 := cp_iterate cp (it3 <| x := vadd (x it3) (vscale ps (st_x c)) |> <| y := vadd (y it3) (vscale ds_ (st_y c)) |>
                 <| z := vadd (z it3) (vscale ds_ (st_z c)) |> <| z_lb := vadd (z_lb it3) (vscale ds_ (st_z_lb c)) |>
                 <| z_ub := vadd (z_ub it3) (vscale ds_ (st_z_ub c)) |>
                 <| s := vadd (s it3) (vscale ps (st_s c)) |> <| s_lb := vadd (s_lb it3) (vscale ps (st_s_lb c)) |>
                 <| s_ub := vadd (s_ub it3) (vscale ps (st_s_ub c)) |>) in
  let mu_prev := i_mu inf6 in
  do mu <- mu_of d it4 ;;
  do rate0 <- qdiv (mu_prev - mu) mu_prev ;;
  let mu_rate := qmax 0 rate0 in
  let inf7 := inf6 <| i_sigma := sigma |> <| i_primal_step := ps |> <| i_dual_step := ds_ |> <| i_mu := mu |> in
  do '(res1, inf8) <- update_nr_residuals d pc K it4 inf7 ;;
  let good_d := qltb (dual_inf_nr pc res1) (k_improve K * i_dual_inf inf8)
                || (qeqb (i_rho inf8) (reg_finetune_lower_limit S) && qltb (dual_prox_inf pc it4) (k_prox_small K)) in
  let it5 := if good_d then it4 <| zeta := x it4 |> else it4 in
  let inf9 := if good_d then inf8 <| i_rho := qmax (i_reg_limit inf8) ((1 - mu_rate) * i_rho inf8) |>
              else inf8 <| i_no_primal_update := (i_no_primal_update inf8 + 1)%Z |>
                        <| i_rho := qmax (i_reg_limit inf8) ((1 - k_mu_damp K * mu_rate) * i_rho inf8) |> in
  let good_p := qltb (primal_inf_nr pc res1) (k_improve K * i_primal_inf inf9)
                || (qeqb (i_delta inf9) (reg_finetune_lower_limit S) && qltb (primal_prox_inf pc it5) (k_prox_small K)) in
  let it6 := if good_p then it5 <| lambda := y it5 |> <| nu := z it5 |> <| nu_lb := z_lb it5 |> <| nu_ub := z_ub it5 |> else it5 in
  let inf10 := if good_p then inf9 <| i_delta := qmax (i_reg_limit inf9) ((1 - mu_rate) * i_delta inf9) |>
               else inf9 <| i_no_dual_update := (i_no_dual_update inf9 + 1)%Z |>
                         <| i_delta := qmax (i_reg_limit inf9) ((1 - k_mu_damp K * mu_rate) * i_delta inf9) |> in
  Ok (o_continue (s_res (s_inf (s_it st5 it6) (inf10 <| i_rho := cp (i_rho inf10) |> <| i_delta := cp (i_delta inf10) |>)) res1)).

Definition tail_noineq (st5 : ST) (it3 : Iterate) (inf6 : Info) (rx ry rz rz_lb rz_ub : Vec) : res OUT :=
  do c <- op_solve st5 rx ry rz rz_lb rz_ub (vconst (d_m d) 0) (vconst (d_nlb d) 0) (vconst (d_nub d) 0) ;;
  let it4 := cp_iterate cp (it3 <| x := vadd (x it3) (st_x c) |> <| y := vadd (y it3) (st_y c) |>) in
  let inf7 := inf6 <| i_primal_step := 1 |> <| i_dual_step := 1 |> in
  do '(res1, inf8) <- update_nr_residuals d pc K it4 inf7 ;;
  let good_d := qltb (dual_inf_nr pc res1) (k_improve K * i_dual_inf inf8) in
  let it5 := if good_d then it4 <| zeta := x it4 |> else it4 in
  let inf9 := if good_d then inf8 <| i_rho := qmax (i_reg_limit inf8) (k_noineq_good K * i_rho inf8) |>
              else inf8 <| i_no_primal_update := (i_no_primal_update inf8 + 1)%Z |>
                        <| i_rho := qmax (i_reg_limit inf8) (k_noineq_bad K * i_rho inf8) |> in
  let good_p := qltb (primal_inf_nr pc res1) (k_improve K * i_primal_inf inf9) in
  let it6 := if good_p then it5 <| lambda := y it5 |> else it5 in
  let inf10 := if good_p then inf9 <| i_delta := qmax (i_reg_limit inf9) (k_noineq_good K * i_delta inf9) |>
               else inf9 <| i_no_dual_update := (i_no_dual_update inf9 + 1)%Z |>
                         <| i_delta := qmax (i_reg_limit inf9) (k_noineq_bad K * i_delta inf9) |> in
  Ok (o_continue (s_res (s_inf (s_it st5 it6) (inf10 <| i_rho := cp (i_rho inf10) |> <| i_delta := cp (i_delta inf10) |>)) res1)).

Definition after_factor (st5 : ST) (ok : bool) (it3 : Iterate) (rx ry rz rz_lb rz_ub : Vec) : res OUT :=
  if negb ok then
    if negb (g_refine st5) then Ok (o_continue (s_refine st5 true))
    else if (i_factor_retires (g_inf st5) <? max_factor_retires S)%Z then
      let inf5 := bump_reg K S (g_inf st5) in
      Ok (o_continue (s_inf st5 (inf5 <| i_iter := (i_iter inf5 - 1)%Z |>)))
    else Ok (o_stop (s_inf st5 ((g_inf st5) <| i_status := NUMERICS |>)))
  else
  let inf6 := (g_inf st5) <| i_factor_retires := 0%Z |> in
  if Nat.ltb 0 (nineq d) then tail_ineq st5 it3 inf6 rx ry rz rz_lb rz_ub
  else tail_noineq st5 it3 inf6 rx ry rz rz_lb rz_ub.

Definition loop_pass_gen (st : ST) : res OUT :=
  let inf0 := g_inf st in
  do '(res0, inf0a) <- (if (i_iter inf0 =? 0)%Z then update_nr_residuals d pc K (g_it st) inf0 else Ok (g_res st, inf0)) ;;
  let inf1 := inf0a <| i_primal_inf := primal_inf_nr pc res0 |> <| i_dual_inf := dual_inf_nr pc res0 |> in
  let st1 := s_inf (s_res st res0) inf1 in
  if qltb (i_primal_inf inf1) (thresh S (i_primal_rel_inf inf1)) &&
     qltb (i_dual_inf inf1) (thresh S (i_dual_rel_inf inf1)) &&
     (negb (check_duality_gap S) || qltb (i_duality_gap inf1) (eps_duality_gap_abs S + eps_duality_gap_rel S * i_duality_gap_rel inf1))
  then Ok (o_stop (s_inf st1 (inf1 <| i_status := SOLVED |>)))
  else
  let it := g_it st1 in
  let rx := vsub (rx_nr res0) (vscale (i_rho inf1) (vsub (x it) (zeta it))) in
  let ry := vsub (ry_nr res0) (vscale (i_delta inf1) (vsub (lambda it) (y it))) in
  let rz := vsub (rz_nr res0) (vscale (i_delta inf1) (vsub (nu it) (z it))) in
  let rz_lb := vsub (rz_lb_nr res0) (vscale (i_delta inf1) (vsub (nu_lb it) (z_lb it))) in
  let rz_ub := vsub (rz_ub_nr res0) (vscale (i_delta inf1) (vsub (nu_ub it) (z_ub it))) in
  if (zmin (k_infeas_cnt K) (reg_finetune_dual_update_threshold S) <? i_no_dual_update inf1)%Z &&
     qltb (k_prox_big K) (primal_prox_inf pc it) &&
     qltb (primal_inf_of pc ry rz rz_lb rz_ub) (thresh S (i_primal_rel_inf inf1))
  then Ok (o_stop (s_inf st1 (inf1 <| i_status := PRIMAL_INFEASIBLE |>)))
  else
  if (zmin (k_infeas_cnt K) (reg_finetune_primal_update_threshold S) <? i_no_primal_update inf1)%Z &&
     qltb (k_prox_big K) (dual_prox_inf pc it) &&
     qltb (norm_inf (unscale_dual_res pc rx)) (thresh S (i_dual_rel_inf inf1))
  then Ok (o_stop (s_inf st1 (inf1 <| i_status := DUAL_INFEASIBLE |>)))
  else
  let inf2 := inf1 <| i_iter := (i_iter inf1 + 1)%Z |> in
  (* boundary control *)
  let lt_eps (v : Vec) := match v with [] => false | h :: t => qltb (fold_left qmin t h) (k_eps K) end in
  let sh_z := lt_eps (z it) in let sh_lb := lt_eps (z_lb it) in let sh_ub := lt_eps (z_ub it) in
  let it3 := it <| z := if sh_z then vaddc (k_eps K) (z it) else z it |>
                <| z_lb := if sh_lb then vaddc (k_eps K) (z_lb it) else z_lb it |>
                <| z_ub := if sh_ub then vaddc (k_eps K) (z_ub it) else z_ub it |> in
  do inf3 <- (if sh_z || sh_lb || sh_ub then do mu <- mu_of d it3 ;; Ok (inf2 <| i_mu := mu |>) else Ok inf2) ;;
  (* regularisation fine-tuning switch *)
  let inf4 :=
    if ((reg_finetune_primal_update_threshold S <? i_no_primal_update inf3)%Z && qeqb (i_rho inf3) (i_reg_limit inf3)
        && negb (qeqb (i_reg_limit inf3) (reg_finetune_lower_limit S))) ||
       ((reg_finetune_dual_update_threshold S <? i_no_dual_update inf3)%Z && qeqb (i_delta inf3) (i_reg_limit inf3)
        && negb (qeqb (i_reg_limit inf3) (reg_finetune_lower_limit S)))
    then inf3 <| i_reg_limit := reg_finetune_lower_limit S |> <| i_no_primal_update := 0%Z |> <| i_no_dual_update := 0%Z |>
    else inf3 in
  do st4 <- op_us (s_inf (s_it st1 it3) inf4) ;;
  do '(st5, ok) <- op_fac st4 ;;
  after_factor st5 ok it3 rx ry rz rz_lb rz_ub.

End Gen.
