(* SparseUpdateP.v -- the cost matrix P of the sparse interface: setup keeps the upper triangle, update(P)
   overwrites the stored values column by column (C10, sparse half).  Definitions only; executable Gallina,
   structural recursion only.

   C++ being modelled: include/piqp/solver.hpp, class SparseSolver

   * setup (line 1076; the same statement is in the base class, line 198):
         m_data.P_utri = P.template triangularView<Eigen::Upper>();
     For a column-major compressed matrix the assignment visits the columns in order and, inside a column,
     the stored entries in storage order (InnerIterator yields (row, value) pairs), and keeps exactly those
     with row <= column.  The result is a fresh compressed matrix: outer index = cumulative counts.
     Eigen's SparseTriangularView<Upper>::InnerIterator is  operator bool() = Base::operator bool() && index() <= outer :
     the iteration over a column STOPS at the first stored entry with row > column.  The assignment therefore keeps, of
     every column, the longest storage-order PREFIX of entries with row <= column (a takeWhile, not a filter); for columns
     in which no entry with row <= column follows an entry with row > column (in particular for sorted columns) this is
     the set of all entries with row <= column.  Checked against the code by harness/drv_updatep.cpp, e.g.
     colptr [0,2,4], rowind [1,0,0,1], vals [7,2,5,6]  |->  colptr [0,0,2], rowind [0,1], vals [5,6].
     Model: [triu] (faithful, takeWhile); [triu_filter] (all entries with row <= column) is the specification it meets
     under [upper_first_cols].

   * update, validation loop (lines 1171-1181):
         if (P->rows() != this->m_data.n || P->cols() != this->m_data.n) { error; return; }
         isize n = P->outerSize();
         for (isize j = 0; j < n; j++) {
             isize P_col_nnz      = P->outerIndexPtr()[j + 1] - P->outerIndexPtr()[j];
             isize P_utri_col_nnz = P_utri.outerIndexPtr()[j + 1] - P_utri.outerIndexPtr()[j];
             if (P_col_nnz < P_utri_col_nnz) { error; return; }
         }
     Model: [update_P_check] (true = accepted).  m_data.n is the dimension of the n x n matrix P_utri, it is
     read off as [ncols Pu].  The C++ differences are signed; on well-formed (monotone) outer indices, which
     every theorem assumes, they coincide with the truncated differences on nat used here.

   * update, copy loop (lines 1207-1216):
         isize n = P->outerSize();
         for (isize j = 0; j < n; j++) {
             isize P_utri_col_nnz = P_utri.outerIndexPtr()[j + 1] - P_utri.outerIndexPtr()[j];
             Map<Vec>(P_utri.valuePtr() + P_utri.outerIndexPtr()[j], P_utri_col_nnz)
                 = Map<const Vec>(P->valuePtr() + P->outerIndexPtr()[j], P_utri_col_nnz);
         }
     i.e. the FIRST P_utri_col_nnz values of the caller's column j are copied to the value array of P_utri at
     the positions of its column j.  The caller's row indices are not looked at; the outer and inner index of
     P_utri stay as they are.  Model: [update_P_copy]; every array access goes through get/upd, so a run that
     returns Ok performed no out-of-bounds access. *)
From PIQP Require Import Base CSC.
Local Open Scope nat_scope.

(* l[lo .. hi) *)
Definition seg {A} (l : list A) (lo hi : nat) : list A := firstn (hi - lo) (skipn lo l).

(* ---------- setup: P_utri = P.triangularView<Upper>() ---------- *)
Section Triu.
Context {V : Type}.

(* the (row, value) pairs of column j in storage order *)
Definition col_entries (A : csc V) (j : nat) : list (nat * V) :=
  seg (combine (rowind A) (vals A)) (nth j (colptr A) 0) (nth (S j) (colptr A) 0).

Definition keep_upper (j : nat) (e : nat * V) : bool := fst e <=? j.

(* the longest prefix whose elements satisfy f *)
Fixpoint takew {A} (f : A -> bool) (l : list A) : list A :=
  match l with
  | [] => []
  | x :: t => if f x then x :: takew f t else []
  end.

(* what the code keeps of column j: the iterator stops at the first entry below the diagonal *)
Definition triu_col (A : csc V) (j : nat) : list (nat * V) := takew (keep_upper j) (col_entries A j).
Definition triu_cols (A : csc V) : list (list (nat * V)) := map (triu_col A) (seq 0 (ncols A)).
(* the specification: every stored entry with row <= column *)
Definition triu_filter_col (A : csc V) (j : nat) : list (nat * V) := filter (keep_upper j) (col_entries A j).
Definition triu_filter_cols (A : csc V) : list (list (nat * V)) := map (triu_filter_col A) (seq 0 (ncols A)).

Definition triu (A : csc V) : csc V :=
  let cs := triu_cols A in
  mkcsc (nrows A) (ncols A)
        (cumsum 0 (map (@length _) cs))
        (map fst (concat cs))
        (map snd (concat cs)).

Definition triu_filter (A : csc V) : csc V :=
  let cs := triu_filter_cols A in
  mkcsc (nrows A) (ncols A)
        (cumsum 0 (map (@length _) cs))
        (map fst (concat cs))
        (map snd (concat cs)).

(* in every column no entry with row <= column is stored after an entry with row > column: exactly the condition under
   which the code's prefix is the whole upper part of the column *)
Definition upper_first_cols (A : csc V) : bool :=
  forallb (fun j => length (triu_col A j) =? length (triu_filter_col A j)) (seq 0 (ncols A)).

(* strictly increasing *)
Fixpoint incb (l : list nat) : bool :=
  match l with
  | a :: ((b :: _) as t) => (a <? b) && incb t
  | _ => true
  end.

(* inside every column the row indices are strictly increasing in storage order *)
Definition sorted_cols (A : csc V) : bool :=
  forallb (fun j => incb (seg (rowind A) (nth j (colptr A) 0) (nth (S j) (colptr A) 0))) (seq 0 (ncols A)).

End Triu.

(* ---------- update(P) ---------- *)
Definition update_P_check (Pu P : csc F) : bool :=
  (nrows P =? ncols Pu) && (ncols P =? ncols Pu) &&
  forallb (fun j =>
             let P_col_nnz := nth (S j) (colptr P) 0 - nth j (colptr P) 0 in
             let P_utri_col_nnz := nth (S j) (colptr Pu) 0 - nth j (colptr Pu) 0 in
             negb (P_col_nnz <? P_utri_col_nnz))
          (seq 0 (ncols P)).

(* one column of the copy loop; ucp = P_utri.outerIndexPtr(), pcp = P->outerIndexPtr(), src = P->valuePtr(),
   ux = P_utri.valuePtr() *)
Definition copy_col (ucp pcp : list nat) (src : list F) (j : nat) (ux : list F) : res (list F) :=
  do ulo <- get ucp j ;;
  do uhi <- get ucp (S j) ;;
  do plo <- get pcp j ;;
  for_range 0 (uhi - ulo) (fun k ux => do v <- get src (plo + k) ;; upd ux (ulo + k) v) ux.

Definition update_P_copy (Pu P : csc F) : res (csc F) :=
  do ux <- for_range 0 (ncols P) (copy_col (colptr Pu) (colptr P) (vals P)) (vals Pu) ;;
  Ok (mkcsc (nrows Pu) (ncols Pu) (colptr Pu) (rowind Pu) ux).

(* ---------- patterns ---------- *)
Definition same_pattern {V W} (A : csc V) (B : csc W) : Prop :=
  nrows A = nrows B /\ ncols A = ncols B /\ colptr A = colptr B /\ rowind A = rowind B.

Fixpoint list_nat_eqb (a b : list nat) : bool :=
  match a, b with
  | [], [] => true
  | x :: a', y :: b' => (x =? y) && list_nat_eqb a' b'
  | _, _ => false
  end.

Definition same_patternb {V W} (A : csc V) (B : csc W) : bool :=
  (nrows A =? nrows B) && (ncols A =? ncols B) &&
  list_nat_eqb (colptr A) (colptr B) && list_nat_eqb (rowind A) (rowind B).

(* all hypotheses of update_reads_upper_only_sparse as one computable check *)
Definition update_hyps_b (Pu P : csc F) : bool :=
  wf_csc Pu && wf_csc P &&
  (nrows P =? nrows Pu) && (ncols P =? ncols Pu) && (nrows P =? ncols P) &&
  sorted_cols P && same_patternb (triu P) Pu.

(* ---------- computable equality (for the evaluated examples) ---------- *)
Fixpoint vec_eqb (a b : list F) : bool :=
  match a, b with
  | [], [] => true
  | x :: a', y :: b' => qeqb x y && vec_eqb a' b'
  | _, _ => false
  end.

Definition csc_eqb (A B : csc F) : bool := same_patternb A B && vec_eqb (vals A) (vals B).

Definition res_csc_eqb (a b : res (csc F)) : bool :=
  match a, b with
  | Ok A, Ok B => csc_eqb A B
  | _, _ => false
  end.
