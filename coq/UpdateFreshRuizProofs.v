(* UpdateFreshRuizProofs.v -- C04-T5, part 1: the FRESH branch of scale_data (reuse_preconditioner = false) forgets the
   previous state of the preconditioner object.

   RuizEquilibration::scale_data(reuse = false) resets c, delta, delta_lb, delta_ub to one and rewrites all four inverse
   arrays at the end; in between the inverse arrays are scratch storage.  With [sparse_quirk] (sparse/preconditioner.hpp)
   the scratch vectors delta_iter_lb / delta_iter_ub are NOT reset: the first evaluation of the loop guard reads the
   PREVIOUS delta_lb_inv / delta_ub_inv.  That evaluation is dominated by ||1 - delta_iter||_inf = 1 (delta_iter was
   zeroed), so the guard is true whatever the old inverses are -- provided the guard's threshold [k_ruiz_eps] is < 1
   (it is 1e-3); for a threshold >= 1 the statement is FALSE (witness in UpdateFreshProofs.v).

     ruiz_fresh_forgets_pc      ruiz_scale_data K sq pc  d false sc it = ruiz_scale_data K sq pc' d false sc it
                                for any two preconditioner objects of the same kind and dimensions
     scale_fresh_forgets_pc     the same for scale_data (Ruiz and Identity), pc' = precond_init *)
From PIQP Require Import Base Data Bounds PrecondDense PrecondProofs JunkProofs.
From RecordUpdate Require Import RecordSet.
Import RecordSetNotations.
From Coq Require Import Lia.
Local Open Scope Qc_scope.

(* RR_bind that keeps the equations of the two runs *)
Lemma RR_bind_eqn {A1 A2 B C} (Q : A1 -> A2 -> Prop) (R : B -> C -> Prop) e1 e2 f1 f2 :
  RR Q e1 e2 -> (forall a1 a2, e1 = Ok a1 -> e2 = Ok a2 -> Q a1 a2 -> RR R (f1 a1) (f2 a2)) ->
  RR R (bind e1 f1) (bind e2 f2).
Proof. destruct e1, e2; cbn; intros H1 H2; auto; contradiction. Qed.

(* ---- scalars ---- *)
Lemma qmax_ge_l a b : a <= qmax a b.
Proof.
  unfold qmax. destruct (qltb a b) eqn:E.
  - apply qltb_true_iff in E. apply Qclt_le_weak, E.
  - apply Qcle_refl.
Qed.

Lemma qabs_one : qabs 1 = 1.
Proof. apply Qc_is_canon. reflexivity. Qed.

Lemma norm_inf_ones_aux n : forall acc, acc <= 1 -> fold_left (fun a x => qmax a (qabs x)) (repeat (1:F) n) acc = (if Nat.eqb n 0 then acc else 1).
Proof.
  induction n as [|n IH]; intros acc H; [reflexivity|].
  cbn [repeat fold_left]. rewrite qabs_one.
  assert (E : qmax acc 1 = 1).
  { unfold qmax. destruct (qltb acc 1) eqn:E; [reflexivity|]. apply qltb_false_iff in E. apply Qcle_antisym; assumption. }
  rewrite E. rewrite IH by apply Qcle_refl. destruct n; reflexivity.
Qed.

Lemma one_minus_zeros n : map (fun x : F => 1 - x) (vconst n 0) = repeat (1:F) n.
Proof.
  unfold vconst. induction n as [|n IH]; [reflexivity|]. cbn [repeat map]. rewrite IH. f_equal.
Qed.

Lemma norm_inf_one_minus_zeros n : (0 < n)%nat -> norm_inf (map (fun x : F => 1 - x) (vconst n 0)) = 1.
Proof.
  intros H. rewrite one_minus_zeros. unfold norm_inf. rewrite norm_inf_ones_aux.
  - destruct n; [lia|reflexivity].
  - unfold Qcle. cbn. discriminate.
Qed.

Section Forget.
Variable K : Consts.
Variable sq : bool.
Hypothesis SK : sane_consts K.

(* the inverse arrays (= scratch storage of the fresh branch) of [q] put into [pc] *)
Definition set_inv (q pc : Precond) : Precond :=
  mkPrecond (pc_ident pc) (pc_n pc) (pc_p pc) (pc_m pc) (pc_nlb pc) (pc_nub pc)
            (pc_c pc) (pc_delta pc) (pc_delta_lb pc) (pc_delta_ub pc)
            (pc_c_inv q) (pc_delta_inv q) (pc_delta_lb_inv q) (pc_delta_ub_inv q).

(* same data, same accumulated scalings; the scratch vectors and the inverse arrays are unrelated *)
Definition sim_lite (q : Precond) (a b : ruiz_st) : Prop := rz_d b = rz_d a /\ rz_pc b = set_inv q (rz_pc a).
(* ... and the loop guard reads the same values *)
Definition sim (q : Precond) (a b : ruiz_st) : Prop :=
  sim_lite q a b /\ rz_it b = rz_it a /\
  head (d_nlb (rz_d a)) (rz_it_lb b) = head (d_nlb (rz_d a)) (rz_it_lb a) /\
  head (d_nub (rz_d a)) (rz_it_ub b) = head (d_nub (rz_d a)) (rz_it_ub a).

Lemma sim_guard q a b : sim q a b ->
  ruiz_continue K (d_nlb (rz_d b)) (d_nub (rz_d b)) (rz_it b) (rz_it_lb b) (rz_it_ub b) =
  ruiz_continue K (d_nlb (rz_d a)) (d_nub (rz_d a)) (rz_it a) (rz_it_lb a) (rz_it_ub a).
Proof. intros [[Ed _] (Ei & El & Eu)]. unfold ruiz_continue. rewrite Ed, Ei, El, Eu. reflexivity. Qed.

(* one iteration from sim_lite states: same error, or sim results *)
Lemma ruiz_iter_sim q sc a b :
  wf_data (rz_d a) -> sim_lite q a b -> RR (sim q) (ruiz_iter K sq sc a) (ruiz_iter K sq sc b).
Proof.
  intros W [Ed Ep]. destruct a as [d pc it la ua], b as [d2 pc2 it2 lb2 ub2]. cbn in Ed, Ep, W. subst d2 pc2.
  pose proof (wf_nlb_le _ W) as Nlb. pose proof (wf_nub_le _ W) as Nub.
  assert (Ll : length (head (d_nlb d) (d_lb_scaling d)) = d_nlb d) by (apply length_head; rewrite (wfd_lbs _ W); exact Nlb).
  assert (Lu : length (head (d_nub d) (d_ub_scaling d)) = d_nub d) by (apply length_head; rewrite (wfd_ubs _ W); exact Nub).
  unfold ruiz_iter. cbv zeta. cbn [rz_d rz_pc rz_it rz_it_lb rz_it_ub].
  destruct (scatter_max _ (d_lb_idx d) _) as [it_x1|]; cbn [bind]; [|reflexivity].
  destruct (scatter_max _ (d_ub_idx d) _) as [it_x2|]; cbn [bind]; [|reflexivity].
  destruct (sqrt_inv (map (limit_scaling K) (it_x2 ++ _))) as [it1|]; cbn [bind]; [|reflexivity].
  destruct (sqrt_inv_limit_ok K SK (set_head (head (d_nlb d) (d_lb_scaling d)) la)) as [r E4].
  destruct (sqrt_inv_limit_ok K SK (set_head (head (d_nub d) (d_ub_scaling d)) ua)) as [u E5].
  destruct (sqrt_inv_limit_ok K SK (set_head (head (d_nlb d) (d_lb_scaling d)) lb2)) as [r2 E4'].
  destruct (sqrt_inv_limit_ok K SK (set_head (head (d_nub d) (d_ub_scaling d)) ub2)) as [u2 E5'].
  rewrite E4, E5, E4', E5'. cbn [bind].
  pose proof (head_sqrt_inv_indep K _ _ _ _ _ _ Ll E4 E4') as Hr.
  pose proof (head_sqrt_inv_indep K _ _ _ _ _ _ Lu E5 E5') as Hu.
  rewrite Hr, Hu.
  destruct (mul_gather _ it1 (d_lb_idx d)) as [lbs1|]; cbn [bind]; [|reflexivity].
  destruct (mul_gather _ it1 (d_ub_idx d)) as [ubs1|]; cbn [bind]; [|reflexivity].
  destruct pc as [pid pn pp pm pnl pnu pcc pdl pdlb pdub pci pdi pdlbi pdubi].
  unfold set_inv. cbn [pc_ident pc_n pc_p pc_m pc_nlb pc_nub pc_c pc_delta pc_delta_lb pc_delta_ub].
  destruct sc.
  - destruct (qdiv _ (qofnat _)) as [g1|]; cbn [bind]; [|reflexivity].
    destruct (qinv _) as [g|]; cbn [bind]; [|reflexivity].
    cbn. unfold sim, sim_lite, set_inv. cbn.
    split; [split; reflexivity|]. split; [reflexivity|].
    destruct sq; cbn; auto.
  - cbn [bind]. cbn. unfold sim, sim_lite, set_inv. cbn.
    split; [split; reflexivity|]. split; [reflexivity|].
    rewrite andb_false_r. auto.
Qed.

Lemma ruiz_loop_sim q d0 sc fuel : forall a b,
  rz_inv d0 a -> sim q a b -> RR (sim_lite q) (ruiz_loop K sq fuel sc a) (ruiz_loop K sq fuel sc b).
Proof.
  induction fuel as [|f IH]; intros a b I H; cbn [ruiz_loop].
  - cbn. apply H.
  - rewrite (sim_guard q a b H).
    destruct (ruiz_continue _ _ _ _ _ _).
    + eapply RR_bind_eqn; [apply ruiz_iter_sim; [apply I|apply H]|].
      intros a1 b1 E1 _ H1. apply IH; [|exact H1].
      eapply ruiz_iter_preserves; eauto.
    + cbn. apply H.
Qed.

(* the common final part overwrites the four inverse arrays *)
Lemma ruiz_finish_sim q a b : sim_lite q a b -> ruiz_finish b = ruiz_finish a.
Proof.
  intros [Ed Ep]. unfold ruiz_finish. rewrite Ed, Ep.
  destruct (rz_pc a) as [pid pn pp pm pnl pnu pcc pdl pdlb pdub pci pdi pdlbi pdubi].
  unfold set_inv. cbn [pc_ident pc_n pc_p pc_m pc_nlb pc_nub pc_c pc_delta pc_delta_lb pc_delta_ub].
  destruct (qinv pcc); cbn [bind]; [|reflexivity].
  destruct (vinv pdl); cbn [bind]; [|reflexivity].
  destruct (vinv pdlb); cbn [bind]; [|reflexivity].
  destruct (vinv pdub); cbn [bind]; [|reflexivity].
  reflexivity.
Qed.

Definition same_kind (pc pc' : Precond) : Prop :=
  pc_ident pc' = pc_ident pc /\ pc_n pc' = pc_n pc /\ pc_p pc' = pc_p pc /\ pc_m pc' = pc_m pc.

Lemma pc_fresh_set_inv pc pc' d : same_kind pc pc' -> pc_fresh pc' d = set_inv pc' (pc_fresh pc d).
Proof. intros (E1 & E2 & E3 & E4). unfold pc_fresh, set_inv. cbn. rewrite E1, E2, E3, E4. reflexivity. Qed.

(* the first evaluation of the guard: delta_iter = 0 dominates, whatever delta_iter_lb / delta_iter_ub hold *)
Lemma first_guard_true N nlb nub (lb ub : Vec) :
  (0 < N)%nat -> k_ruiz_eps K < 1 -> ruiz_continue K nlb nub (vconst N 0) lb ub = true.
Proof.
  intros HN He. unfold ruiz_continue. rewrite norm_inf_one_minus_zeros by exact HN.
  apply qltb_true_iff. eapply Qclt_le_trans; [exact He|].
  eapply Qcle_trans; [apply qmax_ge_l|]. apply qmax_ge_l.
Qed.

End Forget.

Theorem ruiz_fresh_forgets_pc K sq pc pc' d sc it :
  sane_consts K ->
  (sq = true -> k_ruiz_eps K < 1) ->
  wf_data d -> dims_agree pc d -> same_kind pc pc' ->
  ruiz_scale_data K sq pc' d false sc it = ruiz_scale_data K sq pc d false sc it.
Proof.
  intros SK He W DA SKd. rewrite !scale_fresh_is_loop_finish.
  pose proof (rz_inv_fresh sq pc d W DA) as I0.
  pose proof SKd as (E1 & E2 & E3 & E4).
  assert (L0 : sim_lite pc' (st_fresh sq pc d) (st_fresh sq pc' d)).
  { split; [reflexivity|]. cbn [rz_pc st_fresh]. apply pc_fresh_set_inv, SKd. }
  assert (G : RR (sim_lite pc') (ruiz_loop K sq (Z.to_nat it) sc (st_fresh sq pc d))
                               (ruiz_loop K sq (Z.to_nat it) sc (st_fresh sq pc' d))).
  { destruct sq eqn:Esq.
    - (* sparse quirk: the scratch vectors are the old inverse arrays *)
      destruct (Z.to_nat it) as [|f]; [cbn; exact L0|].
      cbn [ruiz_loop]. cbn [rz_d rz_it rz_it_lb rz_it_ub st_fresh]. rewrite E2, E3, E4.
      destruct (Nat.eq_dec (pc_n pc + pc_p pc + pc_m pc) 0) as [Z0|NZ].
      + (* no variables at all: the box parts of the guard are empty *)
        destruct DA as (Dn & Dp & Dm).
        pose proof (wf_nlb_le _ W). pose proof (wf_nub_le _ W).
        assert (Hl : d_nlb d = 0%nat) by lia. assert (Hu : d_nub d = 0%nat) by lia.
        assert (Gd : forall lb ub lb' ub', ruiz_continue K (d_nlb d) (d_nub d) (vconst (pc_n pc + pc_p pc + pc_m pc) 0) lb ub =
                                          ruiz_continue K (d_nlb d) (d_nub d) (vconst (pc_n pc + pc_p pc + pc_m pc) 0) lb' ub').
        { intros. unfold ruiz_continue. rewrite Hl, Hu. reflexivity. }
        rewrite (Gd (pc_delta_lb_inv pc') (pc_delta_ub_inv pc') (pc_delta_lb_inv pc) (pc_delta_ub_inv pc)).
        destruct (ruiz_continue _ _ _ _ _ _).
        * eapply RR_bind_eqn; [apply ruiz_iter_sim; [exact SK|exact W|exact L0]|].
          intros a1 b1 Ea _ H1. eapply ruiz_loop_sim; [exact SK| |exact H1]. eapply ruiz_iter_preserves; eauto.
        * cbn. exact L0.
      + rewrite !first_guard_true by (auto; lia).
        eapply RR_bind_eqn; [apply ruiz_iter_sim; [exact SK|exact W|exact L0]|].
        intros a1 b1 Ea _ H1. eapply ruiz_loop_sim; [exact SK| |exact H1]. eapply ruiz_iter_preserves; eauto.
    - (* dense code: the scratch vectors are zeroed *)
      eapply ruiz_loop_sim; [exact SK|exact I0|]. split; [exact L0|]. cbn. rewrite E2, E3, E4. auto. }
  destruct (ruiz_loop K sq (Z.to_nat it) sc (st_fresh sq pc d)) as [a|ea];
    destruct (ruiz_loop K sq (Z.to_nat it) sc (st_fresh sq pc' d)) as [b|eb]; cbn in G; try contradiction; cbn [bind].
  - apply ruiz_finish_sim with (q := pc'). exact G.
  - congruence.
Qed.
