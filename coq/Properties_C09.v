(* Properties_C09.v -- C09 "Reported diagnostics describe the returned point":
   T1 status/iter bookkeeping, T2 objectives, T3 residual norms.  Vocabulary: ResidSpec.v. *)
From PIQP Require Import Base Data Bounds PrecondDense KKTDense IPM API ResidLemmas ResidSpec ResidProofs ResidLoopProofs ResidExample.
From PIQP.gen Require Import Consts.
Local Open Scope Qc_scope.

(* T1: the status returned by solve() is the status stored in info *)
Theorem info_status_solve :
  forall K junk cp_bits fault sv sv' status,
  solve K junk cp_bits fault sv = Ok (sv', status) -> i_status (sv_info sv') = status.
Proof. exact solve_status_proof. Qed.
Print Assumptions info_status_solve.

(* T1: every stopping exit of a pass sets one of these four statuses in st_inf ... *)
Theorem info_status_pass :
  forall K S d pc fault cp st st',
  loop_pass K S d pc fault cp st = Ok (Stop st') ->
  i_status (st_inf st') = SOLVED \/ i_status (st_inf st') = PRIMAL_INFEASIBLE \/
  i_status (st_inf st') = DUAL_INFEASIBLE \/ i_status (st_inf st') = NUMERICS.
Proof. exact loop_pass_stop_status. Qed.
Print Assumptions info_status_pass.

(* ... and the loop adds MAX_ITER_REACHED only *)
Theorem info_status_loop :
  forall K S d pc fault cp fuel st st',
  main_loop K S d pc fault cp fuel st = Ok st' -> pass_inv K S d pc st ->
  i_status (st_inf st') = MAX_ITER_REACHED \/ i_status (st_inf st') = NUMERICS \/ i_status (st_inf st') = SOLVED \/
  i_status (st_inf st') = PRIMAL_INFEASIBLE \/ i_status (st_inf st') = DUAL_INFEASIBLE.
Proof. exact main_loop_status. Qed.
Print Assumptions info_status_loop.

(* T1: iter never exceeds max_iter *)
Theorem info_iter_bound :
  forall K S d pc fault cp fuel st st',
  main_loop K S d pc fault cp fuel st = Ok st' -> pass_inv K S d pc st ->
  (i_iter (st_inf st) <= max_iter S)%Z -> (i_iter (st_inf st') <= max_iter S)%Z.
Proof. exact main_loop_iter_bound. Qed.
Print Assumptions info_iter_bound.

(* T2 + T3: objectives, gap, relative scales and residual norms computed by update_nr_residuals /
   primal_inf_nr / dual_inf_nr are those of the user's problem at the unscaled iterate (any iterate) *)
Theorem info_objectives_and_residuals :
  forall (d : Data) (pc : Precond) (U : UserQP) (K : Consts) (it : Iterate) (inf : Info) (res : Resid) (inf' : Info),
  data_shape d -> pc_shape pc d -> pc_inverse pc d -> 0 < pc_c pc ->
  is_scaled_of pc d U -> lower_zero (d_n d) (d_P d) -> it_shape d it ->
  update_nr_residuals d pc K it inf = Ok (res, inf') ->
  let X := unscale_point pc it in
  i_primal_obj inf' = X_pobj U d X (k_half K) /\
  i_dual_obj inf' = X_dobj U d X (k_half K) /\
  i_duality_gap inf' = qabs (X_pobj U d X (k_half K) - X_dobj U d X (k_half K)) /\
  i_duality_gap_rel inf' = X_gap_rel U d X /\
  i_primal_rel_inf inf' = X_primal_rel U d X /\
  i_dual_rel_inf inf' = X_dual_rel U d X /\
  primal_inf_nr pc res = X_primal_inf U d X /\
  dual_inf_nr pc res = X_dual_inf U d X.
Proof. exact info_objectives_and_residuals_proof. Qed.
Print Assumptions info_objectives_and_residuals.

(* T3 at the stopping points SOLVED / PRIMAL_INFEASIBLE / DUAL_INFEASIBLE of a pass *)
Theorem info_verdict_diagnostics :
  forall U d pc K S fault cp st st',
  scaled_problem U d pc ->
  loop_pass K S d pc fault cp st = Ok (Stop st') ->
  (i_iter (st_inf st) = 0%Z \/ nr_consistent d pc K (st_it st) (st_res st) (st_inf st)) ->
  it_shape d (st_it st') ->
  i_status (st_inf st') = NUMERICS \/ diagnostics_true U d pc (k_half K) (st_it st') (st_inf st').
Proof. exact verdict_diagnostics_pass. Qed.
Print Assumptions info_verdict_diagnostics.

(* ---- non-vacuity ---- *)
Example ex_scaled_problem : scaled_problem exU exd expc.
Proof. exact ex_scaled_problem_proof. Qed.
Example ex_it_shape_any : it_shape exd exit_any.
Proof. exact ex_it_shape_any_proof. Qed.
Example ex_run_any :
  match update_nr_residuals exd expc consts exit_any exinfo with
  | Ok (res, inf') =>
      veqb (unscale_dual_res expc (rx_nr res)) [q (-51553) 20790; q 367 378] &&
      veqb (tab 2 (fun i => - X_stat exU exd (unscale_point expc exit_any) i)) [q (-51553) 20790; q 367 378] &&
      qeqb (i_primal_obj inf') (X_pobj exU exd (unscale_point expc exit_any) (k_half consts)) &&
      negb (qeqb (i_primal_obj inf') 0) &&
      qltb 0 (primal_inf_nr expc res) && qltb 0 (dual_inf_nr expc res)
  | Err _ => false
  end = true.
Proof. exact ex_run_any_proof. Qed.
Example ex_loop_pass_solved :
  exists st', loop_pass consts exS exd expc (fun _ => false) (fun v => v) ex_st = Ok (Stop st') /\
              i_status (st_inf st') = SOLVED /\ i_iter (st_inf ex_st) = 0%Z.
Proof. exact ex_loop_pass_solved_proof. Qed.
Example ex_half : k_half consts = Q2Qc (1 # 2).
Proof. exact ex_half_proof. Qed.
