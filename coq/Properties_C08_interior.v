(* Properties_C08_interior.v -- C08-T1 `iterates_interior`: the slacks and the inequality multipliers of the interior
   point loop of solver.hpp (`solve_impl`, model IPM.v, exact rationals) stay strictly positive -- at the initial point
   (Mehrotra shift) and after every pass of the main loop, for ALL problem sizes, ALL data and ANY step direction.
   Proofs: InteriorProofs.v.  Instances: InteriorExamples.v.

   Predicates (InteriorProofs.v):
     vpos v          every entry of v is > 0                      vle a b   entrywise a <= b (same length)
     ItPos it        vpos of s, s_lb, s_ub, z, z_lb, z_ub of the iterate
     InfPos inf      i_rho, i_delta, i_reg_limit > 0
     Positive st     ItPos (st_it st) /\ InfPos (st_inf st)                       (no assumption on lengths)
     ItShape d it    s, z, nu have length m; s_lb, z_lb, nu_lb length n_lb; s_ub, z_ub, nu_ub length n_ub
     Shaped d st     ItShape /\ (nineq > 0 -> i_mu > 0) /\ (i_iter = 0 \/ the stored residuals have these lengths)
     Interior d st   Positive st /\ Shaped d st
     DataShape d     GT has m columns, h length m, packed bounds length n_lb / n_ub, scalings at least that long
     KShape d k      the scaling vectors held by the KKT object have length m / at least n_lb / n_ub
     KSign d k       z_inv_i * s_i > 0 in every slot of the KKT object's scalings (1 after init / reset / retry)
     SZShape d it    the six vectors s, z, s_lb, z_lb, s_ub, z_ub have lengths m, m, n_lb, n_lb, n_ub, n_ub
     cp_pos cp       q > 0 -> cp q > 0          cp_sign cp   cp keeps the sign (hence cp 0 = 0) *)
From PIQP Require Import Base Data Bounds PrecondDense KKTDense IPM InteriorProofs InteriorExamples.
From PIQP.gen Require Import Consts.
From RecordUpdate Require Import RecordSet.
Import RecordSetNotations.
Local Open Scope Qc_scope.

(* ---------- F. fraction to the boundary ---------- *)

(* the ratio test never divides by zero on a positive vector (the divisor dv_i is tested < 0 first) *)
Theorem C08_ratio_min_never_fails :
  forall (v dv : Vec) (a0 : Qc), vpos v -> 0 < a0 -> exists a : F, ratio_min a0 v dv = Ok a.
Proof. exact ratio_min_never_fails. Qed.
Print Assumptions C08_ratio_min_never_fails.

Theorem C08_fraction_to_boundary :
  forall (v dv : Vec) (a0 : Qc) (a : F) (tau : Qc),
  vpos v -> 0 < a0 -> a0 <= 1 -> 0 < tau -> tau <= 1 ->
  ratio_min a0 v dv = Ok a ->
  0 < a /\ a <= a0 /\ a <= 1 /\
  (forall i : nat, (i < length v)%nat -> (i < length dv)%nat ->
     (1 - tau) * nth i v 0 <= nth i v 0 + a * tau * nth i dv 0).
Proof. exact fraction_to_boundary. Qed.
Print Assumptions C08_fraction_to_boundary.

Theorem C08_fraction_to_boundary_strict :
  forall (v dv : Vec) (a0 : Qc) (a : F) (tau : Qc),
  vpos v -> 0 < a0 -> a0 <= 1 -> 0 < tau -> tau < 1 ->
  ratio_min a0 v dv = Ok a ->
  forall i : nat, (i < length v)%nat -> (i < length dv)%nat -> 0 < nth i v 0 + a * tau * nth i dv 0.
Proof. exact fraction_to_boundary_strict. Qed.
Print Assumptions C08_fraction_to_boundary_strict.

Theorem C08_fraction_to_boundary_tau_one :
  forall (v dv : Vec) (a0 : Qc) (a : F),
  vpos v -> 0 < a0 -> a0 <= 1 ->
  ratio_min a0 v dv = Ok a ->
  forall i : nat, (i < length v)%nat -> (i < length dv)%nat -> 0 <= nth i v 0 + a * 1 * nth i dv 0.
Proof. exact fraction_to_boundary_tau_one. Qed.
Print Assumptions C08_fraction_to_boundary_tau_one.

(* the three blocks together: step_lengths cannot fail at a positive point, its results are in (0,1], and the damped
   update of every block is positive, for ANY direction stp *)
Theorem C08_step_lengths_spec :
  forall (it : Iterate) (stp : Step),
  ItPos it ->
  exists a_s a_z : F,
    step_lengths it stp = Ok (a_s, a_z) /\ 0 < a_s /\ a_s <= 1 /\ 0 < a_z /\ a_z <= 1 /\
    (forall tau : Qc, 0 <= tau -> tau < 1 ->
       vpos (vadd (s it) (vscale (a_s * tau) (st_s stp))) /\
       vpos (vadd (s_lb it) (vscale (a_s * tau) (st_s_lb stp))) /\
       vpos (vadd (s_ub it) (vscale (a_s * tau) (st_s_ub stp))) /\
       vpos (vadd (z it) (vscale (a_z * tau) (st_z stp))) /\
       vpos (vadd (z_lb it) (vscale (a_z * tau) (st_z_lb stp))) /\
       vpos (vadd (z_ub it) (vscale (a_z * tau) (st_z_ub stp)))).
Proof. exact step_lengths_spec. Qed.
Print Assumptions C08_step_lengths_spec.

(* the update `it4` of loop_pass ([step_update] is that expression; the proof of loop_invariant checks it by conversion) *)
Theorem C08_step_update_keeps_positive :
  forall (cp : F -> F) (tau : Qc) (it3 : Iterate) (c : Step) (b_s0 b_z0 : F),
  cp_pos cp -> 0 <= tau -> tau < 1 -> ItPos it3 ->
  step_lengths it3 c = Ok (b_s0, b_z0) ->
  0 < b_s0 /\ b_s0 <= 1 /\ 0 < b_z0 /\ b_z0 <= 1 /\ ItPos (step_update cp it3 c (b_s0 * tau) (b_z0 * tau)).
Proof. exact step_update_keeps_positive. Qed.
Print Assumptions C08_step_update_keeps_positive.

(* ---------- B. boundary control ---------- *)

Theorem C08_boundary_shift_keeps_positive :
  forall (K : Consts) (it : Iterate),
  0 < k_eps K -> ItPos it ->
  ItPos (boundary_shift K it) /\
  vle (z it) (z (boundary_shift K it)) /\
  vle (z_lb it) (z_lb (boundary_shift K it)) /\
  vle (z_ub it) (z_ub (boundary_shift K it)) /\
  s (boundary_shift K it) = s it /\ s_lb (boundary_shift K it) = s_lb it /\ s_ub (boundary_shift K it) = s_ub it.
Proof. exact boundary_shift_keeps_positive. Qed.
Print Assumptions C08_boundary_shift_keeps_positive.

(* ---------- C. checkpoint rounding ---------- *)

Theorem C08_cp_positive :
  forall (k : Z) (q : F),
  (0 < round_cp k q <-> 0 < q) /\ (round_cp k q < 0 <-> q < 0) /\ round_cp k 0 = 0.
Proof. intros k q. exact (conj (round_cp_pos k q) (conj (round_cp_neg k q) (round_cp_zero k))). Qed.
Print Assumptions C08_cp_positive.

Theorem C08_round_cp_is_admissible : forall k : Z, cp_sign (round_cp k) /\ cp_pos (round_cp k).
Proof. intros k. exact (conj (round_cp_sign k) (round_cp_cp_pos k)). Qed.
Print Assumptions C08_round_cp_is_admissible.

(* ---------- E. initial point ---------- *)

(* exact success condition of the Mehrotra shift on arbitrary vectors (the expressions are those of initial_point):
   both divisions succeed and all shifted entries are > 0  iff  tmp_prod > 0  iff  some slot has both shifted
   entries > 0; tmp_prod >= 0 always *)
Theorem C08_mehrotra_shift_exact :
  forall (ksh half : Qc) (a b c a' b' c' : Vec) (N : nat),
  1 < ksh -> 0 < half ->
  length a = length a' -> length b = length b' -> length c = length c' ->
  N = (length a + length b + length c)%nat -> (0 < N)%nat ->
  let ds := delta3 ksh a b c in
  let dz := delta3 ksh a' b' c' in
  let tp := dot (vaddc ds a) (vaddc dz a') + dot (vaddc ds b) (vaddc dz b') + dot (vaddc ds c) (vaddc dz c') in
  let den_s := vsum a' + vsum b' + vsum c' + qofnat N * dz in
  let den_z := vsum a + vsum b + vsum c + qofnat N * ds in
  ((exists qs qz : F,
      qdiv (half * tp) den_s = Ok qs /\ qdiv (half * tp) den_z = Ok qz /\
      vpos (vaddc (ds + qs) a) /\ vpos (vaddc (ds + qs) b) /\ vpos (vaddc (ds + qs) c) /\
      vpos (vaddc (dz + qz) a') /\ vpos (vaddc (dz + qz) b') /\ vpos (vaddc (dz + qz) c')) <-> 0 < tp) /\
  (0 < tp <-> Exists (fun p : F * F => 0 < fst p + ds /\ 0 < snd p + dz) (combine (a ++ b ++ c) (a' ++ b' ++ c'))) /\
  0 <= tp.
Proof. exact mehrotra_shift_exact. Qed.
Print Assumptions C08_mehrotra_shift_exact.

(* once the initial KKT solve has returned, initial_point cannot fail and its result is interior with mu > 0 *)
Theorem C08_initial_point_interior :
  forall (K : Consts) (S : Settings) (d : Data) (cp : F -> F),
  cp_sign cp -> 1 < k_shift K -> 0 < k_half K -> 0 < k_sinit K -> 0 <= k_snorm K ->
  DataShape d ->
  forall (st : St) (stp : Step),
  KShape d (st_kkt st) -> KSign d (st_kkt st) -> InfPos (st_inf st) -> i_iter (st_inf st) = 0%Z ->
  init_solve S d st = Ok stp ->
  exists st' : St, initial_point K S d cp st = Ok st' /\ Interior d st'.
Proof. exact initial_point_interior. Qed.
Print Assumptions C08_initial_point_interior.

Theorem C08_initial_point_ok_interior :
  forall (K : Consts) (S : Settings) (d : Data) (cp : F -> F),
  cp_sign cp -> 1 < k_shift K -> 0 < k_half K -> 0 < k_sinit K -> 0 <= k_snorm K ->
  DataShape d ->
  forall st st' : St,
  KShape d (st_kkt st) -> KSign d (st_kkt st) -> InfPos (st_inf st) -> i_iter (st_inf st) = 0%Z ->
  initial_point K S d cp st = Ok st' -> Interior d st'.
Proof. exact initial_point_ok_interior. Qed.
Print Assumptions C08_initial_point_ok_interior.

(* ---------- L. the loop ---------- *)

(* positivity alone is an invariant of one pass: no assumption on shapes, data, KKT state or step direction *)
Theorem C08_loop_pass_positive :
  forall (K : Consts) (S : Settings) (d : Data) (pc : Precond) (fault : nat -> bool) (cp : F -> F),
  cp_pos cp -> 0 < tau S -> tau S < 1 -> 0 < reg_finetune_lower_limit S -> 0 < eps_abs S ->
  0 < k_eps K -> 0 < k_retry_mul K -> 0 < k_reglim_mul K ->
  forall (st : St) (o : Outcome),
  Positive st -> loop_pass K S d pc fault cp st = Ok o -> Positive (outcome_state o).
Proof. exact loop_pass_positive. Qed.
Print Assumptions C08_loop_pass_positive.

Theorem C08_loop_invariant :
  forall (K : Consts) (S : Settings) (d : Data) (pc : Precond) (fault : nat -> bool) (cp : F -> F),
  cp_pos cp -> 0 < tau S -> tau S < 1 -> 0 < reg_finetune_lower_limit S -> 0 < eps_abs S ->
  0 < k_eps K -> 0 < k_retry_mul K -> 0 < k_reglim_mul K ->
  forall (st : St) (o : Outcome),
  DataShape d -> Interior d st -> loop_pass K S d pc fault cp st = Ok o -> Interior d (outcome_state o).
Proof. exact loop_invariant. Qed.
Print Assumptions C08_loop_invariant.

Theorem C08_main_loop_positive :
  forall (K : Consts) (S : Settings) (d : Data) (pc : Precond) (fault : nat -> bool) (cp : F -> F),
  cp_pos cp -> 0 < tau S -> tau S < 1 -> 0 < reg_finetune_lower_limit S -> 0 < eps_abs S ->
  0 < k_eps K -> 0 < k_retry_mul K -> 0 < k_reglim_mul K ->
  forall (fuel : nat) (st st' : St),
  Positive st -> main_loop K S d pc fault cp fuel st = Ok st' -> Positive st'.
Proof. exact main_loop_positive. Qed.
Print Assumptions C08_main_loop_positive.

Theorem C08_main_loop_interior :
  forall (K : Consts) (S : Settings) (d : Data) (pc : Precond) (fault : nat -> bool) (cp : F -> F),
  cp_pos cp -> 0 < tau S -> tau S < 1 -> 0 < reg_finetune_lower_limit S -> 0 < eps_abs S ->
  0 < k_eps K -> 0 < k_retry_mul K -> 0 < k_reglim_mul K ->
  forall (fuel : nat) (st st' : St),
  DataShape d -> Interior d st ->
  main_loop K S d pc fault cp fuel st = Ok st' ->
  Positive st' /\ ItShape d (st_it st') /\ ((0 < nineq d)%nat -> 0 < i_mu (st_inf st')).
Proof. exact main_loop_interior. Qed.
Print Assumptions C08_main_loop_interior.

(* ---------- C08-T1 ---------- *)

Theorem C08_iterates_interior :
  forall (K : Consts) (S : Settings) (d : Data) (pc : Precond) (fault : nat -> bool) (cp : F -> F),
  cp_sign cp -> 1 < k_shift K -> 0 < k_half K -> 0 < k_sinit K -> 0 <= k_snorm K ->
  0 < k_eps K -> 0 < k_retry_mul K -> 0 < k_reglim_mul K ->
  0 < tau S -> tau S < 1 -> 0 < reg_finetune_lower_limit S -> 0 < eps_abs S ->
  DataShape d ->
  forall (fuel : nat) (st st1 st2 : St),
  KShape d (st_kkt st) -> KSign d (st_kkt st) -> InfPos (st_inf st) -> i_iter (st_inf st) = 0%Z ->
  initial_point K S d cp st = Ok st1 ->
  main_loop K S d pc fault cp fuel st1 = Ok st2 ->
  Interior d st1 /\
  Positive st2 /\ ItShape d (st_it st2) /\ ((0 < nineq d)%nat -> 0 < i_mu (st_inf st2)).
Proof. exact iterates_interior. Qed.
Print Assumptions C08_iterates_interior.

(* the same without auxiliary predicates in the conclusion *)
Theorem C08_iterates_interior_elementary :
  forall (K : Consts) (S : Settings) (d : Data) (pc : Precond) (fault : nat -> bool) (cp : F -> F),
  cp_sign cp -> 1 < k_shift K -> 0 < k_half K -> 0 < k_sinit K -> 0 <= k_snorm K ->
  0 < k_eps K -> 0 < k_retry_mul K -> 0 < k_reglim_mul K ->
  0 < tau S -> tau S < 1 -> 0 < reg_finetune_lower_limit S -> 0 < eps_abs S ->
  DataShape d ->
  forall (fuel : nat) (st st1 st2 : St),
  KShape d (st_kkt st) -> KSign d (st_kkt st) -> InfPos (st_inf st) -> i_iter (st_inf st) = 0%Z ->
  initial_point K S d cp st = Ok st1 ->
  main_loop K S d pc fault cp fuel st1 = Ok st2 ->
  forall it : Iterate, it = st_it st1 \/ it = st_it st2 ->
    (forall x : F, In x (s it) \/ In x (s_lb it) \/ In x (s_ub it) \/ In x (z it) \/ In x (z_lb it) \/ In x (z_ub it) ->
                   0 < x) /\
    length (s it) = d_m d /\ length (z it) = d_m d /\ length (s_lb it) = d_nlb d /\ length (z_lb it) = d_nlb d /\
    length (s_ub it) = d_nub d /\ length (z_ub it) = d_nub d.
Proof. exact iterates_interior_elementary. Qed.
Print Assumptions C08_iterates_interior_elementary.

(* ---------- the hypotheses KShape / KSign / InfPos hold where solve() calls initial_point ---------- *)

Theorem C08_kkt_init_ok :
  forall (d : Data) (rho delta junk : F) (k : KKT),
  kkt_init d rho delta junk = Ok k -> KShape d k /\ KSign d k.
Proof. exact kkt_init_ok. Qed.
Print Assumptions C08_kkt_init_ok.

(* update_scalings from a positive iterate (solve() uses s = z = 1) *)
Theorem C08_do_update_scalings_ok :
  forall (d : Data) (st st' : St),
  do_update_scalings d st = Ok st' -> ItPos (st_it st) -> SZShape d (st_it st) ->
  KShape d (st_kkt st') /\ KSign d (st_kkt st') /\
  st_it st' = st_it st /\ st_inf st' = st_inf st /\ st_refine st' = st_refine st.
Proof. exact do_update_scalings_ok. Qed.
Print Assumptions C08_do_update_scalings_ok.

Theorem C08_init_factor_ok :
  forall (K : Consts) (S : Settings) (d : Data) (fault : nat -> bool),
  0 < k_retry_mul K -> 0 < k_reglim_mul K -> 0 < eps_abs S ->
  forall (fuel : nat) (st st' : St) (ok : bool),
  init_factor K S d fault fuel st = Ok (st', ok) ->
  ItPos (st_it st) -> SZShape d (st_it st) -> KShape d (st_kkt st) -> KSign d (st_kkt st) -> InfPos (st_inf st) ->
  KShape d (st_kkt st') /\ KSign d (st_kkt st') /\ InfPos (st_inf st') /\
  st_it st' = st_it st /\ i_iter (st_inf st') = i_iter (st_inf st).
Proof. exact init_factor_ok. Qed.
Print Assumptions C08_init_factor_ok.

(* the three stages of solve() chained (same shape as API.solve): every state that can be returned has positive
   slacks and multipliers, for every fault pattern of the factorisation and every fuel *)
Theorem C08_solve_path_interior :
  forall (K : Consts) (S : Settings) (d : Data) (pc : Precond) (fault : nat -> bool) (cp : F -> F),
  cp_sign cp -> 1 < k_shift K -> 0 < k_half K -> 0 < k_sinit K -> 0 <= k_snorm K ->
  0 < k_eps K -> 0 < k_retry_mul K -> 0 < k_reglim_mul K ->
  0 < tau S -> tau S < 1 -> 0 < reg_finetune_lower_limit S -> 0 < eps_abs S ->
  DataShape d ->
  forall (fuel0 fuel : nat) (st st2 st3 st4 : St),
  ItPos (st_it st) -> SZShape d (st_it st) -> KShape d (st_kkt st) -> KSign d (st_kkt st) ->
  InfPos (st_inf st) -> i_iter (st_inf st) = 0%Z ->
  init_factor K S d fault fuel0 st = Ok (st2, true) ->
  initial_point K S d cp (st2 <| st_inf := (st_inf st2) <| i_factor_retires := 0%Z |> |>) = Ok st3 ->
  main_loop K S d pc fault cp fuel st3 = Ok st4 ->
  Interior d st3 /\
  Positive st4 /\ ItShape d (st_it st4) /\ ((0 < nineq d)%nat -> 0 < i_mu (st_inf st4)).
Proof. exact solve_path_interior. Qed.
Print Assumptions C08_solve_path_interior.

Theorem C08_solve_path_numerics_exit :
  forall (K : Consts) (S : Settings) (d : Data) (fault : nat -> bool),
  0 < k_retry_mul K -> 0 < k_reglim_mul K -> 0 < eps_abs S ->
  forall (fuel0 : nat) (st st2 : St),
  ItPos (st_it st) -> SZShape d (st_it st) -> KShape d (st_kkt st) -> KSign d (st_kkt st) -> InfPos (st_inf st) ->
  init_factor K S d fault fuel0 st = Ok (st2, false) -> st_it st2 = st_it st /\ ItPos (st_it st2).
Proof. exact solve_path_numerics_exit. Qed.
Print Assumptions C08_solve_path_numerics_exit.

(* ---------- non-vacuity: concrete instances (InteriorExamples.v), constants regenerated from the source ---------- *)

(* the hypotheses on the constants hold for the literals of solver.hpp (gen/Consts.v) and the example settings *)
Example C08_ex_consts_ok :
  1 < k_shift consts /\ 0 < k_half consts /\ 0 < k_sinit consts /\ 0 <= k_snorm consts /\ 0 < k_eps consts /\
  0 < k_retry_mul consts /\ 0 < k_reglim_mul consts /\ 0 < tau ex_settings /\ tau ex_settings < 1 /\
  0 < reg_finetune_lower_limit ex_settings /\ 0 < eps_abs ex_settings /\ 0 < reg_lower_limit ex_settings.
Proof. exact ex_consts_ok. Qed.

Example C08_ex_settings_accepted : verify_settings ex_settings = true.
Proof. exact ex_settings_accepted. Qed.

(* the state at the call of initial_point, built as API.solve does for n = 1, m = 1, one lower bound, satisfies
   every hypothesis of C08_initial_point_interior *)
Example C08_ex_shapes_ok :
  DataShape ex_d /\ KShape ex_d (st_kkt ex_st) /\ KSign ex_d (st_kkt ex_st) /\ InfPos (st_inf ex_st) /\
  i_iter (st_inf ex_st) = 0%Z /\ (0 < nineq ex_d)%nat.
Proof. exact ex_shapes_ok. Qed.

Example C08_ex_shift_exercised :
  exists p, init_solve ex_settings ex_d ex_st = Ok p /\
            nth 0 (st_z p) 0 < 0 /\ nth 0 (st_z_lb p) 0 < 0 /\ nth 0 (st_s p) 0 = - nth 0 (st_z p) 0.
Proof. exact ex_shift_exercised. Qed.

Example C08_ex_initial_point :
  exists st', initial_point consts ex_settings ex_d ex_cp ex_st = Ok st' /\ Interior ex_d st'.
Proof. exact ex_initial_point. Qed.

(* one pass of the loop from that point continues with a different, interior iterate *)
Example C08_ex_loop_pass :
  loop_pass consts ex_settings ex_d ex_pc ex_fault ex_cp ex_st1 = Ok (Continue ex_st2) /\
  Interior ex_d ex_st1 /\ Interior ex_d ex_st2 /\
  qeqb (nth 0 (s (st_it ex_st2)) 0) (nth 0 (s (st_it ex_st1)) 0) = false /\
  i_iter (st_inf ex_st2) = 1%Z.
Proof.
  exact (conj ex_loop_pass_eq (conj (proj1 ex_loop_pass_interior) (conj (proj2 ex_loop_pass_interior)
          (conj (proj1 ex_loop_pass_moves) (proj2 (proj2 ex_loop_pass_moves)))))).
Qed.

Example C08_ex_fraction_to_boundary :
  (exists a, ratio_min 1 [qmk 1 1; qmk 2 1] [qmk (-4) 1; qmk 1 1] = Ok a /\ this a = (1 # 4)%Q) /\
  map this (vadd [qmk 1 1; qmk 2 1] (vscale (qmk 1 4 * qmk 3 4) [qmk (-4) 1; qmk 1 1])) = [(1 # 4)%Q; (35 # 16)%Q].
Proof. exact ex_fraction_to_boundary. Qed.

Example C08_ex_round_cp :
  this (round_cp 4 (qmk 1 3)) = (5 # 16)%Q /\ this (round_cp 4 (qmk (-1) 3)) = (-11 # 32)%Q /\ this (round_cp 4 0) = 0%Q.
Proof. exact ex_round_cp. Qed.

(* the degenerate input of the Mehrotra shift (tmp_prod = 0): s = (1,0), z = (0,1) keeps a zero slack.  It is excluded
   in initial_point by the slack recovery s_i = -w_i z_i (C08_initial_point_interior); shown here on the block level *)
Example C08_ex_mehrotra_degenerate :
  let a := [qmk 1 1; qmk 0 1] in let a' := [qmk 0 1; qmk 1 1] in
  let ds := delta3 (k_shift consts) a [] [] in let dz := delta3 (k_shift consts) a' [] [] in
  let tp := dot (vaddc ds a) (vaddc dz a') + dot (vaddc ds []) (vaddc dz []) + dot (vaddc ds []) (vaddc dz []) in
  this tp = 0%Q /\
  (exists q, qdiv (k_half consts * tp) (vsum a' + vsum [] + vsum [] + qofnat 2 * dz) = Ok q /\
             map this (vaddc (ds + q) a) = [1%Q; 0%Q]).
Proof. exact ex_mehrotra_degenerate. Qed.
