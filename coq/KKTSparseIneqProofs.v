(* KKTSparseIneqProofs.v -- C13 / T1b, T2 for the sparse KKT_INEQ_ELIMINATED back end (model KKTSparseIneq.v), identity ordering.
   The generic development (bordered pattern, loops of create_kkt_matrix, merge walk, passes) and the mode-specific refresh proof
   (Section IneqCore) live in KKTSparseEqProofs.v; this file instantiates them with XT = GT (eliminated block), RT = AT (border). *)
From PIQP Require Import Base CSC C14LemmasProofs CSCProofs TransposeProofs LinAlg KKTProofs KKTSparseFull KKTSparseFullProofs
  KKTSparseFullPermProofs KKTSparseAll KKTSparseAllTrProofs KKTSparseAllProofs KKTSparseEq KKTSparseIneq KKTSparseEqProofs.
Local Open Scope nat_scope.

(* the reduced operator of KKT_INEQ_ELIMINATED over the L2 system of KKTProofs.v (upper triangle: i <= j) *)
Definition Kineq (Y : L2sys) (i j : nat) : Qc :=
  (let n := y_n Y in
   if j <? n then y_Psym Y i j + (if i =? j then y_rho Y + a_bdiag Y i else 0) + a_SG Y i j
   else if i <? n then y_AT Y i (j - n)
   else if i =? j then - y_delta Y else 0)%Qc.

Definition ineqS (d : sdata) (X : csc F) (k : ekkt) : Prop := e_static d (sd_GT d) (sd_AT d) (sd_m d) (sd_p d) X false k.
Definition ineqF (d : sdata) (X : csc F) (c : scal) (k : ekkt) : Prop :=
  e_form d (sd_GT d) (sd_AT d) (sd_m d) (sd_p d) X false (TLineq d (sd_GT d) (sd_m d) c) (Dineq c) c k.
Definition ineq_wnz (d : sdata) (c : scal) : Prop :=
  forall l, l < sd_m d -> (nth l (sc_s c) 0 * nth l (sc_z_inv c) 0 + sc_delta c)%Qc <> 0%Qc.

Section IneqTop.
Variable d : sdata.
Hypothesis Hok : elim_data_ok d (sd_AT d).
Local Notation n := (sd_n d). Local Notation p := (sd_p d). Local Notation m := (sd_m d).
Local Notation P := (sd_P d). Local Notation AT := (sd_AT d). Local Notation GT := (sd_GT d).
Let Hwf : wf_sdata d. Proof. apply Hok. Qed.
Let Hup : upper_only P = true. Proof. apply Hok. Qed.
Let Hsorted : sorted_colsb P = true. Proof. apply Hok. Qed.
Let HsA : sorted_colsb AT = true. Proof. apply Hok. Qed.
Let HwA : wf_csc AT = true. Proof. apply Hwf. Qed.
Let HnA : nrows AT = n. Proof. apply Hwf. Qed.
Let HcA : ncols AT = p. Proof. apply Hwf. Qed.
Let HwG : wf_csc GT = true. Proof. apply Hwf. Qed.
Let HnG : nrows GT = n. Proof. apply Hwf. Qed.
Let HcG : ncols GT = m. Proof. apply Hwf. Qed.

Lemma Kgen_Kineq c i j : i <= j ->
  Kgen d AT (TLineq d GT m c) (Dineq c) i j = Kineq (sys_sparse d c) i j.
Proof.
  intros Hij. unfold Kgen, Kineq, TLineq, TLgen, Dineq, wtI. cbn [sys_sparse sys_sparse_gen y_n y_Psym y_rho y_delta y_AT].
  destruct (Nat.ltb_spec j n).
  - destruct (Nat.leb_spec i j) as [?Hy|?Hn]; [|lia]. rewrite <- (SGd_aSG d c i j). unfold SGd. cbn [wt_val]. fring.
  - destruct (Nat.ltb_spec i n); [reflexivity|]. destruct (Nat.eqb_spec i j); reflexivity.
Qed.

(* init_workspace + create_kkt_matrix: W = I at init, so the product is scaled by 1 / (1 + delta) *)
Theorem ineq_create_thm rho delta : (1 + delta)%Qc <> 0%Qc ->
  exists em, ineq_create d rho delta = Ok em /\
    created_ok (n + p) P AT em (fun i j =>
      if j <? n then (csc_get P i j + (if i =? j then rho else 0) + csc_get (em_XX em) i j)%Qc
      else if i <? n then csc_get AT i (j - n) else if i =? j then (- delta)%Qc else 0%Qc) /\
    em_tmp em = repeat 0%Qc n.
Proof.
  intros Hd.
  destruct (ineq_create_ok d Hwf Hsorted GT AT m p HwG HnG HcG HwA HnA HcA HsA eq_refl eq_refl eq_refl rho delta Hd) as (em & E & Hs).
  exists em. split; [exact E|].
  pose proof Hs as (X0 & cx0 & kx0 & _ & _ & _ & EX0 & CX0 & EXX0 & Lcx0 & Vx0 & _ & _ & _ & _ & Etmp). subst X0.
  split; [|exact Etmp].
  destruct (create_spec_wf d Hwf Hup Hsorted GT AT m p HnG HcG HwA HnA HcA HsA false _ _ em Hs) as (A1 & A2 & A3 & A4 & A5 & A6 & A7 & A8 & A9 & A10 & A11 & A12 & A13 & A14 & X & cx & EX & EXX & Hg).
  { intros X cx i j L Hj Hij Hno. unfold TLineq0. eapply tlval_out; eauto. }
  unfold created_ok. cbv zeta. repeat (split; [assumption|]).
  intros i j Hij Hj. rewrite Hg by auto. unfold Kgen.
  destruct (Nat.ltb_spec j n) as [Lj|Gj]; [|reflexivity].
  unfold TLineq0, tlval. now rewrite EXX.
Qed.

(* init (identity ordering) establishes the static invariant (the values it leaves are not characterised here: every later
   update_scalings starts from the static invariant alone) *)
Theorem ineq_init_static rho delta : (1 + delta)%Qc <> 0%Qc -> scal_ok d (unit_scal d rho delta) ->
  exists k X, ineq_init d rho delta None = Ok k /\ ineqS d X k /\ ek_sc k = unit_scal d rho delta.
Proof.
  intros Hd Hsc.
  destruct (ineq_create_ok d Hwf Hsorted GT AT m p HwG HnG HcG HwA HnA HcA HsA eq_refl eq_refl eq_refl rho delta Hd) as (em & E & Hs).
  destruct (init_from_create d Hwf Hup GT AT m p HnG HcG HwA HnA HcA HsA false _ _ em rho delta Hs Hsc) as (k & X & cx & E2 & Hst & Ec & _).
  exists k, X. unfold ineq_init. rewrite E. cbn [bind]. unfold ineq_N. split; [exact E2|]. split; [exact Hst|exact Ec].
Qed.

Theorem ineq_update_scalings_thm X k rho delta s s_lb s_ub z z_lb z_ub zi zlbi zubi :
  ineqS d X k ->
  sd_nlb d <= length s_lb -> sd_nlb d <= length z_lb -> sd_nub d <= length s_ub -> sd_nub d <= length z_ub ->
  vinv z = Ok zi -> vinv (head (sd_nlb d) z_lb) = Ok zlbi -> vinv (head (sd_nub d) z_ub) = Ok zubi ->
  let c' := new_scal d (ek_sc k) rho delta s s_lb s_ub zi zlbi zubi in
  scal_ok d c' -> ineq_wnz d c' ->
  exists k', ineq_update_scalings d k rho delta s s_lb s_ub z z_lb z_ub = Ok k' /\ ineqF d X c' k'.
Proof.
  intros Hst L1 L2 L3 L4 E1 E2 E3 c' Hsc Hw.
  eapply (ineq_update_scalings_form d Hwf Hup Hsorted GT AT m p HwG HnG HcG HwA HnA HcA HsA X); eauto.
  split; assumption.
Qed.

(* update_data(options), non-zero mask without KKT_UPDATE_G: the four refresh calls (incl. update_GT_W_delta_inv_G) *)
Theorem ineq_update_data_partial X k options : Nat.testbit options 2 = false -> options <> 0 ->
  ineqS d X k -> scal_ok d (ek_sc k) -> ineq_wnz d (ek_sc k) ->
  exists k', ineq_update_data d k options = Ok k' /\ ineqF d X (ek_sc k) k'.
Proof.
  intros Hb Hnz Hst Hsc Hw. unfold ineq_update_data. rewrite Hb. cbn [bind].
  destruct (Nat.eqb_spec options 0) as [?Hy|?Hn]; [contradiction|].
  eapply (ineq_refresh_form d Hwf Hup Hsorted GT AT m p HwG HnG HcG HwA HnA HcA HsA X); eauto. split; assumption.
Qed.

Theorem ineq_form_denotes X c k : ineqF d X c k ->
  let K := mkcsc (n + p) (n + p) (ek_kp k) (ek_ki k) (ek_kx k) in
  wf_csc K = true /\ upper_only K = true /\ diag_is_last K /\
  forall i j, i <= j -> j < n + p -> csc_get K i j = Kineq (sys_sparse d c) i j.
Proof.
  intros Hf. pose proof Hf as ((cx & _ & CX & _) & _).
  destruct (e_form_denotes d Hwf Hup GT AT m p HnG HcG HwA HnA HcA HsA X false _ _ c k Hf) as (G1 & G2 & G3 & G4).
  { intros i j Hj Hij Hno. unfold TLineq. eapply TLgen_out; eauto. }
  cbv zeta. split; [exact G1|]. split; [exact G2|]. split; [exact G3|].
  intros i j Hij Hj. rewrite G4 by auto. now apply Kgen_Kineq.
Qed.
End IneqTop.
