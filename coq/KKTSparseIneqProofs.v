(* KKTSparseIneqProofs.v -- C13 / T1b, T2 for the sparse KKT_INEQ_ELIMINATED back end (model KKTSparseIneq.v), identity ordering.
   The generic development (bordered pattern, loops of create_kkt_matrix, merge walk, passes) and the mode-specific refresh proof
   (Section IneqCore) live in KKTSparseEqProofs.v; this file instantiates them with XT = GT (eliminated block), RT = AT (border). *)
From PIQP Require Import Base CSC C14LemmasProofs CSCProofs TransposeProofs LinAlg KKTProofs KKTSparseFull KKTSparseFullProofs
  KKTSparseFullPermProofs KKTSparseAll KKTSparseAllTrProofs KKTSparseAllProofs KKTSparseAllDataProofs KKTSparseEq KKTSparseIneq KKTSparseEqProofs.
Local Open Scope nat_scope.

(* the reduced operator of KKT_INEQ_ELIMINATED over the L2 system of KKTProofs.v (upper triangle: i <= j) *)
Definition Kineq (Y : L2sys) (i j : nat) : Qc :=
  (let n := y_n Y in
   if j <? n then y_Psym Y i j + (if i =? j then y_rho Y + a_bdiag Y i else 0) + a_SG Y i j
   else if i <? n then y_AT Y i (j - n)
   else if i =? j then - y_delta Y else 0)%Qc.

Definition ineqS (d : sdata) (X : csc F) (k : ekkt) : Prop := e_static d (sd_GT d) (sd_AT d) (sd_m d) (sd_p d) X false k.
Definition ineqF (d : sdata) (X : csc F) (c : scal) (k : ekkt) : Prop :=
  e_form d (sd_GT d) (sd_AT d) (sd_m d) (sd_p d) X false (TLineq d (sd_GT d) (sd_m d) c) (Dineq c) c k.
Definition ineq_wnz (d : sdata) (c : scal) : Prop :=
  forall l, l < sd_m d -> (nth l (sc_s c) 0 * nth l (sc_z_inv c) 0 + sc_delta c)%Qc <> 0%Qc.

Section IneqTop.
Variable d : sdata.
Hypothesis Hok : elim_data_ok d (sd_AT d).
Local Notation n := (sd_n d). Local Notation p := (sd_p d). Local Notation m := (sd_m d).
Local Notation P := (sd_P d). Local Notation AT := (sd_AT d). Local Notation GT := (sd_GT d).
Let Hwf : wf_sdata d. Proof. apply Hok. Qed.
Let Hup : upper_only P = true. Proof. apply Hok. Qed.
Let Hsorted : sorted_colsb P = true. Proof. apply Hok. Qed.
Let HsA : sorted_colsb AT = true. Proof. apply Hok. Qed.
Let HwA : wf_csc AT = true. Proof. apply Hwf. Qed.
Let HnA : nrows AT = n. Proof. apply Hwf. Qed.
Let HcA : ncols AT = p. Proof. apply Hwf. Qed.
Let HwG : wf_csc GT = true. Proof. apply Hwf. Qed.
Let HnG : nrows GT = n. Proof. apply Hwf. Qed.
Let HcG : ncols GT = m. Proof. apply Hwf. Qed.

Lemma Kgen_Kineq c i j : i <= j ->
  Kgen d AT (TLineq d GT m c) (Dineq c) i j = Kineq (sys_sparse d c) i j.
Proof.
  intros Hij. unfold Kgen, Kineq, TLineq, TLgen, Dineq, wtI. cbn [sys_sparse sys_sparse_gen y_n y_Psym y_rho y_delta y_AT].
  destruct (Nat.ltb_spec j n).
  - destruct (Nat.leb_spec i j) as [?Hy|?Hn]; [|lia]. rewrite <- (SGd_aSG d c i j). unfold SGd. cbn [wt_val]. fring.
  - destruct (Nat.ltb_spec i n); [reflexivity|]. destruct (Nat.eqb_spec i j); reflexivity.
Qed.

(* init_workspace + create_kkt_matrix: W = I at init, so the product is scaled by 1 / (1 + delta) *)
Theorem ineq_create_thm rho delta : (1 + delta)%Qc <> 0%Qc ->
  exists em, ineq_create d rho delta = Ok em /\
    created_ok (n + p) P AT em (fun i j =>
      if j <? n then (csc_get P i j + (if i =? j then rho else 0)
                      + sum_n m (fun l => (csc_get GT i l * csc_get GT j l)%Qc) * (1 / (1 + delta)))%Qc
      else if i <? n then csc_get AT i (j - n) else if i =? j then (- delta)%Qc else 0%Qc) /\
    em_tmp em = repeat 0%Qc n.
Proof.
  intros Hd.
  destruct (ineq_create_ok d Hwf Hsorted GT AT m p HwG HnG HcG HwA HnA HcA HsA eq_refl eq_refl eq_refl rho delta Hd) as (em & E & Hs).
  exists em. split; [exact E|].
  pose proof Hs as (X0 & cx0 & kx0 & _ & _ & _ & EX0 & CX0 & EXX0 & Lcx0 & (_ & cxu & Ecx0 & Vx0) & _ & _ & _ & _ & Etmp). subst X0.
  split; [|exact Etmp].
  destruct (create_spec_wf d Hwf Hup Hsorted GT AT m p HnG HcG HwA HnA HcA HsA _ _ _ em Hs) as (A1 & A2 & A3 & A4 & A5 & A6 & A7 & A8 & A9 & A10 & A11 & A12 & A13 & A14 & X & cx & EX & EXX & Hg).
  { intros X cx i j L Hj Hij Hno. unfold TLineq0. eapply tlval_out; eauto. }
  unfold created_ok. cbv zeta. repeat (split; [assumption|]).
  intros i j Hij Hj. rewrite Hg by auto. unfold Kgen.
  destruct (Nat.ltb_spec j n) as [Lj|Gj]; [|reflexivity].
  unfold TLineq0, tlval. f_equal. rewrite <- EXX, EXX0, Ecx0.
  apply (XX_get_scaled d GT AT m p HwG HnG HcG HnA HcA (em_X em) cxu _ i j CX0 Vx0 Hij Lj).
Qed.

(* init (identity ordering) establishes the static invariant ... *)
Theorem ineq_init_static rho delta : (1 + delta)%Qc <> 0%Qc -> scal_ok d (unit_scal d rho delta) ->
  exists k X, ineq_init d rho delta None = Ok k /\ ineqS d X k /\ ek_sc k = unit_scal d rho delta.
Proof.
  intros Hd Hsc.
  destruct (ineq_create_ok d Hwf Hsorted GT AT m p HwG HnG HcG HwA HnA HcA HsA eq_refl eq_refl eq_refl rho delta Hd) as (em & E & Hs).
  destruct (init_from_create d Hwf Hup GT AT m p HnG HcG HwA HnA HcA HsA false _ _ _ em rho delta Hs Hsc (fun _ _ _ (H : false = true) => False_ind _ (Bool.diff_false_true H))) as (k & X & cx & E2 & Hst & Ec & _).
  exists k, X. unfold ineq_init. rewrite E. cbn [bind]. unfold ineq_N. split; [exact E2|]. split; [exact Hst|exact Ec].
Qed.

(* ... and leaves the canonical form for the unit scalings (W = I), box terms included *)
Theorem ineq_init_form rho delta : (1 + delta)%Qc <> 0%Qc -> scal_ok d (unit_scal d rho delta) ->
  exists k X, ineq_init d rho delta None = Ok k /\ ineqF d X (unit_scal d rho delta) k /\ csc_transpose GT = Ok X.
Proof.
  intros Hd Hsc.
  destruct (ineq_create_ok d Hwf Hsorted GT AT m p HwG HnG HcG HwA HnA HcA HsA eq_refl eq_refl eq_refl rho delta Hd) as (em & E & Hs).
  destruct (ineq_init_form_core d Hwf Hup GT AT m p HwG HnG HcG HwA HnA HcA HsA eq_refl eq_refl rho delta em Hs Hsc) as (k & X & E2 & Hf & Ecan).
  exists k, X. unfold ineq_init. rewrite E. cbn [bind]. unfold ineq_N. split; [exact E2|]. split; [exact Hf|exact Ecan].
Qed.

Theorem ineq_update_scalings_thm X k rho delta s s_lb s_ub z z_lb z_ub zi zlbi zubi :
  ineqS d X k ->
  sd_nlb d <= length s_lb -> sd_nlb d <= length z_lb -> sd_nub d <= length s_ub -> sd_nub d <= length z_ub ->
  vinv z = Ok zi -> vinv (head (sd_nlb d) z_lb) = Ok zlbi -> vinv (head (sd_nub d) z_ub) = Ok zubi ->
  let c' := new_scal d (ek_sc k) rho delta s s_lb s_ub zi zlbi zubi in
  scal_ok d c' -> ineq_wnz d c' ->
  exists k', ineq_update_scalings d k rho delta s s_lb s_ub z z_lb z_ub = Ok k' /\ ineqF d X c' k'.
Proof.
  intros Hst L1 L2 L3 L4 E1 E2 E3 c' Hsc Hw.
  eapply (ineq_update_scalings_form d Hwf Hup Hsorted GT AT m p HwG HnG HcG HwA HnA HcA HsA X); eauto.
  split; assumption.
Qed.

(* the four refresh calls from any state with the static invariant *)
Theorem ineq_refresh_thm X k : ineqS d X k -> scal_ok d (ek_sc k) -> ineq_wnz d (ek_sc k) ->
  exists k', ineq_refresh d k = Ok k' /\ ineqF d X (ek_sc k) k'.
Proof.
  intros Hst Hsc Hw.
  eapply (ineq_refresh_form d Hwf Hup Hsorted GT AT m p HwG HnG HcG HwA HnA HcA HsA X); eauto. split; assumption.
Qed.

Theorem ineq_form_denotes X c k : ineqF d X c k ->
  let K := mkcsc (n + p) (n + p) (ek_kp k) (ek_ki k) (ek_kx k) in
  wf_csc K = true /\ upper_only K = true /\ diag_is_last K /\
  forall i j, i <= j -> j < n + p -> csc_get K i j = Kineq (sys_sparse d c) i j.
Proof.
  intros Hf. pose proof Hf as ((cx & _ & CX & _) & _).
  destruct (e_form_denotes d Hwf Hup GT AT m p HnG HcG HwA HnA HcA HsA X false _ _ c k Hf) as (G1 & G2 & G3 & G4).
  { intros i j Hj Hij Hno. unfold TLineq. eapply TLgen_out; eauto. }
  cbv zeta. split; [exact G1|]. split; [exact G2|]. split; [exact G3|].
  intros i j Hij Hj. rewrite G4 by auto. now apply Kgen_Kineq.
Qed.
End IneqTop.

(* ================================================================ update_data on same-pattern new data *)
(* INEQ: G changed => KKT_UPDATE_G; anything changed => mask <> 0 *)
Definition covers_ineq (mask : nat) (d : sdata) (px ax gx lbs ubs : Vec) : Prop :=
  (Nat.testbit mask 2 = false -> gx = vals (sd_GT d)) /\
  (mask = 0 -> px = vals (sd_P d) /\ ax = vals (sd_AT d) /\ lbs = sd_lbs d /\ ubs = sd_ubs d).

(* the G branch of update_data: re-transposition of the cached G (the product is recomputed by every refresh) *)
Lemma ineq_data_G_static d gx X k : elim_data_ok d (sd_AT d) -> ineqS d X k -> length gx = nnz (sd_GT d) ->
  exists k1 X1,
    (do G <- transpose_no_alloc (sd_GT (with_GT d gx)) (ek_X k) ;; Ok (ek_set_X k G)) = Ok k1 /\
    ineqS (with_GT d gx) X1 k1 /\ ek_sc k1 = ek_sc k /\ rowind X1 = rowind X /\ colptr X1 = colptr X.
Proof.
  intros Hok Hst Lg. pose proof Hok as (Hwf & _). pose proof Hwf as (_ & _ & _ & _ & _ & _ & HwG & HnG & HcG).
  pose proof Hst as (cx & EX & CX & EXX & Lcx & Vx & Epinv & Epki & Ekp & Eki & MP & MX & Lr & Hr & Etmp & Lkx).
  set (GT1 := set_vals (sd_GT d) gx). change (sd_GT (with_GT d gx)) with GT1.
  assert (HwGT1 : wf_csc GT1 = true) by (apply wf_set_vals; auto).
  destruct (retranspose_ok (sd_GT d) GT1 X (sd_n d) (sd_m d) CX (same_pat_set_vals _ gx HwG Lg) HwGT1 HnG HcG) as (G' & EG & CG' & Erow & Ecp).
  rewrite EX, EG. cbn [bind].
  pose proof (pp_pat X G' (sd_GT d) GT1 Ecp Erow eq_refl eq_refl eq_refl) as Epp.
  eexists. exists G'. split; [reflexivity|].
  split; [|split; [destruct k; reflexivity|split; [exact Erow|exact Ecp]]].
  assert (Ek : ek_set_X k G' = ek_set_XX (ek_set_X k G') (XXof GT1 G' cx) (repeat 0%Qc (sd_n d))).
  { assert (EXo : XXof GT1 G' cx = XXof (sd_GT d) X cx) by (unfold XXof; now rewrite Epp).
    rewrite EXo, <- EXX, <- Etmp. destruct k; reflexivity. }
  rewrite Ek.
  exact (e_static_recache d (sd_GT d) GT1 (sd_AT d) (sd_m d) (sd_p d) X G' false k cx Ecp Erow eq_refl eq_refl eq_refl Hst CG' Lcx
           (fun H : false = true => False_ind _ (Bool.diff_false_true H))).
Qed.

Theorem ineq_update_data_form d X k mask px ax gx lbs ubs :
  elim_data_ok d (sd_AT d) -> ineqS d X k ->
  length px = nnz (sd_P d) -> length ax = nnz (sd_AT d) -> length gx = nnz (sd_GT d) ->
  covers_ineq mask d px ax gx lbs ubs ->
  let d' := with_all d px ax gx lbs ubs in
  (mask <> 0 -> scal_ok d' (ek_sc k) /\ ineq_wnz d' (ek_sc k)) ->
  exists k' X', ineq_update_data d' k mask = Ok k' /\ ineqS d' X' k' /\ ek_sc k' = ek_sc k /\
    rowind X' = rowind X /\ colptr X' = colptr X /\
    (mask <> 0 -> ineqF d' X' (ek_sc k) k') /\ (mask = 0 -> k' = k).
Proof.
  intros Hok Hst Lp La Lg (C2 & C0) d' Hsc. pose proof Hok as (Hwf & Hup & Hsorted & HsA).
  unfold d', with_all in *.
  set (d0 := with_P d px lbs ubs). set (d1 := with_AT d0 ax). set (d2 := with_GT d1 gx).
  assert (Hok1 : elim_data_ok d1 (sd_AT d1)).
  { split; [unfold d1, d0; apply wf_with_AT; [apply wf_with_P|]; auto|]. split; [exact Hup|]. split; [exact Hsorted|exact HsA]. }
  assert (St1 : ineqS d1 X k) by exact Hst.
  unfold ineq_update_data.
  assert (S2 : exists k2 X2, (if Nat.testbit mask 2 then do G <- transpose_no_alloc (sd_GT d2) (ek_X k) ;; Ok (ek_set_X k G) else Ok k) = Ok k2 /\
             ineqS d2 X2 k2 /\ ek_sc k2 = ek_sc k /\ rowind X2 = rowind X /\ colptr X2 = colptr X /\ (Nat.testbit mask 2 = false -> k2 = k)).
  { destruct (Nat.testbit mask 2) eqn:Eb.
    - change (sd_GT d2) with (sd_GT (with_GT d1 gx)).
      destruct (ineq_data_G_static d1 gx X k Hok1 St1 Lg) as (k2 & X2 & E2 & St2 & Sc2 & R1 & R2).
      exists k2, X2. split; [exact E2|]. split; [exact St2|]. split; [exact Sc2|]. split; [exact R1|]. split; [exact R2|discriminate].
    - exists k, X. split; [reflexivity|]. split; [|split; [reflexivity|split; [reflexivity|split; [reflexivity|auto]]]].
      unfold d2. rewrite (C2 eq_refl). change (sd_GT d) with (sd_GT d1). rewrite with_GT_id. exact St1. }
  destruct S2 as (k2 & X2 & E2 & St2 & Sc2 & R1 & R2 & Id2). rewrite E2. cbn [bind].
  destruct (Nat.eqb_spec mask 0) as [E0|N0].
  - exists k2, X2. split; [reflexivity|]. split; [exact St2|]. split; [exact Sc2|]. split; [exact R1|]. split; [exact R2|].
    split; [intros; contradiction|]. intros _. apply Id2. subst mask. reflexivity.
  - assert (Hok2 : elim_data_ok d2 (sd_AT d2)).
    { split; [unfold d2, d1, d0; apply wf_with_GT; [apply wf_with_AT; [apply wf_with_P|]|]; auto|].
      split; [exact Hup|]. split; [exact Hsorted|exact HsA]. }
    destruct (Hsc N0) as [Hs1 Hs2].
    destruct (ineq_refresh_thm d2 Hok2 X2 k2 St2) as (k' & E & Hf); [rewrite Sc2; exact Hs1 | rewrite Sc2; exact Hs2 |].
    exists k', X2. split; [exact E|]. rewrite Sc2 in Hf. pose proof Hf as (St' & Sc' & _).
    split; [exact St'|]. split; [exact Sc'|]. split; [exact R1|]. split; [exact R2|]. split; [intros _; exact Hf|intros; contradiction].
Qed.

Theorem ineq_update_data_scalings_eq_fresh d X k mask px ax gx lbs ubs rho0 delta0 rho delta s s_lb s_ub z z_lb z_ub zi zlbi zubi :
  elim_data_ok d (sd_AT d) -> ineqS d X k -> canon_cache (sd_GT d) X ->
  length px = nnz (sd_P d) -> length ax = nnz (sd_AT d) -> length gx = nnz (sd_GT d) ->
  covers_ineq mask d px ax gx lbs ubs ->
  let d' := with_all d px ax gx lbs ubs in
  (mask <> 0 -> scal_ok d' (ek_sc k) /\ ineq_wnz d' (ek_sc k)) ->
  (1 + delta0)%Qc <> 0%Qc -> scal_ok d' (unit_scal d' rho0 delta0) ->
  sd_nlb d <= length s_lb -> sd_nlb d <= length z_lb -> sd_nub d <= length s_ub -> sd_nub d <= length z_ub ->
  vinv z = Ok zi -> vinv (head (sd_nlb d) z_lb) = Ok zlbi -> vinv (head (sd_nub d) z_ub) = Ok zubi ->
  (forall c0, scal_ok d' (new_scal d' c0 rho delta s s_lb s_ub zi zlbi zubi)) ->
  (forall l, l < sd_m d -> (nth l s 0 * nth l zi 0 + delta)%Qc <> 0%Qc) ->
  exists k1 k2 k0 k3 X',
    ineq_update_data d' k mask = Ok k1 /\ ineq_update_scalings d' k1 rho delta s s_lb s_ub z z_lb z_ub = Ok k2 /\
    ineq_init d' rho0 delta0 None = Ok k0 /\ ineq_update_scalings d' k0 rho delta s s_lb s_ub z z_lb z_ub = Ok k3 /\
    ineqF d' X' (new_scal d' (ek_sc k) rho delta s s_lb s_ub zi zlbi zubi) k2 /\ canon_cache (sd_GT d') X' /\
    ek_kp k2 = ek_kp k3 /\ ek_ki k2 = ek_ki k3 /\ ek_kx k2 = ek_kx k3.
Proof.
  intros Hok Hst (Xc & Ecan & Cr & Cc) Lp La Lg Hcov d' Hsc Hd0 Hu0 L1 L2 L3 L4 E1 E2 E3 Hsc2 Hw.
  pose proof Hok as (Hwf & Hup & Hs & HsA). pose proof Hwf as (_ & _ & _ & _ & _ & _ & HwG & HnG & HcG).
  destruct (ineq_update_data_form d X k mask px ax gx lbs ubs Hok Hst Lp La Lg Hcov Hsc) as (k1 & X1 & Eu & St1 & Sc1 & R1 & R2 & _ & _).
  fold d' in Eu, St1.
  assert (Hok' : elim_data_ok d' (sd_AT d')).
  { split; [unfold d', with_all; apply wf_with_GT; [apply wf_with_AT; [apply wf_with_P|]|]; auto|]. split; [exact Hup|]. split; [exact Hs|exact HsA]. }
  assert (Hw' : forall c0, ineq_wnz d' (new_scal d' c0 rho delta s s_lb s_ub zi zlbi zubi)) by (intros c0 l Hl; apply Hw; exact Hl).
  destruct (ineq_update_scalings_thm d' Hok' X1 k1 rho delta s s_lb s_ub z z_lb z_ub zi zlbi zubi St1 L1 L2 L3 L4 E1 E2 E3 (Hsc2 _) (Hw' _)) as (k2 & Es2 & Hf2).
  destruct (ineq_init_form d' Hok' rho0 delta0 Hd0 Hu0) as (k0 & X0 & E0 & Hf0 & Ecan0).
  pose proof Hf0 as (St0 & _).
  destruct (ineq_update_scalings_thm d' Hok' X0 k0 rho delta s s_lb s_ub z z_lb z_ub zi zlbi zubi St0 L1 L2 L3 L4 E1 E2 E3 (Hsc2 _) (Hw' _)) as (k3 & Es3 & Hf3).
  destruct (csc_transpose_pat (sd_GT d) (sd_GT d') Xc (sd_n d) (sd_m d) HwG (wf_set_vals _ gx HwG Lg) (same_pat_set_vals _ gx HwG Lg) HnG HcG Ecan)
    as (X0' & E0' & B1 & B2).
  rewrite Ecan0 in E0'. injection E0' as <-.
  exists k1, k2, k0, k3, X1. split; [exact Eu|]. split; [exact Es2|]. split; [exact E0|]. split; [exact Es3|].
  rewrite Sc1 in Hf2. split; [exact Hf2|].
  split; [exists X0; split; [exact Ecan0|split; congruence]|].
  apply (e_form_matrix_eq d' (sd_GT d') (sd_AT d') (sd_m d') (sd_p d') X0 X1 false false _ _ _ _ _ _ k3 k2 Hf3 Hf2); try congruence.
  intros i j. destruct (vinv_ok _ _ E2) as [Lz2 _]. destruct (vinv_ok _ _ E3) as [Lz3 _].
  rewrite head_length in Lz2 by auto. rewrite head_length in Lz3 by auto.
  unfold Kgen, TLineq, TLgen, Dineq, wtI.
  rewrite (bdiag_new_scal d' (ek_sc k0) (ek_sc k) rho delta s s_lb s_ub zi zlbi zubi i L1 L3 Lz2 Lz3). reflexivity.
Qed.
