(** C07: results are a function of the inputs only -- the part that is decided by proof on the model.

    The model (API.v, KKTDense.v) has a parameter [junk : F]: the content of the memory that the C++ code allocates but
    never writes and that could be read -- the tails of m_s_lb, m_s_ub, m_z_lb_inv, m_z_ub_inv of dense::KKT beyond
    n_lb / n_ub (kkt_init), and the tails of the packed result vectors handed to restore_box_dual
    (unscale_and_restore).  T1 says that nothing a caller can observe depends on it.

    Vocabulary (definitions in JunkProofs.v, JunkAPIProofs.v, JunkWFProofs.v, JunkDeltaProofs.v, JunkHistoryProofs.v)
      RR R r1 r2          both runs return and the values are related by R, or both fail with the SAME error
      kkt_agree d k1 k2   equal k_rho k_delta k_s k_z_inv k_mat k_ATA k_fact; the four box arrays have equal lengths and
                          equal first d_nlb d / d_nub d entries          (kkt_pre: the same without k_mat)
      kkt_pend k1 k2      equal k_rho k_delta k_s k_z_inv k_ATA k_fact, equal lengths of the box arrays; nothing about
                          k_mat and the contents of the box arrays
      st_agree d a b      IPM states: equal iterate, info, refine flag, residuals, call counter; kkt_agree d
      sv_agree_strong     solver objects: equal settings, data, preconditioner, flags, info, result vectors, call counter;
                          kkt_agree on the data of the object
      sv_agree            the same with kkt_pend instead of kkt_agree when sv_kkt_init_state = false
                          (= between an update() and the next solve(), see the finding below)
      sv_agreeJ j1 j2     sv_agree, and the box arrays of the two objects are  c ++ repeat j1 t  /  c ++ repeat j2 t
                          (a common written part, then the junk of each run), pairwise for (s, z_inv)
      WFd n p m sv        shape invariant of the object (well-formed data and preconditioner, lengths of the stored
                          result vectors, KShape of the KKT object right after setup), dimensions n p m
      run K ident sparse_pc cp fault j st ops   (sparse_pc: the Ruiz loop-guard quirk of sparse/preconditioner.hpp)
                          the observations (status, result vectors, info) of the calls of a history that
                          returned, and the model error that stopped it (None: never left the model's domain)
      ops_ok              every setup()/update() of the history has dimension-correct arguments
      delta_ok            at every update() of the history, 0 < k_delta of the current KKT object (evaluated on ONE run)

    FINDING (model and source agree, dense/kkt.hpp:update_data -> update_kkt, loops "i < data.n_lb"):
      update() with a larger set of finite bounds reads slots of m_s_lb / m_z_lb_inv (m_s_ub / m_z_ub_inv) that
      were never written (KKT::init and update_scalings only ever write head(n_lb) of the pattern of THAT time).
      The matrix built from them is dead: update() clears m_kkt_init_state, the next solve() calls update_scalings,
      which rewrites head(n_lb) and rebuilds the matrix before anything is read (this is what the proofs below show).
      The only channel through which the junk could surface is the division  sc^2 / (zinv*s + delta)  itself:
      with delta > 0 it cannot fail on a junk-junk pair (junk*junk + delta > 0); with delta <= 0 it can
      ([junk_independence_unconditional_refuted]: delta_init = -4, junk 2 vs 3).  Hence T1 is proved
      - for every history, every junk, both preconditioners, every fault oracle and checkpoint rounding, whenever the
        settings of every setup() satisfy [SettingsOK] (0 < tau < 1, 0 < reg_finetune_lower_limit, 0 < eps_abs,
        0 < rho_init, 0 < delta_init, 0 < reg_lower_limit) and the constants satisfy [ConstsOK] and [sane_consts]
        (true for gen/Consts.v): [junk_independence_valid_settings];
      - for arbitrary settings under the trace condition [delta_ok] ([junk_independence]);
      - with no condition at all in the weaker form "the observations agree as far as both runs go, and entirely when
        neither run leaves the model's domain" ([junk_independence_partial]).
      SettingsOK is C08's hypothesis set; it differs from verify_settings in  tau < 1  (verify_settings accepts
      tau = 1) and  0 < reg_finetune_lower_limit  (not validated by verify_settings: finding F11).

    T2 (verbose / compute_timings irrelevant) has no content in the model: Settings has no such fields.
    T3 [no_shared_state]: the solver state is a value; any interleaving of calls on independent instances gives each
    instance the outputs of its own sequential history. *)
From PIQP Require Import Base Data Bounds PrecondDense KKTDense IPM API PrecondProofs InteriorProofs InteriorExamples
                         JunkProofs JunkShapeProofs JunkAPIProofs JunkWFProofs JunkFrameProofs JunkDeltaProofs
                         JunkHistoryProofs JunkDeltaPosProofs JunkExamples.
From PIQP.gen Require Import Consts.
Local Open Scope Qc_scope.

(** * dense::KKT: every operation reads the box arrays only on head(n_lb) / head(n_ub) *)

Theorem kkt_init_junk_indep :
  forall (d : Data) (rho delta j1 j2 : F),
    RR (kkt_agree d) (kkt_init d rho delta j1) (kkt_init d rho delta j2).
Proof. exact JunkProofs.kkt_init_agree. Qed.
Print Assumptions kkt_init_junk_indep.

Theorem update_kkt_respects_agreement :
  forall (d : Data) (k1 k2 : KKT),
    kkt_pre d k1 k2 -> RR (kkt_agree d) (update_kkt d k1) (update_kkt d k2).
Proof. exact JunkProofs.update_kkt_agree. Qed.
Print Assumptions update_kkt_respects_agreement.

Theorem kkt_update_scalings_respects_agreement :
  forall (d : Data) (k1 k2 : KKT) (rho delta : F) (s s_lb s_ub z z_lb z_ub : Vec),
    kkt_pre d k1 k2 ->
    RR (kkt_agree d) (kkt_update_scalings d k1 rho delta s s_lb s_ub z z_lb z_ub)
                     (kkt_update_scalings d k2 rho delta s s_lb s_ub z z_lb z_ub).
Proof. exact JunkProofs.kkt_update_scalings_agree. Qed.
Print Assumptions kkt_update_scalings_respects_agreement.

(* after an update(): vectors of the packed lengths overwrite head(n_lb), head(n_ub) completely *)
Theorem kkt_update_scalings_reestablishes_agreement :
  forall (d : Data) (k1 k2 : KKT) (rho delta : F) (s s_lb s_ub z z_lb z_ub : Vec),
    kkt_pend k1 k2 ->
    (d_nlb d <= length s_lb)%nat -> (d_nlb d <= length z_lb)%nat ->
    (d_nub d <= length s_ub)%nat -> (d_nub d <= length z_ub)%nat ->
    RR (kkt_agree d) (kkt_update_scalings d k1 rho delta s s_lb s_ub z z_lb z_ub)
                     (kkt_update_scalings d k2 rho delta s s_lb s_ub z z_lb z_ub).
Proof. exact JunkProofs.kkt_update_scalings_pend. Qed.
Print Assumptions kkt_update_scalings_reestablishes_agreement.

Theorem kkt_update_data_respects_agreement :
  forall (d : Data) (k1 k2 : KKT) (oP oA oG : bool),
    kkt_pre d k1 k2 ->
    RR (fun a b : KKT =>
          if oP || oA || oG then kkt_agree d a b
          else kkt_pre d a b /\ (k_mat k1 = k_mat k2 -> k_mat a = k_mat b))
       (kkt_update_data d k1 oP oA oG) (kkt_update_data d k2 oP oA oG).
Proof. exact JunkProofs.kkt_update_data_agree. Qed.
Print Assumptions kkt_update_data_respects_agreement.

Theorem regularize_and_factorize_respects_agreement :
  forall (S : Settings) (d : Data) (k1 k2 : KKT) (refine flt : bool),
    kkt_agree d k1 k2 ->
    RR (fun a b : KKT * bool => kkt_agree d (fst a) (fst b) /\ snd a = snd b)
       (regularize_and_factorize S d k1 refine flt) (regularize_and_factorize S d k2 refine flt).
Proof. exact JunkProofs.regularize_and_factorize_agree. Qed.
Print Assumptions regularize_and_factorize_respects_agreement.

Theorem kkt_solve_junk_indep :
  forall (S : Settings) (d : Data) (k1 k2 : KKT) (refine : bool) (rx ry rz rzlb rzub rs rslb rsub : Vec),
    kkt_agree d k1 k2 ->
    kkt_solve S d k1 refine rx ry rz rzlb rzub rs rslb rsub = kkt_solve S d k2 refine rx ry rz rzlb rzub rs rslb rsub.
Proof. exact JunkProofs.kkt_solve_agree. Qed.
Print Assumptions kkt_solve_junk_indep.

Theorem kkt_multiply_junk_indep :
  forall (d : Data) (k1 k2 : KKT) (v : Step), kkt_agree d k1 k2 -> kkt_multiply d k1 v = kkt_multiply d k2 v.
Proof. exact JunkProofs.kkt_multiply_agree. Qed.
Print Assumptions kkt_multiply_junk_indep.

(** * The interior-point iteration: for every fault oracle and checkpoint function *)

Theorem init_factor_junk_indep :
  forall (K : Consts) (S : Settings) (d : Data) (fault : nat -> bool) (fuel : nat) (a b : St),
    st_agree d a b ->
    RR (fun x y : St * bool => st_agree d (fst x) (fst y) /\ snd x = snd y)
       (init_factor K S d fault fuel a) (init_factor K S d fault fuel b).
Proof. exact JunkProofs.init_factor_agree. Qed.
Print Assumptions init_factor_junk_indep.

Theorem initial_point_junk_indep :
  forall (K : Consts) (S : Settings) (d : Data) (cp : F -> F) (a b : St),
    st_agree d a b -> RR (st_agree d) (initial_point K S d cp a) (initial_point K S d cp b).
Proof. exact JunkProofs.initial_point_agree. Qed.
Print Assumptions initial_point_junk_indep.

Theorem loop_pass_junk_indep :
  forall (K : Consts) (S : Settings) (d : Data) (pc : Precond) (fault : nat -> bool) (cp : F -> F) (a b : St),
    st_agree d a b -> RR (out_agree d) (loop_pass K S d pc fault cp a) (loop_pass K S d pc fault cp b).
Proof. exact JunkProofs.loop_pass_agree. Qed.
Print Assumptions loop_pass_junk_indep.

Theorem main_loop_junk_indep :
  forall (K : Consts) (S : Settings) (d : Data) (pc : Precond) (fault : nat -> bool) (cp : F -> F) (fuel : nat) (a b : St),
    st_agree d a b -> RR (st_agree d) (main_loop K S d pc fault cp fuel a) (main_loop K S d pc fault cp fuel b).
Proof. exact JunkProofs.main_loop_agree. Qed.
Print Assumptions main_loop_junk_indep.

(** * The solver object *)

Theorem setup_junk_indep :
  forall (K : Consts) (ident sparse_pc : bool) (j1 j2 : F) (S : Settings) (n p m : nat) (B : Blocks),
    RR sv_agree_strong (setup K ident sparse_pc j1 S n p m B) (setup K ident sparse_pc j2 S n p m B).
Proof. exact JunkAPIProofs.setup_junk_indep. Qed.
Print Assumptions setup_junk_indep.

(* restore_box_dual never reads the padding *)
Theorem unscale_and_restore_junk_indep :
  forall (j1 j2 : F) (sv1 sv2 : Solver) (it : Iterate),
    sv_data sv1 = sv_data sv2 -> sv_pc sv1 = sv_pc sv2 -> restore_ready (sv_data sv1) (sv_pc sv1) it ->
    unscale_and_restore j1 sv1 it = unscale_and_restore j2 sv2 it.
Proof. exact JunkAPIProofs.unscale_and_restore_junk_indep. Qed.
Print Assumptions unscale_and_restore_junk_indep.

(* solve(): from agreeing objects (weak relation!) to equal status, result vectors, info and STRONGLY agreeing objects.
   solve_rel x y := sv_agree_strong (fst x) (fst y) /\ snd x = snd y *)
Theorem solve_junk_indep :
  forall (K : Consts) (cp_bits : Z) (fault : nat -> bool) (j1 j2 : F) (a b : Solver),
    sv_agree a b -> SolveShape a ->
    RR solve_rel (solve K j1 cp_bits fault a) (solve K j2 cp_bits fault b).
Proof. exact JunkAPIProofs.solve_junk_indep. Qed.
Print Assumptions solve_junk_indep.

(* update(): whenever it returns in both runs the objects agree (weak relation) *)
Theorem update_keeps_agreement :
  forall (K : Consts) (sparse_pc : bool) (a b : Solver) (B : Blocks) (reuse : bool) (a' b' : Solver),
    sv_agree a b -> update K sparse_pc a B reuse = Ok a' -> update K sparse_pc b B reuse = Ok b' -> sv_agree a' b'.
Proof. exact JunkAPIProofs.update_agree_ok. Qed.
Print Assumptions update_keeps_agreement.

(* update() directly after setup()/solve() with a bound pattern that is not larger: same status, no condition *)
Theorem update_junk_indep_no_growth :
  forall (K : Consts) (sparse_pc : bool) (a b : Solver) (B : Blocks) (reuse : bool),
    sv_agree_strong a b ->
    (forall (pc : Precond) (d : Data), update_data K sparse_pc a B reuse = Ok (pc, d) ->
       (d_nlb d <= d_nlb (sv_data a))%nat /\ (d_nub d <= d_nub (sv_data a))%nat) ->
    RR sv_agree (update K sparse_pc a B reuse) (update K sparse_pc b B reuse).
Proof. exact JunkAPIProofs.update_junk_indep_no_growth. Qed.
Print Assumptions update_junk_indep_no_growth.

(* update() with any pattern, delta > 0 *)
Theorem update_junk_indep :
  forall (K : Consts) (sparse_pc : bool), sane_consts K ->
  forall (j1 j2 : F) (n p m : nat) (a b : Solver) (B : Blocks) (reuse : bool),
    sv_agreeJ j1 j2 a b -> WFd n p m a -> update_blocks_ok n p m B -> 0 < k_delta (sv_kkt a) ->
    RR (sv_agreeJ j1 j2) (update K sparse_pc a B reuse) (update K sparse_pc b B reuse).
Proof. exact JunkDeltaProofs.update_agreeJ. Qed.
Print Assumptions update_junk_indep.

(* the strong relation does NOT survive an update() that enlarges the bound pattern: k_mat depends on junk *)
Theorem update_strong_agreement_refuted :
  ~ (forall (K : Consts) (sparse_pc : bool) (a b : Solver) (B : Blocks) (reuse : bool) (a' b' : Solver),
       sv_agree_strong a b -> update K sparse_pc a B reuse = Ok a' -> update K sparse_pc b B reuse = Ok b' ->
       sv_agree_strong a' b').
Proof. exact JunkExamples.update_strong_agreement_refuted. Qed.
Print Assumptions update_strong_agreement_refuted.

(* the shape invariant: established by setup(), kept by update() and solve(); it implies what solve() needs *)
Theorem setup_establishes_shape :
  forall (K : Consts) (ident sparse_pc : bool) (j : F) (S : Settings) (n p m : nat) (B : Blocks) (sv : Solver),
    sane_consts K -> setup_blocks_ok n p m B -> setup K ident sparse_pc j S n p m B = Ok sv -> WFd n p m sv.
Proof. exact JunkWFProofs.setup_wf. Qed.
Print Assumptions setup_establishes_shape.

Theorem update_keeps_shape :
  forall (K : Consts) (sparse_pc : bool) (n p m : nat) (sv : Solver) (B : Blocks) (reuse : bool) (sv' : Solver),
    sane_consts K -> WFd n p m sv -> update_blocks_ok n p m B -> update K sparse_pc sv B reuse = Ok sv' -> WFd n p m sv'.
Proof. exact JunkWFProofs.update_wf. Qed.
Print Assumptions update_keeps_shape.

Theorem solve_keeps_shape :
  forall (K : Consts) (n p m : nat) (j : F) (cp_bits : Z) (fault : nat -> bool) (sv sv' : Solver) (stt : Status),
    WFd n p m sv -> solve K j cp_bits fault sv = Ok (sv', stt) -> WFd n p m sv'.
Proof. exact JunkWFProofs.solve_wf. Qed.
Print Assumptions solve_keeps_shape.

Theorem shape_suffices_for_solve : forall sv : Solver, WFsv sv -> SolveShape sv.
Proof. exact JunkWFProofs.WFsv_SolveShape. Qed.
Print Assumptions shape_suffices_for_solve.

(* solve() never writes the box arrays beyond n_lb / n_ub and never changes their lengths *)
Theorem solve_keeps_tails :
  forall (K : Consts) (j : F) (cp_bits : Z) (fault : nat -> bool) (sv sv' : Solver) (stt : Status),
    box_len_ge (d_nlb (sv_data sv)) (d_nub (sv_data sv)) (sv_kkt sv) ->
    solve K j cp_bits fault sv = Ok (sv', stt) ->
    tail_kept (d_nlb (sv_data sv)) (d_nub (sv_data sv)) (sv_kkt sv) (sv_kkt sv').
Proof. exact JunkFrameProofs.solve_tail_kept. Qed.
Print Assumptions solve_keeps_tails.

(** * T1: call histories *)

Theorem junk_independence :
  forall (K : Consts) (ident sparse_pc : bool) (cp_bits : Z) (fault : nat -> bool),
    sane_consts K ->
    forall (j1 j2 : F) (ops : list Op) (dims : option (nat * nat * nat)) (st1 st2 : option Solver),
      opt_agreeJ j1 j2 st1 st2 -> st_inv dims st1 -> ops_ok dims ops ->
      delta_ok K ident sparse_pc cp_bits fault j1 st1 ops ->
      run K ident sparse_pc cp_bits fault j1 st1 ops = run K ident sparse_pc cp_bits fault j2 st2 ops.
Proof. exact JunkHistoryProofs.junk_independence. Qed.
Print Assumptions junk_independence.

Theorem junk_independence_fresh :
  forall (K : Consts) (ident sparse_pc : bool) (cp_bits : Z) (fault : nat -> bool),
    sane_consts K ->
    forall (j1 j2 : F) (ops : list Op),
      ops_ok None ops -> delta_ok K ident sparse_pc cp_bits fault j1 None ops ->
      run K ident sparse_pc cp_bits fault j1 None ops = run K ident sparse_pc cp_bits fault j2 None ops.
Proof. exact JunkHistoryProofs.junk_independence_fresh. Qed.
Print Assumptions junk_independence_fresh.

(* every history whose settings satisfy the hypotheses of the interior-point theorems: no trace condition *)
Theorem junk_independence_valid_settings :
  forall (K : Consts) (ident sparse_pc : bool) (cp_bits : Z) (fault : nat -> bool),
    sane_consts K -> ConstsOK K ->
    forall (j1 j2 : F) (ops : list Op),
      ops_ok None ops -> ops_valid ops ->
      run K ident sparse_pc cp_bits fault j1 None ops = run K ident sparse_pc cp_bits fault j2 None ops.
Proof. exact JunkDeltaPosProofs.junk_independence_valid_settings. Qed.
Print Assumptions junk_independence_valid_settings.

Theorem delta_ok_of_valid_settings :
  forall (K : Consts) (ident sparse_pc : bool) (cp_bits : Z) (fault : nat -> bool),
    sane_consts K -> ConstsOK K ->
    forall (j : F) (ops : list Op) (dims : option (nat * nat * nat)) (st : option Solver),
      st_inv dims st -> pos_inv st -> ops_ok dims ops -> ops_valid ops -> delta_ok K ident sparse_pc cp_bits fault j st ops.
Proof. exact JunkDeltaPosProofs.delta_ok_of_valid_settings. Qed.
Print Assumptions delta_ok_of_valid_settings.

(* no condition on the regularisation: the clause that is missing w.r.t. [junk_independence] is
   "if update() leaves the model's domain (division by zero in update_kkt) in one run, it does so in the other" *)
Theorem junk_independence_partial :
  forall (K : Consts) (ident sparse_pc : bool) (cp_bits : Z) (fault : nat -> bool),
    sane_consts K ->
    forall (j1 j2 : F) (ops : list Op) (dims : option (nat * nat * nat)) (st1 st2 : option Solver),
      opt_agree st1 st2 -> st_inv dims st1 -> st_inv dims st2 -> ops_ok dims ops ->
      prefix_compat (fst (run K ident sparse_pc cp_bits fault j1 st1 ops)) (fst (run K ident sparse_pc cp_bits fault j2 st2 ops)) /\
      (snd (run K ident sparse_pc cp_bits fault j1 st1 ops) = None -> snd (run K ident sparse_pc cp_bits fault j2 st2 ops) = None ->
       fst (run K ident sparse_pc cp_bits fault j1 st1 ops) = fst (run K ident sparse_pc cp_bits fault j2 st2 ops)).
Proof. exact JunkHistoryProofs.junk_independence_partial. Qed.
Print Assumptions junk_independence_partial.

(* ... and that clause is really missing: without [delta_ok] the full statement is false in the model *)
Theorem junk_independence_unconditional_refuted :
  ~ (forall (K : Consts) (ident sparse_pc : bool) (cp_bits : Z) (fault : nat -> bool) (j1 j2 : F) (ops : list Op),
       sane_consts K -> ops_ok None ops ->
       run K ident sparse_pc cp_bits fault j1 None ops = run K ident sparse_pc cp_bits fault j2 None ops).
Proof. exact JunkExamples.junk_independence_unconditional_refuted. Qed.
Print Assumptions junk_independence_unconditional_refuted.

(** * T3: independent instances *)

Theorem no_shared_state :
  forall (State Op' Out : Type) (stepf : nat -> State -> Op' -> State * Out)
         (l : list (nat * Op')) (P : nat -> State) (i : nat),
    outs_of Out i (run_inter State Op' Out stepf P l) = run_seq State Op' Out stepf i (P i) (calls_of Op' i l).
Proof. exact JunkHistoryProofs.no_shared_state. Qed.
Print Assumptions no_shared_state.

Theorem no_shared_state_solver :
  forall (K : Consts) (identf sparsef : nat -> bool) (junkf : nat -> F) (cpf : nat -> Z) (faultf : nat -> nat -> bool)
         (l : list (nat * Op)) (P : nat -> option Solver) (i : nat),
    outs_of (res Obs) i (run_inter (option Solver) Op (res Obs) (step_tot K identf sparsef junkf cpf faultf) P l) =
    run_seq (option Solver) Op (res Obs) (step_tot K identf sparsef junkf cpf faultf) i (P i) (calls_of Op i l).
Proof. exact JunkHistoryProofs.no_shared_state_solver. Qed.
Print Assumptions no_shared_state_solver.

(** * Non-vacuity: a concrete history (setup with one finite lower bound; update with a new P and two finite lower
    bounds; solve), two junk values, both preconditioners, checkpoint rounding to 16 bits *)

Example consts_are_sane : sane_consts consts.
Proof. exact JunkExamples.sane_consts_consts. Qed.

Example example_settings_hypotheses :
  ConstsOK consts /\ SettingsOK ex_settings /\ ops_valid hops /\ ~ SettingsOK bad_settings.
Proof.
  split; [exact JunkExamples.consts_ok|]. split; [exact JunkExamples.ex_settings_ok|].
  split; [exact JunkExamples.hops_valid|exact JunkExamples.bad_settings_not_ok].
Qed.

Example example_history_hypotheses :
  ops_ok None hops /\ delta_ok consts true false 16 hfault hj1 None hops /\ delta_ok consts false false 16 hfault hj1 None hops /\
  hj1 <> hj2.
Proof.
  split; [exact JunkExamples.hops_ok|]. split; [exact JunkExamples.hops_delta_ok_ident|].
  split; [exact JunkExamples.hops_delta_ok_ruiz|]. vm_compute. discriminate.
Qed.

(* hrun ident j := run consts ident false 16 hfault j None hops; the third clause is the Ruiz preconditioner with
   sparse_pc = true (by junk_independence_valid_settings) *)
Example example_history_junk_independent :
  hrun true hj1 = hrun true hj2 /\ hrun false hj1 = hrun false hj2 /\
  run consts false true 16 hfault hj1 None hops = run consts false true 16 hfault hj2 None hops.
Proof.
  split; [exact JunkExamples.history_junk_independent_ident|].
  split; [exact JunkExamples.history_junk_independent_ruiz|exact JunkExamples.history_junk_independent_sparse_pc].
Qed.

(* the history is a real one: all three calls return, SOLVED, both lower bounds active in the result *)
Example example_history_is_real :
  hsummary (hrun true hj1) =
    (None, [None; None; Some SOLVED], ([(-8203 # 32768)%Q; (-4071 # 8192)%Q], [true; true])) /\
  hsummary (hrun true hj2) =
    (None, [None; None; Some SOLVED], ([(-8203 # 32768)%Q; (-4071 # 8192)%Q], [true; true])).
Proof. split; [exact JunkExamples.history_is_real|exact JunkExamples.history_is_real_j2]. Qed.

(* ... in which update() does read the never-written slot: the (2,2) entry of the KKT matrix after setup(); update()
   is P22 + rho + 1/(junk*junk + delta) *)
Example example_update_reads_unwritten_slots :
  hmat hj1 = [[(3217 # 1088)%Q]; [0%Q; (1153 # 64)%Q]] /\ hmat hj2 = [[(3217 # 1088)%Q]; [0%Q; (26437 # 12608)%Q]].
Proof. exact JunkExamples.update_reads_unwritten_slots. Qed.

(* the witness of the refutation: settings with delta_init = -4 (rejected by verify_settings), junk 2 vs 3 *)
Example example_update_status_depends_on_junk :
  verify_settings bad_settings = false /\
  map (fun o => fst (fst o)) (fst (run consts true false 16 hfault (qmk 2 1) None bad_ops)) = [None] /\
  snd (run consts true false 16 hfault (qmk 2 1) None bad_ops) = Some DivZero /\
  map (fun o => fst (fst o)) (fst (run consts true false 16 hfault (qmk 3 1) None bad_ops)) = [None; None] /\
  snd (run consts true false 16 hfault (qmk 3 1) None bad_ops) = None.
Proof. split; [exact JunkExamples.bad_settings_rejected|exact JunkExamples.update_status_depends_on_junk]. Qed.

Example example_interleaving :
  let stp := step_tot consts (fun i => Nat.eqb i 0) (fun _ => false) (fun i => if Nat.eqb i 0 then hj1 else hj2) (fun _ => 16%Z)
                      (fun _ => hfault) in
  let l := [(0%nat, OSetup ex_settings 2 0 0 hB0); (1%nat, OSetup ex_settings 2 0 0 hB0); (1%nat, OUpdate hB1 true);
            (0%nat, OUpdate hB1 true); (1%nat, OSolve); (0%nat, OSolve)] in
  outs_of _ 0 (run_inter _ _ _ stp (fun _ => None) l) = run_seq _ _ _ stp 0 None hops /\
  outs_of _ 1 (run_inter _ _ _ stp (fun _ => None) l) = run_seq _ _ _ stp 1 None hops.
Proof. exact JunkExamples.interleaving_example. Qed.
