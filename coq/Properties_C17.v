(** C17: all language bindings expose the same fields with the same meaning.
    Every statement is about the tables REGENERATED from /repo on this run (gen/Tables.v, tools/gen_tables.py):
    `chk_... gen_tables = true` is established by computation and turned into the stated proposition by the
    soundness lemmas of TablesCheckProofs.v.  The Octave struct -> settings direction is in
    Properties_C17_octave_in.v (own file, see DESIGN section 5). *)
From Coq Require Import String List ZArith.
From PIQP Require Import TablesDef TablesCheck TablesCheckProofs.
From PIQP.gen Require Import Tables.
Import ListNotations.
Open Scope string_scope.

(** core: field and enumerator names are unique; status_to_string has exactly one case per enumerator and
    distinct texts *)
Theorem c17_core_well_formed :
  (NoDup (names (core_settings gen_tables)) /\ NoDup (names (core_info gen_tables)) /\ NoDup (names (core_result gen_tables)) /\ NoDup (map e_name (core_status gen_tables))) /\
  (SameNames (map w_core (core_status_str gen_tables)) (map e_name (core_status gen_tables)) /\
   NoDup (map w_ext (core_status_str gen_tables))).
Proof. split; [apply chk_core_nodup_sound | apply chk_core_status_strings_sound]; vm_compute; reflexivity. Qed.
Print Assumptions c17_core_well_formed.

(** C binding (details in Properties_C16T.v) *)
Theorem c17_c_binding :
  Declared c_types (core_settings gen_tables) (c_settings gen_tables) /\
  Declared c_types (core_info gen_tables) (c_info gen_tables) /\
  Declared c_types (core_result gen_tables) (c_result gen_tables) /\
  SameEnum (core_status gen_tables) (c_status gen_tables) /\
  WiredDiag (vec_fields (core_result gen_tables)) (c_result_out gen_tables) /\
  WiredDiag (names (core_info gen_tables)) (c_info_out gen_tables) /\
  WiredDiag (names (core_settings gen_tables)) (c_settings_out gen_tables) /\
  WiredDiag (names (core_settings gen_tables)) (c_settings_in_dense gen_tables) /\
  WiredDiag (names (core_settings gen_tables)) (c_settings_in_sparse gen_tables).
Proof. apply c_tables_consistent_sound. vm_compute. reflexivity. Qed.
Print Assumptions c17_c_binding.

(** pybind11: every core field is registered exactly once under its own name with a pointer to the like-named
    member (both directions); settings are def_readwrite *)
Theorem c17_python_settings :
  WiredDiag (names (core_settings gen_tables)) (py_settings gen_tables) /\ ConvAllowed py_rw (core_settings gen_tables) (py_settings gen_tables).
Proof. apply chk_py_settings_sound. vm_compute. reflexivity. Qed.
Print Assumptions c17_python_settings.

Theorem c17_python_info : WiredDiag (names (core_info gen_tables)) (py_info gen_tables).
Proof. apply chk_py_info_sound. vm_compute. reflexivity. Qed.
Print Assumptions c17_python_info.

Theorem c17_python_result : WiredDiag (names (core_result gen_tables)) (py_result gen_tables).
Proof. apply chk_py_result_sound. vm_compute. reflexivity. Qed.
Print Assumptions c17_python_result.

Theorem c17_python_status : WiredDiag (map e_name (core_status gen_tables)) (py_status gen_tables).
Proof. apply chk_py_status_sound. vm_compute. reflexivity. Qed.
Print Assumptions c17_python_status.

(** .pyi stub: same attribute names, corresponding types; status values equal the core's in all three places *)
Theorem c17_pyi_declarations :
  Declared pyi_types (core_settings gen_tables) (pyi_settings gen_tables) /\
  Declared pyi_types (core_info gen_tables) (pyi_info gen_tables) /\
  Declared pyi_types (core_result gen_tables) (pyi_result gen_tables).
Proof.
  split; [|split]; [apply chk_pyi_settings_sound | apply chk_pyi_info_sound | apply chk_pyi_result_sound]; vm_compute; reflexivity.
Qed.
Print Assumptions c17_pyi_declarations.

Theorem c17_pyi_status :
  SameEnum (core_status gen_tables) (pyi_status_class gen_tables) /\
  SameEnum (core_status gen_tables) (pyi_status_members gen_tables) /\
  SameEnum (core_status gen_tables) (pyi_status_module gen_tables).
Proof. apply chk_pyi_status_sound. vm_compute. reflexivity. Qed.
Print Assumptions c17_pyi_status.

(** Matlab *)
Theorem c17_matlab_field_arrays :
  SameNames (mex_settings_fields gen_tables) (names (core_settings gen_tables)) /\
  SameNames (mex_info_fields gen_tables) (map fst (info_exp (names (core_info gen_tables)))) /\
  SameNames (mex_result_fields gen_tables) (names (core_result gen_tables)).
Proof. apply chk_mex_fields_sound. vm_compute. reflexivity. Qed.
Print Assumptions c17_matlab_field_arrays.

Theorem c17_matlab_settings_out : WiredDiag (names (core_settings gen_tables)) (mex_settings_out gen_tables).
Proof. apply chk_mex_settings_out_sound. vm_compute. reflexivity. Qed.
Print Assumptions c17_matlab_settings_out.

Theorem c17_matlab_settings_in :
  WiredDiag (names (core_settings gen_tables)) (mex_settings_in gen_tables) /\ ConvAllowed mex_in_conv (core_settings gen_tables) (mex_settings_in gen_tables).
Proof. apply chk_mex_settings_in_sound. vm_compute. reflexivity. Qed.
Print Assumptions c17_matlab_settings_in.

Theorem c17_matlab_info_out :
  Wired (info_exp (names (core_info gen_tables))) (mex_info_out gen_tables) /\
  ConvAllowed (struct_info_conv "") (core_info gen_tables) (mex_info_out gen_tables) /\
  StatusText (mex_info_out gen_tables).
Proof. apply chk_mex_info_out_sound. vm_compute. reflexivity. Qed.
Print Assumptions c17_matlab_info_out.

Theorem c17_matlab_result_out : WiredDiag (names (core_result gen_tables)) (mex_result_out gen_tables).
Proof. apply chk_mex_result_out_sound. vm_compute. reflexivity. Qed.
Print Assumptions c17_matlab_result_out.

(** Octave (settings struct -> Settings: see Properties_C17_octave_in.v) *)
Theorem c17_octave_settings_out : WiredDiag (names (core_settings gen_tables)) (oct_settings_out gen_tables).
Proof. apply chk_oct_settings_out_sound. vm_compute. reflexivity. Qed.
Print Assumptions c17_octave_settings_out.

Theorem c17_octave_info_out :
  Wired (info_exp (names (core_info gen_tables))) (oct_info_out gen_tables) /\
  ConvAllowed (struct_info_conv "octave_value") (core_info gen_tables) (oct_info_out gen_tables) /\
  StatusText (oct_info_out gen_tables).
Proof. apply chk_oct_info_out_sound. vm_compute. reflexivity. Qed.
Print Assumptions c17_octave_info_out.

Theorem c17_octave_result_out : WiredDiag (names (core_result gen_tables)) (oct_result_out gen_tables).
Proof. apply chk_oct_result_out_sound. vm_compute. reflexivity. Qed.
Print Assumptions c17_octave_result_out.

(** documentation: every settings row states the code's default; the status table states the code's values *)
Theorem c17_documented_defaults : SameDefaults (core_settings gen_tables) (doc_settings gen_tables).
Proof. apply chk_doc_settings_sound. vm_compute. reflexivity. Qed.
Print Assumptions c17_documented_defaults.

Theorem c17_documented_status_codes : SameEnum (core_status gen_tables) (doc_status gen_tables).
Proof. apply chk_doc_status_sound. vm_compute. reflexivity. Qed.
Print Assumptions c17_documented_status_codes.

(** the conjunction of every sub-check except Octave struct -> settings *)
Theorem c17_tables_consistent_except_octave_in : tables_consistent_except_octave_in gen_tables = true.
Proof. vm_compute. reflexivity. Qed.
Print Assumptions c17_tables_consistent_except_octave_in.

(** the like-named wiring in the form of the design note, for the Matlab input direction as an instance:
    every core settings field is written by exactly one assignment, which reads the struct field of that name *)
Theorem c17_matlab_settings_in_explicit :
  forall f, In f (names (core_settings gen_tables)) -> exists! w, In w (mex_settings_in gen_tables) /\ w_ext w = f /\ w_core w = f.
Proof. exact (proj2 (proj1 c17_matlab_settings_in)). Qed.
Print Assumptions c17_matlab_settings_in_explicit.

(** non-vacuity *)
Example c17_tables_nonempty :
  In "reg_finetune_primal_update_threshold" (names (core_settings gen_tables)) /\ In "status" (names (core_info gen_tables)) /\ In "info" (names (core_result gen_tables)) /\
  In ("status_val", "status") (info_exp (names (core_info gen_tables))) /\
  length (mex_settings_in gen_tables) = length (core_settings gen_tables) /\
  length (doc_settings gen_tables) = length (core_settings gen_tables) /\
  core_status gen_tables <> [].
Proof. vm_compute. repeat split; try discriminate; tauto. Qed.

(** the checker is not trivially true: it rejects the F8 shape (one struct field read twice, one never) *)
Example c17_checker_rejects_double_read :
  wires_diag ["check"; "thr"] [ {| w_ext := "check"; w_core := "check"; w_conv := ""; w_line := 1 |};
                                 {| w_ext := "check"; w_core := "thr"; w_conv := ""; w_line := 2 |} ] = false /\
  defaults_eq [ {| cf_name := "tau"; cf_type := "T"; cf_default := DNum 99 100; cf_line := 1 |} ]
              [ {| cf_name := "tau"; cf_type := ""; cf_default := DNum 9 10; cf_line := 1 |} ] = false /\
  enum_eq [ {| e_name := "A"; e_val := 1; e_line := 1 |} ] [ {| e_name := "A"; e_val := (-1); e_line := 1 |} ] = false.
Proof. vm_compute. auto. Qed.
