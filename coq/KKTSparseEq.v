(* KKTSparseEq.v -- sparse/kkt_eq_eliminated.hpp (KKTImpl<.., KKT_EQ_ELIMINATED>) with the parts of sparse/kkt.hpp that drive it
   (init, update_scalings, update_kkt_box_scalings): the (n + m) x (n + m) matrix
        [ P + rho I + box + (1/delta) A^T A     G^T                 ]
        [ G                                     -(S Z^-1 + delta I) ]                (upper triangle, permuted).

   The first part of the file is shared with KKTSparseIneq.v (sparse/kkt_ineq_eliminated.hpp): the two headers are the same text
   up to the roles of the blocks.  One block is ELIMINATED (its Gram product X^T X is cached and added to the top left block: A here,
   G there) and one block is kept as a RECTANGULAR border with a diagonal below it (G^T here, A^T there).  The state record [ekkt]
   therefore names the members by role:
        member of [ekkt]      kkt_eq_eliminated.hpp      kkt_ineq_eliminated.hpp
        ek_X                  A    (cached AT^T)         G    (cached GT^T)
        ek_XX                 AT_A                       GT_W_delta_inv_G
        ek_tmp                tmp_scatter                tmp_scatter
        ek_P2K                P_utri_to_Ki               P_utri_to_Ki
        ek_X2K                AT_A_to_Ki                 GT_G_to_Ki
        ek_R2K                GT_to_Ki                   AT_to_Ki
   PIQP's own loops are transcribed one by one (checked accesses: Err Index; fuel for the `while` scans: Err Fuel), re-using the
   loops that are the same text as in kkt_full.hpp (count_rect / fill_rect / copy_seg / fill_map / dpos / box_scalings / the diagonal
   loops of KKTSparseFull.v) and in kkt_all_eliminated.hpp (advance / mark / scatter_product / add_vals of KKTSparseAll.v).
   Eigen's kernels used at init are modelled by their results exactly as in KKTSparseAll.v (transpose, upper product pattern,
   sparse sum = union of the patterns with rows ascending); tools/kkteqineq_stage.py compares the raw stored matrix, the three
   index maps, PKi, the cached transpose, the cached product and tmp_scatter with the real templates. *)
From PIQP Require Import Base CSC KKTSparseFull KKTSparseAll.
Local Open Scope Qc_scope.

(* ================= shared by KKT_EQ_ELIMINATED and KKT_INEQ_ELIMINATED ================= *)

(* ---------- Eigen: P_utri + diagonal_rho + [c *] XX, by its result ---------- *)
Definition tl_col (n : nat) (P XX : csc F) (j : nat) : list nat :=
  filter (fun i => memb i (col_rows P j) || (i =? j)%nat || memb i (col_rows XX j)) (seq 0 n).
Definition tl_sum (n : nat) (P XX : csc F) (rho : F) (c : option F) : csc F :=
  csc_of_cols n (tl_col n P XX)
    (fun i j => csc_get P i j + (if (i =? j)%nat then rho else 0)
                + match c with None => csc_get XX i j | Some c => c * csc_get XX i j end).

(* ---------- create_kkt_matrix: the top left block ---------- *)
(* counting pass; state (non_zeros, j_kkt, KKT.outerIndexPtr) *)
Definition count_tl (TL : csc F) (st : nat * nat * list nat) : res (nat * nat * list nat) :=
  for_range 0 (ncols TL) (fun j '(nz, jk, kp) =>
    do lo <- get (colptr TL) j ;; do hi <- get (colptr TL) (S j) ;;
    let nz := (nz + (hi - lo))%nat in
    do kp <- upd kp (S jk) nz ;;
    Ok (nz, S jk, kp)) st.

(* copying pass; state (j_kkt, KKT.innerIndexPtr, KKT.valuePtr) *)
Definition fill_tl (TL : csc F) (kp : list nat) (st : nat * list nat * Vec) : res (nat * list nat * Vec) :=
  for_range 0 (ncols TL) (fun j '(jk, ki, kx) =>
    do k_kkt <- get kp jk ;;
    do lo <- get (colptr TL) j ;; do hi <- get (colptr TL) (S j) ;;
    let col_nnz := (hi - lo)%nat in
    do ki <- copy_seg ki k_kkt (rowind TL) lo col_nnz ;;
    do kx <- copy_seg kx k_kkt (vals TL) lo col_nnz ;;
    Ok (S jk, ki, kx)) st.

(* "compute remaining mappings": the merge walk over the first n columns of KKT, two sources *)
Definition compute_maps2 (n : nat) (K P XX : csc F) (maps : list nat * list nat) : res (list nat * list nat) :=
  for_range 0 n (fun j maps =>
    do pk <- get (colptr P) j ;; do xk <- get (colptr XX) j ;;
    do pend <- get (colptr P) (S j) ;; do xend <- get (colptr XX) (S j) ;;
    do klo <- get (colptr K) j ;; do kkk <- get (colptr K) (S j) ;;
    do '(_, _, maps) <- for_range klo kkk (fun kk '(pk, xk, (p2k, x2k)) =>
        do i <- get (rowind K) kk ;;
        do pk <- advance (S (pend - pk)) (rowind P) pk pend i ;;
        do xk <- advance (S (xend - xk)) (rowind XX) xk xend i ;;
        do p2k <- mark (rowind P) pk pend i kk p2k ;;
        do x2k <- mark (rowind XX) xk xend i kk x2k ;;
        Ok (pk, xk, (p2k, x2k))) (pk, xk, maps) ;;
    Ok maps) maps.

(* the common shape of create_kkt_matrix: [TL] the top left block (n x n), [RT] the border (n x r: GT resp. AT), [dval] the value
   put on the diagonal below it, [N] = n_kkt *)
Record emat := mkemat {
  em_K : csc F; em_P2K : list nat; em_X2K : list nat; em_R2K : list nat;
  em_X : csc F; em_XX : csc F; em_tmp : Vec
}.
Definition assemble (n N : nat) (P XX TL RT : csc F) (dval : F) : res (csc F * list nat * list nat * list nat) :=
  (* SparseMat KKT(n_kkt, n_kkt): outer index zeroed *)
  do '(nz, jk, kp) <- count_tl TL (0%nat, 0%nat, repeat 0%nat (S N)) ;;
  do '(nz, jk, kp) <- count_rect RT (nz, jk, kp) ;;
  (* KKT.resizeNonZeros(non_zeros) *)
  do '(jk, ki, kx) <- fill_tl TL kp (0%nat, repeat 0%nat nz, repeat 0 nz) ;;
  do '(jk, ki, kx, r2k) <- fill_rect RT dval kp (jk, ki, kx, repeat 0%nat (nnz RT)) ;;
  let K := mkcsc N N kp ki kx in
  do '(p2k, x2k) <- compute_maps2 n K P XX (repeat 0%nat (nnz P), repeat 0%nat (nnz XX)) ;;
  Ok (K, p2k, x2k, r2k).

(* ---------- the state ---------- *)
Record ekkt := mkekkt {
  ek_sc : scal;                       (* m_rho, m_delta, m_s, .., m_z_ub_inv *)
  ek_pinv : list nat;                 (* ordering.inv *)
  ek_kp : list nat; ek_ki : list nat; ek_kx : Vec;        (* PKPt *)
  ek_PKi : list nat;
  ek_P2K : list nat; ek_X2K : list nat; ek_R2K : list nat;
  ek_X : csc F;                       (* cached transpose *)
  ek_XX : csc F;                      (* cached product *)
  ek_tmp : Vec                        (* tmp_scatter *)
}.
Definition ek_set_kx (k : ekkt) (kx : Vec) : ekkt :=
  mkekkt (ek_sc k) (ek_pinv k) (ek_kp k) (ek_ki k) kx (ek_PKi k) (ek_P2K k) (ek_X2K k) (ek_R2K k) (ek_X k) (ek_XX k) (ek_tmp k).
Definition ek_set_sc (k : ekkt) (c : scal) : ekkt :=
  mkekkt c (ek_pinv k) (ek_kp k) (ek_ki k) (ek_kx k) (ek_PKi k) (ek_P2K k) (ek_X2K k) (ek_R2K k) (ek_X k) (ek_XX k) (ek_tmp k).
Definition ek_set_X (k : ekkt) (X : csc F) : ekkt :=
  mkekkt (ek_sc k) (ek_pinv k) (ek_kp k) (ek_ki k) (ek_kx k) (ek_PKi k) (ek_P2K k) (ek_X2K k) (ek_R2K k) X (ek_XX k) (ek_tmp k).
Definition ek_set_XX (k : ekkt) (XX : csc F) (tmp : Vec) : ekkt :=
  mkekkt (ek_sc k) (ek_pinv k) (ek_kp k) (ek_ki k) (ek_kx k) (ek_PKi k) (ek_P2K k) (ek_X2K k) (ek_R2K k) (ek_X k) XX tmp.

(* update_kkt_cost_scalings: the same text in both headers (and in kkt_all_eliminated.hpp) *)
Definition e_cost_scalings (d : sdata) (k : ekkt) : res Vec :=
  let P := sd_P d in
  (* set PKPt to zero keeping pattern *)
  let kx := repeat 0 (length (ek_kx k)) in
  do kx <- for_range 0 (ncols P) (fun j kx =>
      do lo <- get (colptr P) j ;; do hi <- get (colptr P) (S j) ;;
      for_range lo hi (fun q kx =>
        do q0 <- get (ek_P2K k) q ;; do qq <- get (ek_PKi k) q0 ;; do v <- get (vals P) q ;; do old <- get kx qq ;;
        upd kx qq (old + v)) kx) kx ;;
  for_range 0 (sd_n d) (fun col kx =>
    do q <- dpos (ek_pinv k) (ek_kp k) col ;; do old <- get kx q ;; upd kx q (old + sc_rho (ek_sc k))) kx.

(* KKT::update_kkt_box_scalings (sparse/kkt.hpp) *)
Definition e_box_scalings (d : sdata) (k : ekkt) (kx : Vec) : res Vec :=
  let c := ek_sc k in
  do kx <- box_scalings (ek_pinv k) (ek_kp k) (sd_nlb d) (sd_lbidx d) (sd_lbs d) (sc_z_lb_inv c) (sc_s_lb c) (sc_delta c) kx ;;
  box_scalings (ek_pinv k) (ek_kp k) (sd_nub d) (sd_ubidx d) (sd_ubs d) (sc_z_ub_inv c) (sc_s_ub c) (sc_delta c) kx.

(* the assignments at the head of KKT::update_scalings *)
Definition e_new_scal (d : sdata) (c0 : scal) (rho delta : F) (s s_lb s_ub z z_lb z_ub : Vec) : res scal :=
  do _ <- chk_len (sd_nlb d) s_lb ;; do _ <- chk_len (sd_nlb d) z_lb ;;
  do _ <- chk_len (sd_nub d) s_ub ;; do _ <- chk_len (sd_nub d) z_ub ;;
  do zi <- vinv z ;; do zlbi <- vinv (head (sd_nlb d) z_lb) ;; do zubi <- vinv (head (sd_nub d) z_ub) ;;
  Ok (mkscal rho delta s
             (set_head (head (sd_nlb d) s_lb) (sc_s_lb c0)) (set_head (head (sd_nub d) s_ub) (sc_s_ub c0))
             zi (set_head zlbi (sc_z_lb_inv c0)) (set_head zubi (sc_z_ub_inv c0))).

(* KKT::init after init_workspace / create_kkt_matrix: ordering, permutation, box scalings.  [ord = None]: identity ordering without
   the permutation pass; [ord = Some perm]: perm is what the ordering produced (as in KKTSparseFull.v / KKTSparseAll.v) *)
Definition e_finish_init (d : sdata) (N : nat) (rho delta : F) (ord : option (list nat)) (em : emat) : res ekkt :=
  let c := unit_scal d rho delta in
  do '(pinv, C, pki) <-
    match ord with
    | None => Ok (seq 0 N, em_K em, seq 0 (nnz (em_K em)))
    | Some perm => do o <- ordering_init perm ;;
                   do '(C, a2c) <- permute_sym 0 (em_K em) (oPinv o) ;;
                   Ok (oPinv o, C, a2c)
    end ;;
  let k := mkekkt c pinv (colptr C) (rowind C) (vals C) pki (em_P2K em) (em_X2K em) (em_R2K em)
                  (em_X em) (em_XX em) (em_tmp em) in
  do kx <- e_box_scalings d k (ek_kx k) ;;
  Ok (ek_set_kx k kx).

(* ================= KKT_EQ_ELIMINATED ================= *)
Definition eq_N (d : sdata) : nat := (sd_n d + sd_m d)%nat.
Definition eq_PKPt (d : sdata) (k : ekkt) : csc F := mkcsc (eq_N d) (eq_N d) (ek_kp k) (ek_ki k) (ek_kx k).

(* init_workspace: A = AT.transpose(); AT_A = (AT * A).triangularView<Upper>(); tmp_scatter = 0 (A.cols()) *)
Definition eq_workspace (d : sdata) : res (csc F * csc F * Vec) :=
  do A <- csc_transpose (sd_AT d) ;;
  let tmp := repeat 0 (ncols A) in
  do '(ATA, tmp) <- scatter_product A (sd_AT d) (prod_upper_pattern A (sd_AT d)) None tmp ;;
  Ok (A, ATA, tmp).

(* create_kkt_matrix *)
Definition eq_kkt (d : sdata) (rho delta : F) (ATA : csc F) : res (csc F * list nat * list nat * list nat) :=
  do dinv <- qdiv 1 delta ;;
  let TL := tl_sum (sd_n d) (sd_P d) ATA rho (Some dinv) in
  assemble (sd_n d) (eq_N d) (sd_P d) ATA TL (sd_GT d) (- (1) - delta).

Definition eq_create (d : sdata) (rho delta : F) : res emat :=
  do '(A, ATA, tmp) <- eq_workspace d ;;
  do '(K, p2k, a2k, g2k) <- eq_kkt d rho delta ATA ;;
  Ok (mkemat K p2k a2k g2k A ATA tmp).

Definition eq_init (d : sdata) (rho delta : F) (ord : option (list nat)) : res ekkt :=
  do em <- eq_create d rho delta ;;
  e_finish_init d (eq_N d) rho delta ord em.

(* update_kkt_equality_scalings: PKPt[PKi(AT_A_to_Ki(k))] += delta_inv * AT_A[k] *)
Definition eq_equality_scalings (k : ekkt) (kx : Vec) : res Vec :=
  do dinv <- qdiv 1 (sc_delta (ek_sc k)) ;;
  add_vals (ek_X2K k) (ek_PKi k) (Some dinv) (vals (ek_XX k)) (nnz (ek_XX k)) kx.

(* update_kkt_inequality_scaling: copy GT, then the diagonal -s z_inv - delta of the columns n .. n+m-1 *)
Definition eq_inequality_scaling (d : sdata) (k : ekkt) (kx : Vec) : res Vec :=
  let c := ek_sc k in
  do kx <- scatter_vals (ek_R2K k) (ek_PKi k) (vals (sd_GT d)) (nnz (sd_GT d)) kx ;;
  inequality_scalings (ek_pinv k) (ek_kp k) (sd_n d) 0 (sd_m d) (sc_s c) (sc_z_inv c) (sc_delta c) kx.

(* the four calls shared by update_scalings and update_data *)
Definition eq_refresh (d : sdata) (k : ekkt) : res ekkt :=
  do kx <- e_cost_scalings d k ;;
  do kx <- eq_equality_scalings k kx ;;
  do kx <- eq_inequality_scaling d k kx ;;
  do kx <- e_box_scalings d k kx ;;
  Ok (ek_set_kx k kx).

Definition eq_update_scalings (d : sdata) (k : ekkt) (rho delta : F) (s s_lb s_ub z z_lb z_ub : Vec) : res ekkt :=
  do c <- e_new_scal d (ek_sc k) rho delta s s_lb s_ub z z_lb z_ub ;;
  eq_refresh d (ek_set_sc k c).

(* update_data(options): KKT_UPDATE_A = 2 re-transposes the cached A and recomputes AT_A (update_AT_A) *)
Definition eq_update_data (d : sdata) (k : ekkt) (options : nat) : res ekkt :=
  do k <- (if Nat.testbit options 1 then
             do A <- transpose_no_alloc (sd_AT d) (ek_X k) ;;
             do '(ATA, tmp) <- scatter_product A (sd_AT d) (ek_XX k) None (ek_tmp k) ;;
             Ok (ek_set_XX (ek_set_X k A) ATA tmp)
           else Ok k) ;;
  if (options =? 0)%nat then Ok k else eq_refresh d k.
