(* Bounds.v -- solver.hpp: setup_lb_data, setup_ub_data, disable_inf_constraints, restore_box_dual *)
From PIQP Require Import Base.
Local Open Scope Qc_scope.

Section Bounds.
Variable PIQP_INF : F.

(* bound value at the API: finite rational or +-infinity *)
Definition ext_gt_neg_inf (PI : F) (e : ext) : bool :=   (* e > -PIQP_INF *)
  match e with Fin q => qltb (- PI) q | PInf => true | NInf => false end.
Definition ext_lt_inf (PI : F) (e : ext) : bool :=       (* e < PIQP_INF *)
  match e with Fin q => qltb q PI | PInf => false | NInf => true end.
Definition ext_val (e : ext) : F := match e with Fin q => q | _ => 0 end.

(* setup_lb_data: returns (packed -x_lb, packed indices); n_lb is their length.
   The loop runs i = 0..n-1 and appends, so indices are strictly increasing. *)
Fixpoint pack_lb (i : nat) (xs : list ext) : list F * list nat :=
  match xs with
  | [] => ([], [])
  | e :: t =>
      let '(v, ix) := pack_lb (S i) t in
      if ext_gt_neg_inf PIQP_INF e then (- ext_val e :: v, i :: ix) else (v, ix)
  end.
Fixpoint pack_ub (i : nat) (xs : list ext) : list F * list nat :=
  match xs with
  | [] => ([], [])
  | e :: t =>
      let '(v, ix) := pack_ub (S i) t in
      if ext_lt_inf PIQP_INF e then (ext_val e :: v, i :: ix) else (v, ix)
  end.

(* disable_inf_constraints: row i of G (= column i of GT) is zeroed and h(i) := 1 when |h(i)| > PIQP_INF *)
Definition h_is_inf (e : ext) : bool :=
  match e with Fin q => qltb PIQP_INF q || qltb q (- PIQP_INF) | _ => true end.
Definition disable_inf (GT : Mat) (h : list ext) : Mat * Vec :=
  (map (fun ch => if h_is_inf (snd ch) then map (fun _ => 0) (fst ch) else fst ch) (combine GT h),
   map (fun e => if h_is_inf e then 1 else ext_val e) h).

End Bounds.

(* restore_box_dual: the tail fill followed by the downward swap loop.
   [v] has length n; the first k entries are the packed values. *)
Section Restore.
Context {A : Type}.

Definition swap (v : list A) (i j : nat) : res (list A) :=
  do a <- get v i ;; do b <- get v j ;;
  do v1 <- upd v i b ;; upd v1 j a.

(* for (i = k-1; i >= 0; i--) swap(v(i), v(idx(i)))  -- [ridx] is the index list reversed, i counts down *)
Fixpoint swap_loop (v : list A) (i : nat) (ridx : list nat) : res (list A) :=
  match ridx, i with
  | [], _ => Ok v
  | j :: t, S i' => do v' <- swap v i' j ;; swap_loop v' i' t
  | _ :: _, O => Err Shape
  end.

Definition restore_one (dflt : A) (n : nat) (v : list A) (idx : list nat) : res (list A) :=
  let k := length idx in
  if Nat.leb k n && Nat.eqb (length v) n then
    swap_loop (firstn k v ++ repeat dflt (n - k)) k (rev idx)
  else Err Shape.

End Restore.
