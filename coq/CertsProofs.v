(* CertsProofs.v -- soundness of the certificate checkers of Certs.v, for all sizes (property C03).
     psd_fn_sound / is_psd_sound     exact LDL^T-style test  =>  x'Px >= 0 for every x
     kkt_point_is_optimal            exact KKT point + PSD   =>  global minimiser
     farkas_excludes_feasible        Farkas certificate      =>  no feasible point
     recession_unbounded             recession direction     =>  feasible => unbounded below
     farkas_margin (T1)              -value <= (max primal residual) * ||cert||_1  at EVERY point with slacks >= 0
     recession_margin (T2)           -c'd   <= (max dual residual)  * ||d||_1     at EVERY point with sign-correct multipliers
   and the corollaries with the SOLVED threshold eps_abs + eps_rel * rel.
   Algebra is done on [nat -> Qc] with the finite sums of LinAlg.v; order reasoning by transfer to Q (lra/nra). *)
From PIQP Require Import Base LinAlg Certs.
From Coq Require Import Lqa Lia.
Local Open Scope Qc_scope.

(* ------------------------------------------------------------------ Qc order: transfer to Q *)
Lemma this_plus (a b : Qc) : (this (a + b) == this a + this b)%Q.
Proof. change (this (a + b)) with (Qred (this a + this b)). apply Qred_correct. Qed.
Lemma this_mult (a b : Qc) : (this (a * b) == this a * this b)%Q.
Proof. change (this (a * b)) with (Qred (this a * this b)). apply Qred_correct. Qed.
Lemma this_opp (a : Qc) : (this (- a) == - this a)%Q.
Proof. change (this (- a)) with (Qred (- this a)). apply Qred_correct. Qed.
Lemma this_minus (a b : Qc) : (this (a - b) == this a - this b)%Q.
Proof. unfold Qcminus. rewrite this_plus, this_opp. reflexivity. Qed.
Lemma Qc_eq_this (a b : Qc) : a = b -> (this a == this b)%Q.
Proof. intros ->. reflexivity. Qed.

Ltac qc_hyps :=
  repeat match goal with
  | H : @eq Qc _ _ |- _ => apply Qc_eq_this in H
  | H : @eq F _ _ |- _ => apply Qc_eq_this in H
  end.
Ltac qc_push :=
  repeat (rewrite this_plus in * || rewrite this_mult in * || rewrite this_opp in * || rewrite this_minus in * ).
Ltac qc2q := unfold F in *; qc_hyps; try apply Qc_is_canon; unfold Qcle, Qclt in *; qc_push;
  change (this 0) with 0%Q in *; change (this 1) with 1%Q in *.
Ltac qlra := qc2q; lra.
Ltac qnra := qc2q; nra.

Lemma half_double : half + half = 1.
Proof. apply Qc_is_canon. reflexivity. Qed.
Lemma half_pos : 0 < half.
Proof. reflexivity. Qed.

Lemma qabs_cases a : (0 <= a /\ qabs a = a) \/ (a < 0 /\ qabs a = - a).
Proof.
  unfold qabs. destruct (qltb a 0) eqn:E.
  - right. apply qltb_lt in E. auto.
  - left. apply qltb_ge in E. auto.
Qed.
Lemma qabs_nonneg a : 0 <= qabs a.
Proof. destruct (qabs_cases a) as [[H ->]|[H ->]]; qlra. Qed.
Lemma qabs_ge a : a <= qabs a.
Proof. destruct (qabs_cases a) as [[H ->]|[H ->]]; qlra. Qed.
Lemma qabs_ge_opp a : - a <= qabs a.
Proof. destruct (qabs_cases a) as [[H ->]|[H ->]]; qlra. Qed.
Lemma qabs_of_nonneg a : 0 <= a -> qabs a = a.
Proof. intros H. destruct (qabs_cases a) as [[_ ->]|[H' ->]]; [reflexivity|qlra]. Qed.
Lemma qmax_ge_l a b : a <= qmax a b.
Proof. unfold qmax. destruct (qltb a b) eqn:E; [apply qltb_lt in E; qlra|qlra]. Qed.
Lemma qmax_ge_r a b : b <= qmax a b.
Proof. unfold qmax. destruct (qltb a b) eqn:E; [qlra|apply qltb_ge in E; qlra]. Qed.
(* a * r <= |a| * rho when |r| <= rho *)
Lemma mult_abs_bound a r rho : qabs r <= rho -> a * r <= qabs a * rho.
Proof.
  intros H. pose proof (qabs_ge r). pose proof (qabs_ge_opp r).
  destruct (qabs_cases a) as [[Ha ->]|[Ha ->]]; qnra.
Qed.

(* ------------------------------------------------------------------ allb, sums, fmax *)
Lemma allb_spec n f : allb n f = true <-> forall i, (i < n)%nat -> f i = true.
Proof.
  induction n; cbn [allb].
  - split; [intros _ i Hi; lia|reflexivity].
  - rewrite andb_true_iff, IHn. split.
    + intros [H1 H2] i Hi. destruct (Nat.eq_dec i n) as [->|]; [assumption|apply H1; lia].
    + intros H. split; [intros i Hi; apply H; lia|apply H; lia].
Qed.

Lemma sum_nonneg n f : (forall i, (i < n)%nat -> 0 <= f i) -> 0 <= sum n f.
Proof.
  induction n; intros H.
  - cbn. qlra.
  - rewrite sum_S. assert (0 <= sum n f) by (apply IHn; intros; apply H; lia).
    assert (0 <= f n) by (apply H; lia). qlra.
Qed.
Lemma sum_le n f g : (forall i, (i < n)%nat -> f i <= g i) -> sum n f <= sum n g.
Proof.
  induction n; intros H.
  - cbn. qlra.
  - rewrite !sum_S. assert (sum n f <= sum n g) by (apply IHn; intros; apply H; lia).
    assert (f n <= g n) by (apply H; lia). qlra.
Qed.
Lemma sum_nonpos n f : (forall i, (i < n)%nat -> f i <= 0) -> sum n f <= 0.
Proof. intros H. rewrite <- (sum_zero n). apply sum_le. assumption. Qed.

Lemma fmax_nonneg n f : 0 <= fmax n f.
Proof.
  induction n; cbn [fmax]; [qlra|].
  pose proof (qmax_ge_l (fmax n f) (qabs (f n))). qlra.
Qed.
Lemma fmax_ge n f i : (i < n)%nat -> qabs (f i) <= fmax n f.
Proof.
  induction n; intros Hi; [lia|]. cbn [fmax].
  destruct (Nat.eq_dec i n) as [->|Hne].
  - apply qmax_ge_r.
  - pose proof (qmax_ge_l (fmax n f) (qabs (f n))). assert (qabs (f i) <= fmax n f) by (apply IHn; lia). qlra.
Qed.
Lemma fsum1_nonneg n f : 0 <= fsum1 n f.
Proof. apply sum_nonneg. intros. apply qabs_nonneg. Qed.

(* Hoelder: sum a_i r_i <= rho * ||a||_1 when |r_i| <= rho *)
Lemma sum_abs_bound n a r rho : (forall i, (i < n)%nat -> qabs (r i) <= rho) ->
  sum n (fun i => a i * r i) <= fsum1 n a * rho.
Proof.
  intros H. unfold fsum1. rewrite <- sum_scale_r. apply sum_le. intros i Hi.
  apply mult_abs_bound. apply H. assumption.
Qed.

(* transposition: x'(M'y) = y'(Mx) *)
Lemma bilin_swap (M : nat -> nat -> F) n p (x y : nat -> F) :
  sum n (fun j => x j * sum p (fun k => M k j * y k)) = sum p (fun k => y k * sum n (fun j => M k j * x j)).
Proof.
  rewrite (sum_ext n _ (fun j => sum p (fun k => x j * (M k j * y k)))) by (intros; rewrite sum_scale_l; reflexivity).
  rewrite sum_swap.
  apply sum_ext. intros k Hk. rewrite <- sum_scale_l. apply sum_ext. intros j Hj. qring.
Qed.

(* ------------------------------------------------------------------ the PSD test *)
Lemma symc_sym f i j : symc f i j = symc f j i.
Proof.
  unfold symc. destruct (Nat.leb_spec i j), (Nat.leb_spec j i); try reflexivity; try lia.
  replace j with i by lia. reflexivity.
Qed.

Lemma ent_tabm k f i j : (i < k)%nat -> (j < k)%nat -> ent (tabm k f) i j = f i j.
Proof.
  intros Hi Hj. unfold ent, tabm.
  erewrite nth_map_seq by assumption.
  erewrite nth_map_seq by assumption. reflexivity.
Qed.

Lemma qf_ext k f g x : (forall i j, (i <= j)%nat -> (j < k)%nat -> f i j = g i j) -> qf k f x = qf k g x.
Proof.
  intros H. unfold qf. apply sum_ext. intros i Hi. apply sum_ext. intros j Hj.
  unfold symc. destruct (Nat.leb_spec i j); rewrite H by lia; reflexivity.
Qed.

(* splitting off the first variable *)
Lemma qf_S k f x :
  qf (S k) f x = f O O * x O * x O
               + (1 + 1) * x O * sum k (fun j => f O (S j) * x (S j))
               + qf k (fun i j => f (S i) (S j)) (fun i => x (S i)).
Proof.
  unfold qf. rewrite sum_shift.
  rewrite (sum_shift k (fun j => symc f 0 j * x O * x j)).
  rewrite (sum_ext k (fun i => sum (S k) (fun j => symc f (S i) j * x (S i) * x j))
                     (fun i => f O (S i) * x (S i) * x O + sum k (fun j => symc (fun i j => f (S i) (S j)) i j * x (S i) * x (S j)))).
  2:{ intros i Hi. rewrite sum_shift. f_equal. }
  rewrite sum_add.
  replace (symc f 0 0) with (f O O) by reflexivity.
  rewrite (sum_ext k (fun i => symc f 0 (S i) * x O * x (S i)) (fun i => x O * (f O (S i) * x (S i)))) by (intros; unfold symc; cbn; qring).
  rewrite (sum_ext k (fun i => f O (S i) * x (S i) * x O) (fun i => x O * (f O (S i) * x (S i)))) by (intros; qring).
  rewrite !sum_scale_l. qring.
Qed.

(* the Schur complement step on the quadratic form *)
Lemma qf_schur k (g : nat -> nat -> F) (u : nat -> F) (a : F) (x : nat -> F) : a <> 0 ->
  qf k (fun i j => g i j - u i * u j / a) x = qf k g x - sum k (fun j => u j * x j) * sum k (fun j => u j * x j) / a.
Proof.
  intros Ha. unfold qf.
  rewrite (sum_ext k _ (fun i => sum k (fun j => symc g i j * x i * x j) - (u i * x i) * (sum k (fun j => u j * x j) / a))).
  - rewrite sum_sub. rewrite sum_scale_r. qfield. assumption.
  - intros i Hi.
    replace (sum k (fun j => u j * x j) / a) with (sum k (fun j => u j * x j) * / a) by reflexivity.
    rewrite <- sum_scale_r. rewrite <- sum_scale_l. rewrite <- sum_sub. apply sum_ext. intros j Hj.
    unfold symc. destruct (Nat.leb i j); qfield; assumption.
Qed.

Theorem psd_fn_sound k : forall f, psd_fn k f = true -> forall x, 0 <= qf k f x.
Proof.
  induction k; intros f H x.
  - unfold qf. cbn. qlra.
  - cbn [psd_fn] in H. rewrite qf_S.
    destruct (qltb (f O O) 0) eqn:E1; [discriminate|]. apply qltb_ge in E1.
    destruct (qeqb (f O O) 0) eqn:E2.
    + apply qeqb_eq in E2. apply andb_true_iff in H. destruct H as [Hrow Hrest].
      rewrite allb_spec in Hrow.
      specialize (IHk _ Hrest (fun i => x (S i))).
      rewrite (qf_ext k _ (fun i j => f (S i) (S j))) in IHk by (intros; apply (ent_tabm k (fun i j => f (S i) (S j))); lia).
      rewrite (sum_zero_ext k (fun j => f O (S j) * x (S j))).
      2:{ intros j Hj. specialize (Hrow j Hj). apply qeqb_eq in Hrow. rewrite Hrow. qring. }
      rewrite E2. qlra.
    + apply qeqb_neq in E2.
      specialize (IHk _ H (fun i => x (S i))).
      rewrite (qf_ext k _ (fun i j => f (S i) (S j) - f O (S i) * f O (S j) / f O O)) in IHk by (intros; apply (ent_tabm k (fun i j => f (S i) (S j) - f O (S i) * f O (S j) / f O O)); lia).
      rewrite (qf_schur k (fun i j => f (S i) (S j)) (fun i => f O (S i)) (f O O) (fun i => x (S i)) E2) in IHk.
      set (a := f O O) in *. set (w := sum k (fun j => f O (S j) * x (S j))) in *.
      set (Q := qf k (fun i j => f (S i) (S j)) (fun i => x (S i))) in *.
      set (x0 := x O).
      assert (Hpos : 0 < a) by (destruct (Qcle_lt_or_eq _ _ E1) as [Hlt|Heq]; [assumption|congruence]).
      (* a x0^2 + 2 x0 w + Q = a (x0 + w/a)^2 + (Q - w^2/a) *)
      assert (Hid : a * x0 * x0 + (1 + 1) * x0 * w + Q = a * ((x0 + w / a) * (x0 + w / a)) + (Q - w * w / a)) by (qfield; assumption).
      rewrite Hid.
      assert (0 <= (x0 + w / a) * (x0 + w / a)) by (generalize (x0 + w / a); intros t; qnra).
      assert (0 <= a * ((x0 + w / a) * (x0 + w / a))) by (generalize dependent ((x0 + w / a) * (x0 + w / a)); intros; qnra).
      generalize dependent (a * ((x0 + w / a) * (x0 + w / a))). intros. qlra.
Qed.

Theorem is_psd_sound pb : is_psd pb = true -> forall x : nat -> F, 0 <= sum (q_n pb) (fun i => x i * Pmul pb x i).
Proof.
  intros H x. pose proof (psd_fn_sound _ _ H x) as Hq.
  unfold qf in Hq.
  rewrite (sum_ext (q_n pb) (fun i => x i * Pmul pb x i) (fun i => sum (q_n pb) (fun j => symc (ent (q_P pb)) i j * x i * x j))).
  - assumption.
  - intros i Hi. unfold Pmul, Ps. rewrite <- sum_scale_l. apply sum_ext. intros. qring.
Qed.

(* ------------------------------------------------------------------ linear algebra of a problem *)
Section Problem.
Variable pb : QP.
Notation n := (q_n pb). Notation p := (q_p pb). Notation m := (q_m pb).

Lemma Ps_sym i j : Ps pb i j = Ps pb j i.
Proof. apply symc_sym. Qed.

Lemma xPd_sym (x d : nat -> F) : sum n (fun i => x i * Pmul pb d i) = sum n (fun i => d i * Pmul pb x i).
Proof.
  unfold Pmul.
  rewrite (sum_ext n (fun i => x i * sum n (fun j => Ps pb i j * d j)) (fun i => x i * sum n (fun j => Ps pb j i * d j))).
  - apply (bilin_swap (fun k j => Ps pb k j)).
  - intros i Hi. f_equal. apply sum_ext. intros. rewrite Ps_sym. reflexivity.
Qed.

Lemma Pmul_add x d i : Pmul pb (fun j => x j + d j) i = Pmul pb x i + Pmul pb d i.
Proof. unfold Pmul. rewrite <- sum_add. apply sum_ext. intros. qring. Qed.
Lemma Amul_add x d k : Amul pb (fun j => x j + d j) k = Amul pb x k + Amul pb d k.
Proof. unfold Amul. rewrite <- sum_add. apply sum_ext. intros. qring. Qed.
Lemma Gmul_add x d k : Gmul pb (fun j => x j + d j) k = Gmul pb x k + Gmul pb d k.
Proof. unfold Gmul. rewrite <- sum_add. apply sum_ext. intros. qring. Qed.
Lemma Pmul_scale t d i : Pmul pb (fun j => t * d j) i = t * Pmul pb d i.
Proof. unfold Pmul. rewrite <- sum_scale_l. apply sum_ext. intros. qring. Qed.
Lemma Amul_scale t d k : Amul pb (fun j => t * d j) k = t * Amul pb d k.
Proof. unfold Amul. rewrite <- sum_scale_l. apply sum_ext. intros. qring. Qed.
Lemma Gmul_scale t d k : Gmul pb (fun j => t * d j) k = t * Gmul pb d k.
Proof. unfold Gmul. rewrite <- sum_scale_l. apply sum_ext. intros. qring. Qed.

Lemma Pmul_ext x x' i : (forall j, (j < n)%nat -> x j = x' j) -> Pmul pb x i = Pmul pb x' i.
Proof. intros H. apply sum_ext. intros j Hj. rewrite H by assumption. reflexivity. Qed.
Lemma Amul_ext x x' k : (forall j, (j < n)%nat -> x j = x' j) -> Amul pb x k = Amul pb x' k.
Proof. intros H. apply sum_ext. intros j Hj. rewrite H by assumption. reflexivity. Qed.
Lemma Gmul_ext x x' k : (forall j, (j < n)%nat -> x j = x' j) -> Gmul pb x k = Gmul pb x' k.
Proof. intros H. apply sum_ext. intros j Hj. rewrite H by assumption. reflexivity. Qed.
Lemma objective_ext x x' : (forall j, (j < n)%nat -> x j = x' j) -> objective pb x = objective pb x'.
Proof.
  intros H. unfold objective. f_equal; [f_equal|]; apply sum_ext; intros i Hi.
  - rewrite (Pmul_ext x x' i H), H by assumption. reflexivity.
  - rewrite H by assumption. reflexivity.
Qed.

(* second-order expansion of the objective *)
Lemma objective_expand x d :
  objective pb (fun i => x i + d i) =
  objective pb x + sum n (fun i => d i * (Pmul pb x i + ce pb i)) + half * sum n (fun i => d i * Pmul pb d i).
Proof.
  unfold objective.
  rewrite (sum_ext n (fun i => (x i + d i) * Pmul pb (fun j => x j + d j) i)
                     (fun i => x i * Pmul pb x i + x i * Pmul pb d i + (d i * Pmul pb x i + d i * Pmul pb d i))).
  2:{ intros i Hi. rewrite Pmul_add. qring. }
  rewrite !sum_add. rewrite (xPd_sym x d).
  rewrite (sum_ext n (fun i => ce pb i * (x i + d i)) (fun i => ce pb i * x i + d i * ce pb i)) by (intros; qring).
  rewrite (sum_ext n (fun i => d i * (Pmul pb x i + ce pb i)) (fun i => d i * Pmul pb x i + d i * ce pb i)) by (intros; qring).
  rewrite !sum_add.
  set (a := sum n (fun i => x i * Pmul pb x i)). set (b := sum n (fun i => d i * Pmul pb x i)).
  set (c := sum n (fun i => d i * Pmul pb d i)). set (e := sum n (fun i => ce pb i * x i)).
  set (g := sum n (fun i => d i * ce pb i)).
  transitivity (half * a + e + (half + half) * b + g + half * c); [qring|]. rewrite half_double. qring.
Qed.

(* x'(A'y + G'z - z_lb + z_ub) *)
Lemma x_dot_lin (x y z zl zu : nat -> F) :
  sum n (fun j => x j * lin pb y z zl zu j) =
  sum p (fun k => y k * Amul pb x k) + sum m (fun k => z k * Gmul pb x k) - sum n (fun j => x j * zl j) + sum n (fun j => x j * zu j).
Proof.
  unfold lin.
  rewrite (sum_ext n _ (fun j => x j * ATmul pb y j + x j * GTmul pb z j - x j * zl j + x j * zu j)) by (intros; qring).
  rewrite sum_add, sum_sub, sum_add.
  unfold ATmul, GTmul, Amul, Gmul.
  rewrite (bilin_swap (Ae pb)), (bilin_swap (Ge pb)). reflexivity.
Qed.

(* ---------------- reading the boolean checkers *)
Lemma feasibleb_spec x : feasibleb pb x = true <-> feasible pb x.
Proof.
  unfold feasibleb, feasible. rewrite !andb_true_iff, !allb_spec. unfold lb_ok, ub_ok.
  split.
  - intros [[[H1 H2] H3] H4]. repeat split; intros k Hk.
    + apply qeqb_eq. auto.
    + apply qleb_le. auto.
    + specialize (H3 k Hk). destruct (lbe pb k); [apply qleb_le; assumption|exact I].
    + specialize (H4 k Hk). destruct (ube pb k); [apply qleb_le; assumption|exact I].
  - intros (H1 & H2 & H3 & H4). repeat split; intros k Hk.
    + apply qeqb_eq. auto.
    + apply qleb_le. auto.
    + specialize (H3 k Hk). destruct (lbe pb k); [apply qleb_le; assumption|reflexivity].
    + specialize (H4 k Hk). destruct (ube pb k); [apply qleb_le; assumption|reflexivity].
Qed.

Record mult_sound (z zl zu : nat -> F) : Prop := {
  ms_z : forall k, (k < m)%nat -> 0 <= z k;
  ms_zl : forall j, (j < n)%nat -> 0 <= zl j;
  ms_zu : forall j, (j < n)%nat -> 0 <= zu j;
  ms_zl0 : forall j, (j < n)%nat -> lbe pb j = None -> zl j = 0;
  ms_zu0 : forall j, (j < n)%nat -> ube pb j = None -> zu j = 0
}.

Lemma mult_ok_spec z zl zu : mult_ok pb z zl zu = true <-> mult_sound z zl zu.
Proof.
  unfold mult_ok. rewrite !andb_true_iff, !allb_spec. unfold lbmult_ok, ubmult_ok. split.
  - intros [[H1 H2] H3]. split; intros k Hk.
    + apply qleb_le. auto.
    + specialize (H2 k Hk). destruct (lbe pb k); [apply qleb_le; assumption|apply qeqb_eq in H2; rewrite H2; apply Qcle_refl].
    + specialize (H3 k Hk). destruct (ube pb k); [apply qleb_le; assumption|apply qeqb_eq in H3; rewrite H3; apply Qcle_refl].
    + intros E. specialize (H2 k Hk). rewrite E in H2. apply qeqb_eq. assumption.
    + intros E. specialize (H3 k Hk). rewrite E in H3. apply qeqb_eq. assumption.
  - intros [H1 H2 H3 H4 H5]. repeat split; intros k Hk.
    + apply qleb_le. auto.
    + destruct (lbe pb k) eqn:E; [apply qleb_le; auto|apply qeqb_eq; auto].
    + destruct (ube pb k) eqn:E; [apply qleb_le; auto|apply qeqb_eq; auto].
Qed.

(* ------------------------------------------------------------------ KKT point => global minimiser *)
Theorem kkt_at_optimal (x y z zl zu : nat -> F) :
  kkt_at pb x y z zl zu = true ->
  (forall v : nat -> F, 0 <= sum n (fun i => v i * Pmul pb v i)) ->
  feasible pb x /\ forall x', feasible pb x' -> objective pb x <= objective pb x'.
Proof.
  unfold kkt_at. rewrite !andb_true_iff, !allb_spec.
  intros [[[[[Hf Hm] Hst] Hcz] Hcl] Hcu] Hpsd.
  apply feasibleb_spec in Hf. apply mult_ok_spec in Hm. split; [assumption|].
  intros x' Hf'.
  set (d := fun i => x' i - x i).
  rewrite (objective_ext x' (fun i => x i + d i)) by (intros; unfold d; qring).
  rewrite objective_expand.
  (* the gradient is minus the multiplier combination *)
  rewrite (sum_ext n (fun i => d i * (Pmul pb x i + ce pb i)) (fun i => - (d i * lin pb y z zl zu i))).
  2:{ intros i Hi. specialize (Hst i Hi). apply qeqb_eq in Hst. unfold stat in Hst.
      replace (Pmul pb x i + ce pb i) with (- lin pb y z zl zu i) by qlra. qring. }
  rewrite sum_opp, x_dot_lin.
  destruct Hf as (Fe & Fi & Fl & Fu). destruct Hf' as (Fe' & Fi' & Fl' & Fu'). destruct Hm as [Mz Ml Mu Ml0 Mu0].
  (* equality part vanishes *)
  assert (E1 : sum p (fun k => y k * Amul pb d k) = 0).
  { apply sum_zero_ext. intros k Hk.
    replace (Amul pb d k) with (Amul pb x' k - Amul pb x k).
    - rewrite Fe, Fe' by assumption. qring.
    - unfold Amul, d. rewrite <- sum_sub. apply sum_ext. intros. qring. }
  assert (E2 : sum m (fun k => z k * Gmul pb d k) <= 0).
  { apply sum_nonpos. intros k Hk.
    replace (Gmul pb d k) with (Gmul pb x' k - Gmul pb x k).
    - specialize (Hcz k Hk). apply qeqb_eq in Hcz. specialize (Fi' k Hk). specialize (Mz k Hk).
      generalize dependent (Gmul pb x' k). generalize dependent (Gmul pb x k). intros. qnra.
    - unfold Gmul, d. rewrite <- sum_sub. apply sum_ext. intros. qring. }
  assert (E3 : 0 <= sum n (fun j => d j * zl j)).
  { apply sum_nonneg. intros j Hj. unfold d. specialize (Hcl j Hj). specialize (Fl' j Hj). unfold lb_ok in Fl'.
    specialize (Ml j Hj). destruct (lbe pb j) eqn:E.
    - apply qeqb_eq in Hcl. qnra.
    - rewrite (Ml0 j Hj E). qlra. }
  assert (E4 : sum n (fun j => d j * zu j) <= 0).
  { apply sum_nonpos. intros j Hj. unfold d. specialize (Hcu j Hj). specialize (Fu' j Hj). unfold ub_ok in Fu'.
    specialize (Mu j Hj). destruct (ube pb j) eqn:E.
    - apply qeqb_eq in Hcu. qnra.
    - rewrite (Mu0 j Hj E). qlra. }
  pose proof (Hpsd d) as E5. pose proof half_pos as Hh.
  assert (E6 : 0 <= half * sum n (fun i => d i * Pmul pb d i)) by (generalize dependent (sum n (fun i => d i * Pmul pb d i)); intros; qnra).
  generalize dependent (half * sum n (fun i => d i * Pmul pb d i)). intros.
  generalize dependent (sum p (fun k => y k * Amul pb d k)).
  generalize dependent (sum m (fun k => z k * Gmul pb d k)).
  generalize dependent (sum n (fun j => d j * zl j)).
  generalize dependent (sum n (fun j => d j * zu j)). intros. qlra.
Qed.

(* ------------------------------------------------------------------ Farkas *)
(* the weighted residual identity at an arbitrary point with arbitrary slacks *)
Lemma farkas_identity (y z zl zu x s sl su : nat -> F) : mult_sound z zl zu ->
  sum p (fun k => y k * r_eq pb x k) + sum m (fun k => z k * r_ineq pb x s k)
  + sum n (fun j => zl j * r_lb pb x sl j) + sum n (fun j => zu j * r_ub pb x su j) =
  sum n (fun j => x j * lin pb y z zl zu j) - farkas_value pb y z zl zu
  + sum m (fun k => z k * s k) + sum n (fun j => zl j * sl j) + sum n (fun j => zu j * su j).
Proof.
  intros [Mz Ml Mu Ml0 Mu0]. rewrite x_dot_lin. unfold farkas_value, r_eq, r_ineq.
  rewrite (sum_ext p (fun k => y k * (Amul pb x k - be pb k)) (fun k => y k * Amul pb x k - be pb k * y k)) by (intros; qring).
  rewrite (sum_ext m (fun k => z k * (Gmul pb x k + s k - he pb k)) (fun k => z k * Gmul pb x k + z k * s k - he pb k * z k)) by (intros; qring).
  rewrite (sum_ext n (fun j => zl j * r_lb pb x sl j) (fun j => lbval pb j * zl j - x j * zl j + zl j * sl j)).
  2:{ intros j Hj. unfold r_lb, lbval. destruct (lbe pb j) eqn:E; [qring|rewrite (Ml0 j Hj E); qring]. }
  rewrite (sum_ext n (fun j => zu j * r_ub pb x su j) (fun j => x j * zu j + zu j * su j - ubval pb j * zu j)).
  2:{ intros j Hj. unfold r_ub, ubval. destruct (ube pb j) eqn:E; [qring|rewrite (Mu0 j Hj E); qring]. }
  rewrite !sum_sub, !sum_add, !sum_sub. qring.
Qed.

Lemma farkas_at_spec y z zl zu : farkas_at pb y z zl zu = true ->
  mult_sound z zl zu /\ (forall j, (j < n)%nat -> lin pb y z zl zu j = 0) /\ farkas_value pb y z zl zu < 0.
Proof.
  unfold farkas_at. rewrite !andb_true_iff, allb_spec. intros [[H1 H2] H3].
  split; [apply mult_ok_spec; assumption|]. split; [intros j Hj; apply qeqb_eq; auto|apply qltb_lt; assumption].
Qed.

(* T1: at EVERY point with nonnegative slacks the weighted residuals are at least -value; hence the max-norm bound *)
Theorem farkas_margin_at (y z zl zu x s sl su : nat -> F) :
  farkas_at pb y z zl zu = true ->
  (forall k, (k < m)%nat -> 0 <= s k) -> (forall j, (j < n)%nat -> 0 <= sl j) -> (forall j, (j < n)%nat -> 0 <= su j) ->
  - farkas_value pb y z zl zu <= primal_resid_max pb x s sl su * cert_norm1 pb y z zl zu.
Proof.
  intros H Hs Hsl Hsu. apply farkas_at_spec in H. destruct H as (Hm & Hlin & Hv).
  pose proof (farkas_identity y z zl zu x s sl su Hm) as Hid.
  rewrite (sum_zero_ext n (fun j => x j * lin pb y z zl zu j)) in Hid by (intros j Hj; rewrite Hlin by assumption; qring).
  destruct Hm as [Mz Ml Mu Ml0 Mu0].
  assert (S1 : 0 <= sum m (fun k => z k * s k)) by (apply sum_nonneg; intros k Hk; specialize (Mz k Hk); specialize (Hs k Hk); qnra).
  assert (S2 : 0 <= sum n (fun j => zl j * sl j)) by (apply sum_nonneg; intros k Hk; specialize (Ml k Hk); specialize (Hsl k Hk); qnra).
  assert (S3 : 0 <= sum n (fun j => zu j * su j)) by (apply sum_nonneg; intros k Hk; specialize (Mu k Hk); specialize (Hsu k Hk); qnra).
  set (rho := primal_resid_max pb x s sl su).
  assert (R1 : forall k, (k < p)%nat -> qabs (r_eq pb x k) <= rho).
  { intros k Hk. pose proof (fmax_ge p (r_eq pb x) k Hk). unfold rho, primal_resid_max.
    pose proof (qmax_ge_l (fmax p (r_eq pb x)) (fmax m (r_ineq pb x s))).
    pose proof (qmax_ge_l (qmax (fmax p (r_eq pb x)) (fmax m (r_ineq pb x s))) (fmax n (r_lb pb x sl))).
    pose proof (qmax_ge_l (qmax (qmax (fmax p (r_eq pb x)) (fmax m (r_ineq pb x s))) (fmax n (r_lb pb x sl))) (fmax n (r_ub pb x su))).
    qlra. }
  assert (R2 : forall k, (k < m)%nat -> qabs (r_ineq pb x s k) <= rho).
  { intros k Hk. pose proof (fmax_ge m (r_ineq pb x s) k Hk). unfold rho, primal_resid_max.
    pose proof (qmax_ge_r (fmax p (r_eq pb x)) (fmax m (r_ineq pb x s))).
    pose proof (qmax_ge_l (qmax (fmax p (r_eq pb x)) (fmax m (r_ineq pb x s))) (fmax n (r_lb pb x sl))).
    pose proof (qmax_ge_l (qmax (qmax (fmax p (r_eq pb x)) (fmax m (r_ineq pb x s))) (fmax n (r_lb pb x sl))) (fmax n (r_ub pb x su))).
    qlra. }
  assert (R3 : forall k, (k < n)%nat -> qabs (r_lb pb x sl k) <= rho).
  { intros k Hk. pose proof (fmax_ge n (r_lb pb x sl) k Hk). unfold rho, primal_resid_max.
    pose proof (qmax_ge_r (qmax (fmax p (r_eq pb x)) (fmax m (r_ineq pb x s))) (fmax n (r_lb pb x sl))).
    pose proof (qmax_ge_l (qmax (qmax (fmax p (r_eq pb x)) (fmax m (r_ineq pb x s))) (fmax n (r_lb pb x sl))) (fmax n (r_ub pb x su))).
    qlra. }
  assert (R4 : forall k, (k < n)%nat -> qabs (r_ub pb x su k) <= rho).
  { intros k Hk. pose proof (fmax_ge n (r_ub pb x su) k Hk). unfold rho, primal_resid_max.
    pose proof (qmax_ge_r (qmax (qmax (fmax p (r_eq pb x)) (fmax m (r_ineq pb x s))) (fmax n (r_lb pb x sl))) (fmax n (r_ub pb x su))).
    qlra. }
  pose proof (sum_abs_bound p y _ rho R1) as B1. pose proof (sum_abs_bound m z _ rho R2) as B2.
  pose proof (sum_abs_bound n zl _ rho R3) as B3. pose proof (sum_abs_bound n zu _ rho R4) as B4.
  unfold cert_norm1.
  generalize dependent (fsum1 p y). generalize dependent (fsum1 m z). generalize dependent (fsum1 n zl). generalize dependent (fsum1 n zu).
  generalize dependent (sum p (fun k => y k * r_eq pb x k)). generalize dependent (sum m (fun k => z k * r_ineq pb x s k)).
  generalize dependent (sum n (fun j => zl j * r_lb pb x sl j)). generalize dependent (sum n (fun j => zu j * r_ub pb x su j)).
  generalize dependent (sum m (fun k => z k * s k)). generalize dependent (sum n (fun j => zl j * sl j)).
  generalize dependent (sum n (fun j => zu j * su j)). generalize dependent (farkas_value pb y z zl zu).
  intros. qlra.
Qed.

Theorem farkas_at_excludes_feasible (y z zl zu x : nat -> F) :
  farkas_at pb y z zl zu = true -> feasible pb x -> False.
Proof.
  intros H (Fe & Fi & Fl & Fu). apply farkas_at_spec in H. destruct H as (Hm & Hlin & Hv).
  set (s := fun k => he pb k - Gmul pb x k).
  set (sl := fun j => match lbe pb j with Some l => x j - l | None => 0 end).
  set (su := fun j => match ube pb j with Some u => u - x j | None => 0 end).
  pose proof (farkas_identity y z zl zu x s sl su Hm) as Hid.
  rewrite (sum_zero_ext n (fun j => x j * lin pb y z zl zu j)) in Hid by (intros j Hj; rewrite Hlin by assumption; qring).
  rewrite (sum_zero_ext p (fun k => y k * r_eq pb x k)) in Hid by (intros k Hk; unfold r_eq; rewrite Fe by assumption; qring).
  rewrite (sum_zero_ext m (fun k => z k * r_ineq pb x s k)) in Hid by (intros k Hk; unfold r_ineq, s; qring).
  rewrite (sum_zero_ext n (fun j => zl j * r_lb pb x sl j)) in Hid by (intros j Hj; unfold r_lb, sl; destruct (lbe pb j); qring).
  rewrite (sum_zero_ext n (fun j => zu j * r_ub pb x su j)) in Hid by (intros j Hj; unfold r_ub, su; destruct (ube pb j); qring).
  destruct Hm as [Mz Ml Mu Ml0 Mu0].
  assert (S1 : 0 <= sum m (fun k => z k * s k)).
  { apply sum_nonneg; intros k Hk; specialize (Mz k Hk); specialize (Fi k Hk); unfold s.
    generalize dependent (Gmul pb x k). intros. qnra. }
  assert (S2 : 0 <= sum n (fun j => zl j * sl j)).
  { apply sum_nonneg; intros k Hk; specialize (Ml k Hk); specialize (Fl k Hk); unfold sl, lb_ok in *.
    destruct (lbe pb k); qnra. }
  assert (S3 : 0 <= sum n (fun j => zu j * su j)).
  { apply sum_nonneg; intros k Hk; specialize (Mu k Hk); specialize (Fu k Hk); unfold su, ub_ok in *.
    destruct (ube pb k); qnra. }
  generalize dependent (sum m (fun k => z k * s k)). generalize dependent (sum n (fun j => zl j * sl j)).
  generalize dependent (sum n (fun j => zu j * su j)). generalize dependent (farkas_value pb y z zl zu).
  intros. qlra.
Qed.

(* ------------------------------------------------------------------ recession directions *)
Record recession_sound (d : nat -> F) : Prop := {
  rc_P : forall i, (i < n)%nat -> Pmul pb d i = 0;
  rc_A : forall k, (k < p)%nat -> Amul pb d k = 0;
  rc_G : forall k, (k < m)%nat -> Gmul pb d k <= 0;
  rc_lb : forall j, (j < n)%nat -> lbe pb j <> None -> 0 <= d j;
  rc_ub : forall j, (j < n)%nat -> ube pb j <> None -> d j <= 0;
  rc_c : sum n (fun j => ce pb j * d j) < 0
}.
Lemma recession_at_spec d : recession_at pb d = true -> recession_sound d.
Proof.
  unfold recession_at. rewrite !andb_true_iff, !allb_spec. intros [[[[[H1 H2] H3] H4] H5] H6].
  split.
  - intros; apply qeqb_eq; auto.
  - intros; apply qeqb_eq; auto.
  - intros; apply qleb_le; auto.
  - intros j Hj Hne. specialize (H4 j Hj). destruct (lbe pb j); [apply qleb_le; assumption|congruence].
  - intros j Hj Hne. specialize (H5 j Hj). destruct (ube pb j); [apply qleb_le; assumption|congruence].
  - apply qltb_lt. assumption.
Qed.

Theorem recession_at_unbounded (d x0 : nat -> F) (M : F) :
  recession_at pb d = true -> feasible pb x0 -> exists x, feasible pb x /\ objective pb x < M.
Proof.
  intros H (Fe & Fi & Fl & Fu). apply recession_at_spec in H. destruct H as [RP RA RG Rl Ru Rc].
  set (cd := sum n (fun j => ce pb j * d j)) in *.
  assert (Hk : - cd <> 0) by (intros E; qlra).
  set (t := (qabs (objective pb x0 - M) + 1) / - cd).
  assert (Htk : t * - cd = qabs (objective pb x0 - M) + 1) by (unfold t; qfield; assumption).
  clearbody t.
  assert (Ht : 0 <= t).
  { pose proof (qabs_nonneg (objective pb x0 - M)) as Ha.
    assert (Hc : 0 < - cd) by qlra.
    revert Htk Ha Hc. generalize (qabs (objective pb x0 - M)) (- cd). intros a k Htk Ha Hc. qnra. }
  exists (fun i => x0 i + t * d i). split.
  - repeat split; intros k Hk'.
    + rewrite Amul_add, Amul_scale, RA, Fe by assumption. qring.
    + rewrite Gmul_add, Gmul_scale. specialize (RG k Hk'). specialize (Fi k Hk').
      generalize dependent (Gmul pb d k). generalize dependent (Gmul pb x0 k). intros. qnra.
    + specialize (Fl k Hk'). unfold lb_ok in *. destruct (lbe pb k) eqn:E; [|exact I].
      assert (0 <= d k) by (apply Rl; [assumption|congruence]). qnra.
    + specialize (Fu k Hk'). unfold ub_ok in *. destruct (ube pb k) eqn:E; [|exact I].
      assert (d k <= 0) by (apply Ru; [assumption|congruence]). qnra.
  - rewrite objective_expand.
    rewrite (sum_zero_ext n (fun i => t * d i * Pmul pb (fun j => t * d j) i)).
    2:{ intros i Hi. rewrite Pmul_scale, RP by assumption. qring. }
    rewrite (sum_ext n (fun i => t * d i * (Pmul pb x0 i + ce pb i)) (fun i => t * (d i * Pmul pb x0 i) + t * (ce pb i * d i))) by (intros; qring).
    rewrite sum_add, !sum_scale_l, <- xPd_sym.
    rewrite (sum_zero_ext n (fun i => x0 i * Pmul pb d i)) by (intros i Hi; rewrite RP by assumption; qring).
    fold cd.
    pose proof (qabs_ge (objective pb x0 - M)).
    generalize dependent (qabs (objective pb x0 - M)). intros a Htk Ha. generalize dependent (objective pb x0). intros f0 Ha.
    assert (t * cd = - (a + 1)) by qlra.
    generalize dependent (t * cd). intros. qlra.
Qed.

(* T2: d'(Px + c + A'y + G'z - z_lb + z_ub) <= c'd at EVERY point with sign-correct multipliers *)
Lemma recession_identity (d x y z zl zu : nat -> F) :
  recession_sound d -> mult_sound z zl zu ->
  sum n (fun j => d j * stat pb x y z zl zu j) <= sum n (fun j => ce pb j * d j).
Proof.
  intros [RP RA RG Rl Ru Rc] [Mz Ml Mu Ml0 Mu0]. unfold stat.
  rewrite (sum_ext n _ (fun j => d j * Pmul pb x j + ce pb j * d j + d j * lin pb y z zl zu j)) by (intros; qring).
  rewrite !sum_add, x_dot_lin, <- xPd_sym.
  rewrite (sum_zero_ext n (fun i => x i * Pmul pb d i)) by (intros i Hi; rewrite RP by assumption; qring).
  rewrite (sum_zero_ext p (fun k => y k * Amul pb d k)) by (intros i Hi; rewrite RA by assumption; qring).
  assert (E2 : sum m (fun k => z k * Gmul pb d k) <= 0).
  { apply sum_nonpos. intros k Hk. specialize (RG k Hk). specialize (Mz k Hk). generalize dependent (Gmul pb d k). intros. qnra. }
  assert (E3 : 0 <= sum n (fun j => d j * zl j)).
  { apply sum_nonneg. intros j Hj. specialize (Ml j Hj). destruct (lbe pb j) eqn:E.
    - assert (0 <= d j) by (apply Rl; [assumption|congruence]). qnra.
    - rewrite (Ml0 j Hj E). qlra. }
  assert (E4 : sum n (fun j => d j * zu j) <= 0).
  { apply sum_nonpos. intros j Hj. specialize (Mu j Hj). destruct (ube pb j) eqn:E.
    - assert (d j <= 0) by (apply Ru; [assumption|congruence]). qnra.
    - rewrite (Mu0 j Hj E). qlra. }
  generalize dependent (sum m (fun k => z k * Gmul pb d k)). generalize dependent (sum n (fun j => d j * zl j)).
  generalize dependent (sum n (fun j => d j * zu j)). generalize dependent (sum n (fun j => ce pb j * d j)).
  intros. qlra.
Qed.

Theorem recession_margin_at (d x y z zl zu : nat -> F) :
  recession_at pb d = true -> mult_ok pb z zl zu = true ->
  - sum n (fun j => ce pb j * d j) <= dual_resid_max pb x y z zl zu * fsum1 n d.
Proof.
  intros Hd Hm. apply recession_at_spec in Hd. apply mult_ok_spec in Hm.
  pose proof (recession_identity d x y z zl zu Hd Hm) as Hid.
  assert (B : sum n (fun j => (- d j) * stat pb x y z zl zu j) <= fsum1 n (fun j => - d j) * dual_resid_max pb x y z zl zu).
  { apply sum_abs_bound. intros i Hi. apply fmax_ge. assumption. }
  rewrite (sum_ext n (fun j => - d j * stat pb x y z zl zu j) (fun j => - (d j * stat pb x y z zl zu j))) in B by (intros; qring).
  rewrite sum_opp in B.
  assert (E : fsum1 n (fun j => - d j) = fsum1 n d).
  { unfold fsum1. apply sum_ext. intros j Hj. destruct (qabs_cases (d j)) as [[H1 ->]|[H1 ->]], (qabs_cases (- d j)) as [[H2 ->]|[H2 ->]]; qlra. }
  rewrite E in B.
  generalize dependent (sum n (fun j => d j * stat pb x y z zl zu j)). generalize dependent (fsum1 n d).
  generalize dependent (dual_resid_max pb x y z zl zu). generalize dependent (sum n (fun j => ce pb j * d j)).
  intros. qlra.
Qed.

End Problem.

(* ------------------------------------------------------------------ the checkers on lists *)
Theorem kkt_point_is_optimal_proof pb (x y z zl zu : Vec) :
  is_kkt_point pb x y z zl zu = true -> is_psd pb = true ->
  feasible pb (el x) /\ forall x' : nat -> F, feasible pb x' -> objective pb (el x) <= objective pb x'.
Proof.
  intros H Hp. apply (kkt_at_optimal pb _ _ _ _ _ H). apply is_psd_sound. assumption.
Qed.

Theorem farkas_excludes_feasible_proof pb (y z zl zu : Vec) :
  is_farkas pb y z zl zu = true -> forall x : nat -> F, ~ feasible pb x.
Proof. intros H x Hf. exact (farkas_at_excludes_feasible pb _ _ _ _ x H Hf). Qed.

Theorem recession_unbounded_proof pb (d : Vec) :
  is_recession pb d = true -> forall x0 : nat -> F, feasible pb x0 -> forall M : F, exists x, feasible pb x /\ objective pb x < M.
Proof. intros H x0 Hf M. exact (recession_at_unbounded pb _ x0 M H Hf). Qed.

Definition slacks_nonneg (pb : QP) (s sl su : nat -> F) : Prop :=
  (forall k, (k < q_m pb)%nat -> 0 <= s k) /\ (forall j, (j < q_n pb)%nat -> 0 <= sl j) /\ (forall j, (j < q_n pb)%nat -> 0 <= su j).

Theorem farkas_margin_proof pb (y z zl zu : Vec) :
  is_farkas pb y z zl zu = true ->
  forall x s sl su : nat -> F, slacks_nonneg pb s sl su ->
  - farkas_val pb y z zl zu <= primal_resid_max pb x s sl su * farkas_norm1 pb y z zl zu.
Proof. intros H x s sl su (H1 & H2 & H3). apply farkas_margin_at; assumption. Qed.

Lemma primal_resid_max_nonneg pb x s sl su : 0 <= primal_resid_max pb x s sl su.
Proof.
  unfold primal_resid_max.
  pose proof (fmax_nonneg (q_n pb) (r_ub pb x su)).
  pose proof (qmax_ge_r (qmax (qmax (fmax (q_p pb) (r_eq pb x)) (fmax (q_m pb) (r_ineq pb x s))) (fmax (q_n pb) (r_lb pb x sl))) (fmax (q_n pb) (r_ub pb x su))).
  qlra.
Qed.

(* a <= r * N, 0 < a, 0 <= r, 0 <= N  ==>  0 < N and a / N <= r *)
Lemma margin_div a r N : 0 < a -> 0 <= r -> 0 <= N -> a <= r * N -> 0 < N /\ a / N <= r.
Proof.
  intros Ha Hr HN H.
  assert (HN' : 0 < N).
  { destruct (Qcle_lt_or_eq _ _ HN) as [Hlt|Heq]; [assumption|]. rewrite <- Heq in H. exfalso. qlra. }
  split; [assumption|].
  assert (Hne : N <> 0) by (intros E; rewrite E in HN'; qlra).
  assert (Hq : a / N * N = a) by (qfield; assumption).
  generalize dependent (a / N). intros q Hq. qnra.
Qed.

(* res < ea + er * rel, a / N <= res, 0 < er  ==>  (a / N - ea) / er < rel *)
Lemma threshold_div q res ea er rel : q <= res -> res < ea + er * rel -> 0 < er -> (q - ea) / er < rel.
Proof.
  intros H1 H2 He.
  assert (Hne : er <> 0) by (intros E; rewrite E in He; qlra).
  assert (Hq : (q - ea) / er * er = q - ea) by (qfield; assumption).
  generalize dependent ((q - ea) / er). intros w Hw. qnra.
Qed.

(* T1, normalised certificate: max primal residual >= 1 / ||cert||_1 at every point *)
Theorem farkas_margin_normalised_proof pb (y z zl zu : Vec) :
  is_farkas pb y z zl zu = true -> farkas_val pb y z zl zu = - (1) ->
  forall x s sl su : nat -> F, slacks_nonneg pb s sl su ->
  0 < farkas_norm1 pb y z zl zu /\ 1 / farkas_norm1 pb y z zl zu <= primal_resid_max pb x s sl su.
Proof.
  intros H Hv x s sl su Hs. pose proof (farkas_margin_proof pb y z zl zu H x s sl su Hs) as Hm. rewrite Hv in Hm.
  apply margin_div.
  - reflexivity.
  - apply primal_resid_max_nonneg.
  - unfold farkas_norm1, cert_norm1.
    pose proof (fsum1_nonneg (q_p pb) (el y)). pose proof (fsum1_nonneg (q_m pb) (el z)).
    pose proof (fsum1_nonneg (q_n pb) (el zl)). pose proof (fsum1_nonneg (q_n pb) (el zu)). qlra.
  - replace (- - (1)) with 1 in Hm by qring. assumption.
Qed.

(* T1 corollary: the SOLVED test  primal_inf < eps_abs + eps_rel * primal_rel_inf  can only pass at a huge iterate *)
Theorem solved_excludes_farkas_proof pb (y z zl zu : Vec) (eps_abs eps_rel primal_rel_inf : F) :
  is_farkas pb y z zl zu = true -> farkas_val pb y z zl zu = - (1) ->
  forall x s sl su : nat -> F, slacks_nonneg pb s sl su -> 0 < eps_rel ->
  primal_resid_max pb x s sl su < eps_abs + eps_rel * primal_rel_inf ->
  (1 / farkas_norm1 pb y z zl zu - eps_abs) / eps_rel < primal_rel_inf.
Proof.
  intros H Hv x s sl su Hs He Ht.
  destruct (farkas_margin_normalised_proof pb y z zl zu H Hv x s sl su Hs) as [_ Hm].
  eapply threshold_div; eassumption.
Qed.

Theorem recession_margin_proof pb (d : Vec) :
  is_recession pb d = true ->
  forall x y z zl zu : nat -> F, mult_ok pb z zl zu = true ->
  - recession_val pb d <= dual_resid_max pb x y z zl zu * recession_norm1 pb d.
Proof. intros H x y z zl zu Hm. apply recession_margin_at; assumption. Qed.

Theorem recession_margin_normalised_proof pb (d : Vec) :
  is_recession pb d = true -> recession_val pb d = - (1) ->
  forall x y z zl zu : nat -> F, mult_ok pb z zl zu = true ->
  0 < recession_norm1 pb d /\ 1 / recession_norm1 pb d <= dual_resid_max pb x y z zl zu.
Proof.
  intros H Hv x y z zl zu Hm. pose proof (recession_margin_proof pb d H x y z zl zu Hm) as Hb. rewrite Hv in Hb.
  apply margin_div.
  - reflexivity.
  - apply fmax_nonneg.
  - apply fsum1_nonneg.
  - replace (- - (1)) with 1 in Hb by qring. assumption.
Qed.

Theorem solved_excludes_recession_proof pb (d : Vec) (eps_abs eps_rel dual_rel_inf : F) :
  is_recession pb d = true -> recession_val pb d = - (1) ->
  forall x y z zl zu : nat -> F, mult_ok pb z zl zu = true -> 0 < eps_rel ->
  dual_resid_max pb x y z zl zu < eps_abs + eps_rel * dual_rel_inf ->
  (1 / recession_norm1 pb d - eps_abs) / eps_rel < dual_rel_inf.
Proof.
  intros H Hv x y z zl zu Hm He Ht.
  destruct (recession_margin_normalised_proof pb d H Hv x y z zl zu Hm) as [_ Hb].
  eapply threshold_div; eassumption.
Qed.
