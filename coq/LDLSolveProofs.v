(* LDLSolveProofs.v -- C14 2a: lsolve / dsolve / ltsolve of ldlt.hpp on ANY well-formed unit-lower CSC factor L and
   any D without zeros invert L*D*L^T.  General (all n, all patterns, duplicates and unsorted rows allowed). *)
From PIQP Require Import Base CSC LDLSparse C14LemmasProofs.
Local Open Scope nat_scope.

(* strictly lower CSC storage of a unit lower triangular matrix (diagonal implicit) *)
Definition unit_lower_ok (n : nat) (Lcols Lind : list nat) (Lvals : list F) : bool :=
  (length Lcols =? S n) && (length Lvals =? length Lind) &&
  forallb (fun j => (nth j Lcols 0 <=? nth (S j) Lcols 0) &&
                    forallb (fun p => (p <? length Lind) && (j <? nth p Lind 0) && (nth p Lind 0 <? n))
                            (seq (nth j Lcols 0) (nth (S j) Lcols 0 - nth j Lcols 0))) (seq 0 n).

Section Solve.
Variables (n : nat) (Lcols Lind : list nat) (Lvals : list F).
Hypothesis Hwf : unit_lower_ok n Lcols Lind Lvals = true.

Definition Lcsc := mkcsc n n Lcols Lind Lvals.
(* strictly lower entries, and the full unit lower triangular matrix *)
Definition lent (i j : nat) : F := csc_get Lcsc i j.
Definition Lmat (i j : nat) : F := if i =? j then 1%Qc else lent i j.

Let lo j := nth j Lcols 0.
Let hi j := nth (S j) Lcols 0.
Let g (i p : nat) : F := if nth p Lind 0 =? i then nth p Lvals 0%Qc else 0%Qc.

Lemma wf_len : length Lcols = S n.
Proof. unfold unit_lower_ok in Hwf. rewrite !andb_true_iff in Hwf. now apply Nat.eqb_eq. Qed.
Lemma wf_vals : length Lvals = length Lind.
Proof. unfold unit_lower_ok in Hwf. rewrite !andb_true_iff in Hwf. now apply Nat.eqb_eq. Qed.
Lemma wf_col j : j < n -> lo j <= hi j /\ forall p, lo j <= p < hi j -> p < length Lind /\ j < nth p Lind 0 < n.
Proof.
  intros Hj. unfold unit_lower_ok in Hwf. rewrite !andb_true_iff in Hwf. destruct Hwf as [_ H].
  rewrite forallb_forall in H. specialize (H j). rewrite andb_true_iff in H.
  destruct H as [H1 H2]. { apply in_seq; lia. }
  apply Nat.leb_le in H1. split; [exact H1|]. intros p Hp.
  rewrite forallb_forall in H2. specialize (H2 p). rewrite !andb_true_iff in H2.
  destruct H2 as [[A B] C]. { apply in_seq. unfold lo, hi in *. lia. }
  apply Nat.ltb_lt in A, B, C. lia.
Qed.

Lemma lent_def i j : lent i j = qsum (map (g i) (seq (lo j) (hi j - lo j))).
Proof. reflexivity. Qed.

Lemma lent_upper i j : j < n -> i <= j -> lent i j = 0%Qc.
Proof.
  intros Hj Hij. rewrite lent_def. apply qsum_map_zero. intros p Hp. apply in_seq in Hp.
  destruct (wf_col j Hj) as [_ H]. destruct (H p) as [_ H']; [lia|]. unfold g.
  destruct (Nat.eqb_spec (nth p Lind 0) i); auto. lia.
Qed.

(* ---------- lsolve ---------- *)
Definition lstep (j p : nat) (x : list F) : res (list F) :=
  do r <- get Lind p ;; do l <- get Lvals p ;; do xj <- get x j ;; do xr <- get x r ;; upd x r (xr - l * xj)%Qc.

Lemma lsolve_col j x : j < n -> length x = n ->
  exists x', for_range (lo j) (hi j) (lstep j) x = Ok x' /\ length x' = n /\
             forall i, i < n -> nth i x' 0%Qc = (nth i x 0 - lent i j * nth j x 0)%Qc.
Proof.
  intros Hj Hx. destruct (wf_col j Hj) as [Hle Hp].
  destruct (for_range_ind (fun p (y : list F) => length y = n /\ nth j y 0%Qc = nth j x 0%Qc /\
             forall i, i < n -> nth i y 0%Qc = (nth i x 0 - qsum (map (g i) (seq (lo j) (p - lo j))) * nth j x 0)%Qc)
             (lo j) (hi j) (lstep j) x) as (x' & E & H1 & H2 & H3); auto.
  - split; auto. split; auto. intros. rewrite Nat.sub_diag. simpl. unfold qsum; simpl. fring.
  - intros p y Hpr (Ly & Yj & Yi). destruct (Hp p Hpr) as [Pl [Rl Rn]].
    unfold lstep. rewrite (get_nth Lind p 0) by auto. cbn [bind].
    rewrite (get_nth (A:=F) Lvals p 0%Qc) by (rewrite wf_vals; auto). cbn [bind].
    rewrite (get_nth (A:=F) y j 0%Qc) by lia. cbn [bind].
    rewrite (get_nth (A:=F) y (nth p Lind 0) 0%Qc) by lia. cbn [bind].
    rewrite upd_lset by lia. eexists; split; [reflexivity|].
    split; [now rewrite lset_length|]. split.
    + rewrite nth_lset_other by lia. auto.
    + intros i Hi. replace (S p - lo j) with (S (p - lo j)) by lia.
      rewrite qsum_map_seq_S. replace (lo j + (p - lo j)) with p by lia.
      rewrite nth_lset by lia. unfold g at 2.
      destruct (Nat.eqb_spec i (nth p Lind 0)).
      * subst i. rewrite Nat.eqb_refl. rewrite Yi by auto. rewrite Yj. fring.
      * destruct (Nat.eqb_spec (nth p Lind 0) i); [congruence|]. rewrite Yi by auto. fring.
  - exists x'. auto.
Qed.

Definition lsolve_spec (b x : list F) : Prop :=
  length x = n /\ forall i, i < n -> sum_n n (fun j => Lmat i j * nth j x 0)%Qc = nth i b 0%Qc.

Lemma Lmat_row i x : i < n ->
  sum_n n (fun j => Lmat i j * nth j x 0)%Qc = (nth i x 0 + sum_n n (fun j => lent i j * nth j x 0))%Qc.
Proof.
  intros Hi.
  rewrite (sum_n_ext n _ (fun j => (if j =? i then 1 else 0) * nth j x 0 + lent i j * nth j x 0)%Qc).
  - rewrite sum_n_add. f_equal.
    rewrite (sum_n_delta n i) by (auto; intros j Hj Hne; apply Nat.eqb_neq in Hne; rewrite Hne; fring).
    rewrite Nat.eqb_refl. fring.
  - intros j Hj. unfold Lmat. destruct (Nat.eqb_spec i j).
    + subst. rewrite Nat.eqb_refl. rewrite lent_upper by auto. fring.
    + destruct (Nat.eqb_spec j i); [congruence|]. fring.
Qed.

Theorem lsolve_correct b : length b = n ->
  exists x, lsolve Lcols Lind Lvals b = Ok x /\ lsolve_spec b x.
Proof.
  intros Hb. unfold lsolve. rewrite Hb.
  destruct (for_range_ind (fun j (x : list F) => length x = n /\
      forall i, i < n -> (nth i x 0 + sum_n j (fun c => lent i c * nth c x 0))%Qc = nth i b 0%Qc)
      0 n (fun j x => do lo <- get Lcols j ;; do p2 <- get Lcols (S j) ;; for_range lo p2 (lstep j) x) b)
    as (x & E & Lx & Hx); try lia.
  - split; auto. intros; simpl. fring.
  - intros j x [_ Hj] [Lx Hx].
    rewrite (get_nth Lcols j 0) by (rewrite wf_len; lia). cbn [bind].
    rewrite (get_nth Lcols (S j) 0) by (rewrite wf_len; lia). cbn [bind].
    destruct (lsolve_col j x Hj Lx) as (x' & E & Lx' & Hx'). fold (lo j) (hi j). rewrite E.
    eexists; split; [reflexivity|]. split; auto. intros i Hi. simpl.
    assert (Hsame : forall c, c <= j -> nth c x' 0%Qc = nth c x 0%Qc).
    { intros c Hc. rewrite Hx' by lia. rewrite lent_upper by auto. fring. }
    rewrite (sum_n_ext j _ (fun c => lent i c * nth c x 0)%Qc) by (intros; rewrite Hsame by lia; auto).
    rewrite (Hsame j) by lia. rewrite Hx' by auto. rewrite <- Hx by auto. fring.
  - exists x. split; [exact E|]. split; auto. intros i Hi. rewrite Lmat_row by auto. auto.
Qed.

(* ---------- ltsolve ---------- *)
Definition ltstep (j p : nat) (x : list F) : res (list F) :=
  do r <- get Lind p ;; do l <- get Lvals p ;; do xj <- get x j ;; do xr <- get x r ;; upd x j (xj - l * xr)%Qc.

(* sum over the stored entries of column j = sum over rows *)
Lemma col_sum_rows j (x : list F) : j < n ->
  qsum (map (fun p => nth p Lvals 0 * nth (nth p Lind 0%nat) x 0)%Qc (seq (lo j) (hi j - lo j))) =
  sum_n n (fun i => lent i j * nth i x 0)%Qc.
Proof.
  intros Hj. destruct (wf_col j Hj) as [Hle Hp].
  rewrite (sum_n_ext n _ (fun i => qsum (map (fun p => g i p * nth i x 0)%Qc (seq (lo j) (hi j - lo j))))).
  2:{ intros i Hi. rewrite lent_def. now rewrite qsum_map_scale_r. }
  rewrite <- qsum_sum_n_swap. apply qsum_map_ext. intros p Hin. apply in_seq in Hin.
  destruct (Hp p) as [Pl [Rl Rn]]; [lia|].
  rewrite (sum_n_delta n (nth p Lind 0)); auto.
  - unfold g. rewrite Nat.eqb_refl. reflexivity.
  - intros i Hi Hne. unfold g. destruct (Nat.eqb_spec (nth p Lind 0) i); [congruence|]. fring.
Qed.

Lemma ltsolve_col j x : j < n -> length x = n ->
  exists x', for_range (lo j) (hi j) (ltstep j) x = Ok x' /\ length x' = n /\
             (forall i, i < n -> i <> j -> nth i x' 0%Qc = nth i x 0%Qc) /\
             nth j x' 0%Qc = (nth j x 0 - sum_n n (fun i => lent i j * nth i x 0))%Qc.
Proof.
  intros Hj Hx. destruct (wf_col j Hj) as [Hle Hp].
  destruct (for_range_ind (fun p (y : list F) => length y = n /\ (forall i, i < n -> i <> j -> nth i y 0%Qc = nth i x 0%Qc) /\
             nth j y 0%Qc = (nth j x 0 - qsum (map (fun p => nth p Lvals 0 * nth (nth p Lind 0%nat) x 0)%Qc (seq (lo j) (p - lo j))))%Qc)
             (lo j) (hi j) (ltstep j) x) as (x' & E & H1 & H2 & H3); auto.
  - split; auto. split; auto. rewrite Nat.sub_diag. simpl. unfold qsum; simpl. fring.
  - intros p y Hpr (Ly & Yi & Yj). destruct (Hp p Hpr) as [Pl [Rl Rn]].
    unfold ltstep. rewrite (get_nth Lind p 0) by auto. cbn [bind].
    rewrite (get_nth (A:=F) Lvals p 0%Qc) by (rewrite wf_vals; auto). cbn [bind].
    rewrite (get_nth (A:=F) y j 0%Qc) by lia. cbn [bind].
    rewrite (get_nth (A:=F) y (nth p Lind 0) 0%Qc) by lia. cbn [bind].
    rewrite upd_lset by lia. eexists; split; [reflexivity|].
    split; [now rewrite lset_length|]. split.
    + intros i Hi Hne. rewrite nth_lset_other by lia. auto.
    + replace (S p - lo j) with (S (p - lo j)) by lia.
      rewrite qsum_map_seq_S. replace (lo j + (p - lo j)) with p by lia.
      rewrite nth_lset_same by lia. rewrite Yj. rewrite (Yi (nth p Lind 0)) by lia. fring.
  - exists x'. split; auto. split; auto. split; auto. rewrite H3. now rewrite col_sum_rows.
Qed.

Definition ltsolve_spec (w x : list F) : Prop :=
  length x = n /\ forall j, j < n -> sum_n n (fun i => Lmat i j * nth i x 0)%Qc = nth j w 0%Qc.

Lemma Lmat_col j x : j < n ->
  sum_n n (fun i => Lmat i j * nth i x 0)%Qc = (nth j x 0 + sum_n n (fun i => lent i j * nth i x 0))%Qc.
Proof.
  intros Hj.
  rewrite (sum_n_ext n _ (fun i => (if i =? j then 1 else 0) * nth i x 0 + lent i j * nth i x 0)%Qc).
  - rewrite sum_n_add. f_equal.
    rewrite (sum_n_delta n j) by (auto; intros i Hi Hne; apply Nat.eqb_neq in Hne; rewrite Hne; fring).
    rewrite Nat.eqb_refl. fring.
  - intros i Hi. unfold Lmat. destruct (Nat.eqb_spec i j).
    + subst. rewrite lent_upper by auto. fring.
    + fring.
Qed.

Theorem ltsolve_correct w : length w = n ->
  exists x, ltsolve Lcols Lind Lvals w = Ok x /\ ltsolve_spec w x.
Proof.
  intros Hw. unfold ltsolve. rewrite Hw.
  destruct (for_down_ind (fun j (x : list F) => length x = n /\
      (forall c, c < j -> nth c x 0%Qc = nth c w 0%Qc) /\
      (forall c, j <= c < n -> (nth c x 0 + sum_n n (fun i => lent i c * nth i x 0))%Qc = nth c w 0%Qc))
      n (fun j x => do lo <- get Lcols j ;; do p2 <- get Lcols (S j) ;; for_range lo p2 (ltstep j) x) w)
    as (x & E & Lx & _ & Hx).
  - split; auto. split; auto. intros; lia.
  - intros j x Hj (Lx & Hlow & Hup).
    rewrite (get_nth Lcols j 0) by (rewrite wf_len; lia). cbn [bind].
    rewrite (get_nth Lcols (S j) 0) by (rewrite wf_len; lia). cbn [bind].
    destruct (ltsolve_col j x Hj Lx) as (x' & E & Lx' & Hoth & Hj'). fold (lo j) (hi j). rewrite E.
    eexists; split; [reflexivity|]. split; auto. split.
    + intros c Hc. rewrite Hoth by lia. apply Hlow; lia.
    + intros c Hc.
      (* the column equations only involve entries of x with index > c *)
      assert (Hs : forall y : list F, sum_n n (fun i => lent i c * nth i y 0)%Qc =
                             sum_n n (fun i => (if c <? i then lent i c * nth i y 0 else 0))%Qc).
      { intros y. apply sum_n_ext. intros i Hi. destruct (Nat.ltb_spec c i); auto.
        rewrite lent_upper by lia. fring. }
      destruct (Nat.eq_dec c j) as [Ecj|Ncj].
      * rewrite Ecj in *. clear Ecj. rewrite Hj'. rewrite (Hs x'), (Hs x).
        rewrite (sum_n_ext n (fun i => if j <? i then (lent i j * nth i x' 0)%Qc else 0%Qc)
                             (fun i => if j <? i then (lent i j * nth i x 0)%Qc else 0%Qc)).
        2:{ intros i Hi. destruct (Nat.ltb_spec j i); auto. rewrite Hoth by lia. auto. }
        rewrite Hlow by lia. fring.
      * rewrite Hoth by lia. rewrite (Hs x').
        rewrite (sum_n_ext n (fun i => if c <? i then (lent i c * nth i x' 0)%Qc else 0%Qc)
                             (fun i => if c <? i then (lent i c * nth i x 0)%Qc else 0%Qc)).
        2:{ intros i Hi. destruct (Nat.ltb_spec c i); auto. rewrite Hoth by lia. auto. }
        rewrite <- Hs. apply Hup. lia.
  - exists x. split; [exact E|]. split; auto. intros j Hj. rewrite Lmat_col by auto. apply Hx. lia.
Qed.

(* ---------- dsolve ---------- *)
Variable Dinv : list F.
Hypothesis HDinv : length Dinv = n.

Theorem dsolve_correct z : length z = n ->
  exists x, dsolve Dinv z = Ok x /\ length x = n /\ forall i, i < n -> nth i x 0%Qc = (nth i z 0 * nth i Dinv 0)%Qc.
Proof.
  intros Hz. unfold dsolve. rewrite Hz.
  destruct (for_range_ind (fun j (x : list F) => length x = n /\
      (forall i, i < j -> nth i x 0%Qc = (nth i z 0 * nth i Dinv 0)%Qc) /\ (forall i, j <= i -> nth i x 0%Qc = nth i z 0%Qc))
      0 n (fun j x => do d <- get Dinv j ;; do xj <- get x j ;; upd x j (xj * d)%Qc) z) as (x & E & Lx & H1 & _); try lia.
  - split; auto. split; auto. intros; lia.
  - intros j x [_ Hj] (Lx & Hl & Hu).
    rewrite (get_nth (A:=F) Dinv j 0%Qc) by lia. cbn [bind]. rewrite (get_nth (A:=F) x j 0%Qc) by lia. cbn [bind].
    rewrite upd_lset by lia. eexists; split; [reflexivity|]. split; [now rewrite lset_length|]. split.
    + intros i Hi. rewrite nth_lset by lia. destruct (Nat.eqb_spec i j).
      * subst. rewrite Hu by lia. auto.
      * apply Hl; lia.
    + intros i Hi. rewrite nth_lset_other by lia. apply Hu; lia.
  - exists x. split; auto.
Qed.

(* ---------- solve_inplace inverts L D L^T ---------- *)
Variable D : list F.
Hypothesis HD : forall i, i < n -> (nth i D 0 * nth i Dinv 0)%Qc = 1%Qc.   (* D has no zeros and Dinv is its inverse *)

Definition LDLt (i j : nat) : F := sum_n n (fun k => Lmat i k * nth k D 0 * Lmat j k)%Qc.

Theorem solve_inplace_correct b : length b = n ->
  exists x, solve_inplace Lcols Lind Lvals Dinv b = Ok x /\ length x = n /\
            forall i, i < n -> sum_n n (fun j => LDLt i j * nth j x 0)%Qc = nth i b 0%Qc.
Proof.
  intros Hb. unfold solve_inplace.
  destruct (lsolve_correct b Hb) as (z & Ez & Lz & Hz). rewrite Ez; simpl.
  destruct (dsolve_correct z Lz) as (w & Ew & Lw & Hw). rewrite Ew; simpl.
  destruct (ltsolve_correct w Lw) as (x & Ex & Lx & Hx). rewrite Ex.
  exists x. split; auto. split; auto. intros i Hi.
  unfold LDLt.
  rewrite (sum_n_ext n _ (fun j => sum_n n (fun k => (Lmat i k * nth k D 0) * (Lmat j k * nth j x 0))%Qc)).
  2:{ intros j Hj. rewrite <- sum_n_scale_r. apply sum_n_ext. intros; fring. }
  rewrite sum_n_swap.
  rewrite (sum_n_ext n _ (fun k => Lmat i k * nth k z 0)%Qc).
  - apply Hz; auto.
  - intros k Hk. rewrite sum_n_scale_l. rewrite Hx by auto. rewrite Hw by auto.
    transitivity (Lmat i k * nth k z 0 * (nth k D 0 * nth k Dinv 0))%Qc; [fring|]. rewrite HD by auto. fring.
Qed.

End Solve.
