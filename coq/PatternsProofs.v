(* PatternsProofs.v -- finite enumeration of sparsity patterns and permutations, with completeness lemmas, used to lift
   exhaustive [vm_compute] checks to universally quantified statements (C14).

   An upper-triangular pattern with full diagonal and sorted columns is described by an adjacency function
   adj : nat -> nat -> bool (entry (i,j), i < j, is stored iff adj i j); [pattern_of n adj] is its CSC index part.
   Only the n(n-1)/2 values adj i j with i < j < n matter ([pattern_of_ext]); they are collected in a list of
   booleans, and all lists of booleans of that length are enumerated ([all_bools_complete]). *)
From PIQP Require Import Base CSC.
Local Open Scope nat_scope.

Definition pattern_cols (n : nat) (adj : nat -> nat -> bool) : list (list nat) :=
  map (fun j => filter (fun i => adj i j) (seq 0 j) ++ [j]) (seq 0 n).
Definition pattern_of (n : nat) (adj : nat -> nat -> bool) : list nat * list nat :=
  let cols := pattern_cols n adj in (cumsum 0 (map (@length nat) cols), concat cols).

Lemma pattern_of_ext n adj adj' : (forall i j, i < j -> j < n -> adj i j = adj' i j) -> pattern_of n adj = pattern_of n adj'.
Proof.
  intros H. unfold pattern_of, pattern_cols.
  assert (E : map (fun j => filter (fun i => adj i j) (seq 0 j) ++ [j]) (seq 0 n) =
              map (fun j => filter (fun i => adj' i j) (seq 0 j) ++ [j]) (seq 0 n)).
  { apply map_ext_in. intros j Hj. apply in_seq in Hj. f_equal. apply filter_ext_in.
    intros i Hi. apply in_seq in Hi. apply H; lia. }
  now rewrite E.
Qed.

(* the strictly upper index pairs, column by column: (0,1) (0,2) (1,2) (0,3) ... *)
Definition pairs (n : nat) : list (nat * nat) := flat_map (fun j => map (fun i => (i, j)) (seq 0 j)) (seq 0 n).
Definition pair_eqb (p q : nat * nat) : bool := (fst p =? fst q) && (snd p =? snd q).
Definition adj_of_bits (n : nat) (bs : list bool) (i j : nat) : bool :=
  existsb (fun pb => pair_eqb (i, j) (fst pb) && snd pb) (combine (pairs n) bs).
Definition bits_of (n : nat) (adj : nat -> nat -> bool) : list bool := map (fun p => adj (fst p) (snd p)) (pairs n).

Lemma in_pairs n i j : i < j -> j < n -> In (i, j) (pairs n).
Proof.
  intros. unfold pairs. apply in_flat_map. exists j. split. apply in_seq; lia.
  apply in_map_iff. exists i. split; auto. apply in_seq; lia.
Qed.

Lemma existsb_combine_map {A} (g : A -> bool) (t : A -> A -> bool) (x : A) (l : list A) :
  existsb (fun pb => t x (fst pb) && snd pb) (combine l (map g l)) = existsb (fun p => t x p && g p) l.
Proof. induction l; simpl; auto. now rewrite IHl. Qed.

Lemma adj_of_bits_of n adj i j : i < j -> j < n -> adj_of_bits n (bits_of n adj) i j = adj i j.
Proof.
  intros Hij Hj. unfold adj_of_bits, bits_of. rewrite existsb_combine_map.
  destruct (adj i j) eqn:E.
  - apply existsb_exists. exists (i, j). split. now apply in_pairs. unfold pair_eqb; simpl. now rewrite !Nat.eqb_refl, E.
  - destruct (existsb _ _) eqn:E'; auto. apply existsb_exists in E'. destruct E' as ([a b] & _ & H).
    unfold pair_eqb in H; simpl in H. rewrite !andb_true_iff in H. destruct H as [[H1 H2] H3].
    apply Nat.eqb_eq in H1, H2. subst. congruence.
Qed.

Fixpoint all_bools (k : nat) : list (list bool) :=
  match k with
  | O => [[]]
  | S k => flat_map (fun l => [true :: l; false :: l]) (all_bools k)
  end.
Lemma all_bools_complete k l : length l = k -> In l (all_bools k).
Proof.
  revert l; induction k; intros l H.
  - destruct l; [left; auto|discriminate].
  - destruct l as [|b l]; [discriminate|]. simpl. apply in_flat_map. exists l. split. apply IHk; simpl in H; lia.
    destruct b; simpl; auto.
Qed.
Lemma bits_of_length n adj : length (bits_of n adj) = length (pairs n).
Proof. unfold bits_of. apply map_length. Qed.

(* every adjacency function is, for the purpose of pattern_of, one of the enumerated bit lists *)
Lemma pattern_enumerated n adj :
  exists bs, In bs (all_bools (length (pairs n))) /\ pattern_of n adj = pattern_of n (adj_of_bits n bs).
Proof.
  exists (bits_of n adj). split.
  - apply all_bools_complete. apply bits_of_length.
  - apply pattern_of_ext. intros. symmetry. now apply adj_of_bits_of.
Qed.

(* ---------- all lists of length k over 0..n-1 ; permutations ---------- *)
Fixpoint all_lists (n k : nat) : list (list nat) :=
  match k with
  | O => [[]]
  | S k => flat_map (fun l => map (fun a => a :: l) (seq 0 n)) (all_lists n k)
  end.
Lemma all_lists_complete n k l : length l = k -> (forall x, In x l -> x < n) -> In l (all_lists n k).
Proof.
  revert l; induction k; intros l H Hr.
  - destruct l; [left; auto|discriminate].
  - destruct l as [|a l]; [discriminate|]. simpl. apply in_flat_map. exists l. split.
    + apply IHk. simpl in H; lia. intros; apply Hr; right; auto.
    + apply in_map_iff. exists a. split; auto. apply in_seq. specialize (Hr a (or_introl eq_refl)). lia.
Qed.
Definition all_perms (n : nat) : list (list nat) := filter is_perm (all_lists n n).
