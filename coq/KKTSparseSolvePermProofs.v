(* KKTSparseSolvePermProofs.v -- KKT_FULL under an arbitrary valid ordering: the permuted stored matrix is upper triangular and
   has strictly increasing columns (PermuteSortedProofs.v) whenever the un-permuted assembled matrix repeats no row index in a
   column; hence the hypotheses of the solve theorem on the permuted matrix follow from the ordering being a permutation. *)
From PIQP Require Import Base CSC LDLSparse C14LemmasProofs CSCProofs PermuteProofs LDLValuesFinalProofs LinAlg KKTProofs
  KKTSparseFull KKTSparseFullProofs KKTSparseFullPerm KKTSparseFullPermProofs PermuteSortedProofs PermAddrProofs
  KKTSparseSolve KKTSparseSolveProofs.
From Coq Require Import Lia.
Local Open Scope nat_scope.

Lemma wf_csc_pattern {V W} (A : csc V) (vs : list W) : wf_csc A = true -> length vs = length (rowind A) ->
  wf_csc (mkcsc (nrows A) (ncols A) (colptr A) (rowind A) vs) = true.
Proof.
  unfold wf_csc. cbn [colptr ncols nrows rowind vals]. rewrite !andb_true_iff. intros (((((W1 & W2) & W3) & W4) & W5) & W6) L.
  repeat split; auto. now apply Nat.eqb_eq.
Qed.

Lemma upper_only_pattern {V W} (A : csc V) (B : csc W) : ncols A = ncols B -> colptr A = colptr B -> rowind A = rowind B ->
  upper_only A = upper_only B.
Proof. intros E1 E2 E3. unfold upper_only. now rewrite E1, E2, E3. Qed.

Theorem full_perm_denotes_solve d c perm kid kp :
  wf_sdata d -> upper_only (sd_P d) = true -> fresh_form d c kid -> perm_img d perm kid kp ->
  perm_wf perm -> length perm = sd_n d + sd_p d + sd_m d -> nodup_cols (fk_PKPt d kid) ->
  exists o, ordering_init perm = Ok o /\ oP o = perm /\ oPinv o = fk_pinv kp /\
    ord_ok (mode_N MFull d) o /\ denotes (mode_N MFull d) o (fk_PKPt d kp) (Kfull (sys_sparse d c)).
Proof.
  intros Hwf Hup Hf Hp Hpw Lp Hnd. pose proof Hp as (o & Cpos & a2c & Eo & Eperm & Hok & HS).
  destruct (perm_state_kp_ki _ _ _ _ _ _ _ HS) as (E1 & E2 & E3 & LI & LP & R).
  destruct (ordering_init_correct perm Hpw) as (o' & Eo' & EP & LPi & Hi1 & Hi2). rewrite Eo in Eo'. inversion Eo'; subst o'.
  exists o. split; [exact Eo|]. split; [exact EP|]. split; [now rewrite E1|].
  set (N := sd_n d + sd_p d + sd_m d) in *.
  assert (Hord : ord_ok N o).
  { unfold ord_ok. rewrite EP. split; [exact Hpw|]. split; [exact Lp|]. split; [lia|]. split.
    - intros i Hi. destruct (Hi2 i ltac:(lia)) as [H _]. lia.
    - intros i Hi. destruct (Hi2 i ltac:(lia)) as [_ H]. exact H. }
  split; [exact Hord|].
  destruct (fresh_form_denotes d Hwf c kid Hf) as (Wid & _ & Uid & _). specialize (Uid Hup).
  set (A := mkcsc N N (fk_kp kid) (fk_ki kid) (seq 0 (length (fk_ki kid)))).
  assert (WA : wf_csc A = true) by (apply (wf_csc_pattern (fk_PKPt d kid)); [exact Wid|apply seq_length]).
  assert (UA : upper_only A = true) by (rewrite <- Uid; apply upper_only_pattern; reflexivity).
  destruct (@permute_sym_sorted_full nat (length (fk_ki kid)) A perm WA eq_refl UA Hpw Lp)
    as (o2 & C & a2c2 & Eo2 & Ep2 & C1 & C2 & C3 & C4 & _ & _ & Hstrict).
  rewrite Eo in Eo2. inversion Eo2; subst o2. fold A in Eperm. rewrite Eperm in Ep2. inversion Ep2; subst C a2c2.
  cbn [nrows A] in C1, C2, Hstrict.
  apply (perm_img_denotes_solve d c perm kid kp o Hwf Hup Hf Hp); [now rewrite E1| |].
  - rewrite <- C4. apply upper_only_pattern; [now rewrite C2|exact E2|exact E3].
  - assert (Hs := Hstrict Hnd). intros j p1 p2 Hj H1 H2 Er. cbn [fk_PKPt ncols colptr rowind] in *. rewrite E2, E3 in *. unfold fk_N in Hj. fold N in Hj.
    destruct (Nat.lt_trichotomy p1 p2) as [Hlt|[He|Hgt]]; [|exact He|].
    + specialize (Hs j p1 p2 Hj ltac:(lia) Hlt ltac:(lia)). lia.
    + specialize (Hs j p2 p1 Hj ltac:(lia) Hgt ltac:(lia)). lia.
Qed.
