(* C14LemmasProofs.v -- list/loop/finite-sum lemmas shared by the C14 proofs (CSCProofs, LDLSparseProofs, LDLDenseNPProofs). *)
From PIQP Require Import Base CSC.
Local Open Scope Qc_scope.

(* ring/field on goals whose terms are typed at the alias F: a second declaration of Qcanon's field, at type F *)
Definition Fft : field_theory (0 : F) (1 : F) (Qcplus : F -> F -> F) (Qcmult : F -> F -> F) (Qcminus : F -> F -> F) (Qcopp : F -> F)
  (Qcdiv : F -> F -> F) (Qcinv : F -> F) (@eq F) := Qcft.
Add Field Ffield : Fft.
Ltac fring := first [ ring | unfold F in *; ring ].
Ltac ffield := first [ field | unfold F in *; field ].

(* ---------- get / upd ---------- *)
Fixpoint lset {A} (l : list A) (i : nat) (x : A) : list A :=
  match l, i with
  | [], _ => []
  | _ :: t, O => x :: t
  | a :: t, S k => a :: lset t k x
  end.

Lemma lset_length {A} (l : list A) i x : length (lset l i x) = length l.
Proof. revert i; induction l; destruct i; simpl; auto. Qed.

Lemma nth_lset {A} (l : list A) i x j d : (i < length l)%nat ->
  nth j (lset l i x) d = if (j =? i)%nat then x else nth j l d.
Proof.
  revert i j; induction l; intros i j H; simpl in H; [lia|].
  destruct i, j; simpl; auto. apply IHl; lia.
Qed.

Lemma nth_lset_same {A} (l : list A) i x d : (i < length l)%nat -> nth i (lset l i x) d = x.
Proof. intros; rewrite nth_lset by auto. now rewrite Nat.eqb_refl. Qed.
Lemma nth_lset_other {A} (l : list A) i x j d : (i < length l)%nat -> j <> i -> nth j (lset l i x) d = nth j l d.
Proof. intros; rewrite nth_lset by auto. apply Nat.eqb_neq in H0. now rewrite H0. Qed.

Lemma upd_lset {A} (l : list A) i x : (i < length l)%nat -> upd l i x = Ok (lset l i x).
Proof.
  revert i; induction l; intros i H; simpl in H; [lia|].
  destruct i; simpl; auto. rewrite IHl by lia. reflexivity.
Qed.
Lemma upd_ok_inv {A} (l : list A) i x l' : upd l i x = Ok l' -> (i < length l)%nat /\ l' = lset l i x.
Proof.
  revert i l'; induction l; intros i l' H; simpl in H; [destruct i; discriminate|].
  destruct i; simpl.
  - inversion H; split; [lia|auto].
  - destruct (upd l i x) eqn:E; simpl in H; [|discriminate]. inversion H; subst.
    destruct (IHl _ _ E); subst. split; [lia|auto].
Qed.
Lemma upd_err_ge {A} (l : list A) i x e : upd l i x = Err e -> (length l <= i)%nat /\ e = Index.
Proof.
  revert i; induction l; intros i H; simpl in H.
  - destruct i; inversion H; simpl; split; auto; lia.
  - destruct i; [discriminate|]. destruct (upd l i x) eqn:E; simpl in H; [discriminate|].
    inversion H; subst. destruct (IHl _ E). simpl; split; [lia|auto].
Qed.

Lemma get_nth {A} (l : list A) i d : (i < length l)%nat -> get l i = Ok (nth i l d).
Proof.
  intros H. unfold get. destruct (nth_error l i) eqn:E.
  - now rewrite (nth_error_nth _ _ d E).
  - apply nth_error_None in E. lia.
Qed.
Lemma get_ok_inv {A} (l : list A) i x : get l i = Ok x -> (i < length l)%nat /\ forall d, nth i l d = x.
Proof.
  unfold get. destruct (nth_error l i) eqn:E; intros H; inversion H; subst.
  split. apply nth_error_Some; congruence. intros; now apply nth_error_nth.
Qed.
Lemma get_err_ge {A} (l : list A) i e : get l i = Err e -> (length l <= i)%nat /\ e = Index.
Proof.
  unfold get. destruct (nth_error l i) eqn:E; intros H; inversion H. split; auto. now apply nth_error_None.
Qed.

(* ---------- loops ---------- *)
Lemma foldM_app {A S} (f : S -> A -> res S) l1 l2 s :
  foldM f (l1 ++ l2) s = (do s' <- foldM f l1 s ;; foldM f l2 s').
Proof. revert s; induction l1; intros; simpl; auto. destruct (f s a); simpl; auto. Qed.

Lemma foldM_seq_ind {S} (I : nat -> S -> Prop) (f : nat -> S -> res S) k : forall lo s,
  I lo s ->
  (forall i s, (lo <= i < lo + k)%nat -> I i s -> exists s', f i s = Ok s' /\ I (Datatypes.S i) s') ->
  exists s', foldM (fun s i => f i s) (seq lo k) s = Ok s' /\ I (lo + k)%nat s'.
Proof.
  induction k; intros lo s H0 Hstep; simpl.
  - exists s. rewrite Nat.add_0_r. auto.
  - destruct (Hstep lo s) as (s' & E & I'); [lia|auto|]. rewrite E; simpl.
    destruct (IHk (Datatypes.S lo) s') as (s'' & E' & I''); auto.
    + intros; apply Hstep; auto; lia.
    + exists s''. split; auto. now replace (lo + Datatypes.S k)%nat with (Datatypes.S lo + k)%nat by lia.
Qed.

Lemma for_range_ind {S} (I : nat -> S -> Prop) lo hi (f : nat -> S -> res S) s :
  (lo <= hi)%nat -> I lo s ->
  (forall i s, (lo <= i < hi)%nat -> I i s -> exists s', f i s = Ok s' /\ I (Datatypes.S i) s') ->
  exists s', for_range lo hi f s = Ok s' /\ I hi s'.
Proof.
  intros Hle H0 Hstep. unfold for_range.
  destruct (foldM_seq_ind I f (hi - lo) lo s H0) as (s' & E & HI).
  - intros; apply Hstep; auto; lia.
  - exists s'. split; auto. now replace hi with (lo + (hi - lo))%nat by lia.
Qed.

Lemma for_range_empty {S} lo hi (f : nat -> S -> res S) s : (hi <= lo)%nat -> for_range lo hi f s = Ok s.
Proof. intros. unfold for_range. replace (hi - lo)%nat with 0%nat by lia. reflexivity. Qed.

Lemma for_down_ind {S} (I : nat -> S -> Prop) n (f : nat -> S -> res S) s :
  I n s ->
  (forall i s, (i < n)%nat -> I (Datatypes.S i) s -> exists s', f i s = Ok s' /\ I i s') ->
  exists s', for_down n f s = Ok s' /\ I 0%nat s'.
Proof.
  unfold for_down. revert s. induction n; intros s H0 Hstep.
  - exists s; simpl; auto.
  - rewrite seq_S, rev_app_distr. simpl.
    destruct (Hstep n s) as (s' & E & I'); [lia|auto|]. rewrite E; simpl.
    apply IHn; auto.
Qed.

(* extensionality of loops *)
Lemma foldM_ext {A S} (f g : S -> A -> res S) l s :
  (forall a s, In a l -> f s a = g s a) -> foldM f l s = foldM g l s.
Proof.
  revert s; induction l; intros s H; simpl; auto.
  rewrite H by (left; auto). destruct (g s a); simpl; auto. apply IHl. intros; apply H; right; auto.
Qed.

(* ---------- finite sums over nat ---------- *)
Fixpoint sum_n (n : nat) (f : nat -> F) : F :=
  match n with O => 0 | S k => sum_n k f + f k end.

Lemma sum_n_ext n f g : (forall i, (i < n)%nat -> f i = g i) -> sum_n n f = sum_n n g.
Proof. induction n; intros H; simpl; auto. rewrite IHn, H; auto. Qed.
Lemma sum_n_zero n f : (forall i, (i < n)%nat -> f i = 0) -> sum_n n f = 0.
Proof. induction n; intros H; simpl; auto. rewrite IHn, H; auto; try fring. Qed.
Lemma sum_n_add n f g : sum_n n (fun i => f i + g i) = sum_n n f + sum_n n g.
Proof. induction n; simpl; [fring|]. rewrite IHn. fring. Qed.
Lemma sum_n_sub n f g : sum_n n (fun i => f i - g i) = sum_n n f - sum_n n g.
Proof. induction n; simpl; [fring|]. rewrite IHn. fring. Qed.
Lemma sum_n_scale_l n c f : sum_n n (fun i => c * f i) = c * sum_n n f.
Proof. induction n; simpl; [fring|]. rewrite IHn. fring. Qed.
Lemma sum_n_scale_r n c f : sum_n n (fun i => f i * c) = sum_n n f * c.
Proof. induction n; simpl; [fring|]. rewrite IHn. fring. Qed.
Lemma sum_n_swap n m (f : nat -> nat -> F) :
  sum_n n (fun i => sum_n m (fun j => f i j)) = sum_n m (fun j => sum_n n (fun i => f i j)).
Proof.
  induction n; simpl.
  - symmetry. apply sum_n_zero; auto.
  - rewrite IHn. rewrite <- sum_n_add. reflexivity.
Qed.
(* a single non-zero term *)
Lemma sum_n_delta n k f : (k < n)%nat -> (forall i, (i < n)%nat -> i <> k -> f i = 0) -> sum_n n f = f k.
Proof.
  induction n; intros Hk H; [lia|]. simpl.
  destruct (Nat.eq_dec k n).
  - subst. rewrite sum_n_zero. fring. intros; apply H; lia.
  - rewrite IHn by (auto; try lia; intros; apply H; lia). rewrite (H n) by lia. fring.
Qed.
(* truncate at m <= n when the tail vanishes *)
Lemma sum_n_trunc n m f : (m <= n)%nat -> (forall i, (m <= i < n)%nat -> f i = 0) -> sum_n n f = sum_n m f.
Proof.
  induction n; intros Hm H.
  - replace m with 0%nat by lia. reflexivity.
  - destruct (Nat.eq_dec m (S n)); [subst; reflexivity|].
    simpl. rewrite H by lia. rewrite IHn by (try lia; intros; apply H; lia). fring.
Qed.

(* ---------- qsum over lists ---------- *)
Lemma qsum_app l1 l2 : qsum (l1 ++ l2) = qsum l1 + qsum l2.
Proof. induction l1; simpl; [fring|]. unfold qsum in *. simpl. rewrite IHl1. fring. Qed.
Lemma qsum_map_seq_S (g : nat -> F) lo k :
  qsum (map g (seq lo (S k))) = qsum (map g (seq lo k)) + g (lo + k)%nat.
Proof. rewrite seq_S, map_app, qsum_app. simpl. unfold qsum; simpl. fring. Qed.
Lemma qsum_map_ext (g h : nat -> F) l : (forall p, In p l -> g p = h p) -> qsum (map g l) = qsum (map h l).
Proof. induction l; intros H; simpl; auto. unfold qsum in *; simpl. rewrite H by (left; auto). rewrite IHl; auto. intros; apply H; right; auto. Qed.
Lemma qsum_map_zero (g : nat -> F) l : (forall p, In p l -> g p = 0) -> qsum (map g l) = 0.
Proof. induction l; intros H; simpl; auto. unfold qsum in *; simpl. rewrite H by (left; auto). rewrite IHl. fring. intros; apply H; right; auto. Qed.
Lemma qsum_map_add (g h : nat -> F) l : qsum (map (fun p => g p + h p) l) = qsum (map g l) + qsum (map h l).
Proof. induction l; simpl. unfold qsum; simpl; fring. unfold qsum in *; simpl. rewrite IHl. fring. Qed.
Lemma qsum_map_scale_r (g : nat -> F) c l : qsum (map (fun p => g p * c) l) = qsum (map g l) * c.
Proof. induction l; simpl. unfold qsum; simpl; fring. unfold qsum in *; simpl. rewrite IHl. fring. Qed.
(* exchange a list sum with a finite sum *)
Lemma qsum_sum_n_swap (g : nat -> nat -> F) l n :
  qsum (map (fun p => sum_n n (fun i => g p i)) l) = sum_n n (fun i => qsum (map (fun p => g p i) l)).
Proof.
  induction l; simpl.
  - unfold qsum; simpl. symmetry; apply sum_n_zero; auto.
  - unfold qsum in *; simpl. rewrite IHl. rewrite <- sum_n_add. reflexivity.
Qed.
