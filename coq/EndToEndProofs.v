(* EndToEndProofs.v -- closes the chain  API.setup / API.update / API.solve  ==>  ResidSpec.scaled_problem  ==>
   certificate of the user's problem (C01 at model level, C04-T4).
   Links PrecondProofs (C15: scale_data is an exact change of variables, inverse invariant), BoundsProofs (packing of the
   finite bounds, disabled rows, restore_box_dual), ShapesProofs (C11: shapes of every array along every history) with
   ResidProofs / ResidLoopProofs (SOLVED => certificate for the problem the scaled data represent). *)
From PIQP Require Import Base Data Bounds PrecondDense KKTDense IPM API.
From PIQP Require Import LinAlg LLTProofs PrecondProofs BoundsProofs Shapes ShapesProofs.
From PIQP Require InteriorProofs.   (* C08: qualified use only (its names clash with ResidSpec) *)
From PIQP Require Import ResidLemmas ResidSpec ResidProofs ResidLoopProofs.
From RecordUpdate Require Import RecordSet.
Import RecordSetNotations.
Local Open Scope Qc_scope.

(* PrecondProofs and ResidSpec both define [pc_inverse]; unqualified = ResidSpec (two arguments) *)
Local Notation pinv := PrecondProofs.pc_inverse.

(* ================================================================== *)
(** * 1. the effective user problem                                     *)
(* ================================================================== *)

(* The problem the library documents for a call with blocks B on top of a previous (effective) problem U:
   - P: symmetric completion of the upper triangle of the matrix passed (ResidSpec.Pfull reads u_P for i <= j only);
   - a row k of G whose h_k is infinite (|h_k| > PIQP_INF, Bounds.h_is_inf) is replaced by the ZERO row with h_k = 1:
     the vacuous constraint 0 <= 1 - s_k ... i.e. 0*x + s_k = 1, s_k >= 0, which every x satisfies;
   - lower / upper bounds exist only at the indices pack_lb / pack_ub keep (finite entries); u_lb / u_ub are read at
     those indices only (the index lists are d_lb_idx / d_ub_idx of the data, see [upd_lbi], [upd_ubi]);
   - a block that is not passed keeps its previous EFFECTIVE value.  In particular (F7) h passed without G masks the
     previously stored rows, which stay zero where an earlier infinite h_k zeroed them; (F7b) G passed without h
     meets the stored right-hand side, which is the placeholder 1 where h_k was infinite. *)
Definition upd_user (K : Consts) (U : UserQP) (B : Blocks) : UserQP :=
  let G0 := match b_G B with Some G => (fun k i => mentry G k i) | None => u_G U end in
  {| u_P := match b_P B with Some P => (fun i j => mentry P i j) | None => u_P U end;
     u_c := match b_c B with Some c => el c | None => u_c U end;
     u_A := match b_A B with Some A => (fun k i => mentry A k i) | None => u_A U end;
     u_b := match b_b B with Some b => el b | None => u_b U end;
     u_G := match b_h B with
            | Some h => (fun k i => if h_is_inf (k_inf K) (nth k h NInf) then 0 else G0 k i)
            | None => G0 end;
     u_h := match b_h B with
            | Some h => (fun k => if h_is_inf (k_inf K) (nth k h NInf) then 1 else ext_val (nth k h NInf))
            | None => u_h U end;
     u_lb := match b_lb B with Some l => (fun i => ext_val (nth i l NInf)) | None => u_lb U end;
     u_ub := match b_ub B with Some l => (fun i => ext_val (nth i l PInf)) | None => u_ub U end |}.
Definition upd_lbi (K : Consts) (old : list nat) (B : Blocks) : list nat :=
  match b_lb B with Some l => snd (pack_lb (k_inf K) 0 l) | None => old end.
Definition upd_ubi (K : Consts) (old : list nat) (B : Blocks) : list nat :=
  match b_ub B with Some l => snd (pack_ub (k_inf K) 0 l) | None => old end.

Definition zero_user : UserQP :=
  {| u_P := fun _ _ => 0; u_c := fun _ => 0; u_A := fun _ _ => 0; u_b := fun _ => 0;
     u_G := fun _ _ => 0; u_h := fun _ => 0; u_lb := fun _ => 0; u_ub := fun _ => 0 |}.
(* the effective user problem of a setup() call *)
Definition eff_user (K : Consts) (B : Blocks) : UserQP := upd_user K zero_user B.
Definition eff_lbi (K : Consts) (B : Blocks) : list nat := upd_lbi K [] B.
Definition eff_ubi (K : Consts) (B : Blocks) : list nat := upd_ubi K [] B.

(* ================================================================== *)
(** * 2. unscaled data representing a user problem                      *)
(* ================================================================== *)
(* [d0] (unscaled) stores the problem U: entry by entry, zero strict lower triangle of P, unit box scalings in ALL n slots *)
Record rep (U : UserQP) (d0 : Data) : Prop := mk_rep {
  rp_P : forall i j, (i <= j)%nat -> (j < d_n d0)%nat -> mentry (d_P d0) i j = u_P U i j;
  rp_Plo : lower_zero (d_n d0) (d_P d0);
  rp_c : forall i, (i < d_n d0)%nat -> el (d_c d0) i = u_c U i;
  rp_AT : forall i k, (i < d_n d0)%nat -> (k < d_p d0)%nat -> mentry (d_AT d0) i k = u_A U k i;
  rp_GT : forall i k, (i < d_n d0)%nat -> (k < d_m d0)%nat -> mentry (d_GT d0) i k = u_G U k i;
  rp_b : forall k, (k < d_p d0)%nat -> el (d_b d0) k = u_b U k;
  rp_h : forall k, (k < d_m d0)%nat -> el (d_h d0) k = u_h U k;
  rp_lbs : forall k, (k < d_n d0)%nat -> el (d_lb_scaling d0) k = 1;
  rp_ubs : forall k, (k < d_n d0)%nat -> el (d_ub_scaling d0) k = 1;
  rp_lbn : forall k, (k < d_nlb d0)%nat -> el (d_lb_n d0) k = - u_lb U (nth k (d_lb_idx d0) O);
  rp_ubv : forall k, (k < d_nub d0)%nat -> el (d_ub d0) k = u_ub U (nth k (d_ub_idx d0) O)
}.

(* the box scalings of the SCALED data are 1 beyond the packed prefix (never touched by scale / unscale) *)
Definition tails_one (d : Data) : Prop :=
  (forall k, (d_nlb d <= k)%nat -> (k < d_n d)%nat -> el (d_lb_scaling d) k = 1) /\
  (forall k, (d_nub d <= k)%nat -> (k < d_n d)%nat -> el (d_ub_scaling d) k = 1).

(* the scalings recorded in pc relate d0 to d *)
Definition transformed (pc : Precond) (d0 d : Data) : Prop :=
  is_transform (pc_c pc) (pc_delta pc) (pc_delta_lb pc) (pc_delta_ub pc) d0 d /\
  bounds_transform (pc_delta pc) (pc_delta_lb pc) (pc_delta_ub pc) d0 d.

(* ---- conversions of the well-formedness vocabularies ---- *)
Lemma wf_to_data_shape d : wf_data d -> data_shape d.
Proof.
  intros W. pose proof (wf_nlb_le _ W). pose proof (wf_nub_le _ W). destruct W.
  split; try assumption.
  - eapply incr_from_Forall; eauto.
  - eapply incr_from_Forall; eauto.
  - unfold Vec, F in *. lia.
  - unfold Vec, F in *. lia.
Qed.

Lemma wf_to_pc_shape pc d :
  wf_data d -> wf_pc pc d -> pc_nlb pc = d_nlb d -> pc_nub pc = d_nub d -> pc_shape pc d.
Proof.
  intros W [WL (En & Ep & Em)] Nlb Nub. pose proof (wf_nlb_le _ W). pose proof (wf_nub_le _ W).
  destruct WL. split; try assumption; unfold Vec, F in *; try lia.
Qed.

Lemma pinv_to_inverse pc d :
  wf_data d -> wf_pc pc d -> pinv pc -> pc_inverse pc d /\ pc_positive pc d.
Proof.
  intros W [WL (En & Ep & Em)] I. pose proof (wf_nlb_le _ W). pose proof (wf_nub_le _ W).
  destruct I as [I1 I2 I3 I4 I5 I6 I7 I8]. rewrite En, Ep, Em in *. split; split; unfold sdlb, sdlbi, sdub, sdubi, el.
  - exact I1.
  - exact I3.
  - intros k Hk. apply I5. lia.
  - intros k Hk. apply I7. lia.
  - exact I2.
  - exact I4.
  - intros k Hk. apply I6. lia.
  - intros k Hk. apply I8. lia.
Qed.

Lemma pinv_set_counts pc a b : pinv pc -> pinv (pc <| pc_nlb := a |> <| pc_nub := b |>).
Proof. intros []. split; assumption. Qed.

(* ---- (A) transformed + rep ==> scaled_problem ---- *)
Theorem transformed_rep_scaled U pc d0 d :
  wf_data d -> wf_pc pc d -> pc_nlb pc = d_nlb d -> pc_nub pc = d_nub d -> pinv pc ->
  transformed pc d0 d -> rep U d0 ->
  scaled_problem U d pc /\ tails_one d.
Proof.
  intros W WP Nlb Nub I [T Bt] R.
  destruct (pinv_to_inverse pc d W WP I) as [Hinv Hpos].
  pose proof WP as [_ (En & Ep & Em)].
  destruct T as [Tn Tp Tm Tlbi Tubi TPu TPl Tc TAT TGT Tlbs Tlbt Tubs Tubt].
  destruct Bt as (Bb & Bh & Blb & Bub).
  destruct R as [RP RPl Rc RAT RGT Rb Rh Rlbs Rubs Rlbn Rubv].
  assert (Enlb : d_nlb d = d_nlb d0) by (unfold d_nlb; rewrite Tlbi; reflexivity).
  assert (Enub : d_nub d = d_nub d0) by (unfold d_nub; rewrite Tubi; reflexivity).
  pose proof (wf_nlb_le _ W) as Lnlb. pose proof (wf_nub_le _ W) as Lnub.
  split.
  - split; [apply wf_to_data_shape, W | apply wf_to_pc_shape; assumption | exact Hinv | exact Hpos | | ].
    + split; unfold sdx, sdy, sdz, sdlb, sdub, el; rewrite ?En, ?Ep, ?Tn, ?Tp, ?Tm, ?Tlbi, ?Tubi, ?Enlb, ?Enub.
      * intros i j Hij Hj. rewrite TPu, RP by auto. reflexivity.
      * intros i Hi. unfold el in Rc. rewrite Tc, Rc by auto. reflexivity.
      * intros i k Hi Hk. rewrite TAT, RAT by auto. reflexivity.
      * intros i k Hi Hk. rewrite TGT, RGT by auto. reflexivity.
      * intros k Hk. unfold el in Rb. rewrite Bb, Rb by auto. reflexivity.
      * intros k Hk. unfold el in Rh. rewrite Bh, Rh by auto. reflexivity.
      * intros k Hk. unfold el in Rlbs. rewrite Tlbs, Rlbs by lia. unfold F. ring.
      * intros k Hk. unfold el in Rubs. rewrite Tubs, Rubs by lia. unfold F. ring.
      * intros k Hk. unfold el in Rlbn. rewrite Blb, Rlbn by auto. reflexivity.
      * intros k Hk. unfold el in Rubv. rewrite Bub, Rubv by auto. reflexivity.
    + intros i j Hji Hi. rewrite Tn in Hi. rewrite TPl by auto. rewrite (RPl i j Hji Hi). unfold F. ring.
  - split; intros k H1 H2; unfold el in *.
    + rewrite Tlbt by lia. apply Rlbs. lia.
    + rewrite Tubt by lia. apply Rubs. lia.
Qed.

(* ---- (B) scaled_problem + transformed ==> rep  (cancellation of the non-zero scalings) ---- *)
Lemma Qc_cancel3 a b c x y : a <> 0 -> b <> 0 -> c <> 0 -> a * b * c * x = a * b * c * y -> x = y.
Proof.
  intros Ha Hb Hc H. assert (Habc : a * b * c <> 0).
  { intro E. apply Qcmult_integral in E. destruct E as [E | E]; [|contradiction].
    apply Qcmult_integral in E. destruct E; contradiction. }
  transitivity (/ (a * b * c) * (a * b * c * x)). field; auto.
  rewrite H. field; auto.
Qed.
Lemma Qc_cancel2 a b x y : a <> 0 -> b <> 0 -> a * b * x = a * b * y -> x = y.
Proof.
  intros Ha Hb H. apply (Qc_cancel3 a b 1 x y Ha Hb). discriminate.
  rewrite !Qcmult_1_r. exact H.
Qed.
Lemma Qc_cancel1 a x y : a <> 0 -> a * x = a * y -> x = y.
Proof.
  intros Ha H. apply (Qc_cancel2 a 1 x y Ha). discriminate. rewrite !Qcmult_1_r. exact H.
Qed.

Theorem scaled_transformed_rep U pc d0 d :
  scaled_problem U d pc -> tails_one d -> transformed pc d0 d -> rep U d0.
Proof.
  intros [Hds Hps Hpi Hpp Hsc Hlz] [Tl Tu] [T Bt].
  destruct T as [Tn Tp Tm Tlbi Tubi TPu TPl Tc TAT TGT Tlbs Tlbt Tubs Tubt].
  destruct Bt as (Bb & Bh & Blb & Bub).
  destruct Hsc as [SP Sc SAT SGT Sb Sh Slbs Subs Slbn Subv].
  assert (Enlb : d_nlb d = d_nlb d0) by (unfold d_nlb; rewrite Tlbi; reflexivity).
  assert (Enub : d_nub d = d_nub d0) by (unfold d_nub; rewrite Tubi; reflexivity).
  pose proof (ps_n _ _ Hps) as En. pose proof (ps_p _ _ Hps) as Ep.
  assert (Nc : pc_c pc <> 0) by (apply (Qc_prod1_neq0 _ _ (ResidSpec.pi_c _ _ Hpi))).
  assert (Nd : forall i, (i < d_n d + d_p d + d_m d)%nat -> nth i (pc_delta pc) 0 <> 0).
  { intros i Hi. apply (Qc_prod1_neq0 _ _ (ResidSpec.pi_delta _ _ Hpi i Hi)). }
  assert (Nlb : forall k, (k < d_nlb d)%nat -> nth k (pc_delta_lb pc) 0 <> 0).
  { intros k Hk. apply (Qc_prod1_neq0 _ _ (ResidSpec.pi_lb _ _ Hpi k Hk)). }
  assert (Nub : forall k, (k < d_nub d)%nat -> nth k (pc_delta_ub pc) 0 <> 0).
  { intros k Hk. apply (Qc_prod1_neq0 _ _ (ResidSpec.pi_ub _ _ Hpi k Hk)). }
  assert (Ilb : forall k, (k < d_nlb d)%nat -> (nth k (d_lb_idx d) O < d_n d)%nat).
  { intros k Hk. pose proof (ds_lbi _ Hds) as HF. rewrite Forall_forall in HF. apply HF, nth_In, Hk. }
  assert (Iub : forall k, (k < d_nub d)%nat -> (nth k (d_ub_idx d) O < d_n d)%nat).
  { intros k Hk. pose proof (ds_ubi _ Hds) as HF. rewrite Forall_forall in HF. apply HF, nth_In, Hk. }
  unfold sdx, sdy, sdz, sdlb, sdub, el in *. rewrite En, ?Ep in *.
  rewrite Tn, ?Tp, ?Tm, ?Tlbi, ?Tubi, ?Enlb, ?Enub in *.
  split; unfold el.
  - intros i j Hij Hj. specialize (TPu i j Hij Hj). rewrite (SP i j Hij Hj) in TPu.
    apply (Qc_cancel3 (pc_c pc) (nth i (pc_delta pc) 0) (nth j (pc_delta pc) 0)); auto; try (apply Nd; lia).
  - intros i j Hji Hi. specialize (TPl i j Hji Hi). rewrite (Hlz i j Hji Hi) in TPl.
    apply (Qc_cancel1 (pc_c pc)); auto. rewrite <- TPl. unfold F. ring.
  - intros i Hi. specialize (Tc i Hi). rewrite (Sc i Hi) in Tc.
    apply (Qc_cancel2 (pc_c pc) (nth i (pc_delta pc) 0)); auto. apply Nd; lia.
  - intros i k Hi Hk. specialize (TAT i k Hi Hk). rewrite (SAT i k Hi Hk) in TAT.
    apply (Qc_cancel2 (nth i (pc_delta pc) 0) (nth (d_n d0 + k) (pc_delta pc) 0)); auto; apply Nd; lia.
  - intros i k Hi Hk. specialize (TGT i k Hi Hk). rewrite (SGT i k Hi Hk) in TGT.
    apply (Qc_cancel2 (nth i (pc_delta pc) 0) (nth (d_n d0 + d_p d0 + k) (pc_delta pc) 0)); auto; apply Nd; lia.
  - intros k Hk. specialize (Bb k Hk). rewrite (Sb k Hk) in Bb.
    apply (Qc_cancel1 (nth (d_n d0 + k) (pc_delta pc) 0)); auto. apply Nd; lia.
  - intros k Hk. specialize (Bh k Hk). rewrite (Sh k Hk) in Bh.
    apply (Qc_cancel1 (nth (d_n d0 + d_p d0 + k) (pc_delta pc) 0)); auto. apply Nd; lia.
  - intros k Hk. destruct (Nat.lt_ge_cases k (d_nlb d0)) as [Hlt | Hge].
    + specialize (Tlbs k Hlt). rewrite (Slbs k Hlt) in Tlbs.
      apply (Qc_cancel2 (nth k (pc_delta_lb pc) 0) (nth (nth k (d_lb_idx d0) O) (pc_delta pc) 0)); auto.
      apply Nd. specialize (Ilb k Hlt). lia. rewrite <- Tlbs. unfold F. ring.
    + rewrite <- (Tlbt k Hge). apply Tl; auto.
  - intros k Hk. destruct (Nat.lt_ge_cases k (d_nub d0)) as [Hlt | Hge].
    + specialize (Tubs k Hlt). rewrite (Subs k Hlt) in Tubs.
      apply (Qc_cancel2 (nth k (pc_delta_ub pc) 0) (nth (nth k (d_ub_idx d0) O) (pc_delta pc) 0)); auto.
      apply Nd. specialize (Iub k Hlt). lia. rewrite <- Tubs. unfold F. ring.
    + rewrite <- (Tubt k Hge). apply Tu; auto.
  - intros k Hk. specialize (Blb k Hk). rewrite (Slbn k Hk) in Blb.
    apply (Qc_cancel1 (nth k (pc_delta_lb pc) 0)); auto.
  - intros k Hk. specialize (Bub k Hk). rewrite (Subv k Hk) in Bub.
    apply (Qc_cancel1 (nth k (pc_delta_ub pc) 0)); auto.
Qed.

(* ================================================================== *)
(** * 3. scale_data / unscale_data in terms of [transformed]            *)
(* ================================================================== *)
(* IdentityPreconditioner: the state init() creates is never changed (only the two counters are) *)
Definition pc_ones (pc : Precond) : Prop :=
  pc_ident pc = true ->
  pc_c pc = 1 /\ pc_delta pc = vconst (pc_n pc + pc_p pc + pc_m pc) 1 /\
  pc_delta_lb pc = vconst (pc_n pc) 1 /\ pc_delta_ub pc = vconst (pc_n pc) 1.

Lemma pc_ones_init ident d : pc_ones (precond_init ident d).
Proof. intros _. cbn. auto. Qed.

Lemma ruiz_iter_ident K sq sc st st' : ruiz_iter K sq sc st = Ok st' -> pc_ident (rz_pc st') = pc_ident (rz_pc st).
Proof.
  intros H. cbv beta delta [ruiz_iter] in H. repeat step H.
  all: injection H as <-; cbn; destruct (rz_pc st); reflexivity.
Qed.
Lemma ruiz_loop_ident K sq sc fuel : forall st st', ruiz_loop K sq fuel sc st = Ok st' -> pc_ident (rz_pc st') = pc_ident (rz_pc st).
Proof.
  induction fuel as [|f IH]; intros st st' H; cbn [ruiz_loop] in H.
  - injection H as <-. reflexivity.
  - destruct (ruiz_continue _ _ _ _ _ _).
    + destruct (ruiz_iter K sq sc st) as [st1|] eqn:E; cbn [bind] in H; [|discriminate].
      rewrite (IH _ _ H). eapply ruiz_iter_ident; eauto.
    + injection H as <-. reflexivity.
Qed.
Lemma ruiz_scale_ident K sq pc d reuse sc it pc' d' :
  ruiz_scale_data K sq pc d reuse sc it = Ok (pc', d') -> pc_ident pc' = pc_ident pc.
Proof.
  destruct reuse; intros H.
  - rewrite scale_reuse_is_xform in H. destruct (xform _ _ _ _ _ _ _ _ _ _ d); cbn [bind] in H; [|discriminate].
    injection H as <- _. destruct pc; reflexivity.
  - apply scale_fresh_inv in H. destruct H as (st & ci & di & dlbi & dubi & E & _ & _ & _ & _ & -> & _).
    cbn. rewrite (ruiz_loop_ident _ _ _ _ _ _ E). destruct pc; reflexivity.
Qed.

Lemma transformed_ones pc d :
  wf_data d -> wf_pc pc d -> pc_ident pc = true -> pc_ones pc -> transformed pc d d.
Proof.
  intros W [WL (En & Ep & Em)] Hid Ho. destruct (Ho Hid) as (E1 & E2 & E3 & E4).
  unfold transformed. rewrite E1, E2, E3, E4, En, Ep, Em. split.
  - apply is_transform_id; auto.
  - pose proof (wf_nlb_le _ W). pose proof (wf_nub_le _ W).
    repeat split; intros j Hj; rewrite nth_vconst by lia; unfold F; ring.
Qed.

Theorem scale_data_transformed K sq pc d1 reuse sc it pc' d' :
  sane_consts K -> wf_data d1 -> wf_pc pc d1 -> pinv pc -> pc_ones pc ->
  scale_data K sq pc d1 reuse sc it = Ok (pc', d') ->
  transformed pc' d1 d' /\ pinv pc' /\ pc_ones pc' /\
  wf_data d' /\ wf_pc pc' d' /\ pc_nlb pc' = d_nlb d' /\ pc_nub pc' = d_nub d' /\
  d_n d' = d_n d1 /\ d_p d' = d_p d1 /\ d_m d' = d_m d1 /\ d_lb_idx d' = d_lb_idx d1 /\ d_ub_idx d' = d_ub_idx d1.
Proof.
  intros SK W WP I Ho H.
  destruct (scale_data_wf K sq pc d1 reuse sc it pc' d' SK W WP H) as (W' & WP' & N1 & N2 & En & Ep & Em & I1 & I2).
  assert (G : transformed pc' d1 d' /\ pinv pc' /\ pc_ones pc'); [|destruct G as (G1 & G2 & G3); auto 15].
  unfold scale_data in H. destruct (pc_ident pc) eqn:Hid.
  - injection H as <- <-. split; [|split].
    + apply transformed_ones; auto.
    + apply pinv_set_counts, I.
    + intros _. destruct (Ho Hid) as (E1 & E2 & E3 & E4). cbn. auto.
  - assert (Hid' : pc_ident pc' = false) by (rewrite (ruiz_scale_ident _ _ _ _ _ _ _ _ _ H); exact Hid).
    split; [|split; [|intros Ht; congruence]].
    + destruct reuse.
      * apply (scale_reuse_is_transform K sq pc d1 sc it pc' d' W WP H).
      * destruct WP as [_ DA]. apply (scaled_data_is_transform K sq SK pc d1 sc it pc' d' W DA H).
    + destruct reuse.
      * apply (scale_reuse_preserves K sq pc d1 sc it pc' d' W WP I H).
      * destruct WP as [_ DA]. apply (scale_establishes_inverse K sq SK pc d1 sc it pc' d' W DA H).
Qed.

Theorem unscale_data_transformed (K : Consts) pc d d0 :
  wf_data d -> wf_pc pc d -> pinv pc -> pc_ones pc -> pc_nlb pc = d_nlb d -> pc_nub pc = d_nub d ->
  unscale_data pc d = Ok d0 ->
  transformed pc d0 d /\ wf_data d0 /\
  d_n d0 = d_n d /\ d_p d0 = d_p d /\ d_m d0 = d_m d /\ d_lb_idx d0 = d_lb_idx d /\ d_ub_idx d0 = d_ub_idx d.
Proof.
  intros W WP I Ho Nlb Nub H.
  destruct (unscale_data_wf pc d d0 W WP Nlb Nub H) as (W0 & En & Ep & Em & I1 & I2).
  split; [|auto 10].
  unfold unscale_data in H. destruct (pc_ident pc) eqn:Hid.
  - injection H as <-. apply transformed_ones; auto.
  - destruct (unscale_scale_id K false pc d false 0%Z W WP I Nlb Nub) as (d0' & E & W0' & R).
    rewrite E in H. injection H as ->.
    assert (WP0 : wf_pc pc d0) by (destruct WP as [WL (A & B & C)]; split; [exact WL|]; repeat split; congruence).
    apply (scale_reuse_is_transform K false pc d0 false 0%Z pc d W0 WP0 R).
Qed.

(* ================================================================== *)
(** * 4. the blocks of a call, entry by entry                           *)
(* ================================================================== *)
Lemma nth_map_combine_seq {A B} (f : nat * A -> B) (l : list A) : forall s k d da, (k < length l)%nat ->
  nth k (map f (combine (seq s (length l)) l)) d = f ((s + k)%nat, nth k l da).
Proof.
  induction l as [|a l IH]; intros s k d da Hk; cbn in Hk; [lia|].
  cbn [length seq combine map]. destruct k as [|k].
  - cbn. rewrite Nat.add_0_r. reflexivity.
  - cbn [nth]. rewrite (IH (S s) k d da) by lia. f_equal. f_equal. lia.
Qed.

Lemma mentry_upper_tri r c (P : Mat) i j : wf_mat r c P -> (j < c)%nat -> (i < r)%nat ->
  mentry (upper_tri P) i j = if Nat.leb i j then mentry P i j else 0.
Proof.
  intros [L Fo] Hj Hi. unfold mentry, upper_tri.
  assert (Lc : length (nth j P []) = r) by (rewrite Forall_forall in Fo; apply Fo, nth_In; lia).
  unfold Mat, Vec, F in *.
  rewrite (@nth_map_combine_seq (list Qc) (list Qc) _ P 0 j [] []) by lia. cbn [fst snd plus].
  rewrite (@nth_map_combine_seq Qc Qc _ (nth j P []) 0 i 0 0) by lia. cbn [fst snd plus]. reflexivity.
Qed.

Lemma mentry_mtranspose r (A : Mat) i k : (k < r)%nat -> mentry (mtranspose r A) i k = mentry A k i.
Proof.
  intros Hk. unfold mentry, mtranspose. unfold Mat, Vec, F in *.
  rewrite (@LinAlg.nth_map_seq (list Qc) _ r k []) by exact Hk.
  destruct (Nat.lt_ge_cases i (length A)) as [Hi | Hi].
  - apply (@nth_map' (list Qc) Qc (fun col => nth k col 0) A i [] 0 Hi).
  - rewrite (nth_overflow (map _ A)) by (rewrite map_length; exact Hi).
    rewrite (nth_overflow A) by exact Hi. destruct k; reflexivity.
Qed.

Lemma disable_inf_entries INF (GT : Mat) h GT' hv k :
  disable_inf INF GT h = (GT', hv) -> length GT = length h -> (k < length h)%nat ->
  (forall i, mentry GT' i k = if h_is_inf INF (nth k h NInf) then 0 else mentry GT i k) /\
  nth k hv 0 = if h_is_inf INF (nth k h NInf) then 1 else ext_val (nth k h NInf).
Proof.
  intros H L Hk. destruct (disable_inf_spec INF GT h GT' hv H L) as (_ & _ & S).
  destruct (S k Hk) as (_ & Hinf & Hfin). destruct (h_is_inf INF (nth k h NInf)).
  - destruct (Hinf eq_refl) as [E1 E2]. split; [|exact E2]. intros i. unfold mentry. rewrite E1.
    generalize (length (nth k GT [])). intros n. revert i. induction n; intros [|i]; cbn; auto.
  - destruct (Hfin eq_refl) as [E1 E2]. split; [|exact E2]. intros i. unfold mentry. rewrite E1. reflexivity.
Qed.

Lemma pack_lb_entries INF l v ix k : pack_lb INF 0 l = (v, ix) -> (k < length ix)%nat ->
  nth k v 0 = - ext_val (nth (nth k ix O) l NInf).
Proof.
  intros H Hk. destruct (pack_lb_spec INF 0 l v ix H) as (_ & _ & _ & _ & S). rewrite (S k Hk), Nat.sub_0_r. reflexivity.
Qed.
Lemma pack_ub_entries INF l v ix k : pack_ub INF 0 l = (v, ix) -> (k < length ix)%nat ->
  nth k v 0 = ext_val (nth (nth k ix O) l PInf).
Proof.
  intros H Hk. destruct (pack_ub_spec INF 0 l v ix H) as (_ & _ & _ & _ & S). rewrite (S k Hk), Nat.sub_0_r. reflexivity.
Qed.

(* ---- the eight assignments of update(), at the level of the user problem ---- *)
Section UserSteps.
Variable K : Consts.
Variable B : Blocks.
Definition set_uP (U : UserQP) f := mkUser f (u_c U) (u_A U) (u_b U) (u_G U) (u_h U) (u_lb U) (u_ub U).
Definition set_uc (U : UserQP) f := mkUser (u_P U) f (u_A U) (u_b U) (u_G U) (u_h U) (u_lb U) (u_ub U).
Definition set_uA (U : UserQP) f := mkUser (u_P U) (u_c U) f (u_b U) (u_G U) (u_h U) (u_lb U) (u_ub U).
Definition set_ub (U : UserQP) f := mkUser (u_P U) (u_c U) (u_A U) f (u_G U) (u_h U) (u_lb U) (u_ub U).
Definition set_uGh (U : UserQP) f g := mkUser (u_P U) (u_c U) (u_A U) (u_b U) f g (u_lb U) (u_ub U).
Definition set_ulb (U : UserQP) f := mkUser (u_P U) (u_c U) (u_A U) (u_b U) (u_G U) (u_h U) f (u_ub U).
Definition set_uub (U : UserQP) f := mkUser (u_P U) (u_c U) (u_A U) (u_b U) (u_G U) (u_h U) (u_lb U) f.

Definition ustepP U := match b_P B with Some P => set_uP U (fun i j => mentry P i j) | None => U end.
Definition ustepA U := match b_A B with Some A => set_uA U (fun k i => mentry A k i) | None => U end.
Definition ustepG U := match b_G B with Some G => set_uGh U (fun k i => mentry G k i) (u_h U) | None => U end.
Definition ustepc U := match b_c B with Some c => set_uc U (el c) | None => U end.
Definition ustepb U := match b_b B with Some b => set_ub U (el b) | None => U end.
Definition usteph U :=
  match b_h B with
  | Some h => set_uGh U (fun k i => if h_is_inf (k_inf K) (nth k h NInf) then 0 else u_G U k i)
                        (fun k => if h_is_inf (k_inf K) (nth k h NInf) then 1 else ext_val (nth k h NInf))
  | None => U end.
Definition usteplb U := match b_lb B with Some l => set_ulb U (fun i => ext_val (nth i l NInf)) | None => U end.
Definition ustepub U := match b_ub B with Some l => set_uub U (fun i => ext_val (nth i l PInf)) | None => U end.

Lemma usteps_upd_user U :
  ustepub (usteplb (usteph (ustepb (ustepc (ustepG (ustepA (ustepP U))))))) = upd_user K U B.
Proof.
  unfold ustepub, usteplb, usteph, ustepb, ustepc, ustepG, ustepA, ustepP, upd_user.
  destruct U. destruct (b_P B), (b_A B), (b_G B), (b_c B), (b_b B), (b_h B), (b_lb B), (b_ub B); reflexivity.
Qed.

Ltac drep R := destruct R as [RP RPl Rc RAT RGT Rb Rh Rlbs Rubs Rlbn Rubv].

Lemma rep_stepP U d : rep U d -> opt_ok (is_mat (d_n d) (d_n d)) (b_P B) -> rep (ustepP U) (stepP B d).
Proof.
  intros R HB. unfold ustepP, stepP. destruct (b_P B) as [P|]; [|exact R]. cbn [opt_ok] in HB.
  drep R. destruct d. cbn -[mentry upper_tri mtranspose el nth] in *. split; cbn -[mentry upper_tri mtranspose el nth]; try assumption.
  - intros i j Hij Hj. rewrite (mentry_upper_tri d_n d_n) by (auto; lia).
    replace (Nat.leb i j) with true by (symmetry; apply Nat.leb_le; auto). reflexivity.
  - intros i j Hji Hi. rewrite (mentry_upper_tri d_n d_n) by (auto; lia).
    replace (Nat.leb i j) with false by (symmetry; apply Nat.leb_gt; auto). reflexivity.
Qed.
Lemma rep_stepA U d p : rep U d -> p = d_p d -> rep (ustepA U) (stepA B p d).
Proof.
  intros R ->. unfold ustepA, stepA. destruct (b_A B) as [A|]; [|exact R].
  drep R. destruct d. cbn -[mentry upper_tri mtranspose el nth] in *. split; cbn -[mentry upper_tri mtranspose el nth]; try assumption.
  intros i k Hi Hk. apply mentry_mtranspose, Hk.
Qed.
Lemma rep_stepG U d m : rep U d -> m = d_m d -> rep (ustepG U) (stepG B m d).
Proof.
  intros R ->. unfold ustepG, stepG. destruct (b_G B) as [G|]; [|exact R].
  drep R. destruct d. cbn -[mentry upper_tri mtranspose el nth] in *. split; cbn -[mentry upper_tri mtranspose el nth]; try assumption.
  intros i k Hi Hk. apply mentry_mtranspose, Hk.
Qed.
Lemma rep_stepc U d : rep U d -> rep (ustepc U) (stepc B d).
Proof.
  intros R. unfold ustepc, stepc. destruct (b_c B) as [c|]; [|exact R].
  drep R. destruct d. cbn -[mentry upper_tri mtranspose el nth] in *. split; cbn -[mentry upper_tri mtranspose el nth]; try assumption. reflexivity.
Qed.
Lemma rep_stepb U d : rep U d -> rep (ustepb U) (stepb B d).
Proof.
  intros R. unfold ustepb, stepb. destruct (b_b B) as [b|]; [|exact R].
  drep R. destruct d. cbn -[mentry upper_tri mtranspose el nth] in *. split; cbn -[mentry upper_tri mtranspose el nth]; try assumption. reflexivity.
Qed.
Lemma rep_steph U d : rep U d -> length (d_GT d) = d_m d -> opt_ok (fun v : list ext => length v = d_m d) (b_h B) ->
  rep (usteph U) (steph K B d).
Proof.
  intros R LG HB. unfold usteph, steph. destruct (b_h B) as [h|]; [|exact R]. cbn [opt_ok] in HB.
  destruct (disable_inf (k_inf K) (d_GT d) h) as [GT hv] eqn:E.
  drep R. destruct d. cbn -[mentry upper_tri mtranspose el nth] in *. split; cbn -[mentry upper_tri mtranspose el nth]; try assumption.
  - intros i k Hi Hk.
    destruct (disable_inf_entries _ _ _ _ _ k E) as [E1 _]; [congruence | lia |].
    rewrite E1. destruct (h_is_inf _ _); [reflexivity | apply RGT; auto].
  - intros k Hk. destruct (disable_inf_entries _ _ _ _ _ k E) as [_ E2]; [congruence | lia |]. exact E2.
Qed.
Lemma rep_steplb U d : rep U d -> rep (usteplb U) (steplb K B d).
Proof.
  intros R. unfold usteplb, steplb. destruct (b_lb B) as [l|]; [|exact R].
  destruct (pack_lb (k_inf K) 0 l) as [v ix] eqn:E.
  drep R. destruct d. cbn -[mentry upper_tri mtranspose el nth] in *. split; cbn -[mentry upper_tri mtranspose el nth]; try assumption.
  intros k Hk. apply (pack_lb_entries _ _ _ _ _ E Hk).
Qed.
Lemma rep_stepub U d : rep U d -> rep (ustepub U) (stepub K B d).
Proof.
  intros R. unfold ustepub, stepub. destruct (b_ub B) as [l|]; [|exact R].
  destruct (pack_ub (k_inf K) 0 l) as [v ix] eqn:E.
  drep R. destruct d. cbn -[mentry upper_tri mtranspose el nth] in *. split; cbn -[mentry upper_tri mtranspose el nth]; try assumption.
  intros k Hk. apply (pack_ub_entries _ _ _ _ _ E Hk).
Qed.

(* fields the steps do not touch / the index lists they produce *)
Lemma all_steps_idx d0 :
  d_lb_idx (all_steps K B d0) = upd_lbi K (d_lb_idx d0) B /\ d_ub_idx (all_steps K B d0) = upd_ubi K (d_ub_idx d0) B.
Proof.
  unfold all_steps, stepub, steplb, steph, stepb, stepc, stepG, stepA, stepP, upd_lbi, upd_ubi.
  destruct (b_ub B) as [lu|]; [destruct (pack_ub (k_inf K) 0 lu) as [vu iu]|];
  (destruct (b_lb B) as [ll|]; [destruct (pack_lb (k_inf K) 0 ll) as [vl il]|]);
  (destruct (b_h B) as [h|]; [destruct (disable_inf _ _ h)|]);
  destruct (b_b B), (b_c B), (b_G B), (b_A B), (b_P B); split; reflexivity.
Qed.

Theorem all_steps_rep U d0 :
  wf_data d0 -> blocks_ok (d_n d0) (d_p d0) (d_m d0) B -> rep U d0 -> rep (upd_user K U B) (all_steps K B d0).
Proof.
  intros W BO R. pose proof BO as (BP & Bc & BA & Bb & BG & Bh & Blb & Bub).
  rewrite <- usteps_upd_user. unfold all_steps.
  pose proof (rep_stepP U d0 R BP) as R1.
  assert (D1 : d_n (stepP B d0) = d_n d0 /\ d_p (stepP B d0) = d_p d0 /\ d_m (stepP B d0) = d_m d0)
    by (unfold stepP; destruct (b_P B); destruct d0; auto).
  destruct D1 as (N1 & P1 & M1).
  pose proof (rep_stepA _ _ (d_p d0) R1 (eq_sym P1)) as R2.
  assert (D2 : d_m (stepA B (d_p d0) (stepP B d0)) = d_m d0)
    by (unfold stepA; destruct (b_A B); [destruct (stepP B d0) eqn:E; cbn in *; auto | auto]).
  pose proof (rep_stepG _ _ (d_m d0) R2 (eq_sym D2)) as R3.
  pose proof (rep_stepc _ _ R3) as R4. pose proof (rep_stepb _ _ R4) as R5.
  set (d5 := stepb B (stepc B (stepG B (d_m d0) (stepA B (d_p d0) (stepP B d0))))) in *.
  assert (D5 : length (d_GT d5) = d_m d5 /\ d_m d5 = d_m d0).
  { assert (W5 : wf_data d5 /\ same_dims d0 d5).
    { (* d5 = all_steps with the last three blocks absent *)
      pose (B' := mkBlocks (b_P B) (b_c B) (b_A B) (b_b B) (b_G B) None None None).
      assert (E : d5 = all_steps K B' d0) by reflexivity. rewrite E. apply all_steps_wf; [exact W|].
      unfold blocks_ok, B'; cbn. repeat split; auto; exact Logic.I. }
    destruct W5 as [W5 (_ & _ & E3)]. split; [apply (wfd_GT _ W5) | exact E3]. }
  destruct D5 as [LG M5].
  assert (Bh' : opt_ok (fun v : list ext => length v = d_m d5) (b_h B)) by (rewrite M5; exact Bh).
  pose proof (rep_steph _ _ R5 LG Bh') as R6.
  pose proof (rep_steplb _ _ R6) as R7. exact (rep_stepub _ _ R7).
Qed.
End UserSteps.

(* ================================================================== *)
(** * 5. the invariant of the solver object; setup and update           *)
(* ================================================================== *)
Record e2e_inv (U : UserQP) (sv : Solver) : Prop := mk_e2e_inv {
  ei_wf : wf_solver sv;                                   (* ShapesProofs: every array has its shape *)
  ei_sp : scaled_problem U (sv_data sv) (sv_pc sv);       (* ResidSpec: the stored data are the scaled image of U *)
  ei_tails : tails_one (sv_data sv);
  ei_pinv : pinv (sv_pc sv);                              (* PrecondProofs: inverses on ALL slots, positivity *)
  ei_ones : pc_ones (sv_pc sv)
}.

Theorem setup_establishes_scaled_problem_proof K ident spc junk S n p m B sv :
  sane_consts K -> setup_blocks_ok n p m B ->
  setup K ident spc junk S n p m B = Ok sv ->
  e2e_inv (eff_user K B) sv /\
  d_n (sv_data sv) = n /\ d_p (sv_data sv) = p /\ d_m (sv_data sv) = m /\
  d_lb_idx (sv_data sv) = eff_lbi K B /\ d_ub_idx (sv_data sv) = eff_ubi K B.
Proof.
  intros SK BOK H. destruct (setup_wf _ _ _ _ _ _ _ _ _ _ SK BOK H) as (Ws & Dn & Dp & Dm).
  destruct BOK as (BO & NA & Nb & NG & Nh). destruct BO as (BP & Bc & BA & Bb & BG & Bh & Blb & Bub).
  unfold eff_user, eff_lbi, eff_ubi, upd_user, upd_lbi, upd_ubi.
  destruct B as [bP bc bA bb bG bh blb bub]. cbn [b_P b_c b_A b_b b_G b_h b_lb b_ub] in *.
  unfold setup in H. cbn [b_P b_c b_A b_b b_G b_h b_lb b_ub] in H.
  destruct bP as [P|]; [|discriminate]. destruct bc as [c|]; [|discriminate].
  cbn [opt_ok] in BP, Bc.
  set (A := match bA with Some A => A | None => repeat [] n end) in H.
  set (G := match bG with Some G => G | None => repeat [] n end) in H.
  set (AT := mtranspose p A) in H. set (GT0 := mtranspose m G) in H.
  destruct (match bh with Some h => _ | None => _ end) as [GT h] eqn:EGH.
  destruct (match blb with Some l => _ | None => _ end) as [lbn lbi] eqn:Elb.
  destruct (match bub with Some l => _ | None => _ end) as [ubv ubi] eqn:Eub.
  set (d0 := mkData n p m _ _ _ _ _ _ _ _ _ _ _ _) in H. set (pc0 := precond_init ident d0) in H.
  assert (LA : length A = n).
  { unfold A. destruct bA as [A0|]; [destruct BA as [L _]; exact L|apply repeat_length]. }
  assert (LG : length G = n).
  { unfold G. destruct bG as [G0|]; [destruct BG as [L _]; exact L|apply repeat_length]. }
  assert (WAT : wf_mat n p AT) by (unfold AT; rewrite <- LA; apply wf_mat_mtranspose).
  assert (WGT0 : wf_mat n m GT0) by (unfold GT0; rewrite <- LG; apply wf_mat_mtranspose).
  assert (WGh : wf_mat n m GT /\ length h = m).
  { destruct bh as [h0|].
    - eapply disable_inf_shape; [exact WGT0|exact Bh|exact EGH].
    - inversion EGH; subst. split; [exact WGT0|]. rewrite (Nh eq_refl). reflexivity. }
  assert (Wlb : length lbn = length lbi /\ incr_from 0 n lbi).
  { destruct blb as [l|].
    - apply pack_lb_shape in Elb. cbn [opt_ok] in Blb. rewrite Blb in Elb. exact Elb.
    - inversion Elb; subst. split; [reflexivity|exact Logic.I]. }
  assert (Wub : length ubv = length ubi /\ incr_from 0 n ubi).
  { destruct bub as [l|].
    - apply pack_ub_shape in Eub. cbn [opt_ok] in Bub. rewrite Bub in Eub. exact Eub.
    - inversion Eub; subst. split; [reflexivity|exact Logic.I]. }
  assert (Lb : length (match bb with Some b => b | None => [] end) = p).
  { destruct bb as [b0|]; [exact Bb|rewrite (Nb eq_refl); reflexivity]. }
  assert (W0 : wf_data d0).
  { destruct WGh, Wlb, Wub. unfold d0. constructor; cbn; try assumption.
    - apply wf_mat_upper_tri, BP.
    - apply vconst_length.
    - apply vconst_length. }
  destruct (pc_inverse_init ident d0 W0) as [I0 WP0]. fold pc0 in WP0, I0.
  (* the data assembled by setup represent the effective user problem *)
  assert (R0 : rep (upd_user K zero_user (mkBlocks (Some P) (Some c) bA bb bG bh blb bub)) d0).
  { unfold upd_user. cbn [b_P b_c b_A b_b b_G b_h b_lb b_ub zero_user u_P u_c u_A u_b u_G u_h u_lb u_ub].
    unfold d0. split; cbn -[mentry upper_tri mtranspose el nth].
    - intros i j Hij Hj. rewrite (mentry_upper_tri n n) by (auto; lia).
      replace (Nat.leb i j) with true by (symmetry; apply Nat.leb_le; auto). reflexivity.
    - intros i j Hji Hi. rewrite (mentry_upper_tri n n) by (auto; lia).
      replace (Nat.leb i j) with false by (symmetry; apply Nat.leb_gt; auto). reflexivity.
    - reflexivity.
    - intros i k Hi Hk. unfold AT. rewrite mentry_mtranspose by exact Hk.
      unfold A. destruct bA as [A0|]; [reflexivity | rewrite (NA eq_refl) in Hk; lia].
    - intros i k Hi Hk. destruct bh as [h0|]; [|rewrite (Nh eq_refl) in Hk; lia]. cbn [opt_ok] in Bh.
      destruct (disable_inf_entries _ _ _ _ _ k EGH) as [E1 _].
      { destruct WGT0 as [L0 _]. unfold Mat, Vec, F in *. congruence. } { lia. }
      rewrite E1. destruct (h_is_inf _ _); [reflexivity|]. unfold GT0. rewrite mentry_mtranspose by exact Hk.
      unfold G. destruct bG as [G0|]; [reflexivity | rewrite (NG eq_refl) in Hk; lia].
    - intros k Hk. destruct bb as [b0|]; [reflexivity | rewrite (Nb eq_refl) in Hk; lia].
    - intros k Hk. destruct bh as [h0|]; [|rewrite (Nh eq_refl) in Hk; lia]. cbn [opt_ok] in Bh.
      destruct (disable_inf_entries _ _ _ _ _ k EGH) as [_ E2].
      { destruct WGT0 as [L0 _]. unfold Mat, Vec, F in *. congruence. } { lia. }
      exact E2.
    - intros k Hk. unfold el. apply nth_vconst, Hk.
    - intros k Hk. unfold el. apply nth_vconst, Hk.
    - intros k Hk. unfold d_nlb in Hk. cbn in Hk. destruct blb as [l|].
      + apply (pack_lb_entries _ _ _ _ _ Elb Hk).
      + inversion Elb; subst. cbn in Hk. lia.
    - intros k Hk. unfold d_nub in Hk. cbn in Hk. destruct bub as [l|].
      + apply (pack_ub_entries _ _ _ _ _ Eub Hk).
      + inversion Eub; subst. cbn in Hk. lia. }
  destruct (scale_data K spc pc0 d0 false (preconditioner_scale_cost S) (preconditioner_iter S)) as [[pc d]|] eqn:E;
    cbn [bind] in H; [|discriminate].
  destruct (kkt_init d (rho_init S) (delta_init S) junk) as [k|] eqn:Ek; cbn [bind] in H; [|discriminate].
  injection H as <-. cbn [sv_data sv_pc] in *.
  destruct (scale_data_transformed K spc pc0 d0 false _ _ pc d SK W0 WP0 I0 (pc_ones_init ident d0) E)
    as (T & I & Ho & W & WP & N1 & N2 & En & Ep & Em & Il & Iu).
  destruct (transformed_rep_scaled _ pc d0 d W WP N1 N2 I T R0) as [SP TL].
  split; [split; assumption|].
  repeat split; try assumption.
  - rewrite Il. unfold d0. cbn. destruct blb as [l|]; [rewrite Elb|inversion Elb]; reflexivity.
  - rewrite Iu. unfold d0. cbn. destruct bub as [l|]; [rewrite Eub|inversion Eub]; reflexivity.
Qed.

Theorem setup_scaled_problem_proof K ident spc junk S n p m B sv :
  sane_consts K -> setup_blocks_ok n p m B ->
  setup K ident spc junk S n p m B = Ok sv ->
  scaled_problem (eff_user K B) (sv_data sv) (sv_pc sv).
Proof.
  intros SK BO H. exact (ei_sp _ _ (proj1 (setup_establishes_scaled_problem_proof K ident spc junk S n p m B sv SK BO H))).
Qed.

(* which variables carry a bound: exactly those whose entry is finite (not beyond -/+ PIQP_INF) *)
Theorem bound_indices_spec_proof K old B :
  (forall l, b_lb B = Some l -> forall i,
     In i (upd_lbi K old B) <-> ((i < length l)%nat /\ ext_gt_neg_inf (k_inf K) (nth i l NInf) = true)) /\
  (forall l, b_ub B = Some l -> forall i,
     In i (upd_ubi K old B) <-> ((i < length l)%nat /\ ext_lt_inf (k_inf K) (nth i l PInf) = true)) /\
  (b_lb B = None -> upd_lbi K old B = old) /\ (b_ub B = None -> upd_ubi K old B = old).
Proof.
  unfold upd_lbi, upd_ubi. split; [|split; [|split]].
  - intros l H i. rewrite H. destruct (pack_lb (k_inf K) 0 l) as [v ix] eqn:E.
    destruct (pack_lb_spec _ _ _ _ _ E) as (_ & _ & _ & S & _). cbn [snd]. rewrite (S i), Nat.sub_0_r. split; intros [A C]; split; auto; lia.
  - intros l H i. rewrite H. destruct (pack_ub (k_inf K) 0 l) as [v ix] eqn:E.
    destruct (pack_ub_spec _ _ _ _ _ E) as (_ & _ & _ & S & _). cbn [snd]. rewrite (S i), Nat.sub_0_r. split; intros [A C]; split; auto; lia.
  - intros ->. reflexivity.
  - intros ->. reflexivity.
Qed.

Theorem update_preserves_scaled_problem_proof K spc U sv B reuse sv' :
  sane_consts K -> e2e_inv U sv ->
  blocks_ok (d_n (sv_data sv)) (d_p (sv_data sv)) (d_m (sv_data sv)) B ->
  update K spc sv B reuse = Ok sv' ->
  e2e_inv (upd_user K U B) sv' /\
  same_dims (sv_data sv) (sv_data sv') /\
  d_lb_idx (sv_data sv') = upd_lbi K (d_lb_idx (sv_data sv)) B /\
  d_ub_idx (sv_data sv') = upd_ubi K (d_ub_idx (sv_data sv)) B /\
  (* the precise form: the new data are the scaled image of [unscale_data] of the old data with the blocks overwritten *)
  exists d0, unscale_data (sv_pc sv) (sv_data sv) = Ok d0 /\ rep U d0 /\
             rep (upd_user K U B) (all_steps K B d0) /\ transformed (sv_pc sv') (all_steps K B d0) (sv_data sv').
Proof.
  intros SK [Ws SP TL I Ho] BO H.
  destruct (update_wf K spc sv B reuse sv' SK Ws BO H) as [Ws' SD].
  pose proof Ws as [Wd WP Nlb Nub Wk Wo].
  rewrite update_unfold in H.
  destruct (unscale_data (sv_pc sv) (sv_data sv)) as [d0|] eqn:E0; cbn [bind] in H; [|discriminate].
  destruct (unscale_data_transformed K _ _ _ Wd WP I Ho Nlb Nub E0) as (T0 & W0 & En & Ep & Em & Il & Iu).
  pose proof (scaled_transformed_rep U _ _ _ SP TL T0) as R0.
  assert (BO0 : blocks_ok (d_n d0) (d_p d0) (d_m d0) B) by (rewrite En, Ep, Em; exact BO).
  destruct (all_steps_wf K B d0 W0 BO0) as [W8 (E8n & E8p & E8m)].
  pose proof (all_steps_rep K B U d0 W0 BO0 R0) as R8.
  destruct (all_steps_idx K B d0) as [I8l I8u].
  set (d8 := all_steps K B d0) in *.
  assert (WP8 : wf_pc (sv_pc sv) d8).
  { destruct WP as [WL (A1 & A2 & A3)]. split; [exact WL|]. repeat split; congruence. }
  destruct (scale_data K spc (sv_pc sv) d8 reuse _ _) as [[pc' d']|] eqn:E; cbn [bind] in H; [|discriminate].
  destruct (kkt_update_data d' (sv_kkt sv) _ _ _) as [k|] eqn:Ek; cbn [bind] in H; [|discriminate].
  injection H as <-.
  change (sv_data (sv <| sv_data := d' |> <| sv_pc := pc' |> <| sv_kkt := k |> <| sv_kkt_init_state := false |>)) with d' in *.
  change (sv_pc (sv <| sv_data := d' |> <| sv_pc := pc' |> <| sv_kkt := k |> <| sv_kkt_init_state := false |>)) with pc' in *.
  destruct (scale_data_transformed K spc _ d8 reuse _ _ pc' d' SK W8 WP8 I Ho E)
    as (T & I' & Ho' & W' & WP' & N1 & N2 & En' & Ep' & Em' & Il' & Iu').
  destruct (transformed_rep_scaled _ pc' d8 d' W' WP' N1 N2 I' T R8) as [SP' TL'].
  split; [split; assumption|]. split; [exact SD|].
  split; [rewrite Il', I8l, Il; reflexivity|]. split; [rewrite Iu', I8u, Iu; reflexivity|].
  exists d0. auto.
Qed.

(* ================================================================== *)
(** * 6. histories                                                      *)
(* ================================================================== *)
Fixpoint hist_user (K : Consts) (U : UserQP) (h : list SOp) : UserQP :=
  match h with
  | [] => U
  | SUpdate B _ :: t => hist_user K (upd_user K U B) t
  | SSolve _ :: t => hist_user K U t
  end.
Fixpoint hist_lbi (K : Consts) (l : list nat) (h : list SOp) : list nat :=
  match h with
  | [] => l
  | SUpdate B _ :: t => hist_lbi K (upd_lbi K l B) t
  | SSolve _ :: t => hist_lbi K l t
  end.
Fixpoint hist_ubi (K : Consts) (l : list nat) (h : list SOp) : list nat :=
  match h with
  | [] => l
  | SUpdate B _ :: t => hist_ubi K (upd_ubi K l B) t
  | SSolve _ :: t => hist_ubi K l t
  end.

Lemma solve_keeps_inv K junk cp_bits fault U sv sv' status :
  e2e_inv U sv -> solve K junk cp_bits fault sv = Ok (sv', status) ->
  e2e_inv U sv' /\ sv_data sv' = sv_data sv /\ sv_pc sv' = sv_pc sv.
Proof.
  intros [Ws SP TL I Ho] H. destruct (solve_wf K junk cp_bits fault sv sv' status Ws H) as (Ws' & Ed & Ep).
  split; [|auto]. split; try assumption; rewrite ?Ed, ?Ep; assumption.
Qed.

Theorem history_invariant K spc junk cp_bits n p m :
  sane_consts K ->
  forall h U sv1 sv,
  e2e_inv U sv1 -> d_n (sv_data sv1) = n -> d_p (sv_data sv1) = p -> d_m (sv_data sv1) = m ->
  Forall (sop_ok n p m) h -> run_sops K spc junk cp_bits sv1 h = Ok sv ->
  e2e_inv (hist_user K U h) sv /\
  d_n (sv_data sv) = n /\ d_p (sv_data sv) = p /\ d_m (sv_data sv) = m /\
  d_lb_idx (sv_data sv) = hist_lbi K (d_lb_idx (sv_data sv1)) h /\
  d_ub_idx (sv_data sv) = hist_ubi K (d_ub_idx (sv_data sv1)) h.
Proof.
  intros SK. induction h as [|o t IH]; intros U sv1 sv Inv E1 E2 E3 Fh H; cbn [run_sops] in H.
  - injection H as <-. cbn. auto 10.
  - pose proof (Forall_inv Fh) as Ho. pose proof (Forall_inv_tail Fh) as Ft.
    destruct (sop_step K spc junk cp_bits sv1 o) as [sv2|] eqn:Es; cbn [bind] in H; [|discriminate].
    destruct o as [Bu reuse | fl]; cbn [sop_step sop_ok hist_user hist_lbi hist_ubi] in *.
    + rewrite <- E1, <- E2, <- E3 in Ho.
      destruct (update_preserves_scaled_problem_proof K spc U sv1 Bu reuse sv2 SK Inv Ho Es) as (Inv2 & (D1 & D2 & D3) & Il & Iu & _).
      destruct (IH _ sv2 sv Inv2 ltac:(congruence) ltac:(congruence) ltac:(congruence) Ft H) as (A & B1 & B2 & B3 & B4 & B5).
      rewrite Il in B4. rewrite Iu in B5. auto 10.
    + destruct (solve K junk cp_bits fl sv1) as [[sv3 stt]|] eqn:Ess; cbn [bind] in Es; [|discriminate].
      injection Es as <-.
      destruct (solve_keeps_inv K junk cp_bits fl U sv1 sv3 stt Inv Ess) as (Inv3 & Ed & Ep).
      destruct (IH U sv3 sv Inv3) as (A & B1 & B2 & B3 & B4 & B5); try (rewrite Ed; assumption); try assumption.
      rewrite Ed in B4, B5. auto 10.
Qed.

(* ================================================================== *)
(** * 7. solve(): the returned vectors                                   *)
(* ================================================================== *)
Lemma incr_from_lb l : forall lo n y, incr_from lo n l -> In y l -> (lo <= y)%nat.
Proof.
  induction l as [|a t IH]; intros lo n y H Hy; [destruct Hy|].
  cbn in H. destruct H as (H1 & H2 & H3). destruct Hy as [<- | Hy]; [exact H1|].
  specialize (IH (S a) n y H3 Hy). lia.
Qed.
Lemma incr_from_strict_inc l : forall lo n, incr_from lo n l -> strict_inc l.
Proof.
  induction l as [|a t IH]; intros lo n H; [apply strict_inc_nil|].
  cbn in H. destruct H as (H1 & H2 & H3). apply strict_inc_cons.
  - intros y Hy. pose proof (incr_from_lb _ _ _ _ H3 Hy). lia.
  - eapply IH; eauto.
Qed.

Lemma restore_gather {A} (dflt d0 : A) n (v : list A) idx r :
  incr_from 0 n idx -> length v = n -> restore_one dflt n v idx = Ok r ->
  length r = n /\
  (forall j, (j < length idx)%nat -> nth (nth j idx O) r d0 = nth j v d0) /\
  (forall i, (i < n)%nat -> ~ In i idx -> nth i r d0 = dflt).
Proof.
  intros Hinc Lv H.
  assert (Hlt : forall j, (j < length idx)%nat -> (nth j idx O < n)%nat).
  { intros j Hj. pose proof (incr_from_Forall _ _ _ Hinc) as Fo. rewrite Forall_forall in Fo. apply Fo, nth_In, Hj. }
  destruct (restore_one_ok dflt n v idx (incr_from_strict_inc _ _ _ Hinc) Hlt Lv) as (r' & E & Lr & S1 & S2).
  rewrite E in H. injection H as <-. split; [exact Lr|]. split.
  - intros j Hj. specialize (S1 j Hj).
    assert (Hj' : (j < length v)%nat).
    { pose proof (incr_from_bound _ _ _ Hinc (Nat.le_0_l n)). lia. }
    rewrite (nth_error_nth' v d0 Hj') in S1. apply nth_error_nth. exact S1.
  - intros i Hi Hn. apply nth_error_nth. apply S2; auto.
Qed.

(* the unscaled point read off the RETURNED vectors: box multipliers / slacks gathered at the bounded variables *)
Definition pack_out (lbi ubi : list nat) (o : ResultOut) : UPoint :=
  {| p_x := o_x o; p_y := o_y o; p_z := o_z o;
     p_zlb := map (fun i => nth i (o_z_lb o) 0) lbi;
     p_zub := map (fun i => nth i (o_z_ub o) 0) ubi;
     p_s := o_s o;
     p_slb := map (fun i => ext_val (nth i (o_s_lb o) PInf)) lbi;
     p_sub := map (fun i => ext_val (nth i (o_s_ub o) PInf)) ubi |}.

(* outside the bounded variables the box outputs are exactly 0 (multipliers) and +infinity (slacks) *)
Definition absent_bounds_ok (n : nat) (lbi ubi : list nat) (o : ResultOut) : Prop :=
  length (o_z_lb o) = n /\ length (o_z_ub o) = n /\ length (o_s_lb o) = n /\ length (o_s_ub o) = n /\
  (forall i, (i < n)%nat -> ~ In i lbi -> nth i (o_z_lb o) 0 = 0 /\ nth i (o_s_lb o) (Fin 0) = PInf) /\
  (forall i, (i < n)%nat -> ~ In i ubi -> nth i (o_z_ub o) 0 = 0 /\ nth i (o_s_ub o) (Fin 0) = PInf).

Lemma unscale_and_restore_fields junk sv it out :
  unscale_and_restore junk sv it = Ok out ->
  let d := sv_data sv in let pc := sv_pc sv in let n := d_n d in
  let pad := fun v : Vec => v ++ vconst (n - length v) junk in
  o_x out = unscale_primal pc (x it) /\ o_y out = unscale_dual_eq pc (y it) /\
  o_z out = unscale_dual_ineq pc (z it) /\ o_s out = unscale_slack_ineq pc (s it) /\
  restore_one 0 n (pad (unscale_dual_lb pc (z_lb it))) (d_lb_idx d) = Ok (o_z_lb out) /\
  restore_one 0 n (pad (unscale_dual_ub pc (z_ub it))) (d_ub_idx d) = Ok (o_z_ub out) /\
  restore_one PInf n (ext_of (pad (unscale_slack_lb pc (s_lb it)))) (d_lb_idx d) = Ok (o_s_lb out) /\
  restore_one PInf n (ext_of (pad (unscale_slack_ub pc (s_ub it)))) (d_ub_idx d) = Ok (o_s_ub out).
Proof.
  intros H. cbv beta delta [unscale_and_restore] in H. repeat step H. injection H as <-.
  cbn. repeat split; assumption.
Qed.

Lemma gather_restored (v r : Vec) idx n junk :
  incr_from 0 n idx -> length v = length idx ->
  restore_one 0 n (v ++ vconst (n - length v) junk) idx = Ok r ->
  map (fun i => nth i r 0) idx = v /\ length r = n /\ (forall i, (i < n)%nat -> ~ In i idx -> nth i r 0 = 0).
Proof.
  intros Hinc Lv H. pose proof (incr_from_bound _ _ _ Hinc (Nat.le_0_l n)) as Hb.
  destruct (restore_gather 0 0 n (v ++ vconst (n - length v) junk) idx r Hinc) as (Lr & S1 & S2); [| exact H |].
  { rewrite app_length, vconst_length. unfold Vec, F in *. lia. }
  split; [|auto]. apply (nth_ext _ _ 0 0). rewrite map_length. auto.
  intros k Hk. rewrite map_length in Hk. rewrite (nth_map' _ idx k O 0) by exact Hk.
  rewrite S1 by exact Hk. apply app_nth1. unfold Vec, F in *. lia.
Qed.
Lemma gather_restored_ext (v : Vec) (r : list ext) idx n junk :
  incr_from 0 n idx -> length v = length idx ->
  restore_one PInf n (ext_of (v ++ vconst (n - length v) junk)) idx = Ok r ->
  map (fun i => ext_val (nth i r PInf)) idx = v /\ length r = n /\
  (forall i, (i < n)%nat -> ~ In i idx -> nth i r (Fin 0) = PInf).
Proof.
  intros Hinc Lv H. pose proof (incr_from_bound _ _ _ Hinc (Nat.le_0_l n)) as Hb.
  assert (Le : length (ext_of (v ++ vconst (n - length v) junk)) = n).
  { unfold ext_of. rewrite map_length, app_length, vconst_length. unfold Vec, F in *. lia. }
  split; [|split].
  - destruct (restore_gather PInf PInf n _ idx r Hinc Le H) as (Lr & S1 & _).
    apply (nth_ext _ _ 0 0). rewrite map_length. auto.
    intros k Hk. rewrite map_length in Hk. rewrite (nth_map' _ idx k O 0) by exact Hk.
    rewrite S1 by exact Hk. unfold ext_of.
    rewrite (nth_map' Fin _ k 0 PInf) by (rewrite app_length, vconst_length; unfold Vec, F in *; lia).
    cbn [ext_val]. apply app_nth1. unfold Vec, F in *. lia.
  - destruct (restore_gather PInf PInf n _ idx r Hinc Le H) as (Lr & _ & _). exact Lr.
  - destruct (restore_gather PInf (Fin 0) n _ idx r Hinc Le H) as (_ & _ & S2). exact S2.
Qed.


(* ---- hypotheses of C08 (InteriorProofs) on constants and settings, and the state of the KKT object ---- *)
Definition consts_ok (K : Consts) : Prop :=
  1 < k_shift K /\ 0 < k_half K /\ 0 < k_sinit K /\ 0 <= k_snorm K /\ 0 < k_eps K /\ 0 < k_retry_mul K /\ 0 < k_reglim_mul K.
Definition settings_ok (S : Settings) : Prop :=
  0 < tau S /\ tau S < 1 /\ 0 < reg_finetune_lower_limit S /\ 0 < eps_abs S /\
  0 < rho_init S /\ 0 < delta_init S /\ 0 < reg_lower_limit S.
(* as long as no solve() / update() has happened the KKT object is the one kkt_init built *)
Definition kkt_ready (sv : Solver) : Prop :=
  sv_kkt_init_state sv = true ->
  InteriorProofs.KShape (sv_data sv) (sv_kkt sv) /\ InteriorProofs.KSign (sv_data sv) (sv_kkt sv).

Lemma setup_kkt_ready K ident spc junk S n p m B sv : setup K ident spc junk S n p m B = Ok sv -> kkt_ready sv.
Proof.
  intros H. unfold setup in H. destruct (b_P B); [|discriminate]. destruct (b_c B); [|discriminate].
  repeat step H. injection H as <-. intros _. cbn. eapply InteriorProofs.kkt_init_ok; eauto.
Qed.
Lemma update_kkt_ready K spc sv B reuse sv' : update K spc sv B reuse = Ok sv' -> kkt_ready sv'.
Proof.
  intros H. cbv beta delta [update] in H. repeat step H. injection H as <-. intros Hc. cbn in Hc. discriminate Hc.
Qed.
Lemma solve_kkt_ready K junk cp_bits fault sv sv' status : solve K junk cp_bits fault sv = Ok (sv', status) -> kkt_ready sv'.
Proof.
  intros H. cbv beta delta [solve] in H. repeat step H.
  all: unfold fin in H; cbv beta in H; step H; injection H as <- _; intros Hc; cbn in Hc; discriminate Hc.
Qed.
Lemma run_sops_kkt_ready K spc junk cp_bits : forall h sv1 sv, kkt_ready sv1 -> run_sops K spc junk cp_bits sv1 h = Ok sv -> kkt_ready sv.
Proof.
  induction h as [|o t IH]; intros sv1 sv R H; cbn [run_sops] in H.
  - injection H as <-. exact R.
  - destruct (sop_step K spc junk cp_bits sv1 o) as [sv2|] eqn:Es; cbn [bind] in H; [|discriminate].
    apply (IH sv2 sv); [|exact H]. destruct o as [Bu reuse | fl]; cbn [sop_step] in Es.
    + eapply update_kkt_ready; eauto.
    + destruct (solve K junk cp_bits fl sv1) as [[sv3 stt]|] eqn:Ess; cbn [bind] in Es; [|discriminate].
      injection Es as <-. eapply solve_kkt_ready; eauto.
Qed.

Lemma setup_set K ident spc junk S n p m B sv : setup K ident spc junk S n p m B = Ok sv -> sv_set sv = S.
Proof.
  intros H. unfold setup in H. destruct (b_P B); [|discriminate]. destruct (b_c B); [|discriminate].
  repeat step H. injection H as <-. reflexivity.
Qed.
Lemma update_set K spc sv B reuse sv' : update K spc sv B reuse = Ok sv' -> sv_set sv' = sv_set sv.
Proof. intros H. cbv beta delta [update] in H. repeat step H. injection H as <-. reflexivity. Qed.
Lemma solve_set K junk cp_bits fault sv sv' status : solve K junk cp_bits fault sv = Ok (sv', status) -> sv_set sv' = sv_set sv.
Proof.
  intros H. cbv beta delta [solve] in H. repeat step H.
  all: unfold fin in H; cbv beta in H; step H; injection H as <- _; reflexivity.
Qed.
Lemma run_sops_set K spc junk cp_bits : forall h sv1 sv, run_sops K spc junk cp_bits sv1 h = Ok sv -> sv_set sv = sv_set sv1.
Proof.
  induction h as [|o t IH]; intros sv1 sv H; cbn [run_sops] in H.
  - injection H as <-. reflexivity.
  - destruct (sop_step K spc junk cp_bits sv1 o) as [sv2|] eqn:Es; cbn [bind] in H; [|discriminate].
    rewrite (IH sv2 sv H). destruct o as [Bu reuse | fl]; cbn [sop_step] in Es.
    + eapply update_set; eauto.
    + destruct (solve K junk cp_bits fl sv1) as [[sv3 stt]|] eqn:Ess; cbn [bind] in Es; [|discriminate].
      injection Es as <-. eapply solve_set; eauto.
Qed.

Lemma wf_to_DataShape d : wf_data d -> InteriorProofs.DataShape d.
Proof.
  intros W. pose proof (wf_nlb_le _ W). pose proof (wf_nub_le _ W). destruct W as [WP WA [LG WG] Wc Wb Wh Wli Wui Wls Wus Wln Wu].
  split; try assumption; unfold Vec, F in *; lia.
Qed.


Lemma entry_iterate_pos d o : InteriorProofs.ItPos (entry_iterate d o) /\ InteriorProofs.SZShape d (entry_iterate d o).
Proof.
  unfold InteriorProofs.ItPos, InteriorProofs.SZShape, entry_iterate. cbn.
  repeat split; try (apply InteriorProofs.vpos_vconst; reflexivity); apply vconst_length.
Qed.
Lemma solve_inf0_facts (i : Info) (S : Settings) :
  let inf0 := i <| i_status := UNSOLVED |> <| i_iter := 0%Z |> <| i_reg_limit := reg_lower_limit S |>
                <| i_factor_retires := 0%Z |> <| i_no_primal_update := 0%Z |> <| i_no_dual_update := 0%Z |>
                <| i_mu := 0 |> <| i_sigma := 0 |> <| i_primal_step := 0 |> <| i_dual_step := 0 |>
                <| i_rho := rho_init S |> <| i_delta := delta_init S |> in
  i_rho inf0 = rho_init S /\ i_delta inf0 = delta_init S /\ i_reg_limit inf0 = reg_lower_limit S /\ i_iter inf0 = 0%Z.
Proof. destruct i. cbn. auto. Qed.

Section SolveE2E.
Variable K : Consts.
Variable spc : bool.
Variable junk : F.
Variable cp_bits : Z.

(* where a SOLVED answer comes from, with the shape of the iterate it is computed from *)
Lemma solve_solved_origin_wf fault sv sv' :
  wf_solver sv ->
  solve K junk cp_bits fault sv = Ok (sv', SOLVED) ->
  exists st4 out res0 inf0a,
    wf_it (sv_data sv) (st_it st4) /\
    unscale_and_restore junk sv (st_it st4) = Ok out /\ sv_out sv' = out /\ sv_info sv' = st_inf st4 /\
    nr_consistent (sv_data sv) (sv_pc sv) K (st_it st4) res0 inf0a /\
    st_inf st4 = (top_info (sv_pc sv) res0 inf0a) <| i_status := SOLVED |> /\
    solved_test (sv_set sv) (top_info (sv_pc sv) res0 inf0a) = true /\
    (consts_ok K -> settings_ok (sv_set sv) -> kkt_ready sv -> InteriorProofs.ItPos (st_it st4)).
Proof.
  intros Ws H. pose proof Ws as [Wd Wp Hnlb Hnub Wk Wo].
  pose proof (wf_nlb_le _ Wd) as Nlb. pose proof (wf_nub_le _ Wd) as Nub.
  cbv beta delta [solve] in H. repeat step H.
  - exfalso. unfold fin in H. cbv beta in H. step H. injection H as _ Hst.
    apply init_factor_inv in E0. destruct E0 as [_ E0]. destruct b; [discriminate C|].
    rewrite (E0 eq_refl) in Hst. discriminate Hst.
  - unfold fin in H. cbv beta in H. step H. injection H as <- Hst.
    assert (W0 : wf_st d st0).
    { constructor; [apply entry_iterate_wf; assumption | exact Wk | left; reflexivity]. }
    assert (W1 : wf_st d a).
    { destruct (sv_kkt_init_state sv); [injection E as <-; exact W0|].
      eapply (do_update_scalings_wf d Wd); [|exact E]. exact W0. }
    pose proof (init_factor_wf K S d fault Wd _ _ _ _ W1 E0) as W2.
    assert (W3 : wf_st d a0).
    { eapply (initial_point_wf K S d _ Wd); [|exact E1]. destruct W2 as [A B Cc]. constructor; cbn; assumption. }
    pose proof (main_loop_wf K S d pc fault _ Wd _ _ _ W3 E2) as W4.
    assert (Hiter : i_iter (st_inf a0) = 0%Z).
    { apply initial_point_iter in E1. rewrite E1.
      apply init_factor_inv in E0. destruct E0 as [E0 _].
      change (i_iter (st_inf s) = 0%Z). rewrite E0.
      assert (Hst0 : st_inf a = inf0).
      { destruct (sv_kkt_init_state sv).
        - injection E as <-. reflexivity.
        - apply do_update_scalings_inv in E. destruct E as (_ & E & _). exact E. }
      rewrite Hst0. unfold inf0. destruct (sv_info sv). reflexivity. }
    destruct (main_loop_solved_consistent K S d pc fault (round_cp cp_bits) (loop_fuel S) a0 a1 E2 (or_introl Hiter) Hst)
      as (res0 & inf0a & Hc & Hr & Hinf & Ht).
    exists a1, a2, res0, inf0a. split; [apply W4|]. split; [exact E3|]. split; [reflexivity|]. split; [reflexivity|].
    split; [exact Hc|]. split; [exact Hinf|]. split; [exact Ht|].
    (* C08: the iterate is interior *)
    intros (K1 & K2 & K3 & K4 & K5 & K6 & K7) (S1 & S2 & S3 & S4 & S5 & S6 & S7) Hkr.
    assert (Hb : b = true) by (destruct b; [reflexivity | discriminate C]). subst b.
    destruct (entry_iterate_pos d (sv_out sv)) as [P0 Z0].
    destruct (solve_inf0_facts (sv_info sv) S) as (F1 & F2 & F3 & F4).
    assert (I0 : InteriorProofs.InfPos inf0).
    { unfold InteriorProofs.InfPos, inf0. rewrite F1, F2, F3. auto. }
    assert (Ha : InteriorProofs.ItPos (st_it a) /\ InteriorProofs.SZShape d (st_it a) /\
                 InteriorProofs.KShape d (st_kkt a) /\ InteriorProofs.KSign d (st_kkt a) /\
                 InteriorProofs.InfPos (st_inf a) /\ i_iter (st_inf a) = 0%Z).
    { destruct (sv_kkt_init_state sv) eqn:Eis.
      - injection E as <-. destruct (Hkr Eis) as [Ks Kg].
        split; [exact P0|]. split; [exact Z0|]. split; [exact Ks|]. split; [exact Kg|]. split; [exact I0 | exact F4].
      - destruct (InteriorProofs.do_update_scalings_ok d _ _ E P0 Z0) as (B1 & B2 & B3 & B4 & _).
        rewrite B3, B4. split; [exact P0|]. split; [exact Z0|]. split; [exact B1|]. split; [exact B2|]. split; [exact I0 | exact F4]. }
    destruct Ha as (A1 & A2 & A3 & A4 & A5 & A6).
    destruct (InteriorProofs.solve_path_interior K S d pc fault (round_cp cp_bits) (InteriorProofs.round_cp_sign cp_bits)
                K1 K2 K3 K4 K5 K6 K7 S1 S2 S3 S4 (wf_to_DataShape _ Wd) (init_fuel S) (loop_fuel S) a s a0 a1
                A1 A2 A3 A4 A5 A6 E0 E1 E2) as (_ & [Pos _] & _).
    exact Pos.
Qed.

Lemma wf_it_shape d it : wf_it d it -> it_shape d it.
Proof. intros []. split; assumption. Qed.

(* C01 for one solve() on an object satisfying the invariant *)
Theorem solve_certifies_inv U fault sv sv' :
  e2e_inv U sv ->
  solve K junk cp_bits fault sv = Ok (sv', SOLVED) ->
  let d := sv_data sv in
  let X := pack_out (d_lb_idx d) (d_ub_idx d) (sv_out sv') in
  certificate U d (sv_set sv) (k_half K) X /\
  certificate_entrywise U d (sv_set sv) (k_half K) X /\
  absent_bounds_ok (d_n d) (d_lb_idx d) (d_ub_idx d) (sv_out sv') /\
  i_primal_obj (sv_info sv') = X_pobj U d X (k_half K) /\
  i_dual_obj (sv_info sv') = X_dobj U d X (k_half K) /\
  i_primal_inf (sv_info sv') = X_primal_inf U d X /\
  i_dual_inf (sv_info sv') = X_dual_inf U d X /\
  i_duality_gap (sv_info sv') = qabs (X_pobj U d X (k_half K) - X_dobj U d X (k_half K)).
Proof.
  intros [Ws SP TL I Ho] H. cbv zeta.
  destruct (solve_solved_origin_wf fault sv sv' Ws H) as (st4 & out & res0 & inf0a & Wit & Hur & Hout & Hinfo & Hc & Hinf & Ht & Hpos).
  pose proof (wf_it_shape _ _ Wit) as Hit.
  destruct (consistent_solved_certificate U _ _ K (sv_set sv) _ _ _ SP Hit Hc) as [Hnt Hcert].
  specialize (Hcert Ht).
  assert (Hdg : diagnostics_true U (sv_data sv) (sv_pc sv) (k_half K) (st_it st4) (sv_info sv'))
    by (rewrite Hinfo, Hinf; apply diag_of_top, Hnt).
  pose proof Ws as [Wd Wp Hnlb Hnub Wk Wo].
  destruct (unscale_and_restore_fields junk sv _ out Hur) as (Fx & Fy & Fz & Fs & Rzl & Rzu & Rsl & Rsu).
  pose proof (sp_ps _ _ _ SP) as Hps.
  (* the packed unscaled vectors have the packed lengths *)
  assert (Lzl : length (unscale_dual_lb (sv_pc sv) (z_lb (st_it st4))) = length (d_lb_idx (sv_data sv))).
  { change (unscale_dual_lb (sv_pc sv) (z_lb (st_it st4))) with (p_zlb (unscale_point (sv_pc sv) (st_it st4))).
    rewrite (X_zlb_tab _ _ Hps _ Hit). apply tab_length. }
  assert (Lzu : length (unscale_dual_ub (sv_pc sv) (z_ub (st_it st4))) = length (d_ub_idx (sv_data sv))).
  { change (unscale_dual_ub (sv_pc sv) (z_ub (st_it st4))) with (p_zub (unscale_point (sv_pc sv) (st_it st4))).
    rewrite (X_zub_tab _ _ Hps _ Hit). apply tab_length. }
  assert (Lsl : length (unscale_slack_lb (sv_pc sv) (s_lb (st_it st4))) = length (d_lb_idx (sv_data sv))).
  { change (unscale_slack_lb (sv_pc sv) (s_lb (st_it st4))) with (p_slb (unscale_point (sv_pc sv) (st_it st4))).
    rewrite (X_slb_tab _ _ Hps _ Hit). apply tab_length. }
  assert (Lsu : length (unscale_slack_ub (sv_pc sv) (s_ub (st_it st4))) = length (d_ub_idx (sv_data sv))).
  { change (unscale_slack_ub (sv_pc sv) (s_ub (st_it st4))) with (p_sub (unscale_point (sv_pc sv) (st_it st4))).
    rewrite (X_sub_tab _ _ Hps _ Hit). apply tab_length. }
  destruct (gather_restored _ _ _ _ _ (wfd_lbi _ Wd) Lzl Rzl) as (Gzl & Lrzl & Azl).
  destruct (gather_restored _ _ _ _ _ (wfd_ubi _ Wd) Lzu Rzu) as (Gzu & Lrzu & Azu).
  destruct (gather_restored_ext _ _ _ _ _ (wfd_lbi _ Wd) Lsl Rsl) as (Gsl & Lrsl & Asl).
  destruct (gather_restored_ext _ _ _ _ _ (wfd_ubi _ Wd) Lsu Rsu) as (Gsu & Lrsu & Asu).
  assert (EX : pack_out (d_lb_idx (sv_data sv)) (d_ub_idx (sv_data sv)) (sv_out sv') = unscale_point (sv_pc sv) (st_it st4)).
  { rewrite Hout. unfold pack_out, unscale_point. rewrite Fx, Fy, Fz, Fs, Gzl, Gzu, Gsl, Gsu. reflexivity. }
  rewrite EX. destruct Hdg.
  split; [exact Hcert|]. split; [apply certificate_entrywise_proof, Hcert|].
  split; [|auto 10].
  rewrite Hout. unfold absent_bounds_ok. repeat split; auto.
Qed.

(* ---- C01 at full strength on the model, and C04-T4: after setup and ANY accepted history ---- *)
Theorem solve_certifies_user_problem_proof ident S n p m B sv0 h sv fault sv' :
  sane_consts K -> setup_blocks_ok n p m B ->
  setup K ident spc junk S n p m B = Ok sv0 ->
  Forall (sop_ok n p m) h -> run_sops K spc junk cp_bits sv0 h = Ok sv ->
  solve K junk cp_bits fault sv = Ok (sv', SOLVED) ->
  let U := hist_user K (eff_user K B) h in
  let lbi := hist_lbi K (eff_lbi K B) h in
  let ubi := hist_ubi K (eff_ubi K B) h in
  let d := sv_data sv in
  let X := pack_out lbi ubi (sv_out sv') in
  d_n d = n /\ d_p d = p /\ d_m d = m /\ d_lb_idx d = lbi /\ d_ub_idx d = ubi /\
  certificate U d (sv_set sv) (k_half K) X /\
  certificate_entrywise U d (sv_set sv) (k_half K) X /\
  absent_bounds_ok n lbi ubi (sv_out sv') /\
  i_primal_obj (sv_info sv') = X_pobj U d X (k_half K) /\
  i_dual_obj (sv_info sv') = X_dobj U d X (k_half K) /\
  i_primal_inf (sv_info sv') = X_primal_inf U d X /\
  i_dual_inf (sv_info sv') = X_dual_inf U d X /\
  i_duality_gap (sv_info sv') = qabs (X_pobj U d X (k_half K) - X_dobj U d X (k_half K)).
Proof.
  intros SK BO H0 Fh Hr Hs. cbv zeta.
  destruct (setup_establishes_scaled_problem_proof K ident spc junk S n p m B sv0 SK BO H0) as (Inv0 & E1 & E2 & E3 & El & Eu).
  destruct (history_invariant K spc junk cp_bits n p m SK h _ sv0 sv Inv0 E1 E2 E3 Fh Hr) as (Inv & D1 & D2 & D3 & Dl & Du).
  rewrite El in Dl. rewrite Eu in Du.
  pose proof (solve_certifies_inv _ fault sv sv' Inv Hs) as G. cbv zeta in G.
  rewrite Dl, Du, D1 in G. auto 15.
Qed.

End SolveE2E.

(* ================================================================== *)
(** * 8. the effective problem versus the user's current data (F7 / F7b) *)
(* ================================================================== *)
(* the blocks the user has passed most recently *)
Definition merge_opt {A} (new old : option A) : option A := match new with Some a => Some a | None => old end.
Definition merge_blocks (cur B : Blocks) : Blocks :=
  {| b_P := merge_opt (b_P B) (b_P cur); b_c := merge_opt (b_c B) (b_c cur);
     b_A := merge_opt (b_A B) (b_A cur); b_b := merge_opt (b_b B) (b_b cur);
     b_G := merge_opt (b_G B) (b_G cur); b_h := merge_opt (b_h B) (b_h cur);
     b_lb := merge_opt (b_lb B) (b_lb cur); b_ub := merge_opt (b_ub B) (b_ub cur) |}.

(* the calls on which the stored rows of G and the user's rows of G cannot drift apart:
   G and h are passed together, or neither is passed, or
   h alone while every row that is currently disabled stays disabled (otherwise F7: the row stays zero), or
   G alone while no row is currently disabled (otherwise F7b: the row comes back with right-hand side 1) *)
Definition F7_free (K : Consts) (m : nat) (cur B : Blocks) : Prop :=
  match b_G B, b_h B with
  | Some _, Some _ => True
  | None, None => True
  | None, Some hn =>
      match b_h cur with
      | Some hc => forall k, (k < m)%nat -> h_is_inf (k_inf K) (nth k hc NInf) = true -> h_is_inf (k_inf K) (nth k hn NInf) = true
      | None => True end
  | Some _, None =>
      match b_h cur with
      | Some hc => forall k, (k < m)%nat -> h_is_inf (k_inf K) (nth k hc NInf) = false
      | None => True end
  end.

(* two user problems with the same entries on the ranges (n, p, m, bounded variables) that are ever read *)
Record agree (n p m : nat) (lbi ubi : list nat) (U U' : UserQP) : Prop := mk_agree {
  ag_P : forall i j, (i <= j)%nat -> (j < n)%nat -> u_P U i j = u_P U' i j;
  ag_c : forall i, (i < n)%nat -> u_c U i = u_c U' i;
  ag_A : forall k i, (k < p)%nat -> (i < n)%nat -> u_A U k i = u_A U' k i;
  ag_b : forall k, (k < p)%nat -> u_b U k = u_b U' k;
  ag_G : forall k i, (k < m)%nat -> (i < n)%nat -> u_G U k i = u_G U' k i;
  ag_h : forall k, (k < m)%nat -> u_h U k = u_h U' k;
  ag_lb : forall i, In i lbi -> u_lb U i = u_lb U' i;
  ag_ub : forall i, In i ubi -> u_ub U i = u_ub U' i
}.

Lemma is_scaled_of_agree pc d U U' :
  agree (d_n d) (d_p d) (d_m d) (d_lb_idx d) (d_ub_idx d) U U' -> is_scaled_of pc d U -> is_scaled_of pc d U'.
Proof.
  intros [AP Ac AA Ab AG Ah Alb Aub] [SP Sc SAT SGT Sb Sh Slbs Subs Slbn Subv]. split; try assumption.
  - intros i j Hij Hj. rewrite <- AP by auto. auto.
  - intros i Hi. rewrite <- Ac by auto. auto.
  - intros i k Hi Hk. rewrite <- AA by auto. auto.
  - intros i k Hi Hk. rewrite <- AG by auto. auto.
  - intros k Hk. rewrite <- Ab by auto. auto.
  - intros k Hk. rewrite <- Ah by auto. auto.
  - intros k Hk. rewrite <- Alb by (apply nth_In; exact Hk). auto.
  - intros k Hk. rewrite <- Aub by (apply nth_In; exact Hk). auto.
Qed.
Lemma e2e_inv_agree U U' sv :
  agree (d_n (sv_data sv)) (d_p (sv_data sv)) (d_m (sv_data sv)) (d_lb_idx (sv_data sv)) (d_ub_idx (sv_data sv)) U U' ->
  e2e_inv U sv -> e2e_inv U' sv.
Proof.
  intros A [Ws [S1 S2 S3 S4 S5 S6] TL I Ho]. split; try assumption. split; try assumption.
  eapply is_scaled_of_agree; eauto.
Qed.

Lemma upd_user_merge_agree K n p m lbi ubi cur B :
  F7_free K m cur B ->
  agree n p m lbi ubi (upd_user K (eff_user K cur) B) (eff_user K (merge_blocks cur B)).
Proof.
  intros HF. unfold eff_user, upd_user, merge_blocks, merge_opt, zero_user, F7_free in *.
  cbn [b_P b_c b_A b_b b_G b_h b_lb b_ub u_P u_c u_A u_b u_G u_h u_lb u_ub] in *.
  split; cbn [u_P u_c u_A u_b u_G u_h u_lb u_ub].
  - intros i j _ _. destruct (b_P B); reflexivity.
  - intros i _. destruct (b_c B); reflexivity.
  - intros k i _ _. destruct (b_A B); reflexivity.
  - intros k _. destruct (b_b B); reflexivity.
  - intros k i Hk _. destruct (b_G B) as [G|], (b_h B) as [hn|]; try reflexivity.
    + destruct (b_h cur) as [hc|]; [|reflexivity]. rewrite (HF k Hk). reflexivity.
    + destruct (b_h cur) as [hc|]; [|reflexivity].
      destruct (h_is_inf (k_inf K) (nth k hn NInf)) eqn:En; [reflexivity|].
      destruct (h_is_inf (k_inf K) (nth k hc NInf)) eqn:Ec; [|reflexivity].
      rewrite (HF k Hk Ec) in En. discriminate En.
  - intros k Hk. destruct (b_G B) as [G|], (b_h B) as [hn|]; reflexivity.
  - intros i _. destruct (b_lb B); reflexivity.
  - intros i _. destruct (b_ub B); reflexivity.
Qed.
Lemma upd_idx_merge K cur B :
  upd_lbi K (eff_lbi K cur) B = eff_lbi K (merge_blocks cur B) /\ upd_ubi K (eff_ubi K cur) B = eff_ubi K (merge_blocks cur B).
Proof.
  unfold upd_lbi, upd_ubi, eff_lbi, eff_ubi, merge_blocks, merge_opt. cbn. destruct (b_lb B), (b_ub B); split; reflexivity.
Qed.

(* corollary of update_preserves_scaled_problem: when the call is F7-free the new state stores the user's CURRENT data *)
Theorem update_preserves_current_data_proof K spc cur sv B reuse sv' :
  sane_consts K -> e2e_inv (eff_user K cur) sv ->
  blocks_ok (d_n (sv_data sv)) (d_p (sv_data sv)) (d_m (sv_data sv)) B ->
  F7_free K (d_m (sv_data sv)) cur B ->
  update K spc sv B reuse = Ok sv' ->
  e2e_inv (eff_user K (merge_blocks cur B)) sv'.
Proof.
  intros SK Inv BO HF H.
  destruct (update_preserves_scaled_problem_proof K spc _ sv B reuse sv' SK Inv BO H) as (Inv2 & (D1 & D2 & D3) & _).
  eapply e2e_inv_agree; [|exact Inv2]. apply upd_user_merge_agree. rewrite D3. exact HF.
Qed.

(* the user's current blocks after a history, and the histories without an F7 / F7b call *)
Fixpoint hist_blocks (cur : Blocks) (h : list SOp) : Blocks :=
  match h with
  | [] => cur
  | SUpdate B _ :: t => hist_blocks (merge_blocks cur B) t
  | SSolve _ :: t => hist_blocks cur t
  end.
Fixpoint hist_F7_free (K : Consts) (m : nat) (cur : Blocks) (h : list SOp) : Prop :=
  match h with
  | [] => True
  | SUpdate B _ :: t => F7_free K m cur B /\ hist_F7_free K m (merge_blocks cur B) t
  | SSolve _ :: t => hist_F7_free K m cur t
  end.

Theorem history_invariant_current K spc junk cp_bits n p m :
  sane_consts K ->
  forall h cur sv1 sv,
  e2e_inv (eff_user K cur) sv1 -> d_n (sv_data sv1) = n -> d_p (sv_data sv1) = p -> d_m (sv_data sv1) = m ->
  d_lb_idx (sv_data sv1) = eff_lbi K cur -> d_ub_idx (sv_data sv1) = eff_ubi K cur ->
  Forall (sop_ok n p m) h -> hist_F7_free K m cur h -> run_sops K spc junk cp_bits sv1 h = Ok sv ->
  e2e_inv (eff_user K (hist_blocks cur h)) sv /\
  d_n (sv_data sv) = n /\ d_p (sv_data sv) = p /\ d_m (sv_data sv) = m /\
  d_lb_idx (sv_data sv) = eff_lbi K (hist_blocks cur h) /\ d_ub_idx (sv_data sv) = eff_ubi K (hist_blocks cur h).
Proof.
  intros SK. induction h as [|o t IH]; intros cur sv1 sv Inv E1 E2 E3 El Eu Fh HF H; cbn [run_sops] in H.
  - injection H as <-. cbn. auto 10.
  - pose proof (Forall_inv Fh) as Ho. pose proof (Forall_inv_tail Fh) as Ft.
    destruct (sop_step K spc junk cp_bits sv1 o) as [sv2|] eqn:Es; cbn [bind] in H; [|discriminate].
    destruct o as [Bu reuse | fl]; cbn [sop_step sop_ok hist_blocks hist_F7_free] in *.
    + destruct HF as [HF1 HF2]. rewrite <- E1, <- E2, <- E3 in Ho.
      destruct (update_preserves_scaled_problem_proof K spc _ sv1 Bu reuse sv2 SK Inv Ho Es) as (Inv2 & (D1 & D2 & D3) & Il & Iu & _).
      destruct (upd_idx_merge K cur Bu) as [Ml Mu]. rewrite El, Ml in Il. rewrite Eu, Mu in Iu.
      assert (Inv2' : e2e_inv (eff_user K (merge_blocks cur Bu)) sv2).
      { eapply e2e_inv_agree; [|exact Inv2]. apply upd_user_merge_agree. rewrite D3, E3. exact HF1. }
      apply (IH _ sv2 sv Inv2'); try assumption; congruence.
    + destruct (solve K junk cp_bits fl sv1) as [[sv3 stt]|] eqn:Ess; cbn [bind] in Es; [|discriminate].
      injection Es as <-.
      destruct (solve_keeps_inv K junk cp_bits fl _ sv1 sv3 stt Inv Ess) as (Inv3 & Ed & Ep).
      apply (IH cur sv3 sv Inv3); try (rewrite Ed; assumption); assumption.
Qed.

(* C01 / C04-T4 for the user's CURRENT data, on histories without an F7 / F7b call *)
Theorem solve_certifies_current_data_proof K spc junk cp_bits ident S n p m B sv0 h sv fault sv' :
  sane_consts K -> setup_blocks_ok n p m B ->
  setup K ident spc junk S n p m B = Ok sv0 ->
  Forall (sop_ok n p m) h -> hist_F7_free K m B h -> run_sops K spc junk cp_bits sv0 h = Ok sv ->
  solve K junk cp_bits fault sv = Ok (sv', SOLVED) ->
  let Bc := hist_blocks B h in
  let U := eff_user K Bc in
  let d := sv_data sv in
  let X := pack_out (eff_lbi K Bc) (eff_ubi K Bc) (sv_out sv') in
  d_n d = n /\ d_p d = p /\ d_m d = m /\ d_lb_idx d = eff_lbi K Bc /\ d_ub_idx d = eff_ubi K Bc /\
  certificate U d (sv_set sv) (k_half K) X /\
  certificate_entrywise U d (sv_set sv) (k_half K) X /\
  absent_bounds_ok n (eff_lbi K Bc) (eff_ubi K Bc) (sv_out sv').
Proof.
  intros SK BO H0 Fh HF Hr Hs. cbv zeta.
  destruct (setup_establishes_scaled_problem_proof K ident spc junk S n p m B sv0 SK BO H0) as (Inv0 & E1 & E2 & E3 & El & Eu).
  destruct (history_invariant_current K spc junk cp_bits n p m SK h B sv0 sv Inv0 E1 E2 E3 El Eu Fh HF Hr) as (Inv & D1 & D2 & D3 & Dl & Du).
  pose proof (solve_certifies_inv K junk cp_bits _ fault sv sv' Inv Hs) as G. cbv zeta in G.
  rewrite Dl, Du, D1 in G. destruct G as (G1 & G2 & G3 & _). auto 10.
Qed.

(* ================================================================== *)
(** * 9. signs: the returned multipliers and slacks are positive (C08 + unscale_keeps_sign) *)
(* ================================================================== *)
Definition out_positive (d : Data) (X : UPoint) : Prop :=
  (forall k, (k < d_m d)%nat -> 0 < el (p_z X) k /\ 0 < el (p_s X) k) /\
  (forall k, (k < d_nlb d)%nat -> 0 < el (p_zlb X) k /\ 0 < el (p_slb X) k) /\
  (forall k, (k < d_nub d)%nat -> 0 < el (p_zub X) k /\ 0 < el (p_sub X) k).

Section SignsE2E.
Variable K : Consts.
Variable spc : bool.
Variable junk : F.
Variable cp_bits : Z.

Theorem solve_positive_inv U fault sv sv' :
  e2e_inv U sv -> kkt_ready sv -> consts_ok K -> settings_ok (sv_set sv) ->
  solve K junk cp_bits fault sv = Ok (sv', SOLVED) ->
  out_positive (sv_data sv) (pack_out (d_lb_idx (sv_data sv)) (d_ub_idx (sv_data sv)) (sv_out sv')).
Proof.
  intros [Ws SP TL I Ho] Hkr HK HS H.
  destruct (solve_solved_origin_wf K junk cp_bits fault sv sv' Ws H)
    as (st4 & out & res0 & inf0a & Wit & Hur & Hout & Hinfo & Hc & Hinf & Ht & Hpos).
  specialize (Hpos HK HS Hkr). pose proof (wf_it_shape _ _ Wit) as Hit.
  pose proof Ws as [Wd Wp Hnlb Hnub Wk Wo].
  destruct (unscale_and_restore_fields junk sv _ out Hur) as (Fx & Fy & Fz & Fs & Rzl & Rzu & Rsl & Rsu).
  pose proof (sp_ps _ _ _ SP) as Hps.
  assert (Lzl : length (unscale_dual_lb (sv_pc sv) (z_lb (st_it st4))) = length (d_lb_idx (sv_data sv))).
  { change (unscale_dual_lb (sv_pc sv) (z_lb (st_it st4))) with (p_zlb (unscale_point (sv_pc sv) (st_it st4))).
    rewrite (X_zlb_tab _ _ Hps _ Hit). apply tab_length. }
  assert (Lzu : length (unscale_dual_ub (sv_pc sv) (z_ub (st_it st4))) = length (d_ub_idx (sv_data sv))).
  { change (unscale_dual_ub (sv_pc sv) (z_ub (st_it st4))) with (p_zub (unscale_point (sv_pc sv) (st_it st4))).
    rewrite (X_zub_tab _ _ Hps _ Hit). apply tab_length. }
  assert (Lsl : length (unscale_slack_lb (sv_pc sv) (s_lb (st_it st4))) = length (d_lb_idx (sv_data sv))).
  { change (unscale_slack_lb (sv_pc sv) (s_lb (st_it st4))) with (p_slb (unscale_point (sv_pc sv) (st_it st4))).
    rewrite (X_slb_tab _ _ Hps _ Hit). apply tab_length. }
  assert (Lsu : length (unscale_slack_ub (sv_pc sv) (s_ub (st_it st4))) = length (d_ub_idx (sv_data sv))).
  { change (unscale_slack_ub (sv_pc sv) (s_ub (st_it st4))) with (p_sub (unscale_point (sv_pc sv) (st_it st4))).
    rewrite (X_sub_tab _ _ Hps _ Hit). apply tab_length. }
  destruct (gather_restored _ _ _ _ _ (wfd_lbi _ Wd) Lzl Rzl) as (Gzl & _ & _).
  destruct (gather_restored _ _ _ _ _ (wfd_ubi _ Wd) Lzu Rzu) as (Gzu & _ & _).
  destruct (gather_restored_ext _ _ _ _ _ (wfd_lbi _ Wd) Lsl Rsl) as (Gsl & _ & _).
  destruct (gather_restored_ext _ _ _ _ _ (wfd_ubi _ Wd) Lsu Rsu) as (Gsu & _ & _).
  assert (EX : pack_out (d_lb_idx (sv_data sv)) (d_ub_idx (sv_data sv)) (sv_out sv') = unscale_point (sv_pc sv) (st_it st4)).
  { rewrite Hout. unfold pack_out, unscale_point. rewrite Fx, Fy, Fz, Fs, Gzl, Gzu, Gsl, Gsu. reflexivity. }
  rewrite EX.
  destruct (unscale_keeps_sign_proof (sv_data sv) (sv_pc sv) (st_it st4) Hps (sp_pi _ _ _ SP) (sp_pp _ _ _ SP) Hit)
    as (Sz & Szl & Szu & Ss & Ssl & Ssu).
  destruct Hpos as (Ps & Psl & Psu & Pz & Pzl & Pzu). destruct Hit as [_ _ Lz Lzlb Lzub Ls Lslb Lsub].
  unfold el in *. split; [|split].
  - intros k Hk. split.
    + apply (Sz k Hk). apply InteriorProofs.vpos_nth; auto. unfold Vec, F in *; lia.
    + apply (Ss k Hk). apply InteriorProofs.vpos_nth; auto. unfold Vec, F in *; lia.
  - intros k Hk. split.
    + apply (Szl k Hk). apply InteriorProofs.vpos_nth; auto. unfold Vec, F in *; lia.
    + apply (Ssl k Hk). apply InteriorProofs.vpos_nth; auto. unfold Vec, F in *; lia.
  - intros k Hk. split.
    + apply (Szu k Hk). apply InteriorProofs.vpos_nth; auto. unfold Vec, F in *; lia.
    + apply (Ssu k Hk). apply InteriorProofs.vpos_nth; auto. unfold Vec, F in *; lia.
Qed.

Theorem solve_returns_positive_proof ident S n p m B sv0 h sv fault sv' :
  sane_consts K -> consts_ok K -> setup_blocks_ok n p m B ->
  setup K ident spc junk S n p m B = Ok sv0 ->
  Forall (sop_ok n p m) h -> run_sops K spc junk cp_bits sv0 h = Ok sv ->
  settings_ok S ->
  solve K junk cp_bits fault sv = Ok (sv', SOLVED) ->
  out_positive (sv_data sv) (pack_out (hist_lbi K (eff_lbi K B) h) (hist_ubi K (eff_ubi K B) h) (sv_out sv')).
Proof.
  intros SK CK BO H0 Fh Hr HS Hs.
  destruct (setup_establishes_scaled_problem_proof K ident spc junk S n p m B sv0 SK BO H0) as (Inv0 & E1 & E2 & E3 & El & Eu).
  destruct (history_invariant K spc junk cp_bits n p m SK h _ sv0 sv Inv0 E1 E2 E3 Fh Hr) as (Inv & D1 & D2 & D3 & Dl & Du).
  rewrite El in Dl. rewrite Eu in Du. rewrite <- Dl, <- Du.
  apply (solve_positive_inv _ fault sv sv' Inv); auto.
  - eapply run_sops_kkt_ready; [|exact Hr]. eapply setup_kkt_ready; eauto.
  - rewrite (run_sops_set _ _ _ _ _ _ _ Hr), (setup_set _ _ _ _ _ _ _ _ _ _ H0). exact HS.
Qed.
End SignsE2E.

(* ================================================================== *)
(** * 10. non-vacuity: a concrete  setup -> update -> solve  run         *)
(* ================================================================== *)
(* n = 1, p = 0, m = 1.  setup: min 64 x^2 + 64 x, the single inequality is DISABLED by h = +inf, x >= -3.
   update (reuse = true): c := -512, G := 1/8 and h := 3/16 passed together (the row is live again), x <= 4.
   Short dyadic settings, 8-bit checkpoints, tolerances 1/8.  Ruiz (cost scaling on) gives c = 1/16, dx = 1/4, dlb = 4. *)
From PIQP.gen Require Consts.
Definition e2e_S : Settings := {|
  rho_init := qmk 1 64; delta_init := qmk 1 16;
  eps_abs := qmk 1 8; eps_rel := qmk 1 8;
  check_duality_gap := true; eps_duality_gap_abs := qmk 1 8; eps_duality_gap_rel := qmk 1 8;
  reg_lower_limit := qmk 1 1048576; reg_finetune_lower_limit := qmk 1 1073741824;
  reg_finetune_primal_update_threshold := 7; reg_finetune_dual_update_threshold := 5;
  max_iter := 250; max_factor_retires := 10;
  preconditioner_scale_cost := true; preconditioner_iter := 10;
  tau := qmk 3 4;
  iterative_refinement_always_enabled := false;
  iterative_refinement_eps_abs := qmk 1 4096; iterative_refinement_eps_rel := qmk 1 4096;
  iterative_refinement_max_iter := 10;
  iterative_refinement_min_improvement_rate := qmk 5 1;
  iterative_refinement_static_regularization_eps := qmk 1 8192;
  iterative_refinement_static_regularization_rel := qmk 1 1048576
|}.
Definition e2e_B0 : Blocks :=
  {| b_P := Some [[qmk 128 1]]; b_c := Some [qmk 64 1]; b_A := None; b_b := None; b_G := Some [[qmk 1 16]];
     b_h := Some [PInf]; b_lb := Some [Fin (qmk (-3) 1)]; b_ub := Some [PInf] |}.
Definition e2e_B1 : Blocks :=
  {| b_P := None; b_c := Some [qmk (-512) 1]; b_A := None; b_b := None;
     b_G := Some [[qmk 1 8]]; b_h := Some [Fin (qmk 3 16)];
     b_lb := None; b_ub := Some [Fin (qmk 4 1)] |}.
Definition e2e_h : list SOp := [SUpdate e2e_B1 true].
Definition e2e_K : Consts := Consts.consts.

Definition e2e_test (sv sv' : Solver) : bool :=
  negb (qeqb (pc_c (sv_pc sv)) 1) && negb (qeqb (el (pc_delta (sv_pc sv)) 0) 1)
  && negb (qeqb (el (pc_delta_lb (sv_pc sv)) 0) 1) && negb (qeqb (el (o_x (sv_out sv')) 0) 0).
Definition run3 (r0 : res Solver) (f1 : Solver -> res Solver) (f2 : Solver -> res (Solver * Status))
                (t : Solver -> Solver -> bool) : bool :=
  match r0 with
  | Ok sv0 =>
    match f1 sv0 with
    | Ok sv => match f2 sv with Ok (sv', SOLVED) => t sv sv' | _ => false end
    | Err _ => false end
  | Err _ => false end.
Lemma run3_inv r0 f1 f2 t : run3 r0 f1 f2 t = true ->
  exists sv0 sv sv', r0 = Ok sv0 /\ f1 sv0 = Ok sv /\ f2 sv = Ok (sv', SOLVED) /\ t sv sv' = true.
Proof.
  unfold run3. destruct r0 as [sv0|]; [|discriminate]. destruct (f1 sv0) as [sv|] eqn:E1; [|discriminate].
  destruct (f2 sv) as [[sv' st]|] eqn:E2; [|discriminate]. destruct st; try discriminate.
  intros T. exists sv0, sv, sv'. auto.
Qed.
Lemma e2e_run_true :
  run3 (setup e2e_K false false 0 e2e_S 1 0 1 e2e_B0) (fun sv0 => run_sops e2e_K false 0 8 sv0 e2e_h)
       (fun sv => solve e2e_K 0 8 (fun _ => false) sv) e2e_test = true.
Proof. vm_compute. reflexivity. Qed.

Lemma ex_e2e_hypotheses_proof :
  sane_consts e2e_K /\ consts_ok e2e_K /\ settings_ok e2e_S /\
  setup_blocks_ok 1 0 1 e2e_B0 /\ Forall (sop_ok 1 0 1) e2e_h /\ hist_F7_free e2e_K 1 e2e_B0 e2e_h.
Proof.
  split; [repeat split; vm_compute; congruence|].
  split; [repeat split; vm_compute; congruence|].
  split; [repeat split; vm_compute; congruence|].
  split.
  { unfold setup_blocks_ok, blocks_ok, e2e_B0; cbn. repeat split; try reflexivity; try discriminate; repeat constructor. }
  split.
  { constructor; [|constructor]. unfold sop_ok, blocks_ok, e2e_B1; cbn. repeat split; try reflexivity; repeat constructor. }
  cbn. auto.
Qed.

Lemma ex_e2e_run_proof :
  exists sv0 sv sv',
    setup e2e_K false false 0 e2e_S 1 0 1 e2e_B0 = Ok sv0 /\
    run_sops e2e_K false 0 8 sv0 e2e_h = Ok sv /\
    solve e2e_K 0 8 (fun _ => false) sv = Ok (sv', SOLVED) /\
    pc_c (sv_pc sv) <> 1 /\ el (pc_delta (sv_pc sv)) 0 <> 1 /\ el (pc_delta_lb (sv_pc sv)) 0 <> 1 /\
    el (o_x (sv_out sv')) 0 <> 0.
Proof.
  destruct (run3_inv (setup e2e_K false false 0 e2e_S 1 0 1 e2e_B0) (fun sv0 => run_sops e2e_K false 0 8 sv0 e2e_h)
                     (fun sv => solve e2e_K 0 8 (fun _ => false) sv) e2e_test e2e_run_true) as (sv0 & sv & sv' & E0 & E1 & E2 & T).
  cbv beta in E1, E2.
  exists sv0, sv, sv'. split; [exact E0|]. split; [exact E1|]. split; [exact E2|].
  unfold e2e_test in T.
  apply andb_true_iff in T. destruct T as [T T4]. apply andb_true_iff in T. destruct T as [T T3].
  apply andb_true_iff in T. destruct T as [T1 T2].
  apply negb_true_iff in T1, T2, T3, T4.
  assert (Q : forall a b : F, qeqb a b = false -> a <> b).
  { intros a b Hq E. rewrite E in Hq. unfold qeqb in Hq. rewrite Qeq_bool_refl in Hq. discriminate Hq. }
  repeat split; apply Q; assumption.
Qed.

(* the end-to-end theorems instantiated on that run: the certificate is for the user's CURRENT data *)
Lemma ex_e2e_certified_proof :
  exists sv sv',
    solve e2e_K 0 8 (fun _ => false) sv = Ok (sv', SOLVED) /\
    let Bc := merge_blocks e2e_B0 e2e_B1 in
    let X := pack_out (eff_lbi e2e_K Bc) (eff_ubi e2e_K Bc) (sv_out sv') in
    certificate_entrywise (eff_user e2e_K Bc) (sv_data sv) e2e_S (k_half e2e_K) X /\
    absent_bounds_ok 1 (eff_lbi e2e_K Bc) (eff_ubi e2e_K Bc) (sv_out sv') /\
    out_positive (sv_data sv) X.
Proof.
  destruct ex_e2e_run_proof as (sv0 & sv & sv' & E0 & E1 & E2 & _).
  destruct ex_e2e_hypotheses_proof as (SK & CK & HS & BO & Fh & HF).
  exists sv, sv'. split; [exact E2|]. cbv zeta.
  destruct (solve_certifies_current_data_proof e2e_K false 0 8 false e2e_S 1 0 1 e2e_B0 sv0 e2e_h sv _ sv' SK BO E0 Fh HF E1 E2)
    as (D1 & D2 & D3 & Dl & Du & C1 & C2 & C3).
  pose proof (solve_returns_positive_proof e2e_K false 0 8 false e2e_S 1 0 1 e2e_B0 sv0 e2e_h sv _ sv' SK CK BO E0 Fh E1 HS E2) as P.
  assert (Es : sv_set sv = e2e_S) by (rewrite (run_sops_set _ _ _ _ _ _ _ E1); apply (setup_set _ _ _ _ _ _ _ _ _ _ E0)).
  rewrite Es in C2. split; [exact C2|]. split; [exact C3|].
  exact P.
Qed.
