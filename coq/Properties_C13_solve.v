(* Properties_C13_solve.v -- C13: the SOLVE PATH of the sparse back end (include/piqp/sparse/kkt.hpp: regularize_and_factorize(false),
   solve(.., iterative_refinement = false), multiply), model KKTSparseSolve.v, tied to sparse::KKT<xrat, int, Mode> for the four
   modes by tools/kktsolve_stage.py (factor flag, the eight solution blocks and the multiply result are EQUAL fractions).
   End-to-end statement, every size:  stored matrix denotes K_mode (assembly theorems)  +  a valid ordering  +  the factorisation
   reports no zero pivot   ==>   solve returns Ok (no out-of-range access, no division by zero) and the eight returned blocks
   satisfy the FULL un-eliminated regularised Newton system; equivalently multiply applied to them returns the right-hand side.
   Composition: assembly denotation (Properties_C13_full.v) + perm / permt (C14_perm_spec, C14_permt_spec) + sparse LDL^T
   (C14_ldl_sparse_correct, Properties_C14_general.v) + block elimination algebra (KKTProofs.v and KKTSparseSolveProofs.v).
   Vocabulary (KKTSparseSolveProofs.v):
     solve_ok d c     block sizes of the scalings, box indices in range, and the non-zero conditions of the divisions of solve /
                      multiply:  s, 1/z, s * (1/z) + delta  non-zero in the inequality, lower-bound and upper-bound blocks
                      (implied by positive scalings and delta >= 0);
     rhs_ok d r       block sizes n, p, m, m of x, y, z, s and at least n_lb / n_ub entries in the bound blocks;
     step_ok d v      block sizes of a returned step (bound blocks exactly n_lb / n_ub: the written heads);
     ord_ok N o       o.P is a permutation of [0, N), o.P_inv its inverse (what AMDOrdering::init leaves);  id_ord N  the identity;
     denotes N o K Km K is a well-formed N x N upper-triangular compressed matrix without repeated entries in a column and
                      K(min(inv i, inv j), max(inv i, inv j)) = Km i j  for i <= j < N  (the conclusion of the assembly theorems);
     newton8 d c v r  the eight block equations of the full system (written out in C13_newton8_written_out).
   Factorisation success is stated for the first regularize_and_factorize(false) after init (LDL object as the symbolic phase
   left it): kkt_symbolic K = Ok st0, kkt_factorize K st0 = Ok (true, st).
   The same for KKT_EQ_ELIMINATED, KKT_INEQ_ELIMINATED, KKT_ALL_ELIMINATED (KKTSparseSolveElimProofs.v): condensed right-hand
   side, reduced solve, recovery of delta_y / delta_z, for every valid ordering, with the hypotheses  denotes N o K (Keq ..) /
   (Kineq ..) / (a_Kred ..)  the assembly theorems of Properties_C13_eqineq.v / Properties_C13_elim.v provide.
   Factorisation success from a CARRIED state (a later regularize_and_factorize(false), e.g. after update_scalings): the
   *_refactor theorems; reusable K st = the LDL object holds the index part of the symbolic phase for the pattern of K, work
   arrays of the right sizes, y cleared (established by the symbolic phase, kept by every successful factorisation, independent
   of the values of K: C13_sparse_reusable).  Not covered: the state a FAILED factorisation (zero pivot) leaves.
   NOT proved here (see the report of the stage for what is compared instead):
     * (nodup_cols of the stored matrix is no longer a hypothesis of the theorems on the assembly states: KKTSparseNodupProofs.v
       derives it from the canonical-form predicates; KKT_FULL needs strictly increasing columns of P_utri, AT, GT: sorted_colsb);
     * iterative refinement. *)
From PIQP Require Import Base CSC CSCProofs LDLSparse LinAlg KKTProofs LDLValuesFinalProofs KKTSparseFull KKTSparseFullProofs KKTSparseFullPerm KKTSparseFullPermProofs
  KKTSparseAll KKTSparseAllProofs KKTSparseEq KKTSparseIneq KKTSparseEqProofs KKTSparseIneqProofs
  KKTSparseSolve KKTSparseSolveProofs KKTSparseSolveElimProofs KKTSparseSolvePermProofs KKTSparseRefactorProofs KKTSparseNodupProofs.
Local Open Scope nat_scope.

(* ===== KKT_FULL: solve is exact (any valid ordering) ===== *)
Theorem C13_sparse_solve_exact_full : forall (d : sdata) (c : scal) (o : ordering) (K : csc F) (st0 st : ldl_i * ldl_v) (r : step8),
  solve_ok d c -> rhs_ok d r ->
  ord_ok (sd_n d + sd_p d + sd_m d) o -> denotes (sd_n d + sd_p d + sd_m d) o K (Kfull (sys_sparse d c)) ->
  kkt_symbolic K = Ok st0 -> kkt_factorize K st0 = Ok (true, st) ->
  exists v, kkt_solve MFull d c o st r = Ok v /\ step_ok d v /\ newton8 d c v r.
Proof.
  intros d c o K st0 st r Hso Hro Ho Hden E0 E1.
  apply (full_solve_exact d c o K st r Hso Hro Ho Hden).
  destruct Hden as (_ & Hr & Hc & _). cbn [mode_N]. rewrite <- Hr. apply (factor_first K st0 st E0 E1). lia.
Qed.
Print Assumptions C13_sparse_solve_exact_full.

(* ... equivalently: multiply applied to the returned step gives back the right-hand side (bound blocks: the heads n_lb / n_ub) *)
Theorem C13_sparse_multiply_solve_id_full : forall (d : sdata) (c : scal) (o : ordering) (K : csc F) (st0 st : ldl_i * ldl_v) (r : step8),
  wf_sdata d -> upper_only (sd_P d) = true -> solve_ok d c -> rhs_ok d r ->
  ord_ok (sd_n d + sd_p d + sd_m d) o -> denotes (sd_n d + sd_p d + sd_m d) o K (Kfull (sys_sparse d c)) ->
  kkt_symbolic K = Ok st0 -> kkt_factorize K st0 = Ok (true, st) ->
  exists v, kkt_solve MFull d c o st r = Ok v /\
    kkt_multiply d c v = Ok (mkstep8 (t_x r) (t_y r) (t_z r) (head (sd_nlb d) (t_zlb r)) (head (sd_nub d) (t_zub r))
                                     (t_s r) (head (sd_nlb d) (t_slb r)) (head (sd_nub d) (t_sub r))).
Proof.
  intros d c o K st0 st r Hwf Hup Hso Hro Ho Hden E0 E1.
  destruct (C13_sparse_solve_exact_full d c o K st0 st r Hso Hro Ho Hden E0 E1) as (v & Ev & Hv & Hn).
  exists v. split; [exact Ev|]. apply multiply_of_newton8; auto.
  destruct Hv as (V1 & V2 & V3 & V4 & V5 & V6 & V7 & V8). unfold rhs_ok. repeat split; auto; lia.
Qed.
Print Assumptions C13_sparse_multiply_solve_id_full.

(* any step that satisfies the eight equations is mapped to the right-hand side by multiply (the operator form of newton8) *)
Theorem C13_sparse_multiply_of_newton8 : forall (d : sdata) (c : scal) (v r : step8),
  wf_sdata d -> upper_only (sd_P d) = true -> solve_ok d c -> rhs_ok d v -> rhs_ok d r -> newton8 d c v r ->
  kkt_multiply d c v = Ok (mkstep8 (t_x r) (t_y r) (t_z r) (head (sd_nlb d) (t_zlb r)) (head (sd_nub d) (t_zub r))
                                   (t_s r) (head (sd_nlb d) (t_slb r)) (head (sd_nub d) (t_sub r))).
Proof. exact multiply_of_newton8. Qed.
Print Assumptions C13_sparse_multiply_of_newton8.

(* the eight block equations, written out over the data: P symmetric from its stored upper triangle, AT(i,l) = A(l,i), GT(i,l) = G(l,i) *)
Theorem C13_newton8_written_out : forall (d : sdata) (c : scal) (v r : step8),
  newton8 d c v r <->
  let P := fun i j => if (i <=? j)%nat then csc_get (sd_P d) i j else csc_get (sd_P d) j i in
  let AT := csc_get (sd_AT d) in let GT := csc_get (sd_GT d) in
  let x := fun (w : Vec) i => nth i w 0%Qc in
  let lbi := fun k => nth k (sd_lbidx d) 0%nat in let ubi := fun k => nth k (sd_ubidx d) 0%nat in
  ((forall i, (i < sd_n d)%nat ->
     sum (sd_n d) (fun j => P i j * x (t_x v) j) + sc_rho c * x (t_x v) i
     + (sum (sd_p d) (fun l => x (t_y v) l * AT i l) + sum (sd_m d) (fun l => x (t_z v) l * GT i l))
     - sum (sd_nlb d) (fun k => if (lbi k =? i)%nat then x (sd_lbs d) k * x (t_zlb v) k else 0)
     + sum (sd_nub d) (fun k => if (ubi k =? i)%nat then x (sd_ubs d) k * x (t_zub v) k else 0) = x (t_x r) i) /\
   (forall l, (l < sd_p d)%nat -> sum (sd_n d) (fun j => AT j l * x (t_x v) j) - sc_delta c * x (t_y v) l = x (t_y r) l) /\
   (forall l, (l < sd_m d)%nat -> sum (sd_n d) (fun j => GT j l * x (t_x v) j) - sc_delta c * x (t_z v) l + x (t_s v) l = x (t_z r) l) /\
   (forall k, (k < sd_nlb d)%nat -> - (x (sd_lbs d) k * x (t_x v) (lbi k)) - sc_delta c * x (t_zlb v) k + x (t_slb v) k = x (t_zlb r) k) /\
   (forall k, (k < sd_nub d)%nat -> x (sd_ubs d) k * x (t_x v) (ubi k) - sc_delta c * x (t_zub v) k + x (t_sub v) k = x (t_zub r) k) /\
   (forall l, (l < sd_m d)%nat -> x (sc_s c) l * x (t_z v) l + 1 / x (sc_z_inv c) l * x (t_s v) l = x (t_s r) l) /\
   (forall k, (k < sd_nlb d)%nat -> x (sc_s_lb c) k * x (t_zlb v) k + 1 / x (sc_z_lb_inv c) k * x (t_slb v) k = x (t_slb r) k) /\
   (forall k, (k < sd_nub d)%nat -> x (sc_s_ub c) k * x (t_zub v) k + 1 / x (sc_z_ub_inv c) k * x (t_sub v) k = x (t_sub r) k))%Qc.
Proof. intros. reflexivity. Qed.
Print Assumptions C13_newton8_written_out.

(* ===== on the assembly state: identity ordering, canonical form of Properties_C13_full.v ===== *)
Theorem C13_sparse_solve_exact_full_fresh_form : forall (d : sdata) (c : scal) (k : skkt) (st0 st : ldl_i * ldl_v) (r : step8),
  wf_sdata d -> upper_only (sd_P d) = true ->
  sorted_colsb (sd_P d) = true -> sorted_colsb (sd_AT d) = true -> sorted_colsb (sd_GT d) = true ->
  fresh_form d c k ->
  solve_ok d c -> rhs_ok d r ->
  kkt_symbolic (fk_PKPt d k) = Ok st0 -> full_factorize d k st0 = Ok (true, st) ->
  exists v, full_solve d k (mkord (seq 0 (sd_n d + sd_p d + sd_m d)) (fk_pinv k)) st r = Ok v /\ step_ok d v /\ newton8 d c v r /\
    full_multiply d k v = Ok (mkstep8 (t_x r) (t_y r) (t_z r) (head (sd_nlb d) (t_zlb r)) (head (sd_nub d) (t_zub r))
                                      (t_s r) (head (sd_nlb d) (t_slb r)) (head (sd_nub d) (t_sub r))).
Proof.
  intros d c k st0 st r Hwf Hup SP SA SG Hf Hso Hro E0 E1.
  pose proof (fresh_form_nodup_sorted d c k Hwf Hup SP SA SG Hf) as Hnd.
  destruct (fresh_form_denotes_solve d c k Hwf Hup Hf Hnd) as (Hden & Epi).
  assert (Esc : scal_of k = c) by (destruct Hf as (_ & E & _); exact E).
  unfold full_solve, full_multiply, full_factorize, full_view in *. cbn [sv_sc sv_K] in *. rewrite Esc, Epi.
  change (mkord (seq 0 (sd_n d + sd_p d + sd_m d)) (oPinv (id_ord (mode_N MFull d)))) with (id_ord (mode_N MFull d)).
  destruct (C13_sparse_solve_exact_full d c _ _ st0 st r Hso Hro (id_ord_ok _) Hden E0 E1) as (v & Ev & Hv & Hn).
  exists v. split; [exact Ev|]. split; [exact Hv|]. split; [exact Hn|]. apply multiply_of_newton8; auto.
  destruct Hv as (V1 & V2 & V3 & V4 & V5 & V6 & V7 & V8). unfold rhs_ok. repeat split; auto; lia.
Qed.
Print Assumptions C13_sparse_solve_exact_full_fresh_form.

(* ===== arbitrary fill-reducing ordering: the state is the image (perm_img, Properties_C13_full.v) of a canonical state.
   _partial: upper_only and nodup_cols of the permuted stored matrix and the validity of the ordering object are hypotheses ===== *)
Theorem C13_sparse_solve_exact_full_perm_partial : forall (d : sdata) (c : scal) (perm : list nat) (kid kp : skkt) (o : ordering)
    (st0 st : ldl_i * ldl_v) (r : step8),
  wf_sdata d -> upper_only (sd_P d) = true -> fresh_form d c kid -> perm_img d perm kid kp ->
  ord_ok (sd_n d + sd_p d + sd_m d) o -> oPinv o = fk_pinv kp ->
  upper_only (fk_PKPt d kp) = true -> nodup_cols (fk_PKPt d kp) ->
  solve_ok d c -> rhs_ok d r ->
  kkt_symbolic (fk_PKPt d kp) = Ok st0 -> kkt_factorize (fk_PKPt d kp) st0 = Ok (true, st) ->
  exists v, kkt_solve MFull d c o st r = Ok v /\ step_ok d v /\ newton8 d c v r.
Proof.
  intros d c perm kid kp o st0 st r Hwf Hup Hf Hp Ho Eo Hu Hnd Hso Hro E0 E1.
  apply (C13_sparse_solve_exact_full d c o (fk_PKPt d kp) st0 st r Hso Hro Ho); auto.
  apply (perm_img_denotes_solve d c perm kid kp o); auto.
Qed.
Print Assumptions C13_sparse_solve_exact_full_perm_partial.

(* ===== ... for EVERY valid ordering (perm a permutation of [0, N)): upper triangularity and strictly increasing columns of the
   permuted stored matrix follow from C14_permute_sym_sorted; the only pattern hypothesis left is on the UN-permuted assembled
   matrix (no row index twice in a column); the ordering object is the one ordering_init builds ===== *)
Theorem C13_sparse_solve_exact_full_perm : forall (d : sdata) (c : scal) (perm : list nat) (kid kp : skkt)
    (st0 st : ldl_i * ldl_v) (r : step8),
  wf_sdata d -> upper_only (sd_P d) = true -> fresh_form d c kid -> perm_img d perm kid kp ->
  perm_wf perm -> length perm = sd_n d + sd_p d + sd_m d ->
  sorted_colsb (sd_P d) = true -> sorted_colsb (sd_AT d) = true -> sorted_colsb (sd_GT d) = true ->
  solve_ok d c -> rhs_ok d r ->
  kkt_symbolic (fk_PKPt d kp) = Ok st0 -> full_factorize d kp st0 = Ok (true, st) ->
  exists o v, ordering_init perm = Ok o /\ oPinv o = fk_pinv kp /\
    full_solve d kp o st r = Ok v /\ step_ok d v /\ newton8 d c v r /\
    full_multiply d kp v = Ok (mkstep8 (t_x r) (t_y r) (t_z r) (head (sd_nlb d) (t_zlb r)) (head (sd_nub d) (t_zub r))
                                       (t_s r) (head (sd_nlb d) (t_slb r)) (head (sd_nub d) (t_sub r))).
Proof.
  intros d c perm kid kp st0 st r Hwf Hup Hf Hp Hpw Lp SP SA SG Hso Hro E0 E1.
  pose proof (fresh_form_nodup_sorted d c kid Hwf Hup SP SA SG Hf) as Hnd.
  destruct (full_perm_denotes_solve d c perm kid kp Hwf Hup Hf Hp Hpw Lp Hnd) as (o & Eo & EP & Epi & Hord & Hden).
  assert (Esc : scal_of kp = c).
  { destruct Hp as (o' & Cpos & a2c & _ & _ & _ & HS). destruct HS as (_ & _ & _ & _ & _ & _ & _ & _ & Es & _).
    rewrite Es. destruct Hf as (_ & E & _). exact E. }
  unfold full_solve, full_multiply, full_factorize, full_view in *. cbn [sv_sc sv_K] in *. rewrite Esc.
  destruct (C13_sparse_solve_exact_full d c o _ st0 st r Hso Hro Hord Hden E0 E1) as (v & Ev & Hv & Hn).
  exists o, v. split; [exact Eo|]. split; [exact Epi|]. split; [exact Ev|]. split; [exact Hv|]. split; [exact Hn|].
  apply multiply_of_newton8; auto.
  destruct Hv as (V1 & V2 & V3 & V4 & V5 & V6 & V7 & V8). unfold rhs_ok. repeat split; auto; lia.
Qed.
Print Assumptions C13_sparse_solve_exact_full_perm.

(* ===== the elimination algebra behind the three eliminated modes: the reduced rows imply the KKT_FULL rows ===== *)
Theorem C13_sparse_elim_algebra : forall (Y : L2sys) (dx dy dz : nat -> Qc),
  (y_delta Y <> 0%Qc -> (forall l, l < y_p Y -> dy l = a_dy Y dx l) -> eq_rows Y dx dz -> full_rows Y dx dy dz) /\
  ((forall l, l < y_m Y -> (y_s Y l * y_zinv Y l + y_delta Y)%Qc <> 0%Qc) ->
   (forall l, l < y_m Y -> dz l = a_dz Y dx l) -> ineq_rows Y dx dy -> full_rows Y dx dy dz) /\
  (y_delta Y <> 0%Qc -> (forall l, l < y_m Y -> (y_s Y l * y_zinv Y l + y_delta Y)%Qc <> 0%Qc) ->
   (forall l, l < y_p Y -> dy l = a_dy Y dx l) -> (forall l, l < y_m Y -> dz l = a_dz Y dx l) -> all_rows Y dx -> full_rows Y dx dy dz).
Proof. intros Y dx dy dz. split; [apply alg_eq|split; [apply alg_ineq|apply alg_all]]. Qed.
Print Assumptions C13_sparse_elim_algebra.


(* ===== KKT_EQ_ELIMINATED: solve is exact (any valid ordering) ===== *)
Theorem C13_sparse_solve_exact_eq : forall (d : sdata) (c : scal) (o : ordering) (K : csc F) (st0 st : ldl_i * ldl_v) (r : step8),
  wf_sdata d -> solve_ok d c -> sc_delta c <> 0%Qc -> rhs_ok d r ->
  ord_ok (sd_n d + sd_m d) o -> denotes (sd_n d + sd_m d) o K (Keq (sys_sparse d c)) ->
  kkt_symbolic K = Ok st0 -> kkt_factorize K st0 = Ok (true, st) ->
  exists v, kkt_solve MEq d c o st r = Ok v /\ step_ok d v /\ newton8 d c v r.
Proof.
  intros d c o K st0 st r Hwf Hso Hd Hro Ho Hden E0 E1.
  apply (eq_solve_exact d c o K st r Hwf Hso Hd Hro Ho Hden).
  destruct Hden as (_ & Hr & Hc & _). cbn [mode_N]. rewrite <- Hr. apply (factor_first K st0 st E0 E1). lia.
Qed.
Print Assumptions C13_sparse_solve_exact_eq.

Theorem C13_sparse_multiply_solve_id_eq : forall (d : sdata) (c : scal) (o : ordering) (K : csc F) (st0 st : ldl_i * ldl_v) (r : step8),
  wf_sdata d -> upper_only (sd_P d) = true -> solve_ok d c -> sc_delta c <> 0%Qc -> rhs_ok d r ->
  ord_ok (sd_n d + sd_m d) o -> denotes (sd_n d + sd_m d) o K (Keq (sys_sparse d c)) ->
  kkt_symbolic K = Ok st0 -> kkt_factorize K st0 = Ok (true, st) ->
  exists v, kkt_solve MEq d c o st r = Ok v /\
    kkt_multiply d c v = Ok (mkstep8 (t_x r) (t_y r) (t_z r) (head (sd_nlb d) (t_zlb r)) (head (sd_nub d) (t_zub r))
                                     (t_s r) (head (sd_nlb d) (t_slb r)) (head (sd_nub d) (t_sub r))).
Proof.
  intros d c o K st0 st r Hwf Hup Hso Hd Hro Ho Hden E0 E1.
  destruct (C13_sparse_solve_exact_eq d c o K st0 st r Hwf Hso Hd Hro Ho Hden E0 E1) as (v & Ev & Hv & Hn).
  exists v. split; [exact Ev|]. apply multiply_of_newton8; auto.
  destruct Hv as (V1 & V2 & V3 & V4 & V5 & V6 & V7 & V8). unfold rhs_ok. repeat split; auto; lia.
Qed.
Print Assumptions C13_sparse_multiply_solve_id_eq.

(* on the assembly state in canonical form (eqF of the assembly theorems; identity ordering) *)
Theorem C13_sparse_solve_exact_eq_form : forall (d : sdata) (X : csc F) (c : scal) (k : ekkt) (st0 st : ldl_i * ldl_v) (r : step8),
  elim_data_ok d (sd_GT d) -> eqF d X c k ->
  solve_ok d c -> sc_delta c <> 0%Qc -> rhs_ok d r ->
  kkt_symbolic (sv_K (eq_view d k)) = Ok st0 -> eq_factorize d k st0 = Ok (true, st) ->
  exists v, eq_solve d k (mkord (seq 0 (sd_n d + sd_m d)) (ek_pinv k)) st r = Ok v /\ step_ok d v /\ newton8 d c v r /\
    eq_multiply d k v = Ok (mkstep8 (t_x r) (t_y r) (t_z r) (head (sd_nlb d) (t_zlb r)) (head (sd_nub d) (t_zub r))
                                      (t_s r) (head (sd_nlb d) (t_slb r)) (head (sd_nub d) (t_sub r))).
Proof.
  intros d X c k st0 st r Hok Hf Hso Hd Hro E0 E1.
  pose proof Hok as (Hwf & Hup & _). destruct (eq_form_denotes d Hok X c k Hf) as (W & U & _ & G).
  pose proof (eqF_nodup d X c k Hok Hf) as Hnd.
  destruct (eqF_view d X c k Hf) as (Esc & Epi).
  unfold eq_solve, eq_multiply, eq_factorize, eq_view in *. cbn [sv_sc sv_K] in *. rewrite Esc, Epi.
  change (mkord (seq 0 (sd_n d + sd_m d)) (seq 0 (sd_n d + sd_m d))) with (id_ord (sd_n d + sd_m d)).
  assert (Hden : denotes (sd_n d + sd_m d) (id_ord (sd_n d + sd_m d)) _ (Keq (sys_sparse d c))) by (apply (denotes_id _ _ _ W eq_refl eq_refl U Hnd G)).
  destruct (C13_sparse_solve_exact_eq d c _ _ st0 st r Hwf Hso Hd Hro (id_ord_ok _) Hden E0 E1) as (v & Ev & Hv & Hn).
  exists v. split; [exact Ev|]. split; [exact Hv|]. split; [exact Hn|]. apply multiply_of_newton8; auto.
  destruct Hv as (V1 & V2 & V3 & V4 & V5 & V6 & V7 & V8). unfold rhs_ok. repeat split; auto; lia.
Qed.
Print Assumptions C13_sparse_solve_exact_eq_form.

(* ===== KKT_INEQ_ELIMINATED: solve is exact (any valid ordering) ===== *)
Theorem C13_sparse_solve_exact_ineq : forall (d : sdata) (c : scal) (o : ordering) (K : csc F) (st0 st : ldl_i * ldl_v) (r : step8),
  wf_sdata d -> solve_ok d c -> rhs_ok d r ->
  ord_ok (sd_n d + sd_p d) o -> denotes (sd_n d + sd_p d) o K (Kineq (sys_sparse d c)) ->
  kkt_symbolic K = Ok st0 -> kkt_factorize K st0 = Ok (true, st) ->
  exists v, kkt_solve MIneq d c o st r = Ok v /\ step_ok d v /\ newton8 d c v r.
Proof.
  intros d c o K st0 st r Hwf Hso Hro Ho Hden E0 E1.
  apply (ineq_solve_exact d c o K st r Hwf Hso Hro Ho Hden).
  destruct Hden as (_ & Hr & Hc & _). cbn [mode_N]. rewrite <- Hr. apply (factor_first K st0 st E0 E1). lia.
Qed.
Print Assumptions C13_sparse_solve_exact_ineq.

Theorem C13_sparse_multiply_solve_id_ineq : forall (d : sdata) (c : scal) (o : ordering) (K : csc F) (st0 st : ldl_i * ldl_v) (r : step8),
  wf_sdata d -> upper_only (sd_P d) = true -> solve_ok d c -> rhs_ok d r ->
  ord_ok (sd_n d + sd_p d) o -> denotes (sd_n d + sd_p d) o K (Kineq (sys_sparse d c)) ->
  kkt_symbolic K = Ok st0 -> kkt_factorize K st0 = Ok (true, st) ->
  exists v, kkt_solve MIneq d c o st r = Ok v /\
    kkt_multiply d c v = Ok (mkstep8 (t_x r) (t_y r) (t_z r) (head (sd_nlb d) (t_zlb r)) (head (sd_nub d) (t_zub r))
                                     (t_s r) (head (sd_nlb d) (t_slb r)) (head (sd_nub d) (t_sub r))).
Proof.
  intros d c o K st0 st r Hwf Hup Hso Hro Ho Hden E0 E1.
  destruct (C13_sparse_solve_exact_ineq d c o K st0 st r Hwf Hso Hro Ho Hden E0 E1) as (v & Ev & Hv & Hn).
  exists v. split; [exact Ev|]. apply multiply_of_newton8; auto.
  destruct Hv as (V1 & V2 & V3 & V4 & V5 & V6 & V7 & V8). unfold rhs_ok. repeat split; auto; lia.
Qed.
Print Assumptions C13_sparse_multiply_solve_id_ineq.

(* on the assembly state in canonical form (ineqF of the assembly theorems; identity ordering) *)
Theorem C13_sparse_solve_exact_ineq_form : forall (d : sdata) (X : csc F) (c : scal) (k : ekkt) (st0 st : ldl_i * ldl_v) (r : step8),
  elim_data_ok d (sd_AT d) -> ineqF d X c k ->
  solve_ok d c -> rhs_ok d r ->
  kkt_symbolic (sv_K (ineq_view d k)) = Ok st0 -> ineq_factorize d k st0 = Ok (true, st) ->
  exists v, ineq_solve d k (mkord (seq 0 (sd_n d + sd_p d)) (ek_pinv k)) st r = Ok v /\ step_ok d v /\ newton8 d c v r /\
    ineq_multiply d k v = Ok (mkstep8 (t_x r) (t_y r) (t_z r) (head (sd_nlb d) (t_zlb r)) (head (sd_nub d) (t_zub r))
                                      (t_s r) (head (sd_nlb d) (t_slb r)) (head (sd_nub d) (t_sub r))).
Proof.
  intros d X c k st0 st r Hok Hf Hso Hro E0 E1.
  pose proof Hok as (Hwf & Hup & _). destruct (ineq_form_denotes d Hok X c k Hf) as (W & U & _ & G).
  pose proof (ineqF_nodup d X c k Hok Hf) as Hnd.
  destruct (ineqF_view d X c k Hf) as (Esc & Epi).
  unfold ineq_solve, ineq_multiply, ineq_factorize, ineq_view in *. cbn [sv_sc sv_K] in *. rewrite Esc, Epi.
  change (mkord (seq 0 (sd_n d + sd_p d)) (seq 0 (sd_n d + sd_p d))) with (id_ord (sd_n d + sd_p d)).
  assert (Hden : denotes (sd_n d + sd_p d) (id_ord (sd_n d + sd_p d)) _ (Kineq (sys_sparse d c))) by (apply (denotes_id _ _ _ W eq_refl eq_refl U Hnd G)).
  destruct (C13_sparse_solve_exact_ineq d c _ _ st0 st r Hwf Hso Hro (id_ord_ok _) Hden E0 E1) as (v & Ev & Hv & Hn).
  exists v. split; [exact Ev|]. split; [exact Hv|]. split; [exact Hn|]. apply multiply_of_newton8; auto.
  destruct Hv as (V1 & V2 & V3 & V4 & V5 & V6 & V7 & V8). unfold rhs_ok. repeat split; auto; lia.
Qed.
Print Assumptions C13_sparse_solve_exact_ineq_form.

(* ===== KKT_ALL_ELIMINATED: solve is exact (any valid ordering) ===== *)
Theorem C13_sparse_solve_exact_all : forall (d : sdata) (c : scal) (o : ordering) (K : csc F) (st0 st : ldl_i * ldl_v) (r : step8),
  wf_sdata d -> solve_ok d c -> sc_delta c <> 0%Qc -> rhs_ok d r ->
  ord_ok (sd_n d) o -> denotes (sd_n d) o K (a_Kred (sys_sparse d c)) ->
  kkt_symbolic K = Ok st0 -> kkt_factorize K st0 = Ok (true, st) ->
  exists v, kkt_solve MAll d c o st r = Ok v /\ step_ok d v /\ newton8 d c v r.
Proof.
  intros d c o K st0 st r Hwf Hso Hd Hro Ho Hden E0 E1.
  apply (all_solve_exact d c o K st r Hwf Hso Hd Hro Ho Hden).
  destruct Hden as (_ & Hr & Hc & _). cbn [mode_N]. rewrite <- Hr. apply (factor_first K st0 st E0 E1). lia.
Qed.
Print Assumptions C13_sparse_solve_exact_all.

Theorem C13_sparse_multiply_solve_id_all : forall (d : sdata) (c : scal) (o : ordering) (K : csc F) (st0 st : ldl_i * ldl_v) (r : step8),
  wf_sdata d -> upper_only (sd_P d) = true -> solve_ok d c -> sc_delta c <> 0%Qc -> rhs_ok d r ->
  ord_ok (sd_n d) o -> denotes (sd_n d) o K (a_Kred (sys_sparse d c)) ->
  kkt_symbolic K = Ok st0 -> kkt_factorize K st0 = Ok (true, st) ->
  exists v, kkt_solve MAll d c o st r = Ok v /\
    kkt_multiply d c v = Ok (mkstep8 (t_x r) (t_y r) (t_z r) (head (sd_nlb d) (t_zlb r)) (head (sd_nub d) (t_zub r))
                                     (t_s r) (head (sd_nlb d) (t_slb r)) (head (sd_nub d) (t_sub r))).
Proof.
  intros d c o K st0 st r Hwf Hup Hso Hd Hro Ho Hden E0 E1.
  destruct (C13_sparse_solve_exact_all d c o K st0 st r Hwf Hso Hd Hro Ho Hden E0 E1) as (v & Ev & Hv & Hn).
  exists v. split; [exact Ev|]. apply multiply_of_newton8; auto.
  destruct Hv as (V1 & V2 & V3 & V4 & V5 & V6 & V7 & V8). unfold rhs_ok. repeat split; auto; lia.
Qed.
Print Assumptions C13_sparse_multiply_solve_id_all.

(* on the assembly state in canonical form (all_form of the assembly theorems; identity ordering) *)
Theorem C13_sparse_solve_exact_all_form : forall (d : sdata) (c : scal) (k : akkt) (st0 st : ldl_i * ldl_v) (r : step8),
  wf_sdata d /\ upper_only (sd_P d) = true -> all_form d c k ->
  solve_ok d c -> sc_delta c <> 0%Qc -> rhs_ok d r ->
  kkt_symbolic (sv_K (all_view d k)) = Ok st0 -> all_factorize d k st0 = Ok (true, st) ->
  exists v, all_solve d k (mkord (seq 0 (sd_n d)) (ak_pinv k)) st r = Ok v /\ step_ok d v /\ newton8 d c v r /\
    all_multiply d k v = Ok (mkstep8 (t_x r) (t_y r) (t_z r) (head (sd_nlb d) (t_zlb r)) (head (sd_nub d) (t_zub r))
                                      (t_s r) (head (sd_nlb d) (t_slb r)) (head (sd_nub d) (t_sub r))).
Proof.
  intros d c k st0 st r Hok Hf Hso Hd Hro E0 E1.
  pose proof (all_form_nodup d c k Hf) as Hnd.
  destruct Hok as (Hwf & Hup). destruct (all_form_denotes d Hwf Hup c k Hf) as (W & U & _ & G).
  destruct (all_form_view d c k Hf) as (Esc & Epi).
  unfold all_solve, all_multiply, all_factorize, all_view in *. cbn [sv_sc sv_K] in *. rewrite Esc, Epi.
  change (mkord (seq 0 (sd_n d)) (seq 0 (sd_n d))) with (id_ord (sd_n d)).
  assert (Hden : denotes (sd_n d) (id_ord (sd_n d)) _ (a_Kred (sys_sparse d c))) by (apply (denotes_id _ _ _ W eq_refl eq_refl U Hnd G)).
  destruct (C13_sparse_solve_exact_all d c _ _ st0 st r Hwf Hso Hd Hro (id_ord_ok _) Hden E0 E1) as (v & Ev & Hv & Hn).
  exists v. split; [exact Ev|]. split; [exact Hv|]. split; [exact Hn|]. apply multiply_of_newton8; auto.
  destruct Hv as (V1 & V2 & V3 & V4 & V5 & V6 & V7 & V8). unfold rhs_ok. repeat split; auto; lia.
Qed.
Print Assumptions C13_sparse_solve_exact_all_form.

(* ===== a later factorisation, started from the state an earlier successful one (or the symbolic phase) left in the LDL object ===== *)
Theorem C13_sparse_refactor : forall (K : csc F) (st0 st : ldl_i * ldl_v),
  wf_csc K = true -> ncols K = nrows K -> upper_only K = true -> nodup_cols K ->
  reusable K st0 -> kkt_factorize K st0 = Ok (true, st) ->
  ldl_solves K st /\ reusable K st.
Proof.
  intros K st0 st W Hsq U Hnd Hre E1. apply (refactor_solves K st0 st W Hsq U Hnd Hre).
  unfold kkt_factorize in E1. destruct (numeric K st0) as [[r0 st']|]; cbn [bind] in E1; [|discriminate].
  inversion E1 as [[Hr Hst]]. apply Nat.eqb_eq in Hr. subst. now rewrite Hsq.
Qed.
Print Assumptions C13_sparse_refactor.

(* the symbolic phase at the end of init establishes it; it depends on K only through size and pattern, which update_scalings /
   update_data never change *)
Theorem C13_sparse_reusable : forall (K K' : csc F) (st0 : ldl_i * ldl_v),
  wf_csc K = true -> ncols K = nrows K -> upper_only K = true -> kkt_symbolic K = Ok st0 ->
  reusable K st0 /\
  (forall st, reusable K st -> nrows K' = nrows K -> colptr K' = colptr K -> rowind K' = rowind K -> reusable K' st).
Proof. intros K K' st0 W Hsq U E. split; [now apply symbolic_reusable|]. intros st Hre E1 E2 E3. now apply (reusable_pattern K K'). Qed.
Print Assumptions C13_sparse_reusable.

Theorem C13_sparse_solve_exact_full_refactor : forall (d : sdata) (c : scal) (o : ordering) (K : csc F) (st0 st : ldl_i * ldl_v) (r : step8),
  solve_ok d c -> rhs_ok d r ->
  ord_ok (sd_n d + sd_p d + sd_m d) o -> denotes (sd_n d + sd_p d + sd_m d) o K (Kfull (sys_sparse d c)) ->
  reusable K st0 -> kkt_factorize K st0 = Ok (true, st) ->
  exists v, kkt_solve MFull d c o st r = Ok v /\ step_ok d v /\ newton8 d c v r /\ reusable K st.
Proof.
  intros d c o K st0 st r Hso Hro Ho Hden Hre E1.
  pose proof Hden as (W & Hr & Hc & U & Hnd & _).
  destruct (C13_sparse_refactor K st0 st W ltac:(lia) U Hnd Hre E1) as (Hs & Hre').
  destruct (full_solve_exact_s d c o K st r Hso Hro Ho Hden Hs) as (v & Ev & Hv & Hn).
  exists v. auto.
Qed.
Print Assumptions C13_sparse_solve_exact_full_refactor.

Theorem C13_sparse_solve_exact_eq_refactor : forall (d : sdata) (c : scal) (o : ordering) (K : csc F) (st0 st : ldl_i * ldl_v) (r : step8),
  wf_sdata d -> solve_ok d c -> sc_delta c <> 0%Qc -> rhs_ok d r ->
  ord_ok (sd_n d + sd_m d) o -> denotes (sd_n d + sd_m d) o K (Keq (sys_sparse d c)) ->
  reusable K st0 -> kkt_factorize K st0 = Ok (true, st) ->
  exists v, kkt_solve MEq d c o st r = Ok v /\ step_ok d v /\ newton8 d c v r /\ reusable K st.
Proof.
  intros d c o K st0 st r Hwf Hso Hd Hro Ho Hden Hre E1.
  pose proof Hden as (W & Hr & Hc & U & Hnd & _).
  destruct (C13_sparse_refactor K st0 st W ltac:(lia) U Hnd Hre E1) as (Hs & Hre').
  destruct (eq_solve_exact_s d c o K st r Hwf Hso Hd Hro Ho Hden Hs) as (v & Ev & Hv & Hn).
  exists v. auto.
Qed.
Print Assumptions C13_sparse_solve_exact_eq_refactor.

Theorem C13_sparse_solve_exact_ineq_refactor : forall (d : sdata) (c : scal) (o : ordering) (K : csc F) (st0 st : ldl_i * ldl_v) (r : step8),
  wf_sdata d -> solve_ok d c -> rhs_ok d r ->
  ord_ok (sd_n d + sd_p d) o -> denotes (sd_n d + sd_p d) o K (Kineq (sys_sparse d c)) ->
  reusable K st0 -> kkt_factorize K st0 = Ok (true, st) ->
  exists v, kkt_solve MIneq d c o st r = Ok v /\ step_ok d v /\ newton8 d c v r /\ reusable K st.
Proof.
  intros d c o K st0 st r Hwf Hso Hro Ho Hden Hre E1.
  pose proof Hden as (W & Hr & Hc & U & Hnd & _).
  destruct (C13_sparse_refactor K st0 st W ltac:(lia) U Hnd Hre E1) as (Hs & Hre').
  destruct (ineq_solve_exact_s d c o K st r Hwf Hso Hro Ho Hden Hs) as (v & Ev & Hv & Hn).
  exists v. auto.
Qed.
Print Assumptions C13_sparse_solve_exact_ineq_refactor.

Theorem C13_sparse_solve_exact_all_refactor : forall (d : sdata) (c : scal) (o : ordering) (K : csc F) (st0 st : ldl_i * ldl_v) (r : step8),
  wf_sdata d -> solve_ok d c -> sc_delta c <> 0%Qc -> rhs_ok d r ->
  ord_ok (sd_n d) o -> denotes (sd_n d) o K (a_Kred (sys_sparse d c)) ->
  reusable K st0 -> kkt_factorize K st0 = Ok (true, st) ->
  exists v, kkt_solve MAll d c o st r = Ok v /\ step_ok d v /\ newton8 d c v r /\ reusable K st.
Proof.
  intros d c o K st0 st r Hwf Hso Hd Hro Ho Hden Hre E1.
  pose proof Hden as (W & Hr & Hc & U & Hnd & _).
  destruct (C13_sparse_refactor K st0 st W ltac:(lia) U Hnd Hre E1) as (Hs & Hre').
  destruct (all_solve_exact_s d c o K st r Hwf Hso Hd Hro Ho Hden Hs) as (v & Ev & Hv & Hn).
  exists v. auto.
Qed.
Print Assumptions C13_sparse_solve_exact_all_refactor.

(* ===== the assembled matrices repeat no row index inside a column (hypothesis of C14_ldl_sparse_correct), from the canonical forms ===== *)
Theorem C13_assembled_nodup :
  (forall (d : sdata) (c : scal) (k : skkt), wf_sdata d -> upper_only (sd_P d) = true ->
     sorted_colsb (sd_P d) = true -> sorted_colsb (sd_AT d) = true -> sorted_colsb (sd_GT d) = true ->
     fresh_form d c k -> nodup_cols (fk_PKPt d k)) /\
  (forall (d : sdata) (X : csc F) (c : scal) (k : ekkt), elim_data_ok d (sd_GT d) -> eqF d X c k -> nodup_cols (sv_K (eq_view d k))) /\
  (forall (d : sdata) (X : csc F) (c : scal) (k : ekkt), elim_data_ok d (sd_AT d) -> ineqF d X c k -> nodup_cols (sv_K (ineq_view d k))) /\
  (forall (d : sdata) (c : scal) (k : akkt), all_form d c k -> nodup_cols (sv_K (all_view d k))) /\
  (forall M : csc F, wf_csc M = true -> sorted_colsb M = true -> nodup_cols M).
Proof.
  split; [exact fresh_form_nodup_sorted|]. split; [exact eqF_nodup|]. split; [exact ineqF_nodup|]. split; [exact all_form_nodup|exact sorted_nodup].
Qed.
Print Assumptions C13_assembled_nodup.

(* ===== non-vacuity: n = 3, p = 1, m = 2, one lower and two upper bounds, non-unit box scalings and scalings ===== *)
Local Open Scope Qc_scope.
Definition exs_q (a : Z) : F := qofZ a.
(* P_utri = [[4, 1, 0], [., 3, -1], [., ., 5]]; A = [1 0 2]; G = [[0 5 0], [1 0 1]]; x1 >= ., x0 <= ., x2 <= . *)
Definition exs_d : sdata :=
  mksdata 3 1 2
    (mkcsc 3 3 [0; 1; 3; 5]%nat [0; 0; 1; 1; 2]%nat [exs_q 4; exs_q 1; exs_q 3; exs_q (-1); exs_q 5])
    (mkcsc 3 1 [0; 2]%nat [0; 2]%nat [exs_q 1; exs_q 2])
    (mkcsc 3 2 [0; 1; 3]%nat [1; 0; 2]%nat [exs_q 5; exs_q 1; exs_q 1])
    1 2 [1; 0; 0]%nat [0; 2; 0]%nat [exs_q 2; exs_q 1; exs_q 1] [qmk 1 2; exs_q 3; exs_q 1].
Definition exs_c : scal := mkscal (exs_q 10) (exs_q 7) [exs_q 3; exs_q 2] [exs_q 2; exs_q 0; exs_q 0] [exs_q 5; exs_q 7; exs_q 0]
                                  [qmk 1 4; qmk 1 5] [qmk 1 3; exs_q 0; exs_q 0] [qmk 1 2; qmk 1 6; exs_q 0].
Definition exs_r : step8 := mkstep8 [exs_q 1; exs_q (-2); exs_q 3] [exs_q 4] [exs_q (-1); exs_q 2] [exs_q 5] [exs_q (-3); exs_q 1]
                                    [exs_q 2; exs_q (-4)] [exs_q 6] [exs_q 1; exs_q (-7)].

Example exs_wf : wf_sdata exs_d /\ upper_only (sd_P exs_d) = true.
Proof. repeat split. Qed.
Example exs_sorted : sorted_colsb (sd_P exs_d) && sorted_colsb (sd_AT exs_d) && sorted_colsb (sd_GT exs_d) = true.
Proof. vm_compute. reflexivity. Qed.
Example exs_solve_ok : solve_ok exs_d exs_c.
Proof.
  unfold solve_ok. cbn [exs_d exs_c sd_n sd_m sd_nlb sd_nub sd_lbidx sd_ubidx sd_lbs sd_ubs sc_s sc_z_inv sc_s_lb sc_z_lb_inv sc_s_ub sc_z_ub_inv sc_delta length].
  repeat match goal with |- _ /\ _ => split end; try lia; try reflexivity;
    intros [|[|k]] Hk; try lia; cbn; repeat split; try lia; try (intro E; discriminate E).
Qed.
Example exs_rhs_ok : rhs_ok exs_d exs_r.
Proof. unfold rhs_ok. cbn. repeat split; lia. Qed.
Example exs_scal_ok : scal_ok exs_d exs_c /\ scal_ok exs_d (unit_scal exs_d (sc_rho exs_c) (sc_delta exs_c)).
Proof.
  split.
  - unfold scal_ok; cbn [exs_d exs_c sd_nlb sd_nub sd_lbidx sd_ubidx sd_lbs sd_ubs sd_n sd_m sc_s sc_z_inv sc_s_lb sc_z_lb_inv sc_s_ub sc_z_ub_inv sc_delta length].
    repeat split; try lia; intros [|[|i]] H; try lia; cbn; try lia; intro E; discriminate E.
  - apply scal_ok_unit; [|discriminate].
    unfold box_ok; cbn [exs_d sd_nlb sd_nub sd_lbidx sd_ubidx sd_lbs sd_ubs sd_n length]. repeat split; try lia; intros [|[|i]] H; cbn; lia.
Qed.
(* the hypotheses of C13_sparse_solve_exact_full_fresh_form hold for the state a new object given these scalings reaches (fresh is a
   function: the k of exs_fresh_form is the k of exs_run; nodup_colsb is the boolean form of nodup_cols, nodup_colsb_ok), its first
   factorisation succeeds, and the run agrees with the theorem: multiply (solve rhs) = rhs (veqb: entrywise equality of fractions) *)
Example exs_fresh_form : exists k, fresh exs_d exs_c = Ok k /\ fresh_form exs_d exs_c k.
Proof. exact (fresh_ok exs_d exs_c (proj1 exs_wf) (proj1 exs_scal_ok) (proj2 exs_scal_ok)). Qed.
Example exs_run :
  match fresh exs_d exs_c with
  | Ok k =>
    nodup_colsb (fk_PKPt exs_d k) &&
    match kkt_symbolic (fk_PKPt exs_d k) with
    | Ok st0 =>
      match full_factorize exs_d k st0 with
      | Ok (true, st) =>
        match full_solve exs_d k (mkord (seq 0 6) (fk_pinv k)) st exs_r with
        | Ok v =>
          (* not degenerate: the first entry of every block of the solution is non-zero *)
          forallb (fun w => negb (qeqb (nth 0 w 0) 0)) [t_x v; t_y v; t_z v; t_zlb v; t_zub v; t_s v; t_slb v; t_sub v] &&
          match full_multiply exs_d k v with
          | Ok w => veqb (t_x w) (t_x exs_r) && veqb (t_y w) (t_y exs_r) && veqb (t_z w) (t_z exs_r) && veqb (t_zlb w) (t_zlb exs_r) &&
                    veqb (t_zub w) (t_zub exs_r) && veqb (t_s w) (t_s exs_r) && veqb (t_slb w) (t_slb exs_r) && veqb (t_sub w) (t_sub exs_r)
          | Err _ => false
          end
        | Err _ => false
        end
      | _ => false
      end
    | Err _ => false
    end
  | Err _ => false
  end = true.
Proof. vm_compute. reflexivity. Qed.

(* the eliminated modes on the same instance: init, update_scalings with the scalings of exs_c (z given un-inverted), first
   factorisation, solve, and multiply (solve rhs) = rhs; the scalings the state then stores are exs_c *)
Definition exs_check (sc : scal) (K : csc F) (pinv : list nat) (md : kmode) : bool :=
  nodup_colsb K &&
  match kkt_symbolic K with
  | Ok st0 =>
    match kkt_factorize K st0 with
    | Ok (true, st) =>
      match kkt_solve md exs_d sc (mkord (seq 0 (mode_N md exs_d)) pinv) st exs_r with
      | Ok v =>
        forallb (fun w => negb (qeqb (nth 0 w 0) 0)) [t_x v; t_y v; t_z v; t_zlb v; t_zub v; t_s v; t_slb v; t_sub v] &&
        match kkt_multiply exs_d sc v with
        | Ok w => veqb (t_x w) (t_x exs_r) && veqb (t_y w) (t_y exs_r) && veqb (t_z w) (t_z exs_r) && veqb (t_zlb w) (t_zlb exs_r) &&
                  veqb (t_zub w) (t_zub exs_r) && veqb (t_s w) (t_s exs_r) && veqb (t_slb w) (t_slb exs_r) && veqb (t_sub w) (t_sub exs_r)
        | Err _ => false
        end
      | Err _ => false
      end
    | _ => false
    end
  | Err _ => false
  end.
Definition exs_scal_eqb (a b : scal) : bool :=
  qeqb (sc_rho a) (sc_rho b) && qeqb (sc_delta a) (sc_delta b) && veqb (sc_s a) (sc_s b) && veqb (sc_z_inv a) (sc_z_inv b) &&
  veqb (sc_s_lb a) (sc_s_lb b) && veqb (sc_z_lb_inv a) (sc_z_lb_inv b) && veqb (sc_s_ub a) (sc_s_ub b) && veqb (sc_z_ub_inv a) (sc_z_ub_inv b).
Example exs_run_eq :
  match eq_init exs_d (exs_q 1) (exs_q 1) None with
  | Ok k0 => match eq_update_scalings exs_d k0 (exs_q 10) (exs_q 7) [exs_q 3; exs_q 2] [exs_q 2] [exs_q 5; exs_q 7] [exs_q 4; exs_q 5] [exs_q 3] [exs_q 2; exs_q 6] with
             | Ok k => exs_scal_eqb (ek_sc k) exs_c && exs_check (ek_sc k) (sv_K (eq_view exs_d k)) (ek_pinv k) MEq
             | Err _ => false end
  | Err _ => false
  end = true.
Proof. vm_compute. reflexivity. Qed.
Example exs_run_ineq :
  match ineq_init exs_d (exs_q 1) (exs_q 1) None with
  | Ok k0 => match ineq_update_scalings exs_d k0 (exs_q 10) (exs_q 7) [exs_q 3; exs_q 2] [exs_q 2] [exs_q 5; exs_q 7] [exs_q 4; exs_q 5] [exs_q 3] [exs_q 2; exs_q 6] with
             | Ok k => exs_scal_eqb (ek_sc k) exs_c && exs_check (ek_sc k) (sv_K (ineq_view exs_d k)) (ek_pinv k) MIneq
             | Err _ => false end
  | Err _ => false
  end = true.
Proof. vm_compute. reflexivity. Qed.
Example exs_run_all :
  match all_init exs_d (exs_q 1) (exs_q 1) None with
  | Ok k0 => match all_update_scalings exs_d k0 (exs_q 10) (exs_q 7) [exs_q 3; exs_q 2] [exs_q 2] [exs_q 5; exs_q 7] [exs_q 4; exs_q 5] [exs_q 3] [exs_q 2; exs_q 6] with
             | Ok k => exs_scal_eqb (ak_sc k) exs_c && exs_check (ak_sc k) (sv_K (all_view exs_d k)) (ak_pinv k) MAll
             | Err _ => false end
  | Err _ => false
  end = true.
Proof. vm_compute. reflexivity. Qed.
(* ... and KKT_FULL under a non-trivial ordering (3, 1, 4, 0, 5, 2) *)
Example exs_run_full_perm :
  match init exs_d (exs_q 1) (exs_q 1) (Some [3; 1; 4; 0; 5; 2]%nat) with
  | Ok k0 => match update_scalings exs_d k0 (exs_q 10) (exs_q 7) [exs_q 3; exs_q 2] [exs_q 2] [exs_q 5; exs_q 7] [exs_q 4; exs_q 5] [exs_q 3] [exs_q 2; exs_q 6] with
             | Ok k =>
               nodup_colsb (fk_PKPt exs_d k) &&
               match kkt_symbolic (fk_PKPt exs_d k) with
               | Ok st0 => match kkt_factorize (fk_PKPt exs_d k) st0 with
                 | Ok (true, st) => match kkt_solve MFull exs_d (scal_of k) (mkord [3; 1; 4; 0; 5; 2]%nat (fk_pinv k)) st exs_r with
                   | Ok v => match kkt_multiply exs_d (scal_of k) v with
                             | Ok w => veqb (t_x w) (t_x exs_r) && veqb (t_y w) (t_y exs_r) && veqb (t_z w) (t_z exs_r) && veqb (t_zlb w) (t_zlb exs_r) &&
                                       veqb (t_zub w) (t_zub exs_r) && veqb (t_s w) (t_s exs_r) && veqb (t_slb w) (t_slb exs_r) && veqb (t_sub w) (t_sub exs_r)
                             | Err _ => false end
                   | Err _ => false end
                 | _ => false end
               | Err _ => false end
             | Err _ => false end
  | Err _ => false
  end = true.
Proof. vm_compute. reflexivity. Qed.
(* re-factorisation: factorise, change the scalings (same pattern), factorise again on the carried LDL object, solve: exact *)
Example exs_run_refactor :
  match init exs_d (exs_q 1) (exs_q 1) None with
  | Ok k0 =>
    match kkt_symbolic (fk_PKPt exs_d k0) with
    | Ok st0 =>
      match kkt_factorize (fk_PKPt exs_d k0) st0 with
      | Ok (true, st1) =>
        match update_scalings exs_d k0 (exs_q 10) (exs_q 7) [exs_q 3; exs_q 2] [exs_q 2] [exs_q 5; exs_q 7] [exs_q 4; exs_q 5] [exs_q 3] [exs_q 2; exs_q 6] with
        | Ok k =>
          match kkt_factorize (fk_PKPt exs_d k) st1 with
          | Ok (true, st2) =>
            match kkt_solve MFull exs_d (scal_of k) (mkord (seq 0 6) (fk_pinv k)) st2 exs_r with
            | Ok v => match kkt_multiply exs_d (scal_of k) v with
                      | Ok w => veqb (t_x w) (t_x exs_r) && veqb (t_y w) (t_y exs_r) && veqb (t_z w) (t_z exs_r) && veqb (t_zlb w) (t_zlb exs_r) &&
                                veqb (t_zub w) (t_zub exs_r) && veqb (t_s w) (t_s exs_r) && veqb (t_slb w) (t_slb exs_r) && veqb (t_sub w) (t_sub exs_r)
                      | Err _ => false end
            | Err _ => false end
          | _ => false end
        | Err _ => false end
      | _ => false end
    | Err _ => false end
  | Err _ => false
  end = true.
Proof. vm_compute. reflexivity. Qed.
