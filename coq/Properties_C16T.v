(** C16, table part (T1): the C API structs, enum and copy functions are a faithful projection of the core
    structs.  All statements are about the tables REGENERATED from /repo (gen/Tables.v); an edited
    piqp_typedef.h / piqp.cpp that breaks the correspondence breaks these proofs on the next run. *)
From Coq Require Import String List ZArith.
From PIQP Require Import TablesDef TablesCheck TablesCheckProofs.
From PIQP.gen Require Import Tables.
Import ListNotations.
Open Scope string_scope.

(** every piqp_result vector pointer is assigned exactly once in piqp_update_result, from the like-named
    core Result vector (via .data()); nothing else is assigned to piqp_result *)
Theorem c16_update_result_vectors :
  WiredDiag (vec_fields (core_result gen_tables)) (c_result_out gen_tables).
Proof. apply chk_c_result_out_sound. vm_compute. reflexivity. Qed.
Print Assumptions c16_update_result_vectors.

(** every piqp_info field is assigned exactly once in piqp_update_result from the like-named core Info field *)
Theorem c16_update_result_info :
  WiredDiag (names (core_info gen_tables)) (c_info_out gen_tables).
Proof. apply chk_c_info_out_sound. vm_compute. reflexivity. Qed.
Print Assumptions c16_update_result_info.

(** piqp_set_default_settings assigns every piqp_settings field exactly once from the like-named field of a
    default-constructed piqp::Settings<piqp_float> *)
Theorem c16_set_default_settings :
  WiredDiag (names (core_settings gen_tables)) (c_settings_out gen_tables).
Proof. apply chk_c_settings_out_sound. vm_compute. reflexivity. Qed.
Print Assumptions c16_set_default_settings.

(** both branches of piqp_update_settings assign every core Settings field exactly once from the like-named
    piqp_settings field *)
Theorem c16_update_settings_dense :
  WiredDiag (names (core_settings gen_tables)) (c_settings_in_dense gen_tables).
Proof. apply chk_c_settings_in_dense_sound. vm_compute. reflexivity. Qed.
Print Assumptions c16_update_settings_dense.

Theorem c16_update_settings_sparse :
  WiredDiag (names (core_settings gen_tables)) (c_settings_in_sparse gen_tables).
Proof. apply chk_c_settings_in_sparse_sound. vm_compute. reflexivity. Qed.
Print Assumptions c16_update_settings_sparse.

(** the C structs declare exactly the core fields, with corresponding types (T->piqp_float, isize/bool->piqp_int,
    Status->piqp_status, Vec<T>->const piqp_float*, Info<T>->piqp_info) *)
Theorem c16_struct_declarations :
  Declared c_types (core_settings gen_tables) (c_settings gen_tables) /\
  Declared c_types (core_info gen_tables) (c_info gen_tables) /\
  Declared c_types (core_result gen_tables) (c_result gen_tables).
Proof.
  split; [|split];
    [apply chk_c_settings_decl_sound | apply chk_c_info_decl_sound | apply chk_c_result_decl_sound]; vm_compute; reflexivity.
Qed.
Print Assumptions c16_struct_declarations.

(** piqp_status has the same enumerators with the same integer values as piqp::Status *)
Theorem c16_status_enum_agrees : SameEnum (core_status gen_tables) (c_status gen_tables).
Proof. apply chk_c_status_sound. vm_compute. reflexivity. Qed.
Print Assumptions c16_status_enum_agrees.

(** T1 in one statement *)
Theorem c16_c_tables_consistent : c_tables_consistent gen_tables = true.
Proof. vm_compute. reflexivity. Qed.
Print Assumptions c16_c_tables_consistent.

(** an assignment never touches a field touched by another assignment *)
Theorem c16_assigned_once :
  forall ws, In ws [c_info_out gen_tables; c_settings_out gen_tables; c_settings_in_dense gen_tables; c_settings_in_sparse gen_tables] ->
  forall w1 w2, In w1 ws -> In w2 ws -> (w_ext w1 = w_ext w2 \/ w_core w1 = w_core w2) -> w1 = w2.
Proof.
  intros ws Hws. simpl in Hws.
  destruct Hws as [<-|[<-|[<-|[<-|[]]]]].
  - exact (WiredDiag_once _ _ c16_update_result_info).
  - exact (WiredDiag_once _ _ c16_set_default_settings).
  - exact (WiredDiag_once _ _ c16_update_settings_dense).
  - exact (WiredDiag_once _ _ c16_update_settings_sparse).
Qed.
Print Assumptions c16_assigned_once.

(** non-vacuity: the tables are populated, and the checker rejects a swapped pair and a doubly-read field *)
Example c16_tables_nonempty :
  In "rho_init" (names (core_settings gen_tables)) /\ In "sigma" (names (core_info gen_tables)) /\
  In "z_lb" (vec_fields (core_result gen_tables)) /\ c_settings_in_dense gen_tables <> [] /\
  length (c_info_out gen_tables) = length (core_info gen_tables).
Proof. vm_compute. repeat split; try discriminate; tauto. Qed.

Example c16_checker_rejects_swap :
  wires_diag ["a"; "b"] [ {| w_ext := "a"; w_core := "b"; w_conv := ""; w_line := 1 |};
                           {| w_ext := "b"; w_core := "a"; w_conv := ""; w_line := 2 |} ] = false /\
  wires_diag ["a"; "b"] [ {| w_ext := "a"; w_core := "a"; w_conv := ""; w_line := 1 |} ] = false /\
  wires_diag ["a"; "b"] [ {| w_ext := "a"; w_core := "a"; w_conv := ""; w_line := 1 |};
                           {| w_ext := "b"; w_core := "b"; w_conv := ""; w_line := 2 |} ] = true.
Proof. vm_compute. auto. Qed.
