(* Data.v -- dense::Data, Settings, Info, Status, and the table of numeric literals used by the algorithm *)
From PIQP Require Import Base.
Local Open Scope Qc_scope.

(* dense::Data<T>.  Matrices column-major.  P_utri : n x n (only the upper triangle is meaningful, the
   lower triangle holds what the code leaves there), AT : n x p, GT : n x m.
   lb_idx/ub_idx, x_lb_n/x_ub hold exactly the packed prefix (length n_lb / n_ub);
   x_lb_scaling/x_ub_scaling have full length n (stale tails are observable through later calls). *)
Record Data := mkData {
  d_n : nat; d_p : nat; d_m : nat;
  d_P : Mat; d_AT : Mat; d_GT : Mat;
  d_c : Vec; d_b : Vec; d_h : Vec;
  d_lb_idx : list nat; d_ub_idx : list nat;
  d_lb_scaling : Vec; d_ub_scaling : Vec;
  d_lb_n : Vec; d_ub : Vec
}.
Definition d_nlb (d : Data) := length (d_lb_idx d).
Definition d_nub (d : Data) := length (d_ub_idx d).

Record Settings := mkSettings {
  rho_init : F; delta_init : F;
  eps_abs : F; eps_rel : F;
  check_duality_gap : bool; eps_duality_gap_abs : F; eps_duality_gap_rel : F;
  reg_lower_limit : F; reg_finetune_lower_limit : F;
  reg_finetune_primal_update_threshold : Z; reg_finetune_dual_update_threshold : Z;
  max_iter : Z; max_factor_retires : Z;
  preconditioner_scale_cost : bool; preconditioner_iter : Z;
  tau : F;
  iterative_refinement_always_enabled : bool;
  iterative_refinement_eps_abs : F; iterative_refinement_eps_rel : F;
  iterative_refinement_max_iter : Z;
  iterative_refinement_min_improvement_rate : F;
  iterative_refinement_static_regularization_eps : F;
  iterative_refinement_static_regularization_rel : F
}.

Inductive Status := SOLVED | MAX_ITER_REACHED | PRIMAL_INFEASIBLE | DUAL_INFEASIBLE | NUMERICS | UNSOLVED | INVALID_SETTINGS.

(* numeric literals of solver.hpp / preconditioner.hpp; instantiated from gen/Consts.v (regenerated from source) *)
Record Consts := mkConsts {
  k_inf : F;              (* PIQP_INF *)
  k_eps : F;              (* numeric_limits<T>::epsilon() *)
  k_snorm : F;            (* 1e-4   : s_norm <= 1e-4 *)
  k_sinit : F;            (* 0.1    : setConstant(0.1) *)
  k_shift : F;            (* 1.5    : Mehrotra shift factor *)
  k_half : F;             (* 0.5    : 0.5 * tmp_prod, 0.5 * x'Px *)
  k_retry_mul : F;        (* 100    : delta *= 100 *)
  k_reglim_mul : F;       (* 10     : 10 * reg_limit *)
  k_prox_big : F;         (* 1e12 *)
  k_prox_small : F;       (* 1e2 *)
  k_improve : F;          (* 0.95 *)
  k_mu_damp : F;          (* 0.666 *)
  k_noineq_good : F;      (* 0.1 *)
  k_noineq_bad : F;       (* 0.5 *)
  k_infeas_cnt : Z;       (* isize(5) *)
  k_ruiz_eps : F;         (* 1e-3 *)
  k_min_scaling : F;      (* 1e-4 *)
  k_max_scaling : F       (* 1e4 *)
}.

Record Info := mkInfo {
  i_status : Status;
  i_iter : Z;
  i_rho : F; i_delta : F; i_mu : F; i_sigma : F;
  i_primal_step : F; i_dual_step : F;
  i_primal_inf : F; i_primal_rel_inf : F; i_dual_inf : F; i_dual_rel_inf : F;
  i_primal_obj : F; i_dual_obj : F; i_duality_gap : F; i_duality_gap_rel : F;
  i_factor_retires : Z; i_reg_limit : F;
  i_no_primal_update : Z; i_no_dual_update : Z
}.
