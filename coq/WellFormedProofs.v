(* WellFormedProofs.v -- C08 end to end: the OUTPUT record of the model's API.solve is well-formed.
   Combines InteriorProofs (slacks / multipliers of every returned iterate are > 0), BoundsProofs (restore_box_dual
   scatters the packed box vectors back, absent bounds get exactly 0 / +inf), PrecondProofs (the stored scalings are
   positive and carry their inverses) and LLTProofs (shape of the triangular solves).  Stdlib only, no axioms.
     1  lengths through mat_vec, scatter_with, the LLT solves and iterative refinement: kkt_solve_xy, unr_xy
     2  XYInv (lengths of x, y, zeta, lambda, of the stored residuals) is an invariant: loop_pass_xy (a second symbolic
        walk through loop_pass), main_loop_xy, initial_point_xy, init_factor_fact
     3  Restored / restore_padded / restore_fill_indep; unscale_*_length, unscale_keeps_positive
     4  unscale_and_restore_spec (never Err, independent of junk, exact description of all 13 output vectors)
     5  solve_decomp (solve = solve_core ;; solve_finish), ConstsOK, SolverWF, OutShape, init_gave_up, solve_core_spec
     6  solve_finish_total, solve_outputs_wellformed, solve_early_numerics_exit, solve_outputs_elementary
     7  setup_gives_wellformed, setup_lb_pattern, setup_ub_pattern
     8  instance: n = 3, bound pattern (lower, free, upper) *)
From Coq Require Import Lqa Lia.
From PIQP Require Import Base Data Bounds PrecondDense KKTDense IPM API.
From PIQP Require LinAlg LLTProofs.
From PIQP Require Import BoundsProofs PrecondProofs InteriorProofs.
From RecordUpdate Require Import RecordSet.
Import RecordSetNotations.
Local Open Scope Qc_scope.

(* ================================================================================================ *)
(** * 1. Lengths of x and y through the linear algebra *)

Lemma mat_vec_length r M x : Forall (fun c : Vec => length c = r) M -> length (mat_vec r M x) = r.
Proof.
  intros HM. unfold mat_vec.
  assert (G : forall l acc, (forall cx, In cx l -> length (fst cx) = r) -> length acc = r ->
              length (fold_left (fun (acc : Vec) (cx : Vec * F) => vadd acc (vscale (snd cx) (fst cx))) l acc) = r).
  { induction l as [|cx l IH]; intros acc Hl Ha; cbn [fold_left]; [exact Ha|].
    apply IH; [intros c Hc; apply Hl; right; exact Hc|].
    unfold vadd. rewrite vmap2_length, vscale_length. pose proof (Hl cx (or_introl eq_refl)). unfold Vec, F in *. lia. }
  apply G; [|apply vconst_length].
  intros [c xi] Hin. cbn [fst]. rewrite Forall_forall in HM. apply HM. exact (in_combine_l _ _ _ _ Hin).
Qed.

Lemma Psym_mul_length d x : wf_data d -> length (Psym_mul d x) = d_n d.
Proof.
  intros W. unfold Psym_mul, vadd. rewrite vmap2_length, map_length, seq_length.
  rewrite mat_vec_length by apply (wfd_P d W). apply Nat.min_id.
Qed.

Lemma upd_length {A} (v : list A) i a r : upd v i a = Ok r -> length r = length v.
Proof.
  revert i r. induction v as [|b v IH]; intros [|i] r; cbn; try discriminate.
  - intros [= <-]. reflexivity.
  - destruct (upd v i a) eqn:E; cbn; [|discriminate]. intros [= <-]. cbn. f_equal. eapply IH; eauto.
Qed.
Lemma scatter_with_length {A B} (f : A -> B -> A) idx : forall v w r,
  scatter_with f v idx w = Ok r -> length r = length v.
Proof.
  induction idx as [|i idx IH]; intros v w r; cbn.
  - intros [= <-]. reflexivity.
  - destruct w as [|b w]; [discriminate|].
    destruct (get v i); cbn; [|discriminate]. destruct (upd v i (f a b)) eqn:E; cbn; [|discriminate].
    intros H. rewrite (IH _ _ _ H). eapply upd_length; eauto.
Qed.

Lemma lower_rows_wf n g : LLTProofs.wf_lower (lower_rows n g).
Proof.
  intros i Hi. unfold lower_rows in *. rewrite map_length, seq_length in Hi.
  rewrite (nth_indep _ [] (map (fun j => g i j) (seq 0 (Datatypes.S i)))) by (rewrite map_length, seq_length; exact Hi).
  rewrite (map_nth (fun i => map (fun j => g i j) (seq 0 (Datatypes.S i))) (seq 0 n) i i) at 1.
  rewrite seq_nth by exact Hi. cbn [Nat.add]. now rewrite map_length, seq_length.
Qed.
Lemma lower_rows_length n g : length (lower_rows n g) = n.
Proof. unfold lower_rows. now rewrite map_length, seq_length. Qed.

(* shape of a factor: what a successful llt_compute on n well-formed rows leaves *)
Definition FactShape (n : nat) (k : KKT) : Prop :=
  length (k_mat k) = n /\
  exists f, k_fact k = Some f /\ length (f_L f) = n /\ length (f_D f) = n /\ LLTProofs.wf_L (f_L f).
Definition KMatShape (n : nat) (k : KKT) : Prop := length (k_mat k) = n /\ LLTProofs.wf_lower (k_mat k).

Lemma llt_solve_length f b n x :
  length (f_L f) = n -> length (f_D f) = n -> LLTProofs.wf_L (f_L f) -> length b = n ->
  llt_solve f b = Ok x -> length x = n.
Proof.
  intros HL HD Hwf Hb H. unfold llt_solve in H.
  destruct (LLTProofs.fwd_spec (f_L f) b Hwf ltac:(congruence) _ 0%nat [] eq_refl eq_refl ltac:(lia)) as [Hy _].
  { intros i Hi. lia. }
  cbn [skipn] in Hy. set (y := fwd (f_L f) b []) in *.
  destruct (vdiv y (f_D f)) as [y'|] eqn:E; cbn [bind] in H; [|discriminate]. injection H as <-.
  assert (Ly' : length y' = n).
  { unfold vdiv in E. apply mapM_length in E. rewrite combine_length in E. unfold Vec, F in *. lia. }
  destruct (LLTProofs.bwd_spec (f_L f) Hwf y' ltac:(unfold Vec, F in *; lia)) as [Hx _].
  unfold Vec, F in *. lia.
Qed.

Lemma solve_ldlt_length n k b x : FactShape n k -> length b = n -> solve_ldlt k b = Ok x -> length x = n.
Proof.
  intros (_ & f & Ef & HL & HD & Hwf) Hb H. unfold solve_ldlt in H. rewrite Ef in H.
  eapply llt_solve_length; eauto.
Qed.

Lemma lower_sym_mul_length rows x : length (lower_sym_mul rows x) = length rows.
Proof. unfold lower_sym_mul. now rewrite map_length, seq_length. Qed.

Lemma refine_loop_length S n k rhs rn : FactShape n k -> length rhs = n ->
  forall fuel sol err en r, length sol = n -> length err = n ->
  refine_loop S fuel k rhs rn sol err en = Ok r -> length r = n.
Proof.
  intros HF Hrhs. induction fuel as [|fuel IH]; intros sol err en r Hs He H; cbn [refine_loop] in H.
  - injection H as <-. exact Hs.
  - match type of H with (if ?c then _ else _) = _ => destruct c end; [injection H as <-; exact Hs|].
    destruct (solve_ldlt k err) as [corr|] eqn:Ec; cbn [bind] in H; [|discriminate].
    pose proof (solve_ldlt_length n k err corr HF He Ec) as Lc.
    assert (Lref : length (vadd sol corr) = n) by (unfold vadd; rewrite vmap2_length; unfold Vec, F in *; lia).
    assert (Lerr : length (vsub rhs (lower_sym_mul (k_mat k) (vadd sol corr))) = n).
    { unfold vsub. rewrite vmap2_length, lower_sym_mul_length. destruct HF as [HM _]. unfold Vec, F in *. lia. }
    cbv zeta in H.
    match type of H with (if ?c then _ else _) = _ => destruct c end; [exact (IH _ _ _ _ Lref Lerr H)|].
    match type of H with bind ?e _ = _ => destruct e as [rate|]; cbn [bind] in H; [|discriminate] end.
    match type of H with (if ?c then _ else _) = _ => destruct c end.
    + destruct (qltb 1 rate); injection H as <-; assumption.
    + exact (IH _ _ _ _ Lref Lerr H).
Qed.

(* x and y of a KKT step *)
Lemma kkt_solve_xy S d k refine rx ry rz rzlb rzub rs rslb rsub stp :
  kkt_solve S d k refine rx ry rz rzlb rzub rs rslb rsub = Ok stp ->
  wf_data d -> FactShape (d_n d) k -> length rx = d_n d -> length ry = d_p d ->
  length (st_x stp) = d_n d /\ length (st_y stp) = d_p d.
Proof.
  intros H W HF Lrx Lry. unfold kkt_solve in H. repeat bind_step H. injection H as <-. cbn [st_x st_y].
  destruct (wfd_AT d W) as [LA CA]. destruct (wfd_GT d W) as [LG CG].
  assert (Lrhs : length a4 = d_n d).
  { rewrite (scatter_with_length _ _ _ _ _ E4), (scatter_with_length _ _ _ _ _ E3).
    change (@length Qc) with (@length F). unfold vadd. rewrite !vmap2_length, vscale_length, !mat_vec_length by assumption. unfold Vec, F in *. lia. }
  pose proof (solve_ldlt_length _ _ _ _ HF Lrhs E5) as Lsol0.
  assert (Lsol : length a6 = d_n d).
  { destruct (refine && (0 <? iterative_refinement_max_iter S)%Z).
    - assert (Le : length (vsub a4 (lower_sym_mul (k_mat k) a5)) = d_n d).
      { unfold vsub. rewrite vmap2_length, lower_sym_mul_length. destruct HF as [HM _]. unfold Vec, F in *. lia. }
      exact (refine_loop_length S (d_n d) k a4 (norm_inf a4) HF Lrhs _ a5 _ _ a6 Lsol0 Le E6).
    - injection E6 as <-. exact Lsol0. }
  split; [exact Lsol|].
  unfold vsub. rewrite vmap2_length, !vscale_length, matT_vec_length. unfold Vec, F in *. lia.
Qed.

Lemma unr_xy d pc K it inf r inf' :
  update_nr_residuals d pc K it inf = Ok (r, inf') -> wf_data d ->
  length (rx_nr r) = d_n d /\ length (ry_nr r) = d_p d.
Proof.
  unfold update_nr_residuals. intros H W. repeat bind_step H. injection H as <- <-. cbn [rx_nr ry_nr].
  destruct (wfd_AT d W) as [LA CA]. destruct (wfd_GT d W) as [LG CG].
  split.
  - pose proof (scatter_with_length _ _ _ _ _ E0) as L0. pose proof (scatter_with_length _ _ _ _ _ E) as L1.
    assert (Lt : length (vadd (mat_vec (d_n d) (d_AT d) (y it)) (mat_vec (d_n d) (d_GT d) (z it))) = d_n d).
    { unfold vadd. rewrite vmap2_length, !mat_vec_length by assumption. apply Nat.min_id. }
    pose proof (Psym_mul_length d (x it) W) as LP. pose proof (wfd_c d W) as Lc.
    unfold vsub. rewrite !vmap2_length, vneg_length. unfold Vec, F in *. lia.
  - unfold vadd. rewrite vmap2_length, vneg_length, matT_vec_length.
    pose proof (wfd_b d W). unfold Vec, F in *. lia.
Qed.

(* ================================================================================================ *)
(** * 2. The lengths of x, y, zeta, lambda are invariants of solve() *)

Definition XYShape (d : Data) (it : Iterate) : Prop :=
  length (x it) = d_n d /\ length (y it) = d_p d /\ length (zeta it) = d_n d /\ length (lambda it) = d_p d.
Definition XYInv (d : Data) (st : St) : Prop :=
  XYShape d (st_it st) /\
  (i_iter (st_inf st) = 0%Z \/ (length (rx_nr (st_res st)) = d_n d /\ length (ry_nr (st_res st)) = d_p d)).

Lemma update_kkt_mat d k k' : update_kkt d k = Ok k' -> KMatShape (d_n d) k'.
Proof.
  unfold update_kkt. intros H. repeat bind_step H. injection H as <-. cbn.
  split; [apply lower_rows_length|apply lower_rows_wf].
Qed.

Lemma do_update_scalings_mat d st st' : do_update_scalings d st = Ok st' -> KMatShape (d_n d) (st_kkt st').
Proof.
  unfold do_update_scalings. intros H. bind_step H. injection H as <-. cbn.
  unfold kkt_update_scalings in E. repeat bind_step E. eapply update_kkt_mat; eauto.
Qed.

Lemma nth_map_index {A B} (h : nat * A -> B) (l : list A) : forall s i da db, (i < length l)%nat ->
  nth i (map h (combine (seq s (length l)) l)) db = h ((s + i)%nat, nth i l da).
Proof.
  induction l as [|a l IH]; intros s i da db Hi; cbn in Hi; [lia|].
  cbn [length seq combine map]. destruct i as [|i]; cbn [nth].
  - rewrite Nat.add_0_r. reflexivity.
  - rewrite (IH (S s) i da db) by lia. f_equal. f_equal. lia.
Qed.

Lemma indexed_map_wf (G : nat * Vec -> Vec) (rows : list Vec) :
  (forall ir, length (G ir) = length (snd ir)) -> LLTProofs.wf_lower rows ->
  LLTProofs.wf_lower (map G (combine (seq 0 (length rows)) rows)) /\
  length (map G (combine (seq 0 (length rows)) rows)) = length rows.
Proof.
  intros HG Hwf.
  assert (HL : length (combine (seq 0 (length rows)) rows) = length rows)
    by (rewrite combine_length, seq_length; apply Nat.min_id).
  split; [|rewrite map_length; exact HL].
  intros i Hi. rewrite map_length, HL in Hi.
  rewrite (nth_map_index G rows 0 i [] []) by exact Hi. rewrite HG. cbn [snd]. exact (Hwf i Hi).
Qed.

Lemma regularize_and_factorize_fact S d k refine flt k' n :
  regularize_and_factorize S d k refine flt = Ok (k', true) -> KMatShape n k -> FactShape n k'.
Proof.
  unfold regularize_and_factorize. intros H [HL Hwf]. destruct flt; [discriminate|].
  match type of H with bind (llt_compute (map ?G ?c)) _ = _ =>
    destruct (llt_compute (map G c)) as [o|] eqn:E; cbn [bind] in H; [|discriminate];
    destruct (indexed_map_wf G (k_mat k)) as [Hw' HL'];
      [intros ir; rewrite map_length, combine_length, seq_length; apply Nat.min_id | exact Hwf |] end.
  destruct o as [f|]; [|discriminate]. inversion H; subst k'; clear H.
  destruct (LLTProofs.llt_compute_factorisation _ f Hw' E) as (A1 & A2 & A3 & _).
  split; [cbn; exact HL|]. exists f. cbn. rewrite HL', HL in *. auto.
Qed.

Lemma regularize_and_factorize_mat S d k refine flt k' ok n :
  regularize_and_factorize S d k refine flt = Ok (k', ok) -> KMatShape n k -> KMatShape n k'.
Proof.
  unfold regularize_and_factorize. intros H HK. destruct flt.
  - injection H as <- <-. exact HK.
  - bind_step H. match type of H with match ?o with _ => _ end = _ => destruct o end; injection H as <- <-; exact HK.
Qed.

Lemma do_factorize_fact S d fault st st' n :
  do_factorize S d fault st = Ok (st', true) -> KMatShape n (st_kkt st) -> FactShape n (st_kkt st').
Proof.
  unfold do_factorize. intros H HK. bind_step H. destr_pairs. injection H as <- ->. cbn.
  eapply regularize_and_factorize_fact; eauto.
Qed.
Lemma do_factorize_mat S d fault st st' ok n :
  do_factorize S d fault st = Ok (st', ok) -> KMatShape n (st_kkt st) -> KMatShape n (st_kkt st').
Proof.
  unfold do_factorize. intros H HK. bind_step H. destr_pairs. injection H as <- <-. cbn.
  eapply regularize_and_factorize_mat; eauto.
Qed.

Lemma XY_leaf d (X : St) it res :
  st_it X = it -> st_res X = res -> XYShape d it -> length (rx_nr res) = d_n d /\ length (ry_nr res) = d_p d ->
  XYInv d X.
Proof. intros <- <- H1 H2. split; [exact H1|right; exact H2]. Qed.

Section XYLoop.
Variable K : Consts.
Variable S : Settings.
Variable d : Data.
Variable pc : Precond.
Variable fault : nat -> bool.
Variable cp : F -> F.
Hypothesis W : wf_data d.

Lemma loop_pass_xy st : XYInv d st ->
  wp (loop_pass K S d pc fault cp st) (fun o => XYInv d (outcome_state o)).
Proof.
  intros [(X1 & X2 & X3 & X4) HR]. cbv delta [loop_pass]. cbv beta.
  wp_let inf0.
  wp_bind_as v0 E0. wp_pair v0 res0 inf0a.
  assert (R0 : length (rx_nr res0) = d_n d /\ length (ry_nr res0) = d_p d).
  { subst inf0. destruct (i_iter (st_inf st) =? 0)%Z eqn:Ei.
    - eapply unr_xy; eauto.
    - injection E0 as <- <-. destruct HR as [HR|HR]; [apply Z.eqb_neq in Ei; contradiction|exact HR]. }
  clear E0 HR. destruct R0 as [R1 R2].
  wp_let inf1. clearbody inf1.
  wp_let st1.
  assert (S1it : st_it st1 = st_it st) by reflexivity.
  assert (S1res : st_res st1 = res0) by reflexivity.
  clearbody st1.
  assert (XS : XYShape d (st_it st)) by (repeat split; assumption).
  wp_if C1. { wp_ret. apply (XY_leaf d _ (st_it st) res0); auto. }
  wp_let it. assert (Eit : it = st_it st) by exact S1it. clearbody it. subst it.
  wp_let rx. assert (Lrx : length rx = d_n d) by (subst rx; len_solve).
  clearbody rx.
  wp_let ry. assert (Lry : length ry = d_p d) by (subst ry; len_solve).
  clearbody ry.
  wp_let rz. clearbody rz. wp_let rz_lb. clearbody rz_lb. wp_let rz_ub. clearbody rz_ub.
  wp_if C2. { wp_ret. apply (XY_leaf d _ (st_it st) res0); auto. }
  wp_if C3. { wp_ret. apply (XY_leaf d _ (st_it st) res0); auto. }
  clear C1 C2 C3.
  wp_let inf2. clearbody inf2.
  wp_let lt_eps'. wp_let sh_z. wp_let sh_lb. wp_let sh_ub.
  wp_let it3.
  assert (X3s : XYShape d it3) by exact XS.
  assert (E3x : x it3 = x (st_it st) /\ y it3 = y (st_it st)) by (split; reflexivity).
  clearbody it3. clearbody sh_z sh_lb sh_ub. clear lt_eps'. destruct X3s as (Y1 & Y2 & Y3 & Y4).
  wp_bind_as inf3 E3. clear E3.
  wp_let inf4. clearbody inf4.
  wp_bind_as st4 E4.
  pose proof (do_update_scalings_mat _ _ _ E4) as M4.
  apply do_update_scalings_keeps in E4. destruct E4 as (S4it & _ & S4res & _).
  change (st_it (st1 <| st_it := it3 |> <| st_inf := inf4 |>)) with it3 in S4it.
  change (st_res (st1 <| st_it := it3 |> <| st_inf := inf4 |>)) with (st_res st1) in S4res.
  rewrite S1res in S4res.
  wp_bind_as v5 E5. wp_pair v5 st5 ok.
  assert (F5 : ok = true -> FactShape (d_n d) (st_kkt st5)).
  { intros ->. eapply do_factorize_fact; eauto. }
  apply do_factorize_keeps in E5. destruct E5 as (S5it & _ & S5res & _).
  rewrite S4it in S5it. rewrite S4res in S5res. clear S4it S4res M4 st4.
  assert (X3s : XYShape d it3) by (repeat split; assumption).
  wp_if Cok.
  { wp_if Cref. { wp_ret. apply (XY_leaf d _ it3 res0); auto. }
    wp_if Cret. { wp_let inf5. wp_ret. apply (XY_leaf d _ it3 res0); auto. }
    wp_ret. apply (XY_leaf d _ it3 res0); auto. }
  assert (F5' : FactShape (d_n d) (st_kkt st5)) by (apply F5; destruct ok; [reflexivity|discriminate]).
  clear F5 Cok.
  wp_let inf6. clearbody inf6.
  wp_let kk. assert (Fkk : FactShape (d_n d) kk) by exact F5'. clearbody kk.
  wp_if CN.
  - wp_let rs. wp_let rs_lb. wp_let rs_ub. clearbody rs rs_lb rs_ub.
    wp_bind_as p Ep. clear Ep.
    wp_bind_as v1 Esl1. wp_pair v1 a_s0 a_z0. clear Esl1.
    wp_let a_s. wp_let a_z. wp_let sig0. clearbody sig0. clearbody a_s a_z.
    wp_bind_as sig1 Esig. clear Esig.
    wp_let sg2. wp_let sigma. wp_let sm. clearbody sm. clearbody sigma. clearbody sg2.
    wp_let rs'. wp_let rs_lb'. wp_let rs_ub'. clearbody rs' rs_lb' rs_ub'.
    wp_bind_as c Ec.
    destruct (kkt_solve_xy _ _ _ _ _ _ _ _ _ _ _ _ _ Ec W Fkk Lrx Lry) as [Cx Cy]. clear Ec.
    wp_bind_as v2 Esl2. wp_pair v2 b_s0 b_z0. clear Esl2.
    wp_let ps. wp_let ds_. clearbody ps ds_.
    wp_let it4.
    assert (X4s : XYShape d it4).
    { subst it4. unfold XYShape, cp_iterate. cbn. repeat split; auto; len_solve. }
    clearbody it4.
    wp_let mu_prev. wp_bind_as mu Emu. clear Emu. wp_bind_as rate0 Erate. clear Erate.
    wp_let mu_rate. clearbody mu_rate. wp_let inf7. clearbody inf7.
    wp_bind_as v3 Eunr. wp_pair v3 res1 inf8.
    pose proof (unr_xy _ _ _ _ _ _ _ Eunr W) as R1'. clear Eunr.
    wp_let good_d. clearbody good_d.
    wp_let it5.
    assert (X5s : XYShape d it5).
    { subst it5. destruct X4s as (Z1 & Z2 & Z3 & Z4). destruct good_d; unfold XYShape; cbn; auto. }
    clearbody it5.
    wp_let inf9. clearbody inf9. wp_let good_p. clearbody good_p.
    wp_let it6.
    assert (X6s : XYShape d it6).
    { subst it6. destruct X5s as (Z1 & Z2 & Z3 & Z4). destruct good_p; unfold XYShape; cbn; auto. }
    clearbody it6.
    wp_let inf10. clearbody inf10.
    wp_ret. apply (XY_leaf d _ it6 res1); auto.
  - wp_bind_as c Ec.
    destruct (kkt_solve_xy _ _ _ _ _ _ _ _ _ _ _ _ _ Ec W Fkk Lrx Lry) as [Cx Cy]. clear Ec.
    wp_let it4.
    assert (X4s : XYShape d it4).
    { subst it4. unfold XYShape, cp_iterate. cbn. repeat split; auto; len_solve. }
    clearbody it4.
    wp_let inf7. clearbody inf7.
    wp_bind_as v3 Eunr. wp_pair v3 res1 inf8.
    pose proof (unr_xy _ _ _ _ _ _ _ Eunr W) as R1'. clear Eunr.
    wp_let good_d. clearbody good_d.
    wp_let it5.
    assert (X5s : XYShape d it5).
    { subst it5. destruct X4s as (Z1 & Z2 & Z3 & Z4). destruct good_d; unfold XYShape; cbn; auto. }
    clearbody it5.
    wp_let inf9. clearbody inf9. wp_let good_p. clearbody good_p.
    wp_let it6.
    assert (X6s : XYShape d it6).
    { subst it6. destruct X5s as (Z1 & Z2 & Z3 & Z4). destruct good_p; unfold XYShape; cbn; auto. }
    clearbody it6.
    wp_let inf10. clearbody inf10.
    wp_ret. apply (XY_leaf d _ it6 res1); auto.
Qed.

Lemma main_loop_xy fuel : forall st st',
  XYInv d st -> main_loop K S d pc fault cp fuel st = Ok st' -> XYShape d (st_it st').
Proof.
  induction fuel as [|f IH]; intros st st' HX E; cbn [main_loop] in E; [discriminate|].
  destruct (i_iter (st_inf st) <? max_iter S)%Z.
  - destruct (loop_pass K S d pc fault cp st) as [o|] eqn:E0; cbn [bind] in E; [|discriminate].
    pose proof (wp_elim _ _ _ (loop_pass_xy st HX) E0) as HX'. cbv beta in HX'.
    destruct o as [st1|st1]; cbn [outcome_state] in HX'.
    + eapply IH; eauto.
    + injection E as <-. apply HX'.
  - injection E as <-. cbn. apply HX.
Qed.
End XYLoop.

Lemma initial_point_xy K S d cp st st' :
  wf_data d -> FactShape (d_n d) (st_kkt st) -> i_iter (st_inf st) = 0%Z ->
  initial_point K S d cp st = Ok st' -> XYInv d st'.
Proof.
  intros W HF Hit H. revert H. cbv delta [initial_point]. cbv beta. intros H.
  apply (wp_elim _ (fun st' => XYInv d st') _) in H; [exact H|]. clear H st'.
  wp_let kk. subst kk.
  wp_bind_as stp Es.
  destruct (kkt_solve_xy _ _ _ _ _ _ _ _ _ _ _ _ _ Es W HF) as [Cx Cy].
  { rewrite vneg_length. apply (wfd_c d W). } { apply (wfd_b d W). }
  clear Es.
  wp_let it0.
  assert (E0 : length (x it0) = d_n d /\ length (y it0) = d_p d).
  { subst it0. unfold cp_iterate. cbn. rewrite !map_length. auto. }
  clearbody it0.
  wp_bind_as v1 E1. wp_pair v1 it1 inf1.
  assert (E1' : x it1 = x it0 /\ y it1 = y it0 /\ i_iter inf1 = i_iter (st_inf st)).
  { destruct (0 <? nineq d).
    - cbv zeta in E1. repeat bind_step E1. injection E1 as <- <-. cbn.
      match goal with |- context [if ?c then _ else _] => destruct c end; cbn; auto.
    - injection E1 as <- <-. auto. }
  clear E1. destruct E1' as (Ex & Ey & Ei). destruct E0 as [L1 L2]. rewrite <- Ex in L1. rewrite <- Ey in L2.
  wp_let it2. wp_ret.
  split.
  - subst it2. unfold XYShape. cbn. auto.
  - left. cbn. congruence.
Qed.

Lemma init_factor_fact K S d fault fuel : forall st st',
  init_factor K S d fault fuel st = Ok (st', true) -> KMatShape (d_n d) (st_kkt st) -> FactShape (d_n d) (st_kkt st').
Proof.
  induction fuel as [|f IH]; intros st st' H HK; cbn [init_factor] in H; [discriminate|].
  destruct (do_factorize S d fault st) as [[st1 ok1]|] eqn:E; cbn [bind] in H; [|discriminate].
  destruct ok1.
  - injection H as <-. eapply do_factorize_fact; eauto.
  - pose proof (do_factorize_mat _ _ _ _ _ _ _ E HK) as HK1.
    destruct (negb (st_refine st1)).
    + apply IH in H; auto.
    + destruct (i_factor_retires (st_inf st1) <? max_factor_retires S)%Z; [|discriminate].
      destruct (do_update_scalings d (st1 <| st_inf := bump_reg K S (st_inf st1) |>)) as [st2|] eqn:E2;
        cbn [bind] in H; [|discriminate].
      apply IH in H; auto. eapply do_update_scalings_mat; eauto.
Qed.

(* ================================================================================================ *)
(** * 3. Unscaling keeps signs; restore_box_dual puts the packed values back *)

Lemma incr_from_lower l : forall lo n, incr_from lo n l -> forall y, In y l -> (lo <= y)%nat.
Proof.
  induction l as [|a t IH]; intros lo n H y Hy; [inversion Hy|].
  destruct H as (H1 & H2 & H3). destruct Hy as [<-|Hy]; [exact H1|].
  specialize (IH _ _ H3 y Hy). lia.
Qed.
Lemma incr_from_strict l : forall lo n, incr_from lo n l -> strict_inc l.
Proof.
  induction l as [|a t IH]; intros lo n H; [apply strict_inc_nil|].
  destruct H as (H1 & H2 & H3). apply strict_inc_cons; [|eapply IH; eauto].
  intros y Hy. pose proof (incr_from_lower _ _ _ H3 y Hy). lia.
Qed.
Lemma incr_from_lt l lo n : incr_from lo n l -> forall j, (j < length l)%nat -> (nth j l 0%nat < n)%nat.
Proof.
  intros H j Hj. pose proof (incr_from_Forall _ _ _ H) as HF. rewrite Forall_forall in HF.
  apply HF. apply nth_In. exact Hj.
Qed.

(* what restore_one guarantees, as a predicate on the result *)
Definition Restored {A} (dflt : A) (n : nat) (idx : list nat) (packed r : list A) : Prop :=
  length r = n /\
  (forall j, (j < length idx)%nat -> nth_error r (nth j idx 0%nat) = nth_error packed j) /\
  (forall k, (k < n)%nat -> ~ In k idx -> nth_error r k = Some dflt).

Lemma restore_padded {A} (dflt fill : A) n idx (v : list A) :
  strict_inc idx -> (forall j, (j < length idx)%nat -> (nth j idx 0%nat < n)%nat) ->
  length v = length idx ->
  exists r, restore_one dflt n (v ++ repeat fill (n - length v)) idx = Ok r /\ Restored dflt n idx v r.
Proof.
  intros Hinc Hb Hl.
  pose proof (strict_inc_length_le _ _ Hinc Hb) as Hk.
  destruct (restore_one_ok dflt n (v ++ repeat fill (n - length v)) idx Hinc Hb) as (r & E & L & R1 & R2).
  { rewrite app_length, repeat_length. lia. }
  exists r. split; [exact E|]. split; [exact L|]. split; [|exact R2].
  intros j Hj. rewrite (R1 j Hj). apply nth_error_app1. lia.
Qed.

(* the result does not depend on the fill value *)
Lemma restore_fill_indep {A} (dflt f1 f2 : A) n idx (v : list A) :
  length v = length idx ->
  restore_one dflt n (v ++ repeat f1 (n - length v)) idx = restore_one dflt n (v ++ repeat f2 (n - length v)) idx.
Proof.
  intros Hl. unfold restore_one. rewrite !app_length, !repeat_length.
  rewrite <- Hl. rewrite !firstn_app, !Nat.sub_diag, !firstn_all. cbn [firstn]. reflexivity.
Qed.

Section Unscale.
Variable d : Data.
Variable pc : Precond.
Hypothesis W : wf_data d.
Hypothesis WP : wf_pc pc d.
Hypothesis PI : pc_inverse pc.
Hypothesis Elb : pc_nlb pc = d_nlb d.
Hypothesis Eub : pc_nub pc = d_nub d.

Let En : pc_n pc = d_n d. Proof. apply WP. Qed.
Let Ep : pc_p pc = d_p d. Proof. apply WP. Qed.
Let Em : pc_m pc = d_m d. Proof. apply WP. Qed.
Let WL : wf_pc_len pc. Proof. apply WP. Qed.

Lemma pos_of_inverse (a b : Qc) : a * b = 1 -> 0 < a -> 0 < b.
Proof. intros H Ha. assert (0 < a * b) by (rewrite H; qlra). qnra. Qed.

Lemma c_inv_pos : 0 < pc_c_inv pc.
Proof. exact (pos_of_inverse _ _ (pi_c pc PI) (pi_c_pos pc PI)). Qed.

Lemma unscale_primal_length v : length v = d_n d -> length (unscale_primal pc v) = d_n d.
Proof.
  intros L. unfold unscale_primal, dx_, vmul, head. rewrite vmap2_length, firstn_length, (wfp_d pc WL), L, En.
  lia.
Qed.
Lemma unscale_dual_eq_length v : length v = d_p d -> length (unscale_dual_eq pc v) = d_p d.
Proof.
  intros L. unfold unscale_dual_eq, dy_, vmul, segment. rewrite vmap2_length, vscale_length, firstn_length, skipn_length.
  rewrite (wfp_d pc WL), L, En, Ep. lia.
Qed.
Lemma unscale_dual_ineq_length v : length v = d_m d -> length (unscale_dual_ineq pc v) = d_m d.
Proof.
  intros L. unfold unscale_dual_ineq, dz_, vmul, tail_from. rewrite vmap2_length, vscale_length, skipn_length.
  rewrite (wfp_d pc WL), L, En, Ep, Em. lia.
Qed.
Lemma unscale_slack_ineq_length v : length v = d_m d -> length (unscale_slack_ineq pc v) = d_m d.
Proof.
  intros L. unfold unscale_slack_ineq, dzi_, vmul, tail_from. rewrite vmap2_length, skipn_length.
  rewrite (wfp_di pc WL), L, En, Ep, Em. lia.
Qed.
Lemma unscale_dual_lb_length v : length v = d_nlb d -> length (unscale_dual_lb pc v) = d_nlb d.
Proof.
  intros L. pose proof (wf_nlb_le d W).
  unfold unscale_dual_lb, vmul, head. rewrite vmap2_length, vscale_length, firstn_length, (wfp_lb pc WL), L, Elb, En. lia.
Qed.
Lemma unscale_dual_ub_length v : length v = d_nub d -> length (unscale_dual_ub pc v) = d_nub d.
Proof.
  intros L. pose proof (wf_nub_le d W).
  unfold unscale_dual_ub, vmul, head. rewrite vmap2_length, vscale_length, firstn_length, (wfp_ub pc WL), L, Eub, En. lia.
Qed.
Lemma unscale_slack_lb_length v : length v = d_nlb d -> length (unscale_slack_lb pc v) = d_nlb d.
Proof.
  intros L. pose proof (wf_nlb_le d W).
  unfold unscale_slack_lb, vmul, head. rewrite vmap2_length, firstn_length, (wfp_lbi pc WL), L, Elb, En. lia.
Qed.
Lemma unscale_slack_ub_length v : length v = d_nub d -> length (unscale_slack_ub pc v) = d_nub d.
Proof.
  intros L. pose proof (wf_nub_le d W).
  unfold unscale_slack_ub, vmul, head. rewrite vmap2_length, firstn_length, (wfp_ubi pc WL), L, Eub, En. lia.
Qed.

(* entrywise positivity of a product of positive vectors *)
Lemma vpos_vmul a b : vpos a -> (forall i, (i < length a)%nat -> (i < length b)%nat -> 0 < nth i b 0) -> vpos (vmul a b).
Proof.
  intros Ha Hb. apply vpos_of_nth. unfold vmul. rewrite vmap2_length. intros i Hi.
  assert (Ia : (i < length a)%nat) by (unfold Vec, F in *; lia).
  assert (Ib : (i < length b)%nat) by (unfold Vec, F in *; lia).
  rewrite nth_vmap2 by assumption. pose proof (vpos_nth a i Ha Ia). pose proof (Hb i Ia Ib).
  clear - H H0. unfold Vec, F in *. qnra.
Qed.
Lemma vpos_vscale c a : 0 < c -> vpos a -> vpos (vscale c a).
Proof. intros Hc Ha. unfold vscale. apply vpos_map; [|exact Ha]. intros q Hq. qnra. Qed.

Lemma nth_firstn_lt {A} (l : list A) n i dflt : (i < n)%nat -> nth i (firstn n l) dflt = nth i l dflt.
Proof.
  revert n i. induction l as [|a l IH]; intros [|n] [|i] H; cbn; try lia; auto. apply IH. lia.
Qed.
Lemma nth_skipn {A} (l : list A) n i dflt : nth i (skipn n l) dflt = nth (n + i) l dflt.
Proof. revert l. induction n as [|n IH]; intros [|a l]; cbn; auto. destruct i; reflexivity. Qed.

Theorem unscale_keeps_positive (it : Iterate) :
  ItPos it -> SZShape d it ->
  vpos (unscale_dual_ineq pc (z it)) /\ vpos (unscale_slack_ineq pc (s it)) /\
  vpos (unscale_dual_lb pc (z_lb it)) /\ vpos (unscale_slack_lb pc (s_lb it)) /\
  vpos (unscale_dual_ub pc (z_ub it)) /\ vpos (unscale_slack_ub pc (s_ub it)).
Proof.
  intros (P1 & P2 & P3 & P4 & P5 & P6) (L1 & L2 & L3 & L4 & L5 & L6).
  pose proof c_inv_pos as Hc. pose proof (wf_nlb_le d W) as Nlb. pose proof (wf_nub_le d W) as Nub.
  repeat split.
  - unfold unscale_dual_ineq. apply vpos_vmul; [apply vpos_vscale; assumption|].
    rewrite vscale_length. intros i Hi _. unfold dz_, tail_from. rewrite nth_skipn.
    apply (pi_d_pos pc PI). rewrite En, Ep, Em. lia.
  - unfold unscale_slack_ineq. apply vpos_vmul; [assumption|].
    intros i Hi _. unfold dzi_, tail_from. rewrite nth_skipn.
    assert (Hi' : (pc_n pc + pc_p pc + i < pc_n pc + pc_p pc + pc_m pc)%nat) by (rewrite Em; lia).
    exact (pos_of_inverse _ _ (pi_d pc PI _ Hi') (pi_d_pos pc PI _ Hi')).
  - unfold unscale_dual_lb. apply vpos_vmul; [apply vpos_vscale; assumption|].
    rewrite vscale_length. intros i Hi _. unfold head. rewrite nth_firstn_lt by lia.
    apply (pi_lb_pos pc PI). lia.
  - unfold unscale_slack_lb. apply vpos_vmul; [assumption|].
    intros i Hi _. unfold head. rewrite nth_firstn_lt by lia.
    assert (Hi' : (i < pc_n pc)%nat) by lia.
    exact (pos_of_inverse _ _ (pi_lb pc PI _ Hi') (pi_lb_pos pc PI _ Hi')).
  - unfold unscale_dual_ub. apply vpos_vmul; [apply vpos_vscale; assumption|].
    rewrite vscale_length. intros i Hi _. unfold head. rewrite nth_firstn_lt by lia.
    apply (pi_ub_pos pc PI). lia.
  - unfold unscale_slack_ub. apply vpos_vmul; [assumption|].
    intros i Hi _. unfold head. rewrite nth_firstn_lt by lia.
    assert (Hi' : (i < pc_n pc)%nat) by lia.
    exact (pos_of_inverse _ _ (pi_ub pc PI _ Hi') (pi_ub_pos pc PI _ Hi')).
Qed.
End Unscale.

(* ================================================================================================ *)
(** * 4. unscale_and_restore *)

Definition BoxShape (d : Data) (it : Iterate) : Prop :=
  length (z_lb it) = d_nlb d /\ length (s_lb it) = d_nlb d /\ length (nu_lb it) = d_nlb d /\
  length (z_ub it) = d_nub d /\ length (s_ub it) = d_nub d /\ length (nu_ub it) = d_nub d.

Lemma map_repeat' {A B} (f : A -> B) a n : map f (repeat a n) = repeat (f a) n.
Proof. induction n; cbn; [reflexivity|now rewrite IHn]. Qed.

Lemma ext_of_pad (v : Vec) n (junk : F) :
  ext_of (v ++ vconst (n - length v) junk) = ext_of v ++ repeat (Fin junk) (n - length (ext_of v)).
Proof. unfold ext_of, vconst. rewrite map_app, map_repeat', map_length. reflexivity. Qed.

Theorem unscale_and_restore_spec junk sv it :
  wf_data (sv_data sv) -> wf_pc (sv_pc sv) (sv_data sv) -> pc_inverse (sv_pc sv) ->
  pc_nlb (sv_pc sv) = d_nlb (sv_data sv) -> pc_nub (sv_pc sv) = d_nub (sv_data sv) ->
  BoxShape (sv_data sv) it ->
  let d := sv_data sv in let pc := sv_pc sv in let n := d_n d in
  exists out, unscale_and_restore junk sv it = Ok out /\
    (forall junk', unscale_and_restore junk' sv it = Ok out) /\
    o_x out = unscale_primal pc (x it) /\ o_y out = unscale_dual_eq pc (y it) /\
    o_z out = unscale_dual_ineq pc (z it) /\ o_s out = unscale_slack_ineq pc (s it) /\
    o_zeta out = unscale_primal pc (zeta it) /\ o_lambda out = unscale_dual_eq pc (lambda it) /\
    o_nu out = unscale_dual_ineq pc (nu it) /\
    Restored 0 n (d_lb_idx d) (unscale_dual_lb pc (z_lb it)) (o_z_lb out) /\
    Restored 0 n (d_ub_idx d) (unscale_dual_ub pc (z_ub it)) (o_z_ub out) /\
    Restored PInf n (d_lb_idx d) (ext_of (unscale_slack_lb pc (s_lb it))) (o_s_lb out) /\
    Restored PInf n (d_ub_idx d) (ext_of (unscale_slack_ub pc (s_ub it))) (o_s_ub out) /\
    Restored 0 n (d_lb_idx d) (unscale_dual_lb pc (nu_lb it)) (o_nu_lb out) /\
    Restored 0 n (d_ub_idx d) (unscale_dual_ub pc (nu_ub it)) (o_nu_ub out).
Proof.
  intros W WP PI Elb Eub (B1 & B2 & B3 & B4 & B5 & B6). cbv zeta.
  set (d := sv_data sv) in *. set (pc := sv_pc sv) in *.
  pose proof (incr_from_strict _ _ _ (wfd_lbi d W)) as Slb.
  pose proof (incr_from_strict _ _ _ (wfd_ubi d W)) as Sub.
  pose proof (incr_from_lt _ _ _ (wfd_lbi d W)) as Blb.
  pose proof (incr_from_lt _ _ _ (wfd_ubi d W)) as Bub.
  pose proof (unscale_dual_lb_length d pc W WP Elb Eub (z_lb it) B1) as L1.
  pose proof (unscale_slack_lb_length d pc W WP Elb Eub (s_lb it) B2) as L2.
  pose proof (unscale_dual_lb_length d pc W WP Elb Eub (nu_lb it) B3) as L3.
  pose proof (unscale_dual_ub_length d pc W WP Elb Eub (z_ub it) B4) as L4.
  pose proof (unscale_slack_ub_length d pc W WP Elb Eub (s_ub it) B5) as L5.
  pose proof (unscale_dual_ub_length d pc W WP Elb Eub (nu_ub it) B6) as L6.
  fold (d_nlb d) in Blb. fold (d_nub d) in Bub.
  assert (Lx2 : length (ext_of (unscale_slack_lb pc (s_lb it))) = d_nlb d) by (unfold ext_of; rewrite map_length; exact L2).
  assert (Lx5 : length (ext_of (unscale_slack_ub pc (s_ub it))) = d_nub d) by (unfold ext_of; rewrite map_length; exact L5).
  destruct (restore_padded 0 junk (d_n d) (d_lb_idx d) (unscale_dual_lb pc (z_lb it)) Slb Blb L1) as (r1 & E1 & R1).
  destruct (restore_padded 0 junk (d_n d) (d_ub_idx d) (unscale_dual_ub pc (z_ub it)) Sub Bub L4) as (r2 & E2 & R2).
  destruct (restore_padded PInf (Fin junk) (d_n d) (d_lb_idx d) (ext_of (unscale_slack_lb pc (s_lb it))) Slb Blb Lx2) as (r3 & E3 & R3).
  destruct (restore_padded PInf (Fin junk) (d_n d) (d_ub_idx d) (ext_of (unscale_slack_ub pc (s_ub it))) Sub Bub Lx5) as (r4 & E4 & R4).
  destruct (restore_padded 0 junk (d_n d) (d_lb_idx d) (unscale_dual_lb pc (nu_lb it)) Slb Blb L3) as (r5 & E5 & R5).
  destruct (restore_padded 0 junk (d_n d) (d_ub_idx d) (unscale_dual_ub pc (nu_ub it)) Sub Bub L6) as (r6 & E6 & R6).
  assert (G : forall j, unscale_and_restore j sv it =
     Ok {| o_x := unscale_primal pc (x it); o_y := unscale_dual_eq pc (y it); o_z := unscale_dual_ineq pc (z it);
           o_z_lb := r1; o_z_ub := r2; o_s := unscale_slack_ineq pc (s it); o_s_lb := r3; o_s_ub := r4;
           o_zeta := unscale_primal pc (zeta it); o_lambda := unscale_dual_eq pc (lambda it);
           o_nu := unscale_dual_ineq pc (nu it); o_nu_lb := r5; o_nu_ub := r6 |}).
  { intros j. unfold unscale_and_restore. fold d. fold pc. cbv zeta. rewrite !ext_of_pad. unfold vconst.
    rewrite (restore_fill_indep 0 j junk _ _ _ L1), E1. cbn [bind].
    rewrite (restore_fill_indep 0 j junk _ _ _ L4), E2. cbn [bind].
    rewrite (restore_fill_indep PInf (Fin j) (Fin junk) _ _ _ Lx2), E3. cbn [bind].
    rewrite (restore_fill_indep PInf (Fin j) (Fin junk) _ _ _ Lx5), E4. cbn [bind].
    rewrite (restore_fill_indep 0 j junk _ _ _ L3), E5. cbn [bind].
    rewrite (restore_fill_indep 0 j junk _ _ _ L6), E6. cbn [bind]. reflexivity. }
  eexists. split; [apply G|]. split; [exact G|]. cbn. repeat (split; [reflexivity|]). auto 10.
Qed.

(* ================================================================================================ *)
(** * 5. solve() *)

(* the part of solve() before the result vectors are unscaled: returns the final state and the iterate handed to
   unscale_and_restore *)
Definition solve_entry (sv : Solver) : St :=
  let S := sv_set sv in
  let inf0 := (sv_info sv) <| i_status := UNSOLVED |> <| i_iter := 0%Z |> <| i_reg_limit := reg_lower_limit S |>
                <| i_factor_retires := 0%Z |> <| i_no_primal_update := 0%Z |> <| i_no_dual_update := 0%Z |>
                <| i_mu := 0 |> <| i_sigma := 0 |> <| i_primal_step := 0 |> <| i_dual_step := 0 |>
                <| i_rho := rho_init S |> <| i_delta := delta_init S |> in
  {| st_it := entry_iterate (sv_data sv) (sv_out sv); st_inf := inf0; st_kkt := sv_kkt sv; st_refine := sv_refine sv;
     st_res := {| rx_nr := []; ry_nr := []; rz_nr := []; rz_lb_nr := []; rz_ub_nr := [] |};
     st_calls := sv_calls sv |}.

Definition solve_core (K : Consts) (cp_bits : Z) (fault : nat -> bool) (sv : Solver) : res (St * Iterate) :=
  let S := sv_set sv in let d := sv_data sv in let pc := sv_pc sv in
  let st0 := solve_entry sv in
  do st1 <- (if sv_kkt_init_state sv then Ok st0 else do_update_scalings d st0) ;;
  do '(st2, ok) <- init_factor K S d fault (init_fuel S) st1 ;;
  if negb ok then Ok (st2, st_it st2)
  else
    do st3 <- initial_point K S d (round_cp cp_bits) (st2 <| st_inf := (st_inf st2) <| i_factor_retires := 0%Z |> |>) ;;
    do st4 <- main_loop K S d pc fault (round_cp cp_bits) (loop_fuel S) st3 ;;
    Ok (st4, st_it st4).

Definition solve_finish (junk : F) (sv : Solver) (st : St) (it : Iterate) : res (Solver * Status) :=
  do out <- unscale_and_restore junk sv it ;;
  Ok (sv <| sv_kkt := st_kkt st |> <| sv_kkt_init_state := false |> <| sv_refine := st_refine st |>
         <| sv_info := st_inf st |> <| sv_out := out |> <| sv_calls := st_calls st |>, i_status (st_inf st)).

Lemma solve_decomp K junk cp_bits fault sv :
  solve K junk cp_bits fault sv =
  (do '(st, it) <- solve_core K cp_bits fault sv ;; solve_finish junk sv st it).
Proof.
  unfold solve, solve_core, solve_finish, solve_entry.
  destruct (sv_kkt_init_state sv).
  - cbn [bind]. destruct (init_factor _ _ _ _ _ _) as [[st2 ok]|]; cbn [bind]; [|reflexivity].
    destruct ok; cbn [negb bind]; [|reflexivity].
    destruct (initial_point _ _ _ _ _) as [st3|]; cbn [bind]; [|reflexivity].
    destruct (main_loop _ _ _ _ _ _ _ _) as [st4|]; cbn [bind]; reflexivity.
  - destruct (do_update_scalings _ _) as [st1|]; cbn [bind]; [|reflexivity].
    destruct (init_factor _ _ _ _ _ _) as [[st2 ok]|]; cbn [bind]; [|reflexivity].
    destruct ok; cbn [negb bind]; [|reflexivity].
    destruct (initial_point _ _ _ _ _) as [st3|]; cbn [bind]; [|reflexivity].
    destruct (main_loop _ _ _ _ _ _ _ _) as [st4|]; cbn [bind]; reflexivity.
Qed.

(* hypotheses on the numeric literals (true for gen/Consts.v) and on the settings (all implied by verify_settings
   except tau < 1 -- verify_settings accepts tau = 1 -- and reg_finetune_lower_limit > 0, which it does not check) *)
Record ConstsOK (K : Consts) (S : Settings) : Prop := mkConstsOK {
  co_shift : 1 < k_shift K; co_half : 0 < k_half K; co_sinit : 0 < k_sinit K; co_snorm : 0 <= k_snorm K;
  co_eps : 0 < k_eps K; co_retry : 0 < k_retry_mul K; co_reglim : 0 < k_reglim_mul K;
  co_tau0 : 0 < tau S; co_tau1 : tau S < 1; co_fine : 0 < reg_finetune_lower_limit S; co_epsabs : 0 < eps_abs S;
  co_rho : 0 < rho_init S; co_delta : 0 < delta_init S; co_reglow : 0 < reg_lower_limit S }.

(* the solver object between calls *)
Record SolverWF (sv : Solver) : Prop := mkSolverWF {
  swf_data : wf_data (sv_data sv);
  swf_pc : wf_pc (sv_pc sv) (sv_data sv);
  swf_inv : pc_inverse (sv_pc sv);
  swf_nlb : pc_nlb (sv_pc sv) = d_nlb (sv_data sv);
  swf_nub : pc_nub (sv_pc sv) = d_nub (sv_data sv);
  (* only before the first solve() after setup(): later the KKT scalings and matrix are rebuilt on entry *)
  swf_kkt : sv_kkt_init_state sv = true ->
            KShape (sv_data sv) (sv_kkt sv) /\ KSign (sv_data sv) (sv_kkt sv) /\ KMatShape (d_n (sv_data sv)) (sv_kkt sv) }.

Definition OutShape (d : Data) (o : ResultOut) : Prop :=
  length (o_x o) = d_n d /\ length (o_y o) = d_p d /\ length (o_z o) = d_m d /\ length (o_s o) = d_m d /\
  length (o_z_lb o) = d_n d /\ length (o_z_ub o) = d_n d /\ length (o_s_lb o) = d_n d /\ length (o_s_ub o) = d_n d /\
  length (o_zeta o) = d_n d /\ length (o_lambda o) = d_p d /\ length (o_nu o) = d_m d /\
  length (o_nu_lb o) = d_n d /\ length (o_nu_ub o) = d_n d.

Lemma wf_data_DataShape d : wf_data d -> DataShape d.
Proof.
  intros W. pose proof (wf_nlb_le d W). pose proof (wf_nub_le d W). constructor.
  - apply (wfd_GT d W). - apply (wfd_h d W). - apply (wfd_lbn d W). - apply (wfd_ub d W).
  - rewrite (wfd_lbs d W). assumption. - rewrite (wfd_ubs d W). assumption.
Qed.

(* the initial factorisation loop gave up (early NUMERICS exit of solve) *)
Definition init_gave_up (K : Consts) (fault : nat -> bool) (sv : Solver) : bool :=
  match (do st1 <- (if sv_kkt_init_state sv then Ok (solve_entry sv) else do_update_scalings (sv_data sv) (solve_entry sv)) ;;
         init_factor K (sv_set sv) (sv_data sv) fault (init_fuel (sv_set sv)) st1) with
  | Ok (_, false) => true
  | _ => false
  end.

Section SolveCore.
Variable K : Consts.
Variable cp_bits : Z.
Variable fault : nat -> bool.
Variable sv : Solver.
Hypothesis CO : ConstsOK K (sv_set sv).
Hypothesis WF : SolverWF sv.

Let d := sv_data sv.
Let S := sv_set sv.

Lemma entry_facts :
  ItPos (st_it (solve_entry sv)) /\ SZShape d (st_it (solve_entry sv)) /\ InfPos (st_inf (solve_entry sv)) /\
  i_iter (st_inf (solve_entry sv)) = 0%Z.
Proof.
  assert (H1 : (0 : Qc) < 1) by qlra.
  split; [|split; [|split]].
  - unfold ItPos, solve_entry, entry_iterate. cbn. repeat split; apply vpos_vconst; exact H1.
  - unfold SZShape, solve_entry, entry_iterate. cbn. rewrite !vconst_length. repeat split.
  - destruct CO. unfold InfPos, solve_entry. cbn. auto.
  - reflexivity.
Qed.

Lemma entry_shapes : OutShape d (sv_out sv) ->
  ItShape d (st_it (solve_entry sv)) /\ XYShape d (st_it (solve_entry sv)).
Proof.
  intros (O1 & O2 & O3 & O4 & O5 & O6 & O7 & O8 & O9 & O10 & O11 & O12 & O13).
  pose proof (wf_nlb_le d (swf_data sv WF)). pose proof (wf_nub_le d (swf_data sv WF)).
  unfold ItShape, XYShape, solve_entry, entry_iterate. cbn. rewrite !vconst_length.
  unfold head. rewrite !firstn_length. fold d. repeat split; auto; lia.
Qed.

(* everything known about the state and the iterate that solve() hands to unscale_and_restore *)
Theorem solve_core_spec st it :
  solve_core K cp_bits fault sv = Ok (st, it) ->
  ItPos it /\ SZShape d it /\
  (init_gave_up K fault sv = true -> it = entry_iterate d (sv_out sv) /\ i_status (st_inf st) = NUMERICS) /\
  (init_gave_up K fault sv = false \/ OutShape d (sv_out sv) -> ItShape d it /\ XYShape d it).
Proof.
  intros H. unfold solve_core in H. fold d S in H.
  destruct entry_facts as (EP & EZ & EI & Eit).
  pose proof (swf_data sv WF) as W. pose proof (wf_data_DataShape d W) as HD.
  unfold init_gave_up. fold d S.
  (* the state at the entry of the factorisation loop *)
  destruct (if sv_kkt_init_state sv then Ok (solve_entry sv) else do_update_scalings d (solve_entry sv)) as [st1|] eqn:E1;
    cbn [bind] in H |- *; [|discriminate].
  assert (F1 : KShape d (st_kkt st1) /\ KSign d (st_kkt st1) /\ KMatShape (d_n d) (st_kkt st1) /\
               st_it st1 = st_it (solve_entry sv) /\ st_inf st1 = st_inf (solve_entry sv)).
  { destruct (sv_kkt_init_state sv) eqn:Eis.
    - injection E1 as <-. destruct (swf_kkt sv WF Eis) as (A & B & C). auto.
    - pose proof (do_update_scalings_mat _ _ _ E1) as M.
      destruct (do_update_scalings_ok d _ _ E1 EP EZ) as (A & B & C & D & _). auto. }
  destruct F1 as (K1 & K2 & K3 & I1 & I2). clear E1.
  rewrite <- I1 in EP, EZ. rewrite <- I2 in EI, Eit.
  destruct (init_factor K S d fault (init_fuel S) st1) as [[st2 ok]|] eqn:E2; cbn [bind] in H |- *; [|discriminate].
  destruct (init_factor_ok K S d fault (co_retry _ _ CO) (co_reglim _ _ CO) (co_epsabs _ _ CO) _ _ _ _ E2 EP EZ K1 K2 EI) as (A1 & A2 & A3 & A4 & A5).
  destruct ok; cbn [negb] in H.
  - (* the main path *)
    pose proof (init_factor_fact _ _ _ _ _ _ _ E2 K3) as HF.
    destruct (initial_point K S d (round_cp cp_bits) _) as [st3|] eqn:E3; cbn [bind] in H; [|discriminate].
    destruct (main_loop K S d (sv_pc sv) fault (round_cp cp_bits) (loop_fuel S) st3) as [st4|] eqn:E4;
      cbn [bind] in H; [|discriminate].
    injection H as <- <-.
    destruct (solve_path_interior K S d (sv_pc sv) fault (round_cp cp_bits) (round_cp_sign cp_bits)
                (co_shift _ _ CO) (co_half _ _ CO) (co_sinit _ _ CO) (co_snorm _ _ CO) (co_eps _ _ CO) (co_retry _ _ CO)
                (co_reglim _ _ CO) (co_tau0 _ _ CO) (co_tau1 _ _ CO) (co_fine _ _ CO) (co_epsabs _ _ CO) HD
                _ _ st1 st2 st3 st4 EP EZ K1 K2 EI Eit E2 E3 E4) as (B1 & [B2 _] & B3 & _).
    assert (X3 : XYInv d st3).
    { refine (initial_point_xy K S d _ _ _ W _ _ E3); [exact HF | cbn; rewrite A5; exact Eit]. }
    pose proof (main_loop_xy K S d (sv_pc sv) fault (round_cp cp_bits) W _ _ _ X3 E4) as X4.
    split; [exact B2|]. split.
    { destruct B3 as (I1' & I2' & _ & I4' & I5' & _ & I7' & I8' & _). repeat split; assumption. }
    split; [discriminate|]. intros _. split; assumption.
  - injection H as <- <-. rewrite A4, I1 in *.
    split; [exact EP|]. split; [exact EZ|]. split.
    + intros _. split; [reflexivity|].
      (* the give-up branch of init_factor sets the status *)
      clear - E2. revert st1 st2 E2. generalize (init_fuel S). intros fuel.
      induction fuel as [|f IH]; intros st1 st2 E; cbn [init_factor] in E; [discriminate|].
      destruct (do_factorize S d fault st1) as [[sta ok1]|]; cbn [bind] in E; [|discriminate].
      destruct ok1; [discriminate|].
      destruct (negb (st_refine sta)); [eapply IH; eauto|].
      destruct (i_factor_retires (st_inf sta) <? max_factor_retires S)%Z.
      * destruct (do_update_scalings d _) as [stb|]; cbn [bind] in E; [|discriminate]. eapply IH; eauto.
      * injection E as <-. reflexivity.
    + intros [Hc|HO]; [discriminate|]. apply entry_shapes. exact HO.
Qed.
End SolveCore.

(* ================================================================================================ *)
(** * 6. The output record of solve() *)

(* a restored box vector, read per variable index *)
Definition BoxPattern {A} (P : A -> Prop) (dflt : A) (n : nat) (idx : list nat) (r : list A) : Prop :=
  length r = n /\
  (forall i, (i < n)%nat -> ~ In i idx -> nth_error r i = Some dflt) /\
  (forall j, (j < length idx)%nat -> exists a, nth_error r (nth j idx 0%nat) = Some a /\ P a).

Lemma Restored_pattern {A} (P : A -> Prop) dflt n idx (packed r : list A) :
  Restored dflt n idx packed r -> length packed = length idx -> Forall P packed -> BoxPattern P dflt n idx r.
Proof.
  intros (L & R1 & R2) HL HP. split; [exact L|]. split; [exact R2|].
  intros j Hj. rewrite (R1 j Hj).
  destruct (nth_error packed j) as [a|] eqn:E; [|apply nth_error_None in E; lia].
  exists a. split; [reflexivity|]. rewrite Forall_forall in HP. apply HP. eapply nth_error_In; eauto.
Qed.

Definition ext_pos (e : ext) : Prop := exists q, e = Fin q /\ 0 < q.
Lemma ext_of_pos v : vpos v -> Forall ext_pos (ext_of v).
Proof. intros H. unfold ext_of. apply Forall_map. eapply Forall_impl; [|exact H]. intros q Hq. exists q. auto. Qed.

Section SolveOut.
Variable K : Consts.
Variable junk : F.
Variable cp_bits : Z.
Variable fault : nat -> bool.
Variable sv : Solver.
Hypothesis CO : ConstsOK K (sv_set sv).
Hypothesis WF : SolverWF sv.

Let d := sv_data sv.
Let pc := sv_pc sv.
Let n := d_n d.

(* d: once the interior point part has returned, the unscale / restore part of solve() cannot fail, and its result
   is the same for every content of the never-written memory *)
Theorem solve_finish_total st it :
  solve_core K cp_bits fault sv = Ok (st, it) ->
  init_gave_up K fault sv = false \/ OutShape d (sv_out sv) ->
  exists sv' status, solve K junk cp_bits fault sv = Ok (sv', status) /\
                     forall junk', solve K junk' cp_bits fault sv = Ok (sv', status).
Proof.
  intros Hc Hs. destruct (solve_core_spec K cp_bits fault sv CO WF st it Hc) as (_ & _ & _ & Hsh).
  destruct (Hsh Hs) as [(_ & _ & _ & _ & I5 & I6 & _ & I8 & I9) _]. destruct WF as [W WP PI Elb Eub _].
  destruct (solve_core_spec K cp_bits fault sv CO WF st it Hc) as (_ & (_ & _ & Z3 & Z4 & Z5 & Z6) & _).
  fold d in Z3, Z4, Z5, Z6, I5, I6, I8, I9.
  destruct (unscale_and_restore_spec junk sv it W WP PI Elb Eub) as (out & E & Ej & _).
  { unfold BoxShape. fold d. repeat split; assumption. }
  eexists _, _. split.
  - rewrite solve_decomp, Hc. cbn [bind]. unfold solve_finish. rewrite E. cbn [bind]. reflexivity.
  - intros j'. rewrite solve_decomp, Hc. cbn [bind]. unfold solve_finish. rewrite (Ej j'). cbn [bind]. reflexivity.
Qed.

Theorem solve_outputs_wellformed sv' status :
  solve K junk cp_bits fault sv = Ok (sv', status) ->
  init_gave_up K fault sv = false \/ OutShape d (sv_out sv) ->
  let o := sv_out sv' in
  (* a: sizes *)
  OutShape d o /\
  (* c: inequality multipliers and slacks *)
  vpos (o_z o) /\ vpos (o_s o) /\
  (* b: box multipliers and slacks, per variable: exactly 0 / +inf where there is no bound, > 0 where there is one *)
  BoxPattern (fun q : F => 0 < q) 0 n (d_lb_idx d) (o_z_lb o) /\
  BoxPattern (fun q : F => 0 < q) 0 n (d_ub_idx d) (o_z_ub o) /\
  BoxPattern ext_pos PInf n (d_lb_idx d) (o_s_lb o) /\
  BoxPattern ext_pos PInf n (d_ub_idx d) (o_s_ub o) /\
  (* the entries are the unscaled entries of a strictly positive scaled iterate *)
  (exists it, ItPos it /\ SZShape d it /\
     o_z o = unscale_dual_ineq pc (z it) /\ o_s o = unscale_slack_ineq pc (s it) /\
     Restored 0 n (d_lb_idx d) (unscale_dual_lb pc (z_lb it)) (o_z_lb o) /\
     Restored 0 n (d_ub_idx d) (unscale_dual_ub pc (z_ub it)) (o_z_ub o) /\
     Restored PInf n (d_lb_idx d) (ext_of (unscale_slack_lb pc (s_lb it))) (o_s_lb o) /\
     Restored PInf n (d_ub_idx d) (ext_of (unscale_slack_ub pc (s_ub it))) (o_s_ub o)) /\
  (* e: independent of junk *)
  (forall junk', solve K junk' cp_bits fault sv = Ok (sv', status)) /\
  (* the solver object stays well-formed, data and preconditioner are untouched *)
  SolverWF sv' /\ sv_data sv' = sv_data sv /\ sv_pc sv' = sv_pc sv /\ sv_set sv' = sv_set sv.
Proof.
  intros H Hs. cbv zeta.
  rewrite solve_decomp in H.
  destruct (solve_core K cp_bits fault sv) as [[st it]|] eqn:Hc; cbn [bind] in H; [|discriminate].
  destruct (solve_core_spec K cp_bits fault sv CO WF st it Hc) as (HP & HZ & _ & Hsh).
  destruct (Hsh Hs) as [HI HX]. clear Hsh.
  pose proof WF as [W WP PI Elb Eub _].
  destruct HI as (I1 & I2 & I3 & I4 & I5 & I6 & I7 & I8 & I9). destruct HX as (X1 & X2 & X3 & X4).
  fold d in I1, I2, I3, I4, I5, I6, I7, I8, I9, X1, X2, X3, X4, HZ.
  destruct (unscale_and_restore_spec junk sv it W WP PI Elb Eub) as
    (out & E & Ej & Ox & Oy & Oz & Os & Ozeta & Olam & Onu & Rzlb & Rzub & Rslb & Rsub & Rnulb & Rnuub).
  { unfold BoxShape. fold d. repeat split; assumption. }
  fold d pc n in Ox, Oy, Oz, Os, Ozeta, Olam, Onu, Rzlb, Rzub, Rslb, Rsub, Rnulb, Rnuub.
  unfold solve_finish in H. rewrite E in H. cbn [bind] in H. injection H as <- <-.
  repeat match goal with |- context [sv_out ?t] => lazymatch t with sv => fail | _ => change (sv_out t) with out end end.
  destruct (unscale_keeps_positive d pc W WP PI Elb Eub it HP HZ) as (Q1 & Q2 & Q3 & Q4 & Q5 & Q6).
  pose proof (unscale_dual_lb_length d pc W WP Elb Eub _ I5) as L1.
  pose proof (unscale_slack_lb_length d pc W WP Elb Eub _ I4) as L2.
  pose proof (unscale_dual_ub_length d pc W WP Elb Eub _ I8) as L3.
  pose proof (unscale_slack_ub_length d pc W WP Elb Eub _ I7) as L4.
  split.
  { unfold OutShape.
    split; [rewrite Ox; apply (unscale_primal_length d pc WP Elb Eub); assumption|].
    split; [rewrite Oy; apply (unscale_dual_eq_length d pc WP Elb Eub); assumption|].
    split; [rewrite Oz; apply (unscale_dual_ineq_length d pc WP Elb Eub); assumption|].
    split; [rewrite Os; apply (unscale_slack_ineq_length d pc WP Elb Eub); assumption|].
    split; [apply Rzlb|]. split; [apply Rzub|]. split; [apply Rslb|]. split; [apply Rsub|].
    split; [rewrite Ozeta; apply (unscale_primal_length d pc WP Elb Eub); assumption|].
    split; [rewrite Olam; apply (unscale_dual_eq_length d pc WP Elb Eub); assumption|].
    split; [rewrite Onu; apply (unscale_dual_ineq_length d pc WP Elb Eub); assumption|].
    split; [apply Rnulb|apply Rnuub]. }
  split; [rewrite Oz; exact Q1|]. split; [rewrite Os; exact Q2|].
  split; [apply (Restored_pattern _ _ _ _ _ _ Rzlb L1 Q3)|].
  split; [apply (Restored_pattern _ _ _ _ _ _ Rzub L3 Q5)|].
  split; [apply (Restored_pattern _ _ _ _ _ _ Rslb); [unfold ext_of; rewrite map_length; exact L2|apply ext_of_pos; exact Q4]|].
  split; [apply (Restored_pattern _ _ _ _ _ _ Rsub); [unfold ext_of; rewrite map_length; exact L4|apply ext_of_pos; exact Q6]|].
  split; [exists it; repeat (split; [assumption|]); assumption|].
  split.
  { intros j'. rewrite solve_decomp, Hc. cbn [bind]. unfold solve_finish. rewrite (Ej j'). cbn [bind]. reflexivity. }
  split; [|cbn; auto].
  constructor; cbn; try assumption. discriminate.
Qed.

(* the early NUMERICS exit: the entry iterate (s = z = 1, x and y of the previous call) is unscaled and returned *)
Theorem solve_early_numerics_exit sv' status :
  solve K junk cp_bits fault sv = Ok (sv', status) ->
  init_gave_up K fault sv = true ->
  let o := sv_out sv' in
  status = NUMERICS /\
  o_z o = unscale_dual_ineq pc (vconst (d_m d) 1) /\ o_s o = unscale_slack_ineq pc (vconst (d_m d) 1) /\
  o_x o = unscale_primal pc (o_x (sv_out sv)) /\ o_y o = unscale_dual_eq pc (o_y (sv_out sv)) /\
  vpos (o_z o) /\ vpos (o_s o).
Proof.
  intros H Hg. cbv zeta.
  rewrite solve_decomp in H.
  destruct (solve_core K cp_bits fault sv) as [[st it]|] eqn:Hc; cbn [bind] in H; [|discriminate].
  destruct (solve_core_spec K cp_bits fault sv CO WF st it Hc) as (HP & HZ & He & _).
  destruct (He Hg) as [Eit Est]. fold d in Eit, HZ.
  pose proof WF as [W WP PI Elb Eub _].
  unfold solve_finish in H.
  destruct (unscale_and_restore junk sv it) as [out|] eqn:E; cbn [bind] in H; [|discriminate].
  injection H as <- <-.
  repeat match goal with |- context [sv_out ?t] => lazymatch t with sv => fail | _ => change (sv_out t) with out end end.
  assert (Of : o_x out = unscale_primal pc (x it) /\ o_y out = unscale_dual_eq pc (y it) /\
               o_z out = unscale_dual_ineq pc (z it) /\ o_s out = unscale_slack_ineq pc (s it)).
  { unfold unscale_and_restore in E. repeat bind_step E. injection E as <-. cbn. auto. }
  destruct Of as (O1 & O2 & O3 & O4).
  destruct (unscale_keeps_positive d pc W WP PI Elb Eub it HP HZ) as (Q1 & Q2 & _).
  rewrite O1, O2, O3, O4. rewrite Eit in *. cbn [x y z s entry_iterate] in *.
  repeat split; auto.
Qed.
End SolveOut.

(* the same without auxiliary predicates: per variable index *)
Lemma BoxPattern_at {A} (P : A -> Prop) dflt n idx (r : list A) i :
  BoxPattern P dflt n idx r -> (i < n)%nat ->
  (~ In i idx -> nth_error r i = Some dflt) /\ (In i idx -> exists a, nth_error r i = Some a /\ P a).
Proof.
  intros (L & R1 & R2) Hi. split; [apply R1; exact Hi|].
  intros Hin. destruct (In_nth _ _ 0%nat Hin) as (j & Hj & <-). apply R2. exact Hj.
Qed.

Theorem solve_outputs_elementary K junk cp_bits fault sv sv' status :
  ConstsOK K (sv_set sv) -> SolverWF sv ->
  solve K junk cp_bits fault sv = Ok (sv', status) ->
  init_gave_up K fault sv = false \/ OutShape (sv_data sv) (sv_out sv) ->
  let d := sv_data sv in let o := sv_out sv' in
  (length (o_x o) = d_n d /\ length (o_y o) = d_p d /\ length (o_z o) = d_m d /\ length (o_s o) = d_m d /\
   length (o_z_lb o) = d_n d /\ length (o_z_ub o) = d_n d /\ length (o_s_lb o) = d_n d /\ length (o_s_ub o) = d_n d) /\
  (forall q, In q (o_z o) \/ In q (o_s o) -> 0 < q) /\
  (forall i, (i < d_n d)%nat ->
     (~ In i (d_lb_idx d) -> nth_error (o_z_lb o) i = Some 0 /\ nth_error (o_s_lb o) i = Some PInf) /\
     (In i (d_lb_idx d) -> exists q r, nth_error (o_z_lb o) i = Some q /\ 0 < q /\
                                       nth_error (o_s_lb o) i = Some (Fin r) /\ 0 < r) /\
     (~ In i (d_ub_idx d) -> nth_error (o_z_ub o) i = Some 0 /\ nth_error (o_s_ub o) i = Some PInf) /\
     (In i (d_ub_idx d) -> exists q r, nth_error (o_z_ub o) i = Some q /\ 0 < q /\
                                       nth_error (o_s_ub o) i = Some (Fin r) /\ 0 < r)).
Proof.
  intros CO WF H Hs. cbv zeta.
  destruct (solve_outputs_wellformed K junk cp_bits fault sv CO WF sv' status H Hs)
    as ((O1 & O2 & O3 & O4 & O5 & O6 & O7 & O8 & _) & Pz & Ps & B1 & B2 & B3 & B4 & _).
  split; [repeat split; assumption|]. split.
  - unfold vpos in Pz, Ps. rewrite Forall_forall in Pz, Ps. intros q [Hq|Hq]; auto.
  - intros i Hi.
    destruct (BoxPattern_at _ _ _ _ _ i B1 Hi) as [Z1 Z2]. destruct (BoxPattern_at _ _ _ _ _ i B3 Hi) as [S1 S2].
    destruct (BoxPattern_at _ _ _ _ _ i B2 Hi) as [Z3 Z4]. destruct (BoxPattern_at _ _ _ _ _ i B4 Hi) as [S3 S4].
    split; [intros Hn; split; auto|]. split.
    { intros Hin. destruct (Z2 Hin) as (q & E1 & Hq). destruct (S2 Hin) as (e & E2 & r & -> & Hr). exists q, r. auto. }
    split; [intros Hn; split; auto|].
    intros Hin. destruct (Z4 Hin) as (q & E1 & Hq). destruct (S4 Hin) as (e & E2 & r & -> & Hr). exists q, r. auto.
Qed.

(* ================================================================================================ *)
(** * 7. setup() establishes the hypotheses *)

Record InputWF (n p m : nat) (B : Blocks) : Prop := mkInputWF {
  in_P : exists P, b_P B = Some P /\ length P = n /\ Forall (fun c : Vec => length c = n) P;
  in_c : exists c, b_c B = Some c /\ length c = n;
  in_A : forall A, b_A B = Some A -> length A = n;
  in_b : match b_b B with Some b => length b = p | None => p = 0%nat end;
  in_G : forall G, b_G B = Some G -> length G = n;
  in_h : match b_h B with Some h => length h = m | None => m = 0%nat end;
  in_lb : forall l, b_lb B = Some l -> length l = n;
  in_ub : forall l, b_ub B = Some l -> length l = n }.

Lemma upper_tri_wf (P : Mat) n : length P = n -> Forall (fun c : Vec => length c = n) P -> wf_mat n n (upper_tri P).
Proof.
  intros LP CP. unfold upper_tri. split.
  - rewrite map_length, combine_length, seq_length, LP. apply Nat.min_id.
  - apply Forall_forall. intros col Hin. apply in_map_iff in Hin. destruct Hin as ([j c] & <- & Hin).
    cbn [fst snd]. rewrite map_length, combine_length, seq_length, Nat.min_id.
    rewrite Forall_forall in CP. apply CP. exact (in_combine_r _ _ _ _ Hin).
Qed.
Lemma mtranspose_wf r (M : Mat) : wf_mat (length M) r (mtranspose r M).
Proof.
  unfold mtranspose. split.
  - now rewrite map_length, seq_length.
  - apply Forall_forall. intros col Hin. apply in_map_iff in Hin. destruct Hin as (i & <- & _). apply map_length.
Qed.
Lemma strict_inc_incr_from l : forall lo n, strict_inc l -> (forall k, In k l -> (lo <= k < n)%nat) -> incr_from lo n l.
Proof.
  induction l as [|a t IH]; intros lo n Hs Hb; cbn; [exact I|].
  destruct (Hb a (or_introl eq_refl)) as [B1 B2]. split; [exact B1|]. split; [exact B2|].
  apply IH.
  - intros i j Hij Hj. apply (Hs (S i) (S j)); cbn; lia.
  - intros k Hk. split; [|apply Hb; right; exact Hk].
    destruct (In_nth _ _ 0%nat Hk) as (j & Hj & <-).
    apply (Hs 0%nat (S j)); cbn; lia.
Qed.

Theorem setup_gives_wellformed K ident sparse_pc junk S n p m B sv :
  sane_consts K -> InputWF n p m B ->
  setup K ident sparse_pc junk S n p m B = Ok sv ->
  SolverWF sv /\ OutShape (sv_data sv) (sv_out sv) /\ sv_set sv = S /\
  d_n (sv_data sv) = n /\ d_p (sv_data sv) = p /\ d_m (sv_data sv) = m /\
  d_lb_idx (sv_data sv) = match b_lb B with Some l => snd (pack_lb (k_inf K) 0 l) | None => [] end /\
  d_ub_idx (sv_data sv) = match b_ub B with Some l => snd (pack_ub (k_inf K) 0 l) | None => [] end.
Proof.
  intros SK [(P & EP & LP & CP) (c & Ec & Lc) HA Hb HG Hh Hlb Hub] H.
  unfold setup in H. rewrite EP, Ec in H.
  set (A := match b_A B with Some A => A | None => repeat [] n end) in *.
  set (G := match b_G B with Some G => G | None => repeat [] n end) in *.
  assert (LA : length A = n) by (subst A; destruct (b_A B); [auto|apply repeat_length]).
  assert (LG : length G = n) by (subst G; destruct (b_G B); [auto|apply repeat_length]).
  destruct (match b_h B with Some h => disable_inf (k_inf K) (mtranspose m G) h | None => (mtranspose m G, []) end)
    as [GT h] eqn:EGh.
  destruct (match b_lb B with Some l => pack_lb (k_inf K) 0 l | None => ([], []) end) as [lbn lbi] eqn:Elb.
  destruct (match b_ub B with Some l => pack_ub (k_inf K) 0 l | None => ([], []) end) as [ubv ubi] eqn:Eub.
  (* shapes of the pieces *)
  assert (WGT : wf_mat n m GT /\ length h = m).
  { destruct (mtranspose_wf m G) as [T1 T2]. rewrite LG in T2.
    destruct (b_h B) as [hh|].
    - destruct (disable_inf_spec _ _ _ _ _ EGh ltac:(congruence)) as (D1 & D2 & D3).
      split; [|congruence]. split; [congruence|].
      apply Forall_forall. intros col Hin. destruct (In_nth _ _ [] Hin) as (i & Hi & <-).
      assert (Hi' : (i < length hh)%nat) by (unfold Mat, Vec, F in *; lia).
      destruct (D3 i Hi') as (E3 & _).
      assert (T2i : length (nth i (mtranspose m G) []) = n).
      { rewrite Forall_forall in T2. apply T2. apply nth_In. unfold Mat, Vec, F in *; lia. }
      unfold Mat, Vec, F in *. lia.
    - injection EGh as <- <-. subst m. split; [split; assumption|reflexivity]. }
  destruct WGT as [WGT Lh].
  assert (Wlb : incr_from 0 n lbi /\ length lbn = length lbi).
  { destruct (b_lb B) as [l|].
    - destruct (pack_lb_spec _ _ _ _ _ Elb) as (L1 & L2 & L3 & _). split; [|exact L1].
      apply strict_inc_incr_from; [exact L2|]. intros k Hk. specialize (L3 k Hk). rewrite (Hlb l eq_refl) in L3. lia.
    - injection Elb as <- <-. split; [exact I|reflexivity]. }
  assert (Wub : incr_from 0 n ubi /\ length ubv = length ubi).
  { destruct (b_ub B) as [l|].
    - destruct (pack_ub_spec _ _ _ _ _ Eub) as (L1 & L2 & L3 & _). split; [|exact L1].
      apply strict_inc_incr_from; [exact L2|]. intros k Hk. specialize (L3 k Hk). rewrite (Hub l eq_refl) in L3. lia.
    - injection Eub as <- <-. split; [exact I|reflexivity]. }
  destruct Wlb as [Wlb Llbn]. destruct Wub as [Wub Lubv].
  set (d0 := {| d_n := n; d_p := p; d_m := m; d_P := upper_tri P; d_AT := mtranspose p A; d_GT := GT;
                d_c := c; d_b := match b_b B with Some b => b | None => [] end; d_h := h;
                d_lb_idx := lbi; d_ub_idx := ubi; d_lb_scaling := vconst n 1; d_ub_scaling := vconst n 1;
                d_lb_n := lbn; d_ub := ubv |}) in *.
  assert (W0 : wf_data d0).
  { constructor; cbn; try assumption; try apply vconst_length.
    - apply upper_tri_wf; assumption.
    - pose proof (mtranspose_wf p A) as T. rewrite LA in T. exact T.
    - destruct (b_b B); [assumption|subst p; reflexivity]. }
  destruct (pc_inverse_init ident d0 W0) as [PI0 WP0].
  destruct (scale_data K sparse_pc (precond_init ident d0) d0 false (preconditioner_scale_cost S) (preconditioner_iter S))
    as [[pc d]|] eqn:Esc; cbn [bind] in H; [|discriminate].
  destruct (kkt_init d (rho_init S) (delta_init S) junk) as [k|] eqn:Ek; cbn [bind] in H; [|discriminate].
  injection H as <-. cbn.
  assert (Fsc : pc_inverse pc /\ wf_data d /\ wf_pc pc d /\ pc_nlb pc = d_nlb d /\ pc_nub pc = d_nub d /\
                d_n d = n /\ d_p d = p /\ d_m d = m /\ d_lb_idx d = lbi /\ d_ub_idx d = ubi).
  { unfold scale_data in Esc. destruct (pc_ident (precond_init ident d0)) eqn:Eid.
    - injection Esc as <- <-. destruct PI0. destruct WP0 as ([] & E1 & E2 & E3).
      pose proof (wf_nlb_le d0 W0). pose proof (wf_nub_le d0 W0).
      split; [constructor; cbn; assumption|]. split; [exact W0|].
      split; [split; [constructor; cbn; assumption|cbn; auto]|].
      split; [reflexivity|]. split; [reflexivity|]. cbn. repeat split; reflexivity.
    - assert (DA : dims_agree (precond_init ident d0) d0) by (repeat split).
      destruct (scale_establishes_inverse K sparse_pc SK _ _ _ _ _ _ W0 DA Esc) as (I1 & I2 & I3 & I4 & I5 & I6 & I7).
      destruct (scaled_data_is_transform K sparse_pc SK _ _ _ _ _ _ W0 DA Esc) as [[T1 T2 T3 _ _ _ _ _ _ _ _ _ _ _] _].
      split; [exact I1|]. split; [exact I2|]. split; [exact I3|]. split; [exact I4|]. split; [exact I5|].
      split; [exact T1|]. split; [exact T2|]. split; [exact T3|]. split; [exact I6|exact I7]. }
  destruct Fsc as (F1 & F2 & F3 & F4 & F5 & F6 & F7 & F8 & F9 & F10).
  destruct (kkt_init_ok _ _ _ _ _ Ek) as [KS1 KS2].
  assert (KM : KMatShape (d_n d) k) by (unfold kkt_init in Ek; eapply update_kkt_mat; eauto).
  split; [constructor; cbn; auto|].
  split.
  { unfold OutShape, zero_out. cbn. rewrite F6, F7, F8, !vconst_length, !repeat_length. repeat split. }
  split; [reflexivity|]. split; [exact F6|]. split; [exact F7|]. split; [exact F8|].
  split.
  - rewrite F9. destruct (b_lb B); [rewrite Elb; reflexivity | injection Elb as _ <-; reflexivity].
  - rewrite F10. destruct (b_ub B); [rewrite Eub; reflexivity | injection Eub as _ <-; reflexivity].
Qed.

(* which variables carry a bound after setup(): exactly those with a finite entry *)
Corollary setup_lb_pattern K ident sparse_pc junk S n p m B sv l :
  sane_consts K -> InputWF n p m B -> setup K ident sparse_pc junk S n p m B = Ok sv -> b_lb B = Some l ->
  forall k, In k (d_lb_idx (sv_data sv)) <-> ((k < n)%nat /\ ext_gt_neg_inf (k_inf K) (nth k l NInf) = true).
Proof.
  intros SK IW H El k. destruct (setup_gives_wellformed _ _ _ _ _ _ _ _ _ _ SK IW H) as (_ & _ & _ & _ & _ & _ & E & _).
  rewrite E, El. destruct (pack_lb (k_inf K) 0 l) as [v ix] eqn:Ep. cbn [snd].
  destruct (pack_lb_spec _ _ _ _ _ Ep) as (_ & _ & _ & L4 & _). rewrite (L4 k), Nat.sub_0_r, (in_lb _ _ _ _ IW l El).
  split; intros [A B']; (split; [lia|exact B']).
Qed.
Corollary setup_ub_pattern K ident sparse_pc junk S n p m B sv l :
  sane_consts K -> InputWF n p m B -> setup K ident sparse_pc junk S n p m B = Ok sv -> b_ub B = Some l ->
  forall k, In k (d_ub_idx (sv_data sv)) <-> ((k < n)%nat /\ ext_lt_inf (k_inf K) (nth k l PInf) = true).
Proof.
  intros SK IW H El k. destruct (setup_gives_wellformed _ _ _ _ _ _ _ _ _ _ SK IW H) as (_ & _ & _ & _ & _ & _ & _ & E).
  rewrite E, El. destruct (pack_ub (k_inf K) 0 l) as [v ix] eqn:Ep. cbn [snd].
  destruct (pack_ub_spec _ _ _ _ _ Ep) as (_ & _ & _ & L4 & _). rewrite (L4 k), Nat.sub_0_r, (in_ub _ _ _ _ IW l El).
  split; intros [A B']; (split; [lia|exact B']).
Qed.

(* ================================================================================================ *)
(** * 8. A concrete instance (non-vacuity): n = 3 with the bound pattern (lower, free, upper) *)
From PIQP.gen Require Import Consts.

Definition get_ok {A} (r : res A) : match r with Ok _ => A | Err _ => unit end :=
  match r with Ok a => a | Err _ => tt end.

Definition wx_settings : Settings := {|
  rho_init := qmk 1 64; delta_init := qmk 1 16;
  eps_abs := qmk 1 1024; eps_rel := qmk 1 1024;
  check_duality_gap := true; eps_duality_gap_abs := qmk 1 1024; eps_duality_gap_rel := qmk 1 1024;
  reg_lower_limit := qmk 1 1048576; reg_finetune_lower_limit := qmk 1 1073741824;
  reg_finetune_primal_update_threshold := 7; reg_finetune_dual_update_threshold := 5;
  max_iter := 1; max_factor_retires := 10;
  preconditioner_scale_cost := false; preconditioner_iter := 2;
  tau := qmk 3 4;
  iterative_refinement_always_enabled := false;
  iterative_refinement_eps_abs := qmk 1 4096; iterative_refinement_eps_rel := qmk 1 4096;
  iterative_refinement_max_iter := 10;
  iterative_refinement_min_improvement_rate := qmk 5 1;
  iterative_refinement_static_regularization_eps := qmk 1 8192;
  iterative_refinement_static_regularization_rel := qmk 1 1048576
|}.
(* one inequality row; x0 has a lower bound only, x1 is free, x2 has an upper bound only *)
Definition wx_blocks : Blocks :=
  {| b_P := Some [[qmk 2 1; 0; 0]; [0; qmk 1 1; 0]; [0; 0; qmk 4 1]];
     b_c := Some [qmk 1 1; qmk (-1) 1; qmk 1 2]; b_A := None; b_b := None;
     b_G := Some [[qmk 1 1]; [qmk 1 1]; [qmk 1 1]]; b_h := Some [Fin (qmk 1 1)];
     b_lb := Some [Fin (qmk (-1) 1); NInf; NInf]; b_ub := Some [PInf; PInf; Fin (qmk 2 1)] |}.
Definition wx_sv_r : res Solver := Eval vm_compute in setup consts false false 0 wx_settings 3 0 1 wx_blocks.
Definition wx_sv : Solver := get_ok wx_sv_r.
Definition wx_nofault : nat -> bool := fun _ => false.
Definition wx_allfault : nat -> bool := fun _ => true.
Definition is_zero (q : F) : bool := qeqb q 0.
Definition is_pinf (e : ext) : bool := match e with PInf => true | _ => false end.

Example wx_setup_eq : setup consts false false 0 wx_settings 3 0 1 wx_blocks = Ok wx_sv.
Proof. vm_compute. reflexivity. Qed.
Example wx_inputs_ok : sane_consts consts /\ ConstsOK consts wx_settings /\ InputWF 3 0 1 wx_blocks /\
                       verify_settings wx_settings = true.
Proof.
  split; [repeat split; try (vm_compute; reflexivity); vm_compute; discriminate|].
  split; [constructor; try (vm_compute; reflexivity); vm_compute; discriminate|].
  split; [|vm_compute; reflexivity].
  constructor; cbn; try (intros ? [= <-]; reflexivity); try discriminate; try reflexivity.
  - eexists. split; [reflexivity|]. split; [reflexivity|]. repeat constructor.
  - eexists. split; reflexivity.
Qed.
Example wx_solver_wf : SolverWF wx_sv /\ OutShape (sv_data wx_sv) (sv_out wx_sv) /\
                       d_lb_idx (sv_data wx_sv) = [0%nat] /\ d_ub_idx (sv_data wx_sv) = [2%nat].
Proof.
  destruct wx_inputs_ok as (SK & _ & IW & _).
  destruct (setup_gives_wellformed _ _ _ _ _ _ _ _ _ _ SK IW wx_setup_eq) as (A & B' & _).
  split; [exact A|]. split; [exact B'|]. split; reflexivity.
Qed.

(* status and 0 / +inf pattern of a result *)
Definition wx_summary (r : res (Solver * Status)) :=
  match r with
  | Ok (sv', st) => let o := sv_out sv' in
      Some (st, map is_zero (o_z_lb o), map is_pinf (o_s_lb o), map is_zero (o_z_ub o), map is_pinf (o_s_ub o),
            map (qltb 0) (o_z o), map (qltb 0) (o_s o), length (o_x o))
  | Err _ => None
  end.

(* a run that ends with MAX_ITER_REACHED after one pass of the loop: the 0 / +inf pattern of the output is
   (lower, free, upper) *)
Example wx_main_summary :
  wx_summary (solve consts 0 16 wx_nofault wx_sv) =
  Some (MAX_ITER_REACHED, [false; true; true], [false; true; true], [true; true; false], [true; true; false],
        [true], [true], 3%nat) /\
  init_gave_up consts wx_nofault wx_sv = false.
Proof. split; vm_compute; reflexivity. Qed.

(* ... and the theorems apply to it (all hypotheses are satisfiable together) *)
Example wx_solve_main :
  exists sv', solve consts 0 16 wx_nofault wx_sv = Ok (sv', MAX_ITER_REACHED) /\
    let o := sv_out sv' in
    OutShape (sv_data wx_sv) o /\
    BoxPattern (fun q : F => 0 < q) 0 3 [0%nat] (o_z_lb o) /\ BoxPattern ext_pos PInf 3 [0%nat] (o_s_lb o) /\
    BoxPattern (fun q : F => 0 < q) 0 3 [2%nat] (o_z_ub o) /\ BoxPattern ext_pos PInf 3 [2%nat] (o_s_ub o) /\
    vpos (o_z o) /\ vpos (o_s o) /\
    (forall junk', solve consts junk' 16 wx_nofault wx_sv = Ok (sv', MAX_ITER_REACHED)) /\ SolverWF sv'.
Proof.
  destruct wx_main_summary as [Hsum _].
  destruct (solve consts 0 16 wx_nofault wx_sv) as [[sv' st]|] eqn:E; [|discriminate Hsum].
  cbn [wx_summary] in Hsum. injection Hsum as Est _ _ _ _ _ _ _. subst st.
  exists sv'. split; [reflexivity|]. cbv zeta.
  destruct wx_inputs_ok as (_ & CO & _). destruct wx_solver_wf as (WF & OS & E1 & E2).
  destruct (solve_outputs_wellformed consts 0 16 wx_nofault wx_sv CO WF _ _ E (or_intror OS))
    as (A1 & A2 & A3 & A4 & A5 & A6 & A7 & _ & A9 & A10 & _).
  rewrite E1 in A4, A6. rewrite E2 in A5, A7.
  repeat (split; [assumption|]). assumption.
Qed.

(* every factorisation reports failure: the early NUMERICS exit; the pattern is the same *)
Example wx_early_summary :
  wx_summary (solve consts 0 16 wx_allfault wx_sv) =
  Some (NUMERICS, [false; true; true], [false; true; true], [true; true; false], [true; true; false],
        [true], [true], 3%nat) /\
  init_gave_up consts wx_allfault wx_sv = true.
Proof. split; vm_compute; reflexivity. Qed.

