(* IPMGenProofs.v -- the generic main-loop pass of IPMGen.v: (1) with the dense KKT operations it is IPM.loop_pass;
   (2) it depends on the back end only through the results of its KKT operations. *)
From PIQP Require Import Base Data Bounds PrecondDense KKTDense IPM IPMGen.
From RecordUpdate Require Import RecordSet.
Import RecordSetNotations.
Local Open Scope Qc_scope.

(* ---------- (1) the dense instantiation ---------- *)
Section Dense.
Variables (K : Consts) (S : Settings) (d : Data) (pc : Precond) (fault : nat -> bool) (cp : F -> F).
Definition dense_solve (st : St) (rx ry rz rz_lb rz_ub rs rs_lb rs_ub : Vec) : res Step :=
  kkt_solve S d (st_kkt st) (st_refine st) rx ry rz rz_lb rz_ub rs rs_lb rs_ub.
Definition loop_pass_dense : St -> res Outcome :=
  loop_pass_gen K S d pc cp St Outcome st_it st_inf st_refine st_res
    (fun st v => st <| st_it := v |>) (fun st v => st <| st_inf := v |>) (fun st v => st <| st_refine := v |>) (fun st v => st <| st_res := v |>)
    (do_update_scalings d) (do_factorize S d fault) dense_solve Continue Stop.
Theorem loop_pass_gen_dense st : loop_pass_dense st = loop_pass K S d pc fault cp st.
Proof. reflexivity. Qed.
End Dense.

(* ---------- (2) independence of the back end ---------- *)
Definition rel_res {A B} (R : A -> B -> Prop) (x : res A) (y : res B) : Prop :=
  match x, y with Ok a, Ok b => R a b | Err _, Err _ => True | _, _ => False end.

Lemma rel_bind {A1 A2 B1 B2} (RA : A1 -> A2 -> Prop) (RB : B1 -> B2 -> Prop) x y f g :
  rel_res RA x y -> (forall a b, RA a b -> rel_res RB (f a) (g b)) -> rel_res RB (bind x f) (bind y g).
Proof. destruct x, y; simpl; intros H Hf; auto; contradiction. Qed.
Lemma rel_refl_eq {A} (x : res A) : rel_res eq x x.
Proof. destruct x; simpl; auto. Qed.

Section Sim.
Variables (K : Consts) (S : Settings) (d : Data) (pc : Precond) (cp : F -> F).
Variables (ST1 OUT1 : Type).
Variables (g_it1 : ST1 -> Iterate) (g_inf1 : ST1 -> Info) (g_refine1 : ST1 -> bool) (g_res1 : ST1 -> Resid).
Variables (s_it1 : ST1 -> Iterate -> ST1) (s_inf1 : ST1 -> Info -> ST1) (s_refine1 : ST1 -> bool -> ST1) (s_res1 : ST1 -> Resid -> ST1).
Variables (op_us1 : ST1 -> res ST1) (op_fac1 : ST1 -> res (ST1 * bool)).
Variable op_solve1 : ST1 -> Vec -> Vec -> Vec -> Vec -> Vec -> Vec -> Vec -> Vec -> res Step.
Variables (o_continue1 o_stop1 : ST1 -> OUT1).
Variables (ST2 OUT2 : Type).
Variables (g_it2 : ST2 -> Iterate) (g_inf2 : ST2 -> Info) (g_refine2 : ST2 -> bool) (g_res2 : ST2 -> Resid).
Variables (s_it2 : ST2 -> Iterate -> ST2) (s_inf2 : ST2 -> Info -> ST2) (s_refine2 : ST2 -> bool -> ST2) (s_res2 : ST2 -> Resid -> ST2).
Variables (op_us2 : ST2 -> res ST2) (op_fac2 : ST2 -> res (ST2 * bool)).
Variable op_solve2 : ST2 -> Vec -> Vec -> Vec -> Vec -> Vec -> Vec -> Vec -> Vec -> res Step.
Variables (o_continue2 o_stop2 : ST2 -> OUT2).

Variable R : ST1 -> ST2 -> Prop.
Variable Ro : OUT1 -> OUT2 -> Prop.
Hypothesis Hg_it : forall a b, R a b -> g_it1 a = g_it2 b.
Hypothesis Hg_inf : forall a b, R a b -> g_inf1 a = g_inf2 b.
Hypothesis Hg_refine : forall a b, R a b -> g_refine1 a = g_refine2 b.
Hypothesis Hg_res : forall a b, R a b -> g_res1 a = g_res2 b.
Hypothesis Hs_it : forall a b v, R a b -> R (s_it1 a v) (s_it2 b v).
Hypothesis Hs_inf : forall a b v, R a b -> R (s_inf1 a v) (s_inf2 b v).
Hypothesis Hs_refine : forall a b v, R a b -> R (s_refine1 a v) (s_refine2 b v).
Hypothesis Hs_res : forall a b v, R a b -> R (s_res1 a v) (s_res2 b v).
Hypothesis Hus : forall a b, R a b -> rel_res R (op_us1 a) (op_us2 b).
Hypothesis Hfac : forall a b, R a b -> rel_res (fun p q => R (fst p) (fst q) /\ snd p = snd q) (op_fac1 a) (op_fac2 b).
Hypothesis Hsolve : forall a b, R a b -> forall rx ry rz rzl rzu rs rsl rsu,
  rel_res eq (op_solve1 a rx ry rz rzl rzu rs rsl rsu) (op_solve2 b rx ry rz rzl rzu rs rsl rsu).
Hypothesis Hoc : forall a b, R a b -> Ro (o_continue1 a) (o_continue2 b).
Hypothesis Hos : forall a b, R a b -> Ro (o_stop1 a) (o_stop2 b).

Local Notation G1 := (IPMGen.loop_pass_gen K S d pc cp ST1 OUT1 g_it1 g_inf1 g_refine1 g_res1 s_it1 s_inf1 s_refine1 s_res1 op_us1 op_fac1 op_solve1 o_continue1 o_stop1).
Local Notation G2 := (IPMGen.loop_pass_gen K S d pc cp ST2 OUT2 g_it2 g_inf2 g_refine2 g_res2 s_it2 s_inf2 s_refine2 s_res2 op_us2 op_fac2 op_solve2 o_continue2 o_stop2).

Ltac sim_pure :=
  repeat first
    [ match goal with
      | |- rel_res _ (bind ?x _) (bind ?x _) => apply (rel_bind eq); [apply rel_refl_eq | intros ? ? <-]
      | |- rel_res _ (let '(_, _) := ?p in _) (let '(_, _) := ?p in _) => destruct p
      | |- rel_res _ (if ?c then _ else _) (if ?c then _ else _) => destruct c
      end ].

Lemma tail_ineq_sim a b it3 inf6 rx ry rz rzl rzu : R a b ->
  rel_res Ro (tail_ineq K S d pc cp ST1 OUT1 s_it1 s_inf1 s_res1 op_solve1 o_continue1 a it3 inf6 rx ry rz rzl rzu)
             (tail_ineq K S d pc cp ST2 OUT2 s_it2 s_inf2 s_res2 op_solve2 o_continue2 b it3 inf6 rx ry rz rzl rzu).
Proof.
  intros HR. unfold tail_ineq. cbv zeta.
  apply (rel_bind eq); [apply Hsolve; exact HR | intros p ? <-].
  sim_pure.
  apply (rel_bind eq); [apply Hsolve; exact HR | intros c ? <-].
  sim_pure; simpl; apply Hoc; apply Hs_res; apply Hs_inf; apply Hs_it; exact HR.
Qed.

Lemma tail_noineq_sim a b it3 inf6 rx ry rz rzl rzu : R a b ->
  rel_res Ro (tail_noineq K d pc cp ST1 OUT1 s_it1 s_inf1 s_res1 op_solve1 o_continue1 a it3 inf6 rx ry rz rzl rzu)
             (tail_noineq K d pc cp ST2 OUT2 s_it2 s_inf2 s_res2 op_solve2 o_continue2 b it3 inf6 rx ry rz rzl rzu).
Proof.
  intros HR. unfold tail_noineq. cbv zeta.
  apply (rel_bind eq); [apply Hsolve; exact HR | intros c ? <-].
  sim_pure; simpl; apply Hoc; apply Hs_res; apply Hs_inf; apply Hs_it; exact HR.
Qed.

Lemma after_factor_sim a b ok it3 rx ry rz rzl rzu : R a b ->
  rel_res Ro (after_factor K S d pc cp ST1 OUT1 g_inf1 g_refine1 s_it1 s_inf1 s_refine1 s_res1 op_solve1 o_continue1 o_stop1 a ok it3 rx ry rz rzl rzu)
             (after_factor K S d pc cp ST2 OUT2 g_inf2 g_refine2 s_it2 s_inf2 s_refine2 s_res2 op_solve2 o_continue2 o_stop2 b ok it3 rx ry rz rzl rzu).
Proof.
  intros HR. unfold after_factor. cbv zeta. rewrite <- (Hg_refine _ _ HR), <- (Hg_inf _ _ HR).
  sim_pure;
    first [ apply tail_ineq_sim; exact HR | apply tail_noineq_sim; exact HR
          | simpl; first [apply Hoc | apply Hos]; first [apply Hs_refine | apply Hs_inf]; exact HR ].
Qed.

Theorem loop_pass_gen_sim a b : R a b -> rel_res Ro (G1 a) (G2 b).
Proof.
  intros HR. unfold loop_pass_gen. rewrite <- (Hg_inf _ _ HR), <- (Hg_it _ _ HR), <- (Hg_res _ _ HR).
  apply (rel_bind eq); [apply rel_refl_eq | intros [res0 inf0a] ? <-]. cbv zeta.
  match goal with |- context [g_it2 (s_inf2 (s_res2 b ?r) ?i)] =>
    assert (HR1 : R (s_inf1 (s_res1 a r) i) (s_inf2 (s_res2 b r) i)) by (apply Hs_inf, Hs_res, HR);
    rewrite <- (Hg_it _ _ HR1) end.
  sim_pure;
    try (simpl; apply Hos; apply Hs_inf; exact HR1);
    (apply (rel_bind R); [apply Hus; apply Hs_inf, Hs_it, HR1 | intros st4 st4' HR4];
     apply (rel_bind (fun (p : ST1 * bool) (q : ST2 * bool) => R (fst p) (fst q) /\ snd p = snd q)); [apply Hfac; exact HR4|];
     intros [st5 ok] [st5' ok'] [HR5 Eok]; simpl in HR5, Eok; subst ok'; apply after_factor_sim; exact HR5).
Qed.
End Sim.
