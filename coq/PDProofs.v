(* PDProofs.v -- C02-T1 for the dense back end: on convex problems the factorisation of the reduced KKT matrix
   never fails in exact arithmetic.
     Part A  order toolkit on Qc, quadratic forms, Gram identity
     Part B  (1) positive definite  =>  llt_compute succeeds (all n)        [pd_implies_llt_success]
     Part C  (2) P psd, rho, delta, scalings > 0  =>  K_red positive definite [Kred_pd_when_convex]
     Part D  (3) regularize_and_factorize succeeds; consequences for init_factor / loop_pass (IPM.v)
     Part E  concrete instances *)
From PIQP Require Import Base Data Bounds PrecondDense KKTDense IPM LinAlg LLTProofs KKTProofs.
From Coq Require Import Lia Lqa.
From RecordUpdate Require Import RecordSet.
Import RecordSetNotations.
Local Open Scope Qc_scope.

(* ================================================================ Part A *)
Lemma this_1 : this 1 = 1%Q. Proof. reflexivity. Qed.

Lemma Qc_add_nonneg a b : 0 <= a -> 0 <= b -> 0 <= a + b.
Proof. unfold Qcle. rewrite this_plus. change (this 0) with 0%Q. intros. lra. Qed.
Lemma Qc_mul_nonneg a b : 0 <= a -> 0 <= b -> 0 <= a * b.
Proof. unfold Qcle. rewrite this_mult. change (this 0) with 0%Q. intros. nra. Qed.
Lemma Qc_sq_nonneg a : 0 <= a * a.
Proof. unfold Qcle. rewrite this_mult. change (this 0) with 0%Q. nra. Qed.
Lemma Qc_sq_pos a : a <> 0 -> 0 < a * a.
Proof.
  intros H. destruct (Qcle_lt_or_eq _ _ (Qc_sq_nonneg a)) as [Hlt|Heq]; [exact Hlt|].
  exfalso. apply H. symmetry in Heq. destruct (Qcmult_integral _ _ Heq); assumption.
Qed.
Lemma Qc_inv_pos a : 0 < a -> 0 < 1 / a.
Proof.
  intros H. assert (E : a * (1 / a) = 1) by (field; apply Qclt_neq0; assumption).
  assert (E' : (this a * this (1 / a) == 1)%Q) by (rewrite <- this_mult, E; reflexivity).
  revert H E'. unfold Qclt. change (this 0) with 0%Q.
  generalize (this (1 / a)) (this a). intros b c H E'.
  destruct (Qlt_le_dec 0 b) as [Hb|Hb]; [exact Hb|]. exfalso. nra.
Qed.
Lemma Qc_add_nonneg_pos a b : 0 <= a -> 0 < b -> 0 < a + b.
Proof. intros. rewrite Qcplus_comm. apply Qc_add_pos_nonneg; assumption. Qed.

Lemma sum_nonneg n f : (forall i, (i < n)%nat -> 0 <= f i) -> 0 <= sum n f.
Proof.
  induction n; intros H; [apply Qcle_refl|].
  rewrite sum_S. apply Qc_add_nonneg; [apply IHn; intros; apply H; lia | apply H; lia].
Qed.

Lemma sum_pos_one n f : (forall i, (i < n)%nat -> 0 <= f i) -> (exists i, (i < n)%nat /\ 0 < f i) -> 0 < sum n f.
Proof.
  induction n; intros H (i & Hi & Hp); [lia|].
  rewrite sum_S. destruct (Nat.eq_dec i n) as [->|Hne].
  - apply Qc_add_nonneg_pos; [apply sum_nonneg; intros; apply H; lia | assumption].
  - apply Qc_add_pos_nonneg; [|apply H; lia].
    apply IHn; [intros; apply H; lia|]. exists i. split; [lia|assumption].
Qed.

Definition quad_form (n : nat) (K : nat -> nat -> Qc) (x : nat -> Qc) : Qc :=
  sum n (fun i => sum n (fun j => K i j * x i * x j)).
(* positive (semi)definite as a quadratic form on Qc^n *)
Definition pos_def (n : nat) (K : nat -> nat -> Qc) : Prop :=
  forall x : nat -> Qc, (exists i, (i < n)%nat /\ x i <> 0) -> 0 < quad_form n K x.
Definition pos_semidef (n : nat) (K : nat -> nat -> Qc) : Prop :=
  forall x : nat -> Qc, 0 <= quad_form n K x.
(* the same with vectors as lists *)
Definition pos_def_vec (n : nat) (K : nat -> nat -> Qc) : Prop :=
  forall x : Vec, length x = n -> (exists i, nth i x 0 <> 0) -> 0 < quad_form n K (fun i => nth i x 0).

Lemma quad_form_ext n K K' x x' :
  (forall i j, (i < n)%nat -> (j < n)%nat -> K i j = K' i j) -> (forall i, (i < n)%nat -> x i = x' i) ->
  quad_form n K x = quad_form n K' x'.
Proof.
  intros HK Hx. unfold quad_form. apply sum_ext. intros i Hi. apply sum_ext. intros j Hj.
  rewrite HK, (Hx i), (Hx j) by assumption. reflexivity.
Qed.

Lemma pos_def_ext n K K' : (forall i j, (i < n)%nat -> (j < n)%nat -> K i j = K' i j) -> pos_def n K -> pos_def n K'.
Proof.
  intros HK H x Hx. rewrite <- (quad_form_ext n K K' x x) by auto. apply H. assumption.
Qed.

Lemma pos_def_vec_iff n K : pos_def_vec n K <-> pos_def n K.
Proof.
  split.
  - intros H x (i & Hi & Hxi).
    rewrite (quad_form_ext n K K x (fun i => nth i (map x (seq 0 n)) 0)); auto.
    + apply H; [rewrite map_length, seq_length; reflexivity|].
      exists i. rewrite (nth_map_seq x) by assumption. assumption.
    + intros j Hj. rewrite (nth_map_seq x) by assumption. reflexivity.
  - intros H x Hl (i & Hxi). apply H. exists i. split; [|assumption].
    destruct (Nat.lt_ge_cases i n); [assumption|]. exfalso. apply Hxi. apply nth_overflow. nlia.
Qed.

(* Gram identity:  x^T (A^T D A) x = sum_k D_k (A x)_k^2 *)
Lemma quad_gram n m (a : nat -> nat -> Qc) (D x : nat -> Qc) :
  quad_form n (fun i j => sum m (fun k => a i k * D k * a j k)) x
  = sum m (fun k => D k * (sum n (fun i => a i k * x i) * sum n (fun i => a i k * x i))).
Proof.
  unfold quad_form.
  rewrite (sum_ext n _ (fun i => sum m (fun k => sum n (fun j => a i k * D k * a j k * x i * x j)))).
  2:{ intros i Hi. rewrite <- sum_swap. apply sum_ext. intros j Hj.
      rewrite <- !sum_scale_r. reflexivity. }
  rewrite sum_swap. apply sum_ext. intros k Hk.
  rewrite (sum_ext n _ (fun i => (a i k * x i) * (D k * sum n (fun j => a j k * x j)))).
  2:{ intros i Hi. rewrite <- !sum_scale_l. apply sum_ext. intros. ring. }
  rewrite sum_scale_r. ring.
Qed.

Lemma quad_diag n (c x : nat -> Qc) :
  quad_form n (fun i j => if Nat.eqb i j then c i else 0) x = sum n (fun i => c i * (x i * x i)).
Proof.
  unfold quad_form. apply sum_ext. intros i Hi.
  rewrite (sum_ext n _ (fun j => if Nat.eqb i j then c i * x i * x j else 0)).
  2:{ intros j Hj. destruct (Nat.eqb i j); ring. }
  rewrite (sum_delta' n i (fun j => c i * x i * x j)) by assumption. ring.
Qed.

Lemma quad_add n K1 K2 x : quad_form n (fun i j => K1 i j + K2 i j) x = quad_form n K1 x + quad_form n K2 x.
Proof.
  unfold quad_form. rewrite <- sum_add. apply sum_ext. intros i Hi. rewrite <- sum_add.
  apply sum_ext. intros. ring.
Qed.

Lemma quad_scale n c K x : quad_form n (fun i j => c * K i j) x = c * quad_form n K x.
Proof.
  unfold quad_form. rewrite <- sum_scale_l. apply sum_ext. intros i Hi. rewrite <- sum_scale_l.
  apply sum_ext. intros. ring.
Qed.

(* ================================================================ Part B : PD => LLT succeeds *)
Definition ldl_eqs0 (N : nat) (A L : nat -> nat -> Qc) (Dv : nat -> Qc) : Prop :=
  (forall i j, (j < i)%nat -> (i < N)%nat -> A i j = sum j (fun k => L i k * Dv k * L j k) + L i j * Dv j) /\
  (forall i, (i < N)%nat -> A i i = sum i (fun k => L i k * Dv k * L i k) + Dv i).

Lemma Asym_LDLt0 rows Ls Dv M : ldl_eqs0 M (Afun rows) (Lfun Ls) Dv ->
  forall i j, (i < M)%nat -> (j < M)%nat ->
    Asym rows i j = sum M (fun k => Lfull Ls i k * Dv k * Lfull Ls j k).
Proof.
  intros (Hoff & Hdiag) i j Hi Hj. unfold Asym.
  destruct (Nat.leb_spec j i) as [Hle|Hlt].
  - destruct (Nat.eq_dec j i) as [->|Hne].
    + rewrite (Lfull_sum_diag _ (Lfun Ls)) by auto. apply Hdiag. assumption.
    + rewrite (Lfull_sum_off _ (Lfun Ls)) by (auto; lia). apply Hoff; lia.
  - rewrite (sum_ext _ _ (fun k => Lfull Ls j k * Dv k * Lfull Ls i k)) by (intros; ring).
    rewrite (Lfull_sum_off _ (Lfun Ls)) by (auto; lia). apply Hoff; lia.
Qed.

Lemma ldl_step rows Ls D li :
  (length Ls < length rows)%nat -> ldl_inv rows Ls D ->
  length li = length Ls -> row_eqs Ls D (nth (length Ls) rows []) li (length Ls) ->
  let d := nth (length Ls) (nth (length Ls) rows []) 0 - dot3 li D li in
  length (D ++ [d]) = length (Ls ++ [li]) /\ wf_L (Ls ++ [li]) /\
  ldl_eqs0 (S (length Ls)) (Afun rows) (Lfun (Ls ++ [li])) (Dfun (D ++ [d])) /\
  (forall i, (i < length Ls)%nat -> 0 < Dfun (D ++ [d]) i) /\ Dfun (D ++ [d]) (length Ls) = d.
Proof.
  intros HN (HD & HL & Hpos & Hoff & Hdiag) Hlen Hrow d.
  remember (length Ls) as N eqn:HNdef. set (Ai := nth N rows []) in *.
  assert (HN' : length (Ls ++ [li]) = S N) by (rewrite app_length; cbn; nlia).
  assert (HLold : forall i k, (i < N)%nat -> Lfun (Ls ++ [li]) i k = Lfun Ls i k).
  { intros i k Hi. unfold Lfun. rewrite app_nth1 by nlia. reflexivity. }
  assert (HLnew : forall k, Lfun (Ls ++ [li]) N k = nth k li 0).
  { intros k. unfold Lfun. rewrite nth_app_last' by assumption. reflexivity. }
  assert (HDold : forall k, (k < N)%nat -> Dfun (D ++ [d]) k = Dfun D k).
  { intros k Hk. unfold Dfun. rewrite app_nth1 by nlia. reflexivity. }
  assert (HDnew : Dfun (D ++ [d]) N = d).
  { unfold Dfun. apply nth_app_last'. nlia. }
  split; [rewrite !app_length; cbn; nlia|]. split.
  { intros i Hi. rewrite HN' in Hi. destruct (Nat.eq_dec i N) as [->|Hne].
    - rewrite nth_app_last' by assumption. nlia.
    - rewrite app_nth1 by nlia. apply HL. nlia. }
  split; [split|split].
  - intros i j Hj Hi. destruct (Nat.eq_dec i N) as [->|Hne].
    + rewrite !HLnew, HDold by nlia.
      rewrite (sum_ext j _ (fun k => nth k li 0 * nth k D 0 * Lfun Ls j k)).
      2:{ intros k Hk. rewrite HLnew, HDold, HLold by nlia. reflexivity. }
      specialize (Hrow j ltac:(nlia)). unfold Afun. fold Ai. unfold Dfun.
      assert (E : forall a b c : Qc, a = b - c -> b = c + a) by (intros; subst; ring).
      apply E. exact Hrow.
    + rewrite !HLold, HDold by nlia.
      rewrite (sum_ext j _ (fun k => Lfun Ls i k * Dfun D k * Lfun Ls j k)).
      2:{ intros k Hk. rewrite !HLold, HDold by nlia. reflexivity. }
      apply Hoff; nlia.
  - intros i Hi. destruct (Nat.eq_dec i N) as [->|Hne].
    + rewrite HDnew.
      rewrite (sum_ext N _ (fun k => nth k li 0 * nth k D 0 * nth k li 0)).
      2:{ intros k Hk. rewrite HLnew, HDold by nlia. reflexivity. }
      unfold d, dot3. rewrite (dot3_sum _ _ _ N) by nlia. unfold Afun. fold Ai. qring.
    + rewrite HDold by nlia.
      rewrite (sum_ext i _ (fun k => Lfun Ls i k * Dfun D k * Lfun Ls i k)).
      2:{ intros k Hk. rewrite !HLold, HDold by nlia. reflexivity. }
      apply Hdiag; nlia.
  - intros i Hi. rewrite HDold by assumption. apply Hpos. nlia.
  - exact HDnew.
Qed.

Lemma quad_form_cut n M K x : (M <= n)%nat -> (forall i, (M <= i)%nat -> x i = 0) ->
  quad_form n K x = quad_form M K x.
Proof.
  intros HM Hx. unfold quad_form. rewrite (sum_cut n M); [|assumption|].
  - apply sum_ext. intros i Hi. apply sum_cut; [assumption|]. intros j Hj. rewrite (Hx j) by lia. ring.
  - intros i Hi. apply sum_zero_ext. intros j Hj. rewrite (Hx i) by lia. ring.
Qed.

Lemma LfullT_mul Ls (x : Vec) M k : (k < M)%nat ->
  sum M (fun i => Lfull Ls i k * nth i x 0)
  = nth k x 0 + sum M (fun i => if Nat.ltb k i then Lfun Ls i k * nth i x 0 else 0).
Proof.
  intros Hk.
  rewrite (sum_ext M _ (fun j => (if Nat.eqb j k then nth j x 0 else 0)
                               + (if Nat.ltb k j then Lfun Ls j k * nth j x 0 else 0))).
  2:{ intros j Hj. unfold Lfull. destruct (Nat.ltb_spec k j); destruct (Nat.eqb_spec k j); destruct (Nat.eqb_spec j k); try lia; qring. }
  rewrite sum_add, sum_delta by assumption. reflexivity.
Qed.

(* the next pivot is the value of the quadratic form at  x = L'^-T e_N  (padded with zeros) *)
Lemma pivot_quad rows Ls' D' N :
  wf_L Ls' -> length Ls' = S N -> (S N <= length rows)%nat ->
  ldl_eqs0 (S N) (Afun rows) (Lfun Ls') D' ->
  exists x : Vec, nth N x 0 = 1 /\ quad_form (length rows) (Asym rows) (fun i => nth i x 0) = D' N.
Proof.
  intros HL HM Hn Heqs.
  set (y := repeat 0 N ++ [1] : Vec).
  assert (Ly : length y = length Ls') by (unfold y; rewrite app_length, repeat_length; cbn; nlia).
  destruct (bwd_spec Ls' HL y Ly) as [Lx Hx]. set (x := bwd (rev Ls') (rev y)) in *. rewrite HM in Lx, Hx.
  assert (Hy0 : forall k, (k < N)%nat -> nth k y 0 = 0).
  { intros k Hk. unfold y. rewrite app_nth1 by (rewrite repeat_length; assumption). apply nth_repeat. }
  assert (HyN : nth N y 0 = 1).
  { unfold y. apply nth_app_last'. rewrite repeat_length. reflexivity. }
  exists x. split.
  - specialize (Hx N ltac:(lia)). rewrite HyN in Hx.
    rewrite sum_zero_ext in Hx; [|intros k Hk; destruct (Nat.ltb_spec N k); [lia|reflexivity]].
    rewrite Hx. qring.
  - rewrite (quad_form_cut _ (S N)); [|assumption|intros i Hi; apply nth_overflow; nlia].
    rewrite (quad_form_ext (S N) _ (fun i j => sum (S N) (fun k => Lfull Ls' i k * D' k * Lfull Ls' j k))
               _ (fun i => nth i x 0)); [|apply (Asym_LDLt0 rows Ls' D' (S N) Heqs)|reflexivity].
    rewrite quad_gram.
    rewrite (sum_ext (S N) _ (fun k => D' k * (nth k y 0 * nth k y 0))).
    2:{ intros k Hk. rewrite LfullT_mul by assumption. rewrite <- (Hx k Hk). reflexivity. }
    rewrite sum_S, HyN. rewrite sum_zero_ext; [qring|]. intros k Hk. rewrite Hy0 by assumption. qring.
Qed.

Lemma ldl_rows_pd rows : wf_lower rows -> pos_def (length rows) (Asym rows) ->
  forall m Ls D, m = (length rows - length Ls)%nat -> (length Ls <= length rows)%nat ->
    ldl_inv rows Ls D ->
    exists f, ldl_rows (skipn (length Ls) rows) Ls D = Ok (Some f).
Proof.
  intros Hwf Hpd. induction m as [|m IH]; intros Ls D Hm HN Hinv.
  - rewrite skipn_all' by nlia. eexists. reflexivity.
  - remember (length Ls) as N eqn:HNdef.
    rewrite (skipn_cons_nth rows N []) by nlia. cbn [ldl_rows].
    set (Ai := nth N rows []).
    assert (HAi : length Ai = S N) by (apply Hwf; nlia).
    pose proof Hinv as (HD & HL & Hpos & _).
    assert (Hnz : forall k, (k < length D)%nat -> nth k D 0 <> 0).
    { intros k Hk. apply Qclt_neq0. apply (Hpos k). nlia. }
    destruct (ldl_row_spec Ls D Ai HL HD ltac:(nlia) Hnz N O [] ltac:(nlia) eq_refl ltac:(nlia)) as (li & Hli & Hlen & Hrow).
    { intros j Hj. nlia. }
    cbn [skipn] in Hli. rewrite Hli. cbn [bind].
    rewrite <- HNdef. rewrite (get_lt Ai N 0) by nlia. cbn [bind].
    assert (Hstep := ldl_step rows Ls D li).
    rewrite <- HNdef in Hstep, Hrow, Hlen. specialize (Hstep ltac:(nlia) Hinv Hlen Hrow). cbv zeta in Hstep.
    fold Ai in Hstep. set (d := nth N Ai 0 - dot3 li D li) in *.
    destruct Hstep as (S1 & S2 & S3 & S4 & S5).
    assert (HN' : length (Ls ++ [li]) = S N) by (rewrite app_length; cbn; nlia).
    destruct (pivot_quad rows (Ls ++ [li]) (Dfun (D ++ [d])) N S2 HN' ltac:(nlia) S3) as (x & Hx1 & Hxq).
    assert (Hd : 0 < d).
    { rewrite <- S5, <- Hxq. apply Hpd. exists N. split; [nlia|]. rewrite Hx1. discriminate. }
    apply qltb_lt in Hd. rewrite Hd. apply qltb_lt in Hd.
    specialize (IH (Ls ++ [li]) (D ++ [d])). rewrite HN' in IH. apply IH; [nlia | nlia |].
    split; [assumption|]. split; [assumption|]. rewrite HN'. split; [|exact S3].
    intros i Hi. destruct (Nat.eq_dec i N) as [->|Hne]; [rewrite S5; exact Hd | apply S4; nlia].
Qed.

(* (1) *)
Theorem pd_implies_llt_success rows :
  wf_lower rows -> pos_def (length rows) (Asym rows) -> exists f, llt_compute rows = Ok (Some f).
Proof.
  intros Hwf Hpd.
  exact (ldl_rows_pd rows Hwf Hpd _ [] [] eq_refl ltac:(cbn; lia) (ldl_inv_nil rows)).
Qed.

Corollary pd_vec_implies_llt_success rows :
  wf_lower rows -> pos_def_vec (length rows) (Asym rows) -> exists f, llt_compute rows = Ok (Some f).
Proof. intros Hwf Hpd. apply pd_implies_llt_success; [assumption|]. apply pos_def_vec_iff. assumption. Qed.

(* converse: success implies positive definite *)
Theorem llt_success_implies_pd rows f :
  wf_lower rows -> llt_compute rows = Ok (Some f) -> pos_def (length rows) (Asym rows).
Proof.
  intros Hwf Hc. destruct (llt_compute_factorisation rows f Hwf Hc) as (HLlen & HDlen & HL & Heqs).
  set (n := length rows) in *. intros x (i0 & Hi0 & Hx0).
  rewrite (quad_form_ext n _ (fun i j => sum n (fun k => Lfull (f_L f) i k * Dfun (f_D f) k * Lfull (f_L f) j k)) x x);
    [|apply (Asym_LDLt rows (f_L f) (Dfun (f_D f)) Heqs)|reflexivity].
  rewrite quad_gram.
  set (y := fun k => sum n (fun i => Lfull (f_L f) i k * x i)).
  destruct Heqs as (Hpos & _).
  (* the last index with x <> 0 gives y <> 0 there *)
  assert (Hlast : exists k, (k < n)%nat /\ x k <> 0 /\ forall i, (k < i)%nat -> (i < n)%nat -> x i = 0).
  { clear -Hi0 Hx0. revert i0 Hi0 Hx0. induction n as [|n IH]; intros i0 Hi0 Hx0; [lia|].
    destruct (Qc_eq_dec (x n) 0) as [E|E].
    - destruct (Nat.eq_dec i0 n) as [->|Hne]; [contradiction|].
      destruct (IH i0 ltac:(lia) Hx0) as (k & Hk & Hxk & Hz). exists k. split; [lia|]. split; [assumption|].
      intros i Hki Hi. destruct (Nat.eq_dec i n) as [->|]; [assumption | apply Hz; lia].
    - exists n. split; [lia|]. split; [assumption|]. intros; lia. }
  destruct Hlast as (k & Hk & Hxk & Hz).
  assert (Hyk : y k = x k).
  { unfold y. rewrite (sum_ext n _ (fun i => if Nat.eqb i k then x i else 0)); [apply sum_delta; assumption|].
    intros i Hi. unfold Lfull. destruct (Nat.ltb_spec k i).
    - rewrite (Hz i) by assumption. destruct (Nat.eqb_spec i k); [lia|ring].
    - destruct (Nat.eqb_spec k i); destruct (Nat.eqb_spec i k); try lia; ring. }
  apply sum_pos_one.
  - intros j Hj. apply Qc_mul_nonneg; [apply Qclt_le_weak; apply Hpos; assumption | apply Qc_sq_nonneg].
  - exists k. split; [assumption|]. fold (y k). rewrite Hyk.
    apply Qc_mul_pos; [apply Hpos; assumption | apply Qc_sq_pos; assumption].
Qed.

(* ================================================================ Part C : K_red is positive definite on convex problems *)
Lemma quad_add4 n K1 K2 K3 K4 x :
  quad_form n (fun i j => K1 i j + K2 i j + K3 i j + K4 i j) x
  = quad_form n K1 x + quad_form n K2 x + quad_form n K3 x + quad_form n K4 x.
Proof.
  rewrite (quad_add n (fun i j => K1 i j + K2 i j + K3 i j) K4).
  rewrite (quad_add n (fun i j => K1 i j + K2 i j) K3).
  rewrite (quad_add n K1 K2). reflexivity.
Qed.

Theorem a_Kred_pos_def (Y : L2sys) :
  0 < y_rho Y -> 0 < y_delta Y ->
  (forall l, (l < y_m Y)%nat -> 0 < y_s Y l /\ 0 < y_zinv Y l) ->
  (forall k, (k < y_nlb Y)%nat -> 0 < y_slb Y k /\ 0 < y_zli Y k) ->
  (forall k, (k < y_nub Y)%nat -> 0 < y_sub Y k /\ 0 < y_zui Y k) ->
  pos_semidef (y_n Y) (y_Psym Y) ->
  pos_def (y_n Y) (a_Kred Y).
Proof.
  intros Hrho Hdelta Hs Hlb Hub HP x (i0 & Hi0 & Hx0).
  assert (Hw : forall l, (l < y_m Y)%nat -> 0 < a_w Y l).
  { intros l Hl. unfold a_w. apply Qc_inv_pos. destruct (Hs l Hl).
    apply Qc_add_pos; [apply Qc_mul_pos|]; assumption. }
  assert (Hwlb : forall k, (k < y_nlb Y)%nat -> 0 < a_wlb Y k).
  { intros k Hk. unfold a_wlb. apply Qc_inv_pos. destruct (Hlb k Hk).
    apply Qc_add_pos; [apply Qc_mul_pos|]; assumption. }
  assert (Hwub : forall k, (k < y_nub Y)%nat -> 0 < a_wub Y k).
  { intros k Hk. unfold a_wub. apply Qc_inv_pos. destruct (Hub k Hk).
    apply Qc_add_pos; [apply Qc_mul_pos|]; assumption. }
  assert (Hbd : forall i, 0 <= a_bdiag Y i).
  { intros i. unfold a_bdiag. apply Qc_add_nonneg; apply sum_nonneg; intros k Hk;
      (destruct (Nat.eqb _ i); [|apply Qcle_refl]).
    - apply Qc_mul_nonneg; [apply Qc_sq_nonneg | apply Qclt_le_weak; apply Hwlb; assumption].
    - apply Qc_mul_nonneg; [apply Qc_sq_nonneg | apply Qclt_le_weak; apply Hwub; assumption]. }
  unfold a_Kred.
  rewrite (quad_add4 (y_n Y) (y_Psym Y) (fun i j => if Nat.eqb i j then y_rho Y + a_bdiag Y i else 0)
                     (a_SG Y) (fun i j => a_dinv Y * a_SA Y i j)).
  rewrite quad_diag, quad_scale.
  unfold a_SG at 1. rewrite quad_gram.
  rewrite (quad_form_ext (y_n Y) (a_SA Y) (fun i j => sum (y_p Y) (fun l => y_AT Y i l * 1 * y_AT Y j l)) x x);
    [|intros; unfold a_SA; apply sum_ext; intros; ring | reflexivity].
  rewrite quad_gram.
  apply Qc_add_pos_nonneg; [apply Qc_add_pos_nonneg; [apply Qc_add_nonneg_pos|]|].
  - apply HP.
  - apply sum_pos_one.
    + intros i Hi. apply Qc_mul_nonneg; [|apply Qc_sq_nonneg].
      apply Qc_add_nonneg; [apply Qclt_le_weak; assumption | apply Hbd].
    + exists i0. split; [assumption|]. apply Qc_mul_pos; [|apply Qc_sq_pos; assumption].
      apply Qc_add_pos_nonneg; [assumption | apply Hbd].
  - apply sum_nonneg. intros l Hl. apply Qc_mul_nonneg; [apply Qclt_le_weak; apply Hw; assumption | apply Qc_sq_nonneg].
  - apply Qc_mul_nonneg; [unfold a_dinv; apply Qclt_le_weak; apply Qc_inv_pos; assumption|].
    apply sum_nonneg. intros l Hl. apply Qc_mul_nonneg; [discriminate | apply Qc_sq_nonneg].
Qed.

(* P positive semidefinite: the symmetric completion of the upper triangle of d_P *)
Definition P_psd (d : Data) : Prop := pos_semidef (d_n d) (fPsym d).

(* (2) *)
Theorem Kred_pd_when_convex d k0 :
  0 < k_rho k0 -> pos_scal d k0 -> P_psd d -> pos_def (d_n d) (Kred_of d k0).
Proof.
  intros Hrho (Hdelta & Hs & Hlb & Hub) HP. unfold Kred_of.
  exact (a_Kred_pos_def (sys_of d k0 [] [] [] [] [] [] [] []) Hrho Hdelta Hs Hlb Hub HP).
Qed.

Corollary kmat_pd_when_convex d k0 k :
  wf_data d -> wf_scal d k0 -> ((0 < d_p d)%nat -> k_ATA k0 = compute_ATA d) ->
  0 < k_rho k0 -> pos_scal d k0 -> P_psd d ->
  update_kkt d k0 = Ok k ->
  length (k_mat k) = d_n d /\ wf_lower (k_mat k) /\ pos_def (d_n d) (Asym (k_mat k)).
Proof.
  intros Hd Hk HATA Hrho Hpos HP Hupd.
  destruct (update_kkt_denotes_Kred d k0 k Hd Hk HATA Hupd) as (_ & Lmat & Hwf & HK).
  split; [assumption|]. split; [assumption|].
  apply (pos_def_ext _ (Kred_of d k0)); [intros; symmetry; apply HK; assumption|].
  apply Kred_pd_when_convex; assumption.
Qed.

(* ================================================================ Part D : the factorisation never fails *)
Lemma nth_map_combine_seq {A B} (h : nat -> A -> B) (l : list A) s i dA dB : (i < length l)%nat ->
  nth i (map (fun p => h (fst p) (snd p)) (combine (seq s (length l)) l)) dB = h (s + i)%nat (nth i l dA).
Proof.
  revert s i. induction l as [|a l IH]; intros s i Hi; [cbn in Hi; lia|].
  destruct i; cbn [length seq combine map nth fst snd].
  - rewrite Nat.add_0_r. reflexivity.
  - rewrite IH by (cbn in Hi; lia). f_equal. lia.
Qed.

Lemma map_combine_seq_length {A B} (h : nat * A -> B) (l : list A) s :
  length (map h (combine (seq s (length l)) l)) = length l.
Proof. rewrite map_length, combine_length, seq_length. apply Nat.min_id. Qed.

(* the diagonal shift of regularize_kkt, as the model writes it *)
Definition reg_rows (r : F) (M : list Vec) : list Vec :=
  map (fun ir => map (fun jv => if Nat.eqb (fst jv) (fst ir) then snd jv + r else snd jv)
                     (combine (seq 0 (length (snd ir))) (snd ir)))
      (combine (seq 0 (length M)) M).

Lemma reg_rows_length r M : length (reg_rows r M) = length M.
Proof. unfold reg_rows. apply map_combine_seq_length. Qed.

Lemma nth_reg_rows r M i : (i < length M)%nat ->
  nth i (reg_rows r M) [] =
  map (fun jv => if Nat.eqb (fst jv) i then snd jv + r else snd jv) (combine (seq 0 (length (nth i M []))) (nth i M [])).
Proof.
  intros Hi. unfold reg_rows.
  exact (nth_map_combine_seq (fun i0 (row : Vec) =>
     map (fun jv => if Nat.eqb (fst jv) i0 then snd jv + r else snd jv) (combine (seq 0 (length row)) row)) M 0 i [] [] Hi).
Qed.

Lemma reg_rows_wf r M : wf_lower M -> wf_lower (reg_rows r M).
Proof.
  intros H i Hi. rewrite reg_rows_length in Hi. rewrite nth_reg_rows by assumption.
  rewrite map_combine_seq_length. apply H. assumption.
Qed.

Lemma Afun_reg_rows r M i j : (i < length M)%nat -> (j < length (nth i M []))%nat ->
  Afun (reg_rows r M) i j = Afun M i j + (if Nat.eqb j i then r else 0).
Proof.
  intros Hi Hj. unfold Afun. rewrite nth_reg_rows by assumption.
  etransitivity;
    [exact (nth_map_combine_seq (fun j0 (v : F) => if Nat.eqb j0 i then v + r else v) (nth i M []) 0 j 0 0 Hj)|].
  cbn [plus]. destruct (Nat.eqb j i); cbv iota; unfold Mat, Vec, F in *; ring.
Qed.

Lemma Asym_reg_rows r M i j : wf_lower M -> (i < length M)%nat -> (j < length M)%nat ->
  Asym (reg_rows r M) i j = Asym M i j + (if Nat.eqb i j then r else 0).
Proof.
  intros Hwf Hi Hj. unfold Asym. destruct (Nat.leb_spec j i).
  - rewrite Afun_reg_rows by (rewrite ?Hwf by assumption; nlia). rewrite (Nat.eqb_sym j i). reflexivity.
  - rewrite Afun_reg_rows by (rewrite ?Hwf by assumption; nlia). reflexivity.
Qed.

Lemma reg_rows_pd r M : wf_lower M -> 0 <= r -> pos_def (length M) (Asym M) -> pos_def (length (reg_rows r M)) (Asym (reg_rows r M)).
Proof.
  intros Hwf Hr Hpd. rewrite reg_rows_length. intros x Hx.
  rewrite (quad_form_ext _ _ (fun i j => Asym M i j + (if Nat.eqb i j then r else 0)) x x);
    [|intros; apply Asym_reg_rows; assumption | reflexivity].
  rewrite quad_add, quad_diag. apply Qc_add_pos_nonneg; [apply Hpd; assumption|].
  apply sum_nonneg. intros i Hi. apply Qc_mul_nonneg; [assumption | apply Qc_sq_nonneg].
Qed.

(* a state whose matrix is well shaped and positive definite *)
Definition kkt_pd (k : KKT) : Prop := wf_lower (k_mat k) /\ pos_def (length (k_mat k)) (Asym (k_mat k)).

Theorem regularize_and_factorize_pd (S : Settings) d k refine :
  kkt_pd k -> exists f, regularize_and_factorize S d k refine false = Ok (k <| k_fact := Some f |>, true).
Proof.
  intros [Hwf Hpd]. unfold regularize_and_factorize. cbv zeta.
  match goal with |- context [llt_compute ?rows] =>
    match rows with map _ (combine (seq 0 (length (k_mat k))) (k_mat k)) =>
      match rows with context [snd _ + ?r] => change rows with (reg_rows r (k_mat k)); set (rho_reg := r) end end end.
  assert (Hr : 0 <= rho_reg).
  { unfold rho_reg. destruct refine; [apply qmax_ge_l | apply Qcle_refl]. }
  destruct (pd_implies_llt_success (reg_rows rho_reg (k_mat k)) (reg_rows_wf _ _ Hwf) (reg_rows_pd _ _ Hwf Hr Hpd)) as [f Hf].
  exists f. rewrite Hf. reflexivity.
Qed.

(* (3) dense back end: on a convex problem with positive regularisation and positive scalings the factorisation
   succeeds -- with or without the static regularisation of the refinement mode *)
Theorem convex_never_numerics_dense (S : Settings) d k0 k refine :
  wf_data d -> wf_scal d k0 -> ((0 < d_p d)%nat -> k_ATA k0 = compute_ATA d) ->
  0 < k_rho k0 -> pos_scal d k0 -> P_psd d ->
  update_kkt d k0 = Ok k ->
  exists f, regularize_and_factorize S d k refine false = Ok (k <| k_fact := Some f |>, true).
Proof.
  intros Hd Hk HATA Hrho Hpos HP Hupd. apply regularize_and_factorize_pd.
  destruct (kmat_pd_when_convex d k0 k Hd Hk HATA Hrho Hpos HP Hupd) as (Lmat & Hwf & Hpd).
  split; [assumption|]. rewrite Lmat. assumption.
Qed.

(* ---------------------------------------------------------------- consequences for the IPM loop (IPM.v) *)
Lemma set_head_length {A} (w v : list A) : (length w <= length v)%nat -> length (set_head w v) = length v.
Proof. intros H. unfold set_head. rewrite app_length, skipn_length. lia. Qed.

Lemma nth_set_head {A} (w v : list A) i dflt : (i < length w)%nat -> nth i (set_head w v) dflt = nth i w dflt.
Proof. intros H. unfold set_head. apply app_nth1. assumption. Qed.

(* shape of the parts of the KKT state that update_kkt does not rebuild *)
Definition kkt_shape (d : Data) (kk : KKT) : Prop :=
  (d_nlb d <= length (k_s_lb kk))%nat /\ (d_nlb d <= length (k_z_lb_inv kk))%nat /\
  (d_nub d <= length (k_s_ub kk))%nat /\ (d_nub d <= length (k_z_ub_inv kk))%nat /\
  ((0 < d_p d)%nat -> k_ATA kk = compute_ATA d).

(* interior iterate: slacks and multipliers strictly positive (active prefixes of the box blocks) *)
Definition iter_pos (d : Data) (s s_lb s_ub z z_lb z_ub : Vec) : Prop :=
  length s = d_m d /\ length z = d_m d /\
  (forall l, (l < d_m d)%nat -> 0 < nth l s 0 /\ 0 < nth l z 0) /\
  (d_nlb d <= length s_lb)%nat /\ (d_nlb d <= length z_lb)%nat /\
  (forall i, (i < d_nlb d)%nat -> 0 < nth i s_lb 0 /\ 0 < nth i z_lb 0) /\
  (d_nub d <= length s_ub)%nat /\ (d_nub d <= length z_ub)%nat /\
  (forall i, (i < d_nub d)%nat -> 0 < nth i s_ub 0 /\ 0 < nth i z_ub 0).

Lemma kkt_update_scalings_pd d kk rho delta s s_lb s_ub z z_lb z_ub k :
  wf_data d -> P_psd d -> kkt_shape d kk -> 0 < rho -> 0 < delta ->
  iter_pos d s s_lb s_ub z z_lb z_ub ->
  kkt_update_scalings d kk rho delta s s_lb s_ub z z_lb z_ub = Ok k ->
  kkt_pd k /\ kkt_shape d k.
Proof.
  intros Hd HP (K1 & K2 & K3 & K4 & K5) Hrho Hdelta (Ls & Lz & Ps & Lslb & Lzlb & Plb & Lsub & Lzub & Pub) H.
  unfold kkt_update_scalings in H.
  apply bind_ok in H as (zi & Hzi & H). apply bind_ok in H as (zlbi & Hzlbi & H). apply bind_ok in H as (zubi & Hzubi & H).
  apply vinv_ok in Hzi as [Lzi Nzi]. apply vinv_ok in Hzlbi as [Lzlbi Nzlbi]. apply vinv_ok in Hzubi as [Lzubi Nzubi].
  rewrite head_length in Lzlbi, Nzlbi by assumption. rewrite head_length in Lzubi, Nzubi by assumption.
  match type of H with update_kkt d ?kx = _ => set (k0 := kx) in * end.
  assert (E1 : k_rho k0 = rho) by (destruct kk; reflexivity).
  assert (E2 : k_delta k0 = delta) by (destruct kk; reflexivity).
  assert (E3 : k_s k0 = s) by (destruct kk; reflexivity).
  assert (E4 : k_s_lb k0 = set_head (head (d_nlb d) s_lb) (k_s_lb kk)) by (destruct kk; reflexivity).
  assert (E5 : k_s_ub k0 = set_head (head (d_nub d) s_ub) (k_s_ub kk)) by (destruct kk; reflexivity).
  assert (E6 : k_z_inv k0 = zi) by (destruct kk; reflexivity).
  assert (E7 : k_z_lb_inv k0 = set_head zlbi (k_z_lb_inv kk)) by (destruct kk; reflexivity).
  assert (E8 : k_z_ub_inv k0 = set_head zubi (k_z_ub_inv kk)) by (destruct kk; reflexivity).
  assert (E9 : k_ATA k0 = k_ATA kk) by (destruct kk; reflexivity).
  assert (Hwf0 : wf_scal d k0).
  { unfold wf_scal. rewrite E3, E4, E5, E6, E7, E8.
    rewrite !set_head_length by (rewrite ?head_length by assumption; nlia). repeat split; nlia. }
  assert (Hpos0 : pos_scal d k0).
  { unfold pos_scal. rewrite E2, E3, E4, E5, E6, E7, E8. split; [assumption|]. split; [|split].
    - intros l Hl. split; [apply Ps; assumption|].
      destruct (Nzi l ltac:(nlia)) as [_ ->]. apply Qc_inv_pos. apply Ps. assumption.
    - intros i Hi. rewrite !nth_set_head by (rewrite ?head_length by assumption; nlia).
      rewrite nth_head by assumption. split; [apply Plb; assumption|].
      destruct (Nzlbi i Hi) as [_ ->]. rewrite nth_head by assumption. apply Qc_inv_pos. apply Plb. assumption.
    - intros i Hi. rewrite !nth_set_head by (rewrite ?head_length by assumption; nlia).
      rewrite nth_head by assumption. split; [apply Pub; assumption|].
      destruct (Nzubi i Hi) as [_ ->]. rewrite nth_head by assumption. apply Qc_inv_pos. apply Pub. assumption. }
  assert (HATA0 : (0 < d_p d)%nat -> k_ATA k0 = compute_ATA d) by (intros; rewrite E9; auto).
  assert (Hrho0 : 0 < k_rho k0) by (rewrite E1; assumption).
  destruct (kmat_pd_when_convex d k0 k Hd Hwf0 HATA0 Hrho0 Hpos0 HP H) as (Lmat & Hwf & Hpd).
  split; [split; [assumption | rewrite Lmat; assumption]|].
  destruct (update_kkt_denotes_Kred d k0 k Hd Hwf0 HATA0 H) as (Ek & _).
  destruct (set_k_mat_proj k0 (k_mat k)) as (_ & _ & _ & _ & M5 & M6 & _ & M8 & M9 & M10 & _).
  rewrite <- Ek in M5, M6, M8, M9, M10. destruct Hwf0 as (_ & _ & W3 & W4 & W5 & W6).
  unfold kkt_shape. rewrite M5, M6, M8, M9, M10. exact (conj W3 (conj W4 (conj W5 (conj W6 HATA0)))).
Qed.

Section Pass.
  Variable K : Consts.
  Variable S : Settings.
  Variable d : Data.
  Variable pc : Precond.
  Variable cp : F -> F.
  Local Notation nofault := (fun _ : nat => false).

  Lemma do_factorize_pd st : kkt_pd (st_kkt st) ->
    exists f, do_factorize S d nofault st
              = Ok (st <| st_kkt := (st_kkt st) <| k_fact := Some f |> |> <| st_calls := Datatypes.S (st_calls st) |>, true).
  Proof.
    intros H. unfold do_factorize. destruct (regularize_and_factorize_pd S d (st_kkt st) (st_refine st) H) as [f Hf].
    exists f. rewrite Hf. reflexivity.
  Qed.

  (* initial factorisation: succeeds at the first attempt, refinement flag and Info untouched *)
  Theorem init_factor_convex fuel st : kkt_pd (st_kkt st) ->
    exists st1, init_factor K S d nofault (Datatypes.S fuel) st = Ok (st1, true) /\
                st_refine st1 = st_refine st /\ st_inf st1 = st_inf st /\ st_it st1 = st_it st.
  Proof.
    intros H. destruct (do_factorize_pd st H) as [f Hf]. cbn [init_factor]. rewrite Hf. cbn [bind].
    eexists. split; [reflexivity|]. destruct st. repeat split.
  Qed.

  (* update_scalings followed by factorize, as in the main loop *)
  Theorem update_then_factorize_convex st st4 :
    wf_data d -> P_psd d -> kkt_shape d (st_kkt st) ->
    0 < i_rho (st_inf st) -> 0 < i_delta (st_inf st) ->
    iter_pos d (s (st_it st)) (s_lb (st_it st)) (s_ub (st_it st)) (z (st_it st)) (z_lb (st_it st)) (z_ub (st_it st)) ->
    do_update_scalings d st = Ok st4 ->
    kkt_pd (st_kkt st4) /\ kkt_shape d (st_kkt st4) /\
    exists st5, do_factorize S d nofault st4 = Ok (st5, true) /\
                st_refine st5 = st_refine st /\ st_inf st5 = st_inf st /\ st_it st5 = st_it st /\
                kkt_shape d (st_kkt st5).
  Proof.
    intros Hd HP Hsh Hrho Hdelta Hit H. unfold do_update_scalings in H.
    apply bind_ok in H as (k & Hk & H). injection H as <-.
    destruct (kkt_update_scalings_pd _ _ _ _ _ _ _ _ _ _ _ Hd HP Hsh Hrho Hdelta Hit Hk) as [Hpd Hsh'].
    assert (E : st_kkt (st <| st_kkt := k |>) = k) by (destruct st; reflexivity).
    rewrite E. split; [assumption|]. split; [assumption|].
    destruct (do_factorize_pd (st <| st_kkt := k |>)) as [f Hf]; [rewrite E; assumption|].
    eexists. split; [exact Hf|].
    assert (Hsh5 : kkt_shape d (k <| k_fact := Some f |>)).
    { destruct (set_k_fact_proj k (Some f)) as (_ & _ & _ & _ & F5 & F6 & _ & F8 & F9 & F10 & _).
      unfold kkt_shape. rewrite F5, F6, F8, F9, F10. exact Hsh'. }
    destruct st. split; [reflexivity|]. split; [reflexivity|]. split; [reflexivity|]. exact Hsh5.
  Qed.
End Pass.

(* ---------------------------------------------------------------- one pass of the main loop *)
Lemma update_nr_residuals_reg d pc K it inf r inf' :
  update_nr_residuals d pc K it inf = Ok (r, inf') ->
  i_rho inf' = i_rho inf /\ i_delta inf' = i_delta inf.
Proof.
  unfold update_nr_residuals. cbv zeta. intros H.
  apply bind_ok in H as (t1 & _ & H). apply bind_ok in H as (t2 & _ & H).
  apply bind_ok in H as (xlb & _ & H). apply bind_ok in H as (xub & _ & H).
  injection H as _ <-. destruct inf. split; reflexivity.
Qed.

(* one head let of the left-hand side becomes a local definition (no substitution) *)
Ltac zeta1 H :=
  match type of H with
  | (let x := ?v in @?b x) = ?r =>
      let x' := fresh x in pose (x' := v); change (b x' = r) in H; cbv beta in H
  end.
Ltac bind1 H :=
  let a := fresh "a" in
  apply bind_ok in H as (a & _ & H);
  match type of a with (_ * _)%type => destruct a | _ => idtac end;
  cbv beta iota in H.

Lemma pos_shift (b : bool) eps (v : Vec) n : 0 <= eps -> (n <= length v)%nat ->
  (forall l, (l < n)%nat -> 0 < nth l v 0) ->
  (n <= length (if b then vaddc eps v else v))%nat /\
  forall l, (l < n)%nat -> 0 < nth l (if b then vaddc eps v else v) 0.
Proof.
  intros He Hn Hp. destruct b; [|split; assumption].
  rewrite vaddc_length. split; [assumption|]. intros l Hl. rewrite nth_vaddc by lia.
  apply Qc_add_pos_nonneg; [apply Hp; assumption | assumption].
Qed.

Section Pass2.
  Variable K : Consts.
  Variable S : Settings.
  Variable d : Data.
  Variable pc : Precond.
  Variable cp : F -> F.
  Local Notation nofault := (fun _ : nat => false).

  Theorem loop_pass_never_numerics st o :
    wf_data d -> P_psd d -> 0 <= k_eps K -> kkt_shape d (st_kkt st) ->
    0 < i_rho (st_inf st) -> 0 < i_delta (st_inf st) ->
    iter_pos d (s (st_it st)) (s_lb (st_it st)) (s_ub (st_it st)) (z (st_it st)) (z_lb (st_it st)) (z_ub (st_it st)) ->
    loop_pass K S d pc nofault cp st = Ok o ->
    match o with
    | Stop st' => i_status (st_inf st') <> NUMERICS
    | Continue st' => st_refine st' = st_refine st
    end.
  Proof.
    intros Hd HP Heps Hsh Hrho Hdelta Hit H. cbv delta [loop_pass] in H. cbv beta in H.
    zeta1 H.
    apply bind_ok in H as ([res0 inf0a] & H0 & H). cbv beta iota in H.
    assert (Hreg0 : i_rho inf0a = i_rho (st_inf st) /\ i_delta inf0a = i_delta (st_inf st)).
    { unfold inf0 in H0. destruct (i_iter (st_inf st) =? 0)%Z.
      - eapply update_nr_residuals_reg; eassumption.
      - injection H0 as _ <-. split; reflexivity. }
    repeat zeta1 H.
    match type of H with (if ?c then _ else _) = _ => destruct c end.
    { injection H as <-. destruct st, inf1. cbn. discriminate. }
    repeat zeta1 H.
    match type of H with (if ?c then _ else _) = _ => destruct c end.
    { injection H as <-. destruct st, inf1. cbn. discriminate. }
    match type of H with (if ?c then _ else _) = _ => destruct c end.
    { injection H as <-. destruct st, inf1. cbn. discriminate. }
    repeat zeta1 H.
    apply bind_ok in H as (inf3 & Hinf3 & H).
    repeat zeta1 H.
    apply bind_ok in H as (st4 & Hst4 & H).
    apply bind_ok in H as ([st5 ok] & Hfac & H). cbv beta iota in H.
    (* registration of what the update/factorize pair sees *)
    assert (R1 : i_rho inf1 = i_rho (st_inf st) /\ i_delta inf1 = i_delta (st_inf st)).
    { unfold inf1. destruct Hreg0 as [<- <-]. destruct inf0a. split; reflexivity. }
    assert (R3 : i_rho inf3 = i_rho inf1 /\ i_delta inf3 = i_delta inf1).
    { match type of Hinf3 with (if ?c then _ else _) = _ => destruct c end.
      - apply bind_ok in Hinf3 as (mu & _ & Hinf3). injection Hinf3 as <-. unfold inf2. destruct inf1. split; reflexivity.
      - injection Hinf3 as <-. unfold inf2. destruct inf1. split; reflexivity. }
    assert (R4 : i_rho inf4 = i_rho inf3 /\ i_delta inf4 = i_delta inf3).
    { unfold inf4. match goal with |- context [if ?c then _ else _] => destruct c end; destruct inf3; split; reflexivity. }
    match type of Hst4 with do_update_scalings d ?sx = _ => set (stX := sx) in * end.
    assert (X1 : st_kkt stX = st_kkt st) by (unfold stX, st1; destruct st; reflexivity).
    assert (X2 : st_inf stX = inf4) by (unfold stX, st1; destruct st; reflexivity).
    assert (X3 : st_refine stX = st_refine st) by (unfold stX, st1; destruct st; reflexivity).
    assert (X4 : s (st_it stX) = s (st_it st) /\ s_lb (st_it stX) = s_lb (st_it st) /\ s_ub (st_it stX) = s_ub (st_it st) /\
                 z (st_it stX) = (if sh_z then vaddc (k_eps K) (z (st_it st)) else z (st_it st)) /\
                 z_lb (st_it stX) = (if sh_lb then vaddc (k_eps K) (z_lb (st_it st)) else z_lb (st_it st)) /\
                 z_ub (st_it stX) = (if sh_ub then vaddc (k_eps K) (z_ub (st_it st)) else z_ub (st_it st))).
    { unfold stX, it3, it, st1. clear. destruct st as [it0 ? ? ? ? ?]. destruct it0. cbn. repeat split. }
    destruct X4 as (Y1 & Y2 & Y3 & Y4 & Y5 & Y6).
    destruct Hit as (Ls & Lz & Ps & Lslb & Lzlb & Plb & Lsub & Lzub & Pub).
    assert (HitX : iter_pos d (s (st_it stX)) (s_lb (st_it stX)) (s_ub (st_it stX)) (z (st_it stX)) (z_lb (st_it stX)) (z_ub (st_it stX))).
    { rewrite Y1, Y2, Y3, Y4, Y5, Y6.
      destruct (pos_shift sh_z (k_eps K) (z (st_it st)) (d_m d) Heps ltac:(lia) (fun l Hl => proj2 (Ps l Hl))) as [A1 A2].
      destruct (pos_shift sh_lb (k_eps K) (z_lb (st_it st)) (d_nlb d) Heps Lzlb (fun l Hl => proj2 (Plb l Hl))) as [B1 B2].
      destruct (pos_shift sh_ub (k_eps K) (z_ub (st_it st)) (d_nub d) Heps Lzub (fun l Hl => proj2 (Pub l Hl))) as [C1 C2].
      unfold iter_pos. repeat split; try assumption; try (apply Ps; assumption); try (apply Plb; assumption);
        try (apply Pub; assumption); try (apply A2; assumption); try (apply B2; assumption); try (apply C2; assumption).
      destruct sh_z; [rewrite vaddc_length|]; assumption. }
    assert (HshX : kkt_shape d (st_kkt stX)) by (rewrite X1; assumption).
    assert (HrhoX : 0 < i_rho (st_inf stX)).
    { rewrite X2. destruct R4 as [-> _]. destruct R3 as [-> _]. destruct R1 as [-> _]. assumption. }
    assert (HdeltaX : 0 < i_delta (st_inf stX)).
    { rewrite X2. destruct R4 as [_ ->]. destruct R3 as [_ ->]. destruct R1 as [_ ->]. assumption. }
    destruct (update_then_factorize_convex S d stX st4 Hd HP HshX HrhoX HdeltaX HitX Hst4)
      as (_ & _ & st5' & Hf' & Q1 & Q2 & Q3 & Q4).
    rewrite Hf' in Hfac. injection Hfac as <- <-. cbn [negb] in H. cbv iota in H.
    assert (Href : st_refine st5' = st_refine st) by (rewrite Q1; exact X3).
    clearbody stX. clear Hst4 Hf'.
    repeat zeta1 H.
    match type of H with (if ?c then _ else _) = _ => destruct c end.
    - repeat first [zeta1 H | bind1 H].
      injection H as <-. rewrite <- Href. destruct st5'. reflexivity.
    - repeat first [zeta1 H | bind1 H].
      injection H as <-. rewrite <- Href. destruct st5'. reflexivity.
  Qed.
End Pass2.

(* ================================================================ Part E : concrete instances *)
Lemma all_zero_dec n (x : nat -> Qc) : (forall i, (i < n)%nat -> x i = 0) \/ (exists i, (i < n)%nat /\ x i <> 0).
Proof.
  induction n as [|n IH]; [left; intros; lia|].
  destruct (Qc_eq_dec (x n) 0) as [E|E].
  - destruct IH as [IH|(i & Hi & Hx)].
    + left. intros i Hi. destruct (Nat.eq_dec i n) as [->|]; [assumption | apply IH; lia].
    + right. exists i. split; [lia|assumption].
  - right. exists n. split; [lia|assumption].
Qed.

Lemma pos_def_semidef n K : pos_def n K -> pos_semidef n K.
Proof.
  intros H x. destruct (all_zero_dec n x) as [Hz|Hnz].
  - unfold quad_form. rewrite sum_zero_ext; [apply Qcle_refl|]. intros i Hi.
    apply sum_zero_ext. intros j Hj. rewrite (Hz i Hi). ring.
  - apply Qclt_le_weak. apply H. assumption.
Qed.

(* the convex instance of KKTProofs.v: P = [[2,1],[1,3]], n = 2, p = 1, m = 1, one lower bound *)
Lemma ex_P_psd : P_psd ex_d.
Proof.
  unfold P_psd. apply pos_def_semidef.
  apply (pos_def_ext 2 (Asym [[qofZ 2]; [qofZ 1; qofZ 3]])).
  - intros i j Hi Hj. destruct i as [|[|i]]; destruct j as [|[|j]]; try lia; reflexivity.
  - destruct (llt_compute [[qofZ 2]; [qofZ 1; qofZ 3]]) as [[f|]|] eqn:E; try (vm_compute in E; discriminate).
    apply (llt_success_implies_pd [[qofZ 2]; [qofZ 1; qofZ 3]] f); [|exact E].
    intros i Hi. destruct i as [|[|i]]; [reflexivity | reflexivity | cbn in Hi; lia].
Qed.

Lemma ex_rho_pos : 0 < k_rho ex_k0.
Proof. reflexivity. Qed.

Example ex_convex_factorizes : forall (S : Settings) (refine : bool),
  wf_data ex_d /\ wf_scal ex_d ex_k0 /\ pos_scal ex_d ex_k0 /\ 0 < k_rho ex_k0 /\ P_psd ex_d /\
  exists k f, update_kkt ex_d ex_k0 = Ok k /\
              regularize_and_factorize S ex_d k refine false = Ok (k <| k_fact := Some f |>, true).
Proof.
  intros S refine. split; [apply ex_wf_data|]. split; [apply ex_wf_scal|]. split; [apply ex_pos_scal|].
  split; [apply ex_rho_pos|]. split; [apply ex_P_psd|].
  destruct (update_kkt ex_d ex_k0) as [k|] eqn:Hk; [|vm_compute in Hk; discriminate].
  destruct (convex_never_numerics_dense S ex_d ex_k0 k refine ex_wf_data ex_wf_scal (fun _ => eq_refl)
              ex_rho_pos ex_pos_scal ex_P_psd Hk) as [f Hf].
  exists k, f. split; [reflexivity | exact Hf].
Qed.

(* the same by evaluation (refinement off) *)
Example ex_convex_factorizes_eval :
  match update_kkt ex_d ex_k0 with
  | Ok k => match llt_compute (k_mat k) with Ok (Some _) => true | _ => false end
  | Err _ => false
  end = true.
Proof. vm_compute. reflexivity. Qed.

(* a non-convex instance: n = 1, P = [[-1]], rho = 1/2, no constraints: K_red = -1/2, the factorisation reports failure *)
Definition ex_d_nc : Data :=
  {| d_n := 1; d_p := 0; d_m := 0; d_P := [[qofZ (-1)]]; d_AT := []; d_GT := [];
     d_c := [qofZ 1]; d_b := []; d_h := []; d_lb_idx := []; d_ub_idx := [];
     d_lb_scaling := [qofZ 1]; d_ub_scaling := [qofZ 1]; d_lb_n := []; d_ub := [] |}.
Definition ex_k0_nc : KKT :=
  {| k_rho := qmk 1 2; k_delta := qmk 1 3; k_s := []; k_s_lb := [qofZ 1]; k_s_ub := [qofZ 1];
     k_z_inv := []; k_z_lb_inv := [qofZ 1]; k_z_ub_inv := [qofZ 1]; k_mat := []; k_ATA := []; k_fact := None |}.

Example ex_nonconvex_fails :
  ~ P_psd ex_d_nc /\
  wf_data ex_d_nc /\ wf_scal ex_d_nc ex_k0_nc /\ pos_scal ex_d_nc ex_k0_nc /\ 0 < k_rho ex_k0_nc /\
  exists k, update_kkt ex_d_nc ex_k0_nc = Ok k /\ llt_compute (k_mat k) = Ok None.
Proof.
  split.
  { intros H. specialize (H (fun _ => 1)). revert H. apply Qclt_not_le. vm_compute. reflexivity. }
  split.
  { unfold wf_data. cbn. repeat split; try (repeat constructor); try lia. }
  split; [unfold wf_scal; cbn; repeat split; lia|].
  split.
  { unfold pos_scal. cbn. split; [reflexivity|]. repeat split; intros; lia. }
  split; [reflexivity|].
  destruct (update_kkt ex_d_nc ex_k0_nc) as [k|] eqn:Hk; [|vm_compute in Hk; discriminate].
  exists k. split; [reflexivity|]. injection Hk as <-.
  destruct (llt_compute _) as [[f|]|] eqn:E; [vm_compute in E; discriminate | reflexivity | vm_compute in E; discriminate].
Qed.
