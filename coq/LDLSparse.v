(* LDLSparse.v -- include/piqp/sparse/ldlt.hpp: symbolic and numeric up-looking LDL^T with the work arrays of
   the code, and the triangular solves (C14).

   The state is split into an index part (a function of the sparsity pattern only) and a value part.  The
   numeric phase is given twice: [num_*_i] acts on the index part alone, [num_*] on both; LDLSparseProofs.v
   proves that the second is the first plus value updates (values never influence indices).

   Unspecified memory: [flag] is modelled as [list (option nat)] with None = never written; reading None is an
   error (Err Index), so a successful run never depended on uninitialised flags.  etree uses None for -1. *)
From PIQP Require Import Base CSC.
Local Open Scope Qc_scope.

Definition oeqb (a : option nat) (k : nat) : bool := match a with Some v => (v =? k)%nat | None => false end.
Definition get_init (l : list (option nat)) (i : nat) : res nat :=
  do v <- get l i ;; match v with Some x => Ok x | None => Err Index end.

(* ================= symbolic phase ================= *)
Record sym := mksym {
  s_etree : list (option nat);
  s_Lnnz : list nat;
  s_flag : list (option nat)
}.

(* for (; flag[i] != k; i = etree[i]) { if (etree[i] == -1) etree[i] = k; L_nnz[i]++; flag[i] = k; } *)
Fixpoint sym_walk (fuel : nat) (k i : nat) (s : sym) : res sym :=
  match fuel with
  | O => Err Fuel
  | S fuel =>
    do fi <- get_init (s_flag s) i ;;
    if (fi =? k)%nat then Ok s else
    do e <- get (s_etree s) i ;;
    do et <- match e with None => upd (s_etree s) i (Some k) | Some _ => Ok (s_etree s) end ;;
    do nz <- incr (s_Lnnz s) i ;;
    do fl <- upd (s_flag s) i (Some k) ;;
    do e' <- get et i ;;
    match e' with
    | None => Err Index
    | Some i' => sym_walk fuel k i' (mksym et nz fl)
    end
  end.

Definition sym_step (n : nat) (Ap Ai : list nat) (k : nat) (s : sym) : res sym :=
  do et <- upd (s_etree s) k None ;;
  do fl <- upd (s_flag s) k (Some k) ;;
  do nz <- upd (s_Lnnz s) k 0%nat ;;
  do lo <- get Ap k ;; do p2 <- get Ap (S k) ;;
  for_range lo p2 (fun p s => do i <- get Ai p ;; sym_walk (S n) k i s) (mksym et nz fl).

(* L_cols[0] = 0; L_cols[k+1] = L_cols[k] + L_nnz[k] *)
Definition sym_cols (n : nat) (Lnnz : list nat) : res (list nat) :=
  do lc <- upd (repeat 0%nat (S n)) 0%nat 0%nat ;;
  for_range 0 n (fun k lc => do a <- get lc k ;; do b <- get Lnnz k ;; upd lc (S k) (a + b)%nat) lc.

(* index part of the factorisation object *)
Record ldl_i := mkldli {
  i_etree : list (option nat);
  i_Lcols : list nat;
  i_Lnnz : list nat;
  i_Lind : list nat;
  i_flag : list (option nat);
  i_pattern : list nat
}.
Record ldl_v := mkldlv {
  v_Lvals : list F;
  v_D : list F;
  v_Dinv : list F;
  v_y : list F
}.

Definition symbolic_i (n : nat) (Ap Ai : list nat) : res ldl_i :=
  do s <- for_range 0 n (sym_step n Ap Ai) (mksym (repeat None n) (repeat 0%nat n) (repeat None n)) ;;
  do lc <- sym_cols n (s_Lnnz s) ;;
  do tot <- get lc n ;;
  Ok (mkldli (s_etree s) lc (s_Lnnz s) (repeat 0%nat tot) (s_flag s) (repeat 0%nat n)).

Definition symbolic (A : csc F) : res (ldl_i * ldl_v) :=
  let n := nrows A in
  do li <- symbolic_i n (colptr A) (rowind A) ;;
  Ok (li, mkldlv (repeat 0 (length (i_Lind li))) (repeat 0 n) (repeat 0 n) (repeat 0 n)).

(* ================= numeric phase ================= *)
Section Numeric.
Variable n : nat.
Variables Ap Ai : list nat.
Variable Ax : list F.
Variable etree : list (option nat).
Variable Lcols : list nat.

(* for (len = 0; flag[i] != k; i = etree[i]) { pattern[len++] = i; flag[i] = k; } *)
Fixpoint num_walk (fuel : nat) (k i len : nat) (flag : list (option nat)) (pattern : list nat)
  : res (nat * list (option nat) * list nat) :=
  match fuel with
  | O => Err Fuel
  | S fuel =>
    do fi <- get_init flag i ;;
    if (fi =? k)%nat then Ok (len, flag, pattern) else
    do pattern <- upd pattern len i ;;
    do flag <- upd flag i (Some k) ;;
    do e <- get etree i ;;
    match e with
    | None => Err Index
    | Some i' => num_walk fuel k i' (S len) flag pattern
    end
  end.

(* while (len > 0) pattern[--top] = pattern[--len]; *)
Fixpoint num_push (len top : nat) (pattern : list nat) : res (nat * list nat) :=
  match len with
  | O => Ok (top, pattern)
  | S len' =>
    match top with
    | O => Err Index
    | S top' => do v <- get pattern len' ;; do pattern <- upd pattern top' v ;; num_push len' top' pattern
    end
  end.

(* index effect of one entry p of column k: returns the new top *)
Definition num_entry_i (k p top : nat) (flag : list (option nat)) (pattern : list nat)
  : res (nat * list (option nat) * list nat) :=
  do i <- get Ai p ;;
  do '(len, flag, pattern) <- num_walk (S n) k i 0%nat flag pattern ;;
  do '(top, pattern) <- num_push len top pattern ;;
  Ok (top, flag, pattern).

(* first half of step k on indices: flag[k] = k; L_nnz[k] = 0; pattern of row k *)
Definition num_pattern_i (k : nat) (li : ldl_i) : res (nat * ldl_i) :=
  do fl <- upd (i_flag li) k (Some k) ;;
  do nz <- upd (i_Lnnz li) k 0%nat ;;
  do lo <- get Ap k ;; do p2 <- get Ap (S k) ;;
  do '(top, fl, pat) <- for_range lo p2 (fun p '(top, fl, pat) => num_entry_i k p top fl pat) (n, fl, i_pattern li) ;;
  Ok (top, mkldli (i_etree li) (i_Lcols li) nz (i_Lind li) fl pat).

(* second half on indices, one stack position: L_ind[L_cols[i] + L_nnz[i]] = k; L_nnz[i]++.
   The check i < k is not in the code: it is the index fact that makes D[i] a finished pivot (see the proofs);
   it never fails when the walk stayed below k. *)
Definition num_elim_i (k t : nat) (li : ldl_i) : res ldl_i :=
  do i <- get (i_pattern li) t ;;
  do c <- get Lcols i ;; do z <- get (i_Lnnz li) i ;;
  let p2 := (c + z)%nat in
  do _ <- for_range c p2 (fun p (u : unit) => do r <- get (i_Lind li) p ;; if (r <? n)%nat then Ok tt else Err Index) tt ;;
  if negb (i <? k)%nat then Err Index else
  do li' <- upd (i_Lind li) p2 k ;;
  do nz <- upd (i_Lnnz li) i (S z) ;;
  Ok (mkldli (i_etree li) (i_Lcols li) nz li' (i_flag li) (i_pattern li)).

Definition num_step_i (k : nat) (li : ldl_i) : res ldl_i :=
  do '(top, li) <- num_pattern_i k li ;;
  for_range top n (num_elim_i k) li.

(* ---- with values ---- *)
Definition num_entry (k p : nat) (st : nat * list (option nat) * list nat * list F)
  : res (nat * list (option nat) * list nat * list F) :=
  let '(top, flag, pattern, y) := st in
  do i <- get Ai p ;;
  do a <- get Ax p ;;
  do y <- upd y i a ;;                                     (* y[i] = Ax[p] *)
  do '(len, flag, pattern) <- num_walk (S n) k i 0%nat flag pattern ;;
  do '(top, pattern) <- num_push len top pattern ;;
  Ok (top, flag, pattern, y).

Definition num_elim (k t : nat) (st : ldl_i * ldl_v) : res (ldl_i * ldl_v) :=
  let '(li, lv) := st in
  do i <- get (i_pattern li) t ;;
  do yi <- get (v_y lv) i ;;                               (* T yi = y[i]; y[i] = 0 *)
  do y <- upd (v_y lv) i 0 ;;
  do c <- get Lcols i ;; do z <- get (i_Lnnz li) i ;;
  let p2 := (c + z)%nat in
  do y <- for_range c p2 (fun p y =>                       (* y[L_ind[p]] -= L_vals[p] * yi *)
        do r <- get (i_Lind li) p ;; do l <- get (v_Lvals lv) p ;; do yr <- get y r ;; upd y r (yr - l * yi)) y ;;
  do di <- get (v_D lv) i ;;
  do l_ki <- qdiv yi di ;;                                 (* T l_ki = yi / D[i] *)
  do dk <- get (v_D lv) k ;;
  do D <- upd (v_D lv) k (dk - l_ki * yi) ;;               (* D[k] -= l_ki * yi *)
  do li' <- upd (i_Lind li) p2 k ;;
  do lx <- upd (v_Lvals lv) p2 l_ki ;;
  do nz <- upd (i_Lnnz li) i (S z) ;;
  Ok (mkldli (i_etree li) (i_Lcols li) nz li' (i_flag li) (i_pattern li), mkldlv lx D (v_Dinv lv) y).

(* one step; the boolean tells that D[k] == 0 (the code then returns k) *)
Definition num_step (k : nat) (st : ldl_i * ldl_v) : res (ldl_i * ldl_v * bool) :=
  let '(li, lv) := st in
  do y <- upd (v_y lv) k 0 ;;                              (* y[k] = 0 *)
  do fl <- upd (i_flag li) k (Some k) ;;
  do nz <- upd (i_Lnnz li) k 0%nat ;;
  do lo <- get Ap k ;; do p2 <- get Ap (S k) ;;
  do '(top, fl, pat, y) <- for_range lo p2 (num_entry k) (n, fl, i_pattern li, y) ;;
  do yk <- get y k ;;                                      (* D[k] = y[k]; y[k] = 0 *)
  do D <- upd (v_D lv) k yk ;;
  do y <- upd y k 0 ;;
  do '(li, lv) <- for_range top n (num_elim k)
        (mkldli (i_etree li) (i_Lcols li) nz (i_Lind li) fl pat, mkldlv (v_Lvals lv) D (v_Dinv lv) y) ;;
  do dk <- get (v_D lv) k ;;
  Ok (li, lv, qeqb dk 0).

Fixpoint num_loop (ks : list nat) (st : ldl_i * ldl_v) : res (nat * (ldl_i * ldl_v)) :=
  match ks with
  | [] => Ok (n, st)
  | k :: ks => do '(li, lv, z) <- num_step k st ;; if z then Ok (k, (li, lv)) else num_loop ks (li, lv)
  end.

Fixpoint num_loop_i (ks : list nat) (li : ldl_i) : res ldl_i :=
  match ks with
  | [] => Ok li
  | k :: ks => do li <- num_step_i k li ;; num_loop_i ks li
  end.

End Numeric.

(* factorize_numeric_upper_triangular: returns the count and the new state *)
Definition numeric (A : csc F) (st : ldl_i * ldl_v) : res (nat * (ldl_i * ldl_v)) :=
  let n := nrows A in
  let li := fst st in
  do '(r, (li, lv)) <- num_loop n (colptr A) (rowind A) (vals A) (i_etree li) (i_Lcols li) (seq 0 n) st ;;
  if (r =? n)%nat then
    do dinv <- mapM qinv (v_D lv) ;;                       (* D_inv.array() = D.array().inverse() *)
    Ok (r, (li, mkldlv (v_Lvals lv) (v_D lv) dinv (v_y lv)))
  else Ok (r, (li, lv)).

Definition numeric_i (n : nat) (Ap Ai : list nat) (li : ldl_i) : res ldl_i :=
  num_loop_i n Ap Ai (i_etree li) (i_Lcols li) (seq 0 n) li.

(* ================= solves ================= *)
Section Solve.
Variables (Lcols Lind : list nat) (Lvals Dinv : list F).

Definition lsolve (x : list F) : res (list F) :=
  for_range 0 (length x) (fun j x =>
    do lo <- get Lcols j ;; do p2 <- get Lcols (S j) ;;
    for_range lo p2 (fun p x =>
      do r <- get Lind p ;; do l <- get Lvals p ;; do xj <- get x j ;; do xr <- get x r ;; upd x r (xr - l * xj)) x) x.

Definition dsolve (x : list F) : res (list F) :=
  for_range 0 (length x) (fun j x => do d <- get Dinv j ;; do xj <- get x j ;; upd x j (xj * d)) x.

Definition ltsolve (x : list F) : res (list F) :=
  for_down (length x) (fun j x =>
    do lo <- get Lcols j ;; do p2 <- get Lcols (S j) ;;
    for_range lo p2 (fun p x =>
      do r <- get Lind p ;; do l <- get Lvals p ;; do xj <- get x j ;; do xr <- get x r ;; upd x j (xj - l * xr)) x) x.

Definition solve_inplace (x : list F) : res (list F) :=
  do x <- lsolve x ;; do x <- dsolve x ;; ltsolve x.
End Solve.

Definition ldl_solve (st : ldl_i * ldl_v) (b : list F) : res (list F) :=
  solve_inplace (i_Lcols (fst st)) (i_Lind (fst st)) (v_Lvals (snd st)) (v_Dinv (snd st)) b.

(* whole pipeline on an upper-triangular matrix *)
Definition ldl_factor (A : csc F) : res (nat * (ldl_i * ldl_v)) :=
  do st <- symbolic A ;; numeric A st.
