(* PrecondDense.v -- dense/preconditioner.hpp : RuizEquilibration<T> (init, scale_data both branches,
   unscale_data, limit_scaling, the scale_x / unscale_x family) and IdentityPreconditioner. *)
From PIQP Require Import Base Data.
From RecordUpdate Require Import RecordSet.
Import RecordSetNotations.
Local Open Scope Qc_scope.

#[export] Instance etaData : Settable _ := settable! mkData
  <d_n; d_p; d_m; d_P; d_AT; d_GT; d_c; d_b; d_h; d_lb_idx; d_ub_idx; d_lb_scaling; d_ub_scaling; d_lb_n; d_ub>.

(* preconditioner state.  All arrays have the lengths init() gives them:
   delta, delta_inv : n+p+m ;  delta_lb, delta_ub, delta_lb_inv, delta_ub_inv : n.
   pc_nlb / pc_nub are the preconditioner's own copies of n_lb / n_ub (set in scale_data). *)
Record Precond := mkPrecond {
  pc_ident : bool;                (* IdentityPreconditioner *)
  pc_n : nat; pc_p : nat; pc_m : nat; pc_nlb : nat; pc_nub : nat;
  pc_c : F; pc_delta : Vec; pc_delta_lb : Vec; pc_delta_ub : Vec;
  pc_c_inv : F; pc_delta_inv : Vec; pc_delta_lb_inv : Vec; pc_delta_ub_inv : Vec
}.
#[export] Instance etaPrecond : Settable _ := settable! mkPrecond
  <pc_ident; pc_n; pc_p; pc_m; pc_nlb; pc_nub; pc_c; pc_delta; pc_delta_lb; pc_delta_ub;
   pc_c_inv; pc_delta_inv; pc_delta_lb_inv; pc_delta_ub_inv>.

Definition precond_init (ident : bool) (d : Data) : Precond :=
  let n := d_n d in let p := d_p d in let m := d_m d in
  {| pc_ident := ident; pc_n := n; pc_p := p; pc_m := m; pc_nlb := d_nlb d; pc_nub := d_nub d;
     pc_c := 1; pc_delta := vconst (n + p + m) 1; pc_delta_lb := vconst n 1; pc_delta_ub := vconst n 1;
     pc_c_inv := 1; pc_delta_inv := vconst (n + p + m) 1; pc_delta_lb_inv := vconst n 1; pc_delta_ub_inv := vconst n 1 |}.

Section Ruiz.
Variable K : Consts.
(* sparse/preconditioner.hpp differs from the dense code in the fresh branch of scale_data in two places that matter
   (the model works on the dense form of the matrices, everything else is arithmetically identical):
   (i)  delta_iter_lb / delta_iter_ub (= the memory of delta_lb_inv / delta_ub_inv) are NOT zeroed before the loop,
        they still hold the previous inverses;
   (ii) when scale_cost is set, delta_lb_inv -- the same memory as delta_iter_lb -- is the scratch vector of the cost
        scaling (delta_iter_cost(j) = max |entry| over column j and row j of the already scaled upper-triangular P,
        computed before P is multiplied by gamma), so the loop guard of the NEXT iteration reads it.
   sparse_quirk = true reproduces (i) and (ii); sparse_quirk = false is the dense code. *)
Variable sparse_quirk : bool.

Definition limit_scaling (d : F) : F :=
  if qltb d (k_min_scaling K) then 1 else if qltb (k_max_scaling K) d then k_max_scaling K else d.

(* ---- P_utri scaling: col(k).head(k+1) *= s(k) for all k, then row(k).tail(n-k) *= s(k) for all k:
        entry (i,j) with i<=j (upper incl. diagonal) is multiplied by s(j) and then by s(i); the strict lower
        triangle is untouched. *)
Definition scale_P_utri (s : Vec) (P : Mat) : Mat :=
  map (fun jc => let j := fst jc in
         map (fun ie => let i := fst ie in
                if Nat.leb i j then snd ie * nth j s 0 * nth i s 0 else snd ie)
             (combine (seq 0 (length (snd jc))) (snd jc)))
      (combine (seq 0 (length P)) P).

(* ‖P_utri.col(k).head(k)‖∞ and ‖P_utri.row(k).tail(n-k)‖∞ *)
Definition P_col_head_norm (P : Mat) (k : nat) : F := norm_inf (firstn k (nth k P [])).
Definition P_row_tail_norm (P : Mat) (k : nat) : F := norm_inf (skipn k (mrow P k)).

(* for j<k: v(idx j) := max(v(idx j), w j) *)
Definition scatter_max (v : Vec) (idx : list nat) (w : Vec) : res Vec := scatter_with qmax v idx w.
(* for j<k: w(j) *= v(idx j) *)
Definition mul_gather (w : Vec) (v : Vec) (idx : list nat) : res Vec :=
  do g <- gather v idx ;; Ok (set_head (vmul (head (length idx) w) g) w).

Definition sqrt_inv (v : Vec) : res Vec := mapM (fun x => do r <- sqrtF x ;; qinv r) v.

Record ruiz_st := mkRz { rz_d : Data; rz_pc : Precond; rz_it : Vec; rz_it_lb : Vec; rz_it_ub : Vec }.

(* loop guard:  max(‖1-delta_iter‖∞, ‖1-delta_iter_lb.head(n_lb)‖∞, ‖1-delta_iter_ub.head(n_ub)‖∞) > epsilon *)
Definition ruiz_continue (nlb nub : nat) (it it_lb it_ub : Vec) : bool :=
  let one_minus v := map (fun x => 1 - x) v in
  qltb (k_ruiz_eps K)
       (qmax (qmax (norm_inf (one_minus it)) (norm_inf (one_minus (head nlb it_lb)))) (norm_inf (one_minus (head nub it_ub)))).

Definition ruiz_iter (scale_cost : bool) (st : ruiz_st) : res ruiz_st :=
  let d := rz_d st in let pc := rz_pc st in
  let n := d_n d in let p := d_p d in let m := d_m d in
  let nlb := d_nlb d in let nub := d_nub d in
  (* KKT column norms *)
  let it_x := map (fun k => qmax (qmax (qmax (P_col_head_norm (d_P d) k) (P_row_tail_norm (d_P d) k))
                                       (if Nat.ltb 0 p then norm_inf (mrow (d_AT d) k) else 0))
                                 (if Nat.ltb 0 m then norm_inf (mrow (d_GT d) k) else 0)) (seq 0 n) in
  let it_y := map norm_inf (d_AT d) in
  let it_z := map norm_inf (d_GT d) in
  do it_x1 <- scatter_max it_x (d_lb_idx d) (head nlb (d_lb_scaling d)) ;;
  let it_lb0 := set_head (head nlb (d_lb_scaling d)) (rz_it_lb st) in
  do it_x2 <- scatter_max it_x1 (d_ub_idx d) (head nub (d_ub_scaling d)) ;;
  let it_ub0 := set_head (head nub (d_ub_scaling d)) (rz_it_ub st) in
  let it0 := it_x2 ++ it_y ++ it_z in
  do it1 <- sqrt_inv (map limit_scaling it0) ;;
  do it_lb1 <- sqrt_inv (map limit_scaling it_lb0) ;;
  do it_ub1 <- sqrt_inv (map limit_scaling it_ub0) ;;
  let sx := head n it1 in let sy := segment n p it1 in let sz := tail_from (n + p) it1 in
  let P1 := scale_P_utri sx (d_P d) in
  let c1 := vmul (d_c d) sx in
  let AT1 := mscale_rc sx sy (d_AT d) in
  let GT1 := mscale_rc sx sz (d_GT d) in
  let lbs0 := set_head (vmul (head nlb (d_lb_scaling d)) (head nlb it_lb1)) (d_lb_scaling d) in
  do lbs1 <- mul_gather lbs0 it1 (d_lb_idx d) ;;
  let ubs0 := set_head (vmul (head nub (d_ub_scaling d)) (head nub it_ub1)) (d_ub_scaling d) in
  do ubs1 <- mul_gather ubs0 it1 (d_ub_idx d) ;;
  let delta1 := vmul (pc_delta pc) it1 in
  let dlb1 := set_head (vmul (head nlb (pc_delta_lb pc)) (head nlb it_lb1)) (pc_delta_lb pc) in
  let dub1 := set_head (vmul (head nub (pc_delta_ub pc)) (head nub it_ub1)) (pc_delta_ub pc) in
  do '(P2, c2, cc) <-
     (if scale_cost then
        let g0 := fold_left (fun acc k => acc + qmax (P_col_head_norm P1 k) (P_row_tail_norm P1 k)) (seq 0 n) 0 in
        do g1 <- qdiv g0 (qofnat n) ;;
        let g2 := limit_scaling g1 in
        let g3 := limit_scaling (qmax g2 (norm_inf c1)) in
        do g <- qinv g3 ;;
        Ok (mscale g P1, vscale g c1, pc_c pc * g)
      else Ok (P1, c1, pc_c pc)) ;;
  Ok {| rz_d := d <| d_P := P2 |> <| d_c := c2 |> <| d_AT := AT1 |> <| d_GT := GT1 |>
                  <| d_lb_scaling := lbs1 |> <| d_ub_scaling := ubs1 |>;
        rz_pc := pc <| pc_c := cc |> <| pc_delta := delta1 |> <| pc_delta_lb := dlb1 |> <| pc_delta_ub := dub1 |>;
        rz_it := it1;
        rz_it_lb := (if sparse_quirk && scale_cost
                     then map (fun k => qmax (P_col_head_norm P1 k) (P_row_tail_norm P1 k)) (seq 0 n)
                     else it_lb1);
        rz_it_ub := it_ub1 |}.

Fixpoint ruiz_loop (fuel : nat) (scale_cost : bool) (st : ruiz_st) : res ruiz_st :=
  match fuel with
  | O => Ok st
  | S f =>
      if ruiz_continue (d_nlb (rz_d st)) (d_nub (rz_d st)) (rz_it st) (rz_it_lb st) (rz_it_ub st)
      then do st' <- ruiz_iter scale_cost st ;; ruiz_loop f scale_cost st'
      else Ok st
  end.

(* scale bounds (common tail of scale_data) *)
Definition scale_bounds (pc : Precond) (d : Data) : Data :=
  let n := pc_n pc in let p := pc_p pc in let nlb := pc_nlb pc in let nub := pc_nub pc in
  d <| d_b := vmul (d_b d) (segment n p (pc_delta pc)) |>
    <| d_h := vmul (d_h d) (tail_from (n + p) (pc_delta pc)) |>
    <| d_lb_n := vmul (d_lb_n d) (head nlb (pc_delta_lb pc)) |>
    <| d_ub := vmul (d_ub d) (head nub (pc_delta_ub pc)) |>.

Definition ruiz_scale_data (pc0 : Precond) (d : Data) (reuse scale_cost : bool) (max_it : Z) : res (Precond * Data) :=
  let n := pc_n pc0 in let p := pc_p pc0 in let m := pc_m pc0 in
  let pc := pc0 <| pc_nlb := d_nlb d |> <| pc_nub := d_nub d |> in
  let nlb := d_nlb d in let nub := d_nub d in
  if reuse then
    let sx := head n (pc_delta pc) in let sy := segment n p (pc_delta pc) in let sz := tail_from (n + p) (pc_delta pc) in
    let P1 := scale_P_utri sx (mscale (pc_c pc) (d_P d)) in
    let c1 := vmul (d_c d) (vscale (pc_c pc) sx) in
    let AT1 := mscale_rc sx sy (d_AT d) in
    let GT1 := mscale_rc sx sz (d_GT d) in
    let lbs0 := set_head (vmul (head nlb (d_lb_scaling d)) (head nlb (pc_delta_lb pc))) (d_lb_scaling d) in
    do lbs1 <- mul_gather lbs0 (pc_delta pc) (d_lb_idx d) ;;
    let ubs0 := set_head (vmul (head nub (d_ub_scaling d)) (head nub (pc_delta_ub pc))) (d_ub_scaling d) in
    do ubs1 <- mul_gather ubs0 (pc_delta pc) (d_ub_idx d) ;;
    let d1 := d <| d_P := P1 |> <| d_c := c1 |> <| d_AT := AT1 |> <| d_GT := GT1 |>
                <| d_lb_scaling := lbs1 |> <| d_ub_scaling := ubs1 |> in
    Ok (pc, scale_bounds pc d1)
  else
    let pc1 := pc <| pc_c := 1 |> <| pc_delta := vconst (n + p + m) 1 |>
                  <| pc_delta_lb := vconst n 1 |> <| pc_delta_ub := vconst n 1 |> in
    let st0 := {| rz_d := d; rz_pc := pc1; rz_it := vconst (n + p + m) 0;
                  rz_it_lb := (if sparse_quirk then pc_delta_lb_inv pc else vconst n 0);
                  rz_it_ub := (if sparse_quirk then pc_delta_ub_inv pc else vconst n 0) |} in
    do st <- ruiz_loop (Z.to_nat max_it) scale_cost st0 ;;
    let pc2 := rz_pc st in
    do ci <- qinv (pc_c pc2) ;;
    do di <- vinv (pc_delta pc2) ;;
    do dlbi <- vinv (pc_delta_lb pc2) ;;
    do dubi <- vinv (pc_delta_ub pc2) ;;
    (* delta_inv, delta_lb_inv, delta_ub_inv were used as scratch storage; all three are rewritten completely *)
    let pc3 := pc2 <| pc_c_inv := ci |> <| pc_delta_inv := di |>
                   <| pc_delta_lb_inv := dlbi |>
                   <| pc_delta_ub_inv := dubi |> in
    Ok (pc3, scale_bounds pc3 (rz_d st)).

Definition ruiz_unscale_data (pc : Precond) (d : Data) : res Data :=
  let n := pc_n pc in let p := pc_p pc in let nlb := pc_nlb pc in let nub := pc_nub pc in
  let sx := head n (pc_delta_inv pc) in let sy := segment n p (pc_delta_inv pc) in let sz := tail_from (n + p) (pc_delta_inv pc) in
  let P1 := scale_P_utri sx (mscale (pc_c_inv pc) (d_P d)) in
  let c1 := vmul (d_c d) (vscale (pc_c_inv pc) sx) in
  let AT1 := mscale_rc sx sy (d_AT d) in
  let GT1 := mscale_rc sx sz (d_GT d) in
  let lbs0 := set_head (vmul (head nlb (d_lb_scaling d)) (head nlb (pc_delta_lb_inv pc))) (d_lb_scaling d) in
  do lbs1 <- mul_gather lbs0 (pc_delta_inv pc) (firstn nlb (d_lb_idx d)) ;;
  let ubs0 := set_head (vmul (head nub (d_ub_scaling d)) (head nub (pc_delta_ub_inv pc))) (d_ub_scaling d) in
  do ubs1 <- mul_gather ubs0 (pc_delta_inv pc) (firstn nub (d_ub_idx d)) ;;
  Ok (d <| d_P := P1 |> <| d_c := c1 |> <| d_AT := AT1 |> <| d_GT := GT1 |>
        <| d_lb_scaling := lbs1 |> <| d_ub_scaling := ubs1 |>
        <| d_b := vmul (d_b d) sy |> <| d_h := vmul (d_h d) sz |>
        <| d_lb_n := vmul (d_lb_n d) (head nlb (pc_delta_lb_inv pc)) |>
        <| d_ub := vmul (d_ub d) (head nub (pc_delta_ub_inv pc)) |>).

End Ruiz.

(* IdentityPreconditioner: every operation is the identity *)
Definition scale_data (K : Consts) (sparse_quirk : bool) (pc : Precond) (d : Data) (reuse scale_cost : bool) (max_it : Z) : res (Precond * Data) :=
  if pc_ident pc then Ok (pc <| pc_nlb := d_nlb d |> <| pc_nub := d_nub d |>, d) else ruiz_scale_data K sparse_quirk pc d reuse scale_cost max_it.
Definition unscale_data (pc : Precond) (d : Data) : res Data :=
  if pc_ident pc then Ok d else ruiz_unscale_data pc d.

(* ---- the unscale_* family used by solver.hpp (vectors of the packed lengths) ---- *)
Section Unscale.
Variable pc : Precond.
Let n := pc_n pc. Let p := pc_p pc. Let nlb := pc_nlb pc. Let nub := pc_nub pc.
Definition dx_ := head n (pc_delta pc).
Definition dy_ := segment n p (pc_delta pc).
Definition dz_ := tail_from (n + p) (pc_delta pc).
Definition dxi_ := head n (pc_delta_inv pc).
Definition dyi_ := segment n p (pc_delta_inv pc).
Definition dzi_ := tail_from (n + p) (pc_delta_inv pc).
Definition unscale_cost (v : F) : F := pc_c_inv pc * v.
Definition unscale_primal (x : Vec) : Vec := vmul x dx_.
Definition unscale_dual_eq (y : Vec) : Vec := vmul (vscale (pc_c_inv pc) y) dy_.
Definition unscale_dual_ineq (z : Vec) : Vec := vmul (vscale (pc_c_inv pc) z) dz_.
Definition unscale_dual_lb (z : Vec) : Vec := vmul (vscale (pc_c_inv pc) z) (head nlb (pc_delta_lb pc)).
Definition unscale_dual_ub (z : Vec) : Vec := vmul (vscale (pc_c_inv pc) z) (head nub (pc_delta_ub pc)).
Definition unscale_slack_ineq (s : Vec) : Vec := vmul s dzi_.
Definition unscale_slack_lb (s : Vec) : Vec := vmul s (head nlb (pc_delta_lb_inv pc)).
Definition unscale_slack_ub (s : Vec) : Vec := vmul s (head nub (pc_delta_ub_inv pc)).
Definition unscale_primal_res_eq (r : Vec) : Vec := vmul r dyi_.
Definition unscale_primal_res_ineq (r : Vec) : Vec := vmul r dzi_.
Definition unscale_primal_res_lb (r : Vec) : Vec := vmul r (head nlb (pc_delta_lb_inv pc)).
Definition unscale_primal_res_ub (r : Vec) : Vec := vmul r (head nub (pc_delta_ub_inv pc)).
Definition unscale_dual_res (r : Vec) : Vec := vmul (vscale (pc_c_inv pc) r) dxi_.
End Unscale.
