(* SolveCallsShiftProofs.v -- the factorisation-call counter [sv_calls] exists only to index the fault oracle of hook H1:
   solve() depends on (fault, sv_calls) only through  k |-> fault (sv_calls + k).  Two runs whose oracles agree from the
   respective counters on produce the same result, with counters that keep their offset. *)
From PIQP Require Import Base Data Bounds PrecondDense KKTDense IPM API InteriorProofs IPMControlProofs
                         JunkProofs JunkShapeProofs JunkAPIProofs UpdateFreshSolveProofs.
From Coq Require Import Lia.
From RecordUpdate Require Import RecordSet.
Import RecordSetNotations.
Local Open Scope Qc_scope.

Section Shift.
Variable K : Consts.
Variable S : Settings.
Variable d : Data.
Variable pc : Precond.
Variable cp : F -> F.
Variables f1 f2 : nat -> bool.
Variables c1 c2 : nat.
Hypothesis Hf : forall k, f1 (c1 + k)%nat = f2 (c2 + k)%nat.

Definition st_shift (a b : St) : Prop :=
  st_it a = st_it b /\ st_inf a = st_inf b /\ st_kkt a = st_kkt b /\ st_refine a = st_refine b /\ st_res a = st_res b /\
  exists n, st_calls a = (c1 + n)%nat /\ st_calls b = (c2 + n)%nat.

Definition out_shift (a b : Outcome) : Prop :=
  match a, b with
  | Continue x, Continue y => st_shift x y
  | Stop x, Stop y => st_shift x y
  | _, _ => False
  end.

Ltac split_shift H :=
  match type of H with
  | st_shift ?a ?b =>
      let it := fresh "it" in let inf := fresh "inf" in let k := fresh "k" in let rf := fresh "rf" in
      let rs := fresh "rs" in let ca := fresh "ca" in
      let it' := fresh "it" in let inf' := fresh "inf" in let k' := fresh "k" in let rf' := fresh "rf" in
      let rs' := fresh "rs" in let cb := fresh "cb" in
      let n := fresh "n" in let Ha := fresh "Ha" in let Hb := fresh "Hb" in
      destruct a as [it inf k rf rs ca]; destruct b as [it' inf' k' rf' rs' cb];
      unfold st_shift in H; cbn [st_it st_inf st_kkt st_refine st_res st_calls] in H;
      destruct H as (<- & <- & <- & <- & <- & (n & Ha & Hb))
  end.

Lemma shift_mk it inf k rf rs n : st_shift (mkSt it inf k rf rs (c1 + n)) (mkSt it inf k rf rs (c2 + n)).
Proof. repeat split. exists n. auto. Qed.

Lemma do_update_scalings_shift a b : st_shift a b -> RR st_shift (do_update_scalings d a) (do_update_scalings d b).
Proof.
  intros H. split_shift H. subst. unfold do_update_scalings. cbn [st_it st_inf st_kkt].
  destruct (kkt_update_scalings _ _ _ _ _ _ _ _ _ _) as [k'|]; cbn; [|reflexivity]. apply shift_mk.
Qed.

Lemma do_factorize_shift a b :
  st_shift a b -> RR (fun x y => st_shift (fst x) (fst y) /\ snd x = snd y) (do_factorize S d f1 a) (do_factorize S d f2 b).
Proof.
  intros H. split_shift H. subst. unfold do_factorize. cbn [st_kkt st_refine st_calls]. rewrite Hf.
  destruct (regularize_and_factorize _ _ _ _ _) as [[k' ok]|]; cbn; [|reflexivity].
  split; [|reflexivity]. replace (Datatypes.S (c1 + n)) with (c1 + Datatypes.S n)%nat by lia.
  replace (Datatypes.S (c2 + n)) with (c2 + Datatypes.S n)%nat by lia. apply shift_mk.
Qed.

Lemma init_factor_shift fuel : forall a b,
  st_shift a b ->
  RR (fun x y => st_shift (fst x) (fst y) /\ snd x = snd y) (init_factor K S d f1 fuel a) (init_factor K S d f2 fuel b).
Proof.
  induction fuel as [|f IH]; intros a b H; cbn [init_factor]; [reflexivity|].
  eapply RR_bind; [apply do_factorize_shift; exact H|].
  intros [a1 ok1] [b1 ok2] [H1 E]. cbn [fst snd] in H1, E. subst ok2.
  destruct ok1; [cbn; auto|].
  split_shift H1. subst. cbn [st_refine st_inf].
  destruct (negb rf).
  { apply IH. apply shift_mk. }
  destruct (i_factor_retires inf <? max_factor_retires S)%Z.
  - eapply RR_bind.
    + apply do_update_scalings_shift. apply shift_mk.
    + intros a2 b2 H2. apply IH. exact H2.
  - cbn. split; [|reflexivity]. apply shift_mk.
Qed.

Lemma initial_point_shift a b :
  st_shift a b -> RR st_shift (initial_point K S d cp a) (initial_point K S d cp b).
Proof.
  intros H. split_shift H. subst. cbv delta [initial_point]. cbv beta.
  cbv beta iota delta [st_kkt st_refine st_it st_inf].
  repeat rr_step.
  all: cbn; apply shift_mk.
Qed.

Lemma loop_pass_shift a b :
  st_shift a b -> RR out_shift (loop_pass K S d pc f1 cp a) (loop_pass K S d pc f2 cp b).
Proof.
  intros H. split_shift H. subst. cbv delta [loop_pass]. cbv beta.
  cbv beta iota delta [st_res st_it st_inf].
  repeat rr_step.
  1-3: cbn; apply shift_mk.
  eapply RR_bind.
  { apply do_update_scalings_shift. apply shift_mk. }
  intros st4 st4' H4.
  eapply RR_bind.
  { apply do_factorize_shift. exact H4. }
  intros [st5 ok] [st5' ok'] [H5 E]. cbn [fst snd] in H5, E. subst ok'. clear H4 st4 st4'.
  split_shift H5. subst.
  cbv beta iota delta [st_refine st_it st_inf st_kkt].
  repeat rr_step.
  all: cbn; apply shift_mk.
Qed.

Lemma main_loop_shift fuel : forall a b,
  st_shift a b -> RR st_shift (main_loop K S d pc f1 cp fuel a) (main_loop K S d pc f2 cp fuel b).
Proof.
  induction fuel as [|f IH]; intros a b H; cbn [main_loop]; [reflexivity|].
  pose proof H as (_ & Hinf & _). rewrite <- Hinf.
  destruct (i_iter (st_inf a) <? max_iter S)%Z.
  - eapply RR_bind; [apply loop_pass_shift; exact H|].
    intros [x|x] [y|y] Ho; cbn in Ho; try contradiction.
    + apply IH. exact Ho.
    + cbn. exact Ho.
  - cbn. split_shift H. subst. cbn. apply shift_mk.
Qed.

End Shift.

(* the solver object with another value of the call counter *)
Definition set_calls (c : nat) (sv : Solver) : Solver :=
  mkSolver (sv_set sv) (sv_data sv) (sv_pc sv) (sv_kkt sv) (sv_kkt_init_state sv) (sv_setup_done sv) (sv_refine sv)
           (sv_info sv) (sv_out sv) c.

(* [b] is [a] with the counter moved from offset c1 to offset c2 *)
Definition sv_shift (c1 c2 : nat) (a b : Solver) : Prop :=
  exists n, sv_calls a = (c1 + n)%nat /\ b = set_calls (c2 + n) a.

Theorem solve_calls_shift K junk cp_bits f1 f2 sv c2 :
  (forall k, f1 (sv_calls sv + k)%nat = f2 (c2 + k)%nat) ->
  RR (fun u v => snd u = snd v /\ sv_shift (sv_calls sv) c2 (fst u) (fst v))
     (solve K junk cp_bits f1 sv) (solve K junk cp_bits f2 (set_calls c2 sv)).
Proof.
  intros Hf. rewrite !solve_unfold.
  change (sv_kkt_init_state (set_calls c2 sv)) with (sv_kkt_init_state sv).
  change (sv_data (set_calls c2 sv)) with (sv_data sv).
  set (c1 := sv_calls sv) in *.
  assert (H0 : st_shift c1 c2 (solve_st0 sv) (solve_st0 (set_calls c2 sv))).
  { unfold solve_st0, set_calls. cbn. do 5 (split; [reflexivity|]). exists 0%nat. cbn. unfold c1. split; lia. }
  eapply RR_bind.
  { destruct (sv_kkt_init_state sv); [exact H0|]. apply do_update_scalings_shift. exact H0. }
  intros st1 st1' H1. unfold solve_rest, solve_init.
  change (sv_set (set_calls c2 sv)) with (sv_set sv). change (sv_data (set_calls c2 sv)) with (sv_data sv).
  change (sv_pc (set_calls c2 sv)) with (sv_pc sv). cbv zeta.
  assert (Fin : forall st st', st_shift c1 c2 st st' ->
            RR (fun u v => snd u = snd v /\ sv_shift c1 c2 (fst u) (fst v))
               (solve_fin junk sv st (st_it st)) (solve_fin junk (set_calls c2 sv) st' (st_it st'))).
  { intros st st' (A1 & A2 & A3 & A4 & A5 & (n & Ha & Hb)). unfold solve_fin. rewrite <- A1, <- A2, <- A3, <- A4, Ha, Hb.
    change (unscale_and_restore junk (set_calls c2 sv) (st_it st)) with (unscale_and_restore junk sv (st_it st)).
    destruct (unscale_and_restore junk sv (st_it st)) as [out|]; cbn [bind]; [|reflexivity].
    cbn. split; [reflexivity|]. exists n. split; [reflexivity|]. destruct sv; reflexivity. }
  eapply RR_bind; [apply (init_factor_shift K _ _ f1 f2 c1 c2 Hf); exact H1|].
  intros [st2 ok] [st2' ok'] [H2 E]. cbn [fst snd] in H2, E. subst ok'.
  destruct ok; cbn [negb]; cbv iota; [|apply Fin; exact H2].
  eapply RR_bind.
  { apply (initial_point_shift K (sv_set sv) (sv_data sv) (round_cp cp_bits) c1 c2). destruct H2 as (A1 & A2 & A3 & A4 & A5 & (n & Ha & Hb)). unfold st_shift. cbn. rewrite A2. do 5 (split; [assumption || reflexivity|]). exists n; auto. }
  intros st3 st3' H3.
  eapply RR_bind; [apply (main_loop_shift K _ _ _ _ f1 f2 c1 c2 Hf); exact H3|].
  intros st4 st4' H4. apply Fin. exact H4.
Qed.
