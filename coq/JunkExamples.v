(* JunkExamples.v -- C07: concrete histories (non-vacuity of the theorems of JunkHistoryProofs.v) and the concrete
   witnesses of the two refuted statements.  Everything here is evaluated with vm_compute on the model. *)
From PIQP Require Import Base Data Bounds PrecondDense KKTDense IPM API InteriorProofs PrecondProofs InteriorExamples
                         JunkProofs JunkAPIProofs JunkWFProofs JunkDeltaProofs JunkHistoryProofs JunkDeltaPosProofs.
From PIQP.gen Require Import Consts.
Local Open Scope Qc_scope.

(* minimise x1^2 + x2^2 + x1 + x2 ; setup: -3 <= x1 (one finite lower bound);
   update: new P (same values) and the bounds -1/4 <= x1, -1/2 <= x2 (two finite lower bounds) ; solve *)
Definition hP : Mat := [[qmk 2 1; qmk 0 1]; [qmk 0 1; qmk 2 1]].
Definition hB0 : Blocks :=
  {| b_P := Some hP; b_c := Some [qmk 1 1; qmk 1 1]; b_A := None; b_b := None; b_G := None; b_h := None;
     b_lb := Some [Fin (qmk (-3) 1); NInf]; b_ub := None |}.
Definition hB1 : Blocks :=
  {| b_P := Some hP; b_c := None; b_A := None; b_b := None; b_G := None; b_h := None;
     b_lb := Some [Fin (qmk (-1) 4); Fin (qmk (-1) 2)]; b_ub := None |}.
Definition hops : list Op := [OSetup ex_settings 2 0 0 hB0; OUpdate hB1 true; OSolve].
Definition hfault : nat -> bool := fun _ => false.
Definition hrun (ident : bool) (j : F) : list Obs * option err := run consts ident false 16 hfault j None hops.

Definition hj1 : F := 0.
Definition hj2 : F := qmk 7 2.

Example sane_consts_consts : sane_consts consts.
Proof. unfold sane_consts. repeat split; vm_compute; reflexivity || discriminate. Qed.

Lemma wf_hP : wf_mat 2 2 hP.
Proof. split; [reflexivity|repeat constructor]. Qed.

Example hops_ok : ops_ok None hops.
Proof.
  cbn [ops_ok hops]. split; [|split; [|exact I]].
  - unfold setup_blocks_ok, hB0. cbn [b_P b_c b_A b_b b_G b_h b_lb b_ub].
    repeat apply conj; try reflexivity; intros x E; inversion E; subst; try reflexivity. exact wf_hP.
  - unfold update_blocks_ok, hB1. cbn [b_P b_c b_A b_b b_G b_h b_lb b_ub].
    repeat apply conj; try reflexivity; intros x E; inversion E; subst; try reflexivity. exact wf_hP.
Qed.

(* the regularisation stored in the KKT object is positive when update() is called *)
Example hops_delta_ok_ident : delta_ok consts true false 16 hfault hj1 None hops.
Proof. vm_compute. repeat split. Qed.
Example hops_delta_ok_ruiz : delta_ok consts false false 16 hfault hj1 None hops.
Proof. vm_compute. repeat split. Qed.

(* the theorem applies: both preconditioners *)
Example history_junk_independent_ident : hrun true hj1 = hrun true hj2.
Proof. exact (junk_independence_fresh consts true false 16 hfault sane_consts_consts hj1 hj2 hops hops_ok hops_delta_ok_ident). Qed.
Example history_junk_independent_ruiz : hrun false hj1 = hrun false hj2.
Proof. exact (junk_independence_fresh consts false false 16 hfault sane_consts_consts hj1 hj2 hops hops_ok hops_delta_ok_ruiz). Qed.

(* ... and the history is a real one: three calls return, the last one SOLVED with both lower bounds active in the
   result (z_lb > 0 at both coordinates), in particular the slot that became active through update() *)
Definition hsummary (r : list Obs * option err) :=
  (snd r, map (fun o => fst (fst o)) (fst r),
   match nth_error (fst r) 2 with
   | Some o => (map this (o_x (snd (fst o))), map (fun q => qltb 0 q) (o_z_lb (snd (fst o))))
   | None => ([], [])
   end).
Example history_is_real :
  hsummary (hrun true hj1) = (None, [None; None; Some SOLVED], ([(-8203 # 32768)%Q; (-4071 # 8192)%Q], [true; true])).
Proof. vm_compute. reflexivity. Qed.

(* the same evaluated directly with the second junk value (independent of the theorem) *)
Example history_is_real_j2 :
  hsummary (hrun true hj2) = (None, [None; None; Some SOLVED], ([(-8203 # 32768)%Q; (-4071 # 8192)%Q], [true; true])).
Proof. vm_compute. reflexivity. Qed.

(* ---- the never-written slots ARE read by update(): the KKT matrix after setup(); update() depends on junk ---- *)
Definition state_after (ident : bool) (j : F) (ops : list Op) : option Solver :=
  fold_left (fun st op => match step consts ident false 16 hfault j st op with Ok (st', _) => st' | Err _ => st end) ops None.

Definition hmat (j : F) : list (list Q) :=
  match state_after true j [OSetup ex_settings 2 0 0 hB0; OUpdate hB1 true] with
  | Some sv => map (map this) (k_mat (sv_kkt sv))
  | None => []
  end.

(* slot 1 of m_s_lb / m_z_lb_inv was never written: the (2,2) entry is P22 + rho + 1/(junk*junk + delta) *)
Example update_reads_unwritten_slots :
  hmat hj1 = [[(3217 # 1088)%Q]; [0%Q; (1153 # 64)%Q]] /\ hmat hj2 = [[(3217 # 1088)%Q]; [0%Q; (26437 # 12608)%Q]].
Proof. split; vm_compute; reflexivity. Qed.

(* hence "update() keeps the agreement of everything but the tails" is false: the strong relation does not survive an
   update() that enlarges the bound pattern (the weak one, sv_agree, does: update_agree_ok) *)
Definition dummy_sv : Solver :=
  {| sv_set := ex_settings; sv_data := ex_dummy_d; sv_pc := precond_init true ex_dummy_d; sv_kkt := ex_dummy_k;
     sv_kkt_init_state := false; sv_setup_done := false; sv_refine := false; sv_info := empty_info ex_settings;
     sv_out := zero_out 0 0 0; sv_calls := 0 |}.
Definition get_sv (r : res Solver) : Solver := match r with Ok s => s | Err _ => dummy_sv end.
Definition ha : Solver := Eval vm_compute in get_sv (setup consts true false hj1 ex_settings 2 0 0 hB0).
Definition hb : Solver := Eval vm_compute in get_sv (setup consts true false hj2 ex_settings 2 0 0 hB0).
Definition ha' : Solver := Eval vm_compute in get_sv (update consts false ha hB1 true).
Definition hb' : Solver := Eval vm_compute in get_sv (update consts false hb hB1 true).
Lemma ha_eq : setup consts true false hj1 ex_settings 2 0 0 hB0 = Ok ha. Proof. vm_compute. reflexivity. Qed.
Lemma hb_eq : setup consts true false hj2 ex_settings 2 0 0 hB0 = Ok hb. Proof. vm_compute. reflexivity. Qed.
Lemma ha'_eq : update consts false ha hB1 true = Ok ha'. Proof. vm_compute. reflexivity. Qed.
Lemma hb'_eq : update consts false hb hB1 true = Ok hb'. Proof. vm_compute. reflexivity. Qed.

Theorem update_strong_agreement_refuted :
  ~ (forall K sq a b B reuse a' b', sv_agree_strong a b -> update K sq a B reuse = Ok a' -> update K sq b B reuse = Ok b' ->
       sv_agree_strong a' b').
Proof.
  intros H.
  pose proof (setup_junk_indep consts true false hj1 hj2 ex_settings 2 0 0 hB0) as Hs. rewrite ha_eq, hb_eq in Hs.
  specialize (H consts false ha hb hB1 true ha' hb' Hs ha'_eq hb'_eq). destruct H as [_ [_ Hm]].
  vm_compute in Hm. discriminate Hm.
Qed.

(* ---- without delta > 0 the junk becomes observable: update() fails for one junk value only ---- *)
Definition bad_settings : Settings :=
  {| rho_init := rho_init ex_settings; delta_init := qmk (-4) 1;
     eps_abs := eps_abs ex_settings; eps_rel := eps_rel ex_settings;
     check_duality_gap := true; eps_duality_gap_abs := eps_duality_gap_abs ex_settings;
     eps_duality_gap_rel := eps_duality_gap_rel ex_settings;
     reg_lower_limit := reg_lower_limit ex_settings; reg_finetune_lower_limit := reg_finetune_lower_limit ex_settings;
     reg_finetune_primal_update_threshold := 7; reg_finetune_dual_update_threshold := 5;
     max_iter := 250; max_factor_retires := 10;
     preconditioner_scale_cost := false; preconditioner_iter := 10;
     tau := tau ex_settings;
     iterative_refinement_always_enabled := false;
     iterative_refinement_eps_abs := iterative_refinement_eps_abs ex_settings;
     iterative_refinement_eps_rel := iterative_refinement_eps_rel ex_settings;
     iterative_refinement_max_iter := 10;
     iterative_refinement_min_improvement_rate := iterative_refinement_min_improvement_rate ex_settings;
     iterative_refinement_static_regularization_eps := iterative_refinement_static_regularization_eps ex_settings;
     iterative_refinement_static_regularization_rel := iterative_refinement_static_regularization_rel ex_settings |}.
Definition bad_ops : list Op := [OSetup bad_settings 2 0 0 hB0; OUpdate hB1 true].

Example bad_settings_rejected : verify_settings bad_settings = false.
Proof. vm_compute. reflexivity. Qed.

(* delta = -4.  junk = 2: the never-written slot gives 2*2 + delta = 0; junk = 3: 3*3 + delta = 5 *)
Example update_status_depends_on_junk :
  map (fun o => fst (fst o)) (fst (run consts true false 16 hfault (qmk 2 1) None bad_ops)) = [None] /\
  snd (run consts true false 16 hfault (qmk 2 1) None bad_ops) = Some DivZero /\
  map (fun o => fst (fst o)) (fst (run consts true false 16 hfault (qmk 3 1) None bad_ops)) = [None; None] /\
  snd (run consts true false 16 hfault (qmk 3 1) None bad_ops) = None.
Proof. repeat split; vm_compute; reflexivity. Qed.

(* T1 without the hypothesis on the regularisation is false in the model *)
Theorem junk_independence_unconditional_refuted :
  ~ (forall K ident sparse_pc cp_bits fault j1 j2 ops, sane_consts K -> ops_ok None ops ->
       run K ident sparse_pc cp_bits fault j1 None ops = run K ident sparse_pc cp_bits fault j2 None ops).
Proof.
  intros H.
  assert (HO : ops_ok None bad_ops).
  { cbn [ops_ok bad_ops]. destruct hops_ok as (A & B & _). split; [exact A|split; [exact B|exact I]]. }
  specialize (H consts true false 16%Z hfault (qmk 2 1) (qmk 3 1) bad_ops sane_consts_consts HO).
  apply (f_equal snd) in H. destruct update_status_depends_on_junk as (_ & E1 & _ & E2).
  rewrite E1, E2 in H. discriminate H.
Qed.

(* ... and the weaker theorem still applies to that history: the observations agree as far as both runs go *)
Example bad_history_prefix_compatible :
  prefix_compat (fst (run consts true false 16 hfault (qmk 2 1) None bad_ops)) (fst (run consts true false 16 hfault (qmk 3 1) None bad_ops)).
Proof.
  assert (HO : ops_ok None bad_ops).
  { cbn [ops_ok bad_ops]. destruct hops_ok as (A & B & _). split; [exact A|split; [exact B|exact I]]. }
  exact (proj1 (junk_independence_partial consts true false 16 hfault sane_consts_consts (qmk 2 1) (qmk 3 1) bad_ops
                  None None None I I I HO)).
Qed.

(* ---- unscale_and_restore alone: the padding is not read ---- *)
Example restore_ignores_padding :
  match state_after true hj1 hops with
  | Some sv =>
      let it := entry_iterate (sv_data sv) (sv_out sv) in
      unscale_and_restore (qmk 5 1) sv it = unscale_and_restore (qmk (-9) 7) sv it /\
      (exists o, unscale_and_restore (qmk 5 1) sv it = Ok o /\ d_nlb (sv_data sv) = 2%nat /\ d_nub (sv_data sv) = 0%nat)
  | None => False
  end.
Proof. vm_compute. split; [reflexivity|eexists; repeat split]. Qed.

(* ---- interleaving of two instances with different junk, preconditioner and rounding ---- *)
Example interleaving_example :
  let stp := step_tot consts (fun i => Nat.eqb i 0) (fun _ => false) (fun i => if Nat.eqb i 0 then hj1 else hj2) (fun _ => 16%Z)
                      (fun _ => hfault) in
  let l := [(0%nat, OSetup ex_settings 2 0 0 hB0); (1%nat, OSetup ex_settings 2 0 0 hB0); (1%nat, OUpdate hB1 true);
            (0%nat, OUpdate hB1 true); (1%nat, OSolve); (0%nat, OSolve)] in
  outs_of _ 0 (run_inter _ _ _ stp (fun _ => None) l) = run_seq _ _ _ stp 0 None hops /\
  outs_of _ 1 (run_inter _ _ _ stp (fun _ => None) l) = run_seq _ _ _ stp 1 None hops.
Proof. cbv zeta. split; apply no_shared_state. Qed.

(* ---- the hypotheses of junk_independence_valid_settings hold for the generated constants and the example ---- *)
Example consts_ok : ConstsOK consts.
Proof. unfold ConstsOK. repeat split; try (vm_compute; reflexivity). vm_compute. discriminate. Qed.
Example ex_settings_ok : SettingsOK ex_settings.
Proof. unfold SettingsOK. repeat split; vm_compute; reflexivity. Qed.
Example hops_valid : ops_valid hops.
Proof. cbn. split; [exact ex_settings_ok|exact I]. Qed.
Example history_junk_independent_by_settings : hrun false hj1 = hrun false hj2.
Proof.
  exact (junk_independence_valid_settings consts false false 16 hfault sane_consts_consts consts_ok hj1 hj2 hops hops_ok hops_valid).
Qed.
(* the Ruiz preconditioner with the loop-guard quirk of sparse/preconditioner.hpp (sparse_pc = true) *)
Example history_junk_independent_sparse_pc :
  run consts false true 16 hfault hj1 None hops = run consts false true 16 hfault hj2 None hops.
Proof.
  exact (junk_independence_valid_settings consts false true 16 hfault sane_consts_consts consts_ok hj1 hj2 hops hops_ok hops_valid).
Qed.
(* the settings of the refutation witness are not covered *)
Example bad_settings_not_ok : ~ SettingsOK bad_settings.
Proof. intros (_ & _ & _ & _ & _ & H & _). vm_compute in H. discriminate H. Qed.
