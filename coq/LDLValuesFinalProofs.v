(* LDLValuesFinalProofs.v -- C14 T1 assembled for ALL sizes: if the sparse factorisation (sparse/ldlt.hpp, model
   LDLSparse.ldl_factor) of a well-formed square upper-triangular CSC matrix without repeated entries reports no
   zero pivot, then L*D*L^T = A entry by entry and solve_inplace returns the solution of A x = b, where A is the
   symmetric matrix whose upper triangle is stored. *)
From PIQP Require Import Base CSC LDLSparse C14LemmasProofs PatternsProofs CSCProofs LDLSolveProofs LDLSparseProofs
  LDLSparseValuesProofs LDLSparseFinalProofs PermuteGenProofs LDLSymbolicGenProofs LDLFillGenProofs LDLNumericGenProofs
  LDLGenFinalProofs LDLValuesGenProofs.
Require Import ZifyBool.
Local Open Scope nat_scope.

(* no row index occurs twice in a column *)
Definition nodup_cols {V} (A : csc V) : Prop :=
  forall j p1 p2, j < ncols A ->
    nth j (colptr A) 0 <= p1 < nth (S j) (colptr A) 0 -> nth j (colptr A) 0 <= p2 < nth (S j) (colptr A) 0 ->
    nth p1 (rowind A) 0 = nth p2 (rowind A) 0 -> p1 = p2.

Theorem ldl_sparse_correct_general (A : csc F) (b : list F) :
  wf_csc A = true -> ncols A = nrows A -> upper_only A = true -> nodup_cols A ->
  let n := nrows A in
  length b = n ->
  forall li lv, ldl_factor A = Ok (n, (li, lv)) ->
    unit_lower_ok n (i_Lcols li) (i_Lind li) (v_Lvals lv) = true /\
    (forall i, i < n -> nth i (v_D lv) 0%Qc <> 0%Qc) /\
    (forall i j, i <= j -> j < n ->
       sum_n (S i) (fun c => Lm_of n li lv j c * nth c (v_D lv) 0 * Lm_of n li lv i c)%Qc = csc_get A i j) /\
    exists x, ldl_solve (li, lv) b = Ok x /\ length x = n /\
      forall i, i < n -> sum_n n (fun j => sym_get A i j * nth j x 0)%Qc = nth i b 0%Qc.
Proof.
  intros Hwf Hsq Hup Hnd n Hb li lv Hf. pose proof Hf as Hf0.
  (* index facts and D_inv *)
  destruct (ldl_factor_total_general A Hwf Hsq Hup) as (r & li2 & lv2 & E & _ & Hnz & _ & Hfull).
  rewrite Hf in E. inversion E; subst r li2 lv2. clear E.
  destruct (Hfull eq_refl) as (Hul & Lc0 & LcS & Lrows & LD & LDinv & HDinv). fold n in Hul, LcS, Lrows, LD, LDinv, HDinv.
  (* the run, with values *)
  assert (P1 : length (colptr A) = S n) by (rewrite (wf_cp_len A Hwf); now rewrite Hsq).
  assert (P2 : forall j, j < n -> nth j (colptr A) 0 <= nth (S j) (colptr A) 0).
  { intros j Hj. apply (wf_col_range A Hwf j). now rewrite Hsq. }
  assert (P3 : forall j, j < n -> nth (S j) (colptr A) 0 <= length (rowind A)).
  { intros j Hj. apply (wf_col_range A Hwf j). now rewrite Hsq. }
  assert (P4 : forall j p, j < n -> nth j (colptr A) 0 <= p < nth (S j) (colptr A) 0 -> nth p (rowind A) 0 <= j).
  { intros j p Hj Hp. apply upper_only_le; auto. now rewrite Hsq. }
  set (lpA := lpf (has_entry (colptr A) (rowind A)) n) in *.
  assert (Plp : forall k i, i < k -> k < n ->
            lpA k i = has_entry (colptr A) (rowind A) i k || existsb (fun c => lpA i c && lpA k c) (seq 0 i)).
  { intros. now apply lpf_eq. }
  destruct (symbolic_i_spec n (colptr A) (rowind A) P1 P2 P3 P4 lpA Plp)
    as (lis & Es & S1 & S2 & S3 & S4 & S5 & S6 & S7 & S8 & S9 & S10 & S11).
  assert (HAnd : forall j p1 p2, j < n -> nth j (colptr A) 0 <= p1 < nth (S j) (colptr A) 0 ->
            nth j (colptr A) 0 <= p2 < nth (S j) (colptr A) 0 -> nth p1 (rowind A) 0 = nth p2 (rowind A) 0 -> p1 = p2).
  { intros j p1 p2 Hj. apply Hnd. rewrite Hsq. exact Hj. }
  pose proof (wf_vals_len A Hwf) as HAx.
  set (lv0 := mkldlv (repeat 0%Qc (length (i_Lind lis))) (repeat 0%Qc n) (repeat 0%Qc n) (repeat 0%Qc n)).
  assert (HV0 : VInv n (colptr A) (rowind A) (vals A) lpA (i_Lcols lis) 0 (lis, lv0)).
  { unfold VInv, lv0. cbn [v_y v_D v_Lvals]. rewrite !repeat_length. split.
    { unfold NumInv. rewrite S9, S10, !repeat_length. repeat (split; auto); intros; lia. }
    split; auto. split; auto. split. { rewrite S9. apply repeat_length. }
    split. { intros r0 Hr0. apply nth_repeat. }
    repeat split; intros; lia. }
  destruct (num_loop_val n (colptr A) (rowind A) (vals A) P1 P2 P3 P4 HAx HAnd lpA Plp (i_etree lis) (i_Lcols lis) S1 S5 S4 S8
              n 0 lis lv0 eq_refl HV0) as (r & li2 & lv2 & EL & HVn).
  unfold ldl_factor, symbolic in Hf. fold n in Hf. rewrite Es in Hf. cbn [bind] in Hf.
  unfold numeric in Hf. cbn [fst] in Hf. fold n in Hf. fold lv0 in Hf.
  change Qc with F in *. rewrite EL in Hf. cbn [bind] in Hf.
  assert (Hres : r = n /\ li2 = li /\ v_Lvals lv = v_Lvals lv2 /\ v_D lv = v_D lv2).
  { destruct (Nat.eqb_spec r n) as [->|Hne].
    - destruct (mapM qinv (v_D lv2)) as [dinv|]; cbn [bind] in Hf; [|discriminate]. inversion Hf; subst. auto.
    - inversion Hf. congruence. }
  destruct Hres as (-> & -> & ELv & ED).
  destruct (HVn eq_refl) as (HNum & _ & _ & _ & _ & _ & HE1 & HE2).
  destruct HNum as (_ & _ & _ & _ & _ & HnzL & _).
  (* the columns of L are the same whether read through L_cols or through L_nnz *)
  assert (ELcols : i_Lcols li = i_Lcols lis).
  { destruct (index_general A Hwf Hsq Hup) as (lis' & li' & Es' & En' & _ & (_ & R2 & _)). fold n in Es', En'.
    rewrite Es in Es'. inversion Es'; subst lis'.
    destruct (numeric_erase A lis li' HAx Es En') as (r' & li3 & lv3 & E3 & _ & _ & _ & Hfull3).
    rewrite Hf0 in E3.
    inversion E3; subst r' li3 lv3. destruct (Hfull3 eq_refl) as (-> & _). exact R2. }
  assert (HLm : forall j c, c < n -> j <> c ->
            Lm_of n li lv j c = Lc (i_Lcols lis) li lv2 j c).
  { intros j c Hc Hne. unfold Lm_of. destruct (Nat.eqb_spec j c); [contradiction|].
    unfold csc_get, Lc, Lcur. cbn [colptr rowind vals]. rewrite ELcols, ELv.
    rewrite S8 by auto. rewrite HnzL by auto.
    replace (nth c (i_Lcols lis) 0 + cntL lpA n c - nth c (i_Lcols lis) 0) with (cntL lpA n c) by lia. reflexivity. }
  assert (HDv : forall c, nth c (v_D lv) 0%Qc = Dv lv2 c) by (intros; unfold Dv; now rewrite ED).
  assert (HP : forall i j, i <= j -> j < n ->
       sum_n (S i) (fun c => Lm_of n li lv j c * nth c (v_D lv) 0 * Lm_of n li lv i c)%Qc = csc_get A i j).
  { intros i j Hij Hj. cbn [sum_n]. unfold Lm_of at 4. rewrite Nat.eqb_refl.
    destruct (Nat.eq_dec i j) as [->|Hne].
    - unfold Lm_of at 3. rewrite Nat.eqb_refl. rewrite HDv. rewrite (HE2 j Hj).
      rewrite (sum_n_ext j _ (fun c => Lc (i_Lcols lis) li lv2 j c * Lc (i_Lcols lis) li lv2 j c * Dv lv2 c)%Qc).
      + unfold aent, csc_get. fring.
      + intros c Hc. rewrite !HLm by lia. rewrite HDv. fring.
    - rewrite (HLm j i) by lia. rewrite HDv.
      assert (G := HE1 j i Hj ltac:(lia)).
      rewrite (sum_n_ext i _ (fun c => Lc (i_Lcols lis) li lv2 i c * Lc (i_Lcols lis) li lv2 j c * Dv lv2 c)%Qc).
      + transitivity (sum_n i (fun c => Lc (i_Lcols lis) li lv2 i c * Lc (i_Lcols lis) li lv2 j c * Dv lv2 c)
                      + Lc (i_Lcols lis) li lv2 j i * Dv lv2 i)%Qc; [fring|]. rewrite G. unfold aent, csc_get. fring.
      + intros c Hc. rewrite !HLm by lia. rewrite HDv. fring. }
  split; [exact Hul|]. split; [exact Hnz|]. split; [exact HP|].
  (* the solve, as in the bounded theorem *)
  destruct (solve_inplace_correct n (i_Lcols li) (i_Lind li) (v_Lvals lv) Hul (v_Dinv lv) LDinv (v_D lv) HDinv b Hb)
    as (x & Ex & Lx & Hx).
  exists x. split; [exact Ex|]. split; auto. intros i Hi. rewrite <- (Hx i Hi).
  apply sum_n_ext. intros j Hj. f_equal.
  assert (Htr : forall p q, p <= q -> q < n -> LDLt n (i_Lcols li) (i_Lind li) (v_Lvals lv) (v_D lv) q p = csc_get A p q).
  { intros p q Hpq Hq. rewrite <- HP by auto. unfold LDLt.
    rewrite (sum_n_trunc n (S p)).
    - apply sum_n_ext. intros c Hc0. reflexivity.
    - lia.
    - intros c Hc1. unfold Lmat at 2. destruct (Nat.eqb_spec p c); [lia|].
      rewrite (lent_upper n _ _ _ Hul p c) by lia. fring. }
  unfold sym_get. destruct (Nat.leb_spec i j).
  - rewrite <- Htr by auto. unfold LDLt. apply sum_n_ext. intros; fring.
  - rewrite <- Htr by lia. reflexivity.
Qed.

(* boolean form of nodup_cols, for concrete instances *)
Definition nodup_colsb {V} (A : csc V) : bool :=
  forallb (fun j => let l := seq (nth j (colptr A) 0) (nth (S j) (colptr A) 0 - nth j (colptr A) 0) in
     forallb (fun p1 => forallb (fun p2 => negb (nth p1 (rowind A) 0 =? nth p2 (rowind A) 0) || (p1 =? p2)) l) l)
    (seq 0 (ncols A)).
Lemma nodup_colsb_ok {V} (A : csc V) : nodup_colsb A = true -> nodup_cols A.
Proof.
  intros H j p1 p2 Hj H1 H2 E. unfold nodup_colsb in H. rewrite forallb_forall in H.
  specialize (H j ltac:(apply in_seq; lia)). cbv zeta in H. rewrite forallb_forall in H.
  specialize (H p1 ltac:(apply in_seq; lia)). rewrite forallb_forall in H.
  specialize (H p2 ltac:(apply in_seq; lia)). rewrite E, Nat.eqb_refl in H. simpl in H. now apply Nat.eqb_eq.
Qed.

(* everything about a successful factorisation in one statement *)
Theorem ldl_sparse_correct_full (A : csc F) (b : list F) :
  wf_csc A = true -> ncols A = nrows A -> upper_only A = true ->
  (forall j p1 p2, j < ncols A ->
     nth j (colptr A) 0 <= p1 < nth (S j) (colptr A) 0 -> nth j (colptr A) 0 <= p2 < nth (S j) (colptr A) 0 ->
     nth p1 (rowind A) 0 = nth p2 (rowind A) 0 -> p1 = p2) ->
  let n := nrows A in let rows := fill n (has_entry (colptr A) (rowind A)) in
  length b = n ->
  forall li lv, ldl_factor A = Ok (n, (li, lv)) ->
    (* L is a unit lower triangular CSC matrix with the pattern predicted by the symbolic phase *)
    unit_lower_ok n (i_Lcols li) (i_Lind li) (v_Lvals lv) = true /\
    nth 0 (i_Lcols li) 0 = 0 /\
    (forall i, i < n -> nth (S i) (i_Lcols li) 0 = nth i (i_Lcols li) 0 + length (fill_col n rows i)) /\
    (forall i u, i < n -> u < length (fill_col n rows i) ->
       nth (nth i (i_Lcols li) 0 + u) (i_Lind li) 0 = nth u (fill_col n rows i) 0) /\
    (* D has no zero and D_inv is its inverse *)
    (forall i, i < n -> nth i (v_D lv) 0%Qc <> 0%Qc /\ (nth i (v_D lv) 0 * nth i (v_Dinv lv) 0)%Qc = 1%Qc) /\
    (* L D L^T = A on the stored triangle *)
    (forall i j, i <= j -> j < n ->
       sum_n (S i) (fun c => Lm_of n li lv j c * nth c (v_D lv) 0 * Lm_of n li lv i c)%Qc = csc_get A i j) /\
    (* solve_inplace solves A x = b *)
    exists x, ldl_solve (li, lv) b = Ok x /\ length x = n /\
      forall i, i < n -> sum_n n (fun j => sym_get A i j * nth j x 0)%Qc = nth i b 0%Qc.
Proof.
  intros Hwf Hsq Hup Hnd n rows Hb li lv Hf.
  destruct (ldl_sparse_correct_general A b Hwf Hsq Hup Hnd Hb li lv Hf) as (Hul & Hnz & HP & Hx).
  destruct (ldl_factor_total_general A Hwf Hsq Hup) as (r & li2 & lv2 & E & _ & _ & _ & Hfull).
  rewrite Hf in E. inversion E; subst r li2 lv2. destruct (Hfull eq_refl) as (_ & Lc0 & LcS & Lrows & _ & _ & HDinv).
  split; [exact Hul|]. split; [exact Lc0|]. split; [exact LcS|]. split; [exact Lrows|].
  split; [intros i Hi; split; [apply Hnz; auto|apply HDinv; auto]|]. split; [exact HP|exact Hx].
Qed.
