(* Properties_C10_sparse.v -- C10, sparse interface: setup keeps the upper triangle of P, update(P) reads only
   the upper triangle of a SORTED caller matrix whose upper triangle has the stored pattern.
   Statements only; the proofs are in SparsePProofs.v, the model in SparseUpdateP.v.
   [triu] is the FAITHFUL model of  P_utri = P.triangularView<Upper>() : per column the longest storage-order prefix of
   entries with row <= column (Eigen's iterator stops at the first entry below the diagonal); [triu_filter] keeps every
   entry with row <= column; they coincide iff [upper_first_cols] (implied by [sorted_cols]). *)
From PIQP Require Import Base CSC SparseUpdateP SparsePProofs.
Local Open Scope nat_scope.

(* 1 *)
Theorem update_reads_upper_only_sparse : forall Pu P : csc F,
  wf_csc Pu = true -> wf_csc P = true ->
  nrows P = nrows Pu -> ncols P = ncols Pu -> nrows P = ncols P ->
  sorted_cols P = true ->
  same_pattern (triu P) Pu ->
  update_P_check Pu P = true /\
  update_P_copy Pu P = Ok (triu P) /\
  exists Pu' : csc F,
    update_P_copy Pu P = Ok Pu' /\
    Pu' = mkcsc (nrows Pu) (ncols Pu) (colptr Pu) (rowind Pu) (vals (triu P)) /\
    same_pattern Pu' Pu /\
    (forall i j, i <= j -> j < ncols P -> csc_get Pu' i j = csc_get P i j) /\
    (forall i j, csc_get Pu' i j = if i <=? j then csc_get P i j else 0%Qc).
Proof. exact update_reads_upper_only_sparse_proof. Qed.
Print Assumptions update_reads_upper_only_sparse.

(* the copy loop reproduces what setup would store from the same caller matrix, sorted or not *)
Theorem update_P_copy_returns_triu : forall Pu P : csc F,
  wf_csc Pu = true -> wf_csc P = true -> same_pattern (triu P) Pu ->
  update_P_copy Pu P = Ok (triu P).
Proof. exact update_P_copy_is_triu_any. Qed.
Print Assumptions update_P_copy_returns_triu.

(* the validation loop accepts; sortedness is not needed for this part *)
Theorem update_P_check_accepts : forall Pu P : csc F,
  wf_csc P = true -> nrows P = ncols Pu -> ncols P = ncols Pu -> same_pattern (triu P) Pu ->
  update_P_check Pu P = true.
Proof. exact update_P_check_ok. Qed.
Print Assumptions update_P_check_accepts.

(* 2 *)
Theorem update_storage_independent_sparse : forall Pu P1 P2 : csc F,
  wf_csc Pu = true ->
  wf_csc P1 = true -> nrows P1 = nrows Pu -> ncols P1 = ncols Pu -> nrows P1 = ncols P1 ->
  sorted_cols P1 = true -> same_pattern (triu P1) Pu ->
  wf_csc P2 = true -> nrows P2 = nrows Pu -> ncols P2 = ncols Pu -> nrows P2 = ncols P2 ->
  sorted_cols P2 = true -> same_pattern (triu P2) Pu ->
  triu P1 = triu P2 ->
  update_P_check Pu P1 = update_P_check Pu P2 /\
  update_P_copy Pu P1 = update_P_copy Pu P2.
Proof. exact update_storage_independent_sparse_proof. Qed.
Print Assumptions update_storage_independent_sparse.

(* 2, semantic form: agreement of the ENTRIES on the upper triangle is enough *)
Theorem update_semantic_independent_sparse : forall Pu P1 P2 : csc F,
  wf_csc Pu = true ->
  wf_csc P1 = true -> sorted_cols P1 = true -> same_pattern (triu P1) Pu ->
  wf_csc P2 = true -> sorted_cols P2 = true -> same_pattern (triu P2) Pu ->
  (forall i j, i <= j -> j < ncols Pu -> csc_get P1 i j = csc_get P2 i j) ->
  update_P_copy Pu P1 = update_P_copy Pu P2.
Proof. exact update_semantic_independent_sparse_proof. Qed.
Print Assumptions update_semantic_independent_sparse.

(* 3: without sortedness the copy loop picks up a strictly-lower entry *)
Theorem update_reads_upper_only_sparse_unsorted_refuted :
  wf_csc cx_Pu = true /\ wf_csc cx_P = true /\
  nrows cx_P = nrows cx_Pu /\ ncols cx_P = ncols cx_Pu /\ nrows cx_P = ncols cx_P /\
  same_pattern (triu_filter cx_P) cx_Pu /\
  sorted_cols cx_P = false /\ upper_first_cols cx_P = false /\
  update_P_check cx_Pu cx_P = true /\
  update_P_copy cx_Pu cx_P = Ok cx_Pu' /\
  same_pattern cx_Pu' cx_Pu /\
  csc_get cx_Pu' 0 0 = qofZ 7 /\ csc_get cx_P 0 0 = qofZ 2 /\
  csc_get cx_Pu' 0 0 <> csc_get cx_P 0 0.
Proof. exact update_reads_upper_only_sparse_unsorted_refuted_proof. Qed.
Print Assumptions update_reads_upper_only_sparse_unsorted_refuted.

Example cx_P_is : cx_P = mkcsc 2 2 [0; 2; 3] [1; 0; 1] [qofZ 7; qofZ 2; qofZ 5].
Proof. reflexivity. Qed.
Example cx_Pu_is : cx_Pu = mkcsc 2 2 [0; 1; 2] [0; 1] [qofZ 0; qofZ 0].
Proof. reflexivity. Qed.
Example cx_Pu'_is : cx_Pu' = mkcsc 2 2 [0; 1; 2] [0; 1] [qofZ 7; qofZ 5].
Proof. reflexivity. Qed.

Theorem update_reads_upper_only_sparse_needs_sorted :
  ~ (forall Pu P : csc F,
       wf_csc Pu = true -> wf_csc P = true ->
       nrows P = nrows Pu -> ncols P = ncols Pu -> nrows P = ncols P ->
       same_pattern (triu P) Pu ->
       exists Pu' : csc F,
         update_P_copy Pu P = Ok Pu' /\
         (forall i j, i <= j -> j < ncols P -> csc_get Pu' i j = csc_get P i j)).
Proof. exact update_reads_upper_only_sparse_needs_sorted_proof. Qed.
Print Assumptions update_reads_upper_only_sparse_needs_sorted.

(* 4: setup.  The entry-wise identity needs that in no column an entry with row <= column is stored after an entry
   with row > column (upper_first_cols; implied by sorted columns) *)
Theorem setup_reads_upper_only_sparse : forall P : csc F,
  wf_csc P = true ->
  nrows (triu P) = nrows P /\ ncols (triu P) = ncols P /\
  wf_csc (triu P) = true /\
  upper_only (triu P) = true /\
  (sorted_cols P = true -> upper_first_cols P = true) /\
  (upper_first_cols P = true -> triu P = triu_filter P) /\
  (upper_first_cols P = true -> forall i j, csc_get (triu P) i j = if i <=? j then csc_get P i j else 0%Qc) /\
  triu (triu P) = triu P /\
  (upper_only P = true -> triu P = P) /\
  (sorted_cols P = true -> sorted_cols (triu P) = true).
Proof. exact setup_reads_upper_only_sparse_proof. Qed.
Print Assumptions setup_reads_upper_only_sparse.

(* 4': the hypothesis is needed, and this is what the code does (harness/drv_updatep.cpp on SparseSolver<double,int>):
   column 0 = [(row 1, 7); (row 0, 2)] is dropped entirely, P_utri = colptr [0,0,2], rowind [0,1], vals [5,6] *)
Theorem setup_reads_upper_only_sparse_unsorted_refuted :
  wf_csc us_P = true /\ sorted_cols us_P = false /\ upper_first_cols us_P = false /\
  triu us_P = us_T /\
  triu_filter us_P = mkcsc 2 2 [0; 1; 3] [0; 0; 1] [qofZ 2; qofZ 5; qofZ 6] /\
  csc_get (triu us_P) 0 0 = 0%Qc /\ csc_get us_P 0 0 = qofZ 2 /\
  csc_get (triu us_P) 0 0 <> csc_get us_P 0 0.
Proof. exact setup_reads_upper_only_sparse_unsorted_refuted_proof. Qed.
Print Assumptions setup_reads_upper_only_sparse_unsorted_refuted.

Example us_P_is : us_P = mkcsc 2 2 [0; 2; 4] [1; 0; 0; 1] [qofZ 7; qofZ 2; qofZ 5; qofZ 6].
Proof. reflexivity. Qed.
Example us_T_is : us_T = mkcsc 2 2 [0; 0; 2] [0; 1] [qofZ 5; qofZ 6].
Proof. reflexivity. Qed.

(* 5: non-vacuity.  [4 1 0; 1 5 2; 0 2 6] stored in full, upper only, and upper + garbage strictly below *)
Example ex_P_full_is :
  ex_P_full = mkcsc 3 3 [0; 2; 5; 7] [0; 1; 0; 1; 2; 1; 2]
                    [qofZ 4; qofZ 1; qofZ 1; qofZ 5; qofZ 2; qofZ 2; qofZ 6].
Proof. reflexivity. Qed.
Example ex_P_upper_is :
  ex_P_upper = mkcsc 3 3 [0; 1; 3; 5] [0; 0; 1; 1; 2] [qofZ 4; qofZ 1; qofZ 5; qofZ 2; qofZ 6].
Proof. reflexivity. Qed.
Example ex_P_garbage_is :
  ex_P_garbage = mkcsc 3 3 [0; 3; 6; 8] [0; 1; 2; 0; 1; 2; 1; 2]
                       [qofZ 4; qofZ 99; qofZ (-7); qofZ 1; qofZ 5; qofZ 42; qofZ 2; qofZ 6].
Proof. reflexivity. Qed.
Example ex_Pu_is :
  ex_Pu = mkcsc 3 3 [0; 1; 3; 5] [0; 0; 1; 1; 2] [qofZ 11; qofZ 12; qofZ 13; qofZ 14; qofZ 15].
Proof. reflexivity. Qed.

(* every hypothesis of (1) holds for the three storages with the same Pu *)
Example ex_hyps :
  update_hyps_b ex_Pu ex_P_full && update_hyps_b ex_Pu ex_P_upper && update_hyps_b ex_Pu ex_P_garbage = true.
Proof. vm_compute. reflexivity. Qed.

Example ex_hyps_props :
  wf_csc ex_Pu = true /\ wf_csc ex_P_garbage = true /\
  nrows ex_P_garbage = nrows ex_Pu /\ ncols ex_P_garbage = ncols ex_Pu /\ nrows ex_P_garbage = ncols ex_P_garbage /\
  sorted_cols ex_P_garbage = true /\ same_pattern (triu ex_P_garbage) ex_Pu.
Proof. apply update_hyps_b_true. vm_compute. reflexivity. Qed.

(* the check accepts and the three runs return the same matrix, which is the upper-only storage *)
Example ex_checks :
  update_P_check ex_Pu ex_P_full && update_P_check ex_Pu ex_P_upper && update_P_check ex_Pu ex_P_garbage = true.
Proof. vm_compute. reflexivity. Qed.

Example ex_results_equal :
  res_csc_eqb (update_P_copy ex_Pu ex_P_full) (update_P_copy ex_Pu ex_P_upper) &&
  res_csc_eqb (update_P_copy ex_Pu ex_P_upper) (update_P_copy ex_Pu ex_P_garbage) &&
  res_csc_eqb (update_P_copy ex_Pu ex_P_garbage) (Ok ex_P_upper) = true.
Proof. vm_compute. reflexivity. Qed.

Example ex_triu_equal :
  csc_eqb (triu ex_P_full) ex_P_upper && csc_eqb (triu ex_P_upper) ex_P_upper &&
  csc_eqb (triu ex_P_garbage) ex_P_upper = true.
Proof. vm_compute. reflexivity. Qed.

(* the values are only moved, so the run can also be compared without the boolean equality *)
Example ex_result_garbage : update_P_copy ex_Pu ex_P_garbage = Ok ex_P_upper.
Proof. vm_compute. reflexivity. Qed.

(* the same through theorem (1) *)
Example ex_result_by_theorem : update_P_copy ex_Pu ex_P_garbage = Ok (triu ex_P_garbage).
Proof.
  destruct ex_hyps_props as (H1 & H2 & H3 & H4 & H5 & H6 & H7).
  exact (proj1 (proj2 (update_reads_upper_only_sparse ex_Pu ex_P_garbage H1 H2 H3 H4 H5 H6 H7))).
Qed.

(* the update is not the identity on the stored values, the storages differ below the diagonal, and only one
   of them is upper-only *)
Example ex_not_trivial :
  res_csc_eqb (update_P_copy ex_Pu ex_P_full) (Ok ex_Pu) = false /\
  qeqb (csc_get ex_P_garbage 1 0) (csc_get ex_P_full 1 0) = false /\
  qeqb (csc_get ex_P_upper 1 0) (csc_get ex_P_full 1 0) = false /\
  upper_only ex_P_upper = true /\ upper_only ex_P_full = false /\ upper_only ex_P_garbage = false.
Proof. repeat split; vm_compute; reflexivity. Qed.
